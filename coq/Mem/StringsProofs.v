(* C01 -- the model (Mem/Strings.v through Mem/Exec.v) satisfies the reference clauses of
   Mem/StringsSpec.v, for all argument byte strings and all well-formed databases. *)
Require Import Base.Bytes Base.GoInt Base.Reply Mem.Types Mem.Inv Mem.Strings Mem.Lists Mem.Exec Mem.StringsSpec.
Require Import Glob.GlobSpec Glob.GlobModel Glob.GlobProofs.
From Coq Require Import ZifyBool.
Local Open Scope Z_scope.

(* ------------------------------------------------------------------ primitive updates *)
Lemma amem_db_get d k : amem k (kv d) = match db_get d k with Some _ => true | None => false end.
Proof. reflexivity. Qed.

Lemma db_get_set d k v k' : db_get (db_set d k v) k' = if bytes_eqb k' k then Some v else db_get d k'.
Proof.
  unfold db_get, db_set; cbn. destruct (bytes_eqb_spec k' k) as [->|N];
    [apply alookup_aset_same|apply alookup_aset_other; exact N].
Qed.
Lemma db_ttl_set d k v k' : db_ttl (db_set d k v) k' = db_ttl d k'.
Proof. reflexivity. Qed.
Lemma db_get_del d k k' : db_get (db_del d k) k' = if bytes_eqb k' k then None else db_get d k'.
Proof.
  unfold db_get, db_del; cbn. destruct (bytes_eqb_spec k' k) as [->|N];
    [apply alookup_aremove_same|apply alookup_aremove_other; exact N].
Qed.
Lemma db_ttl_del d k k' : db_ttl (db_del d k) k' = if bytes_eqb k' k then None else db_ttl d k'.
Proof.
  unfold db_ttl, db_del; cbn. destruct (bytes_eqb_spec k' k) as [->|N];
    [apply alookup_aremove_same|apply alookup_aremove_other; exact N].
Qed.
Lemma db_get_set_ttl d k t k' : db_get (db_set_ttl d k t) k' = db_get d k'.
Proof. unfold db_set_ttl. destruct (amem k (kv d)); reflexivity. Qed.
Lemma db_ttl_set_ttl d k t k' :
  db_ttl (db_set_ttl d k t) k' =
  if bytes_eqb k' k then match db_get d k with Some _ => Some t | None => db_ttl d k end
  else db_ttl d k'.
Proof.
  unfold db_set_ttl. rewrite amem_db_get. destruct (db_get d k) eqn:G.
  - unfold db_ttl; cbn. destruct (bytes_eqb_spec k' k) as [->|N];
      [apply alookup_aset_same|apply alookup_aset_other; exact N].
  - destruct (bytes_eqb_spec k' k) as [->|N]; reflexivity.
Qed.
Lemma db_get_del_ttl d k k' : db_get (db_del_ttl d k) k' = db_get d k'.
Proof. reflexivity. Qed.
Lemma db_ttl_del_ttl d k k' : db_ttl (db_del_ttl d k) k' = if bytes_eqb k' k then None else db_ttl d k'.
Proof.
  unfold db_ttl, db_del_ttl; cbn. destruct (bytes_eqb_spec k' k) as [->|N];
    [apply alookup_aremove_same|apply alookup_aremove_other; exact N].
Qed.

#[export] Hint Rewrite db_get_set db_ttl_set db_get_del db_ttl_del db_get_set_ttl db_ttl_set_ttl
  db_get_del_ttl db_ttl_del_ttl : dbops.

Lemma view_unfold d now k :
  view d now k =
  match db_get d k with
  | None => None
  | Some v => match db_ttl d k with
              | Some t => if t <=? now then None else Some (v, Some t)
              | None => Some (v, None) end
  end.
Proof. unfold view, expired. destruct (db_get d k); [|reflexivity]. destruct (db_ttl d k); reflexivity. Qed.

Lemma wf_ttl_get d k t : db_wf d -> db_ttl d k = Some t -> exists v, db_get d k = Some v.
Proof.
  intros (_ & _ & H3) E. unfold db_ttl in E. apply alookup_Some_in in E. apply H3 in E.
  apply amem_true_iff in E. unfold amem in E. unfold db_get. destruct (alookup k (kv d)); [eauto|discriminate].
Qed.

(* ------------------------------------------------------------------ the live view of a purged db *)
Definition fresh (V : kview) (now : Z) : Prop := forall k v t, V k = Some (v, Some t) -> now < t.

Lemma view_fresh d now : fresh (view d now) now.
Proof.
  intros k v t. rewrite view_unfold. destruct (db_get d k); [|discriminate].
  destruct (db_ttl d k) as [t0|]; [|discriminate].
  destruct (t0 <=? now) eqn:E; [discriminate|]. intros H; inversion H; subst. lia.
Qed.

Lemma upd_same V k e : upd V k e k = e.
Proof. unfold upd. rewrite bytes_eqb_refl. reflexivity. Qed.
Lemma upd_other V k e k' : k' <> k -> upd V k e k' = V k'.
Proof. intros N. unfold upd. destruct (bytes_eqb_spec k' k); [contradiction|reflexivity]. Qed.

(* ------------------------------------------------------------------ error classes of the model *)
Lemma err_other_is_error : is_error err_other.
Proof. eexists; split; reflexivity. Qed.
Lemma err_wrongtype_is_wrongtype : is_wrongtype err_wrongtype.
Proof. eexists; split; reflexivity. Qed.
Lemma is_error_any r : is_error r -> any_error r.
Proof. intros (s & -> & _). eexists; reflexivity. Qed.
Lemma is_wrongtype_any r : is_wrongtype r -> any_error r.
Proof. intros (s & -> & _). eexists; reflexivity. Qed.
#[export] Hint Resolve err_other_is_error err_wrongtype_is_wrongtype is_error_any is_wrongtype_any : c01.

(* ------------------------------------------------------------------ numerals: atoi64 is an admissible reading *)
Fixpoint hu (acc : Z) (u : Decimal.uint) : Z :=
  match u with
  | Decimal.Nil => acc
  | Decimal.D0 r => hu (acc * 10 + 0) r | Decimal.D1 r => hu (acc * 10 + 1) r
  | Decimal.D2 r => hu (acc * 10 + 2) r | Decimal.D3 r => hu (acc * 10 + 3) r
  | Decimal.D4 r => hu (acc * 10 + 4) r | Decimal.D5 r => hu (acc * 10 + 5) r
  | Decimal.D6 r => hu (acc * 10 + 6) r | Decimal.D7 r => hu (acc * 10 + 7) r
  | Decimal.D8 r => hu (acc * 10 + 8) r | Decimal.D9 r => hu (acc * 10 + 9) r
  end.

Lemma of_uint_acc_hu u : forall acc, Z.pos (Pos.of_uint_acc u acc) = hu (Z.pos acc) u.
Proof.
  induction u as [|u IH|u IH|u IH|u IH|u IH|u IH|u IH|u IH|u IH|u IH]; intros acc; cbn [Pos.of_uint_acc hu];
    [reflexivity|..]; rewrite IH; f_equal; lia.
Qed.

Lemma of_uint_hu u : Z.of_N (N.of_uint u) = hu 0 u.
Proof.
  unfold N.of_uint.
  induction u as [|u IH|u IH|u IH|u IH|u IH|u IH|u IH|u IH|u IH|u IH]; cbn [Pos.of_uint hu];
    [reflexivity|exact IH|..]; cbn [Z.of_N]; rewrite of_uint_acc_hu; reflexivity.
Qed.

Lemma bytes_to_uint_horner s : forall u acc, bytes_to_uint s = Some u -> horner acc s = Some (hu acc u).
Proof.
  induction s as [|c s IH]; intros u acc H.
  - inversion H; subst. reflexivity.
  - cbn [bytes_to_uint] in H. destruct (digit_of_byte c) as [f|] eqn:D; [|discriminate].
    destruct (bytes_to_uint s) as [u0|] eqn:E; [|discriminate]. inversion H; subst. clear H.
    cbn [horner].
    destruct c; try discriminate D; cbn in D; inversion D; subst; cbn [digit_val bval Byte.to_N Z.of_N Z.leb Z.compare Pos.compare Pos.compare_cont andb Z.sub Z.add Z.opp Z.pos_sub];
      apply (IH u0); reflexivity.
Qed.

Lemma parse_udec_udigits s n : parse_udec s = Some n -> udigits s = Some (Z.of_N n).
Proof.
  unfold parse_udec, udigits. destruct s as [|c s]; [discriminate|].
  destruct (bytes_to_uint (c :: s)) as [u|] eqn:E; [|discriminate].
  intros H; inversion H; subst. rewrite (bytes_to_uint_horner _ u 0 E). rewrite of_uint_hu. reflexivity.
Qed.

Lemma udigits_head s z : udigits s = Some z ->
  match s with "-"%byte :: _ | "+"%byte :: _ => False | _ => True end.
Proof. unfold udigits. destruct s as [|c s]; [discriminate|]. cbn [horner]. destruct c; cbn; intros H; try discriminate; exact I. Qed.

Lemma parse_int_sign_digits s z : parse_int_unbounded s = Some z -> sign_digits s = Some z.
Proof.
  unfold parse_int_unbounded, sign_digits.
  destruct s as [|c s]; [discriminate|].
  assert (G : forall r, match parse_udec r with Some n => Some (Z.of_N n) | None => None end = Some z ->
                        udigits r = Some z).
  { intros r H. destruct (parse_udec r) eqn:E; [|discriminate]. inversion H; subst. apply parse_udec_udigits; exact E. }
  destruct c; try (intros H; apply G in H; pose proof (udigits_head _ _ H) as Hh; cbn in Hh; exact H).
  - (* - *) intros H. destruct (parse_udec s) eqn:E; [|discriminate]. inversion H; subst.
    rewrite (parse_udec_udigits _ _ E). reflexivity.
Qed.

Theorem atoi64_admissible : admissible atoi64.
Proof.
  split.
  - intros z Hz. apply atoi64_z_to_dec; exact Hz.
  - intros s z H. unfold atoi64 in H. destruct (parse_int_unbounded s) as [z0|] eqn:E; [|discriminate].
    destruct (in_int64 z0) eqn:R; [|discriminate]. inversion H; subst. split; [exact R|].
    apply parse_int_sign_digits; exact E.
Qed.

(* what the model does with the borderline forms: strconv accepts them *)
Lemma atoi64_borderline :
  atoi64 (B "+5") = Some 5 /\ atoi64 (B "007") = Some 7 /\ atoi64 (B "-0") = Some 0 /\
  atoi64 (B "-007") = Some (-7) /\ atoi64 (B "") = None /\ atoi64 (B " 5") = None /\
  atoi64 (B "5 ") = None /\ atoi64 (B "1_0") = None /\ atoi64 (B "0x10") = None /\
  atoi64 (B "9223372036854775808") = None /\ atoi64 (B "-9223372036854775808") = Some (- 2 ^ 63).
Proof. repeat split; vm_compute; reflexivity. Qed.

(* ------------------------------------------------------------------ DEL: sequential deletion vs the clause *)
Lemma mentions_cons k0 r k : mentions (k0 :: r) k = bytes_eqb k k0 || mentions r k.
Proof. reflexivity. Qed.

Lemma del_keys_get keys : forall d n k,
  db_get (snd (del_keys d keys n)) k = if mentions keys k then None else db_get d k.
Proof.
  induction keys as [|k0 r IH]; intros d n k; [reflexivity|].
  cbn [del_keys]. rewrite mentions_cons.
  destruct (db_get d k0); rewrite IH, db_get_del; destruct (bytes_eqb k k0), (mentions r k); reflexivity.
Qed.

Lemma del_keys_ttl keys : forall d n k,
  db_ttl (snd (del_keys d keys n)) k = if mentions keys k then None else db_ttl d k.
Proof.
  induction keys as [|k0 r IH]; intros d n k; [reflexivity|].
  cbn [del_keys]. rewrite mentions_cons.
  destruct (db_get d k0); rewrite IH, db_ttl_del; destruct (bytes_eqb k k0), (mentions r k); reflexivity.
Qed.

Definition has_key (d : db) (k : bytes) : bool := isSome (db_get d k).

Lemma has_key_del d k0 k : has_key (db_del d k0) k = if bytes_eqb k k0 then false else has_key d k.
Proof. unfold has_key. rewrite db_get_del. destruct (bytes_eqb k k0); reflexivity. Qed.

Lemma filter_has_key_del_notin d k0 l : ~ In k0 l -> filter (has_key (db_del d k0)) l = filter (has_key d) l.
Proof.
  intros N. apply filter_ext_in. intros a Ha. rewrite has_key_del.
  destruct (bytes_eqb_spec a k0) as [->|_]; [contradiction|reflexivity].
Qed.

Lemma filter_has_key_del_in d k0 l : NoDup l -> In k0 l ->
  zlength (filter (has_key (db_del d k0)) l) + (if has_key d k0 then 1 else 0) = zlength (filter (has_key d) l).
Proof.
  induction l as [|a l IH]; intros ND Hin; [destruct Hin|].
  inversion ND as [|? ? Hn ND']; subst. cbn [filter]. rewrite has_key_del.
  destruct (bytes_eqb_spec a k0) as [->|N].
  - rewrite (filter_has_key_del_notin d k0 l Hn).
    destruct (has_key d k0); unfold zlength; cbn [List.length]; lia.
  - destruct Hin as [E|Hin]; [congruence|]. specialize (IH ND' Hin).
    destruct (has_key d a); unfold zlength in *; cbn [List.length]; lia.
Qed.

Lemma del_keys_count keys : forall d n,
  fst (del_keys d keys n) = n + zlength (filter (has_key d) (nodup bytes_eq_dec keys)).
Proof.
  induction keys as [|k0 r IH]; intros d n; [cbn; unfold zlength; cbn; lia|].
  cbn [del_keys nodup].
  assert (E : fst (match db_get d k0 with
                   | Some _ => del_keys (db_del d k0) r (n + 1)
                   | None => del_keys (db_del d k0) r n end)
              = n + (if has_key d k0 then 1 else 0) + zlength (filter (has_key (db_del d k0)) (nodup bytes_eq_dec r))).
  { change (has_key d k0) with (isSome (db_get d k0)). destruct (db_get d k0); rewrite IH; cbn [isSome]; lia. }
  rewrite E. destruct (in_dec bytes_eq_dec k0 r) as [Hin|Hn].
  - pose proof (filter_has_key_del_in d k0 (nodup bytes_eq_dec r) (NoDup_nodup _ _)
                  (proj2 (nodup_In _ _ _) Hin)). lia.
  - rewrite filter_has_key_del_notin by (rewrite nodup_In; exact Hn).
    cbn [filter]. destruct (has_key d k0); unfold zlength; cbn [List.length]; lia.
Qed.

(* ------------------------------------------------------------------ MSET: pairwise writes vs the clause *)
Lemma view_mset_step d now k v k' :
  view (db_set (db_del_ttl d k) k (VStr v)) now k' =
  upd (view d now) k (Some (VStr v, None)) k'.
Proof.
  rewrite !view_unfold. autorewrite with dbops. unfold upd.
  destruct (bytes_eqb k' k); [reflexivity|]. rewrite view_unfold. reflexivity.
Qed.

Lemma mset_view_ext ps : forall V1 V2, (forall k, V1 k = V2 k) -> forall k, mset_view V1 ps k = mset_view V2 ps k.
Proof.
  induction ps as [|p ps IH]; intros V1 V2 H k; [apply H|].
  unfold mset_view in *. cbn [fold_left]. apply IH. intros k0. unfold upd. destruct (bytes_eqb k0 (fst p)); [reflexivity|apply H].
Qed.

Lemma mset_pairs_spec now l :
  (forall d, match pairs_of l with
             | Some ps => exists d', mset_pairs d l = Some d' /\ forall k, view d' now k = mset_view (view d now) ps k
             | None => mset_pairs d l = None end) /\
  (forall a d, match pairs_of (a :: l) with
             | Some ps => exists d', mset_pairs d (a :: l) = Some d' /\ forall k, view d' now k = mset_view (view d now) ps k
             | None => mset_pairs d (a :: l) = None end).
Proof.
  induction l as [|b l [IH1 IH2]].
  - split; [intros d; exists d; split; reflexivity|intros a d; reflexivity].
  - split; [apply IH2|].
    intros a d. cbn [pairs_of mset_pairs].
    specialize (IH1 (db_set (db_del_ttl d a) a (VStr b))).
    destruct (pairs_of l) as [ps|]; [|exact IH1].
    destruct IH1 as (d' & E & Hv). exists d'. split; [exact E|].
    intros k. rewrite Hv. unfold mset_view at 2. cbn [fold_left fst snd].
    apply mset_view_ext. intros k0. apply view_mset_step.
Qed.

(* ------------------------------------------------------------------ SET: the option loop vs the token reading *)
Definition so_nx (o : setopts) := mkSetOpts true (o_xx o) (o_get o) (o_keepttl o) (o_ex o) (o_px o) (o_exat o).
Definition so_xx (o : setopts) := mkSetOpts (o_nx o) true (o_get o) (o_keepttl o) (o_ex o) (o_px o) (o_exat o).
Definition so_get (o : setopts) := mkSetOpts (o_nx o) (o_xx o) true (o_keepttl o) (o_ex o) (o_px o) (o_exat o).
Definition so_keep (o : setopts) := mkSetOpts (o_nx o) (o_xx o) (o_get o) true (o_ex o) (o_px o) (o_exat o).
Definition so_ex (n : Z) (o : setopts) := mkSetOpts (o_nx o) (o_xx o) (o_get o) (o_keepttl o) (Some n) (o_px o) (o_exat o).
Definition so_px (n : Z) (o : setopts) := mkSetOpts (o_nx o) (o_xx o) (o_get o) (o_keepttl o) (o_ex o) (Some n) (o_exat o).
Definition so_exat (n : Z) (o : setopts) := mkSetOpts (o_nx o) (o_xx o) (o_get o) (o_keepttl o) (o_ex o) (o_px o) (Some n).

Fixpoint apply_tokens (ts : list sopt) (o : setopts) : option setopts :=
  match ts with
  | [] => Some o
  | ONX :: r => apply_tokens r (so_nx o)
  | OXX :: r => apply_tokens r (so_xx o)
  | OGET :: r => apply_tokens r (so_get o)
  | OKEEPTTL :: r => apply_tokens r (so_keep o)
  | OEX a :: r => match atoi64 a with Some n => apply_tokens r (so_ex n o) | None => None end
  | OPX a :: r => match atoi64 a with Some n => apply_tokens r (so_px n o) | None => None end
  | OEXAT a :: r => match atoi64 a with Some n => apply_tokens r (so_exat n o) | None => None end
  end.

Lemma set_parse_tokens n : forall opts o, (List.length opts <= n)%nat ->
  set_parse opts o = match set_tokens opts with Some ts => apply_tokens ts o | None => None end.
Proof.
  induction n as [|n IH]; intros opts o L.
  - destruct opts; [reflexivity|cbn in L; lia].
  - destruct opts as [|w r]; [reflexivity|]. cbn [List.length] in L.
    cbn [set_parse set_tokens].
    destruct (is (lower w) (B "nx")); [rewrite IH by lia; destruct (set_tokens r); reflexivity|].
    destruct (is (lower w) (B "xx")); [rewrite IH by lia; destruct (set_tokens r); reflexivity|].
    destruct (is (lower w) (B "get")); [rewrite IH by lia; destruct (set_tokens r); reflexivity|].
    destruct (is (lower w) (B "keepttl")); [rewrite IH by lia; destruct (set_tokens r); reflexivity|].
    destruct (is (lower w) (B "exat")) eqn:Eexat.
    { assert (is (lower w) (B "ex") = false) as ->.
      { unfold is in *. apply bytes_eqb_eq in Eexat. rewrite Eexat. reflexivity. }
      assert (is (lower w) (B "px") = false) as ->.
      { unfold is in *. apply bytes_eqb_eq in Eexat. rewrite Eexat. reflexivity. }
      destruct r as [|a r']; [reflexivity|]. cbn [List.length] in L.
      destruct (atoi64 a) eqn:A.
      - rewrite IH by lia. destruct (set_tokens r'); cbn [apply_tokens]; [rewrite A|]; reflexivity.
      - destruct (set_tokens r'); cbn [apply_tokens]; [rewrite A|]; reflexivity. }
    destruct (is (lower w) (B "ex")).
    { destruct r as [|a r']; [reflexivity|]. cbn [List.length] in L.
      destruct (atoi64 a) eqn:A.
      - rewrite IH by lia. destruct (set_tokens r'); cbn [apply_tokens]; [rewrite A|]; reflexivity.
      - destruct (set_tokens r'); cbn [apply_tokens]; [rewrite A|]; reflexivity. }
    destruct (is (lower w) (B "px")).
    { destruct r as [|a r']; [reflexivity|]. cbn [List.length] in L.
      destruct (atoi64 a) eqn:A.
      - rewrite IH by lia. destruct (set_tokens r'); cbn [apply_tokens]; [rewrite A|]; reflexivity.
      - destruct (set_tokens r'); cbn [apply_tokens]; [rewrite A|]; reflexivity. }
    reflexivity.
Qed.

(* what the folded record says, in terms of the token list *)
Definition ormax (a : option Z) (b : option Z) : option Z := match a with Some n => Some n | None => b end.

(* one expiry option: [new] is the last readable argument of [l], or [old] when l is empty *)
Definition chan_ok (l : list bytes) (old new : option Z) : Prop :=
  new = ormax (last_read atoi64 l) old /\ all_read atoi64 l = true /\
  isSome (last_read atoi64 l) = nonempty l.

Lemma chan_cons a n l old new : atoi64 a = Some n -> chan_ok l (Some n) new -> chan_ok (a :: l) old new.
Proof.
  intros A (H1 & H2 & H3). unfold chan_ok, all_read in *. cbn [forallb nonempty]. rewrite A, H2.
  destruct l as [|b l].
  - cbn in H1. subst. cbn. rewrite A. auto.
  - cbn [nonempty] in H3. change (last_read atoi64 (a :: b :: l)) with (last_read atoi64 (b :: l)).
    destruct (last_read atoi64 (b :: l)) as [m|]; [|discriminate].
    cbn in H1. subst. cbn. auto.
Qed.

Lemma apply_tokens_some ts : forall o o',
  apply_tokens ts o = Some o' ->
  (o_nx o' = (o_nx o || t_nx ts) /\ o_xx o' = (o_xx o || t_xx ts) /\ o_get o' = (o_get o || t_get ts) /\
   o_keepttl o' = (o_keepttl o || t_keep ts)) /\
  chan_ok (t_ex ts) (o_ex o) (o_ex o') /\ chan_ok (t_px ts) (o_px o) (o_px o') /\
  chan_ok (t_exat ts) (o_exat o) (o_exat o').
Proof.
  induction ts as [|t ts IH]; intros o o' H.
  - inversion H; subst. cbn. rewrite !orb_false_r. unfold chan_ok. cbn. intuition.
  - destruct t; cbn [apply_tokens] in H; try (destruct (atoi64 a) as [n|] eqn:A; [|discriminate]);
      apply IH in H; clear IH; destruct H as ((H1 & H2 & H3 & H4) & C1 & C2 & C3).
    + change (t_nx (ONX :: ts)) with true. change (t_xx (ONX :: ts)) with (t_xx ts).
      change (t_get (ONX :: ts)) with (t_get ts). change (t_keep (ONX :: ts)) with (t_keep ts).
      change (t_ex (ONX :: ts)) with (t_ex ts). change (t_px (ONX :: ts)) with (t_px ts).
      change (t_exat (ONX :: ts)) with (t_exat ts). cbn in H1, H2, H3, H4, C1, C2, C3.
      rewrite H1, orb_true_r. auto.
    + change (t_nx (OXX :: ts)) with (t_nx ts). change (t_xx (OXX :: ts)) with true.
      change (t_get (OXX :: ts)) with (t_get ts). change (t_keep (OXX :: ts)) with (t_keep ts).
      change (t_ex (OXX :: ts)) with (t_ex ts). change (t_px (OXX :: ts)) with (t_px ts).
      change (t_exat (OXX :: ts)) with (t_exat ts). cbn in H1, H2, H3, H4, C1, C2, C3.
      rewrite H2, orb_true_r. auto.
    + change (t_nx (OGET :: ts)) with (t_nx ts). change (t_xx (OGET :: ts)) with (t_xx ts).
      change (t_get (OGET :: ts)) with true. change (t_keep (OGET :: ts)) with (t_keep ts).
      change (t_ex (OGET :: ts)) with (t_ex ts). change (t_px (OGET :: ts)) with (t_px ts).
      change (t_exat (OGET :: ts)) with (t_exat ts). cbn in H1, H2, H3, H4, C1, C2, C3.
      rewrite H3, orb_true_r. auto.
    + change (t_nx (OKEEPTTL :: ts)) with (t_nx ts). change (t_xx (OKEEPTTL :: ts)) with (t_xx ts).
      change (t_get (OKEEPTTL :: ts)) with (t_get ts). change (t_keep (OKEEPTTL :: ts)) with true.
      change (t_ex (OKEEPTTL :: ts)) with (t_ex ts). change (t_px (OKEEPTTL :: ts)) with (t_px ts).
      change (t_exat (OKEEPTTL :: ts)) with (t_exat ts). cbn in H1, H2, H3, H4, C1, C2, C3.
      rewrite H4, orb_true_r. auto.
    + change (t_nx (OEX a :: ts)) with (t_nx ts). change (t_xx (OEX a :: ts)) with (t_xx ts).
      change (t_get (OEX a :: ts)) with (t_get ts). change (t_keep (OEX a :: ts)) with (t_keep ts).
      change (t_ex (OEX a :: ts)) with (a :: t_ex ts). change (t_px (OEX a :: ts)) with (t_px ts).
      change (t_exat (OEX a :: ts)) with (t_exat ts). cbn in H1, H2, H3, H4, C1, C2, C3.
      pose proof (chan_cons a n _ (o_ex o) _ A C1). auto.
    + change (t_nx (OPX a :: ts)) with (t_nx ts). change (t_xx (OPX a :: ts)) with (t_xx ts).
      change (t_get (OPX a :: ts)) with (t_get ts). change (t_keep (OPX a :: ts)) with (t_keep ts).
      change (t_ex (OPX a :: ts)) with (t_ex ts). change (t_px (OPX a :: ts)) with (a :: t_px ts).
      change (t_exat (OPX a :: ts)) with (t_exat ts). cbn in H1, H2, H3, H4, C1, C2, C3.
      pose proof (chan_cons a n _ (o_px o) _ A C2). auto.
    + change (t_nx (OEXAT a :: ts)) with (t_nx ts). change (t_xx (OEXAT a :: ts)) with (t_xx ts).
      change (t_get (OEXAT a :: ts)) with (t_get ts). change (t_keep (OEXAT a :: ts)) with (t_keep ts).
      change (t_ex (OEXAT a :: ts)) with (t_ex ts). change (t_px (OEXAT a :: ts)) with (t_px ts).
      change (t_exat (OEXAT a :: ts)) with (a :: t_exat ts). cbn in H1, H2, H3, H4, C1, C2, C3.
      pose proof (chan_cons a n _ (o_exat o) _ A C3). auto.
Qed.

Lemma apply_tokens_none ts : forall o, apply_tokens ts o = None ->
  all_read atoi64 (t_ex ts) && all_read atoi64 (t_px ts) && all_read atoi64 (t_exat ts) = false.
Proof.
  induction ts as [|t ts IH]; intros o H; [discriminate|].
  destruct t; cbn [apply_tokens] in H;
    unfold t_ex, t_px, t_exat in *; cbn [flat_map app all_read forallb]; fold (all_read atoi64);
    try (apply IH in H; exact H).
  - destruct (atoi64 a); [apply IH in H; exact H|reflexivity].
  - destruct (atoi64 a); [apply IH in H; exact H|]. cbn [andb]. rewrite andb_false_r. reflexivity.
  - destruct (atoi64 a); [apply IH in H; exact H|]. cbn [andb]. rewrite !andb_false_r. reflexivity.
Qed.

Definition kinds_of (o : setopts) : Z :=
  (if o_keepttl o then 1 else 0) + (if isSome (o_ex o) then 1 else 0)
  + (if isSome (o_px o) then 1 else 0) + (if isSome (o_exat o) then 1 else 0).
Definition deadline_of (now : Z) (o : setopts) : option (option Z) :=
  match o_ex o, o_px o, o_exat o with
  | Some n, _, _ => Some (if (0 <? n) && in_int64 (now + n) then Some (now + n) else None)
  | _, Some n, _ => Some (if 0 <? n then Some (now + (n + 999) / 1000) else None)
  | _, _, Some n => Some (if 0 <? n then Some n else None)
  | None, None, None => None
  end.

Lemma set_decide now o :
  ((o_nx o && o_xx o) || (1 <? kinds_of o)) = false ->
  set_conflict o || ex_overflow now (o_ex o) =
  match deadline_of now o with Some None => true | _ => false end.
Proof.
  destruct o as [nx xx get keep [n1|] [n2|] [n3|]]; unfold kinds_of, deadline_of, set_conflict, ex_overflow, nonpos;
    cbn [o_nx o_xx o_get o_keepttl o_ex o_px o_exat isSome];
    destruct keep, nx, xx; cbn [andb orb negb]; intros H; try discriminate H; try reflexivity;
    try (exfalso; lia).
  all: try (destruct (n1 <=? 0) eqn:L1; destruct (in_int64 (now + n1)) eqn:L2;
            replace (0 <? n1) with (negb (n1 <=? 0)) by lia; rewrite L1; reflexivity).
  all: try (destruct (n2 <=? 0) eqn:L1; replace (0 <? n2) with (negb (n2 <=? 0)) by lia; rewrite L1; reflexivity).
  all: try (destruct (n3 <=? 0) eqn:L1; replace (0 <? n3) with (negb (n3 <=? 0)) by lia; rewrite L1; reflexivity).
Qed.

Lemma set_conflict_bad now o :
  ((o_nx o && o_xx o) || (1 <? kinds_of o)) = true -> set_conflict o || ex_overflow now (o_ex o) = true.
Proof.
  destruct o as [nx xx get keep [n1|] [n2|] [n3|]]; unfold kinds_of, set_conflict, ex_overflow, nonpos;
    cbn [o_nx o_xx o_get o_keepttl o_ex o_px o_exat isSome];
    destruct keep, nx, xx; cbn [andb orb negb]; intros H; try reflexivity; try (exfalso; lia);
    rewrite ?orb_true_r; try reflexivity.
Qed.

(* the decimal library of the model, as the float library of the specification *)
Definition model_floatlib : floatlib :=
  mkFloatLib
    (fun s => match classify_float s with FIn m e => DIn m e | FInvalid => DInvalid | FOut => DOut end)
    (fun m1 e1 m2 e2 => let '(m, e) := dec_add m1 e1 m2 e2 in
                        if dec_in_domain m e then Some (m, e) else None)
    fmt_dec.

(* ------------------------------------------------------------------ one command on a purged database *)
(* [d] is the database a command body runs on (already purged at [now]); [V] is its view. *)
Section Step.
  Variables (d : db) (now : Z) (V : kview).
  Hypothesis W : db_wf d.
  Hypothesis HV : forall k, raw_view d k = V k.
  Hypothesis HF : fresh V now.

  Lemma get_V k : db_get d k = match V k with Some (v, _) => Some v | None => None end.
  Proof. rewrite <- HV. unfold raw_view. destruct (db_get d k); reflexivity. Qed.

  Lemma ttl_V k : db_ttl d k = match V k with Some (_, t) => t | None => None end.
  Proof.
    rewrite <- HV. unfold raw_view. destruct (db_get d k) eqn:G; [reflexivity|].
    destruct (db_ttl d k) eqn:T; [|reflexivity].
    destruct (wf_ttl_get d k z W T) as [v E]. congruence.
  Qed.

  (* the unfolded view of an untouched key is what it was *)
  Lemma vs k :
    match db_get d k with
    | None => None
    | Some v => match db_ttl d k with
                | Some t => if t <=? now then None else Some (v, Some t)
                | None => Some (v, None) end
    end = V k.
  Proof.
    rewrite get_V, ttl_V. destruct (V k) as [[v [t|]]|] eqn:E; try reflexivity.
    apply HF in E. destruct (t <=? now) eqn:L; [lia|reflexivity].
  Qed.

  Lemma view_same k : view d now k = V k.
  Proof. rewrite view_unfold. apply vs. Qed.

  Lemma unch V' : (forall k, V' k = view d now k) -> unchanged V V'.
  Proof. intros H k. rewrite H. apply view_same. Qed.

  Lemma slot_get k :
    db_get d k = match slot_of V k with Missing => None | Str b _ => Some (VStr b) | Other v _ => Some v end.
  Proof. rewrite get_V. unfold slot_of. destruct (V k) as [[[] t]|]; reflexivity. Qed.

  Lemma live_t k v t : V k = Some (v, Some t) -> (t <=? now) = false.
  Proof. intros E. apply HF in E. lia. Qed.

  Ltac start H HV' := intros H HV'; injection H as <- <-.
  Ltac same HV' := apply unch; exact HV'.
  (* case analysis on what key k holds: missing / string / one of the five other types *)
  Ltac ck k E :=
    rewrite ?(get_V k), ?(ttl_V k); unfold slot_of;
    destruct (V k) as [[[?b|?l|?s|?h|?z|?x] ?t]|] eqn:E.
  (* pointwise computation of the view after db_set / db_del / db_set_ttl / db_del_ttl *)
  Ltac post HV' :=
    let k' := fresh "k'" in
    intros k'; rewrite HV', view_unfold; autorewrite with dbops; unfold upd;
    repeat match goal with
    | |- context [bytes_eqb k' ?k] => destruct (bytes_eqb_spec k' k); subst
    end; rewrite ?bytes_eqb_refl; try apply vs.

  (* ---------------- GET / STRLEN / TYPE / MGET / EXISTS / PING ---------------- *)
  Lemma get_ok c k r d' V' :
    exec_get d [c; k] = (r, d') -> (forall k', V' k' = view d' now k') -> ref_get V k r V'.
  Proof.
    unfold exec_get, ref_get. ck k E; start H HV'; (split; [same HV'|auto with c01]).
  Qed.

  Lemma strlen_ok c k r d' V' :
    exec_strlen d [c; k] = (r, d') -> (forall k', V' k' = view d' now k') -> ref_strlen V k r V'.
  Proof.
    unfold exec_strlen, ref_strlen. ck k E; start H HV'; (split; [same HV'|auto with c01]).
  Qed.

  Lemma type_ok c k r d' V' :
    exec_type d [c; k] = (r, d') -> (forall k', V' k' = view d' now k') -> ref_type V k r V'.
  Proof.
    unfold exec_type, ref_type. ck k E; start H HV'; (split; [same HV'|reflexivity]).
  Qed.

  Lemma mget_ok c keys r d' V' :
    exec_mget d (c :: keys) = (r, d') -> (forall k', V' k' = view d' now k') -> ref_mget V keys r V'.
  Proof.
    unfold exec_mget, ref_mget. destruct keys as [|k0 ks]; start H HV'.
    - split; [auto with c01|same HV'].
    - split; [same HV'|]. f_equal.
      change (map (fun k => match db_get d k with Some (VStr b) => RBulk b | _ => RNil end) (k0 :: ks) =
              map (fun k => match slot_of V k with Str b _ => RBulk b | _ => RNil end) (k0 :: ks)).
      apply map_ext. intros k. ck k E; reflexivity.
  Qed.

  Lemma vlive_get k : vlive V k = isSome (db_get d k).
  Proof. unfold vlive. rewrite get_V. destruct (V k) as [[? ?]|]; reflexivity. Qed.

  Lemma exists_ok c keys r d' V' :
    exec_exists d (c :: keys) = (r, d') -> (forall k', V' k' = view d' now k') -> ref_exists V keys r V'.
  Proof.
    unfold exec_exists, ref_exists. destruct keys as [|k0 ks]; start H HV'.
    - split; [auto with c01|same HV'].
    - split; [same HV'|]. f_equal.
      change (zlength (filter (fun k => isSome (db_get d k)) (k0 :: ks)) = zlength (filter (vlive V) (k0 :: ks))).
      f_equal. apply filter_ext. intros k. symmetry. apply vlive_get.
  Qed.

  Lemma ping_ok c rest r d' V' :
    exec_ping d (c :: rest) = (r, d') -> (forall k', V' k' = view d' now k') -> ref_ping V rest r V'.
  Proof.
    unfold exec_ping, ref_ping. destruct rest as [|m [|m2 rest]]; start H HV'; (split; [auto with c01|same HV']).
  Qed.

  (* ---------------- SETNX / SETEX / APPEND ---------------- *)
  Lemma setnx_ok c k v r d' V' :
    exec_setnx d [c; k; v] = (r, d') -> (forall k', V' k' = view d' now k') -> ref_setnx V k v r V'.
  Proof.
    unfold exec_setnx, ref_setnx. ck k E; start H HV'; (split; [reflexivity|]); try (same HV').
    post HV'. rewrite ttl_V, E. reflexivity.
  Qed.

  Lemma setex_ok c k secs v r d' V' :
    exec_setex d now [c; k; secs; v] = (r, d') -> (forall k', V' k' = view d' now k') ->
    ref_setex atoi64 V now k secs v r V'.
  Proof.
    unfold exec_setex, ref_setex. destruct (atoi64 secs) as [n|]; [|start H HV'; split; [auto with c01|same HV']].
    destruct (n <=? 0) eqn:L1; destruct (in_int64 (now + n)) eqn:L2; cbn [orb negb andb];
      replace (0 <? n) with (negb (n <=? 0)) by lia; rewrite L1; cbn [negb andb];
      start H HV'; try (split; [auto with c01|same HV']).
    split; [reflexivity|]. post HV'.
    replace (now + n <=? now) with false by lia. reflexivity.
  Qed.

  Lemma zlength_app {A} (a b : list A) : zlength (a ++ b) = zlength a + zlength b.
  Proof. unfold zlength. rewrite app_length. lia. Qed.
  Lemma zlength_nonneg {A} (a : list A) : 0 <= zlength a.
  Proof. unfold zlength. lia. Qed.

  Lemma append_ok c k v r d' V' :
    exec_append d [c; k; v] = (r, d') -> (forall k', V' k' = view d' now k') -> ref_append V k v r V'.
  Proof.
    unfold exec_append, ref_append. ck k E.
    - unfold max_string_len, max_len.
      destruct (zlength v >? 512 * 1024 * 1024 - zlength b) eqn:L;
        [replace (zlength b + zlength v <=? 512 * 1024 * 1024) with false by lia
        |replace (zlength b + zlength v <=? 512 * 1024 * 1024) with true by lia];
        start H HV'.
      + split; [auto with c01|same HV'].
      + split; [rewrite zlength_app; reflexivity|]. post HV'. rewrite ttl_V, E.
        destruct t as [t|]; [rewrite (live_t _ _ _ E)|]; reflexivity.
    - start H HV'; split; [auto with c01|same HV'].
    - start H HV'; split; [auto with c01|same HV'].
    - start H HV'; split; [auto with c01|same HV'].
    - start H HV'; split; [auto with c01|same HV'].
    - start H HV'; split; [auto with c01|same HV'].
    - start H HV'. split; [reflexivity|]. post HV'. rewrite ttl_V, E. reflexivity.
  Qed.

  (* ---------------- INCR family ---------------- *)
  Lemma incr_ok k delta r d' V' :
    incr_by d k delta = (r, d') -> (forall k', V' k' = view d' now k') -> ref_incr atoi64 V k delta r V'.
  Proof.
    unfold incr_by, ref_incr. ck k E.
    - destruct (atoi64 b) as [n|]; [destruct (in_int64 (n + delta))|]; start H HV';
        try (split; [auto with c01|same HV']).
      split; [reflexivity|]. post HV'. rewrite ttl_V, E.
      destruct t as [t|]; [rewrite (live_t _ _ _ E)|]; reflexivity.
    - start H HV'; split; [auto with c01|same HV'].
    - start H HV'; split; [auto with c01|same HV'].
    - start H HV'; split; [auto with c01|same HV'].
    - start H HV'; split; [auto with c01|same HV'].
    - start H HV'; split; [auto with c01|same HV'].
    - start H HV'. split; [reflexivity|]. post HV'. rewrite ttl_V, E. reflexivity.
  Qed.

  Lemma incrby_ok c k a r d' V' :
    exec_incrby d [c; k; a] = (r, d') -> (forall k', V' k' = view d' now k') ->
    ref_incrby atoi64 V false k a r V'.
  Proof.
    unfold exec_incrby, ref_incrby. destruct (atoi64 a) as [n|] eqn:A.
    - assert (R : in_int64 n = true) by (apply atoi64_admissible in A; tauto). rewrite R.
      apply incr_ok.
    - start H HV'; split; [auto with c01|same HV'].
  Qed.

  Lemma decrby_ok c k a r d' V' :
    exec_decrby d [c; k; a] = (r, d') -> (forall k', V' k' = view d' now k') ->
    ref_incrby atoi64 V true k a r V'.
  Proof.
    unfold exec_decrby, ref_incrby. destruct (atoi64 a) as [n|] eqn:A.
    - destruct (in_int64 (- n)); [apply incr_ok|start H HV'; split; [auto with c01|same HV']].
    - start H HV'; split; [auto with c01|same HV'].
  Qed.

  (* ---------------- GETRANGE / SETRANGE ---------------- *)
  Lemma getrange_arith (dd : db) b s0 e0 :
    (let len := zlength b in
     let start := if s0 <? 0 then len + s0 else s0 in
     let stop := if e0 <? 0 then len + e0 else e0 in
     let stop := if stop >=? len then len - 1 else stop in
     let stop := stop + 1 in
     if (start >? stop) || (start >=? len) || (stop <? 0) then (RBulk [], dd)
     else let start := if start <? 0 then 0 else start in
          (RBulk (slice b start stop), dd))
    = (RBulk (getrange_of b s0 e0), dd).
  Proof.
    cbv zeta. pose proof (zlength_nonneg b) as Hl.
    unfold getrange_of, norm_index, slice, sub.
    set (len := zlength b) in *.
    set (S := if s0 <? 0 then len + s0 else s0).
    set (E := if e0 <? 0 then len + e0 else e0).
    assert (HM : (if E >=? len then len - 1 else E) = Z.min (len - 1) E) by (destruct (E >=? len) eqn:?; lia).
    rewrite HM. set (hi := Z.min (len - 1) E).
    destruct ((S >? hi + 1) || (S >=? len) || (hi + 1 <? 0)) eqn:C.
    - replace (Z.max 0 S <=? hi) with false by lia. reflexivity.
    - replace (if S <? 0 then 0 else S) with (Z.max 0 S) by (destruct (S <? 0) eqn:?; lia).
      destruct (Z.max 0 S <=? hi) eqn:L.
      + do 3 f_equal. lia.
      + replace (Z.to_nat (hi + 1 - Z.max 0 S)) with 0%nat by lia. reflexivity.
  Qed.

  Lemma getrange_ok c k s e r d' V' :
    exec_getrange d [c; k; s; e] = (r, d') -> (forall k', V' k' = view d' now k') ->
    ref_getrange atoi64 V k s e r V'.
  Proof.
    unfold exec_getrange, ref_getrange. ck k E.
    - destruct (atoi64 s) as [s0|]; [destruct (atoi64 e) as [e0|]|].
      + intros H HV'. pose proof (getrange_arith d b s0 e0) as A. cbv zeta in A, H. rewrite A in H.
        injection H as <- <-. split; [same HV'|reflexivity].
      + start H HV'. split; [same HV'|auto with c01].
      + start H HV'. split; [same HV'|auto with c01].
    - start H HV'; split; [same HV'|]. destruct (atoi64 s); [destruct (atoi64 e)|]; auto with c01.
    - start H HV'; split; [same HV'|]. destruct (atoi64 s); [destruct (atoi64 e)|]; auto with c01.
    - start H HV'; split; [same HV'|]. destruct (atoi64 s); [destruct (atoi64 e)|]; auto with c01.
    - start H HV'; split; [same HV'|]. destruct (atoi64 s); [destruct (atoi64 e)|]; auto with c01.
    - start H HV'; split; [same HV'|]. destruct (atoi64 s); [destruct (atoi64 e)|]; auto with c01.
    - start H HV'; split; [same HV'|]. destruct (atoi64 s); [destruct (atoi64 e)|]; auto.
  Qed.

  Lemma zeros_repeat n : zeros n = repeat nul n.
  Proof. induction n as [|n IH]; cbn; [reflexivity|rewrite IH; reflexivity]. Qed.

  Lemma setrange_arith old o v : 0 <= o ->
    (if o >? zlength old then old ++ zeros (Z.to_nat (o - zlength old)) ++ v
     else firstn (Z.to_nat o) old ++ v ++ skipn (Z.to_nat (o + zlength v)) old)
    = setrange_of old o v.
  Proof.
    intros Ho. unfold setrange_of. rewrite zeros_repeat.
    pose proof (zlength_nonneg v) as Hv. unfold zlength in *.
    destruct (o >? Z.of_nat (List.length old)) eqn:C.
    - rewrite firstn_all2 by (rewrite app_length, repeat_length; lia).
      rewrite skipn_all2 by lia. rewrite app_nil_r, <- app_assoc. reflexivity.
    - replace (Z.to_nat (o - Z.of_nat (List.length old))) with 0%nat by lia. cbn [repeat].
      rewrite app_nil_r. reflexivity.
  Qed.

  Lemma setrange_ok c k off v r d' V' :
    exec_setrange d [c; k; off; v] = (r, d') -> (forall k', V' k' = view d' now k') ->
    ref_setrange atoi64 V k off v r V'.
  Proof.
    unfold exec_setrange, ref_setrange.
    destruct (atoi64 off) as [o|]; [|start H HV'; split; [auto with c01|same HV']].
    destruct (o <? 0) eqn:Lo; [start H HV'; split; [auto with c01|same HV']|].
    assert (Ho : 0 <= o) by lia.
    assert (G : forall old t new, V k = Some (VStr old, t) \/ (V k = None /\ old = [] /\ t = None) ->
      new = setrange_of old o v ->
      (if zlength v =? 0 then (RInt (zlength old), d)
       else if o + zlength v >? max_string_len then (err_other, d)
       else (RInt (zlength new), db_set d k (VStr new))) = (r, d') ->
      (forall k', V' k' = view d' now k') ->
      if zlength v =? 0 then r = RInt (zlength old) /\ unchanged V V'
      else if o + zlength v <=? max_len
           then r = RInt (zlength (setrange_of old o v)) /\ veq V' (upd V k (Some (VStr (setrange_of old o v), t)))
           else rejected V r V').
    { intros old t new HK ->. unfold max_string_len, max_len.
      destruct (zlength v =? 0); [start H HV'; split; [reflexivity|same HV']|].
      destruct (o + zlength v >? 512 * 1024 * 1024) eqn:L;
        [replace (o + zlength v <=? 512 * 1024 * 1024) with false by lia
        |replace (o + zlength v <=? 512 * 1024 * 1024) with true by lia]; start H HV'.
      - split; [auto with c01|same HV'].
      - split; [reflexivity|]. post HV'. rewrite ttl_V.
        destruct HK as [E|(E & _ & ->)]; rewrite E; [|reflexivity].
        destruct t as [t|]; [rewrite (live_t _ _ _ E)|]; reflexivity. }
    ck k E; cbv zeta.
    - apply (G b t _ (or_introl eq_refl) (setrange_arith b o v Ho)).
    - start H HV'; split; [auto with c01|same HV'].
    - start H HV'; split; [auto with c01|same HV'].
    - start H HV'; split; [auto with c01|same HV'].
    - start H HV'; split; [auto with c01|same HV'].
    - start H HV'; split; [auto with c01|same HV'].
    - apply (G [] None _ (or_intror (conj eq_refl (conj eq_refl eq_refl))) (setrange_arith [] o v Ho)).
  Qed.

  (* ---------------- DEL / MSET / RENAME / KEYS ---------------- *)
  Lemma del_ok c keys r d' V' :
    exec_del d (c :: keys) = (r, d') -> (forall k', V' k' = view d' now k') -> ref_del V keys r V'.
  Proof.
    unfold exec_del, ref_del. destruct keys as [|k0 ks]; [start H HV'; split; [auto with c01|same HV']|].
    destruct (del_keys d (k0 :: ks) 0) as [n d1] eqn:D. start H HV'.
    pose proof (del_keys_count (k0 :: ks) d 0) as C. rewrite D in C. cbn [fst] in C.
    split.
    - rewrite C. f_equal. rewrite Z.add_0_l. f_equal. apply filter_ext. intros k. unfold has_key. symmetry. apply vlive_get.
    - intros k. rewrite HV', view_unfold.
      pose proof (del_keys_get (k0 :: ks) d 0 k) as G. pose proof (del_keys_ttl (k0 :: ks) d 0 k) as T.
      rewrite D in G, T. cbn [snd] in G, T. rewrite G, T.
      destruct (mentions (k0 :: ks) k); [reflexivity|apply vs].
  Qed.

  Lemma mset_ok c rest r d' V' :
    exec_mset d (c :: rest) = (r, d') -> (forall k', V' k' = view d' now k') -> ref_mset V rest r V'.
  Proof.
    unfold exec_mset, ref_mset.
    pose proof (proj1 (mset_pairs_spec now rest) d) as S.
    destruct rest as [|a [|b rest]]; try (start H HV'; split; [auto with c01|same HV']).
    destruct (pairs_of (a :: b :: rest)) as [ps|] eqn:P.
    - destruct S as (d1 & E & Hv). rewrite E.
      assert (ps <> []) as NE by (cbn in P; destruct (pairs_of rest); [inversion P; discriminate|discriminate]).
      destruct ps as [|p ps]; [congruence|]. start H HV'. split; [reflexivity|].
      intros k. rewrite HV', Hv. apply mset_view_ext. apply view_same.
    - rewrite S. start H HV'; split; [auto with c01|same HV'].
  Qed.

  Lemma rename_ok c old new r d' V' :
    exec_rename d [c; old; new] = (r, d') -> (forall k', V' k' = view d' now k') -> ref_rename V old new r V'.
  Proof.
    unfold exec_rename, ref_rename. rewrite get_V, ttl_V.
    destruct (V old) as [[v t]|] eqn:E; [|start H HV'; split; [auto with c01|same HV']].
    start H HV'. split; [reflexivity|].
    intros k'. rewrite HV', view_unfold. unfold upd.
    destruct t as [t|]; autorewrite with dbops; rewrite ?bytes_eqb_refl;
      (destruct (bytes_eqb_spec k' new) as [->|N1];
       [rewrite ?bytes_eqb_refl; try rewrite (live_t _ _ _ E); reflexivity|]);
      (destruct (bytes_eqb_spec k' old) as [->|N2]; [reflexivity|apply vs]).
  Qed.

  Lemma in_akeys_V k : In k (akeys (kv d)) <-> V k <> None.
  Proof.
    rewrite <- amem_true_iff, amem_db_get, get_V. destruct (V k) as [[? ?]|]; split; intros H; congruence.
  Qed.

  Lemma keys_ok c p r d' V' :
    exec_keys d [c; p] = (r, d') -> (forall k', V' k' = view d' now k') -> ref_keys V p r V'.
  Proof.
    unfold exec_keys, ref_keys. start H HV'. split; [same HV'|].
    exists (keys_filter p (akeys (kv d))). split; [reflexivity|]. split.
    - unfold keys_filter. apply NoDup_filter. apply W.
    - intros k. rewrite keys_filter_exact, in_akeys_V. reflexivity.
  Qed.

  (* ---------------- SET ---------------- *)
  Definition old_ttl (k : bytes) : option Z := match V k with Some (_, t) => t | None => None end.

  Lemma write_ok k v o V' :
    kinds_of o <= 1 -> deadline_of now o <> Some None ->
    (forall k', V' k' = view (set_apply_ttl (db_set d k (VStr v)) now k o) now k') ->
    veq V' (written V now k v
              (match deadline_of now o with
               | Some (Some dl) => Some dl
               | _ => if o_keepttl o then old_ttl k else None end)).
  Proof.
    unfold old_ttl.
    destruct o as [nx xx get keep [n1|] [n2|] [n3|]]; unfold kinds_of, deadline_of, set_apply_ttl, written;
      cbn [o_nx o_xx o_get o_keepttl o_ex o_px o_exat isSome]; destruct keep; intros K D HV'; try (exfalso; lia).
    - (* EX n1 *)
      destruct ((0 <? n1) && in_int64 (now + n1)) eqn:P; [|congruence].
      assert (L : (now + n1 <=? now) = false) by lia.
      rewrite L. post HV'. rewrite L. reflexivity.
    - (* PX n2 *)
      destruct (0 <? n2) eqn:P; [|congruence].
      assert (L : (now + (n2 + 999) / 1000 <=? now) = false).
      { assert (0 < (n2 + 999) / 1000) by (apply Z.div_str_pos; lia). lia. }
      rewrite L. post HV'. rewrite L. reflexivity.
    - (* EXAT n3 *)
      destruct (0 <? n3) eqn:P; [|congruence].
      destruct (n3 <=? now) eqn:L; post HV'; rewrite L; reflexivity.
    - (* KEEPTTL *)
      destruct (V k) as [[v0 [t|]]|] eqn:E; [rewrite (live_t _ _ _ E)| |];
        post HV'; rewrite ttl_V, E; rewrite ?(live_t _ _ _ E); reflexivity.
    - (* no expiry option *)
      post HV'. reflexivity.
  Qed.

  Lemma ormax_none x : ormax x None = x.
  Proof. destruct x; reflexivity. Qed.

  Lemma set_ok c k v opts r d' V' :
    exec_set d now (c :: k :: v :: opts) = (r, d') -> (forall k', V' k' = view d' now k') ->
    ref_set atoi64 V now k v opts r V'.
  Proof.
    unfold exec_set, ref_set.
    rewrite (set_parse_tokens (List.length opts) opts setopts0 (le_n _)).
    destruct (set_tokens opts) as [ts|]; [|start H HV'; split; [auto with c01|same HV']].
    destruct (apply_tokens ts setopts0) as [o|] eqn:AT.
    2:{ rewrite (apply_tokens_none _ _ AT). cbn [negb]. rewrite orb_true_r.
        start H HV'; split; [auto with c01|same HV']. }
    destruct (apply_tokens_some _ _ _ AT) as ((F1 & F2 & F3 & F4) & (X1 & X2 & X3) & (P1 & P2 & P3) & (A1 & A2 & A3)).
    cbn [setopts0 o_nx o_xx o_get o_keepttl o_ex o_px o_exat orb] in F1, F2, F3, F4, X1, P1, A1.
    rewrite ormax_none in X1, P1, A1.
    rewrite X2, P2, A2. cbn [andb negb]. rewrite orb_false_r.
    assert (K : expiry_kinds ts = kinds_of o).
    { unfold expiry_kinds, kinds_of. rewrite F4, X1, P1, A1, X3, P3, A3. reflexivity. }
    assert (DL : set_deadline atoi64 now ts = deadline_of now o).
    { unfold set_deadline, deadline_of. rewrite X1, P1, A1. reflexivity. }
    rewrite K, DL, <- F1, <- F2, <- F3, <- F4.
    destruct ((o_nx o && o_xx o) || (1 <? kinds_of o)) eqn:BAD.
    { rewrite (set_conflict_bad now o BAD). start H HV'; split; [auto with c01|same HV']. }
    rewrite (set_decide now o BAD).
    assert (K1 : kinds_of o <= 1).
    { apply orb_false_iff in BAD. destruct BAD as [_ B2]. apply Z.ltb_ge in B2. exact B2. }
    assert (WR : forall V', (forall k', V' k' = view (set_apply_ttl (db_set d k (VStr v)) now k o) now k') ->
                 deadline_of now o <> Some None ->
                 veq V' (written V now k v (match deadline_of now o with
                                            | Some (Some dl) => Some dl
                                            | _ => if o_keepttl o then old_ttl k else None end))).
    { intros V0 H0 H1. exact (write_ok k v o V0 K1 H1 H0). }
    unfold old_ttl in WR. revert WR.
    destruct (deadline_of now o) as [[dl|]|] eqn:D.
    - ck k E; intros WR; destruct (o_nx o), (o_xx o), (o_get o); cbn [andb orb] in BAD; try discriminate BAD;
        start H HV'; try (split; [reflexivity|]); try (split; [auto with c01|]); try (same HV');
        try (apply WR; [exact HV'|discriminate]).
    - intros _. start H HV'; split; [auto with c01|same HV'].
    - ck k E; intros WR; destruct (o_nx o), (o_xx o), (o_get o); cbn [andb orb] in BAD; try discriminate BAD;
        start H HV'; try (split; [reflexivity|]); try (split; [auto with c01|]); try (same HV');
        try (apply WR; [exact HV'|discriminate]).
  Qed.

  (* ---------------- INCRBYFLOAT ---------------- *)
  Lemma follow_hint_shape k b0 t hint r d' V' :
    (V k = Some (VStr b0, t) \/ (V k = None /\ t = None)) ->
    follow_hint d k hint = (r, d') -> (forall k', V' k' = view d' now k') ->
    (any_error r /\ unchanged V V') \/ exists s, r = RBulk s /\ veq V' (upd V k (Some (VStr s, t))).
  Proof.
    intros HK. unfold follow_hint. destruct hint; start H HV';
      try (left; split; [eexists; reflexivity|same HV']).
    right. exists b. split; [reflexivity|]. post HV'. rewrite ttl_V.
    destruct HK as [E|(E & ->)]; rewrite E; [|reflexivity].
    destruct t as [t|]; [rewrite (live_t _ _ _ E)|]; reflexivity.
  Qed.

  Lemma stored_ok k b0 t s V' :
    (V k = Some (VStr b0, t) \/ (V k = None /\ t = None)) ->
    (forall k', V' k' = view (db_set d k (VStr s)) now k') -> veq V' (upd V k (Some (VStr s, t))).
  Proof.
    intros HK HV'. post HV'. rewrite ttl_V.
    destruct HK as [E|(E & ->)]; rewrite E; [|reflexivity].
    destruct t as [t|]; [rewrite (live_t _ _ _ E)|]; reflexivity.
  Qed.

  Lemma incrbyfloat_ok c k inc hint r d' V' :
    exec_incrbyfloat d [c; k; inc] hint = (r, d') -> (forall k', V' k' = view d' now k') ->
    ref_incrbyfloat (fl_class model_floatlib) (fl_add model_floatlib) (fl_fmt model_floatlib) V k inc r V'.
  Proof.
    unfold exec_incrbyfloat, ref_incrbyfloat. cbn [model_floatlib fl_class fl_add fl_fmt].
    destruct (classify_float inc) as [mi ei| |].
    - (* increment in the exact domain *)
      ck k E.
      + destruct (classify_float b) as [mv ev| |].
        * destruct (dec_add mv ev mi ei) as [m e]. destruct (dec_in_domain m e).
          -- start H HV'. split; [reflexivity|]. eapply stored_ok; [left; exact E|exact HV'].
          -- intros H HV'. eapply follow_hint_shape; [left; exact E|exact H|exact HV'].
        * start H HV'. split; [auto with c01|same HV'].
        * intros H HV'. eapply follow_hint_shape; [left; exact E|exact H|exact HV'].
      + start H HV'; split; [auto with c01|same HV'].
      + start H HV'; split; [auto with c01|same HV'].
      + start H HV'; split; [auto with c01|same HV'].
      + start H HV'; split; [auto with c01|same HV'].
      + start H HV'; split; [auto with c01|same HV'].
      + start H HV'. split; [reflexivity|]. eapply (stored_ok k [] None); [right; auto|exact HV'].
    - start H HV'. split; [auto with c01|same HV'].
    - (* increment outside the exact domain: the outcome has the prescribed shape *)
      ck k E.
      + intros H HV'. eapply follow_hint_shape; [left; exact E|exact H|exact HV'].
      + destruct hint as [? |e| | | | | |]; try destruct (starts_with (B "WRONGTYPE") e); start H HV'; (split; [eauto with c01|same HV']).
      + destruct hint as [? |e| | | | | |]; try destruct (starts_with (B "WRONGTYPE") e); start H HV'; (split; [eauto with c01|same HV']).
      + destruct hint as [? |e| | | | | |]; try destruct (starts_with (B "WRONGTYPE") e); start H HV'; (split; [eauto with c01|same HV']).
      + destruct hint as [? |e| | | | | |]; try destruct (starts_with (B "WRONGTYPE") e); start H HV'; (split; [eauto with c01|same HV']).
      + destruct hint as [? |e| | | | | |]; try destruct (starts_with (B "WRONGTYPE") e); start H HV'; (split; [eauto with c01|same HV']).
      + intros H HV'. eapply (follow_hint_shape k [] None); [right; auto|exact H|exact HV'].
  Qed.

  Lemma rej_ok : rejected V err_other (view d now).
  Proof. split; [auto with c01|]. intros k. apply view_same. Qed.
End Step.

(* ------------------------------------------------------------------ dispatch *)
Section Dispatch.
  Variables (d0 : db) (now nowms : Z) (c : bytes) (rest : list bytes) (hint : reply).
  Let d := purge d0 now.
  Ltac disp E := intros E; unfold exec, exec_cmd; rewrite E; reflexivity.
  Lemma exec_get_eq : lower c = B "get" -> exec d0 now nowms (c :: rest) hint = exec_get d (c :: rest).
  Proof. disp E. Qed.
  Lemma exec_set_eq : lower c = B "set" -> exec d0 now nowms (c :: rest) hint = exec_set d now (c :: rest).
  Proof. disp E. Qed.
  Lemma exec_setnx_eq : lower c = B "setnx" -> exec d0 now nowms (c :: rest) hint = exec_setnx d (c :: rest).
  Proof. disp E. Qed.
  Lemma exec_setex_eq : lower c = B "setex" -> exec d0 now nowms (c :: rest) hint = exec_setex d now (c :: rest).
  Proof. disp E. Qed.
  Lemma exec_mset_eq : lower c = B "mset" -> exec d0 now nowms (c :: rest) hint = exec_mset d (c :: rest).
  Proof. disp E. Qed.
  Lemma exec_mget_eq : lower c = B "mget" -> exec d0 now nowms (c :: rest) hint = exec_mget d (c :: rest).
  Proof. disp E. Qed.
  Lemma exec_append_eq : lower c = B "append" -> exec d0 now nowms (c :: rest) hint = exec_append d (c :: rest).
  Proof. disp E. Qed.
  Lemma exec_strlen_eq : lower c = B "strlen" -> exec d0 now nowms (c :: rest) hint = exec_strlen d (c :: rest).
  Proof. disp E. Qed.
  Lemma exec_getrange_eq : lower c = B "getrange" -> exec d0 now nowms (c :: rest) hint = exec_getrange d (c :: rest).
  Proof. disp E. Qed.
  Lemma exec_setrange_eq : lower c = B "setrange" -> exec d0 now nowms (c :: rest) hint = exec_setrange d (c :: rest).
  Proof. disp E. Qed.
  Lemma exec_incr_eq : lower c = B "incr" -> exec d0 now nowms (c :: rest) hint = exec_incr d (c :: rest).
  Proof. disp E. Qed.
  Lemma exec_decr_eq : lower c = B "decr" -> exec d0 now nowms (c :: rest) hint = exec_decr d (c :: rest).
  Proof. disp E. Qed.
  Lemma exec_incrby_eq : lower c = B "incrby" -> exec d0 now nowms (c :: rest) hint = exec_incrby d (c :: rest).
  Proof. disp E. Qed.
  Lemma exec_decrby_eq : lower c = B "decrby" -> exec d0 now nowms (c :: rest) hint = exec_decrby d (c :: rest).
  Proof. disp E. Qed.
  Lemma exec_incrbyfloat_eq : lower c = B "incrbyfloat" ->
    exec d0 now nowms (c :: rest) hint = exec_incrbyfloat d (c :: rest) hint.
  Proof. disp E. Qed.
  Lemma exec_del_eq : lower c = B "del" -> exec d0 now nowms (c :: rest) hint = exec_del d (c :: rest).
  Proof. disp E. Qed.
  Lemma exec_exists_eq : lower c = B "exists" -> exec d0 now nowms (c :: rest) hint = exec_exists d (c :: rest).
  Proof. disp E. Qed.
  Lemma exec_type_eq : lower c = B "type" -> exec d0 now nowms (c :: rest) hint = exec_type d (c :: rest).
  Proof. disp E. Qed.
  Lemma exec_rename_eq : lower c = B "rename" -> exec d0 now nowms (c :: rest) hint = exec_rename d (c :: rest).
  Proof. disp E. Qed.
  Lemma exec_keys_eq : lower c = B "keys" -> exec d0 now nowms (c :: rest) hint = exec_keys d (c :: rest).
  Proof. disp E. Qed.
  Lemma exec_ping_eq : lower c = B "ping" -> exec d0 now nowms (c :: rest) hint = exec_ping d (c :: rest).
  Proof. disp E. Qed.
End Dispatch.

(* ------------------------------------------------------------------ every step satisfies its clause *)
Theorem strings_step_refines d0 now nowms args hint r d' :
  db_wf d0 -> exec d0 now nowms args hint = (r, d') ->
  ref_step atoi64 model_floatlib (view d0 now) now args r (view d' now).
Proof.
  intros W0 H.
  pose proof (db_wf_purge d0 now W0) as W.
  assert (HV : forall k, raw_view (purge d0 now) k = view d0 now k) by (intros k; apply raw_view_purge; exact W0).
  pose proof (view_fresh d0 now) as HF.
  assert (HV' : forall k', view d' now k' = view d' now k') by reflexivity.
  pose proof (rej_ok (purge d0 now) now (view d0 now) W HV HF) as REJ.
  unfold ref_step. destruct args as [|c rest]; [exact I|]. cbv zeta.
  (* one command name: rewrite the dispatch, split on the arity, apply the clause lemma *)
  Ltac name_case E eqn := unfold is in E; apply bytes_eqb_eq in E;
    match goal with H : exec _ _ _ _ _ = _ |- _ => rewrite (eqn _ _ _ _ _ _ E) in H end.
  Ltac rejected_case REJ :=
    match goal with H : _ = (_, _) |- _ =>
      lazy beta iota delta [exec_get exec_set exec_setnx exec_setex exec_append exec_strlen exec_getrange
        exec_setrange exec_incr exec_decr exec_incrby exec_decrby exec_incrbyfloat exec_type exec_rename
        exec_keys] in H; injection H as <- <-; exact REJ end.
  destruct (is (lower c) (B "get")) eqn:E1.
  { name_case E1 exec_get_eq. destruct rest as [|k [|? ?]]; [rejected_case REJ|eapply get_ok; eauto|rejected_case REJ]. }
  destruct (is (lower c) (B "set")) eqn:E2.
  { name_case E2 exec_set_eq. destruct rest as [|k [|v opts]]; [rejected_case REJ|rejected_case REJ|eapply set_ok; eauto]. }
  destruct (is (lower c) (B "setnx")) eqn:E3.
  { name_case E3 exec_setnx_eq. destruct rest as [|k [|v [|? ?]]]; [rejected_case REJ|rejected_case REJ|eapply setnx_ok; eauto|rejected_case REJ]. }
  destruct (is (lower c) (B "setex")) eqn:E4.
  { name_case E4 exec_setex_eq. destruct rest as [|k [|s [|v [|? ?]]]]; [rejected_case REJ|rejected_case REJ|rejected_case REJ|eapply setex_ok; eauto|rejected_case REJ]. }
  destruct (is (lower c) (B "mset")) eqn:E5.
  { name_case E5 exec_mset_eq. eapply mset_ok; eauto. }
  destruct (is (lower c) (B "mget")) eqn:E6.
  { name_case E6 exec_mget_eq. eapply mget_ok; eauto. }
  destruct (is (lower c) (B "append")) eqn:E7.
  { name_case E7 exec_append_eq. destruct rest as [|k [|v [|? ?]]]; [rejected_case REJ|rejected_case REJ|eapply append_ok; eauto|rejected_case REJ]. }
  destruct (is (lower c) (B "strlen")) eqn:E8.
  { name_case E8 exec_strlen_eq. destruct rest as [|k [|? ?]]; [rejected_case REJ|eapply strlen_ok; eauto|rejected_case REJ]. }
  destruct (is (lower c) (B "getrange")) eqn:E9.
  { name_case E9 exec_getrange_eq. destruct rest as [|k [|s [|e [|? ?]]]]; [rejected_case REJ|rejected_case REJ|rejected_case REJ|eapply getrange_ok; eauto|rejected_case REJ]. }
  destruct (is (lower c) (B "setrange")) eqn:E10.
  { name_case E10 exec_setrange_eq. destruct rest as [|k [|s [|e [|? ?]]]]; [rejected_case REJ|rejected_case REJ|rejected_case REJ|eapply setrange_ok; eauto|rejected_case REJ]. }
  destruct (is (lower c) (B "incr")) eqn:E11.
  { name_case E11 exec_incr_eq. destruct rest as [|k [|? ?]]; [rejected_case REJ|eapply incr_ok; eauto|rejected_case REJ]. }
  destruct (is (lower c) (B "decr")) eqn:E12.
  { name_case E12 exec_decr_eq. destruct rest as [|k [|? ?]]; [rejected_case REJ|eapply incr_ok; eauto|rejected_case REJ]. }
  destruct (is (lower c) (B "incrby")) eqn:E13.
  { name_case E13 exec_incrby_eq. destruct rest as [|k [|v [|? ?]]]; [rejected_case REJ|rejected_case REJ|eapply incrby_ok; eauto|rejected_case REJ]. }
  destruct (is (lower c) (B "decrby")) eqn:E14.
  { name_case E14 exec_decrby_eq. destruct rest as [|k [|v [|? ?]]]; [rejected_case REJ|rejected_case REJ|eapply decrby_ok; eauto|rejected_case REJ]. }
  destruct (is (lower c) (B "incrbyfloat")) eqn:E15.
  { name_case E15 exec_incrbyfloat_eq. destruct rest as [|k [|v [|? ?]]]; [rejected_case REJ|rejected_case REJ|eapply incrbyfloat_ok; eauto|rejected_case REJ]. }
  destruct (is (lower c) (B "del")) eqn:E16.
  { name_case E16 exec_del_eq. eapply del_ok; eauto. }
  destruct (is (lower c) (B "exists")) eqn:E17.
  { name_case E17 exec_exists_eq. eapply exists_ok; eauto. }
  destruct (is (lower c) (B "type")) eqn:E18.
  { name_case E18 exec_type_eq. destruct rest as [|k [|? ?]]; [rejected_case REJ|eapply type_ok; eauto|rejected_case REJ]. }
  destruct (is (lower c) (B "rename")) eqn:E19.
  { name_case E19 exec_rename_eq. destruct rest as [|k [|v [|? ?]]]; [rejected_case REJ|rejected_case REJ|eapply rename_ok; eauto|rejected_case REJ]. }
  destruct (is (lower c) (B "keys")) eqn:E20.
  { name_case E20 exec_keys_eq. destruct rest as [|k [|? ?]]; [rejected_case REJ|eapply keys_ok; eauto|rejected_case REJ]. }
  destruct (is (lower c) (B "ping")) eqn:E21.
  { name_case E21 exec_ping_eq. eapply ping_ok; eauto. }
  exact I.
Qed.

(* ------------------------------------------------------------------ db_wf is preserved; replies are well-framed *)
Lemma del_keys_wf keys : forall d n, db_wf d -> db_wf (snd (del_keys d keys n)).
Proof.
  induction keys as [|k r IH]; intros d n W; [exact W|].
  cbn [del_keys]. destruct (db_get d k); apply IH; apply db_wf_del; exact W.
Qed.

Lemma mset_pairs_wf l :
  (forall d d', db_wf d -> mset_pairs d l = Some d' -> db_wf d') /\
  (forall a d d', db_wf d -> mset_pairs d (a :: l) = Some d' -> db_wf d').
Proof.
  induction l as [|b l [IH1 IH2]].
  - split; [intros d d' W H; inversion H; subst; exact W|intros a d d' W H; discriminate].
  - split; [apply IH2|]. intros a d d' W H. cbn [mset_pairs] in H.
    eapply IH1; [|exact H]. apply db_wf_set, db_wf_del_ttl, W.
Qed.

Lemma set_apply_ttl_wf d now k o : db_wf d -> db_wf (set_apply_ttl d now k o).
Proof.
  intros W. unfold set_apply_ttl.
  destruct (o_keepttl o), (o_ex o), (o_px o), (o_exat o);
    repeat (apply db_wf_set_ttl || apply db_wf_del_ttl); exact W.
Qed.

Lemma follow_hint_wf d k hint r d' : db_wf d -> follow_hint d k hint = (r, d') -> db_wf d'.
Proof. intros W. unfold follow_hint. destruct hint; intros H; injection H as <- <-; auto using db_wf_set. Qed.

Ltac wf_step :=
  match goal with
  | H : (_, _) = (_, _) |- _ => injection H as <- <-
  | H : Some _ = Some _ |- _ => injection H as <-
  | H : None = Some _ |- _ => discriminate H
  | H : context [let '(_, _) := ?x in _] |- _ => destruct x eqn:?
  | H : context [match ?x with _ => _ end] |- _ => destruct x eqn:?
  | H : context [if ?x then _ else _] |- _ => destruct x eqn:?
  end.
Ltac wf_fin :=
  repeat match goal with |- db_wf (match ?x with _ => _ end) => destruct x end;
  repeat (apply db_wf_set || apply db_wf_del || apply db_wf_set_ttl || apply db_wf_del_ttl
          || apply set_apply_ttl_wf); try assumption.

Theorem strings_dispatch_wf_pres d now nowms n args hint r d' :
  db_wf d -> strings_dispatch d now nowms n args hint = Some (r, d') -> db_wf d'.
Proof.
  intros W H. unfold strings_dispatch in H.
  repeat match type of H with
  | (if ?c then _ else _) = _ => destruct c
  end; try discriminate H; injection H as H.
  - unfold exec_set in H. repeat wf_step; wf_fin.
  - unfold exec_get in H. repeat wf_step; wf_fin.
  - unfold exec_getrange in H. repeat wf_step; wf_fin.
  - unfold exec_setrange in H. repeat wf_step; wf_fin.
  - unfold exec_mget in H. repeat wf_step; wf_fin.
  - unfold exec_mset in H. repeat wf_step; wf_fin.
    match goal with E : mset_pairs _ _ = Some _ |- _ => eapply (proj1 (mset_pairs_wf _)); [|exact E]; exact W end.
  - unfold exec_setex in H. repeat wf_step; wf_fin.
  - unfold exec_setnx in H. repeat wf_step; wf_fin.
  - unfold exec_strlen in H. repeat wf_step; wf_fin.
  - unfold exec_incr, incr_by in H. repeat wf_step; wf_fin.
  - unfold exec_decr, incr_by in H. repeat wf_step; wf_fin.
  - unfold exec_incrby, incr_by in H. repeat wf_step; wf_fin.
  - unfold exec_decrby, incr_by in H. repeat wf_step; wf_fin.
  - unfold exec_incrbyfloat in H.
    repeat match goal with
    | H : follow_hint _ _ _ = _ |- _ => eapply follow_hint_wf in H; [exact H|exact W]
    | _ => wf_step
    end; wf_fin.
  - unfold exec_append in H. repeat wf_step; wf_fin.
  - unfold exec_del in H. destruct args as [|a0 [|a1 ar]]; try (injection H as <- <-; exact W).
    destruct (del_keys d (a1 :: ar) 0) as [n0 d1] eqn:D. injection H as <- <-.
    pose proof (del_keys_wf (a1 :: ar) d 0 W) as X. rewrite D in X. exact X.
  - unfold exec_exists in H. repeat wf_step; wf_fin.
  - unfold exec_keys in H. repeat wf_step; wf_fin.
  - unfold exec_expire in H. cbv zeta in H. repeat wf_step; wf_fin.
  - unfold exec_persist in H. repeat wf_step; wf_fin.
  - unfold exec_ttl in H. repeat wf_step; wf_fin.
  - unfold exec_type in H. repeat wf_step; wf_fin.
  - unfold exec_rename in H. repeat wf_step; wf_fin.
  - unfold exec_ping in H. repeat wf_step; wf_fin.
Qed.

Lemma reply_wf_err_other : reply_wf err_other = true. Proof. reflexivity. Qed.
Lemma reply_wf_err_wrongtype : reply_wf err_wrongtype = true. Proof. reflexivity. Qed.
Lemma reply_wf_map_bulk l : forallb reply_wf (map RBulk l) = true.
Proof. induction l; cbn; auto. Qed.
Lemma reply_wf_mget (f : bytes -> reply) l : (forall k, reply_wf (f k) = true) -> forallb reply_wf (map f l) = true.
Proof. intros Hf. induction l; cbn; [reflexivity|rewrite Hf; auto]. Qed.

Ltac rw_fin :=
  repeat match goal with
  | |- reply_wf (if ?x then _ else _) = true => destruct x
  | |- reply_wf (match ?x with _ => _ end) = true => destruct x
  end; try reflexivity.

Theorem strings_dispatch_reply_wf d now nowms n args hint r d' :
  strings_dispatch d now nowms n args hint = Some (r, d') -> reply_wf r = true.
Proof.
  intros H. unfold strings_dispatch in H.
  repeat match type of H with
  | (if ?c then _ else _) = _ => destruct c
  end; try discriminate H; injection H as H.
  - unfold exec_set in H. repeat wf_step; rw_fin.
  - unfold exec_get in H. repeat wf_step; rw_fin.
  - unfold exec_getrange in H. repeat wf_step; rw_fin.
  - unfold exec_setrange in H. repeat wf_step; rw_fin.
  - unfold exec_mget in H. repeat wf_step; rw_fin.
    all: cbn [reply_wf];
      change (forallb reply_wf (map (fun k => match db_get d k with Some (VStr b) => RBulk b | _ => RNil end) (b0 :: l0)) = true);
      apply reply_wf_mget; intros k; rw_fin.
  - unfold exec_mset in H. repeat wf_step; rw_fin.
  - unfold exec_setex in H. repeat wf_step; rw_fin.
  - unfold exec_setnx in H. repeat wf_step; rw_fin.
  - unfold exec_strlen in H. repeat wf_step; rw_fin.
  - unfold exec_incr, incr_by in H. repeat wf_step; rw_fin.
  - unfold exec_decr, incr_by in H. repeat wf_step; rw_fin.
  - unfold exec_incrby, incr_by in H. repeat wf_step; rw_fin.
  - unfold exec_decrby, incr_by in H. repeat wf_step; rw_fin.
  - unfold exec_incrbyfloat, follow_hint in H. repeat wf_step; rw_fin.
  - unfold exec_append in H. repeat wf_step; rw_fin.
  - unfold exec_del in H. destruct args as [|a0 [|a1 ar]]; try (injection H as <- <-; reflexivity).
    destruct (del_keys d (a1 :: ar) 0) as [n0 d1] eqn:D. injection H as <- <-. reflexivity.
  - unfold exec_exists in H. repeat wf_step; rw_fin.
  - unfold exec_keys in H. repeat wf_step; rw_fin. cbn [reply_wf]. apply reply_wf_map_bulk.
  - unfold exec_expire in H. cbv zeta in H. repeat wf_step; rw_fin.
  - unfold exec_persist in H. repeat wf_step; rw_fin.
  - unfold exec_ttl in H. repeat wf_step; rw_fin.
  - unfold exec_type in H. repeat wf_step; rw_fin;
      match goal with |- context [type_name ?v] => destruct v; reflexivity end.
  - unfold exec_rename in H. repeat wf_step; rw_fin.
  - unfold exec_ping in H. repeat wf_step; rw_fin.
Qed.
