(* C01 -- the model (Mem/Strings.v through Mem/Exec.v) satisfies the reference clauses of
   Mem/StringsSpec.v, for all argument byte strings and all well-formed databases. *)
Require Import Base.Bytes Base.GoInt Base.Reply Mem.Types Mem.Inv Mem.Strings Mem.StringsSpec.
Require Import Glob.GlobSpec Glob.GlobModel Glob.GlobProofs.
From Coq Require Import ZifyBool.
Local Open Scope Z_scope.

(* ------------------------------------------------------------------ primitive updates *)
Lemma amem_db_get d k : amem k (kv d) = match db_get d k with Some _ => true | None => false end.
Proof. reflexivity. Qed.

Lemma db_get_set d k v k' : db_get (db_set d k v) k' = if bytes_eqb k' k then Some v else db_get d k'.
Proof.
  unfold db_get, db_set; cbn. destruct (bytes_eqb_spec k' k) as [->|N];
    [apply alookup_aset_same|apply alookup_aset_other; exact N].
Qed.
Lemma db_ttl_set d k v k' : db_ttl (db_set d k v) k' = db_ttl d k'.
Proof. reflexivity. Qed.
Lemma db_get_del d k k' : db_get (db_del d k) k' = if bytes_eqb k' k then None else db_get d k'.
Proof.
  unfold db_get, db_del; cbn. destruct (bytes_eqb_spec k' k) as [->|N];
    [apply alookup_aremove_same|apply alookup_aremove_other; exact N].
Qed.
Lemma db_ttl_del d k k' : db_ttl (db_del d k) k' = if bytes_eqb k' k then None else db_ttl d k'.
Proof.
  unfold db_ttl, db_del; cbn. destruct (bytes_eqb_spec k' k) as [->|N];
    [apply alookup_aremove_same|apply alookup_aremove_other; exact N].
Qed.
Lemma db_get_set_ttl d k t k' : db_get (db_set_ttl d k t) k' = db_get d k'.
Proof. unfold db_set_ttl. destruct (amem k (kv d)); reflexivity. Qed.
Lemma db_ttl_set_ttl d k t k' :
  db_ttl (db_set_ttl d k t) k' =
  if bytes_eqb k' k then match db_get d k with Some _ => Some t | None => db_ttl d k end
  else db_ttl d k'.
Proof.
  unfold db_set_ttl. rewrite amem_db_get. destruct (db_get d k) eqn:G.
  - unfold db_ttl; cbn. destruct (bytes_eqb_spec k' k) as [->|N];
      [apply alookup_aset_same|apply alookup_aset_other; exact N].
  - destruct (bytes_eqb_spec k' k) as [->|N]; reflexivity.
Qed.
Lemma db_get_del_ttl d k k' : db_get (db_del_ttl d k) k' = db_get d k'.
Proof. reflexivity. Qed.
Lemma db_ttl_del_ttl d k k' : db_ttl (db_del_ttl d k) k' = if bytes_eqb k' k then None else db_ttl d k'.
Proof.
  unfold db_ttl, db_del_ttl; cbn. destruct (bytes_eqb_spec k' k) as [->|N];
    [apply alookup_aremove_same|apply alookup_aremove_other; exact N].
Qed.

#[export] Hint Rewrite db_get_set db_ttl_set db_get_del db_ttl_del db_get_set_ttl db_ttl_set_ttl
  db_get_del_ttl db_ttl_del_ttl : dbops.

Lemma view_unfold d now k :
  view d now k =
  match db_get d k with
  | None => None
  | Some v => match db_ttl d k with
              | Some t => if t <=? now then None else Some (v, Some t)
              | None => Some (v, None) end
  end.
Proof. unfold view, expired. destruct (db_get d k); [|reflexivity]. destruct (db_ttl d k); reflexivity. Qed.

Lemma wf_ttl_get d k t : db_wf d -> db_ttl d k = Some t -> exists v, db_get d k = Some v.
Proof.
  intros (_ & _ & H3) E. unfold db_ttl in E. apply alookup_Some_in in E. apply H3 in E.
  apply amem_true_iff in E. unfold amem in E. unfold db_get. destruct (alookup k (kv d)); [eauto|discriminate].
Qed.

(* ------------------------------------------------------------------ the live view of a purged db *)
Definition fresh (V : kview) (now : Z) : Prop := forall k v t, V k = Some (v, Some t) -> now < t.

Lemma view_fresh d now : fresh (view d now) now.
Proof.
  intros k v t. rewrite view_unfold. destruct (db_get d k); [|discriminate].
  destruct (db_ttl d k) as [t0|]; [|discriminate].
  destruct (t0 <=? now) eqn:E; [discriminate|]. intros H; inversion H; subst. lia.
Qed.

Lemma upd_same V k e : upd V k e k = e.
Proof. unfold upd. rewrite bytes_eqb_refl. reflexivity. Qed.
Lemma upd_other V k e k' : k' <> k -> upd V k e k' = V k'.
Proof. intros N. unfold upd. destruct (bytes_eqb_spec k' k); [contradiction|reflexivity]. Qed.

(* ------------------------------------------------------------------ error classes of the model *)
Lemma err_other_is_error : is_error err_other.
Proof. eexists; split; reflexivity. Qed.
Lemma err_wrongtype_is_wrongtype : is_wrongtype err_wrongtype.
Proof. eexists; split; reflexivity. Qed.
Lemma is_error_any r : is_error r -> any_error r.
Proof. intros (s & -> & _). eexists; reflexivity. Qed.
Lemma is_wrongtype_any r : is_wrongtype r -> any_error r.
Proof. intros (s & -> & _). eexists; reflexivity. Qed.
#[export] Hint Resolve err_other_is_error err_wrongtype_is_wrongtype is_error_any is_wrongtype_any : c01.

(* ------------------------------------------------------------------ numerals: atoi64 is an admissible reading *)
Fixpoint hu (acc : Z) (u : Decimal.uint) : Z :=
  match u with
  | Decimal.Nil => acc
  | Decimal.D0 r => hu (acc * 10 + 0) r | Decimal.D1 r => hu (acc * 10 + 1) r
  | Decimal.D2 r => hu (acc * 10 + 2) r | Decimal.D3 r => hu (acc * 10 + 3) r
  | Decimal.D4 r => hu (acc * 10 + 4) r | Decimal.D5 r => hu (acc * 10 + 5) r
  | Decimal.D6 r => hu (acc * 10 + 6) r | Decimal.D7 r => hu (acc * 10 + 7) r
  | Decimal.D8 r => hu (acc * 10 + 8) r | Decimal.D9 r => hu (acc * 10 + 9) r
  end.

Lemma of_uint_acc_hu u : forall acc, Z.pos (Pos.of_uint_acc u acc) = hu (Z.pos acc) u.
Proof.
  induction u as [|u IH|u IH|u IH|u IH|u IH|u IH|u IH|u IH|u IH|u IH]; intros acc; cbn [Pos.of_uint_acc hu];
    [reflexivity|..]; rewrite IH; f_equal; lia.
Qed.

Lemma of_uint_hu u : Z.of_N (N.of_uint u) = hu 0 u.
Proof.
  unfold N.of_uint.
  induction u as [|u IH|u IH|u IH|u IH|u IH|u IH|u IH|u IH|u IH|u IH]; cbn [Pos.of_uint hu];
    [reflexivity|exact IH|..]; cbn [Z.of_N]; rewrite of_uint_acc_hu; reflexivity.
Qed.

Lemma bytes_to_uint_horner s : forall u acc, bytes_to_uint s = Some u -> horner acc s = Some (hu acc u).
Proof.
  induction s as [|c s IH]; intros u acc H.
  - inversion H; subst. reflexivity.
  - cbn [bytes_to_uint] in H. destruct (digit_of_byte c) as [f|] eqn:D; [|discriminate].
    destruct (bytes_to_uint s) as [u0|] eqn:E; [|discriminate]. inversion H; subst. clear H.
    cbn [horner].
    destruct c; try discriminate D; cbn in D; inversion D; subst; cbn [digit_val bval Byte.to_N Z.of_N Z.leb Z.compare Pos.compare Pos.compare_cont andb Z.sub Z.add Z.opp Z.pos_sub];
      apply (IH u0); reflexivity.
Qed.

Lemma parse_udec_udigits s n : parse_udec s = Some n -> udigits s = Some (Z.of_N n).
Proof.
  unfold parse_udec, udigits. destruct s as [|c s]; [discriminate|].
  destruct (bytes_to_uint (c :: s)) as [u|] eqn:E; [|discriminate].
  intros H; inversion H; subst. rewrite (bytes_to_uint_horner _ u 0 E). rewrite of_uint_hu. reflexivity.
Qed.

Lemma udigits_head s z : udigits s = Some z ->
  match s with "-"%byte :: _ | "+"%byte :: _ => False | _ => True end.
Proof. unfold udigits. destruct s as [|c s]; [discriminate|]. cbn [horner]. destruct c; cbn; intros H; try discriminate; exact I. Qed.

Lemma parse_int_sign_digits s z : parse_int_unbounded s = Some z -> sign_digits s = Some z.
Proof.
  unfold parse_int_unbounded, sign_digits.
  destruct s as [|c s]; [discriminate|].
  assert (G : forall r, match parse_udec r with Some n => Some (Z.of_N n) | None => None end = Some z ->
                        udigits r = Some z).
  { intros r H. destruct (parse_udec r) eqn:E; [|discriminate]. inversion H; subst. apply parse_udec_udigits; exact E. }
  destruct c; try (intros H; apply G in H; pose proof (udigits_head _ _ H) as Hh; cbn in Hh; exact H).
  - (* - *) intros H. destruct (parse_udec s) eqn:E; [|discriminate]. inversion H; subst.
    rewrite (parse_udec_udigits _ _ E). reflexivity.
Qed.

Theorem atoi64_admissible : admissible atoi64.
Proof.
  split.
  - intros z Hz. apply atoi64_z_to_dec; exact Hz.
  - intros s z H. unfold atoi64 in H. destruct (parse_int_unbounded s) as [z0|] eqn:E; [|discriminate].
    destruct (in_int64 z0) eqn:R; [|discriminate]. inversion H; subst. split; [exact R|].
    apply parse_int_sign_digits; exact E.
Qed.

(* what the model does with the borderline forms: strconv accepts them *)
Lemma atoi64_borderline :
  atoi64 (B "+5") = Some 5 /\ atoi64 (B "007") = Some 7 /\ atoi64 (B "-0") = Some 0 /\
  atoi64 (B "-007") = Some (-7) /\ atoi64 (B "") = None /\ atoi64 (B " 5") = None /\
  atoi64 (B "5 ") = None /\ atoi64 (B "1_0") = None /\ atoi64 (B "0x10") = None /\
  atoi64 (B "9223372036854775808") = None /\ atoi64 (B "-9223372036854775808") = Some (- 2 ^ 63).
Proof. repeat split; vm_compute; reflexivity. Qed.

(* ------------------------------------------------------------------ one command on a purged database *)
(* [d] is the database a command body runs on (already purged at [now]); [V] is its view. *)
Section Step.
  Variables (d : db) (now : Z) (V : kview).
  Hypothesis W : db_wf d.
  Hypothesis HV : forall k, raw_view d k = V k.
  Hypothesis HF : fresh V now.

  Lemma get_V k : db_get d k = match V k with Some (v, _) => Some v | None => None end.
  Proof. rewrite <- HV. unfold raw_view. destruct (db_get d k); reflexivity. Qed.

  Lemma ttl_V k : db_ttl d k = match V k with Some (_, t) => t | None => None end.
  Proof.
    rewrite <- HV. unfold raw_view. destruct (db_get d k) eqn:G; [reflexivity|].
    destruct (db_ttl d k) eqn:T; [|reflexivity].
    destruct (wf_ttl_get d k z W T) as [v E]. congruence.
  Qed.

  (* the unfolded view of an untouched key is what it was *)
  Lemma vs k :
    match db_get d k with
    | None => None
    | Some v => match db_ttl d k with
                | Some t => if t <=? now then None else Some (v, Some t)
                | None => Some (v, None) end
    end = V k.
  Proof.
    rewrite get_V, ttl_V. destruct (V k) as [[v [t|]]|] eqn:E; try reflexivity.
    apply HF in E. destruct (t <=? now) eqn:L; [lia|reflexivity].
  Qed.

  Lemma view_same k : view d now k = V k.
  Proof. rewrite view_unfold. apply vs. Qed.

  Lemma unch V' : (forall k, V' k = view d now k) -> unchanged V V'.
  Proof. intros H k. rewrite H. apply view_same. Qed.

  Lemma slot_get k :
    db_get d k = match slot_of V k with Missing => None | Str b _ => Some (VStr b) | Other v _ => Some v end.
  Proof. rewrite get_V. unfold slot_of. destruct (V k) as [[[] t]|]; reflexivity. Qed.

  Lemma live_t k v t : V k = Some (v, Some t) -> (t <=? now) = false.
  Proof. intros E. apply HF in E. lia. Qed.

  Ltac start H HV' := intros H HV'; injection H as <- <-.
  Ltac same HV' := apply unch; exact HV'.
  (* case analysis on what key k holds: missing / string / one of the five other types *)
  Ltac ck k E :=
    rewrite ?(get_V k), ?(ttl_V k); unfold slot_of;
    destruct (V k) as [[[?b|?l|?s|?h|?z|?x] ?t]|] eqn:E.
  (* pointwise computation of the view after db_set / db_del / db_set_ttl / db_del_ttl *)
  Ltac post HV' :=
    let k' := fresh "k'" in
    intros k'; rewrite HV', view_unfold; autorewrite with dbops; unfold upd;
    repeat match goal with
    | |- context [bytes_eqb k' ?k] => destruct (bytes_eqb_spec k' k); subst
    end; rewrite ?bytes_eqb_refl; try apply vs.

  (* ---------------- GET / STRLEN / TYPE / MGET / EXISTS / PING ---------------- *)
  Lemma get_ok c k r d' V' :
    exec_get d [c; k] = (r, d') -> (forall k', V' k' = view d' now k') -> ref_get V k r V'.
  Proof.
    unfold exec_get, ref_get. ck k E; start H HV'; (split; [same HV'|auto with c01]).
  Qed.

  Lemma strlen_ok c k r d' V' :
    exec_strlen d [c; k] = (r, d') -> (forall k', V' k' = view d' now k') -> ref_strlen V k r V'.
  Proof.
    unfold exec_strlen, ref_strlen. ck k E; start H HV'; (split; [same HV'|auto with c01]).
  Qed.

  Lemma type_ok c k r d' V' :
    exec_type d [c; k] = (r, d') -> (forall k', V' k' = view d' now k') -> ref_type V k r V'.
  Proof.
    unfold exec_type, ref_type. ck k E; start H HV'; (split; [same HV'|reflexivity]).
  Qed.

  Lemma mget_ok c keys r d' V' :
    exec_mget d (c :: keys) = (r, d') -> (forall k', V' k' = view d' now k') -> ref_mget V keys r V'.
  Proof.
    unfold exec_mget, ref_mget. destruct keys as [|k0 ks]; start H HV'.
    - split; [auto with c01|same HV'].
    - split; [same HV'|]. f_equal.
      change (map (fun k => match db_get d k with Some (VStr b) => RBulk b | _ => RNil end) (k0 :: ks) =
              map (fun k => match slot_of V k with Str b _ => RBulk b | _ => RNil end) (k0 :: ks)).
      apply map_ext. intros k. ck k E; reflexivity.
  Qed.

  Lemma vlive_get k : vlive V k = isSome (db_get d k).
  Proof. unfold vlive. rewrite get_V. destruct (V k) as [[? ?]|]; reflexivity. Qed.

  Lemma exists_ok c keys r d' V' :
    exec_exists d (c :: keys) = (r, d') -> (forall k', V' k' = view d' now k') -> ref_exists V keys r V'.
  Proof.
    unfold exec_exists, ref_exists. destruct keys as [|k0 ks]; start H HV'.
    - split; [auto with c01|same HV'].
    - split; [same HV'|]. f_equal.
      change (zlength (filter (fun k => isSome (db_get d k)) (k0 :: ks)) = zlength (filter (vlive V) (k0 :: ks))).
      f_equal. apply filter_ext. intros k. symmetry. apply vlive_get.
  Qed.

  Lemma ping_ok c rest r d' V' :
    exec_ping d (c :: rest) = (r, d') -> (forall k', V' k' = view d' now k') -> ref_ping V rest r V'.
  Proof.
    unfold exec_ping, ref_ping. destruct rest as [|m [|m2 rest]]; start H HV'; (split; [auto with c01|same HV']).
  Qed.

  (* ---------------- SETNX / SETEX / APPEND ---------------- *)
  Lemma setnx_ok c k v r d' V' :
    exec_setnx d [c; k; v] = (r, d') -> (forall k', V' k' = view d' now k') -> ref_setnx V k v r V'.
  Proof.
    unfold exec_setnx, ref_setnx. ck k E; start H HV'; (split; [reflexivity|]); try (same HV').
    post HV'. rewrite ttl_V, E. reflexivity.
  Qed.

  Lemma setex_ok c k secs v r d' V' :
    exec_setex d now [c; k; secs; v] = (r, d') -> (forall k', V' k' = view d' now k') ->
    ref_setex atoi64 V now k secs v r V'.
  Proof.
    unfold exec_setex, ref_setex. destruct (atoi64 secs) as [n|]; [|start H HV'; split; [auto with c01|same HV']].
    destruct (n <=? 0) eqn:L1; destruct (in_int64 (now + n)) eqn:L2; cbn [orb negb andb];
      replace (0 <? n) with (negb (n <=? 0)) by lia; rewrite L1; cbn [negb andb];
      start H HV'; try (split; [auto with c01|same HV']).
    split; [reflexivity|]. post HV'.
    replace (now + n <=? now) with false by lia. reflexivity.
  Qed.

  Lemma zlength_app {A} (a b : list A) : zlength (a ++ b) = zlength a + zlength b.
  Proof. unfold zlength. rewrite app_length. lia. Qed.
  Lemma zlength_nonneg {A} (a : list A) : 0 <= zlength a.
  Proof. unfold zlength. lia. Qed.

  Lemma append_ok c k v r d' V' :
    exec_append d [c; k; v] = (r, d') -> (forall k', V' k' = view d' now k') -> ref_append V k v r V'.
  Proof.
    unfold exec_append, ref_append. ck k E.
    - unfold max_string_len, max_len.
      destruct (zlength v >? 512 * 1024 * 1024 - zlength b) eqn:L;
        [replace (zlength b + zlength v <=? 512 * 1024 * 1024) with false by lia
        |replace (zlength b + zlength v <=? 512 * 1024 * 1024) with true by lia];
        start H HV'.
      + split; [auto with c01|same HV'].
      + split; [rewrite zlength_app; reflexivity|]. post HV'. rewrite ttl_V, E.
        destruct t as [t|]; [rewrite (live_t _ _ _ E)|]; reflexivity.
    - start H HV'; split; [auto with c01|same HV'].
    - start H HV'; split; [auto with c01|same HV'].
    - start H HV'; split; [auto with c01|same HV'].
    - start H HV'; split; [auto with c01|same HV'].
    - start H HV'; split; [auto with c01|same HV'].
    - start H HV'. split; [reflexivity|]. post HV'. rewrite ttl_V, E. reflexivity.
  Qed.

  (* ---------------- INCR family ---------------- *)
  Lemma incr_ok k delta r d' V' :
    incr_by d k delta = (r, d') -> (forall k', V' k' = view d' now k') -> ref_incr atoi64 V k delta r V'.
  Proof.
    unfold incr_by, ref_incr. ck k E.
    - destruct (atoi64 b) as [n|]; [destruct (in_int64 (n + delta))|]; start H HV';
        try (split; [auto with c01|same HV']).
      split; [reflexivity|]. post HV'. rewrite ttl_V, E.
      destruct t as [t|]; [rewrite (live_t _ _ _ E)|]; reflexivity.
    - start H HV'; split; [auto with c01|same HV'].
    - start H HV'; split; [auto with c01|same HV'].
    - start H HV'; split; [auto with c01|same HV'].
    - start H HV'; split; [auto with c01|same HV'].
    - start H HV'; split; [auto with c01|same HV'].
    - start H HV'. split; [reflexivity|]. post HV'. rewrite ttl_V, E. reflexivity.
  Qed.

  Lemma incrby_ok c k a r d' V' :
    exec_incrby d [c; k; a] = (r, d') -> (forall k', V' k' = view d' now k') ->
    ref_incrby atoi64 V false k a r V'.
  Proof.
    unfold exec_incrby, ref_incrby. destruct (atoi64 a) as [n|] eqn:A.
    - assert (R : in_int64 n = true) by (apply atoi64_admissible in A; tauto). rewrite R.
      apply incr_ok.
    - start H HV'; split; [auto with c01|same HV'].
  Qed.

  Lemma decrby_ok c k a r d' V' :
    exec_decrby d [c; k; a] = (r, d') -> (forall k', V' k' = view d' now k') ->
    ref_incrby atoi64 V true k a r V'.
  Proof.
    unfold exec_decrby, ref_incrby. destruct (atoi64 a) as [n|] eqn:A.
    - destruct (in_int64 (- n)); [apply incr_ok|start H HV'; split; [auto with c01|same HV']].
    - start H HV'; split; [auto with c01|same HV'].
  Qed.

  (* ---------------- GETRANGE / SETRANGE ---------------- *)
  Lemma getrange_arith (dd : db) b s0 e0 :
    (let len := zlength b in
     let start := if s0 <? 0 then len + s0 else s0 in
     let stop := if e0 <? 0 then len + e0 else e0 in
     let stop := if stop >=? len then len - 1 else stop in
     let stop := stop + 1 in
     if (start >? stop) || (start >=? len) || (stop <? 0) then (RBulk [], dd)
     else let start := if start <? 0 then 0 else start in
          (RBulk (slice b start stop), dd))
    = (RBulk (getrange_of b s0 e0), dd).
  Proof.
    cbv zeta. pose proof (zlength_nonneg b) as Hl.
    unfold getrange_of, norm_index, slice, sub.
    set (len := zlength b) in *.
    set (S := if s0 <? 0 then len + s0 else s0).
    set (E := if e0 <? 0 then len + e0 else e0).
    assert (HM : (if E >=? len then len - 1 else E) = Z.min (len - 1) E) by (destruct (E >=? len) eqn:?; lia).
    rewrite HM. set (hi := Z.min (len - 1) E).
    destruct ((S >? hi + 1) || (S >=? len) || (hi + 1 <? 0)) eqn:C.
    - replace (Z.max 0 S <=? hi) with false by lia. reflexivity.
    - replace (if S <? 0 then 0 else S) with (Z.max 0 S) by (destruct (S <? 0) eqn:?; lia).
      destruct (Z.max 0 S <=? hi) eqn:L.
      + do 3 f_equal. lia.
      + replace (Z.to_nat (hi + 1 - Z.max 0 S)) with 0%nat by lia. reflexivity.
  Qed.

  Lemma getrange_ok c k s e r d' V' :
    exec_getrange d [c; k; s; e] = (r, d') -> (forall k', V' k' = view d' now k') ->
    ref_getrange atoi64 V k s e r V'.
  Proof.
    unfold exec_getrange, ref_getrange. ck k E.
    - destruct (atoi64 s) as [s0|]; [destruct (atoi64 e) as [e0|]|].
      + intros H HV'. pose proof (getrange_arith d b s0 e0) as A. cbv zeta in A, H. rewrite A in H.
        injection H as <- <-. split; [same HV'|reflexivity].
      + start H HV'. split; [same HV'|auto with c01].
      + start H HV'. split; [same HV'|auto with c01].
    - start H HV'; split; [same HV'|]. destruct (atoi64 s); [destruct (atoi64 e)|]; auto with c01.
    - start H HV'; split; [same HV'|]. destruct (atoi64 s); [destruct (atoi64 e)|]; auto with c01.
    - start H HV'; split; [same HV'|]. destruct (atoi64 s); [destruct (atoi64 e)|]; auto with c01.
    - start H HV'; split; [same HV'|]. destruct (atoi64 s); [destruct (atoi64 e)|]; auto with c01.
    - start H HV'; split; [same HV'|]. destruct (atoi64 s); [destruct (atoi64 e)|]; auto with c01.
    - start H HV'; split; [same HV'|]. destruct (atoi64 s); [destruct (atoi64 e)|]; auto.
  Qed.

  Lemma zeros_repeat n : zeros n = repeat nul n.
  Proof. induction n as [|n IH]; cbn; [reflexivity|rewrite IH; reflexivity]. Qed.

  Lemma setrange_arith old o v : 0 <= o ->
    (if o >? zlength old then old ++ zeros (Z.to_nat (o - zlength old)) ++ v
     else firstn (Z.to_nat o) old ++ v ++ skipn (Z.to_nat (o + zlength v)) old)
    = setrange_of old o v.
  Proof.
    intros Ho. unfold setrange_of. rewrite zeros_repeat.
    pose proof (zlength_nonneg v) as Hv. unfold zlength in *.
    destruct (o >? Z.of_nat (List.length old)) eqn:C.
    - rewrite firstn_all2 by (rewrite app_length, repeat_length; lia).
      rewrite skipn_all2 by lia. rewrite app_nil_r, <- app_assoc. reflexivity.
    - replace (Z.to_nat (o - Z.of_nat (List.length old))) with 0%nat by lia. cbn [repeat].
      rewrite app_nil_r. reflexivity.
  Qed.

  Lemma setrange_ok c k off v r d' V' :
    exec_setrange d [c; k; off; v] = (r, d') -> (forall k', V' k' = view d' now k') ->
    ref_setrange atoi64 V k off v r V'.
  Proof.
    unfold exec_setrange, ref_setrange.
    destruct (atoi64 off) as [o|]; [|start H HV'; split; [auto with c01|same HV']].
    destruct (o <? 0) eqn:Lo; [start H HV'; split; [auto with c01|same HV']|].
    assert (Ho : 0 <= o) by lia.
    assert (G : forall old t new, V k = Some (VStr old, t) \/ (V k = None /\ old = [] /\ t = None) ->
      new = setrange_of old o v ->
      (if zlength v =? 0 then (RInt (zlength old), d)
       else if o + zlength v >? max_string_len then (err_other, d)
       else (RInt (zlength new), db_set d k (VStr new))) = (r, d') ->
      (forall k', V' k' = view d' now k') ->
      if zlength v =? 0 then r = RInt (zlength old) /\ unchanged V V'
      else if o + zlength v <=? max_len
           then r = RInt (zlength (setrange_of old o v)) /\ veq V' (upd V k (Some (VStr (setrange_of old o v), t)))
           else rejected V r V').
    { intros old t new HK ->. unfold max_string_len, max_len.
      destruct (zlength v =? 0); [start H HV'; split; [reflexivity|same HV']|].
      destruct (o + zlength v >? 512 * 1024 * 1024) eqn:L;
        [replace (o + zlength v <=? 512 * 1024 * 1024) with false by lia
        |replace (o + zlength v <=? 512 * 1024 * 1024) with true by lia]; start H HV'.
      - split; [auto with c01|same HV'].
      - split; [reflexivity|]. post HV'. rewrite ttl_V.
        destruct HK as [E|(E & _ & ->)]; rewrite E; [|reflexivity].
        destruct t as [t|]; [rewrite (live_t _ _ _ E)|]; reflexivity. }
    ck k E; cbv zeta.
    - apply (G b t _ (or_introl eq_refl) (setrange_arith b o v Ho)).
    - start H HV'; split; [auto with c01|same HV'].
    - start H HV'; split; [auto with c01|same HV'].
    - start H HV'; split; [auto with c01|same HV'].
    - start H HV'; split; [auto with c01|same HV'].
    - start H HV'; split; [auto with c01|same HV'].
    - apply (G [] None _ (or_intror (conj eq_refl (conj eq_refl eq_refl))) (setrange_arith [] o v Ho)).
  Qed.
End Step.
