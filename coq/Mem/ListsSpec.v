(* Reference semantics of the list commands (C09), transcribed from the Redis command reference.
   Independent of the executable model (Mem/Lists.v is not imported): a list value is a
   [list bytes] (head first), "the key does not exist" and "the list is empty" are the same
   abstract value [], every clause is written with positions counted from the head
   ([pick], [hits_from], [rem_occ]) rather than with the model's slicing helpers.
   Each clause carries the sentence of the reference it encodes. *)
Require Import Base.Bytes Base.GoInt Base.Reply Mem.Types Mem.Inv.
Local Open Scope Z_scope.

(* ------------------------------------------------------------------ positions *)
(* the elements of l whose position (0-based, counted from the head, first element = i) satisfies p *)
Fixpoint pick_from (i : Z) (p : Z -> bool) (l : list bytes) : list bytes :=
  match l with
  | [] => []
  | x :: r => if p i then x :: pick_from (i + 1) p r else pick_from (i + 1) p r
  end.
Definition pick (p : Z -> bool) (l : list bytes) : list bytes := pick_from 0 p l.

(* replace by position *)
Fixpoint mapi_from (i : Z) (f : Z -> bytes -> bytes) (l : list bytes) : list bytes :=
  match l with
  | [] => []
  | x :: r => f i x :: mapi_from (i + 1) f r
  end.

(* "The offsets can also be negative numbers indicating offsets starting at the end of the
   list: -1 is the last element, -2 the penultimate, and so on." *)
Definition pos_of (n i : Z) : Z := if i <? 0 then n + i else i.

Definition between (lo hi j : Z) : bool := (lo <=? j) && (j <=? hi).

(* ------------------------------------------------------------------ per-command clauses on the list value
   each: list before -> (reply, list after) *)

(* LLEN: "Returns the length of the list stored at key. If key does not exist, it is
   interpreted as an empty list and 0 is returned." *)
Definition ref_llen (l : list bytes) : reply * list bytes := (RInt (zlength l), l).

(* LINDEX: "Returns the element at index in the list. The index is zero-based. Negative indices
   designate elements starting at the tail. ... nil when index is out of range." *)
Definition ref_lindex (i : Z) (l : list bytes) : reply * list bytes :=
  let p := pos_of (zlength l) i in
  (match pick (fun j => j =? p) l with x :: _ => RBulk x | [] => RNil end, l).

(* LRANGE: "Returns the specified elements. The offsets start and stop are zero-based indexes
   (inclusive). Out of range indexes will not produce an error. If start is larger than the end
   of the list, an empty list is returned. If stop is larger than the actual end of the list,
   Redis will treat it like the last element of the list." *)
Definition range_elems (s e : Z) (l : list bytes) : list bytes :=
  let n := zlength l in
  pick (between (Z.max 0 (pos_of n s)) (Z.min (n - 1) (pos_of n e))) l.
Definition ref_lrange (s e : Z) (l : list bytes) : reply * list bytes :=
  (RArr (map RBulk (range_elems s e l)), l).

(* LTRIM: "Trim an existing list so that it will contain only the specified range of elements.
   ... Out of range indexes will not produce an error: if start is larger than the end of the
   list, or start > end, the result will be an empty list (which causes key to be removed)." *)
Definition ref_ltrim (s e : Z) (l : list bytes) : reply * list bytes := (rOK, range_elems s e l).

(* LSET: "Sets the list element at index to element. An error is returned for out of range
   indexes."  (also an error when the key does not exist) *)
Definition ref_lset (i : Z) (v : bytes) (l : list bytes) : reply * list bytes :=
  let n := zlength l in
  let p := pos_of n i in
  if (p <? 0) || (p >=? n) then (err_other, l)
  else (rOK, mapi_from 0 (fun j x => if j =? p then v else x) l).

(* LPUSH: "Insert all the specified values at the head of the list. Elements are inserted one
   after the other to the head of the list, from the leftmost element to the rightmost element.
   ... Integer reply: the length of the list after the push."   RPUSH: the same at the tail. *)
Definition push_all (left : bool) (vals l : list bytes) : list bytes :=
  fold_left (fun acc v => if left then v :: acc else acc ++ [v]) vals l.
Definition ref_push (left : bool) (vals l : list bytes) : reply * list bytes :=
  let l' := push_all left vals l in (RInt (zlength l'), l').
(* LPUSHX / RPUSHX: "... only if key already exists and holds a list. In contrary to LPUSH, no
   operation will be performed when key does not yet exist." (reply 0) *)
Definition ref_pushx (left : bool) (vals l : list bytes) : reply * list bytes :=
  match l with [] => (RInt 0, []) | _ => ref_push left vals l end.

(* first / last element and the rest *)
Definition take_end (left : bool) (l : list bytes) : option (bytes * list bytes) :=
  if left then match l with x :: r => Some (x, r) | [] => None end
  else match pick (fun j => j =? zlength l - 1) l with
       | x :: _ => Some (x, pick (fun j => j <? zlength l - 1) l)
       | [] => None
       end.
Definition put_end (left : bool) (x : bytes) (l : list bytes) : list bytes :=
  if left then x :: l else l ++ [x].

(* LPOP / RPOP without count: "Removes and returns the first (last) element. nil when key does
   not exist." *)
Definition ref_pop1 (left : bool) (l : list bytes) : reply * list bytes :=
  match take_end left l with
  | Some (x, r) => (RBulk x, r)
  | None => (RNil, l)
  end.
(* with count c >= 0 (c = 0: the empty array of "up to 0 elements"): "the reply will consist of up to count elements, depending on the list's
   length" -- LPOP: the first min(c,len) elements head first; RPOP: the last min(c,len) elements,
   tail first; nil when the key does not exist. *)
Definition ref_popn (left : bool) (c : Z) (l : list bytes) : reply * list bytes :=
  let n := zlength l in
  match l with
  | [] => (RNil, [])
  | _ => if left then (RArr (map RBulk (pick (fun j => j <? c) l)), pick (fun j => j >=? c) l)
         else (RArr (map RBulk (rev (pick (fun j => j >=? n - c) l))), pick (fun j => j <? n - c) l)
  end.

(* LREM: "Removes the first count occurrences of elements equal to element. count > 0: remove
   elements equal to element moving from head to tail. count < 0: moving from tail to head.
   count = 0: remove all elements equal to element. Integer reply: the number of removed
   elements."   Occurrences of v are numbered 0,1,2.. from the head. *)
Fixpoint rem_occ_from (o : Z) (p : Z -> bool) (v : bytes) (l : list bytes) : list bytes :=
  match l with
  | [] => []
  | x :: r =>
    if bytes_eqb x v then (if p o then rem_occ_from (o + 1) p v r else x :: rem_occ_from (o + 1) p v r)
    else x :: rem_occ_from o p v r
  end.
Definition occs (v : bytes) (l : list bytes) : Z := zlength (filter (fun x => bytes_eqb x v) l).
Definition ref_lrem (c : Z) (v : bytes) (l : list bytes) : reply * list bytes :=
  let t := occs v l in
  if c >? 0 then (RInt (Z.min c t), rem_occ_from 0 (fun o => o <? c) v l)
  else if c <? 0 then (RInt (Z.min (- c) t), rem_occ_from 0 (fun o => o >=? t + c) v l)
  else (RInt t, rem_occ_from 0 (fun _ => true) v l).

(* LPOS: "returns the index of matching elements inside a list. By default ... scans the list
   from head to tail, looking for the first match. RANK: the rank of the first element to return,
   in case there are multiple matches; a negative rank searches from the tail (positions are still
   reported from the head); 0 is an error.  COUNT n: return the positions of up to n matches as an
   array (0 = all).  MAXLEN n: compare the element only with the first n entries in scan order
   (0 = unlimited)."  No match: nil, or an empty array when COUNT was given. *)
Record lpos_opts := mkRefLpos { o_rank : Z; o_count : option Z; o_maxlen : Z }.

Fixpoint ref_lpos_opts (opts : list bytes) (o : lpos_opts) : option lpos_opts :=
  match opts with
  | [] => Some o
  | [_] => None                                              (* an option without its value *)
  | name :: v :: rest =>
    match atoi64 v with
    | None => None
    | Some x =>
      let nm := lower name in                                (* option names are case-insensitive *)
      if is nm (B "rank") then
        if x =? 0 then None else ref_lpos_opts rest (mkRefLpos x (o_count o) (o_maxlen o))
      else if is nm (B "count") then
        if x <? 0 then None else ref_lpos_opts rest (mkRefLpos (o_rank o) (Some x) (o_maxlen o))
      else if is nm (B "maxlen") then
        if x <? 0 then None else ref_lpos_opts rest (mkRefLpos (o_rank o) (o_count o) x)
      else None
    end
  end.

(* positions, counted from i in scan order, of the elements equal to v *)
Fixpoint hits_from (i : Z) (v : bytes) (l : list bytes) : list Z :=
  match l with
  | [] => []
  | x :: r => if bytes_eqb x v then i :: hits_from (i + 1) v r else hits_from (i + 1) v r
  end.

Definition ref_lpos_positions (o : lpos_opts) (v : bytes) (l : list bytes) : list Z :=
  let n := zlength l in
  let back := o_rank o <? 0 in
  let h0 := hits_from 0 v (if back then rev l else l) in                     (* every match, scan order *)
  let h1 := if o_maxlen o =? 0 then h0 else filter (fun i => i <? o_maxlen o) h0 in     (* MAXLEN *)
  let h2 := skipn (Z.to_nat (Z.abs (o_rank o) - 1)) h1 in                    (* RANK *)
  let h3 := match o_count o with                                             (* COUNT *)
            | None => firstn 1 h2
            | Some c => if c =? 0 then h2 else firstn (Z.to_nat c) h2
            end in
  map (fun i => if back then n - 1 - i else i) h3.

Definition ref_lpos (o : lpos_opts) (v : bytes) (l : list bytes) : reply * list bytes :=
  let ps := ref_lpos_positions o v l in
  (match o_count o with
   | Some _ => RArr (map RInt ps)
   | None => match ps with p :: _ => RInt p | [] => RNil end
   end, l).

(* ------------------------------------------------------------------ the keyspace around the list value *)
(* what a client can observe of every key: value and deadline, or nothing (Inv.view / raw_view) *)
Definition kview := bytes -> option (value * option Z).

(* the list a key stands for: None = a value of another type *)
Definition as_list (o : option (value * option Z)) : option (list bytes) :=
  match o with
  | None => Some []
  | Some (VList l, _) => Some l
  | Some _ => None
  end.
Definition deadline_of (o : option (value * option Z)) : option Z :=
  match o with Some (_, t) => t | None => None end.
(* "a list that becomes empty ceases to exist" (key and deadline) *)
Definition stored (l : list bytes) (t : option Z) : option (value * option Z) :=
  match l with [] => None | _ => Some (VList l, t) end.

Definition unchanged (a b : kview) : Prop := forall k, b k = a k.
Definition same_except (ks : list bytes) (a b : kview) : Prop := forall k, ~ In k ks -> b k = a k.

Inductive clause :=
| CErr                                   (* an error reply (not WRONGTYPE); nothing changes *)
| CKey (k : bytes) (f : list bytes -> reply * list bytes)      (* typed single-key command *)
| CMove (src dst : bytes) (from_left to_left : bool)
| CBlock (left : bool) (keys : list bytes) (timeout_s : Z).

(* the clause for a command without time: views before and after, reply *)
Definition accepts (c : clause) (a b : kview) (r : reply) : Prop :=
  match c with
  | CErr => r = err_other /\ unchanged a b
  | CKey k f =>
    (* "WRONGTYPE Operation against a key holding the wrong kind of value": nothing changes.
       Otherwise the command acts on the list value; the deadline of the key is kept; an
       emptied list disappears with its deadline; no other key is touched. *)
    match as_list (a k) with
    | None => r = err_wrongtype /\ unchanged a b
    | Some l => r = fst (f l) /\ b k = stored (snd (f l)) (deadline_of (a k)) /\ same_except [k] a b
    end
  | CMove src dst fl tl =>
    (* LMOVE: "Atomically returns and removes the first/last element of the list stored at
       source, and pushes the element at the first/last element of the list stored at
       destination. If source does not exist, the value nil is returned and no operation is
       performed. If source and destination are the same, the operation is equivalent to removing
       the first/last element from the list and pushing it as first/last element of the list, so
       it can be considered as a list rotation command." *)
    match as_list (a src) with
    | None => r = err_wrongtype /\ unchanged a b
    | Some ls =>
      match take_end fl ls with
      | None => r = RNil /\ unchanged a b
      | Some (x, ls') =>
        match as_list (a dst) with
        | None => r = err_wrongtype /\ unchanged a b
        | Some ld =>
          r = RBulk x /\ same_except [src; dst] a b /\
          if bytes_eqb src dst
          then b src = stored (put_end tl x ls') (deadline_of (a src))
          else b src = stored ls' (deadline_of (a src)) /\
               b dst = stored (put_end tl x ld) (deadline_of (a dst))
        end
      end
    end
  | CBlock _ _ _ => False                 (* has its own, timed, clause: [block_accepts] *)
  end.

(* BLPOP / BRPOP: "BLPOP is a blocking list pop primitive. ... An element is popped from the head
   of the first list that is non-empty, with the given keys being checked in the order that they
   are given. ... When BLPOP causes a client to block and a non-zero timeout is specified, the
   client will unblock returning a nil multi-bulk value when the specified timeout has expired
   without a push operation against at least one of the specified keys. ... reply: a two-element
   multi-bulk with the first element being the name of the key where an element was popped and the
   second element being the value of the popped element."
   [first_ready]: the outcome of examining the keys in order on view a. *)
Inductive ready := RdNone | RdWrong | RdPop (k x : bytes) (rest : list bytes).
Fixpoint first_ready (left : bool) (a : kview) (keys : list bytes) : ready :=
  match keys with
  | [] => RdNone
  | k :: r =>
    match as_list (a k) with
    | None => RdWrong
    | Some l => match take_end left l with
                | Some (x, l') => RdPop k x l'
                | None => first_ready left a r
                end
    end
  end.

(* served with view [a] (at the instant of serving) becoming [b] *)
Definition served (left : bool) (keys : list bytes) (a b : kview) (r : reply) : Prop :=
  match first_ready left a keys with
  | RdNone => False
  | RdWrong => r = err_wrongtype /\ unchanged a b
  | RdPop k x l' => r = RArr [RBulk k; RBulk x] /\ b k = stored l' (deadline_of (a k)) /\ same_except [k] a b
  end.

(* ------------------------------------------------------------------ from argument vectors to clauses *)
Definition int_arg (s : bytes) : option Z := atoi64 s.      (* 64-bit signed decimal, optional sign *)

Definition lower_is (s : bytes) (name : bytes) : bool := is (lower s) name.

Definition ref_clause (n : bytes) (args : list bytes) : option clause :=
  if is n (B "llen") then
    Some (match args with [_; k] => CKey k ref_llen | _ => CErr end)
  else if is n (B "lindex") then
    Some (match args with
          | [_; k; i] => match int_arg i with Some i => CKey k (ref_lindex i) | None => CErr end
          | _ => CErr end)
  else if is n (B "lrange") then
    Some (match args with
          | [_; k; s; e] => match int_arg s, int_arg e with
                            | Some s, Some e => CKey k (ref_lrange s e) | _, _ => CErr end
          | _ => CErr end)
  else if is n (B "ltrim") then
    Some (match args with
          | [_; k; s; e] => match int_arg s, int_arg e with
                            | Some s, Some e => CKey k (ref_ltrim s e) | _, _ => CErr end
          | _ => CErr end)
  else if is n (B "lset") then
    Some (match args with
          | [_; k; i; v] => match int_arg i with Some i => CKey k (ref_lset i v) | None => CErr end
          | _ => CErr end)
  else if is n (B "lpush") then
    Some (match args with _ :: k :: ((_ :: _) as vals) => CKey k (ref_push true vals) | _ => CErr end)
  else if is n (B "rpush") then
    Some (match args with _ :: k :: ((_ :: _) as vals) => CKey k (ref_push false vals) | _ => CErr end)
  else if is n (B "lpushx") then
    Some (match args with _ :: k :: ((_ :: _) as vals) => CKey k (ref_pushx true vals) | _ => CErr end)
  else if is n (B "rpushx") then
    Some (match args with _ :: k :: ((_ :: _) as vals) => CKey k (ref_pushx false vals) | _ => CErr end)
  else if is n (B "lpop") || is n (B "rpop") then
    let left := is n (B "lpop") in
    Some (match args with
          | [_; k] => CKey k (ref_pop1 left)
          | [_; k; c] =>
            match int_arg c with
            | None => CErr
            | Some c => if c <? 0 then CErr                      (* "value is out of range, must be positive" *)
                        else CKey k (ref_popn left c)            (* count 0 (Redis >= 6.2/7.0): empty array, nil if the key is missing *)
            end
          | _ => CErr end)
  else if is n (B "lrem") then
    Some (match args with
          | [_; k; c; v] => match int_arg c with Some c => CKey k (ref_lrem c v) | None => CErr end
          | _ => CErr end)
  else if is n (B "lpos") then
    Some (match args with
          | _ :: k :: v :: opts =>
            match ref_lpos_opts opts (mkRefLpos 1 None 0) with
            | Some o => CKey k (ref_lpos o v)
            | None => CErr
            end
          | _ => CErr end)
  else if is n (B "lmove") then
    Some (match args with
          | [_; src; dst; sd; dd] =>
            let dir x := if lower_is x (B "left") then Some true
                         else if lower_is x (B "right") then Some false else None in
            match dir sd, dir dd with
            | Some fl, Some tl => CMove src dst fl tl
            | _, _ => CErr
            end
          | _ => CErr end)
  else if is n (B "blpop") || is n (B "brpop") then
    let left := is n (B "blpop") in
    Some (match args with
          | _ :: (_ :: _ :: _) as rest =>
            match int_arg (last rest []) with
            | Some t => if (t <? 0) || (t >? 9223372036) then CErr      (* negative / out of range *)
                        else CBlock left (removelast rest) t
            | None => CErr
            end
          | _ => CErr end)
  else None.
