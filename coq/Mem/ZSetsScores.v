(* Scores as text: every score the model can store (a normal form: what parse_score and score_add
   return) prints, by score_to_bytes, to bytes that parse_score reads back as the same score. *)
Require Import Base.Bytes Base.GoInt Base.Reply Mem.Types Mem.Inv Mem.Avl Mem.AvlProofs Mem.ZSets Mem.ZSetsProofs.
From Coq Require Import Decimal DecimalN DecimalPos.
Local Open Scope Z_scope.

(* ------------------------------------------------------------------ digit strings *)
Definition dval (acc : Z) (ds : bytes) : Z := fold_left (fun a c => a * 10 + digit_val c) ds acc.
Definition all_digits (ds : bytes) : Prop := Forall (fun c => is_digit c = true) ds.

Lemma dval_app acc a b : dval acc (a ++ b) = dval (dval acc a) b.
Proof. unfold dval. apply fold_left_app. Qed.

Lemma read_digits_all ds : forall acc n rest,
  all_digits ds -> (match rest with [] => True | c :: _ => is_digit c = false end) ->
  read_digits (ds ++ rest) acc n = (dval acc ds, (n + N.of_nat (List.length ds))%N, rest).
Proof.
  induction ds as [|c ds IH]; intros acc n rest D R.
  - rewrite app_nil_l. cbn [dval fold_left List.length]. rewrite N.add_0_r.
    destruct rest as [|c r]; [reflexivity|]. cbn [read_digits]. rewrite R. reflexivity.
  - apply Forall_cons_iff in D as [Dc D]. rewrite <- app_comm_cons. cbn [read_digits]. rewrite Dc.
    rewrite IH by assumption. cbn [dval fold_left List.length]. f_equal. f_equal. lia.
Qed.

Lemma uint_digits u : all_digits (uint_to_bytes u).
Proof. induction u; cbn; constructor; try assumption; reflexivity. Qed.

Lemma dval_cons acc c ds : dval acc (c :: ds) = dval (acc * 10 + digit_val c) ds.
Proof. reflexivity. Qed.

Lemma dval_of_uint_acc u : forall acc, Z.pos (Pos.of_uint_acc u acc) = dval (Z.pos acc) (uint_to_bytes u).
Proof.
  induction u; intros acc; cbn [Pos.of_uint_acc uint_to_bytes]; [reflexivity| ..];
    rewrite IHu, dval_cons; f_equal; unfold digit_val;
    match goal with |- context [Z.of_N (bval ?c)] =>
      let v := eval vm_compute in (Z.of_N (bval c)) in change (Z.of_N (bval c)) with v end; lia.
Qed.

Lemma dval_of_uint u : Z.of_N (Pos.of_uint u) = dval 0 (uint_to_bytes u).
Proof.
  induction u; cbn [Pos.of_uint uint_to_bytes]; [reflexivity|rewrite dval_cons; exact IHu| ..];
    rewrite dval_cons; cbn [Z.of_N]; rewrite dval_of_uint_acc; reflexivity.
Qed.

Lemma n_to_dec_digits n : all_digits (n_to_dec n).
Proof. apply uint_digits. Qed.

Lemma dval_n_to_dec n : dval 0 (n_to_dec n) = Z.of_N n.
Proof.
  unfold n_to_dec. rewrite <- dval_of_uint. f_equal. apply DecimalN.Unsigned.of_to.
Qed.

(* ------------------------------------------------------------------ parsing what was printed *)
Lemma is_digit_facts c :
  is_digit c = true -> c <> "-"%byte /\ c <> "+"%byte /\ c <> "i"%byte /\ lower_byte c = c.
Proof.
  intros H. repeat split; try (intros ->; discriminate H).
  unfold is_digit in H. apply andb_true_iff in H as [H1 H2]. apply N.leb_le in H1, H2.
  unfold lower_byte. destruct (N.leb_spec 65 (bval c)); [lia|reflexivity].
Qed.

Lemma parse_score_digit_head c tl :
  is_digit c = true ->
  parse_score (c :: tl) = match parse_udecimal (c :: tl) with Some v => Some (snorm v) | None => None end.
Proof.
  intros H. destruct c; try discriminate H; unfold parse_score, is, lower; cbn [map bytes_eqb];
    repeat match goal with |- context [beqb ?a ?b] =>
      let v := eval vm_compute in (beqb a b) in change (beqb a b) with v end;
    cbn [andb orb]; reflexivity.
Qed.

Lemma parse_score_minus_digit c tl :
  is_digit c = true ->
  parse_score ("-"%byte :: c :: tl) =
  match parse_udecimal (c :: tl) with Some v => Some (snorm (sneg v)) | None => None end.
Proof.
  intros H. destruct c; try discriminate H; unfold parse_score, is, lower; cbn [map bytes_eqb];
    repeat match goal with |- context [beqb ?a ?b] =>
      let v := eval vm_compute in (beqb a b) in change (beqb a b) with v end;
    cbn [andb orb]; reflexivity.
Qed.

Lemma parse_udecimal_int ds :
  all_digits ds -> ds <> [] -> parse_udecimal ds = Some (SFin (dval 0 ds * 10 ^ 0) 0).
Proof.
  intros D N. unfold parse_udecimal.
  rewrite <- (app_nil_r ds) at 1. rewrite (read_digits_all ds 0 0 [] D I).
  cbn iota beta.
  destruct (N.eqb_spec (0 + N.of_nat (List.length ds) + 0) 0) as [E|_].
  - destruct ds; [congruence|cbn in E; lia].
  - reflexivity.
Qed.

Lemma parse_udecimal_frac ip fp :
  all_digits ip -> all_digits fp -> fp <> [] ->
  parse_udecimal (ip ++ "."%byte :: fp) = Some (SFin (dval 0 (ip ++ fp)) (N.of_nat (List.length fp))).
Proof.
  intros Di Df N. unfold parse_udecimal.
  rewrite (read_digits_all ip 0 0 ("."%byte :: fp) Di eq_refl). cbn iota beta.
  rewrite <- (app_nil_r fp) at 1. rewrite (read_digits_all fp (dval 0 ip) 0 [] Df I). cbn iota beta.
  assert (L : (0 < List.length fp)%nat) by (destruct fp; [congruence|cbn; lia]).
  destruct (N.eqb_spec (0 + N.of_nat (List.length ip) + (0 + N.of_nat (List.length fp))) 0) as [E|_]; [lia|].
  cbn [read_exp].
  destruct (Z.geb_spec (0 - Z.of_N (0 + N.of_nat (List.length fp))) 0) as [G|G]; [lia|].
  rewrite dval_app. f_equal. f_equal. lia.
Qed.

Lemma zeros_ch_digits k : all_digits (zeros_ch k).
Proof. induction k; cbn; constructor; [reflexivity|assumption]. Qed.

Lemma dval_zeros k : dval 0 (zeros_ch k) = 0.
Proof. induction k; [reflexivity|]. cbn [zeros_ch]. rewrite dval_cons. exact IHk. Qed.

Lemma zeros_ch_length k : List.length (zeros_ch k) = k.
Proof. induction k; cbn; congruence. Qed.

Lemma all_digits_app a b : all_digits a -> all_digits b -> all_digits (a ++ b).
Proof. unfold all_digits. intros. apply Forall_app. split; assumption. Qed.

Lemma all_digits_firstn k ds : all_digits ds -> all_digits (firstn k ds).
Proof.
  unfold all_digits. rewrite !Forall_forall. intros H x Hx. apply H.
  rewrite <- (firstn_skipn k ds). apply in_or_app. left; exact Hx.
Qed.

Lemma all_digits_skipn k ds : all_digits ds -> all_digits (skipn k ds).
Proof.
  unfold all_digits. rewrite !Forall_forall. intros H x Hx. apply H.
  rewrite <- (firstn_skipn k ds). apply in_or_app. right; exact Hx.
Qed.

(* the score every stored member carries prints to a text that reads back as that score *)
Theorem score_print_parse s : snormal s -> parse_score (score_to_bytes s) = Some s.
Proof.
  destruct s as [|m e|]; intros Nm; [reflexivity| |reflexivity].
  destruct Nm as [N0 N1]. unfold score_to_bytes.
  set (ds0 := n_to_dec (Z.abs_N m)).
  set (en := N.to_nat e).
  set (ds := if (List.length ds0 <=? en)%nat then zeros_ch (en + 1 - List.length ds0) ++ ds0 else ds0).
  assert (Dd : all_digits ds).
  { unfold ds. destruct (List.length ds0 <=? en)%nat; [apply all_digits_app; [apply zeros_ch_digits|]|];
      apply n_to_dec_digits. }
  assert (Vd : dval 0 ds = Z.abs m).
  { unfold ds. destruct (List.length ds0 <=? en)%nat.
    - rewrite dval_app, dval_zeros. unfold ds0. rewrite dval_n_to_dec. lia.
    - unfold ds0. rewrite dval_n_to_dec. lia. }
  assert (Ld : (en + 1 <= List.length ds)%nat).
  { unfold ds. destruct (Nat.leb_spec (List.length ds0) en) as [Q|Q].
    - rewrite app_length, zeros_ch_length. lia.
    - lia. }
  set (k := (List.length ds - en)%nat).
  assert (Ek : ds = firstn k ds ++ skipn k ds) by (symmetry; apply firstn_skipn).
  assert (Lf : List.length (skipn k ds) = en) by (rewrite skipn_length; unfold k; lia).
  assert (Li : List.length (firstn k ds) = k) by (apply firstn_length_le; unfold k; lia).
  assert (Di : all_digits (firstn k ds)) by (apply all_digits_firstn; exact Dd).
  assert (Df : all_digits (skipn k ds)) by (apply all_digits_skipn; exact Dd).
  destruct (firstn k ds) as [|c ip'] eqn:Eip; [cbn in Li; unfold k in Li; lia|].
  assert (Hc : is_digit c = true) by (apply Forall_cons_iff in Di; tauto).
  (* the body and what it parses to *)
  assert (Body : forall body,
    body = match skipn k ds with [] => c :: ip' | _ :: _ => (c :: ip') ++ "."%byte :: skipn k ds end ->
    exists tl, body = c :: tl /\
      parse_udecimal body = Some (if (e =? 0)%N then SFin (Z.abs m * 10 ^ 0) 0 else SFin (Z.abs m) e)).
  { intros body Eb. destruct (skipn k ds) as [|f fp'] eqn:Efp.
    - assert (e = 0%N) by (cbn in Lf; lia). subst e. exists ip'. split; [exact Eb|].
      rewrite Eb, parse_udecimal_int by (assumption || discriminate).
      rewrite app_nil_r in Ek. rewrite <- Ek, Vd. reflexivity.
    - assert (e <> 0%N) by (cbn in Lf; lia). destruct (N.eqb_spec e 0); [contradiction|].
      exists (ip' ++ "."%byte :: f :: fp'). split; [rewrite Eb; reflexivity|].
      rewrite Eb, parse_udecimal_frac by (assumption || discriminate).
      rewrite <- Ek, Vd, Lf. f_equal. f_equal. unfold en. lia. }
  match goal with |- parse_score (if m <? 0 then "-"%byte :: ?b else ?b) = _ =>
    destruct (Body b eq_refl) as (tl & Eb & Pb); set (body := b) in * end.
  clearbody body. subst body.
  assert (Fin : snorm (SFin m e) = SFin m e).
  { unfold snorm. destruct (Z.eqb_spec m 0) as [->|Nz]; [rewrite N0 by reflexivity; reflexivity|].
    destruct (N.eqb_spec e 0) as [->|Ne]; [reflexivity|].
    destruct (N.to_nat e) as [|f] eqn:Ef; [lia|]. cbn [strip10].
    destruct (N.eqb_spec e 0); [contradiction|].
    destruct (Z.eqb_spec (m mod 10) 0) as [Q|_]; [exfalso; apply (N1 Ne); exact Q|reflexivity]. }
  destruct (Z.ltb_spec m 0) as [Neg|Pos].
  - rewrite (parse_score_minus_digit c tl Hc), Pb. f_equal. transitivity (snorm (SFin m e)); [|exact Fin]. f_equal.
    destruct (N.eqb_spec e 0) as [->|_]; cbn [sneg]; f_equal; change (10 ^ 0) with 1; lia.
  - rewrite (parse_score_digit_head c tl Hc), Pb. f_equal. transitivity (snorm (SFin m e)); [|exact Fin]. f_equal.
    destruct (N.eqb_spec e 0) as [->|_]; f_equal; change (10 ^ 0) with 1; lia.
Qed.
