(* ONE invariant for the whole keyspace model, over ALL command families of Mem/Exec.v:

     all_ok d := db_wf d /\ lists_ok d /\ hashes_ok d /\ sets_ok d /\ db_zsets_ok d /\ streams_ok d

   (the shared representation invariant of Mem/Inv.v and the value invariants of the five typed
   families, each as its owner states it: no empty list / hash / set is stored, hash fields and
   set members are not duplicated, every stored sorted set is a valid AVL tree with consistent
   dict / len and is not empty, every stored stream has strictly increasing 64-bit ids).
   It holds of the empty database, is preserved by EVERY command of EVERY family at every clock
   and for every observed hint ([exec_all_ok]) -- RENAME moving values between keys, DEL, SET
   overwriting a key of another type, the *STORE forms, LMOVE, SMOVE, the expiry purge, ... --
   hence by every program, on every numbered database of the server ([run_srv_all_ok]).

   Method.  Each family stores only values of its own type (or moves a value it found, or
   deletes, or edits a deadline): [tstep T d d'] -- every value stored in d' satisfies the type
   tag T or was already stored in d.  The value invariant of ANOTHER family is trivially true
   of a value with tag T, so a T-step preserves it ([tstep_pres]); the family's OWN invariant is
   preserved by its owner's theorem (lists_dispatch_inv, hashes_dispatch_ok_pres,
   sets_dispatch_sets_ok, zsets_dispatch_ok, streams_dispatch_streams_ok). *)
Require Import Base.Bytes Base.GoInt Base.Reply Mem.Types Mem.Inv.
Require Import Mem.Hashes Mem.Avl Mem.ZSets Mem.Streams Mem.Sets Mem.Lists Mem.Strings.
Require Import Mem.Exec Mem.Server Mem.Total.
Require Mem.ListsProofs Mem.ListsRefine Mem.HashesProofs Mem.SetsProofs Mem.ZSetsProofs Mem.StreamsProofs.
Require Mem.ZSetsCompose Mem.StringsRefine Mem.AvlProofs.
Local Open Scope Z_scope.

Definition lists_ok := ListsProofs.lists_ok.
Definition hashes_ok := HashesProofs.hashes_ok.
Definition sets_ok := SetsProofs.sets_ok.
Definition zsets_ok := ZSetsProofs.db_zsets_ok.
Definition streams_ok := StreamsProofs.streams_ok.

Definition all_ok (d : db) : Prop :=
  db_wf d /\ lists_ok d /\ hashes_ok d /\ sets_ok d /\ zsets_ok d /\ streams_ok d.

(* ------------------------------------------------------------------ lookups after the primitives *)
Lemma get_set d k v k' : db_get (db_set d k v) k' = if bytes_eqb k' k then Some v else db_get d k'.
Proof.
  unfold db_get, db_set. cbn. destruct (bytes_eqb_spec k' k) as [->|N];
    [apply alookup_aset_same|apply alookup_aset_other; exact N].
Qed.
Lemma get_del d k k' : db_get (db_del d k) k' = if bytes_eqb k' k then None else db_get d k'.
Proof.
  unfold db_get, db_del. cbn. destruct (bytes_eqb_spec k' k) as [->|N];
    [apply alookup_aremove_same|apply alookup_aremove_other; exact N].
Qed.

(* ------------------------------------------------------------------ typed steps *)
Definition tag_str (v : value) : bool := match v with VStr _ => true | _ => false end.
Definition tag_list (v : value) : bool := match v with VList _ => true | _ => false end.
Definition tag_hash (v : value) : bool := match v with VHash _ => true | _ => false end.
Definition tag_set (v : value) : bool := match v with VSet _ => true | _ => false end.
Definition tag_zset (v : value) : bool := match v with VZSet _ => true | _ => false end.
Definition tag_stream (v : value) : bool := match v with VStream _ => true | _ => false end.

Definition tstep (T : value -> bool) (d d' : db) : Prop :=
  (db_wf d -> db_wf d') /\
  forall k v, db_get d' k = Some v -> T v = true \/ exists k0, db_get d k0 = Some v.

Section Steps.
  Variable T : value -> bool.

  Lemma tstep_refl d : tstep T d d.
  Proof. split; [tauto|]. intros k v H. right. exists k. exact H. Qed.
  Lemma tstep_trans d1 d2 d3 : tstep T d1 d2 -> tstep T d2 d3 -> tstep T d1 d3.
  Proof.
    intros [A1 A2] [B1 B2]. split; [tauto|]. intros k v H.
    destruct (B2 k v H) as [Ht|[k0 H0]]; [left; exact Ht|apply (A2 k0 v H0)].
  Qed.
  Lemma tstep_set d k v : T v = true -> tstep T d (db_set d k v).
  Proof.
    intros Hv. split; [apply db_wf_set|]. intros k1 v1. rewrite get_set. destruct (bytes_eqb k1 k).
    - intros H. inversion H; subst. left. exact Hv.
    - intros H. right. exists k1. exact H.
  Qed.
  Lemma tstep_set_found d k k0 v : db_get d k0 = Some v -> tstep T d (db_set d k v).
  Proof.
    intros G. split; [apply db_wf_set|]. intros k1 v1. rewrite get_set. destruct (bytes_eqb k1 k).
    - intros H. inversion H; subst. right. exists k0. exact G.
    - intros H. right. exists k1. exact H.
  Qed.
  Lemma tstep_del d k : tstep T d (db_del d k).
  Proof.
    split; [apply db_wf_del|]. intros k1 v1. rewrite get_del. destruct (bytes_eqb k1 k); [discriminate|].
    intros H. right. exists k1. exact H.
  Qed.
  Lemma tstep_set_ttl d k t : tstep T d (db_set_ttl d k t).
  Proof.
    split; [apply db_wf_set_ttl|]. unfold db_set_ttl. destruct (amem k (kv d)); intros k1 v H; right; exists k1; exact H.
  Qed.
  Lemma tstep_del_ttl d k : tstep T d (db_del_ttl d k).
  Proof. split; [apply db_wf_del_ttl|]. intros k1 v H. right. exists k1. exact H. Qed.
  Lemma tstep_purge d now : tstep T d (purge d now).
  Proof.
    split; [apply db_wf_purge|]. intros k v. rewrite db_get_purge. destruct (expired d now k); [discriminate|].
    intros H. right. exists k. exact H.
  Qed.

  Lemma tstep_set_after d d1 k v : tstep T d d1 -> T v = true -> tstep T d (db_set d1 k v).
  Proof. intros F Hv. eapply tstep_trans; [exact F|apply tstep_set; exact Hv]. Qed.
  Lemma tstep_del_after d d1 k : tstep T d d1 -> tstep T d (db_del d1 k).
  Proof. intros F. eapply tstep_trans; [exact F|apply tstep_del]. Qed.
  Lemma tstep_set_ttl_after d d1 k t : tstep T d d1 -> tstep T d (db_set_ttl d1 k t).
  Proof. intros F. eapply tstep_trans; [exact F|apply tstep_set_ttl]. Qed.
  Lemma tstep_del_ttl_after d d1 k : tstep T d d1 -> tstep T d (db_del_ttl d1 k).
  Proof. intros F. eapply tstep_trans; [exact F|apply tstep_del_ttl]. Qed.
  Lemma tstep_purge_after d d1 now : tstep T d d1 -> tstep T d (purge d1 now).
  Proof. intros F. eapply tstep_trans; [exact F|apply tstep_purge]. Qed.

  (* a value predicate that is trivially true of the values this kind of step creates *)
  Lemma tstep_pres (Q : value -> Prop) d d' :
    tstep T d d' -> (forall v, T v = true -> Q v) ->
    (forall k v, db_get d k = Some v -> Q v) -> forall k v, db_get d' k = Some v -> Q v.
  Proof.
    intros [_ F] HT HQ k v H. destruct (F k v H) as [Ht|[k0 H0]]; [apply HT; exact Ht|exact (HQ k0 v H0)].
  Qed.
End Steps.

Definition family_tstep (T : value -> bool) (f : family) : Prop :=
  forall d now nowms n args hint r d', f d now nowms n args hint = Some (r, d') -> tstep T d d'.

(* ---- generic proof for executors built from the primitives, possibly through non-recursive
        accessor definitions (hint database kv_all) ---- *)
Ltac break_match :=
  match goal with
  | |- context [match ?x with _ => _ end] =>
    lazymatch x with
    | context [match _ with _ => _ end] => fail
    | _ => destruct x eqn:?
    end
  end.
Ltac t_leaf :=
  cbn [snd];
  repeat first [ apply tstep_refl
               | apply tstep_set_after; [|reflexivity]
               | apply tstep_del_after | apply tstep_set_ttl_after | apply tstep_del_ttl_after
               | apply tstep_purge_after ].
Ltac head_of t := lazymatch t with ?f _ => head_of f | _ => t end.
Create HintDb kv_all.
#[export] Hint Unfold get_hash hash_or_empty put_hash hfloat_store hfloat_follow get_zset put_zset
  get_list put_list get_stream xadd_apply set_apply_ttl incr_by follow_hint
  get_set put_set store_set : kv_all.
Ltac t_exec :=
  match goal with |- tstep _ _ (snd ?x) => let h := head_of x in unfold h; cbv beta zeta end;
  repeat (repeat autounfold with kv_all; break_match); repeat autounfold with kv_all; t_leaf.
Ltac t_family disp tac :=
  let n := fresh "n" in let d' := fresh "d'" in let E := fresh "E" in
  intros ? ? ? n ? ? ? d'; unfold disp;
  repeat match goal with
  | |- context [if is n ?c then _ else _] => destruct (is n c)
  end; intros E; try discriminate; injection E as E;
  apply (f_equal snd) in E; cbn [snd] in E; subst d';
  first [ tac | t_exec ].

Lemma hashes_tstep : family_tstep tag_hash hashes_dispatch.
Proof. t_family hashes_dispatch fail. Qed.
Lemma zsets_tstep : family_tstep tag_zset zsets_dispatch.
Proof. t_family zsets_dispatch fail. Qed.
Lemma streams_tstep : family_tstep tag_stream streams_dispatch.
Proof. t_family streams_dispatch fail. Qed.
Lemma sets_tstep : family_tstep tag_set sets_dispatch.
Proof. t_family sets_dispatch fail. Qed.

(* ---- the executors that loop over keys ---- *)
Lemma bpop_try_tstep left keys : forall d0 d1 r d2,
  tstep tag_list d0 d1 -> bpop_try left d1 keys = Some (r, d2) -> tstep tag_list d0 d2.
Proof.
  induction keys as [|k keys IH]; intros d0 d1 r d2 F E; cbn in E; [discriminate|].
  unfold get_list in E.
  destruct (db_get d1 k) as [[]|]; try (injection E as _ <-; exact F); try (eapply IH; eassumption).
  destruct left; [destruct l as [|x l']|destruct (rev l) as [|x l']]; try (eapply IH; eassumption);
    injection E as _ <-; unfold put_list; break_match; t_leaf; exact F.
Qed.

Lemma exec_bpop_tstep left d nowms args : tstep tag_list d (snd (exec_bpop left d nowms args)).
Proof.
  destruct (ListsRefine.exec_bpop_cases left d nowms args) as [[_ ->]|(keys & t & _ & E)]; [apply tstep_refl|].
  destruct (bpop_try left (purge d ((nowms + 100) / 1000)) keys) as [[r d1]|] eqn:Bq; rewrite E.
  - cbn [snd]. eapply bpop_try_tstep; [apply tstep_purge|exact Bq].
  - apply tstep_refl.
Qed.

Lemma lists_tstep : family_tstep tag_list lists_dispatch.
Proof. t_family lists_dispatch ltac:(apply exec_bpop_tstep). Qed.

Lemma mset_pairs_tstep n : forall (l : list bytes) d0 d1 d2, (List.length l <= n)%nat ->
  tstep tag_str d0 d1 -> mset_pairs d1 l = Some d2 -> tstep tag_str d0 d2.
Proof.
  induction n as [|n IH]; intros l d0 d1 d2 L F E; destruct l as [|k [|v r]]; cbn in *;
    try discriminate; try (injection E as <-; exact F); try lia.
  eapply (IH r); [lia| |exact E]. t_leaf. exact F.
Qed.

Lemma exec_mset_tstep d args : tstep tag_str d (snd (exec_mset d args)).
Proof.
  unfold exec_mset. destruct args as [|c [|k [|v r]]]; try apply tstep_refl.
  destruct (mset_pairs d (k :: v :: r)) as [d'|] eqn:E; [|apply tstep_refl].
  cbn [snd]. eapply mset_pairs_tstep; [apply le_n|apply tstep_refl|exact E].
Qed.

Lemma del_keys_tstep T keys : forall d0 d1 n, tstep T d0 d1 -> tstep T d0 (snd (del_keys d1 keys n)).
Proof.
  induction keys as [|k keys IH]; intros d0 d1 n F; cbn; [exact F|].
  destruct (db_get d1 k); apply IH; apply tstep_del_after; exact F.
Qed.

Lemma exec_del_tstep T d args : tstep T d (snd (exec_del d args)).
Proof.
  unfold exec_del. destruct args as [|c [|k r]]; try apply tstep_refl.
  pose proof (del_keys_tstep T (k :: r) d d 0 (tstep_refl T d)) as H.
  destruct (del_keys d (k :: r) 0) as [n d']. exact H.
Qed.

(* RENAME moves whatever value it finds *)
Lemma exec_rename_tstep T d args : tstep T d (snd (exec_rename d args)).
Proof.
  unfold exec_rename. destruct args as [|c [|old [|new [|x r]]]]; try apply tstep_refl.
  destruct (db_get d old) as [v|] eqn:G; [|apply tstep_refl]. cbv zeta. cbn [snd].
  assert (F : tstep T d (db_set (db_del (db_del d old) new) new v)).
  { split; [intros W; apply db_wf_set, db_wf_del, db_wf_del; exact W|].
    intros k1 v1. rewrite get_set. destruct (bytes_eqb k1 new).
    - intros H. inversion H; subst v1. right. exists old. exact G.
    - rewrite !get_del. destruct (bytes_eqb k1 new); [discriminate|].
      destruct (bytes_eqb k1 old); [discriminate|]. intros H. right. exists k1. exact H. }
  destruct (db_ttl d old); [apply tstep_set_ttl_after|]; exact F.
Qed.

Lemma strings_tstep : family_tstep tag_str strings_dispatch.
Proof.
  t_family strings_dispatch
    ltac:(first [apply exec_mset_tstep | apply exec_del_tstep | apply exec_rename_tstep]).
Qed.

(* ------------------------------------------------------------------ the value invariants under typed steps *)
Lemma lists_ok_tstep T d d' : tstep T d d' -> (forall v, T v = true -> ListsProofs.value_ok_list v) ->
  lists_ok d -> lists_ok d'.
Proof. intros St HT O. exact (tstep_pres T ListsProofs.value_ok_list d d' St HT O). Qed.
Lemma hashes_ok_tstep T d d' : tstep T d d' -> (forall v, T v = true -> HashesProofs.value_ok_hash v) ->
  hashes_ok d -> hashes_ok d'.
Proof. intros St HT O. exact (tstep_pres T HashesProofs.value_ok_hash d d' St HT O). Qed.
Lemma sets_ok_tstep T d d' : tstep T d d' -> (forall v, T v = true -> SetsProofs.value_ok_set v) ->
  sets_ok d -> sets_ok d'.
Proof. intros St HT O. exact (tstep_pres T SetsProofs.value_ok_set d d' St HT O). Qed.
Lemma zsets_ok_tstep T d d' : tstep T d d' -> (forall v, T v = true -> ZSetsProofs.value_ok_zset v) ->
  zsets_ok d -> zsets_ok d'.
Proof. intros St HT O. exact (tstep_pres T ZSetsProofs.value_ok_zset d d' St HT O). Qed.
Lemma streams_ok_tstep T d d' : tstep T d d' -> (forall v, T v = true -> StreamsProofs.value_ok_stream v) ->
  streams_ok d -> streams_ok d'.
Proof. intros St HT O. exact (tstep_pres T StreamsProofs.value_ok_stream d d' St HT O). Qed.

Ltac triv_tag := let v := fresh "v" in let Hv := fresh "Hv" in
  intros v Hv; destruct v; try discriminate Hv; exact I.
(* the invariant of a family other than the one that made the step *)
Ltac other St :=
  first [ apply (lists_ok_tstep _ _ _ St); [triv_tag|assumption]
        | apply (hashes_ok_tstep _ _ _ St); [triv_tag|assumption]
        | apply (sets_ok_tstep _ _ _ St); [triv_tag|assumption]
        | apply (zsets_ok_tstep _ _ _ St); [triv_tag|assumption]
        | apply (streams_ok_tstep _ _ _ St); [triv_tag|assumption] ].

Definition family_all_ok (f : family) : Prop :=
  forall d now nowms n args hint r d', all_ok d -> f d now nowms n args hint = Some (r, d') -> all_ok d'.

Lemma strings_all_ok : family_all_ok strings_dispatch.
Proof.
  intros d now nowms n args hint r d' (W & L & H & S & Z & X) E.
  pose proof (strings_tstep _ _ _ _ _ _ _ _ E) as St. split; [apply (proj1 St); exact W|].
  split; [other St|]. split; [other St|]. split; [other St|]. split; other St.
Qed.

Lemma lists_all_ok : family_all_ok lists_dispatch.
Proof.
  intros d now nowms n args hint r d' (W & L & H & S & Z & X) E.
  pose proof (lists_tstep _ _ _ _ _ _ _ _ E) as St.
  destruct (ListsRefine.lists_dispatch_inv _ _ _ _ _ _ _ _ W L E) as (W' & L' & _).
  split; [exact W'|]. split; [exact L'|].
  split; [other St|]. split; [other St|]. split; other St.
Qed.

Lemma hashes_all_ok : family_all_ok hashes_dispatch.
Proof.
  intros d now nowms n args hint r d' (W & L & H & S & Z & X) E.
  pose proof (hashes_tstep _ _ _ _ _ _ _ _ E) as St. split; [apply (proj1 St); exact W|].
  split; [other St|].
  split; [eapply HashesProofs.hashes_dispatch_ok_pres; eassumption|].
  split; [other St|]. split; other St.
Qed.

Lemma sets_all_ok : family_all_ok sets_dispatch.
Proof.
  intros d now nowms n args hint r d' (W & L & H & S & Z & X) E.
  pose proof (sets_tstep _ _ _ _ _ _ _ _ E) as St. split; [apply (proj1 St); exact W|].
  split; [other St|]. split; [other St|].
  split; [eapply SetsProofs.sets_dispatch_sets_ok; eassumption|].
  split; other St.
Qed.

Lemma zsets_all_ok : family_all_ok zsets_dispatch.
Proof.
  intros d now nowms n args hint r d' (W & L & H & S & Z & X) E.
  pose proof (zsets_tstep _ _ _ _ _ _ _ _ E) as St. split; [apply (proj1 St); exact W|].
  split; [other St|]. split; [other St|]. split; [other St|].
  split; [eapply ZSetsProofs.zsets_dispatch_ok; eassumption|other St].
Qed.

Lemma streams_all_ok : family_all_ok streams_dispatch.
Proof.
  intros d now nowms n args hint r d' (W & L & H & S & Z & X) E.
  pose proof (streams_tstep _ _ _ _ _ _ _ _ E) as St. split; [apply (proj1 St); exact W|].
  split; [other St|]. split; [other St|]. split; [other St|]. split; [other St|].
  eapply StreamsProofs.streams_dispatch_streams_ok; eassumption.
Qed.

(* one line per family of [Exec.families] *)
Lemma families_all_ok : Forall family_all_ok families.
Proof.
  unfold families.
  repeat (apply Forall_cons;
    [lazymatch goal with
     | |- family_all_ok strings_dispatch => exact strings_all_ok
     | |- family_all_ok lists_dispatch => exact lists_all_ok
     | |- family_all_ok hashes_dispatch => exact hashes_all_ok
     | |- family_all_ok sets_dispatch => exact sets_all_ok
     | |- family_all_ok zsets_dispatch => exact zsets_all_ok
     | |- family_all_ok streams_dispatch => exact streams_all_ok
     end|]).
  apply Forall_nil.
Qed.

(* ------------------------------------------------------------------ the theorems *)
Theorem all_ok_empty : all_ok empty_db.
Proof.
  split; [exact db_wf_empty|]. repeat split; intros k v H; discriminate.
Qed.

Lemma all_ok_purge d now : all_ok d -> all_ok (purge d now).
Proof.
  intros (W & L & H & S & Z & X). pose proof (tstep_purge tag_str d now) as St.
  split; [apply db_wf_purge; exact W|].
  repeat split; intros k v G; rewrite db_get_purge in G; destruct (expired d now k); try discriminate;
    [exact (L k v G)|exact (H k v G)|exact (S k v G)|exact (Z k v G)|exact (X k v G)].
Qed.

Lemma dispatch_all_ok fs : Forall family_all_ok fs ->
  forall d now nowms n args hint, all_ok d -> all_ok (snd (dispatch fs d now nowms n args hint)).
Proof.
  induction fs as [|f fs IH]; intros F d now nowms n args hint O; cbn [dispatch]; [exact O|].
  apply Forall_cons_iff in F as [Ff Fr].
  destruct (f d now nowms n args hint) as [[r d']|] eqn:E; [|apply IH; assumption].
  cbn [snd]. eapply Ff; eassumption.
Qed.

(* every command of every family, every clock, every observed reply *)
Theorem exec_all_ok d now nowms args hint : all_ok d -> all_ok (snd (exec d now nowms args hint)).
Proof.
  intros O. unfold exec, exec_cmd. pose proof (all_ok_purge d now O) as O0.
  destruct args as [|name rest]; [exact O0|]. apply dispatch_all_ok; [exact families_all_ok|exact O0].
Qed.

(* ---- server level: every numbered database, every connection ---- *)
Definition srv_all_ok (s : server) : Prop := Forall all_ok (sdbs s).

Lemma srv_all_ok_init n : srv_all_ok (srv_init n).
Proof.
  unfold srv_all_ok, srv_init. cbn. apply Forall_forall. intros d H. apply repeat_spec in H. subst.
  apply all_ok_empty.
Qed.

Theorem srv_exec_all_ok s conn now nowms args hint :
  srv_all_ok s -> srv_all_ok (snd (srv_exec s conn now nowms args hint)).
Proof.
  intros W. unfold srv_exec. destruct args as [|name rest]; [exact W|].
  destruct (is (lower name) (B "select")).
  - unfold exec_select. destruct rest as [|idx [|x r]]; try exact W.
    destruct (atoi64 idx) as [i|]; [|exact W].
    destruct ((0 <=? i) && (i <? zlength (sdbs s))); exact W.
  - destruct (nth_error (sdbs s) (sel_lookup conn (ssel s))) as [d|] eqn:E; [|exact W].
    assert (Od : all_ok d).
    { unfold srv_all_ok in W. rewrite Forall_forall in W. apply W. eapply nth_error_In; exact E. }
    pose proof (exec_all_ok d now nowms (name :: rest) hint Od) as O'.
    destruct (exec d now nowms (name :: rest) hint) as [r d']. cbn in *.
    unfold srv_all_ok. cbn. apply Forall_list_update; assumption.
Qed.

Theorem run_srv_all_ok prog : forall s, srv_all_ok s -> srv_all_ok (snd (run_srv s prog)).
Proof.
  induction prog as [|[[[[conn now] nowms] args] hint] rest IH]; intros s W; cbn; [exact W|].
  pose proof (srv_exec_all_ok s conn now nowms args hint W) as W1.
  destruct (srv_exec s conn now nowms args hint) as [r s1]. cbn in *.
  specialize (IH s1 W1). destruct (run_srv s1 rest) as [rs s2]. exact IH.
Qed.

(* after any program of any commands of any families from any connections, from the initial server *)
Theorem run_srv_init_all_ok n prog : srv_all_ok (snd (run_srv (srv_init n) prog)).
Proof. apply run_srv_all_ok. apply srv_all_ok_init. Qed.

(* what the invariant says of a stored value, spelled out *)
Theorem all_ok_value d k v : all_ok d -> db_get d k = Some v ->
  match v with
  | VStr _ => True
  | VList l => l <> []
  | VHash h => h <> [] /\ NoDup (akeys h)
  | VSet s => NoDup s /\ s <> []
  | VZSet z => AvlProofs.zset_inv z /\ zroot z <> Leaf
  | VStream x => StreamsProofs.stream_ok x
  end.
Proof.
  intros (W & L & H & S & Z & X) G. destruct v; [exact I|exact (L k _ G)|exact (S k _ G)|exact (H k _ G)
    |exact (Z k _ G)|exact (X k _ G)].
Qed.

Theorem run_srv_init_value n prog d k v :
  In d (sdbs (snd (run_srv (srv_init n) prog))) -> db_get d k = Some v ->
  match v with
  | VStr _ => True
  | VList l => l <> []
  | VHash h => h <> [] /\ NoDup (akeys h)
  | VSet s => NoDup s /\ s <> []
  | VZSet z => AvlProofs.zset_inv z /\ zroot z <> Leaf
  | VStream x => StreamsProofs.stream_ok x
  end.
Proof.
  intros Hd G. apply (all_ok_value d k v); [|exact G].
  pose proof (run_srv_init_all_ok n prog) as O. unfold srv_all_ok in O. rewrite Forall_forall in O.
  apply O. exact Hd.
Qed.

(* ------------------------------------------------------------------ each invariant on its own
   (what the owners' composition theorems left as a hypothesis over [families]) *)
Definition vals (Q : value -> Prop) (d : db) : Prop := forall k v, db_get d k = Some v -> Q v.
Definition family_keeps (Q : value -> Prop) (f : family) : Prop :=
  forall d now nowms n args hint r d',
    db_wf d -> vals Q d -> f d now nowms n args hint = Some (r, d') -> db_wf d' /\ vals Q d'.

Lemma keeps_of_tstep T (Q : value -> Prop) f : family_tstep T f -> (forall v, T v = true -> Q v) -> family_keeps Q f.
Proof.
  intros Hf HT d now nowms n args hint r d' W O E. pose proof (Hf _ _ _ _ _ _ _ _ E) as St.
  split; [apply (proj1 St); exact W|exact (tstep_pres T Q d d' St HT O)].
Qed.

Lemma dispatch_keeps (Q : value -> Prop) fs : Forall (family_keeps Q) fs ->
  forall d now nowms n args hint, db_wf d -> vals Q d ->
    db_wf (snd (dispatch fs d now nowms n args hint)) /\ vals Q (snd (dispatch fs d now nowms n args hint)).
Proof.
  induction fs as [|f fs IH]; intros F d now nowms n args hint W O; cbn [dispatch]; [split; assumption|].
  apply Forall_cons_iff in F as [Ff Fr].
  destruct (f d now nowms n args hint) as [[r d']|] eqn:E; [|apply IH; assumption].
  cbn [snd]. eapply Ff; eassumption.
Qed.

Lemma exec_keeps (Q : value -> Prop) : Forall (family_keeps Q) families ->
  forall d now nowms args hint, db_wf d -> vals Q d ->
    db_wf (snd (exec d now nowms args hint)) /\ vals Q (snd (exec d now nowms args hint)).
Proof.
  intros F d now nowms args hint W O. unfold exec, exec_cmd.
  assert (O0 : vals Q (purge d now)).
  { intros k v G. rewrite db_get_purge in G. destruct (expired d now k); [discriminate|exact (O k v G)]. }
  pose proof (db_wf_purge d now W) as W0.
  destruct args as [|name rest]; [split; assumption|]. apply dispatch_keeps; assumption.
Qed.

Lemma run_cmds_keeps (Q : value -> Prop) : Forall (family_keeps Q) families ->
  forall prog d, db_wf d -> vals Q d ->
    db_wf (ZSetsCompose.run_cmds prog d) /\ vals Q (ZSetsCompose.run_cmds prog d).
Proof.
  intros F prog. unfold ZSetsCompose.run_cmds.
  induction prog as [|[[[now nowms] args] hint] rest IH]; intros d W O; [split; assumption|].
  cbn [fold_left]. destruct (exec_keeps Q F d now nowms args hint W O) as [W' O']. apply IH; assumption.
Qed.

(* the typed-step fact of a family, selected by its name (no unification between dispatchers) *)
Ltac tstep_of f k :=
  lazymatch f with
  | strings_dispatch => k tag_str strings_tstep
  | lists_dispatch => k tag_list lists_tstep
  | hashes_dispatch => k tag_hash hashes_tstep
  | sets_dispatch => k tag_set sets_tstep
  | zsets_dispatch => k tag_zset zsets_tstep
  | streams_dispatch => k tag_stream streams_tstep
  end.
Ltac keeps_families ownf own :=
  unfold families;
  repeat (apply Forall_cons;
    [lazymatch goal with
     | |- family_keeps _ ?f =>
       lazymatch f with
       | ownf => exact own
       | _ => tstep_of f ltac:(fun T St => apply (keeps_of_tstep T _ f St); triv_tag)
       end
     end|]);
  apply Forall_nil.

Lemma lists_keeps_own : family_keeps ListsProofs.value_ok_list lists_dispatch.
Proof.
  intros d now nowms n args hint r d' W O E.
  destruct (ListsRefine.lists_dispatch_inv _ _ _ _ _ _ _ _ W O E) as (W' & L' & _). split; assumption.
Qed.
Lemma hashes_keeps_own : family_keeps HashesProofs.value_ok_hash hashes_dispatch.
Proof.
  intros d now nowms n args hint r d' W O E. split; [apply (proj1 (hashes_tstep _ _ _ _ _ _ _ _ E)); exact W|].
  eapply HashesProofs.hashes_dispatch_ok_pres; eassumption.
Qed.
Lemma sets_keeps_own : family_keeps SetsProofs.value_ok_set sets_dispatch.
Proof.
  intros d now nowms n args hint r d' W O E. split; [apply (proj1 (sets_tstep _ _ _ _ _ _ _ _ E)); exact W|].
  eapply SetsProofs.sets_dispatch_sets_ok; eassumption.
Qed.
Lemma zsets_keeps_own : family_keeps ZSetsProofs.value_ok_zset zsets_dispatch.
Proof.
  intros d now nowms n args hint r d' W O E. split; [apply (proj1 (zsets_tstep _ _ _ _ _ _ _ _ E)); exact W|].
  eapply ZSetsProofs.zsets_dispatch_ok; eassumption.
Qed.
Lemma streams_keeps_own : family_keeps StreamsProofs.value_ok_stream streams_dispatch.
Proof.
  intros d now nowms n args hint r d' W O E. split; [apply (proj1 (streams_tstep _ _ _ _ _ _ _ _ E)); exact W|].
  eapply StreamsProofs.streams_dispatch_streams_ok; eassumption.
Qed.

Lemma families_keep_lists : Forall (family_keeps ListsProofs.value_ok_list) families.
Proof. keeps_families lists_dispatch lists_keeps_own. Qed.
Lemma families_keep_hashes : Forall (family_keeps HashesProofs.value_ok_hash) families.
Proof. keeps_families hashes_dispatch hashes_keeps_own. Qed.
Lemma families_keep_sets_own : Forall (family_keeps SetsProofs.value_ok_set) families.
Proof. keeps_families sets_dispatch sets_keeps_own. Qed.
Lemma families_keep_zsets_own : Forall (family_keeps ZSetsProofs.value_ok_zset) families.
Proof. keeps_families zsets_dispatch zsets_keeps_own. Qed.
Lemma families_keep_streams : Forall (family_keeps StreamsProofs.value_ok_stream) families.
Proof. keeps_families streams_dispatch streams_keeps_own. Qed.

(* any program of any commands of any families, each invariant separately *)
Theorem lists_ok_all_commands prog d : db_wf d -> lists_ok d ->
  db_wf (ZSetsCompose.run_cmds prog d) /\ lists_ok (ZSetsCompose.run_cmds prog d).
Proof. apply (run_cmds_keeps _ families_keep_lists). Qed.
Theorem hashes_ok_all_commands prog d : db_wf d -> hashes_ok d ->
  db_wf (ZSetsCompose.run_cmds prog d) /\ hashes_ok (ZSetsCompose.run_cmds prog d).
Proof. apply (run_cmds_keeps _ families_keep_hashes). Qed.
Theorem sets_ok_all_commands prog d : db_wf d -> sets_ok d ->
  db_wf (ZSetsCompose.run_cmds prog d) /\ sets_ok (ZSetsCompose.run_cmds prog d).
Proof. apply (run_cmds_keeps _ families_keep_sets_own). Qed.
Theorem zsets_ok_all_commands prog d : db_wf d -> zsets_ok d ->
  db_wf (ZSetsCompose.run_cmds prog d) /\ zsets_ok (ZSetsCompose.run_cmds prog d).
Proof. apply (run_cmds_keeps _ families_keep_zsets_own). Qed.
Theorem streams_ok_all_commands prog d : db_wf d -> streams_ok d ->
  db_wf (ZSetsCompose.run_cmds prog d) /\ streams_ok (ZSetsCompose.run_cmds prog d).
Proof. apply (run_cmds_keeps _ families_keep_streams). Qed.

(* the hypotheses of ZSetsCompose / StringsRefine, discharged *)
Lemma families_keep_zsets : Forall ZSetsProofs.family_keeps_zsets families.
Proof.
  unfold families.
  repeat (apply Forall_cons;
    [lazymatch goal with
     | |- ZSetsProofs.family_keeps_zsets zsets_dispatch => exact ZSetsProofs.zsets_dispatch_keeps_zsets
     | |- ZSetsProofs.family_keeps_zsets ?f =>
       let d := fresh "d" in let d' := fresh "d'" in let O := fresh "O" in let E := fresh "E" in
       intros d ? ? ? ? ? ? d' O E;
       tstep_of f ltac:(fun T St => apply (zsets_ok_tstep T d d' (St _ _ _ _ _ _ _ _ E)); [triv_tag|exact O])
     end|]).
  apply Forall_nil.
Qed.

Lemma families_wf_pres : Forall StringsRefine.family_wf_pres families.
Proof.
  unfold families.
  repeat (apply Forall_cons;
    [lazymatch goal with
     | |- StringsRefine.family_wf_pres ?f =>
       let W := fresh "W" in let E := fresh "E" in
       intros ? ? ? ? ? ? ? ? W E;
       tstep_of f ltac:(fun T St => apply (proj1 (St _ _ _ _ _ _ _ _ E)); exact W)
     end|]).
  apply Forall_nil.
Qed.

Theorem zsets_all_commands prog d :
  ZSetsProofs.db_zsets_ok d -> ZSetsProofs.db_zsets_ok (ZSetsCompose.run_cmds prog d).
Proof. apply ZSetsCompose.run_cmds_keeps_zsets. exact families_keep_zsets. Qed.
