(* C01 -- from one step to programs, and the separately stated corollaries. *)
Require Import Base.Bytes Base.GoInt Base.Reply Mem.Types Mem.Inv Mem.Strings Mem.Lists Mem.Exec.
Require Import Mem.StringsSpec Mem.StringsProofs.
From Coq Require Import ZifyBool.
Local Open Scope Z_scope.

(* ------------------------------------------------------------------ db_wf through the dispatcher *)
(* One obligation per family; [families_wf_pres] below lists the ones proved so far.  A family
   added to [families] (hashes, sets, sorted sets, streams) plugs in by adding its
   <family>_dispatch_wf_pres to that list. *)
Definition family_wf_pres (f : family) : Prop :=
  forall d now nowms n args hint r d', db_wf d -> f d now nowms n args hint = Some (r, d') -> db_wf d'.

Lemma dispatch_wf fs : Forall family_wf_pres fs ->
  forall d now nowms n args hint r d', db_wf d -> dispatch fs d now nowms n args hint = (r, d') -> db_wf d'.
Proof.
  induction fs as [|f fs IH]; intros HF d now nowms n args hint r d' W H.
  - cbn in H. injection H as <- <-. exact W.
  - inversion HF as [|? ? Hf HFs]; subst. cbn [dispatch] in H.
    destruct (f d now nowms n args hint) as [[r0 d0]|] eqn:E.
    + injection H as <- <-. eapply Hf; eauto.
    + eapply IH; eauto.
Qed.

Lemma exec_wf_families : Forall family_wf_pres families ->
  forall d now nowms args hint r d', db_wf d -> exec d now nowms args hint = (r, d') -> db_wf d'.
Proof.
  intros HF d now nowms args hint r d' W H. unfold exec, exec_cmd in H.
  pose proof (db_wf_purge d now W) as Wp.
  destruct args as [|c rest]; [injection H as <- <-; exact Wp|].
  eapply dispatch_wf; eauto.
Qed.

(* commands the strings family handles (the C01 commands plus EXPIRE / TTL / PERSIST) *)
Definition strings_cmd (args : list bytes) : bool :=
  match args with
  | [] => true
  | c :: _ => isSome (strings_dispatch empty_db 0 0 (lower c) args RNil)
  end.

Lemma strings_dispatch_handles d now nowms n args hint d2 now2 nowms2 hint2 :
  isSome (strings_dispatch d now nowms n args hint) = isSome (strings_dispatch d2 now2 nowms2 n args hint2).
Proof.
  unfold strings_dispatch.
  repeat match goal with |- context [if ?c then _ else _] => destruct c; [reflexivity|] end. reflexivity.
Qed.

Lemma exec_wf_strings d now nowms args hint r d' :
  strings_cmd args = true -> db_wf d -> exec d now nowms args hint = (r, d') -> db_wf d'.
Proof.
  intros S W H. unfold exec, exec_cmd in H. pose proof (db_wf_purge d now W) as Wp.
  destruct args as [|c rest]; [injection H as <- <-; exact Wp|].
  unfold strings_cmd in S.
  rewrite (strings_dispatch_handles _ _ _ _ _ _ (purge d now) now nowms hint) in S.
  unfold families in H. cbn [dispatch] in H.
  destruct (strings_dispatch (purge d now) now nowms (lower c) (c :: rest) hint) as [[r0 d0]|] eqn:E; [|discriminate S].
  injection H as <- <-. eapply strings_dispatch_wf_pres; eauto.
Qed.

Lemma c01_is_strings_cmd args : c01_command args = true -> strings_cmd args = true.
Proof.
  unfold c01_command, strings_cmd. destruct args as [|c rest]; [discriminate|].
  unfold c01_names. cbn [existsb]. intros H.
  repeat (apply orb_true_iff in H; destruct H as [H|H];
          [unfold is in H; apply bytes_eqb_eq in H; rewrite H; reflexivity|]).
  discriminate H.
Qed.

(* ------------------------------------------------------------------ programs *)
Record step := mkStep { s_now : Z; s_nowms : Z; s_args : list bytes; s_hint : reply }.

(* the run of the model: database before, step, reply, database after *)
Fixpoint run (d : db) (p : list step) : list (db * step * reply * db) :=
  match p with
  | [] => []
  | s :: p' =>
    let '(r, d') := exec d (s_now s) (s_nowms s) (s_args s) (s_hint s) in
    (d, s, r, d') :: run d' p'
  end.

(* one entry of a run is what the reference prescribes *)
Definition step_conforms (x : db * step * reply * db) : Prop :=
  let '(d, s, r, d') := x in
  ref_step atoi64 model_floatlib (view d (s_now s)) (s_now s) (s_args s) r (view d' (s_now s)).

(* consecutive entries of a run are chained through the same database *)
Fixpoint chained (d : db) (tr : list (db * step * reply * db)) : Prop :=
  match tr with
  | [] => True
  | (d1, _, _, d2) :: tr' => d1 = d /\ chained d2 tr'
  end.

Lemma run_chained p : forall d, chained d (run d p).
Proof.
  induction p as [|s p IH]; intros d; [exact I|]. cbn [run].
  destruct (exec d (s_now s) (s_nowms s) (s_args s) (s_hint s)) as [r d'].
  split; [reflexivity|apply IH].
Qed.

Theorem refines_families : Forall family_wf_pres families ->
  forall prog d, db_wf d -> Forall step_conforms (run d prog).
Proof.
  intros HF prog. induction prog as [|s p IH]; intros d W; [constructor|]. cbn [run].
  destruct (exec d (s_now s) (s_nowms s) (s_args s) (s_hint s)) as [r d'] eqn:E.
  constructor.
  - cbn. eapply strings_step_refines; eauto.
  - apply IH. eapply exec_wf_families; eauto.
Qed.

Theorem refines_strings : forall prog d, db_wf d ->
  Forall (fun s => strings_cmd (s_args s) = true) prog -> Forall step_conforms (run d prog).
Proof.
  induction prog as [|s p IH]; intros d W HS; [constructor|]. cbn [run].
  inversion HS as [|? ? Hs HS']; subst.
  destruct (exec d (s_now s) (s_nowms s) (s_args s) (s_hint s)) as [r d'] eqn:E.
  constructor.
  - cbn. eapply strings_step_refines; eauto.
  - apply IH; [eapply exec_wf_strings; eauto|exact HS'].
Qed.

(* time only removes keys: the view at a later clock is the earlier view without the keys whose
   deadline has passed (so the chain  view d' now_i  ->  view d' now_{i+1}  between two steps is
   the passage of time and nothing else) *)
Lemma view_later d now now' k : now <= now' ->
  view d now' k = match view d now k with
                  | Some (v, Some t) => if t <=? now' then None else Some (v, Some t)
                  | x => x end.
Proof.
  intros L. rewrite !view_unfold. destruct (db_get d k); [|reflexivity].
  destruct (db_ttl d k) as [t|]; [|reflexivity].
  destruct (t <=? now) eqn:L1; destruct (t <=? now') eqn:L2; try reflexivity; lia.
Qed.

(* ------------------------------------------------------------------ reading a step as its clause *)
Section Names.
  Variables (rd : reading) (F : floatlib) (V : kview) (now : Z) (c : bytes) (r : reply) (V' : kview).
  Ltac nm E H := intros E H; unfold ref_step in H; rewrite E in H; exact H.
  Lemma ref_step_get k : lower c = B "get" -> ref_step rd F V now [c; k] r V' -> ref_get V k r V'.
  Proof. nm E H. Qed.
  Lemma ref_step_set k v opts : lower c = B "set" -> ref_step rd F V now (c :: k :: v :: opts) r V' ->
    ref_set rd V now k v opts r V'.
  Proof. nm E H. Qed.
  Lemma ref_step_incr k : lower c = B "incr" -> ref_step rd F V now [c; k] r V' -> ref_incr rd V k 1 r V'.
  Proof. nm E H. Qed.
  Lemma ref_step_decr k : lower c = B "decr" -> ref_step rd F V now [c; k] r V' -> ref_incr rd V k (-1) r V'.
  Proof. nm E H. Qed.
  Lemma ref_step_incrby k a : lower c = B "incrby" -> ref_step rd F V now [c; k; a] r V' ->
    ref_incrby rd V false k a r V'.
  Proof. nm E H. Qed.
  Lemma ref_step_decrby k a : lower c = B "decrby" -> ref_step rd F V now [c; k; a] r V' ->
    ref_incrby rd V true k a r V'.
  Proof. nm E H. Qed.
End Names.

Lemma ref_set_plain rd V now k v r V' :
  ref_set rd V now k v [] r V' -> r = rOK /\ veq V' (upd V k (Some (VStr v, None))).
Proof. unfold ref_set. cbn. destruct (slot_of V k); intros H; exact H. Qed.

Lemma ref_get_str V k b t r V' : V k = Some (VStr b, t) -> ref_get V k r V' -> r = RBulk b /\ unchanged V V'.
Proof. unfold ref_get, slot_of. intros E (U & H). rewrite E in H. auto. Qed.

(* ------------------------------------------------------------------ C01_binary_safe *)
Theorem binary_safe d now nowms c1 c2 k v h1 h2 r1 d1 r2 d2 :
  db_wf d -> lower c1 = B "set" -> lower c2 = B "get" ->
  exec d now nowms [c1; k; v] h1 = (r1, d1) -> exec d1 now nowms [c2; k] h2 = (r2, d2) ->
  r1 = rOK /\ r2 = RBulk v /\ view d2 now k = Some (VStr v, None) /\
  forall k', k' <> k -> view d2 now k' = view d now k'.
Proof.
  intros W N1 N2 E1 E2.
  pose proof (strings_step_refines _ _ _ _ _ _ _ W E1) as S1.
  apply (ref_step_set _ _ _ _ _ _ _ _ _ _ N1) in S1. apply ref_set_plain in S1. destruct S1 as (R1 & U1).
  assert (W1 : db_wf d1).
  { eapply exec_wf_strings; [|exact W|exact E1]. unfold strings_cmd. rewrite N1. reflexivity. }
  pose proof (strings_step_refines _ _ _ _ _ _ _ W1 E2) as S2.
  apply (ref_step_get _ _ _ _ _ _ _ _ N2) in S2.
  assert (K1 : view d1 now k = Some (VStr v, None)) by (rewrite U1; apply upd_same).
  destruct (ref_get_str _ _ _ _ _ _ K1 S2) as (R2 & U2).
  repeat split; try assumption.
  - rewrite U2. exact K1.
  - intros k' N. rewrite U2, U1. apply upd_other. exact N.
Qed.

(* letter case is part of the key: a key that differs from k only in case is another key *)
Corollary binary_safe_case d now nowms c1 c2 k k' v h1 h2 r1 d1 r2 d2 :
  db_wf d -> lower c1 = B "set" -> lower c2 = B "get" ->
  lower k' = lower k -> k' <> k ->
  exec d now nowms [c1; k; v] h1 = (r1, d1) -> exec d1 now nowms [c2; k] h2 = (r2, d2) ->
  r2 = RBulk v /\ view d2 now k' = view d now k'.
Proof.
  intros W N1 N2 _ NE E1 E2.
  destruct (binary_safe _ _ _ _ _ _ _ _ _ _ _ _ _ W N1 N2 E1 E2) as (_ & R & _ & Fr). split; [exact R|apply Fr; exact NE].
Qed.

(* ------------------------------------------------------------------ C01_wrongtype_changes_nothing *)
(* (a) whatever string-family command answers WRONGTYPE has not touched the database *)
Ltac not_wt HW :=
  let sx := fresh "sx" in let Ex := fresh "Ex" in let Px := fresh "Px" in
  exfalso; destruct HW as (sx & Ex & Px);
  repeat match type of Ex with context [if ?c then _ else _] => destruct c end;
  repeat match type of Ex with context [match ?c with _ => _ end] => destruct c end;
  try discriminate Ex; injection Ex as <-; vm_compute in Px; discriminate Px.

Lemma strings_dispatch_wrongtype_frame d now nowms n args hint r d' :
  strings_dispatch d now nowms n args hint = Some (r, d') -> is_wrongtype r -> d' = d.
Proof.
  intros H HW. unfold strings_dispatch in H.
  repeat match type of H with
  | (if ?c then _ else _) = _ => destruct c
  end; try discriminate H; injection H as H.
  - unfold exec_set in H. repeat wf_step; try reflexivity; not_wt HW.
  - unfold exec_get in H. repeat wf_step; try reflexivity; not_wt HW.
  - unfold exec_getrange in H. repeat wf_step; try reflexivity; not_wt HW.
  - unfold exec_setrange in H. repeat wf_step; try reflexivity; not_wt HW.
  - unfold exec_mget in H. repeat wf_step; try reflexivity; not_wt HW.
  - unfold exec_mset in H. repeat wf_step; try reflexivity; not_wt HW.
  - unfold exec_setex in H. repeat wf_step; try reflexivity; not_wt HW.
  - unfold exec_setnx in H. repeat wf_step; try reflexivity; not_wt HW.
  - unfold exec_strlen in H. repeat wf_step; try reflexivity; not_wt HW.
  - unfold exec_incr, incr_by in H. repeat wf_step; try reflexivity; not_wt HW.
  - unfold exec_decr, incr_by in H. repeat wf_step; try reflexivity; not_wt HW.
  - unfold exec_incrby, incr_by in H. repeat wf_step; try reflexivity; not_wt HW.
  - unfold exec_decrby, incr_by in H. repeat wf_step; try reflexivity; not_wt HW.
  - unfold exec_incrbyfloat, follow_hint in H. repeat wf_step; try reflexivity; not_wt HW.
  - unfold exec_append in H. repeat wf_step; try reflexivity; not_wt HW.
  - unfold exec_del in H. destruct args as [|a0 [|a1 ar]]; try (injection H as <- <-; reflexivity).
    destruct (del_keys d (a1 :: ar) 0) as [n0 d1] eqn:D. injection H as <- <-. not_wt HW.
  - unfold exec_exists in H. repeat wf_step; try reflexivity; not_wt HW.
  - unfold exec_keys in H. repeat wf_step; try reflexivity; not_wt HW.
  - unfold exec_expire in H. cbv zeta in H. repeat wf_step; try reflexivity; not_wt HW.
  - unfold exec_persist in H. repeat wf_step; try reflexivity; not_wt HW.
  - unfold exec_ttl in H. repeat wf_step; try reflexivity; not_wt HW.
  - unfold exec_type in H. repeat wf_step; try reflexivity; not_wt HW.
  - unfold exec_rename in H. repeat wf_step; try reflexivity; not_wt HW.
  - unfold exec_ping in H. repeat wf_step; try reflexivity; not_wt HW.
Qed.

Theorem wrongtype_frame d now nowms args hint r d' :
  strings_cmd args = true -> exec d now nowms args hint = (r, d') -> is_wrongtype r -> d' = purge d now.
Proof.
  intros S H HW. unfold exec, exec_cmd in H.
  destruct args as [|c rest]; [injection H as <- <-; reflexivity|].
  unfold strings_cmd in S.
  rewrite (strings_dispatch_handles _ _ _ _ _ _ (purge d now) now nowms hint) in S.
  unfold families in H. cbn [dispatch] in H.
  destruct (strings_dispatch (purge d now) now nowms (lower c) (c :: rest) hint) as [[r0 d0]|] eqn:E; [|discriminate S].
  injection H as <- <-. eapply strings_dispatch_wrongtype_frame; eauto.
Qed.

(* (b) the commands the reference lets fail with WRONGTYPE on a key of another type, with
   arguments that are otherwise valid *)
Inductive wt_form (k : bytes) : list bytes -> Prop :=
| WT_get c : lower c = B "get" -> wt_form k [c; k]
| WT_strlen c : lower c = B "strlen" -> wt_form k [c; k]
| WT_append c v : lower c = B "append" -> wt_form k [c; k; v]
| WT_incr c : lower c = B "incr" -> wt_form k [c; k]
| WT_decr c : lower c = B "decr" -> wt_form k [c; k]
| WT_incrby c a n : lower c = B "incrby" -> atoi64 a = Some n -> wt_form k [c; k; a]
| WT_decrby c a n : lower c = B "decrby" -> atoi64 a = Some n -> in_int64 (- n) = true -> wt_form k [c; k; a]
| WT_getrange c s e s0 e0 : lower c = B "getrange" -> atoi64 s = Some s0 -> atoi64 e = Some e0 ->
    wt_form k [c; k; s; e]
| WT_setrange c o v o0 : lower c = B "setrange" -> atoi64 o = Some o0 -> 0 <= o0 -> wt_form k [c; k; o; v]
| WT_incrbyfloat c a m e : lower c = B "incrbyfloat" -> classify_float a = FIn m e -> wt_form k [c; k; a]
| WT_set_get c v g : lower c = B "set" -> lower g = B "get" -> wt_form k [c; k; v; g].

Lemma view_some_get d now k v t : view d now k = Some (v, t) -> db_get (purge d now) k = Some v.
Proof.
  unfold view. rewrite db_get_purge. destruct (db_get d k); [|discriminate].
  destruct (expired d now k); [discriminate|]. intros H; inversion H; reflexivity.
Qed.

Theorem wrongtype_changes_nothing d now nowms args hint k v t r d' :
  db_wf d -> view d now k = Some (v, t) -> (forall b, v <> VStr b) -> wt_form k args ->
  exec d now nowms args hint = (r, d') ->
  is_wrongtype r /\ d' = purge d now /\ forall k', view d' now k' = view d now k'.
Proof.
  intros W HK NS F H.
  assert (G : db_get (purge d now) k = Some v) by (eapply view_some_get; exact HK).
  assert (R : is_wrongtype r /\ d' = purge d now).
  { destruct F as [c N|c N|c v0 N|c N|c N|c a n N A|c a n N A I|c s e s0 e0 N A1 A2|c o v0 o0 N A P
                   |c a m e N A|c v0 g N NG].
    - rewrite (exec_get_eq _ _ _ _ _ _ N) in H. unfold exec_get in H. rewrite G in H.
      destruct v; try (exfalso; eapply NS; reflexivity); injection H as <- <-; auto with c01.
    - rewrite (exec_strlen_eq _ _ _ _ _ _ N) in H. unfold exec_strlen in H. rewrite G in H.
      destruct v; try (exfalso; eapply NS; reflexivity); injection H as <- <-; auto with c01.
    - rewrite (exec_append_eq _ _ _ _ _ _ N) in H. unfold exec_append in H. rewrite G in H.
      destruct v; try (exfalso; eapply NS; reflexivity); injection H as <- <-; auto with c01.
    - rewrite (exec_incr_eq _ _ _ _ _ _ N) in H. unfold exec_incr, incr_by in H. rewrite G in H.
      destruct v; try (exfalso; eapply NS; reflexivity); injection H as <- <-; auto with c01.
    - rewrite (exec_decr_eq _ _ _ _ _ _ N) in H. unfold exec_decr, incr_by in H. rewrite G in H.
      destruct v; try (exfalso; eapply NS; reflexivity); injection H as <- <-; auto with c01.
    - rewrite (exec_incrby_eq _ _ _ _ _ _ N) in H. unfold exec_incrby, incr_by in H. rewrite A, G in H.
      destruct v; try (exfalso; eapply NS; reflexivity); injection H as <- <-; auto with c01.
    - rewrite (exec_decrby_eq _ _ _ _ _ _ N) in H. unfold exec_decrby, incr_by in H. rewrite A, I, G in H.
      destruct v; try (exfalso; eapply NS; reflexivity); injection H as <- <-; auto with c01.
    - rewrite (exec_getrange_eq _ _ _ _ _ _ N) in H. unfold exec_getrange in H. rewrite G in H.
      destruct v; try (exfalso; eapply NS; reflexivity); injection H as <- <-; auto with c01.
    - rewrite (exec_setrange_eq _ _ _ _ _ _ N) in H. unfold exec_setrange in H. rewrite A, G in H.
      replace (o0 <? 0) with false in H by lia.
      destruct v; try (exfalso; eapply NS; reflexivity); injection H as <- <-; auto with c01.
    - rewrite (exec_incrbyfloat_eq _ _ _ _ _ _ N) in H. unfold exec_incrbyfloat in H. rewrite A, G in H.
      destruct v; try (exfalso; eapply NS; reflexivity); injection H as <- <-; auto with c01.
    - rewrite (exec_set_eq _ _ _ _ _ _ N) in H. unfold exec_set in H.
      assert (P : set_parse [g] setopts0 = Some (mkSetOpts false false true false None None None)).
      { cbn [set_parse]. rewrite NG. reflexivity. }
      rewrite P in H. cbn [set_conflict ex_overflow o_nx o_xx o_get o_keepttl o_ex o_px o_exat isSome nonpos andb orb] in H.
      rewrite G in H.
      destruct v; try (exfalso; eapply NS; reflexivity); injection H as <- <-; auto with c01. }
  destruct R as (R1 & R2). split; [exact R1|]. split; [exact R2|].
  intros k'. subst d'. rewrite <- (raw_view_purge d now k' W).
  pose proof (db_wf_purge d now W) as Wp.
  rewrite view_unfold. unfold raw_view.
  destruct (db_get (purge d now) k') eqn:G'; [|reflexivity].
  destruct (db_ttl (purge d now) k') as [t0|] eqn:T'; [|reflexivity].
  pose proof (expired_purge_false d now k' W) as X. unfold expired in X. rewrite T' in X. rewrite X. reflexivity.
Qed.
