(* C01 -- from one step to programs, and the separately stated corollaries. *)
Require Import Base.Bytes Base.GoInt Base.Reply Mem.Types Mem.Inv Mem.Strings Mem.Lists Mem.Exec.
Require Import Mem.StringsSpec Mem.StringsProofs.
From Coq Require Import ZifyBool.
Local Open Scope Z_scope.

(* ------------------------------------------------------------------ db_wf through the dispatcher *)
(* One obligation per family; [families_wf_pres] below lists the ones proved so far.  A family
   added to [families] (hashes, sets, sorted sets, streams) plugs in by adding its
   <family>_dispatch_wf_pres to that list. *)
Definition family_wf_pres (f : family) : Prop :=
  forall d now nowms n args hint r d', db_wf d -> f d now nowms n args hint = Some (r, d') -> db_wf d'.

Lemma dispatch_wf fs : Forall family_wf_pres fs ->
  forall d now nowms n args hint r d', db_wf d -> dispatch fs d now nowms n args hint = (r, d') -> db_wf d'.
Proof.
  induction fs as [|f fs IH]; intros HF d now nowms n args hint r d' W H.
  - cbn in H. injection H as <- <-. exact W.
  - inversion HF as [|? ? Hf HFs]; subst. cbn [dispatch] in H.
    destruct (f d now nowms n args hint) as [[r0 d0]|] eqn:E.
    + injection H as <- <-. eapply Hf; eauto.
    + eapply IH; eauto.
Qed.

Lemma exec_wf_families : Forall family_wf_pres families ->
  forall d now nowms args hint r d', db_wf d -> exec d now nowms args hint = (r, d') -> db_wf d'.
Proof.
  intros HF d now nowms args hint r d' W H. unfold exec, exec_cmd in H.
  pose proof (db_wf_purge d now W) as Wp.
  destruct args as [|c rest]; [injection H as <- <-; exact Wp|].
  eapply dispatch_wf; eauto.
Qed.

(* commands the strings family handles (the C01 commands plus EXPIRE / TTL / PERSIST) *)
Definition strings_cmd (args : list bytes) : bool :=
  match args with
  | [] => true
  | c :: _ => isSome (strings_dispatch empty_db 0 0 (lower c) args RNil)
  end.

Lemma strings_dispatch_handles d now nowms n args hint d2 now2 nowms2 hint2 :
  isSome (strings_dispatch d now nowms n args hint) = isSome (strings_dispatch d2 now2 nowms2 n args hint2).
Proof.
  unfold strings_dispatch.
  repeat match goal with |- context [if ?c then _ else _] => destruct c; [reflexivity|] end. reflexivity.
Qed.

Lemma exec_wf_strings d now nowms args hint r d' :
  strings_cmd args = true -> db_wf d -> exec d now nowms args hint = (r, d') -> db_wf d'.
Proof.
  intros S W H. unfold exec, exec_cmd in H. pose proof (db_wf_purge d now W) as Wp.
  destruct args as [|c rest]; [injection H as <- <-; exact Wp|].
  unfold strings_cmd in S.
  rewrite (strings_dispatch_handles _ _ _ _ _ _ (purge d now) now nowms hint) in S.
  unfold families in H. cbn [dispatch] in H.
  destruct (strings_dispatch (purge d now) now nowms (lower c) (c :: rest) hint) as [[r0 d0]|] eqn:E; [|discriminate S].
  injection H as <- <-. eapply strings_dispatch_wf_pres; eauto.
Qed.

Lemma c01_is_strings_cmd args : c01_command args = true -> strings_cmd args = true.
Proof.
  unfold c01_command, strings_cmd. destruct args as [|c rest]; [discriminate|].
  unfold c01_names. cbn [existsb]. intros H.
  repeat (apply orb_true_iff in H; destruct H as [H|H];
          [unfold is in H; apply bytes_eqb_eq in H; rewrite H; reflexivity|]).
  discriminate H.
Qed.

(* ------------------------------------------------------------------ programs *)
Record step := mkStep { s_now : Z; s_nowms : Z; s_args : list bytes; s_hint : reply }.

(* the run of the model: database before, step, reply, database after *)
Fixpoint run (d : db) (p : list step) : list (db * step * reply * db) :=
  match p with
  | [] => []
  | s :: p' =>
    let '(r, d') := exec d (s_now s) (s_nowms s) (s_args s) (s_hint s) in
    (d, s, r, d') :: run d' p'
  end.

(* one entry of a run is what the reference prescribes *)
Definition step_conforms (x : db * step * reply * db) : Prop :=
  let '(d, s, r, d') := x in
  ref_step atoi64 model_floatlib (view d (s_now s)) (s_now s) (s_args s) r (view d' (s_now s)).

(* consecutive entries of a run are chained through the same database *)
Fixpoint chained (d : db) (tr : list (db * step * reply * db)) : Prop :=
  match tr with
  | [] => True
  | (d1, _, _, d2) :: tr' => d1 = d /\ chained d2 tr'
  end.

Lemma run_chained p : forall d, chained d (run d p).
Proof.
  induction p as [|s p IH]; intros d; [exact I|]. cbn [run].
  destruct (exec d (s_now s) (s_nowms s) (s_args s) (s_hint s)) as [r d'].
  split; [reflexivity|apply IH].
Qed.

Theorem refines_families : Forall family_wf_pres families ->
  forall prog d, db_wf d -> Forall step_conforms (run d prog).
Proof.
  intros HF prog. induction prog as [|s p IH]; intros d W; [constructor|]. cbn [run].
  destruct (exec d (s_now s) (s_nowms s) (s_args s) (s_hint s)) as [r d'] eqn:E.
  constructor.
  - cbn. eapply strings_step_refines; eauto.
  - apply IH. eapply exec_wf_families; eauto.
Qed.

Theorem refines_strings : forall prog d, db_wf d ->
  Forall (fun s => strings_cmd (s_args s) = true) prog -> Forall step_conforms (run d prog).
Proof.
  induction prog as [|s p IH]; intros d W HS; [constructor|]. cbn [run].
  inversion HS as [|? ? Hs HS']; subst.
  destruct (exec d (s_now s) (s_nowms s) (s_args s) (s_hint s)) as [r d'] eqn:E.
  constructor.
  - cbn. eapply strings_step_refines; eauto.
  - apply IH; [eapply exec_wf_strings; eauto|exact HS'].
Qed.

(* time only removes keys: the view at a later clock is the earlier view without the keys whose
   deadline has passed (so the chain  view d' now_i  ->  view d' now_{i+1}  between two steps is
   the passage of time and nothing else) *)
Lemma view_later d now now' k : now <= now' ->
  view d now' k = match view d now k with
                  | Some (v, Some t) => if t <=? now' then None else Some (v, Some t)
                  | x => x end.
Proof.
  intros L. rewrite !view_unfold. destruct (db_get d k); [|reflexivity].
  destruct (db_ttl d k) as [t|]; [|reflexivity].
  destruct (t <=? now) eqn:L1; destruct (t <=? now') eqn:L2; try reflexivity; lia.
Qed.

(* ------------------------------------------------------------------ reading a step as its clause *)
Section Names.
  Variables (rd : reading) (F : floatlib) (V : kview) (now : Z) (c : bytes) (r : reply) (V' : kview).
  Ltac nm E H := intros E H; unfold ref_step in H; rewrite E in H; exact H.
  Lemma ref_step_get k : lower c = B "get" -> ref_step rd F V now [c; k] r V' -> ref_get V k r V'.
  Proof. nm E H. Qed.
  Lemma ref_step_set k v opts : lower c = B "set" -> ref_step rd F V now (c :: k :: v :: opts) r V' ->
    ref_set rd V now k v opts r V'.
  Proof. nm E H. Qed.
  Lemma ref_step_incr k : lower c = B "incr" -> ref_step rd F V now [c; k] r V' -> ref_incr rd V k 1 r V'.
  Proof. nm E H. Qed.
  Lemma ref_step_decr k : lower c = B "decr" -> ref_step rd F V now [c; k] r V' -> ref_incr rd V k (-1) r V'.
  Proof. nm E H. Qed.
  Lemma ref_step_incrby k a : lower c = B "incrby" -> ref_step rd F V now [c; k; a] r V' ->
    ref_incrby rd V false k a r V'.
  Proof. nm E H. Qed.
  Lemma ref_step_decrby k a : lower c = B "decrby" -> ref_step rd F V now [c; k; a] r V' ->
    ref_incrby rd V true k a r V'.
  Proof. nm E H. Qed.
End Names.

Lemma ref_set_plain rd V now k v r V' :
  ref_set rd V now k v [] r V' -> r = rOK /\ veq V' (upd V k (Some (VStr v, None))).
Proof. unfold ref_set. cbn. destruct (slot_of V k); intros H; exact H. Qed.

Lemma ref_get_str V k b t r V' : V k = Some (VStr b, t) -> ref_get V k r V' -> r = RBulk b /\ unchanged V V'.
Proof. unfold ref_get, slot_of. intros E (U & H). rewrite E in H. auto. Qed.

(* ------------------------------------------------------------------ C01_binary_safe *)
Theorem binary_safe d now nowms c1 c2 k v h1 h2 r1 d1 r2 d2 :
  db_wf d -> lower c1 = B "set" -> lower c2 = B "get" ->
  exec d now nowms [c1; k; v] h1 = (r1, d1) -> exec d1 now nowms [c2; k] h2 = (r2, d2) ->
  r1 = rOK /\ r2 = RBulk v /\ view d2 now k = Some (VStr v, None) /\
  forall k', k' <> k -> view d2 now k' = view d now k'.
Proof.
  intros W N1 N2 E1 E2.
  pose proof (strings_step_refines _ _ _ _ _ _ _ W E1) as S1.
  apply (ref_step_set _ _ _ _ _ _ _ _ _ _ N1) in S1. apply ref_set_plain in S1. destruct S1 as (R1 & U1).
  assert (W1 : db_wf d1).
  { eapply exec_wf_strings; [|exact W|exact E1]. unfold strings_cmd. rewrite N1. reflexivity. }
  pose proof (strings_step_refines _ _ _ _ _ _ _ W1 E2) as S2.
  apply (ref_step_get _ _ _ _ _ _ _ _ N2) in S2.
  assert (K1 : view d1 now k = Some (VStr v, None)) by (rewrite U1; apply upd_same).
  destruct (ref_get_str _ _ _ _ _ _ K1 S2) as (R2 & U2).
  repeat split; try assumption.
  - rewrite U2. exact K1.
  - intros k' N. rewrite U2, U1. apply upd_other. exact N.
Qed.

(* letter case is part of the key: a key that differs from k only in case is another key *)
Corollary binary_safe_case d now nowms c1 c2 k k' v h1 h2 r1 d1 r2 d2 :
  db_wf d -> lower c1 = B "set" -> lower c2 = B "get" ->
  lower k' = lower k -> k' <> k ->
  exec d now nowms [c1; k; v] h1 = (r1, d1) -> exec d1 now nowms [c2; k] h2 = (r2, d2) ->
  r2 = RBulk v /\ view d2 now k' = view d now k'.
Proof.
  intros W N1 N2 _ NE E1 E2.
  destruct (binary_safe _ _ _ _ _ _ _ _ _ _ _ _ _ W N1 N2 E1 E2) as (_ & R & _ & Fr). split; [exact R|apply Fr; exact NE].
Qed.

(* ------------------------------------------------------------------ C01_wrongtype_changes_nothing *)
(* (a) whatever string-family command answers WRONGTYPE has not touched the database *)
Ltac not_wt HW :=
  let sx := fresh "sx" in let Ex := fresh "Ex" in let Px := fresh "Px" in
  exfalso; destruct HW as (sx & Ex & Px);
  repeat match type of Ex with context [if ?c then _ else _] => destruct c end;
  repeat match type of Ex with context [match ?c with _ => _ end] => destruct c end;
  try discriminate Ex; injection Ex as <-; vm_compute in Px; discriminate Px.

Lemma strings_dispatch_wrongtype_frame d now nowms n args hint r d' :
  strings_dispatch d now nowms n args hint = Some (r, d') -> is_wrongtype r -> d' = d.
Proof.
  intros H HW. unfold strings_dispatch in H.
  repeat match type of H with
  | (if ?c then _ else _) = _ => destruct c
  end; try discriminate H; injection H as H.
  - unfold exec_set in H. repeat wf_step; try reflexivity; not_wt HW.
  - unfold exec_get in H. repeat wf_step; try reflexivity; not_wt HW.
  - unfold exec_getrange in H. repeat wf_step; try reflexivity; not_wt HW.
  - unfold exec_setrange in H. repeat wf_step; try reflexivity; not_wt HW.
  - unfold exec_mget in H. repeat wf_step; try reflexivity; not_wt HW.
  - unfold exec_mset in H. repeat wf_step; try reflexivity; not_wt HW.
  - unfold exec_setex in H. repeat wf_step; try reflexivity; not_wt HW.
  - unfold exec_setnx in H. repeat wf_step; try reflexivity; not_wt HW.
  - unfold exec_strlen in H. repeat wf_step; try reflexivity; not_wt HW.
  - unfold exec_incr, incr_by in H. repeat wf_step; try reflexivity; not_wt HW.
  - unfold exec_decr, incr_by in H. repeat wf_step; try reflexivity; not_wt HW.
  - unfold exec_incrby, incr_by in H. repeat wf_step; try reflexivity; not_wt HW.
  - unfold exec_decrby, incr_by in H. repeat wf_step; try reflexivity; not_wt HW.
  - unfold exec_incrbyfloat, follow_hint in H. repeat wf_step; try reflexivity; not_wt HW.
  - unfold exec_append in H. repeat wf_step; try reflexivity; not_wt HW.
  - unfold exec_del in H. destruct args as [|a0 [|a1 ar]]; try (injection H as <- <-; reflexivity).
    destruct (del_keys d (a1 :: ar) 0) as [n0 d1] eqn:D. injection H as <- <-. not_wt HW.
  - unfold exec_exists in H. repeat wf_step; try reflexivity; not_wt HW.
  - unfold exec_keys in H. repeat wf_step; try reflexivity; not_wt HW.
  - unfold exec_expire in H. cbv zeta in H. repeat wf_step; try reflexivity; not_wt HW.
  - unfold exec_persist in H. repeat wf_step; try reflexivity; not_wt HW.
  - unfold exec_ttl in H. repeat wf_step; try reflexivity; not_wt HW.
  - unfold exec_type in H. repeat wf_step; try reflexivity; not_wt HW.
  - unfold exec_rename in H. repeat wf_step; try reflexivity; not_wt HW.
  - unfold exec_ping in H. repeat wf_step; try reflexivity; not_wt HW.
Qed.

Theorem wrongtype_frame d now nowms args hint r d' :
  strings_cmd args = true -> exec d now nowms args hint = (r, d') -> is_wrongtype r -> d' = purge d now.
Proof.
  intros S H HW. unfold exec, exec_cmd in H.
  destruct args as [|c rest]; [injection H as <- <-; reflexivity|].
  unfold strings_cmd in S.
  rewrite (strings_dispatch_handles _ _ _ _ _ _ (purge d now) now nowms hint) in S.
  unfold families in H. cbn [dispatch] in H.
  destruct (strings_dispatch (purge d now) now nowms (lower c) (c :: rest) hint) as [[r0 d0]|] eqn:E; [|discriminate S].
  injection H as <- <-. eapply strings_dispatch_wrongtype_frame; eauto.
Qed.

(* (b) the commands the reference lets fail with WRONGTYPE on a key of another type, with
   arguments that are otherwise valid *)
Inductive wt_form (k : bytes) : list bytes -> Prop :=
| WT_get c : lower c = B "get" -> wt_form k [c; k]
| WT_strlen c : lower c = B "strlen" -> wt_form k [c; k]
| WT_append c v : lower c = B "append" -> wt_form k [c; k; v]
| WT_incr c : lower c = B "incr" -> wt_form k [c; k]
| WT_decr c : lower c = B "decr" -> wt_form k [c; k]
| WT_incrby c a n : lower c = B "incrby" -> atoi64 a = Some n -> wt_form k [c; k; a]
| WT_decrby c a n : lower c = B "decrby" -> atoi64 a = Some n -> in_int64 (- n) = true -> wt_form k [c; k; a]
| WT_getrange c s e s0 e0 : lower c = B "getrange" -> atoi64 s = Some s0 -> atoi64 e = Some e0 ->
    wt_form k [c; k; s; e]
| WT_setrange c o v o0 : lower c = B "setrange" -> atoi64 o = Some o0 -> 0 <= o0 -> wt_form k [c; k; o; v]
| WT_incrbyfloat c a m e : lower c = B "incrbyfloat" -> classify_float a = FIn m e -> wt_form k [c; k; a]
| WT_set_get c v g : lower c = B "set" -> lower g = B "get" -> wt_form k [c; k; v; g].

Lemma view_some_get d now k v t : view d now k = Some (v, t) -> db_get (purge d now) k = Some v.
Proof.
  unfold view. rewrite db_get_purge. destruct (db_get d k); [|discriminate].
  destruct (expired d now k); [discriminate|]. intros H; inversion H; reflexivity.
Qed.

Theorem wrongtype_changes_nothing d now nowms args hint k v t r d' :
  db_wf d -> view d now k = Some (v, t) -> (forall b, v <> VStr b) -> wt_form k args ->
  exec d now nowms args hint = (r, d') ->
  is_wrongtype r /\ d' = purge d now /\ forall k', view d' now k' = view d now k'.
Proof.
  intros W HK NS F H.
  assert (G : db_get (purge d now) k = Some v) by (eapply view_some_get; exact HK).
  assert (R : is_wrongtype r /\ d' = purge d now).
  { destruct F as [c N|c N|c v0 N|c N|c N|c a n N A|c a n N A I|c s e s0 e0 N A1 A2|c o v0 o0 N A P
                   |c a m e N A|c v0 g N NG].
    - rewrite (exec_get_eq _ _ _ _ _ _ N) in H. unfold exec_get in H. rewrite G in H.
      destruct v; try (exfalso; eapply NS; reflexivity); injection H as <- <-; auto with c01.
    - rewrite (exec_strlen_eq _ _ _ _ _ _ N) in H. unfold exec_strlen in H. rewrite G in H.
      destruct v; try (exfalso; eapply NS; reflexivity); injection H as <- <-; auto with c01.
    - rewrite (exec_append_eq _ _ _ _ _ _ N) in H. unfold exec_append in H. rewrite G in H.
      destruct v; try (exfalso; eapply NS; reflexivity); injection H as <- <-; auto with c01.
    - rewrite (exec_incr_eq _ _ _ _ _ _ N) in H. unfold exec_incr, incr_by in H. rewrite G in H.
      destruct v; try (exfalso; eapply NS; reflexivity); injection H as <- <-; auto with c01.
    - rewrite (exec_decr_eq _ _ _ _ _ _ N) in H. unfold exec_decr, incr_by in H. rewrite G in H.
      destruct v; try (exfalso; eapply NS; reflexivity); injection H as <- <-; auto with c01.
    - rewrite (exec_incrby_eq _ _ _ _ _ _ N) in H. unfold exec_incrby, incr_by in H. rewrite A, G in H.
      destruct v; try (exfalso; eapply NS; reflexivity); injection H as <- <-; auto with c01.
    - rewrite (exec_decrby_eq _ _ _ _ _ _ N) in H. unfold exec_decrby, incr_by in H. rewrite A, I, G in H.
      destruct v; try (exfalso; eapply NS; reflexivity); injection H as <- <-; auto with c01.
    - rewrite (exec_getrange_eq _ _ _ _ _ _ N) in H. unfold exec_getrange in H. rewrite G in H.
      destruct v; try (exfalso; eapply NS; reflexivity); injection H as <- <-; auto with c01.
    - rewrite (exec_setrange_eq _ _ _ _ _ _ N) in H. unfold exec_setrange in H. rewrite A, G in H.
      replace (o0 <? 0) with false in H by lia.
      destruct v; try (exfalso; eapply NS; reflexivity); injection H as <- <-; auto with c01.
    - rewrite (exec_incrbyfloat_eq _ _ _ _ _ _ N) in H. unfold exec_incrbyfloat in H. rewrite A, G in H.
      destruct v; try (exfalso; eapply NS; reflexivity); injection H as <- <-; auto with c01.
    - rewrite (exec_set_eq _ _ _ _ _ _ N) in H. unfold exec_set in H.
      assert (P : set_parse [g] setopts0 = Some (mkSetOpts false false true false None None None)).
      { cbn [set_parse]. rewrite NG. reflexivity. }
      rewrite P in H. cbn [set_conflict ex_overflow o_nx o_xx o_get o_keepttl o_ex o_px o_exat isSome nonpos andb orb] in H.
      rewrite G in H.
      destruct v; try (exfalso; eapply NS; reflexivity); injection H as <- <-; auto with c01. }
  destruct R as (R1 & R2). split; [exact R1|]. split; [exact R2|].
  intros k'. subst d'. rewrite <- (raw_view_purge d now k' W).
  pose proof (db_wf_purge d now W) as Wp.
  rewrite view_unfold. unfold raw_view.
  destruct (db_get (purge d now) k') eqn:G'; [|reflexivity].
  destruct (db_ttl (purge d now) k') as [t0|] eqn:T'; [|reflexivity].
  pose proof (expired_purge_false d now k' W) as X. unfold expired in X. rewrite T' in X. rewrite X. reflexivity.
Qed.

(* ------------------------------------------------------------------ C01_unknown_key_commands_frame *)
Lemma fr_unch V V' k : unchanged V V' -> V' k = V k.
Proof. intros U. apply U. Qed.
Lemma fr_upd V V' k0 e k : veq V' (upd V k0 e) -> k <> k0 -> V' k = V k.
Proof. intros U N. rewrite U. apply upd_other. exact N. Qed.
Lemma fr_written V V' now k0 v t k : veq V' (written V now k0 v t) -> k <> k0 -> V' k = V k.
Proof.
  intros U N. rewrite U. unfold written. destruct t as [dl|]; [destruct (dl <=? now)|]; apply upd_other; exact N.
Qed.
Lemma fr_mset ps : forall V k, ~ In k (map fst ps) -> mset_view V ps k = V k.
Proof.
  induction ps as [|p ps IH]; intros V k N; [reflexivity|].
  unfold mset_view in *. cbn [fold_left]. rewrite IH by (intros X; apply N; right; exact X).
  apply upd_other. intros E. apply N. left. symmetry. exact E.
Qed.
Lemma pairs_keys l : forall ps, pairs_of l = Some ps -> map fst ps = odd_positions l.
Proof.
  assert (G : forall n l, (List.length l <= n)%nat -> forall ps, pairs_of l = Some ps -> map fst ps = odd_positions l).
  { induction n as [|n IH]; intros l0 L ps H.
    - destruct l0; [inversion H; reflexivity|cbn in L; lia].
    - destruct l0 as [|a [|b l1]]; [inversion H; reflexivity|discriminate H|].
      cbn [pairs_of] in H. destruct (pairs_of l1) as [ps1|] eqn:E; [|discriminate H].
      inversion H; subst. cbn [map fst odd_positions]. f_equal. apply IH; [cbn in L; lia|exact E]. }
  intros ps. apply (G (List.length l)). lia.
Qed.
Lemma mentions_false keys k : ~ In k keys -> mentions keys k = false.
Proof.
  intros N. unfold mentions. destruct (existsb (bytes_eqb k) keys) eqn:E; [|reflexivity].
  apply existsb_exists in E as (x & Hx & Ex). apply bytes_eqb_eq in Ex. subst. contradiction.
Qed.

Ltac fr_split :=
  repeat match goal with
  | H : _ /\ _ |- _ => destruct H
  | H : _ \/ _ |- _ => destruct H
  | H : exists _, _ |- _ => destruct H
  | H : context [match ?x with _ => _ end] |- _ => destruct x
  | H : context [if ?x then _ else _] |- _ => destruct x
  end.
Ltac fr_done :=
  unfold rejected, rejected_any, wrongtype in *; fr_split;
  first [ apply fr_unch; assumption | eapply fr_upd; eassumption | eapply fr_written; eassumption ].

Section Frames.
  Variables (rd : reading) (V V' : kview) (now : Z) (r : reply) (k : bytes).
  Lemma fr_get k0 : ref_get V k0 r V' -> V' k = V k.
  Proof. unfold ref_get. intros H. fr_done. Qed.
  Lemma fr_strlen k0 : ref_strlen V k0 r V' -> V' k = V k.
  Proof. unfold ref_strlen. intros H. fr_done. Qed.
  Lemma fr_type k0 : ref_type V k0 r V' -> V' k = V k.
  Proof. unfold ref_type. intros H. fr_done. Qed.
  Lemma fr_getrange k0 s e : ref_getrange rd V k0 s e r V' -> V' k = V k.
  Proof. unfold ref_getrange. intros H. destruct H as (U & _). apply fr_unch; exact U. Qed.
  Lemma fr_mget ks : ref_mget V ks r V' -> V' k = V k.
  Proof. unfold ref_mget. intros H. destruct ks; fr_done. Qed.
  Lemma fr_exists ks : ref_exists V ks r V' -> V' k = V k.
  Proof. unfold ref_exists. intros H. destruct ks; fr_done. Qed.
  Lemma fr_keys p : ref_keys V p r V' -> V' k = V k.
  Proof. unfold ref_keys. intros (U & _). apply fr_unch; exact U. Qed.
  Lemma fr_ping rest : ref_ping V rest r V' -> V' k = V k.
  Proof. unfold ref_ping. intros H. fr_done. Qed.
  Lemma fr_set k0 v opts : ref_set rd V now k0 v opts r V' -> k <> k0 -> V' k = V k.
  Proof. unfold ref_set. cbv zeta. intros H N. fr_done. Qed.
  Lemma fr_setnx k0 v : ref_setnx V k0 v r V' -> k <> k0 -> V' k = V k.
  Proof. unfold ref_setnx. intros H N. fr_done. Qed.
  Lemma fr_setex k0 s v : ref_setex rd V now k0 s v r V' -> k <> k0 -> V' k = V k.
  Proof. unfold ref_setex. intros H N. fr_done. Qed.
  Lemma fr_append k0 v : ref_append V k0 v r V' -> k <> k0 -> V' k = V k.
  Proof. unfold ref_append. intros H N. fr_done. Qed.
  Lemma fr_setrange k0 o v : ref_setrange rd V k0 o v r V' -> k <> k0 -> V' k = V k.
  Proof. unfold ref_setrange. cbv zeta. intros H N. fr_done. Qed.
  Lemma fr_incr k0 dl : ref_incr rd V k0 dl r V' -> k <> k0 -> V' k = V k.
  Proof. unfold ref_incr. intros H N. fr_done. Qed.
  Lemma fr_incrby k0 ng a : ref_incrby rd V ng k0 a r V' -> k <> k0 -> V' k = V k.
  Proof.
    unfold ref_incrby. intros H N. destruct (rd a) as [n|]; [|fr_done].
    destruct (in_int64 (if ng then - n else n)); [eapply fr_incr; eauto|fr_done].
  Qed.
  Lemma fr_incrbyfloat fl ad fm k0 a : ref_incrbyfloat fl ad fm V k0 a r V' -> k <> k0 -> V' k = V k.
  Proof. unfold ref_incrbyfloat. cbv zeta. intros H N. fr_done. Qed.
  Lemma fr_rename o n : ref_rename V o n r V' -> k <> o -> k <> n -> V' k = V k.
  Proof.
    unfold ref_rename. intros H N1 N2. destruct (V o); [|fr_done].
    destruct H as (_ & U). rewrite U. rewrite !upd_other by assumption. reflexivity.
  Qed.
  Lemma fr_del ks : ref_del V ks r V' -> ~ In k ks -> V' k = V k.
  Proof.
    unfold ref_del. intros H N. destruct ks as [|k0 ks]; [fr_done|].
    destruct H as (_ & U). rewrite U. rewrite mentions_false by exact N. reflexivity.
  Qed.
  Lemma fr_mset_cmd rest : ref_mset V rest r V' -> ~ In k (odd_positions rest) -> V' k = V k.
  Proof.
    unfold ref_mset. intros H N. destruct (pairs_of rest) as [[|p ps]|] eqn:P; try fr_done.
    destruct H as (_ & U). rewrite U. apply fr_mset. rewrite (pairs_keys _ _ P). exact N.
  Qed.
End Frames.

Theorem commands_frame d now nowms args hint r d' k :
  db_wf d -> c01_command args = true -> exec d now nowms args hint = (r, d') ->
  ~ In k (keys_named args) -> view d' now k = view d now k.
Proof.
  intros W HC H Hk.
  pose proof (strings_step_refines _ _ _ _ _ _ _ W H) as S. clear H.
  destruct args as [|c rest]; [discriminate HC|].
  unfold ref_step in S. cbv zeta in S. unfold keys_named in Hk. cbv zeta in Hk.
  Ltac rej_fr S := unfold rejected in S; destruct S as (_ & S); apply fr_unch; exact S.
  destruct (is (lower c) (B "get")) eqn:E1.
  { unfold is in E1; apply bytes_eqb_eq in E1; try rewrite E1 in Hk.
    change (~ In k (firstn 1 rest)) in Hk.
    destruct rest as [|k0 [|? ?]]; [rej_fr S|idtac|rej_fr S].
    eapply fr_get; exact S. }
  destruct (is (lower c) (B "set")) eqn:E2.
  { unfold is in E2; apply bytes_eqb_eq in E2; try rewrite E2 in Hk.
    change (~ In k (firstn 1 rest)) in Hk.
    destruct rest as [|k0 [|v0 opts]]; [rej_fr S|rej_fr S|].
    eapply fr_set; [exact S|intros ->; apply Hk; left; reflexivity]. }
  destruct (is (lower c) (B "setnx")) eqn:E3.
  { unfold is in E3; apply bytes_eqb_eq in E3; try rewrite E3 in Hk.
    change (~ In k (firstn 1 rest)) in Hk.
    destruct rest as [|k0 [|a1 [|? ?]]]; [rej_fr S|rej_fr S|idtac|rej_fr S].
    eapply fr_setnx; [exact S|intros ->; apply Hk; left; reflexivity]. }
  destruct (is (lower c) (B "setex")) eqn:E4.
  { unfold is in E4; apply bytes_eqb_eq in E4; try rewrite E4 in Hk.
    change (~ In k (firstn 1 rest)) in Hk.
    destruct rest as [|k0 [|a1 [|a2 [|? ?]]]]; [rej_fr S|rej_fr S|rej_fr S|idtac|rej_fr S].
    eapply fr_setex; [exact S|intros ->; apply Hk; left; reflexivity]. }
  destruct (is (lower c) (B "mset")) eqn:E5.
  { unfold is in E5; apply bytes_eqb_eq in E5; try rewrite E5 in Hk.
    change (~ In k (odd_positions rest)) in Hk.
    eapply fr_mset_cmd; [exact S|exact Hk]. }
  destruct (is (lower c) (B "mget")) eqn:E6.
  { unfold is in E6; apply bytes_eqb_eq in E6; try rewrite E6 in Hk.
    change (~ In k rest) in Hk.
    eapply fr_mget; exact S. }
  destruct (is (lower c) (B "append")) eqn:E7.
  { unfold is in E7; apply bytes_eqb_eq in E7; try rewrite E7 in Hk.
    change (~ In k (firstn 1 rest)) in Hk.
    destruct rest as [|k0 [|a1 [|? ?]]]; [rej_fr S|rej_fr S|idtac|rej_fr S].
    eapply fr_append; [exact S|intros ->; apply Hk; left; reflexivity]. }
  destruct (is (lower c) (B "strlen")) eqn:E8.
  { unfold is in E8; apply bytes_eqb_eq in E8; try rewrite E8 in Hk.
    change (~ In k (firstn 1 rest)) in Hk.
    destruct rest as [|k0 [|? ?]]; [rej_fr S|idtac|rej_fr S].
    eapply fr_strlen; exact S. }
  destruct (is (lower c) (B "getrange")) eqn:E9.
  { unfold is in E9; apply bytes_eqb_eq in E9; try rewrite E9 in Hk.
    change (~ In k (firstn 1 rest)) in Hk.
    destruct rest as [|k0 [|a1 [|a2 [|? ?]]]]; [rej_fr S|rej_fr S|rej_fr S|idtac|rej_fr S].
    eapply fr_getrange; exact S. }
  destruct (is (lower c) (B "setrange")) eqn:E10.
  { unfold is in E10; apply bytes_eqb_eq in E10; try rewrite E10 in Hk.
    change (~ In k (firstn 1 rest)) in Hk.
    destruct rest as [|k0 [|a1 [|a2 [|? ?]]]]; [rej_fr S|rej_fr S|rej_fr S|idtac|rej_fr S].
    eapply fr_setrange; [exact S|intros ->; apply Hk; left; reflexivity]. }
  destruct (is (lower c) (B "incr")) eqn:E11.
  { unfold is in E11; apply bytes_eqb_eq in E11; try rewrite E11 in Hk.
    change (~ In k (firstn 1 rest)) in Hk.
    destruct rest as [|k0 [|? ?]]; [rej_fr S|idtac|rej_fr S].
    eapply fr_incr; [exact S|intros ->; apply Hk; left; reflexivity]. }
  destruct (is (lower c) (B "decr")) eqn:E12.
  { unfold is in E12; apply bytes_eqb_eq in E12; try rewrite E12 in Hk.
    change (~ In k (firstn 1 rest)) in Hk.
    destruct rest as [|k0 [|? ?]]; [rej_fr S|idtac|rej_fr S].
    eapply fr_incr; [exact S|intros ->; apply Hk; left; reflexivity]. }
  destruct (is (lower c) (B "incrby")) eqn:E13.
  { unfold is in E13; apply bytes_eqb_eq in E13; try rewrite E13 in Hk.
    change (~ In k (firstn 1 rest)) in Hk.
    destruct rest as [|k0 [|a1 [|? ?]]]; [rej_fr S|rej_fr S|idtac|rej_fr S].
    eapply fr_incrby; [exact S|intros ->; apply Hk; left; reflexivity]. }
  destruct (is (lower c) (B "decrby")) eqn:E14.
  { unfold is in E14; apply bytes_eqb_eq in E14; try rewrite E14 in Hk.
    change (~ In k (firstn 1 rest)) in Hk.
    destruct rest as [|k0 [|a1 [|? ?]]]; [rej_fr S|rej_fr S|idtac|rej_fr S].
    eapply fr_incrby; [exact S|intros ->; apply Hk; left; reflexivity]. }
  destruct (is (lower c) (B "incrbyfloat")) eqn:E15.
  { unfold is in E15; apply bytes_eqb_eq in E15; try rewrite E15 in Hk.
    change (~ In k (firstn 1 rest)) in Hk.
    destruct rest as [|k0 [|a1 [|? ?]]]; [rej_fr S|rej_fr S|idtac|rej_fr S].
    eapply fr_incrbyfloat; [exact S|intros ->; apply Hk; left; reflexivity]. }
  destruct (is (lower c) (B "del")) eqn:E16.
  { unfold is in E16; apply bytes_eqb_eq in E16; try rewrite E16 in Hk.
    change (~ In k rest) in Hk.
    eapply fr_del; [exact S|exact Hk]. }
  destruct (is (lower c) (B "exists")) eqn:E17.
  { unfold is in E17; apply bytes_eqb_eq in E17; try rewrite E17 in Hk.
    change (~ In k rest) in Hk.
    eapply fr_exists; exact S. }
  destruct (is (lower c) (B "type")) eqn:E18.
  { unfold is in E18; apply bytes_eqb_eq in E18; try rewrite E18 in Hk.
    change (~ In k (firstn 1 rest)) in Hk.
    destruct rest as [|k0 [|? ?]]; [rej_fr S|idtac|rej_fr S].
    eapply fr_type; exact S. }
  destruct (is (lower c) (B "rename")) eqn:E19.
  { unfold is in E19; apply bytes_eqb_eq in E19; try rewrite E19 in Hk.
    change (~ In k (firstn 2 rest)) in Hk.
    destruct rest as [|k0 [|a1 [|? ?]]]; [rej_fr S|rej_fr S|idtac|rej_fr S].
    eapply fr_rename; [exact S|intros ->; apply Hk; left; reflexivity|intros ->; apply Hk; right; left; reflexivity]. }
  destruct (is (lower c) (B "keys")) eqn:E20.
  { unfold is in E20; apply bytes_eqb_eq in E20; try rewrite E20 in Hk.
    change (~ In k []) in Hk.
    destruct rest as [|k0 [|? ?]]; [rej_fr S|idtac|rej_fr S].
    eapply fr_keys; exact S. }
  destruct (is (lower c) (B "ping")) eqn:E21.
  { unfold is in E21; apply bytes_eqb_eq in E21; try rewrite E21 in Hk.
    change (~ In k []) in Hk.
    eapply fr_ping; exact S. }
  unfold c01_command, c01_names in HC. cbn [existsb] in HC.
  rewrite E1, E2, E3, E4, E5, E6, E7, E8, E9, E10, E11, E12, E13, E14, E15, E16, E17, E18, E19, E20, E21 in HC. discriminate HC.
Qed.

(* ------------------------------------------------------------------ C01_incr_exact_or_rejected *)
Inductive incr_form (k : bytes) : list bytes -> Z -> Prop :=
| IF_incr c : lower c = B "incr" -> incr_form k [c; k] 1
| IF_decr c : lower c = B "decr" -> incr_form k [c; k] (-1)
| IF_incrby c a n : lower c = B "incrby" -> atoi64 a = Some n -> incr_form k [c; k; a] n
| IF_decrby c a n : lower c = B "decrby" -> atoi64 a = Some n -> in_int64 (- n) = true ->
    incr_form k [c; k; a] (- n).

Lemma incr_form_clause d now nowms args hint k delta r d' :
  db_wf d -> incr_form k args delta -> exec d now nowms args hint = (r, d') ->
  ref_incr atoi64 (view d now) k delta r (view d' now).
Proof.
  intros W F H. pose proof (strings_step_refines _ _ _ _ _ _ _ W H) as S.
  destruct F as [c N|c N|c a n N A|c a n N A I].
  - eapply ref_step_incr; eauto.
  - eapply ref_step_decr; eauto.
  - apply (ref_step_incrby _ _ _ _ _ _ _ _ _ N) in S. unfold ref_incrby in S. rewrite A in S.
    assert (R : in_int64 n = true) by (apply atoi64_admissible in A; tauto). rewrite R in S. exact S.
  - apply (ref_step_decrby _ _ _ _ _ _ _ _ _ N) in S. unfold ref_incrby in S. rewrite A, I in S. exact S.
Qed.

Theorem incr_exact_or_rejected d now nowms args hint k b t n delta r d' :
  db_wf d -> view d now k = Some (VStr b, t) -> atoi64 b = Some n -> incr_form k args delta ->
  exec d now nowms args hint = (r, d') ->
  (in_int64 (n + delta) = true /\ r = RInt (n + delta) /\
   view d' now k = Some (VStr (z_to_dec (n + delta)), t) /\
   atoi64 (z_to_dec (n + delta)) = Some (n + delta))
  \/ (in_int64 (n + delta) = false /\ is_error r /\ forall k', view d' now k' = view d now k').
Proof.
  intros W HK A F H. pose proof (incr_form_clause _ _ _ _ _ _ _ _ _ W F H) as S.
  unfold ref_incr, slot_of in S. rewrite HK, A in S.
  destruct (in_int64 (n + delta)) eqn:R.
  - left. destruct S as (R1 & U). repeat split; try assumption.
    + rewrite U. apply upd_same.
    + apply atoi64_z_to_dec. exact R.
  - right. destruct S as (R1 & U). repeat split; assumption.
Qed.

(* on a missing key the counter starts from 0 *)
Theorem incr_missing d now nowms args hint k delta r d' :
  db_wf d -> view d now k = None -> incr_form k args delta ->
  exec d now nowms args hint = (r, d') ->
  r = RInt delta /\ view d' now k = Some (VStr (z_to_dec delta), None).
Proof.
  intros W HK F H. pose proof (incr_form_clause _ _ _ _ _ _ _ _ _ W F H) as S.
  unfold ref_incr, slot_of in S. rewrite HK in S. destruct S as (R1 & U).
  split; [exact R1|]. rewrite U. apply upd_same.
Qed.

(* ------------------------------------------------------------------ the decimal library against Z *)
(* [dec_add] is exact:  m1*10^-e1 + m2*10^-e2 = m*10^-e , stated over Z after scaling *)
Lemma dec_norm_value fuel : forall m e, (fuel <= N.to_nat e)%nat ->
  let '(m', e') := dec_norm fuel m e in (e' <= e)%N /\ m = m' * 10 ^ Z.of_N (e - e').
Proof.
  induction fuel as [|f IH]; intros m e L.
  - cbn. split; [lia|]. replace (e - e)%N with 0%N by lia. cbn. lia.
  - cbn [dec_norm]. destruct (e =? 0)%N eqn:E0.
    + split; [lia|]. replace (e - e)%N with 0%N by lia. cbn. lia.
    + destruct (m mod 10 =? 0) eqn:M.
      * specialize (IH (m / 10) (e - 1)%N). destruct (dec_norm f (m / 10) (e - 1)%N) as [m' e'].
        destruct IH as (L1 & V1); [lia|]. split; [lia|].
        replace (Z.of_N (e - e')) with (Z.of_N (e - 1 - e') + 1) by lia.
        rewrite Z.pow_add_r by lia. rewrite Z.pow_1_r.
        assert (m = 10 * (m / 10)) by (pose proof (Z.div_mod m 10); lia). lia.
      * split; [lia|]. replace (e - e)%N with 0%N by lia. cbn. lia.
Qed.

Theorem dec_add_exact m1 e1 m2 e2 :
  let '(m, e) := dec_add m1 e1 m2 e2 in
  let E := N.max e1 e2 in
  (e <= E)%N /\ m * 10 ^ Z.of_N (E - e) = m1 * 10 ^ Z.of_N (E - e1) + m2 * 10 ^ Z.of_N (E - e2).
Proof.
  unfold dec_add, dec_normalize.
  pose proof (dec_norm_value (N.to_nat (N.max e1 e2))
                (m1 * 10 ^ Z.of_N (N.max e1 e2 - e1) + m2 * 10 ^ Z.of_N (N.max e1 e2 - e2)) (N.max e1 e2)) as X.
  destruct (dec_norm _ _ _) as [m e]. destruct X as (L & V); [lia|]. cbv zeta. split; [exact L|]. lia.
Qed.

Example fmt_dec_examples :
  fmt_dec (-25) 2 = B "-0.25" /\ fmt_dec 5 1 = B "0.5" /\ fmt_dec 100 0 = B "100" /\
  fmt_dec 0 0 = B "0" /\ fmt_dec 10125 3 = B "10.125" /\
  classify_float (B "007.50") = FIn 75 1 /\ classify_float (B "-0") = FOut /\
  classify_float (B "0.1") = FOut /\ classify_float (B "1e3") = FOut /\
  classify_float (B "abc") = FOut /\ classify_float (B "hello") = FInvalid /\ classify_float (B " 5") = FInvalid /\
  classify_float (B "") = FInvalid /\
  classify_float (B "1234567890123456") = FOut /\ classify_float (B "-2.25") = FIn (-225) 2.
Proof. repeat split; vm_compute; reflexivity. Qed.

(* ------------------------------------------------------------------ the specification as a state machine *)
(* A formulation without any model database: the specification's own state is a view; between two
   commands time passes ([live]: keys whose deadline has been reached disappear); a trace of
   (step, reply) pairs is accepted when, from the current view, each command's clause admits the
   observed reply and SOME next view, from which the rest of the trace is accepted.  Clocks are
   required to be non-decreasing (as the implementation's clock is). *)
Definition live (now : Z) (V : kview) : kview :=
  fun k => match V k with
           | Some (v, Some t) => if t <=? now then None else Some (v, Some t)
           | x => x
           end.

Fixpoint accepts (V : kview) (last : Z) (tr : list (step * reply)) : Prop :=
  match tr with
  | [] => True
  | (s, r) :: tr' =>
    last <= s_now s /\
    exists V0 V', veq V0 (live (s_now s) V) /\
                  ref_step atoi64 model_floatlib V0 (s_now s) (s_args s) r V' /\
                  accepts V' (s_now s) tr'
  end.

Definition trace (d : db) (p : list step) : list (step * reply) :=
  map (fun x => let '(_, s, r, _) := x in (s, r)) (run d p).

Fixpoint clocks_from (last : Z) (p : list step) : Prop :=
  match p with [] => True | s :: p' => last <= s_now s /\ clocks_from (s_now s) p' end.

Lemma accepts_run p : forall d V last, db_wf d -> veq V (view d last) -> clocks_from last p ->
  Forall (fun s => strings_cmd (s_args s) = true) p -> accepts V last (trace d p).
Proof.
  induction p as [|s p IH]; intros d V last W HV HC HS; [exact I|].
  destruct HC as (L & HC). inversion HS as [|? ? Hs HS']; subst.
  unfold trace. cbn [run].
  destruct (exec d (s_now s) (s_nowms s) (s_args s) (s_hint s)) as [r d'] eqn:E.
  cbn [map]. split; [exact L|].
  exists (view d (s_now s)), (view d' (s_now s)). split; [|split].
  - intros k. unfold live. rewrite (HV k). apply view_later. exact L.
  - eapply strings_step_refines; eauto.
  - apply (IH d' (view d' (s_now s)) (s_now s)); [eapply exec_wf_strings; eauto|intros k; reflexivity|exact HC|exact HS'].
Qed.

Theorem refines_trace p d now0 : db_wf d -> clocks_from now0 p ->
  Forall (fun s => strings_cmd (s_args s) = true) p -> accepts (view d now0) now0 (trace d p).
Proof. intros W HC HS. apply (accepts_run p d); auto. intros k; reflexivity. Qed.
