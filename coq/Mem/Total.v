(* C04 at the model level: the command model is a total function whose every step, for every
   command name and argument vector, yields a well-formed reply and preserves the keyspace
   invariant -- composed from the per-family lemmas over [Exec.families]. *)
Require Import Base.Bytes Base.GoInt Base.Reply Mem.Types Mem.Inv Mem.Exec Mem.Server.
Local Open Scope Z_scope.

Definition family_ok (f : family) : Prop :=
  forall d now nowms n args hint r d',
    db_wf d -> f d now nowms n args hint = Some (r, d') -> db_wf d' /\ reply_wf r = true.

Lemma err_other_wf : reply_wf err_other = true.
Proof. reflexivity. Qed.

Lemma dispatch_ok fs :
  Forall family_ok fs ->
  forall d now nowms n args hint,
    db_wf d ->
    db_wf (snd (dispatch fs d now nowms n args hint)) /\
    reply_wf (fst (dispatch fs d now nowms n args hint)) = true.
Proof.
  induction fs as [|f fs IH]; intros HF d now nowms n args hint W; cbn [dispatch].
  - split; [exact W|exact err_other_wf].
  - inversion HF as [|? ? Hf HF']; subst.
    destruct (f d now nowms n args hint) as [[r d']|] eqn:E.
    + destruct (Hf _ _ _ _ _ _ _ _ W E) as [W' R]. cbn. split; assumption.
    + apply IH; assumption.
Qed.

Lemma exec_cmd_ok :
  Forall family_ok families ->
  forall d now nowms args hint,
    db_wf d ->
    db_wf (snd (exec_cmd d now nowms args hint)) /\ reply_wf (fst (exec_cmd d now nowms args hint)) = true.
Proof.
  intros HF d now nowms args hint W. unfold exec_cmd. destruct args as [|name rest].
  - split; [exact W|exact err_other_wf].
  - apply dispatch_ok; assumption.
Qed.

Lemma exec_ok :
  Forall family_ok families ->
  forall d now nowms args hint,
    db_wf d ->
    db_wf (snd (exec d now nowms args hint)) /\ reply_wf (fst (exec d now nowms args hint)) = true.
Proof.
  intros HF d now nowms args hint W. unfold exec. apply exec_cmd_ok; [exact HF|apply db_wf_purge; exact W].
Qed.

(* ---- server level ---- *)
Definition srv_wf (s : server) : Prop := Forall db_wf (sdbs s).

Lemma srv_wf_init n : srv_wf (srv_init n).
Proof. unfold srv_wf, srv_init. cbn. apply Forall_forall. intros d H. apply repeat_spec in H. subst. apply db_wf_empty. Qed.

Lemma Forall_list_update {A} (P : A -> Prop) l i x : Forall P l -> P x -> Forall P (list_update l i x).
Proof.
  revert i; induction l as [|y l IH]; intros i HF Hx; cbn; [constructor|].
  inversion HF; subst. destruct i; constructor; auto.
Qed.

Lemma exec_select_ok s conn args :
  srv_wf s -> srv_wf (snd (exec_select s conn args)) /\ reply_wf (fst (exec_select s conn args)) = true.
Proof.
  intros W. unfold exec_select.
  destruct args as [|a [|idx [|x r]]]; try (split; [exact W|reflexivity]).
  destruct (atoi64 idx) as [i|]; [|split; [exact W|reflexivity]].
  destruct ((0 <=? i) && (i <? zlength (sdbs s))); split; try exact W; reflexivity.
Qed.

Theorem srv_exec_ok :
  Forall family_ok families ->
  forall s conn now nowms args hint,
    srv_wf s ->
    srv_wf (snd (srv_exec s conn now nowms args hint)) /\
    reply_wf (fst (srv_exec s conn now nowms args hint)) = true.
Proof.
  intros HF s conn now nowms args hint W. unfold srv_exec.
  destruct args as [|name rest]; [split; [exact W|reflexivity]|].
  destruct (is (lower name) (B "select")); [apply exec_select_ok; exact W|].
  destruct (nth_error (sdbs s) (sel_lookup conn (ssel s))) as [d|] eqn:E; [|split; [exact W|reflexivity]].
  assert (Wd : db_wf d).
  { unfold srv_wf in W. rewrite Forall_forall in W. apply W. eapply nth_error_In; exact E. }
  pose proof (exec_ok HF d now nowms (name :: rest) hint Wd) as [W' R].
  destruct (exec d now nowms (name :: rest) hint) as [r d'] eqn:Ex. cbn in *.
  split; [|exact R]. unfold srv_wf. cbn. apply Forall_list_update; assumption.
Qed.

(* every state reachable by any program of any commands from any connections stays well formed,
   and every reply along the way is well formed *)
Fixpoint run_srv (s : server) (prog : list (Z * Z * Z * list bytes * reply)) : list reply * server :=
  match prog with
  | [] => ([], s)
  | (conn, now, nowms, args, hint) :: rest =>
    let '(r, s1) := srv_exec s conn now nowms args hint in
    let '(rs, s2) := run_srv s1 rest in (r :: rs, s2)
  end.

Theorem run_srv_ok :
  Forall family_ok families ->
  forall prog s, srv_wf s ->
    srv_wf (snd (run_srv s prog)) /\ Forall (fun r => reply_wf r = true) (fst (run_srv s prog)).
Proof.
  intros HF prog. induction prog as [|[[[[conn now] nowms] args] hint] rest IH]; intros s W; cbn.
  - split; [exact W|constructor].
  - pose proof (srv_exec_ok HF s conn now nowms args hint W) as [W1 R1].
    destruct (srv_exec s conn now nowms args hint) as [r s1]. cbn in *.
    destruct (IH s1 W1) as [W2 R2]. destruct (run_srv s1 rest) as [rs s2]. cbn in *.
    split; [exact W2|constructor; assumption].
Qed.
