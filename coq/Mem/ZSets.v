(* Sorted-set commands (memdb/sorted_set.go after the C12 repairs) over the AVL model of Avl.v. *)
Require Import Base.Bytes Base.GoInt Base.Reply Mem.Types Mem.Avl.
Local Open Scope Z_scope.

(* ------------------------------------------------------------------ scores as text *)
(* normal form of a decimal: no trailing zero in the fraction, zero is 0*10^0 *)
Fixpoint strip10 (fuel : nat) (m : Z) (e : N) : Z * N :=
  match fuel with
  | O => (m, e)
  | S f => if (e =? 0)%N then (m, e)
           else if m mod 10 =? 0 then strip10 f (m / 10) (e - 1)%N else (m, e)
  end.

Definition snorm (s : score) : score :=
  match s with
  | SFin m e => if m =? 0 then SFin 0 0 else let '(m', e') := strip10 (N.to_nat e) m e in SFin m' e'
  | _ => s
  end.

Definition is_digit (c : byte) : bool := (48 <=? bval c)%N && (bval c <=? 57)%N.
Definition digit_val (c : byte) : Z := Z.of_N (bval c) - 48.

(* digits read so far: accumulated value, how many, what follows *)
Fixpoint read_digits (s : bytes) (acc : Z) (n : N) : Z * N * bytes :=
  match s with
  | c :: r => if is_digit c then read_digits r (acc * 10 + digit_val c) (n + 1)%N else (acc, n, s)
  | [] => (acc, n, [])
  end.

Definition max_exp : Z := 400.

(* exponent part: "" | (e|E)[+-]digits+ ; None = malformed or outside the modelled range *)
Definition read_exp (s : bytes) : option Z :=
  match s with
  | [] => Some 0
  | c :: r =>
    if beqb c "e"%byte || beqb c "E"%byte then
      let '(neg, r') := match r with
                        | "-"%byte :: t => (true, t)
                        | "+"%byte :: t => (false, t)
                        | _ => (false, r)
                        end in
      match read_digits r' 0 0 with
      | (v, n, []) => if (n =? 0)%N then None
                      else if v >? max_exp then None
                      else Some (if neg then - v else v)
      | _ => None
      end
    else None
  end.

(* unsigned decimal:  digits [ . digits ] [exp]  |  . digits [exp]   (at least one digit) *)
Definition parse_udecimal (s : bytes) : option score :=
  let '(a1, n1, r1) := read_digits s 0 0 in
  let '(a2, n2, r2) := match r1 with
                       | "."%byte :: t => read_digits t a1 0
                       | _ => (a1, 0%N, r1)
                       end in
  if ((n1 + n2)%N =? 0)%N then None else
  match read_exp r2 with
  | None => None
  | Some x =>
    let sh := x - Z.of_N n2 in            (* value = a2 * 10^sh *)
    Some (if sh >=? 0 then SFin (a2 * 10 ^ sh) 0 else SFin a2 (Z.to_N (- sh)))
  end.

Definition sneg (s : score) : score :=
  match s with SNegInf => SPosInf | SPosInf => SNegInf | SFin m e => SFin (- m) e end.

(* strconv.ParseFloat(s, 64) followed by the NaN test of zadd, on the exact-decimal domain:
   [sign] (inf | infinity | decimal); "nan", hexadecimal floats and digit-separating underscores
   yield None (the first is rejected by zadd, the others are outside the modelled grammar). *)
Definition parse_score (s : bytes) : option score :=
  let '(neg, body) := match s with
                      | "-"%byte :: t => (true, t)
                      | "+"%byte :: t => (false, t)
                      | _ => (false, s)
                      end in
  let lb := lower body in
  let r := if is lb (B "inf") || is lb (B "infinity") then Some SPosInf
           else parse_udecimal body in
  match r with
  | Some v => Some (snorm (if neg then sneg v else v))
  | None => None
  end.

(* float64 addition on the exact domain; None = NaN (inf + -inf) *)
Definition score_add (a b : score) : option score :=
  match a, b with
  | SPosInf, SNegInf | SNegInf, SPosInf => None
  | SPosInf, _ | _, SPosInf => Some SPosInf
  | SNegInf, _ | _, SNegInf => Some SNegInf
  | SFin m1 e1, SFin m2 e2 =>
    let e := N.max e1 e2 in
    Some (snorm (SFin (m1 * pow10 (e - e1) + m2 * pow10 (e - e2)) e))
  end.

Fixpoint zeros_ch (n : nat) : bytes := match n with O => [] | S k => "0"%byte :: zeros_ch k end.

(* formatScore: strconv.FormatFloat(f, 'f', -1, 64), inf / -inf for the infinities *)
Definition score_to_bytes (s : score) : bytes :=
  match s with
  | SPosInf => B "inf"
  | SNegInf => B "-inf"
  | SFin m e =>
    let ds := n_to_dec (Z.abs_N m) in
    let en := N.to_nat e in
    let ds := if (List.length ds <=? en)%nat then zeros_ch (en + 1 - List.length ds) ++ ds else ds in
    let ip := firstn (List.length ds - en) ds in
    let fp := skipn (List.length ds - en) ds in
    let body := match fp with [] => ip | _ => ip ++ "."%byte :: fp end in
    if m <? 0 then "-"%byte :: body else body
  end.

(* ------------------------------------------------------------------ keyspace access *)
Inductive lookup_zset := ZMissing | ZWrong | ZFound (z : zset).
Definition get_zset (d : db) (k : bytes) : lookup_zset :=
  match db_get d k with
  | None => ZMissing
  | Some (VZSet z) => ZFound z
  | Some _ => ZWrong
  end.

(* ------------------------------------------------------------------ ZADD *)
Record zopts := mkZO { o_nx : bool; o_xx : bool; o_gt : bool; o_lt : bool; o_ch : bool; o_incr : bool }.
Definition zopts0 := mkZO false false false false false false.

Definition zopt_of (w : bytes) (o : zopts) : option zopts :=
  if is w (B "nx") then Some (mkZO true (o_xx o) (o_gt o) (o_lt o) (o_ch o) (o_incr o))
  else if is w (B "xx") then Some (mkZO (o_nx o) true (o_gt o) (o_lt o) (o_ch o) (o_incr o))
  else if is w (B "gt") then Some (mkZO (o_nx o) (o_xx o) true (o_lt o) (o_ch o) (o_incr o))
  else if is w (B "lt") then Some (mkZO (o_nx o) (o_xx o) (o_gt o) true (o_ch o) (o_incr o))
  else if is w (B "ch") then Some (mkZO (o_nx o) (o_xx o) (o_gt o) (o_lt o) true (o_incr o))
  else if is w (B "incr") then Some (mkZO (o_nx o) (o_xx o) (o_gt o) (o_lt o) (o_ch o) true)
  else None.

(* for i := idx; i < len(cmd)-2; i++: option words are looked for while more than two
   arguments remain; the first other word ends the options *)
Fixpoint zadd_opts (l : list bytes) (o : zopts) : zopts * list bytes :=
  match l with
  | w :: ((_ :: _ :: _) as r) =>
    match zopt_of (lower w) o with
    | Some o' => zadd_opts r o'
    | None => (o, l)
    end
  | _ => (o, l)
  end.

Definition zadd_conflict (o : zopts) : bool :=
  (o_gt o && o_lt o) || (o_nx o && o_gt o) || (o_nx o && o_lt o) || (o_nx o && o_xx o).

(* score/member pairs; None = odd count or a score that is not a valid float (or NaN) *)
Fixpoint zadd_pairs (l : list bytes) : option (list (score * bytes)) :=
  match l with
  | [] => Some []
  | s :: m :: r =>
    match parse_score s, zadd_pairs r with
    | Some sc, Some ps => Some ((sc, m) :: ps)
    | _, _ => None
    end
  | _ => None
  end.

Record zacc := mkAcc { a_z : zset; a_ret : Z; a_incr : option score }.

(* one pass of the pair loop; None = "resulting score is not a number" *)
Definition zadd_step (o : zopts) (a : zacc) (p : score * bytes) : option zacc :=
  let '(sc, m) := p in
  let z := a_z a in
  match alookup m (zdict z) with
  | None =>
    if o_xx o then Some a
    else Some (mkAcc (bt_insert z sc m) (a_ret a + 1) (Some sc))
  | Some old =>
    if o_nx o then Some a else
    match (if o_incr o then score_add old sc else Some sc) with
    | None => None
    | Some new =>
      if o_lt o && score_leb old new then Some a
      else if o_gt o && score_leb new old then Some a
      else if score_eqb new old then Some (mkAcc z (a_ret a) (Some new))
      else
        let z1 := match bt_delete z m with Some z1 => z1 | None => z end in
        Some (mkAcc (bt_insert z1 new m) (if o_ch o then a_ret a + 1 else a_ret a) (Some new))
    end
  end.

Fixpoint zadd_loop (o : zopts) (ps : list (score * bytes)) (a : zacc) : option zacc :=
  match ps with
  | [] => Some a
  | p :: r => match zadd_step o a p with
              | Some a' => zadd_loop o r a'
              | None => None
              end
  end.

Definition zadd_reply (o : zopts) (a : zacc) : reply :=
  if o_incr o then
    match a_incr a with Some s => RBulk (score_to_bytes s) | None => RNil end
  else RInt (a_ret a).

Definition exec_zadd (d : db) (args : list bytes) : reply * db :=
  match args with
  | _ :: k :: rest =>
    if zlength args <? 4 then (err_other, d) else
    let '(o, ps) := zadd_opts rest zopts0 in
    if zadd_conflict o then (err_other, d) else
    if o_incr o && negb (zlength ps =? 2) then (err_other, d) else
    match zadd_pairs ps with
    | None => (err_other, d)
    | Some pairs =>
      match get_zset d k with
      | ZWrong => (err_wrongtype, d)
      | ZMissing =>
        match zadd_loop o pairs (mkAcc empty_zset 0 None) with
        | None => (err_other, d)
        | Some a =>
          (* a new sorted set is stored only once it holds a member *)
          (zadd_reply o a, match zroot (a_z a) with Leaf => d | _ => db_set d k (VZSet (a_z a)) end)
        end
      | ZFound z =>
        match zadd_loop o pairs (mkAcc z 0 None) with
        | None => (err_other, d)
        | Some a => (zadd_reply o a, db_set d k (VZSet (a_z a)))
        end
      end
    end
  | _ => (err_other, d)
  end.

(* ------------------------------------------------------------------ ZREM *)
Fixpoint zrem_loop (z : zset) (ms : list bytes) (n : Z) : zset * Z :=
  match ms with
  | [] => (z, n)
  | m :: r => match bt_delete z m with
              | Some z' => zrem_loop z' r (n + 1)
              | None => zrem_loop z r n
              end
  end.

(* a sorted set without members does not exist *)
Definition put_zset (d : db) (k : bytes) (z : zset) : db :=
  match zroot z with Leaf => db_del d k | _ => db_set d k (VZSet z) end.

Definition exec_zrem (d : db) (args : list bytes) : reply * db :=
  match args with
  | _ :: k :: ((_ :: _) as ms) =>
    match get_zset d k with
    | ZMissing => (RInt 0, d)
    | ZWrong => (err_wrongtype, d)
    | ZFound z => let '(z', n) := zrem_loop z ms 0 in (RInt n, put_zset d k z')
    end
  | _ => (err_other, d)
  end.

(* ------------------------------------------------------------------ ZRANGE *)
Record ropts := mkRO { r_ws : bool; r_rev : bool; r_bylex : bool; r_limit : bool }.
Definition ropts0 := mkRO false false false false.
Inductive ropt_res := ROk (o : ropts) | RSyntax | RByScore.

(* the option loop: WITHSCORES and REV in any letter case; BYSCORE, BYLEX and LIMIT are not
   supported and, like any other word, are a syntax error (so r_bylex / r_limit are never set and
   RByScore never arises: kept so that statements about them stay meaningful) *)
Fixpoint zrange_opts (l : list bytes) (o : ropts) : ropt_res :=
  match l with
  | [] => ROk o
  | w :: r =>
    let lw := lower w in
    if is lw (B "withscores") then zrange_opts r (mkRO true (r_rev o) (r_bylex o) (r_limit o))
    else if is lw (B "rev") then zrange_opts r (mkRO (r_ws o) true (r_bylex o) (r_limit o))
    else RSyntax
  end.

(* members[start : end+1] after the index adjustments of zrange; n = number of members *)
Definition zwindow {A} (l : list A) (n start stop : Z) : list A :=
  let s := if start <? 0 then start + n else start in
  let e := if stop <? 0 then stop + n else stop in
  let s := if s <? 0 then 0 else s in
  let e := if e >=? n then n - 1 else e in
  if s <=? e then firstn (Z.to_nat (e - s + 1)) (skipn (Z.to_nat s) l) else [].

Definition zrange_reply (ws : bool) (l : list (bytes * score)) : reply :=
  RArr (flat_map (fun p => RBulk (fst p) :: (if ws then [RBulk (score_to_bytes (snd p))] else [])) l).

Definition exec_zrange (d : db) (args : list bytes) : reply * db :=
  match args with
  | _ :: k :: a_start :: a_stop :: optl =>
    match zrange_opts optl ropts0 with
    | RSyntax => (err_other, d)
    | RByScore => (RArr [], d)
    | ROk o =>
      if r_limit o && negb (r_bylex o) then (err_other, d)
      else if r_bylex o && r_ws o then (err_other, d)
      else if r_bylex o && r_rev o then (RArr [], d)
      else
        match (if r_bylex o then Some (0, 0)
               else match atoi64 a_start, atoi64 a_stop with
                    | Some s, Some e => Some (s, e)
                    | _, _ => None
                    end) with
        | None => (err_other, d)
        | Some (s, e) =>
          match get_zset d k with
          | ZMissing => (RArr [], d)
          | ZWrong => (err_wrongtype, d)
          | ZFound z =>
            let all := members (zroot z) in
            let all := if r_rev o then rev all else all in
            (zrange_reply (r_ws o) (zwindow all (zlength (zdict z)) s e), d)
          end
        end
    end
  | _ => (err_other, d)
  end.

(* ------------------------------------------------------------------ ZRANK *)
Definition zrank_of (z : zset) (m : bytes) : option Z :=
  match alookup m (zdict z) with
  | None => None
  | Some sc =>
    Some (rank (zroot z) sc
          + match find_node sc (zroot z) with Some ns => index_of m ns | None => 0 end)
  end.

Definition exec_zrank (d : db) (args : list bytes) : reply * db :=
  match args with
  | [_; k; m] =>
    match get_zset d k with
    | ZMissing => (RNil, d)
    | ZWrong => (err_wrongtype, d)
    | ZFound z => match zrank_of z m with
                  | Some i => (RInt i, d)
                  | None => (RNil, d)
                  end
    end
  | _ => (err_other, d)
  end.

(* ------------------------------------------------------------------ dispatch *)
Definition zsets_dispatch (d : db) (now nowms : Z) (n : bytes) (args : list bytes) (hint : reply)
  : option (reply * db) :=
  if is n (B "zadd") then Some (exec_zadd d args)
  else if is n (B "zrem") then Some (exec_zrem d args)
  else if is n (B "zrange") then Some (exec_zrange d args)
  else if is n (B "zrank") then Some (exec_zrank d args)
  else None.
