(* Proofs about the hash-command model (Mem/Hashes.v): the shape of every result, the global
   invariants, the frame, and the per-command clauses against the abstract map
   field -> option value.  Property statements are collected in Properties/C10.v. *)
Require Import Base.Bytes Base.GoInt Base.Reply Mem.Types Mem.Inv Mem.HashDec Mem.Hashes.
Local Open Scope Z_scope.

(* ------------------------------------------------------------------ abstract views *)
(* the abstract content of a hash: a finite map from fields to values *)
Definition hview (h : hash) (f : bytes) : option bytes := alookup f h.

(* the hash stored at key k of a database (a missing key and a key of another type hold no field) *)
Definition hash_at (d : db) (k : bytes) : hash :=
  match db_get d k with Some (VHash h) => h | _ => [] end.
Definition hfield (d : db) (k f : bytes) : option bytes := hview (hash_at d k) f.

(* value-level invariant owned by this family: no empty hash is stored, fields are not duplicated *)
Definition value_ok_hash (v : value) : Prop :=
  match v with VHash h => h <> [] /\ NoDup (akeys h) | _ => True end.
Definition hashes_ok (d : db) : Prop := forall k v, db_get d k = Some v -> value_ok_hash v.

Definition is_err (r : reply) : bool := match r with RErr _ => true | _ => false end.
Definition key_of (args : list bytes) : bytes := nth 1 args [].

(* ------------------------------------------------------------------ database primitives *)
Lemma db_get_set_same d k v : db_get (db_set d k v) k = Some v.
Proof. unfold db_get, db_set. cbn. apply alookup_aset_same. Qed.
Lemma db_get_set_other d k k0 v : k0 <> k -> db_get (db_set d k v) k0 = db_get d k0.
Proof. intros N. unfold db_get, db_set. cbn. apply alookup_aset_other. exact N. Qed.
Lemma db_ttl_set d k v k0 : db_ttl (db_set d k v) k0 = db_ttl d k0.
Proof. reflexivity. Qed.
Lemma db_get_del_same d k : db_get (db_del d k) k = None.
Proof. unfold db_get, db_del. cbn. apply alookup_aremove_same. Qed.
Lemma db_get_del_other d k k0 : k0 <> k -> db_get (db_del d k) k0 = db_get d k0.
Proof. intros N. unfold db_get, db_del. cbn. apply alookup_aremove_other. exact N. Qed.
Lemma db_ttl_del_same d k : db_ttl (db_del d k) k = None.
Proof. unfold db_ttl, db_del. cbn. apply alookup_aremove_same. Qed.
Lemma db_ttl_del_other d k k0 : k0 <> k -> db_ttl (db_del d k) k0 = db_ttl d k0.
Proof. intros N. unfold db_ttl, db_del. cbn. apply alookup_aremove_other. exact N. Qed.

Lemma hashes_ok_empty : hashes_ok empty_db.
Proof. intros k v H. discriminate. Qed.

Lemma hashes_ok_purge d now : hashes_ok d -> hashes_ok (purge d now).
Proof.
  intros H k v G. rewrite db_get_purge in G. destruct (expired d now k); [discriminate|].
  eapply H; exact G.
Qed.

Lemma hashes_ok_set d k v : hashes_ok d -> value_ok_hash v -> hashes_ok (db_set d k v).
Proof.
  intros H Hv k0 v0 G. destruct (bytes_eq_dec k0 k) as [->|N].
  - rewrite db_get_set_same in G. inversion G; subst. exact Hv.
  - rewrite db_get_set_other in G by exact N. eapply H; exact G.
Qed.

Lemma hashes_ok_del d k : hashes_ok d -> hashes_ok (db_del d k).
Proof.
  intros H k0 v0 G. destruct (bytes_eq_dec k0 k) as [->|N].
  - rewrite db_get_del_same in G. discriminate.
  - rewrite db_get_del_other in G by exact N. eapply H; exact G.
Qed.

(* ------------------------------------------------------------------ association-list facts *)
Lemma amem_alookup {A} (f : bytes) (l : list (bytes * A)) :
  amem f l = match alookup f l with Some _ => true | None => false end.
Proof. reflexivity. Qed.

Lemma length_areplace {A} (f : bytes) (v : A) l : List.length (areplace f v l) = List.length l.
Proof.
  induction l as [|[k' v'] r IH]; cbn; [reflexivity|].
  destruct (bytes_eqb f k'); cbn; [reflexivity|f_equal; exact IH].
Qed.

Lemma zlength_aset {A} (f : bytes) (v : A) l :
  zlength (aset f v l) = if amem f l then zlength l else zlength l + 1.
Proof.
  unfold zlength, aset, amem. destruct (alookup f l).
  - rewrite length_areplace. reflexivity.
  - rewrite app_length. cbn. lia.
Qed.

Lemma aset_nonempty {A} (f : bytes) (v : A) l : aset f v l <> [].
Proof.
  intros E. assert (H : alookup f (aset f v l) = Some v) by apply alookup_aset_same.
  rewrite E in H. discriminate.
Qed.

Lemma zlength_nonneg {A} (l : list A) : 0 <= zlength l.
Proof. unfold zlength. lia. Qed.

Lemma zlength_nil_iff {A} (l : list A) : zlength l = 0 <-> l = [].
Proof.
  unfold zlength. destruct l as [|x l]; split; intros H; try reflexivity; try discriminate.
Qed.

Lemma length_aremove_mem_nat {A} (f : bytes) (l : list (bytes * A)) :
  NoDup (akeys l) -> amem f l = true -> S (List.length (aremove f l)) = List.length l.
Proof.
  unfold amem, akeys. induction l as [|[k' v'] r IH]; simpl; intros ND H; [discriminate|].
  inversion ND as [|? ? Hn ND']; subst.
  destruct (bytes_eqb_spec f k') as [->|N].
  - rewrite aremove_notin by exact Hn. reflexivity.
  - simpl. f_equal. apply IH; assumption.
Qed.

Lemma length_aremove_mem {A} (f : bytes) (l : list (bytes * A)) :
  NoDup (akeys l) -> amem f l = true -> zlength (aremove f l) = zlength l - 1.
Proof.
  intros ND H. pose proof (length_aremove_mem_nat f l ND H) as E. unfold zlength. lia.
Qed.

Lemma aremove_notmem {A} (f : bytes) (l : list (bytes * A)) : amem f l = false -> aremove f l = l.
Proof.
  intros H. apply aremove_notin. unfold amem in H. apply alookup_None_notin.
  destruct (alookup f l); [discriminate|reflexivity].
Qed.

(* ------------------------------------------------------------------ HSET / HDEL folds *)
Lemma hset_all_nodup ps : forall h n, NoDup (akeys h) -> NoDup (akeys (fst (hset_all h ps n))).
Proof.
  induction ps as [|[f v] r IH]; cbn; intros h n ND; [exact ND|].
  apply IH. apply NoDup_aset. exact ND.
Qed.

Lemma hset_all_count ps : forall h n,
  snd (hset_all h ps n) = n + (zlength (fst (hset_all h ps n)) - zlength h).
Proof.
  induction ps as [|[f v] r IH]; cbn; intros h n; [lia|].
  rewrite IH. rewrite (zlength_aset f v h). destruct (amem f h); lia.
Qed.

Lemma hset_all_grows ps : forall h n, zlength h <= zlength (fst (hset_all h ps n)).
Proof.
  induction ps as [|[f v] r IH]; cbn; intros h n; [lia|].
  specialize (IH (aset f v h) (if amem f h then n else n + 1)).
  rewrite (zlength_aset f v h) in IH. destruct (amem f h); lia.
Qed.

Lemma hset_all_nonempty ps h n : ps <> [] -> fst (hset_all h ps n) <> [].
Proof.
  destruct ps as [|[f v] r]; [congruence|]. intros _. cbn.
  pose proof (hset_all_grows r (aset f v h) (if amem f h then n else n + 1)) as G.
  intros E. rewrite E in G. unfold zlength at 2 in G. cbn in G.
  assert (zlength (aset f v h) = 0) as Z0 by (pose proof (zlength_nonneg (aset f v h)); lia).
  apply zlength_nil_iff in Z0. exact (aset_nonempty f v h Z0).
Qed.

(* each field maps to the last value written to it in the command, untouched fields keep theirs *)
Lemma hset_all_lookup ps : forall h n f,
  alookup f (fst (hset_all h ps n)) =
  match alookup f (rev ps) with Some v => Some v | None => alookup f h end.
Proof.
  induction ps as [|[f0 v0] r IH]; cbn; intros h n f; [reflexivity|].
  rewrite IH.
  destruct (alookup f (rev r)) eqn:E.
  - rewrite (alookup_app_in f (rev r) [(f0, v0)] b E). reflexivity.
  - rewrite (alookup_app_notin f (rev r) [(f0, v0)] E). cbn.
    destruct (bytes_eqb_spec f f0) as [->|N].
    + apply alookup_aset_same.
    + apply alookup_aset_other. exact N.
Qed.

Lemma hdel_all_nodup fs : forall h n, NoDup (akeys h) -> NoDup (akeys (fst (hdel_all h fs n))).
Proof.
  induction fs as [|f r IH]; cbn; intros h n ND; [exact ND|].
  destruct (amem f h); apply IH; [apply NoDup_aremove|]; exact ND.
Qed.

Lemma hdel_all_count fs : forall h n, NoDup (akeys h) ->
  snd (hdel_all h fs n) = n + (zlength h - zlength (fst (hdel_all h fs n))).
Proof.
  induction fs as [|f r IH]; cbn; intros h n ND; [lia|].
  destruct (amem f h) eqn:M.
  - rewrite IH by (apply NoDup_aremove; exact ND). rewrite (length_aremove_mem f h ND M). lia.
  - apply IH. exact ND.
Qed.

Lemma hdel_all_lookup fs : forall h n f,
  alookup f (fst (hdel_all h fs n)) = if existsb (bytes_eqb f) fs then None else alookup f h.
Proof.
  induction fs as [|f0 r IH]; cbn; intros h n f; [reflexivity|].
  destruct (amem f0 h) eqn:M; rewrite IH.
  - destruct (bytes_eqb_spec f f0) as [->|N]; cbn.
    + destruct (existsb (bytes_eqb f0) r); [reflexivity|apply alookup_aremove_same].
    + destruct (existsb (bytes_eqb f) r); [reflexivity|apply alookup_aremove_other; exact N].
  - destruct (bytes_eqb_spec f f0) as [->|N]; cbn; [|reflexivity].
    destruct (existsb (bytes_eqb f0) r); [reflexivity|].
    unfold amem in M. destruct (alookup f0 h); [discriminate|reflexivity].
Qed.

(* ------------------------------------------------------------------ the shape of every result *)
(* Every executor answers with a well-formed reply and either leaves the database alone, or
   stores a non-empty hash at its key, or stores back / removes the hash it found at its key.
   Errors always fall in the first case. *)
Inductive hres (d : db) (k : bytes) : reply -> db -> Prop :=
| hres_same r : reply_wf r = true -> hres d k r d
| hres_set r h h' :
    hash_or_empty d k = Some h -> is_err r = false -> reply_wf r = true ->
    h' <> [] -> (NoDup (akeys h) -> NoDup (akeys h')) ->
    hres d k r (db_set d k (VHash h'))
| hres_put r h h' :
    get_hash d k = HFound h -> is_err r = false -> reply_wf r = true ->
    (NoDup (akeys h) -> NoDup (akeys h')) ->
    hres d k r (put_hash d k h').

Lemma hash_or_empty_nodup d k h : hashes_ok d -> hash_or_empty d k = Some h -> NoDup (akeys h).
Proof.
  unfold hash_or_empty, get_hash. intros OK H.
  destruct (db_get d k) as [v|] eqn:G.
  - destruct v; try discriminate. inversion H; subst. apply (OK k _ G).
  - inversion H; subst. constructor.
Qed.

Lemma get_hash_found_nodup d k h : hashes_ok d -> get_hash d k = HFound h -> h <> [] /\ NoDup (akeys h).
Proof.
  unfold get_hash. intros OK H. destruct (db_get d k) as [v|] eqn:G; [|discriminate].
  destruct v; try discriminate. inversion H; subst. apply (OK k _ G).
Qed.

Lemma put_hash_wf d k h : db_wf d -> db_wf (put_hash d k h).
Proof. intros W. destruct h; cbn; [apply db_wf_del|apply db_wf_set]; exact W. Qed.

Lemma hres_wf d k r d' : hres d k r d' -> db_wf d -> db_wf d'.
Proof.
  intros H W. destruct H; [exact W|apply db_wf_set; exact W|apply put_hash_wf; exact W].
Qed.

Lemma hres_reply_wf d k r d' : hres d k r d' -> reply_wf r = true.
Proof. intros H. destruct H; assumption. Qed.

Lemma hres_ok d k r d' : hres d k r d' -> hashes_ok d -> hashes_ok d'.
Proof.
  intros H OK. destruct H as [r Hr|r h h' Hh Hne Hr Hn Hd|r h h' Hh Hne Hr Hd]; [exact OK| |].
  - apply hashes_ok_set; [exact OK|]. split; [exact Hn|]. apply Hd.
    eapply hash_or_empty_nodup; eassumption.
  - destruct h' as [|p h2] eqn:E; cbn; [apply hashes_ok_del; exact OK|].
    apply hashes_ok_set; [exact OK|]. split; [discriminate|]. apply Hd.
    eapply get_hash_found_nodup; eassumption.
Qed.

(* an error reply changes nothing (in particular WRONGTYPE) *)
Lemma hres_err_same d k r d' : hres d k r d' -> is_err r = true -> d' = d.
Proof. intros H E. destruct H; [reflexivity|congruence|congruence]. Qed.

(* frame: only the command's own key can change, value and deadline *)
Lemma hres_frame d k r d' k0 : hres d k r d' -> k0 <> k -> raw_view d' k0 = raw_view d k0.
Proof.
  intros H N. destruct H as [| |r h h' Hh Hne Hr Hd]; [reflexivity|apply raw_view_set_other; exact N|].
  destruct h'; cbn; [apply raw_view_del_other|apply raw_view_set_other]; exact N.
Qed.

(* the deadline of the command's key survives unless the hash ceased to exist *)
Lemma hres_ttl d k r d' : hres d k r d' -> db_get d' k <> None -> db_ttl d' k = db_ttl d k.
Proof.
  intros H G. destruct H as [| |r h h' Hh Hne Hr Hd]; [reflexivity|reflexivity|].
  destruct h'; unfold put_hash in *; [|reflexivity]. rewrite db_get_del_same in G. congruence.
Qed.

(* ------------------------------------------------------------------ every executor has that shape *)
Lemma wf_err_other : reply_wf err_other = true. Proof. reflexivity. Qed.
Lemma wf_err_wrongtype : reply_wf err_wrongtype = true. Proof. reflexivity. Qed.
Lemma wf_bulk_opt o : reply_wf (bulk_opt o) = true. Proof. destruct o; reflexivity. Qed.

Lemma wf_map_bulk {A} (g : A -> bytes) l : forallb reply_wf (map (fun x => RBulk (g x)) l) = true.
Proof. induction l; cbn; [reflexivity|exact IHl]. Qed.
Lemma wf_flat_pairs h : forallb reply_wf (flat_pairs h) = true.
Proof. unfold flat_pairs. induction h; cbn; [reflexivity|exact IHh]. Qed.

Ltac same := apply hres_same; first [reflexivity | apply wf_bulk_opt | idtac].

Lemma exec_hset_hres d args : hres d (key_of args) (fst (exec_hset d args)) (snd (exec_hset d args)).
Proof.
  unfold exec_hset, key_of.
  destruct args as [|c [|k [|a1 [|a2 rest]]]]; cbn [nth fst snd]; try (same; fail).
  destruct (pairs_of (a1 :: a2 :: rest)) as [ps|] eqn:P; [|same].
  destruct (hash_or_empty d k) as [h|] eqn:H; [|same].
  destruct (hset_all h ps 0) as [h' n] eqn:S. cbn [fst snd].
  assert (Hps : ps <> []).
  { cbn in P. destruct (pairs_of rest); [|discriminate]. inversion P. discriminate. }
  apply (hres_set d k (RInt n) h h' H); try reflexivity.
  - change h' with (fst (h', n)). rewrite <- S. apply hset_all_nonempty. exact Hps.
  - intros ND. change h' with (fst (h', n)). rewrite <- S. apply hset_all_nodup. exact ND.
Qed.

Lemma exec_hsetnx_hres d args : hres d (key_of args) (fst (exec_hsetnx d args)) (snd (exec_hsetnx d args)).
Proof.
  unfold exec_hsetnx, key_of.
  destruct args as [|c [|k [|f [|v [|x rest]]]]]; cbn [nth fst snd]; try (same; fail).
  destruct (hash_or_empty d k) as [h|] eqn:H; [|same].
  destruct (amem f h); [same|]. cbn [fst snd].
  apply (hres_set d k (RInt 1) h _ H); try reflexivity.
  - apply aset_nonempty.
  - apply NoDup_aset.
Qed.

Ltac read_only :=
  match goal with
  | |- context [hash_or_empty ?d ?k] => destruct (hash_or_empty d k) as [?h|] eqn:?H; cbn [fst snd]; same
  end.

Lemma exec_hget_hres d args : hres d (key_of args) (fst (exec_hget d args)) (snd (exec_hget d args)).
Proof.
  unfold exec_hget, key_of.
  destruct args as [|c [|k [|f [|x rest]]]]; cbn [nth fst snd]; try (same; fail). read_only.
Qed.

Lemma exec_hmget_hres d args : hres d (key_of args) (fst (exec_hmget d args)) (snd (exec_hmget d args)).
Proof.
  unfold exec_hmget, key_of.
  destruct args as [|c [|k [|f rest]]]; cbn [nth fst snd]; try (same; fail).
  destruct (hash_or_empty d k) as [h|] eqn:H; cbn [fst snd]; [|same].
  apply hres_same. cbn [reply_wf]. generalize (f :: rest). intros l.
  induction l; cbn; [reflexivity|]. rewrite wf_bulk_opt. exact IHl.
Qed.

Lemma exec_hgetall_hres d args : hres d (key_of args) (fst (exec_hgetall d args)) (snd (exec_hgetall d args)).
Proof.
  unfold exec_hgetall, key_of.
  destruct args as [|c [|k [|x rest]]]; cbn [nth fst snd]; try (same; fail).
  destruct (hash_or_empty d k) as [h|] eqn:H; cbn [fst snd]; [|same].
  apply hres_same. apply wf_flat_pairs.
Qed.

Lemma exec_hkeys_hres d args : hres d (key_of args) (fst (exec_hkeys d args)) (snd (exec_hkeys d args)).
Proof.
  unfold exec_hkeys, key_of.
  destruct args as [|c [|k [|x rest]]]; cbn [nth fst snd]; try (same; fail).
  destruct (hash_or_empty d k) as [h|] eqn:H; cbn [fst snd]; [|same].
  apply hres_same. apply (wf_map_bulk fst).
Qed.

Lemma exec_hvals_hres d args : hres d (key_of args) (fst (exec_hvals d args)) (snd (exec_hvals d args)).
Proof.
  unfold exec_hvals, key_of.
  destruct args as [|c [|k [|x rest]]]; cbn [nth fst snd]; try (same; fail).
  destruct (hash_or_empty d k) as [h|] eqn:H; cbn [fst snd]; [|same].
  apply hres_same. apply (wf_map_bulk snd).
Qed.

Lemma exec_hlen_hres d args : hres d (key_of args) (fst (exec_hlen d args)) (snd (exec_hlen d args)).
Proof.
  unfold exec_hlen, key_of.
  destruct args as [|c [|k [|x rest]]]; cbn [nth fst snd]; try (same; fail). read_only.
Qed.

Lemma exec_hexists_hres d args : hres d (key_of args) (fst (exec_hexists d args)) (snd (exec_hexists d args)).
Proof.
  unfold exec_hexists, key_of.
  destruct args as [|c [|k [|f [|x rest]]]]; cbn [nth fst snd]; try (same; fail). read_only.
Qed.

Lemma exec_hstrlen_hres d args : hres d (key_of args) (fst (exec_hstrlen d args)) (snd (exec_hstrlen d args)).
Proof.
  unfold exec_hstrlen, key_of.
  destruct args as [|c [|k [|f [|x rest]]]]; cbn [nth fst snd]; try (same; fail). read_only.
Qed.

Lemma exec_hdel_hres d args : hres d (key_of args) (fst (exec_hdel d args)) (snd (exec_hdel d args)).
Proof.
  unfold exec_hdel, key_of.
  destruct args as [|c [|k [|f rest]]]; cbn [nth fst snd]; try (same; fail).
  destruct (get_hash d k) as [| |h] eqn:H; cbn [fst snd]; try (same; fail).
  destruct (hdel_all h (f :: rest) 0) as [h' n] eqn:S. cbn [fst snd].
  apply (hres_put d k (RInt n) h h' H); try reflexivity.
  intros ND. change h' with (fst (h', n)). rewrite <- S. apply hdel_all_nodup. exact ND.
Qed.

Lemma exec_hincrby_hres d args : hres d (key_of args) (fst (exec_hincrby d args)) (snd (exec_hincrby d args)).
Proof.
  unfold exec_hincrby, key_of.
  destruct args as [|c [|k [|f [|n [|x rest]]]]]; cbn [nth fst snd]; try (same; fail).
  destruct (atoi64 n) as [delta|]; [|same].
  destruct (hash_or_empty d k) as [h|] eqn:H; [|same].
  destruct (alookup f h) as [b|].
  - destruct (atoi64 b) as [x|]; [|same].
    destruct (in_int64 (x + delta)); [|same]. cbn [fst snd].
    apply (hres_set d k _ h _ H); try reflexivity; [apply aset_nonempty|apply NoDup_aset].
  - cbn [fst snd]. apply (hres_set d k _ h _ H); try reflexivity; [apply aset_nonempty|apply NoDup_aset].
Qed.

Lemma hfloat_follow_hres d k f h hint : hash_or_empty d k = Some h ->
  hres d k (fst (hfloat_follow d k f h hint)) (snd (hfloat_follow d k f h hint)).
Proof.
  intros H. unfold hfloat_follow. destruct hint; try (same; fail).
  destruct (parse_dec b); [|same]. cbn [fst snd].
  apply (hres_set d k _ h _ H); try reflexivity; [apply aset_nonempty|apply NoDup_aset].
Qed.

Lemma hfloat_store_hres d k f h m e hint : hash_or_empty d k = Some h ->
  hres d k (fst (hfloat_store d k f h m e hint)) (snd (hfloat_store d k f h m e hint)).
Proof.
  intros H. unfold hfloat_store. destruct (dec_norm m e) as [m' e'].
  destruct (dec_in_dom m' e'); [|apply hfloat_follow_hres; exact H]. cbn [fst snd].
  apply (hres_set d k _ h _ H); try reflexivity; [apply aset_nonempty|apply NoDup_aset].
Qed.

Lemma exec_hincrbyfloat_hres d args hint :
  hres d (key_of args) (fst (exec_hincrbyfloat d args hint)) (snd (exec_hincrbyfloat d args hint)).
Proof.
  unfold exec_hincrbyfloat, key_of.
  destruct args as [|c [|k [|f [|a [|x rest]]]]]; cbn [nth fst snd]; try (same; fail).
  destruct (fclassify a) as [m e| |]; [| same |].
  - destruct (hash_or_empty d k) as [h|] eqn:H; [|same].
    destruct (alookup f h) as [b|]; [|apply hfloat_store_hres; exact H].
    destruct (fclassify b) as [m0 e0| |]; [|same|apply hfloat_follow_hres; exact H].
    destruct (dec_add m0 e0 m e) as [m' e']. apply hfloat_store_hres; exact H.
  - destruct (hash_or_empty d k) as [h|] eqn:H.
    + destruct (alookup f h) as [b|]; [|apply hfloat_follow_hres; exact H].
      destruct (fclassify b); [apply hfloat_follow_hres; exact H|same|apply hfloat_follow_hres; exact H].
    + cbn [fst snd]. destruct (hint_is_wrongtype hint); same.
Qed.

Lemma bulks_wf l bs : bulks l = Some bs -> l = map RBulk bs.
Proof.
  revert bs. induction l as [|x r IH]; cbn; intros bs H; [inversion H; reflexivity|].
  destruct x; try discriminate. destruct (bulks r) as [bs'|]; [|discriminate].
  inversion H; subst. cbn. f_equal. apply IH. reflexivity.
Qed.

Lemma hrand_reply_wf h c wv hint : reply_wf (hrand_reply h c wv hint) = true.
Proof.
  unfold hrand_reply.
  assert (C : forall ps, reply_wf (RArr (if wv then flat_pairs ps else map (fun p => RBulk (fst p)) ps)) = true).
  { intros ps. cbn. destruct wv; [apply wf_flat_pairs|apply (wf_map_bulk fst)]. }
  destruct hint; try apply C.
  destruct (bulks l) as [bs|]; [|apply C].
  destruct wv.
  - destruct (pairs_of bs) as [ps|]; [|apply (C (hrand_canon h c))].
    destruct (hrand_pairs_ok h c ps); cbn; apply wf_flat_pairs.
  - destruct (hrand_fields_ok h c bs); cbn; [apply (wf_map_bulk (fun x => x))|apply (wf_map_bulk fst)].
Qed.

Lemma hrand_one_wf h hint : reply_wf (hrand_one h hint) = true.
Proof.
  unfold hrand_one. destruct h as [|[f0 v0] r]; [reflexivity|].
  destruct hint; try reflexivity. destruct (amem b ((f0, v0) :: r)); reflexivity.
Qed.

(* HRANDFIELD never changes the database *)
Lemma exec_hrandfield_same d args hint : snd (exec_hrandfield d args hint) = d.
Proof.
  unfold exec_hrandfield.
  assert (G : forall k c wv,
    snd (match atoi64 c with
         | None => (err_other, d)
         | Some c0 => if c0 <? - hrand_max then (err_other, d) else
           match get_hash d k with
           | HMissing => (RArr [], d) | HWrong => (err_wrongtype, d)
           | HFound h => (hrand_reply h c0 wv hint, d) end end) = d).
  { intros k c wv. destruct (atoi64 c) as [c0|]; [|reflexivity].
    destruct (c0 <? - hrand_max); [reflexivity|]. destruct (get_hash d k); reflexivity. }
  destruct args as [|c [|k [|a [|o [|x rest]]]]]; try reflexivity.
  - destruct (get_hash d k); reflexivity.
  - apply G.
  - destruct (is (lower o) (B "withvalues")); [apply G|reflexivity].
Qed.

Lemma exec_hrandfield_wf d args hint : reply_wf (fst (exec_hrandfield d args hint)) = true.
Proof.
  unfold exec_hrandfield.
  assert (G : forall k c wv,
    reply_wf (fst (match atoi64 c with
         | None => (err_other, d)
         | Some c0 => if c0 <? - hrand_max then (err_other, d) else
           match get_hash d k with
           | HMissing => (RArr [], d) | HWrong => (err_wrongtype, d)
           | HFound h => (hrand_reply h c0 wv hint, d) end end)) = true).
  { intros k c wv. destruct (atoi64 c) as [c0|]; [|reflexivity].
    destruct (c0 <? - hrand_max); [reflexivity|]. destruct (get_hash d k); try reflexivity.
    apply hrand_reply_wf. }
  destruct args as [|c [|k [|a [|o [|x rest]]]]]; try reflexivity.
  - destruct (get_hash d k); try reflexivity. apply hrand_one_wf.
  - apply G.
  - destruct (is (lower o) (B "withvalues")); [apply G|reflexivity].
Qed.

Lemma exec_hrandfield_hres d args hint :
  hres d (key_of args) (fst (exec_hrandfield d args hint)) (snd (exec_hrandfield d args hint)).
Proof. rewrite exec_hrandfield_same. apply hres_same. apply exec_hrandfield_wf. Qed.

Theorem hashes_dispatch_hres d now nowms n args hint r d' :
  hashes_dispatch d now nowms n args hint = Some (r, d') -> hres d (key_of args) r d'.
Proof.
  unfold hashes_dispatch. intros H.
  repeat match type of H with
  | (if ?c then _ else _) = _ => destruct c
  end; try discriminate; inversion H as [E]; clear H;
  match type of E with
  | ?res = (r, d') =>
    assert (R1 : r = fst res) by (rewrite E; reflexivity);
    assert (R2 : d' = snd res) by (rewrite E; reflexivity); rewrite R1, R2
  end.
  - apply exec_hset_hres.
  - apply exec_hsetnx_hres.
  - apply exec_hget_hres.
  - apply exec_hmget_hres.
  - apply exec_hgetall_hres.
  - apply exec_hkeys_hres.
  - apply exec_hvals_hres.
  - apply exec_hlen_hres.
  - apply exec_hexists_hres.
  - apply exec_hstrlen_hres.
  - apply exec_hdel_hres.
  - apply exec_hincrby_hres.
  - apply exec_hincrbyfloat_hres.
  - apply exec_hrandfield_hres.
Qed.

(* ------------------------------------------------------------------ the global theorems *)
Theorem hashes_dispatch_wf_pres d now nowms n args hint r d' :
  db_wf d -> hashes_dispatch d now nowms n args hint = Some (r, d') -> db_wf d'.
Proof. intros W H. eapply hres_wf; [eapply hashes_dispatch_hres; exact H|exact W]. Qed.

Theorem hashes_dispatch_reply_wf d now nowms n args hint r d' :
  hashes_dispatch d now nowms n args hint = Some (r, d') -> reply_wf r = true.
Proof. intros H. eapply hres_reply_wf. eapply hashes_dispatch_hres; exact H. Qed.

Theorem hashes_dispatch_ok_pres d now nowms n args hint r d' :
  hashes_ok d -> hashes_dispatch d now nowms n args hint = Some (r, d') -> hashes_ok d'.
Proof. intros W H. eapply hres_ok; [eapply hashes_dispatch_hres; exact H|exact W]. Qed.

Theorem hashes_dispatch_error_unchanged d now nowms n args hint r d' :
  hashes_dispatch d now nowms n args hint = Some (r, d') -> is_err r = true -> d' = d.
Proof. intros H E. eapply hres_err_same; [eapply hashes_dispatch_hres; exact H|exact E]. Qed.

Theorem hashes_dispatch_frame d now nowms n args hint r d' k0 :
  hashes_dispatch d now nowms n args hint = Some (r, d') -> k0 <> key_of args ->
  raw_view d' k0 = raw_view d k0.
Proof. intros H N. eapply hres_frame; [eapply hashes_dispatch_hres; exact H|exact N]. Qed.

Theorem hashes_dispatch_keeps_deadline d now nowms n args hint r d' :
  hashes_dispatch d now nowms n args hint = Some (r, d') -> db_get d' (key_of args) <> None ->
  db_ttl d' (key_of args) = db_ttl d (key_of args).
Proof. intros H N. eapply hres_ttl; [eapply hashes_dispatch_hres; exact H|exact N]. Qed.
