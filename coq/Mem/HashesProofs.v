(* Proofs about the hash-command model (Mem/Hashes.v): the shape of every result, the global
   invariants, the frame, and the per-command clauses against the abstract map
   field -> option value.  Property statements are collected in Properties/C10.v. *)
Require Import Base.Bytes Base.GoInt Base.Reply Mem.Types Mem.Inv Mem.HashDec Mem.Hashes.
Local Open Scope Z_scope.

(* ------------------------------------------------------------------ abstract views *)
(* the abstract content of a hash: a finite map from fields to values *)
Definition hview (h : hash) (f : bytes) : option bytes := alookup f h.

(* the hash stored at key k of a database (a missing key and a key of another type hold no field) *)
Definition hash_at (d : db) (k : bytes) : hash :=
  match db_get d k with Some (VHash h) => h | _ => [] end.
Definition hfield (d : db) (k f : bytes) : option bytes := hview (hash_at d k) f.

(* value-level invariant owned by this family: no empty hash is stored, fields are not duplicated *)
Definition value_ok_hash (v : value) : Prop :=
  match v with VHash h => h <> [] /\ NoDup (akeys h) | _ => True end.
Definition hashes_ok (d : db) : Prop := forall k v, db_get d k = Some v -> value_ok_hash v.

Definition is_err (r : reply) : bool := match r with RErr _ => true | _ => false end.
Definition key_of (args : list bytes) : bytes := nth 1 args [].

(* ------------------------------------------------------------------ database primitives *)
Lemma db_get_set_same d k v : db_get (db_set d k v) k = Some v.
Proof. unfold db_get, db_set. cbn. apply alookup_aset_same. Qed.
Lemma db_get_set_other d k k0 v : k0 <> k -> db_get (db_set d k v) k0 = db_get d k0.
Proof. intros N. unfold db_get, db_set. cbn. apply alookup_aset_other. exact N. Qed.
Lemma db_ttl_set d k v k0 : db_ttl (db_set d k v) k0 = db_ttl d k0.
Proof. reflexivity. Qed.
Lemma db_get_del_same d k : db_get (db_del d k) k = None.
Proof. unfold db_get, db_del. cbn. apply alookup_aremove_same. Qed.
Lemma db_get_del_other d k k0 : k0 <> k -> db_get (db_del d k) k0 = db_get d k0.
Proof. intros N. unfold db_get, db_del. cbn. apply alookup_aremove_other. exact N. Qed.
Lemma db_ttl_del_same d k : db_ttl (db_del d k) k = None.
Proof. unfold db_ttl, db_del. cbn. apply alookup_aremove_same. Qed.
Lemma db_ttl_del_other d k k0 : k0 <> k -> db_ttl (db_del d k) k0 = db_ttl d k0.
Proof. intros N. unfold db_ttl, db_del. cbn. apply alookup_aremove_other. exact N. Qed.

Lemma hashes_ok_empty : hashes_ok empty_db.
Proof. intros k v H. discriminate. Qed.

Lemma hashes_ok_purge d now : hashes_ok d -> hashes_ok (purge d now).
Proof.
  intros H k v G. rewrite db_get_purge in G. destruct (expired d now k); [discriminate|].
  eapply H; exact G.
Qed.

Lemma hashes_ok_set d k v : hashes_ok d -> value_ok_hash v -> hashes_ok (db_set d k v).
Proof.
  intros H Hv k0 v0 G. destruct (bytes_eq_dec k0 k) as [->|N].
  - rewrite db_get_set_same in G. inversion G; subst. exact Hv.
  - rewrite db_get_set_other in G by exact N. eapply H; exact G.
Qed.

Lemma hashes_ok_del d k : hashes_ok d -> hashes_ok (db_del d k).
Proof.
  intros H k0 v0 G. destruct (bytes_eq_dec k0 k) as [->|N].
  - rewrite db_get_del_same in G. discriminate.
  - rewrite db_get_del_other in G by exact N. eapply H; exact G.
Qed.

(* ------------------------------------------------------------------ association-list facts *)
Lemma amem_alookup {A} (f : bytes) (l : list (bytes * A)) :
  amem f l = match alookup f l with Some _ => true | None => false end.
Proof. reflexivity. Qed.

Lemma length_areplace {A} (f : bytes) (v : A) l : List.length (areplace f v l) = List.length l.
Proof.
  induction l as [|[k' v'] r IH]; cbn; [reflexivity|].
  destruct (bytes_eqb f k'); cbn; [reflexivity|f_equal; exact IH].
Qed.

Lemma zlength_aset {A} (f : bytes) (v : A) l :
  zlength (aset f v l) = if amem f l then zlength l else zlength l + 1.
Proof.
  unfold zlength, aset, amem. destruct (alookup f l).
  - rewrite length_areplace. reflexivity.
  - rewrite app_length. cbn. lia.
Qed.

Lemma aset_nonempty {A} (f : bytes) (v : A) l : aset f v l <> [].
Proof.
  intros E. assert (H : alookup f (aset f v l) = Some v) by apply alookup_aset_same.
  rewrite E in H. discriminate.
Qed.

Lemma zlength_nonneg {A} (l : list A) : 0 <= zlength l.
Proof. unfold zlength. lia. Qed.

Lemma zlength_nil_iff {A} (l : list A) : zlength l = 0 <-> l = [].
Proof.
  unfold zlength. destruct l as [|x l]; split; intros H; try reflexivity; try discriminate.
Qed.

Lemma length_aremove_mem_nat {A} (f : bytes) (l : list (bytes * A)) :
  NoDup (akeys l) -> amem f l = true -> S (List.length (aremove f l)) = List.length l.
Proof.
  unfold amem, akeys. induction l as [|[k' v'] r IH]; simpl; intros ND H; [discriminate|].
  inversion ND as [|? ? Hn ND']; subst.
  destruct (bytes_eqb_spec f k') as [->|N].
  - rewrite aremove_notin by exact Hn. reflexivity.
  - simpl. f_equal. apply IH; assumption.
Qed.

Lemma length_aremove_mem {A} (f : bytes) (l : list (bytes * A)) :
  NoDup (akeys l) -> amem f l = true -> zlength (aremove f l) = zlength l - 1.
Proof.
  intros ND H. pose proof (length_aremove_mem_nat f l ND H) as E. unfold zlength. lia.
Qed.

Lemma aremove_notmem {A} (f : bytes) (l : list (bytes * A)) : amem f l = false -> aremove f l = l.
Proof.
  intros H. apply aremove_notin. unfold amem in H. apply alookup_None_notin.
  destruct (alookup f l); [discriminate|reflexivity].
Qed.

(* ------------------------------------------------------------------ HSET / HDEL folds *)
Lemma hset_all_nodup ps : forall h n, NoDup (akeys h) -> NoDup (akeys (fst (hset_all h ps n))).
Proof.
  induction ps as [|[f v] r IH]; cbn; intros h n ND; [exact ND|].
  apply IH. apply NoDup_aset. exact ND.
Qed.

Lemma hset_all_count ps : forall h n,
  snd (hset_all h ps n) = n + (zlength (fst (hset_all h ps n)) - zlength h).
Proof.
  induction ps as [|[f v] r IH]; cbn; intros h n; [lia|].
  rewrite IH. rewrite (zlength_aset f v h). destruct (amem f h); lia.
Qed.

Lemma hset_all_grows ps : forall h n, zlength h <= zlength (fst (hset_all h ps n)).
Proof.
  induction ps as [|[f v] r IH]; cbn; intros h n; [lia|].
  specialize (IH (aset f v h) (if amem f h then n else n + 1)).
  rewrite (zlength_aset f v h) in IH. destruct (amem f h); lia.
Qed.

Lemma hset_all_nonempty ps h n : ps <> [] -> fst (hset_all h ps n) <> [].
Proof.
  destruct ps as [|[f v] r]; [congruence|]. intros _. cbn.
  pose proof (hset_all_grows r (aset f v h) (if amem f h then n else n + 1)) as G.
  intros E. rewrite E in G. unfold zlength at 2 in G. cbn in G.
  assert (zlength (aset f v h) = 0) as Z0 by (pose proof (zlength_nonneg (aset f v h)); lia).
  apply zlength_nil_iff in Z0. exact (aset_nonempty f v h Z0).
Qed.

(* each field maps to the last value written to it in the command, untouched fields keep theirs *)
Lemma hset_all_lookup ps : forall h n f,
  alookup f (fst (hset_all h ps n)) =
  match alookup f (rev ps) with Some v => Some v | None => alookup f h end.
Proof.
  induction ps as [|[f0 v0] r IH]; cbn; intros h n f; [reflexivity|].
  rewrite IH.
  destruct (alookup f (rev r)) eqn:E.
  - rewrite (alookup_app_in f (rev r) [(f0, v0)] b E). reflexivity.
  - rewrite (alookup_app_notin f (rev r) [(f0, v0)] E). cbn.
    destruct (bytes_eqb_spec f f0) as [->|N].
    + apply alookup_aset_same.
    + apply alookup_aset_other. exact N.
Qed.

Lemma hdel_all_nodup fs : forall h n, NoDup (akeys h) -> NoDup (akeys (fst (hdel_all h fs n))).
Proof.
  induction fs as [|f r IH]; cbn; intros h n ND; [exact ND|].
  destruct (amem f h); apply IH; [apply NoDup_aremove|]; exact ND.
Qed.

Lemma hdel_all_count fs : forall h n, NoDup (akeys h) ->
  snd (hdel_all h fs n) = n + (zlength h - zlength (fst (hdel_all h fs n))).
Proof.
  induction fs as [|f r IH]; cbn; intros h n ND; [lia|].
  destruct (amem f h) eqn:M.
  - rewrite IH by (apply NoDup_aremove; exact ND). rewrite (length_aremove_mem f h ND M). lia.
  - apply IH. exact ND.
Qed.

Lemma hdel_all_lookup fs : forall h n f,
  alookup f (fst (hdel_all h fs n)) = if existsb (bytes_eqb f) fs then None else alookup f h.
Proof.
  induction fs as [|f0 r IH]; cbn; intros h n f; [reflexivity|].
  destruct (amem f0 h) eqn:M; rewrite IH.
  - destruct (bytes_eqb_spec f f0) as [->|N]; cbn.
    + destruct (existsb (bytes_eqb f0) r); [reflexivity|apply alookup_aremove_same].
    + destruct (existsb (bytes_eqb f) r); [reflexivity|apply alookup_aremove_other; exact N].
  - destruct (bytes_eqb_spec f f0) as [->|N]; cbn; [|reflexivity].
    destruct (existsb (bytes_eqb f0) r); [reflexivity|].
    unfold amem in M. destruct (alookup f0 h); [discriminate|reflexivity].
Qed.

(* ------------------------------------------------------------------ the shape of every result *)
(* Every executor answers with a well-formed reply and either leaves the database alone, or
   stores a non-empty hash at its key, or stores back / removes the hash it found at its key.
   Errors always fall in the first case. *)
Inductive hres (d : db) (k : bytes) (fs : list bytes) : reply -> db -> Prop :=
| hres_same r : reply_wf r = true -> hres d k fs r d
| hres_set r h h' :
    hash_or_empty d k = Some h -> is_err r = false -> reply_wf r = true ->
    h' <> [] -> (NoDup (akeys h) -> NoDup (akeys h')) ->
    (forall f, ~ In f fs -> alookup f h' = alookup f h) ->
    hres d k fs r (db_set d k (VHash h'))
| hres_put r h h' :
    get_hash d k = HFound h -> is_err r = false -> reply_wf r = true ->
    (NoDup (akeys h) -> NoDup (akeys h')) ->
    (forall f, ~ In f fs -> alookup f h' = alookup f h) ->
    hres d k fs r (put_hash d k h').

Definition fields_of (args : list bytes) : list bytes := skipn 2 args.

Lemma hash_or_empty_nodup d k h : hashes_ok d -> hash_or_empty d k = Some h -> NoDup (akeys h).
Proof.
  unfold hash_or_empty, get_hash. intros OK H.
  destruct (db_get d k) as [v|] eqn:G.
  - destruct v; try discriminate. inversion H; subst. apply (OK k _ G).
  - inversion H; subst. constructor.
Qed.

Lemma get_hash_found_nodup d k h : hashes_ok d -> get_hash d k = HFound h -> h <> [] /\ NoDup (akeys h).
Proof.
  unfold get_hash. intros OK H. destruct (db_get d k) as [v|] eqn:G; [|discriminate].
  destruct v; try discriminate. inversion H; subst. apply (OK k _ G).
Qed.

Lemma put_hash_wf d k h : db_wf d -> db_wf (put_hash d k h).
Proof. intros W. destruct h; cbn; [apply db_wf_del|apply db_wf_set]; exact W. Qed.

Lemma hres_wf d k fs r d' : hres d k fs r d' -> db_wf d -> db_wf d'.
Proof.
  intros H W. destruct H; [exact W|apply db_wf_set; exact W|apply put_hash_wf; exact W].
Qed.

Lemma hres_reply_wf d k fs r d' : hres d k fs r d' -> reply_wf r = true.
Proof. intros H. destruct H; assumption. Qed.

Lemma hres_ok d k fs r d' : hres d k fs r d' -> hashes_ok d -> hashes_ok d'.
Proof.
  intros H OK. destruct H as [r Hr|r h h' Hh Hne Hr Hn Hd Hf|r h h' Hh Hne Hr Hd Hf]; [exact OK| |].
  - apply hashes_ok_set; [exact OK|]. split; [exact Hn|]. apply Hd.
    eapply hash_or_empty_nodup; eassumption.
  - destruct h' as [|p h2] eqn:E; cbn; [apply hashes_ok_del; exact OK|].
    apply hashes_ok_set; [exact OK|]. split; [discriminate|]. apply Hd.
    eapply get_hash_found_nodup; eassumption.
Qed.

(* an error reply changes nothing (in particular WRONGTYPE) *)
Lemma hres_err_same d k fs r d' : hres d k fs r d' -> is_err r = true -> d' = d.
Proof. intros H E. destruct H; [reflexivity|congruence|congruence]. Qed.

(* frame: only the command's own key can change, value and deadline *)
Lemma hres_frame d k fs r d' k0 : hres d k fs r d' -> k0 <> k -> raw_view d' k0 = raw_view d k0.
Proof.
  intros H N. destruct H as [| |r h h' Hh Hne Hr Hd Hf]; [reflexivity|apply raw_view_set_other; exact N|].
  destruct h'; cbn; [apply raw_view_del_other|apply raw_view_set_other]; exact N.
Qed.

(* the deadline of the command's key survives unless the hash ceased to exist *)
Lemma hres_ttl d k fs r d' : hres d k fs r d' -> db_get d' k <> None -> db_ttl d' k = db_ttl d k.
Proof.
  intros H G. destruct H as [| |r h h' Hh Hne Hr Hd Hf]; [reflexivity|reflexivity|].
  destruct h'; unfold put_hash in *; [|reflexivity]. rewrite db_get_del_same in G. congruence.
Qed.

(* ------------------------------------------------------------------ every executor has that shape *)
Lemma wf_err_other : reply_wf err_other = true. Proof. reflexivity. Qed.
Lemma wf_err_wrongtype : reply_wf err_wrongtype = true. Proof. reflexivity. Qed.
Lemma wf_bulk_opt o : reply_wf (bulk_opt o) = true. Proof. destruct o; reflexivity. Qed.

Lemma wf_map_bulk {A} (g : A -> bytes) l : forallb reply_wf (map (fun x => RBulk (g x)) l) = true.
Proof. induction l; cbn; [reflexivity|exact IHl]. Qed.
Lemma wf_flat_pairs h : forallb reply_wf (flat_pairs h) = true.
Proof. unfold flat_pairs. induction h; cbn; [reflexivity|exact IHh]. Qed.

Ltac same := apply hres_same; first [reflexivity | apply wf_bulk_opt | idtac].

Lemma pairs_of_fields : forall fvs ps f, pairs_of fvs = Some ps -> In f (map fst ps) -> In f fvs.
Proof.
  fix IH 1. intros [|a [|b r]] ps f; cbn [pairs_of]; intros P Hin.
  - inversion P; subst. destruct Hin.
  - discriminate.
  - destruct (pairs_of r) as [ps'|] eqn:E; [|discriminate]. inversion P; subst. cbn in Hin.
    destruct Hin as [<-|Hin]; [left; reflexivity|]. right; right. eapply IH; eassumption.
Qed.

Lemma alookup_rev_notin {A} (f : bytes) (ps : list (bytes * A)) : ~ In f (map fst ps) -> alookup f (rev ps) = None.
Proof.
  intros H. apply alookup_None_notin. unfold akeys. rewrite map_rev. intros Hin. apply H.
  apply in_rev. exact Hin.
Qed.

Lemma existsb_notin f fs : ~ In f fs -> existsb (bytes_eqb f) fs = false.
Proof.
  intros H. destruct (existsb (bytes_eqb f) fs) eqn:E; [|reflexivity].
  apply existsb_exists in E as [x [Hx Ex]]. apply bytes_eqb_eq in Ex. subst. contradiction.
Qed.

Lemma aset_other_field {A} (f : bytes) (v : A) h fs : In f fs -> forall f0, ~ In f0 fs -> alookup f0 (aset f v h) = alookup f0 h.
Proof. intros Hin f0 N. apply alookup_aset_other. intros ->. contradiction. Qed.

Lemma exec_hset_hres d args : hres d (key_of args) (fields_of args) (fst (exec_hset d args)) (snd (exec_hset d args)).
Proof.
  unfold exec_hset, key_of, fields_of.
  destruct args as [|c [|k [|a1 [|a2 rest]]]]; cbn [nth fst snd skipn]; try (same; fail).
  destruct (pairs_of (a1 :: a2 :: rest)) as [ps|] eqn:P; [|same].
  destruct (hash_or_empty d k) as [h|] eqn:H; [|same].
  destruct (hset_all h ps 0) as [h' n] eqn:S. cbn [fst snd].
  assert (Hps : ps <> []).
  { cbn in P. destruct (pairs_of rest); [|discriminate]. inversion P. discriminate. }
  apply (hres_set d k _ (RInt n) h h' H); try reflexivity.
  - change h' with (fst (h', n)). rewrite <- S. apply hset_all_nonempty. exact Hps.
  - intros ND. change h' with (fst (h', n)). rewrite <- S. apply hset_all_nodup. exact ND.
  - intros f Hf. change h' with (fst (h', n)). rewrite <- S. rewrite hset_all_lookup.
    rewrite alookup_rev_notin; [reflexivity|]. intros Hin. apply Hf. eapply pairs_of_fields; eassumption.
Qed.

Lemma exec_hsetnx_hres d args : hres d (key_of args) (fields_of args) (fst (exec_hsetnx d args)) (snd (exec_hsetnx d args)).
Proof.
  unfold exec_hsetnx, key_of, fields_of.
  destruct args as [|c [|k [|f [|v [|x rest]]]]]; cbn [nth fst snd skipn]; try (same; fail).
  destruct (hash_or_empty d k) as [h|] eqn:H; [|same].
  destruct (amem f h); [same|]. cbn [fst snd].
  apply (hres_set d k _ (RInt 1) h _ H); try reflexivity.
  - apply aset_nonempty.
  - apply NoDup_aset.
  - apply aset_other_field. left; reflexivity.
Qed.

Ltac read_only :=
  match goal with
  | |- context [hash_or_empty ?d ?k] => destruct (hash_or_empty d k) as [?h|] eqn:?H; cbn [fst snd]; same
  end.

Lemma exec_hget_hres d args : hres d (key_of args) (fields_of args) (fst (exec_hget d args)) (snd (exec_hget d args)).
Proof.
  unfold exec_hget, key_of, fields_of.
  destruct args as [|c [|k [|f [|x rest]]]]; cbn [nth fst snd skipn]; try (same; fail). read_only.
Qed.

Lemma exec_hmget_hres d args : hres d (key_of args) (fields_of args) (fst (exec_hmget d args)) (snd (exec_hmget d args)).
Proof.
  unfold exec_hmget, key_of, fields_of.
  destruct args as [|c [|k [|f rest]]]; cbn [nth fst snd skipn]; try (same; fail).
  destruct (hash_or_empty d k) as [h|] eqn:H; cbn [fst snd]; [|same].
  apply hres_same. cbn [reply_wf]. generalize (f :: rest). intros l.
  induction l; cbn; [reflexivity|]. rewrite wf_bulk_opt. exact IHl.
Qed.

Lemma exec_hgetall_hres d args : hres d (key_of args) (fields_of args) (fst (exec_hgetall d args)) (snd (exec_hgetall d args)).
Proof.
  unfold exec_hgetall, key_of, fields_of.
  destruct args as [|c [|k [|x rest]]]; cbn [nth fst snd skipn]; try (same; fail).
  destruct (hash_or_empty d k) as [h|] eqn:H; cbn [fst snd]; [|same].
  apply hres_same. apply wf_flat_pairs.
Qed.

Lemma exec_hkeys_hres d args : hres d (key_of args) (fields_of args) (fst (exec_hkeys d args)) (snd (exec_hkeys d args)).
Proof.
  unfold exec_hkeys, key_of, fields_of.
  destruct args as [|c [|k [|x rest]]]; cbn [nth fst snd skipn]; try (same; fail).
  destruct (hash_or_empty d k) as [h|] eqn:H; cbn [fst snd]; [|same].
  apply hres_same. apply (wf_map_bulk fst).
Qed.

Lemma exec_hvals_hres d args : hres d (key_of args) (fields_of args) (fst (exec_hvals d args)) (snd (exec_hvals d args)).
Proof.
  unfold exec_hvals, key_of, fields_of.
  destruct args as [|c [|k [|x rest]]]; cbn [nth fst snd skipn]; try (same; fail).
  destruct (hash_or_empty d k) as [h|] eqn:H; cbn [fst snd]; [|same].
  apply hres_same. apply (wf_map_bulk snd).
Qed.

Lemma exec_hlen_hres d args : hres d (key_of args) (fields_of args) (fst (exec_hlen d args)) (snd (exec_hlen d args)).
Proof.
  unfold exec_hlen, key_of, fields_of.
  destruct args as [|c [|k [|x rest]]]; cbn [nth fst snd skipn]; try (same; fail). read_only.
Qed.

Lemma exec_hexists_hres d args : hres d (key_of args) (fields_of args) (fst (exec_hexists d args)) (snd (exec_hexists d args)).
Proof.
  unfold exec_hexists, key_of, fields_of.
  destruct args as [|c [|k [|f [|x rest]]]]; cbn [nth fst snd skipn]; try (same; fail). read_only.
Qed.

Lemma exec_hstrlen_hres d args : hres d (key_of args) (fields_of args) (fst (exec_hstrlen d args)) (snd (exec_hstrlen d args)).
Proof.
  unfold exec_hstrlen, key_of, fields_of.
  destruct args as [|c [|k [|f [|x rest]]]]; cbn [nth fst snd skipn]; try (same; fail). read_only.
Qed.

Lemma exec_hdel_hres d args : hres d (key_of args) (fields_of args) (fst (exec_hdel d args)) (snd (exec_hdel d args)).
Proof.
  unfold exec_hdel, key_of, fields_of.
  destruct args as [|c [|k [|f rest]]]; cbn [nth fst snd skipn]; try (same; fail).
  destruct (get_hash d k) as [| |h] eqn:H; cbn [fst snd]; try (same; fail).
  destruct (hdel_all h (f :: rest) 0) as [h' n] eqn:S. cbn [fst snd].
  apply (hres_put d k _ (RInt n) h h' H); try reflexivity.
  - intros ND. change h' with (fst (h', n)). rewrite <- S. apply hdel_all_nodup. exact ND.
  - intros f0 Hf. change h' with (fst (h', n)). rewrite <- S. rewrite hdel_all_lookup.
    rewrite existsb_notin by exact Hf. reflexivity.
Qed.

Lemma exec_hincrby_hres d args : hres d (key_of args) (fields_of args) (fst (exec_hincrby d args)) (snd (exec_hincrby d args)).
Proof.
  unfold exec_hincrby, key_of, fields_of.
  destruct args as [|c [|k [|f [|n [|x rest]]]]]; cbn [nth fst snd skipn]; try (same; fail).
  destruct (atoi64 n) as [delta|]; [|same].
  destruct (hash_or_empty d k) as [h|] eqn:H; [|same].
  destruct (alookup f h) as [b|].
  - destruct (atoi64 b) as [x|]; [|same].
    destruct (in_int64 (x + delta)); [|same]. cbn [fst snd].
    apply (hres_set d k _ _ h _ H); try reflexivity; [apply aset_nonempty|apply NoDup_aset|apply aset_other_field; left; reflexivity].
  - cbn [fst snd]. apply (hres_set d k _ _ h _ H); try reflexivity; [apply aset_nonempty|apply NoDup_aset|apply aset_other_field; left; reflexivity].
Qed.

Lemma hfloat_follow_hres d k f fs0 h hint : hash_or_empty d k = Some h ->
  hres d k (f :: fs0) (fst (hfloat_follow d k f h hint)) (snd (hfloat_follow d k f h hint)).
Proof.
  intros H. unfold hfloat_follow. destruct hint; try (same; fail).
  destruct (parse_dec b); [|same]. cbn [fst snd].
  apply (hres_set d k _ _ h _ H); try reflexivity; [apply aset_nonempty|apply NoDup_aset|apply aset_other_field; left; reflexivity].
Qed.

Lemma hfloat_store_hres d k f fs0 h m e hint : hash_or_empty d k = Some h ->
  hres d k (f :: fs0) (fst (hfloat_store d k f h m e hint)) (snd (hfloat_store d k f h m e hint)).
Proof.
  intros H. unfold hfloat_store. destruct (dec_norm m e) as [m' e'].
  destruct (dec_in_dom m' e'); [|apply hfloat_follow_hres; exact H]. cbn [fst snd].
  apply (hres_set d k _ _ h _ H); try reflexivity; [apply aset_nonempty|apply NoDup_aset|apply aset_other_field; left; reflexivity].
Qed.

Lemma exec_hincrbyfloat_hres d args hint :
  hres d (key_of args) (fields_of args) (fst (exec_hincrbyfloat d args hint)) (snd (exec_hincrbyfloat d args hint)).
Proof.
  unfold exec_hincrbyfloat, key_of, fields_of.
  destruct args as [|c [|k [|f [|a [|x rest]]]]]; cbn [nth fst snd skipn]; try (same; fail).
  destruct (fclassify a) as [m e| |]; [| same |].
  - destruct (hash_or_empty d k) as [h|] eqn:H; [|same].
    destruct (alookup f h) as [b|]; [|apply hfloat_store_hres; exact H].
    destruct (fclassify b) as [m0 e0| |]; [|same|apply hfloat_follow_hres; exact H].
    destruct (dec_add m0 e0 m e) as [m' e']. apply hfloat_store_hres; exact H.
  - destruct (hash_or_empty d k) as [h|] eqn:H.
    + destruct (alookup f h) as [b|]; [|apply hfloat_follow_hres; exact H].
      destruct (fclassify b); [apply hfloat_follow_hres; exact H|same|apply hfloat_follow_hres; exact H].
    + cbn [fst snd]. destruct (hint_is_wrongtype hint); same.
Qed.

Lemma bulks_wf l bs : bulks l = Some bs -> l = map RBulk bs.
Proof.
  revert bs. induction l as [|x r IH]; cbn; intros bs H; [inversion H; reflexivity|].
  destruct x; try discriminate. destruct (bulks r) as [bs'|]; [|discriminate].
  inversion H; subst. cbn. f_equal. apply IH. reflexivity.
Qed.

Lemma hrand_reply_wf h c wv hint : reply_wf (hrand_reply h c wv hint) = true.
Proof.
  unfold hrand_reply.
  assert (C : forall ps, reply_wf (RArr (if wv then flat_pairs ps else map (fun p => RBulk (fst p)) ps)) = true).
  { intros ps. cbn. destruct wv; [apply wf_flat_pairs|apply (wf_map_bulk fst)]. }
  destruct hint; try apply C.
  destruct (bulks l) as [bs|]; [|apply C].
  destruct wv.
  - destruct (pairs_of bs) as [ps|]; [|apply (C (hrand_canon h c))].
    destruct (hrand_pairs_ok h c ps); cbn; apply wf_flat_pairs.
  - destruct (hrand_fields_ok h c bs); cbn; [apply (wf_map_bulk (fun x => x))|apply (wf_map_bulk fst)].
Qed.

Lemma hrand_one_wf h hint : reply_wf (hrand_one h hint) = true.
Proof.
  unfold hrand_one. destruct h as [|[f0 v0] r]; [reflexivity|].
  destruct hint; try reflexivity. destruct (amem b ((f0, v0) :: r)); reflexivity.
Qed.

(* HRANDFIELD never changes the database *)
Lemma exec_hrandfield_same d args hint : snd (exec_hrandfield d args hint) = d.
Proof.
  unfold exec_hrandfield.
  assert (G : forall k c wv,
    snd (match atoi64 c with
         | None => (err_other, d)
         | Some c0 => if c0 <? - hrand_max then (err_other, d) else
           match get_hash d k with
           | HMissing => (RArr [], d) | HWrong => (err_wrongtype, d)
           | HFound h => (hrand_reply h c0 wv hint, d) end end) = d).
  { intros k c wv. destruct (atoi64 c) as [c0|]; [|reflexivity].
    destruct (c0 <? - hrand_max); [reflexivity|]. destruct (get_hash d k); reflexivity. }
  destruct args as [|c [|k [|a [|o [|x rest]]]]]; try reflexivity.
  - destruct (get_hash d k); reflexivity.
  - apply G.
  - destruct (is (lower o) (B "withvalues")); [apply G|reflexivity].
Qed.

Lemma exec_hrandfield_wf d args hint : reply_wf (fst (exec_hrandfield d args hint)) = true.
Proof.
  unfold exec_hrandfield.
  assert (G : forall k c wv,
    reply_wf (fst (match atoi64 c with
         | None => (err_other, d)
         | Some c0 => if c0 <? - hrand_max then (err_other, d) else
           match get_hash d k with
           | HMissing => (RArr [], d) | HWrong => (err_wrongtype, d)
           | HFound h => (hrand_reply h c0 wv hint, d) end end)) = true).
  { intros k c wv. destruct (atoi64 c) as [c0|]; [|reflexivity].
    destruct (c0 <? - hrand_max); [reflexivity|]. destruct (get_hash d k); try reflexivity.
    apply hrand_reply_wf. }
  destruct args as [|c [|k [|a [|o [|x rest]]]]]; try reflexivity.
  - destruct (get_hash d k); try reflexivity. apply hrand_one_wf.
  - apply G.
  - destruct (is (lower o) (B "withvalues")); [apply G|reflexivity].
Qed.

Lemma exec_hrandfield_hres d args hint :
  hres d (key_of args) (fields_of args) (fst (exec_hrandfield d args hint)) (snd (exec_hrandfield d args hint)).
Proof. rewrite exec_hrandfield_same. apply hres_same. apply exec_hrandfield_wf. Qed.

Theorem hashes_dispatch_hres d now nowms n args hint r d' :
  hashes_dispatch d now nowms n args hint = Some (r, d') -> hres d (key_of args) (fields_of args) r d'.
Proof.
  unfold hashes_dispatch. intros H.
  repeat match type of H with
  | (if ?c then _ else _) = _ => destruct c
  end; try discriminate; inversion H as [E]; clear H;
  match type of E with
  | ?res = (r, d') =>
    assert (R1 : r = fst res) by (rewrite E; reflexivity);
    assert (R2 : d' = snd res) by (rewrite E; reflexivity); rewrite R1, R2
  end.
  - apply exec_hset_hres.
  - apply exec_hsetnx_hres.
  - apply exec_hget_hres.
  - apply exec_hmget_hres.
  - apply exec_hgetall_hres.
  - apply exec_hkeys_hres.
  - apply exec_hvals_hres.
  - apply exec_hlen_hres.
  - apply exec_hexists_hres.
  - apply exec_hstrlen_hres.
  - apply exec_hdel_hres.
  - apply exec_hincrby_hres.
  - apply exec_hincrbyfloat_hres.
  - apply exec_hrandfield_hres.
Qed.

(* ------------------------------------------------------------------ the global theorems *)
Theorem hashes_dispatch_wf_pres d now nowms n args hint r d' :
  db_wf d -> hashes_dispatch d now nowms n args hint = Some (r, d') -> db_wf d'.
Proof. intros W H. eapply hres_wf; [eapply hashes_dispatch_hres; exact H|exact W]. Qed.

Theorem hashes_dispatch_reply_wf d now nowms n args hint r d' :
  hashes_dispatch d now nowms n args hint = Some (r, d') -> reply_wf r = true.
Proof. intros H. eapply hres_reply_wf. eapply hashes_dispatch_hres; exact H. Qed.

Theorem hashes_dispatch_ok_pres d now nowms n args hint r d' :
  hashes_ok d -> hashes_dispatch d now nowms n args hint = Some (r, d') -> hashes_ok d'.
Proof. intros W H. eapply hres_ok; [eapply hashes_dispatch_hres; exact H|exact W]. Qed.

Theorem hashes_dispatch_error_unchanged d now nowms n args hint r d' :
  hashes_dispatch d now nowms n args hint = Some (r, d') -> is_err r = true -> d' = d.
Proof. intros H E. eapply hres_err_same; [eapply hashes_dispatch_hres; exact H|exact E]. Qed.

Theorem hashes_dispatch_frame d now nowms n args hint r d' k0 :
  hashes_dispatch d now nowms n args hint = Some (r, d') -> k0 <> key_of args ->
  raw_view d' k0 = raw_view d k0.
Proof. intros H N. eapply hres_frame; [eapply hashes_dispatch_hres; exact H|exact N]. Qed.

Theorem hashes_dispatch_keeps_deadline d now nowms n args hint r d' :
  hashes_dispatch d now nowms n args hint = Some (r, d') -> db_get d' (key_of args) <> None ->
  db_ttl d' (key_of args) = db_ttl d (key_of args).
Proof. intros H N. eapply hres_ttl; [eapply hashes_dispatch_hres; exact H|exact N]. Qed.

(* ------------------------------------------------------------------ reads leave the database alone *)
Definition hash_write_name (n : bytes) : bool :=
  is n (B "hset") || is n (B "hsetnx") || is n (B "hdel") || is n (B "hincrby") || is n (B "hincrbyfloat").

Ltac snd_same :=
  repeat match goal with
  | |- context [match ?x with _ => _ end] => destruct x
  end; reflexivity.

Lemma exec_hget_same d args : snd (exec_hget d args) = d.      Proof. unfold exec_hget. snd_same. Qed.
Lemma exec_hmget_same d args : snd (exec_hmget d args) = d.    Proof. unfold exec_hmget. snd_same. Qed.
Lemma exec_hgetall_same d args : snd (exec_hgetall d args) = d. Proof. unfold exec_hgetall. snd_same. Qed.
Lemma exec_hkeys_same d args : snd (exec_hkeys d args) = d.    Proof. unfold exec_hkeys. snd_same. Qed.
Lemma exec_hvals_same d args : snd (exec_hvals d args) = d.    Proof. unfold exec_hvals. snd_same. Qed.
Lemma exec_hlen_same d args : snd (exec_hlen d args) = d.      Proof. unfold exec_hlen. snd_same. Qed.
Lemma exec_hexists_same d args : snd (exec_hexists d args) = d. Proof. unfold exec_hexists. snd_same. Qed.
Lemma exec_hstrlen_same d args : snd (exec_hstrlen d args) = d. Proof. unfold exec_hstrlen. snd_same. Qed.

Lemma some_pair_snd {A C} (x : A * C) r d' : Some x = Some (r, d') -> d' = snd x.
Proof. intros H. inversion H; subst. reflexivity. Qed.

Theorem hashes_dispatch_read_same d now nowms n args hint r d' :
  hash_write_name n = false -> hashes_dispatch d now nowms n args hint = Some (r, d') -> d' = d.
Proof.
  unfold hashes_dispatch, hash_write_name. intros W H.
  destruct (is n (B "hset")); [cbn in W; discriminate W|].
  destruct (is n (B "hsetnx")); [cbn in W; discriminate W|].
  destruct (is n (B "hget")); [apply some_pair_snd in H; rewrite H; apply exec_hget_same|].
  destruct (is n (B "hmget")); [apply some_pair_snd in H; rewrite H; apply exec_hmget_same|].
  destruct (is n (B "hgetall")); [apply some_pair_snd in H; rewrite H; apply exec_hgetall_same|].
  destruct (is n (B "hkeys")); [apply some_pair_snd in H; rewrite H; apply exec_hkeys_same|].
  destruct (is n (B "hvals")); [apply some_pair_snd in H; rewrite H; apply exec_hvals_same|].
  destruct (is n (B "hlen")); [apply some_pair_snd in H; rewrite H; apply exec_hlen_same|].
  destruct (is n (B "hexists")); [apply some_pair_snd in H; rewrite H; apply exec_hexists_same|].
  destruct (is n (B "hstrlen")); [apply some_pair_snd in H; rewrite H; apply exec_hstrlen_same|].
  destruct (is n (B "hdel")); [cbn in W; discriminate W|].
  destruct (is n (B "hincrby")); [cbn in W; discriminate W|].
  destruct (is n (B "hincrbyfloat")); [cbn in W; discriminate W|].
  destruct (is n (B "hrandfield")); [apply some_pair_snd in H; rewrite H; apply exec_hrandfield_same|].
  discriminate.
Qed.

(* ------------------------------------------------------------------ programs of hash commands *)
(* one command: clock in s and ms, argument vector, observed reply (consulted by HRANDFIELD and by
   HINCRBYFLOAT outside its exact domain only) *)
Record hcmd := mkH { c_now : Z; c_nowms : Z; c_args : list bytes; c_hint : reply }.

(* as Exec.exec restricted to this family: expired keys are purged first, names are matched in
   lower case, anything that is not a hash command is answered with an error *)
Definition hstep (d : db) (c : hcmd) : reply * db :=
  let d0 := purge d (c_now c) in
  match c_args c with
  | [] => (err_other, d0)
  | name :: _ =>
    match hashes_dispatch d0 (c_now c) (c_nowms c) (lower name) (c_args c) (c_hint c) with
    | Some res => res
    | None => (err_other, d0)
    end
  end.

Definition hrun (d : db) (p : list hcmd) : db := fold_left (fun d c => snd (hstep d c)) p d.

Lemma hstep_cases d c :
  hstep d c = (err_other, purge d (c_now c)) \/
  exists name rest r d', c_args c = name :: rest /\
    hashes_dispatch (purge d (c_now c)) (c_now c) (c_nowms c) (lower name) (c_args c) (c_hint c) = Some (r, d') /\
    hstep d c = (r, d').
Proof.
  unfold hstep. destruct (c_args c) as [|name rest] eqn:A; [left; reflexivity|].
  destruct (hashes_dispatch (purge d (c_now c)) (c_now c) (c_nowms c) (lower name) (name :: rest) (c_hint c))
    as [[r d']|] eqn:E; [|left; reflexivity].
  right. exists name, rest, r, d'. repeat split; assumption.
Qed.

Lemma hstep_wf d c : db_wf d -> db_wf (snd (hstep d c)).
Proof.
  intros W. destruct (hstep_cases d c) as [E|(name & rest & r & d' & A & H & E)]; rewrite E; cbn [snd].
  - apply db_wf_purge. exact W.
  - eapply hashes_dispatch_wf_pres; [|exact H]. apply db_wf_purge. exact W.
Qed.

Lemma hstep_ok d c : hashes_ok d -> hashes_ok (snd (hstep d c)).
Proof.
  intros W. destruct (hstep_cases d c) as [E|(name & rest & r & d' & A & H & E)]; rewrite E; cbn [snd].
  - apply hashes_ok_purge. exact W.
  - eapply hashes_dispatch_ok_pres; [|exact H]. apply hashes_ok_purge. exact W.
Qed.

Lemma hstep_reply_wf d c : reply_wf (fst (hstep d c)) = true.
Proof.
  destruct (hstep_cases d c) as [E|(name & rest & r & d' & A & H & E)]; rewrite E; cbn [fst].
  - reflexivity.
  - eapply hashes_dispatch_reply_wf. exact H.
Qed.

Theorem hrun_invariants p : forall d, db_wf d -> hashes_ok d -> db_wf (hrun d p) /\ hashes_ok (hrun d p).
Proof.
  induction p as [|c p IH]; intros d W OK; cbn; [split; assumption|].
  apply IH; [apply hstep_wf|apply hstep_ok]; assumption.
Qed.

(* ------------------------------------------------------------------ deadlines *)
Definition before_deadline (d : db) (k : bytes) (t : Z) : Prop :=
  match db_ttl d k with Some dl => t < dl | None => True end.

Lemma purge_alive d k t : db_wf d -> before_deadline d k t ->
  db_get (purge d t) k = db_get d k /\ db_ttl (purge d t) k = db_ttl d k.
Proof.
  intros W BD. rewrite db_get_purge, db_ttl_purge by exact W.
  unfold before_deadline in BD. unfold expired. destruct (db_ttl d k) as [dl|]; [|split; reflexivity].
  destruct (dl <=? t) eqn:E; [lia|split; reflexivity].
Qed.

(* an expired hash is a missing key for every hash command *)
Lemma expired_is_missing d now k : expired d now k = true -> get_hash (purge d now) k = HMissing.
Proof. intros E. unfold get_hash. rewrite db_get_purge, E. reflexivity. Qed.

(* ------------------------------------------------------------------ the abstract map and the frame *)
Lemma hash_at_of d k h : hash_or_empty d k = Some h -> hash_at d k = h.
Proof.
  unfold hash_or_empty, get_hash, hash_at. destruct (db_get d k) as [v|]; [destruct v|];
    intros H; inversion H; reflexivity.
Qed.
Lemma hash_at_found d k h : get_hash d k = HFound h -> hash_at d k = h.
Proof.
  unfold get_hash, hash_at. destruct (db_get d k) as [v|]; [destruct v|]; intros H; inversion H; reflexivity.
Qed.
Lemma hash_at_set d k h : hash_at (db_set d k (VHash h)) k = h.
Proof. unfold hash_at. rewrite db_get_set_same. reflexivity. Qed.
Lemma hash_at_put d k h : hash_at (put_hash d k h) k = h.
Proof.
  unfold hash_at, put_hash. destruct h; [rewrite db_get_del_same|rewrite db_get_set_same]; reflexivity.
Qed.

Lemma raw_view_get d d' k : raw_view d' k = raw_view d k -> db_get d' k = db_get d k.
Proof.
  unfold raw_view. destruct (db_get d' k), (db_get d k); intros H; inversion H; reflexivity.
Qed.
Lemma raw_view_ttl d d' k : raw_view d' k = raw_view d k -> db_get d k <> None -> db_ttl d' k = db_ttl d k.
Proof.
  unfold raw_view. destruct (db_get d' k), (db_get d k); intros H N; inversion H; congruence.
Qed.

Lemma hfield_some_get d k f v : hfield d k f = Some v -> db_get d k <> None.
Proof.
  unfold hfield, hview, hash_at. destruct (db_get d k); [discriminate|]. cbn. discriminate.
Qed.

(* a field that is not named by the command, or that lives under another key, keeps its value *)
Lemma hres_untouched d k fs r d' k0 f :
  hres d k fs r d' -> (k0 <> k \/ ~ In f fs) -> hfield d' k0 f = hfield d k0 f.
Proof.
  intros H C. destruct (bytes_eq_dec k0 k) as [->|N].
  - destruct C as [C|C]; [contradiction|].
    destruct H as [|r h h' Hh Hne Hr Hn Hd Hf|r h h' Hh Hne Hr Hd Hf]; [reflexivity| |]; unfold hfield, hview.
    + rewrite hash_at_set, (hash_at_of _ _ _ Hh). apply Hf. exact C.
    + rewrite hash_at_put, (hash_at_found _ _ _ Hh). apply Hf. exact C.
  - unfold hfield, hash_at. rewrite (raw_view_get d d' k0); [reflexivity|]. eapply hres_frame; eassumption.
Qed.

Theorem hashes_dispatch_untouched d now nowms n args hint r d' k0 f :
  hashes_dispatch d now nowms n args hint = Some (r, d') ->
  (k0 <> key_of args \/ ~ In f (fields_of args)) -> hfield d' k0 f = hfield d k0 f.
Proof. intros H C. eapply hres_untouched; [eapply hashes_dispatch_hres; exact H|exact C]. Qed.

(* ------------------------------------------------------------------ a field survives every program that does not write it *)
Definition touches (c : hcmd) (k f : bytes) : bool :=
  match c_args c with
  | name :: _ => hash_write_name (lower name) && bytes_eqb (key_of (c_args c)) k
                 && existsb (bytes_eqb f) (fields_of (c_args c))
  | [] => false
  end.

Lemma hfield_purge_alive d k f t : db_wf d -> before_deadline d k t -> hfield (purge d t) k f = hfield d k f.
Proof.
  intros W BD. unfold hfield, hash_at. destruct (purge_alive d k t W BD) as [G _]. rewrite G. reflexivity.
Qed.

Lemma hstep_untouched d c k f v :
  db_wf d -> touches c k f = false -> before_deadline d k (c_now c) -> hfield d k f = Some v ->
  hfield (snd (hstep d c)) k f = Some v /\ db_ttl (snd (hstep d c)) k = db_ttl d k.
Proof.
  intros W T BD F.
  pose proof (hfield_purge_alive d k f (c_now c) W BD) as F0. rewrite F in F0.
  destruct (purge_alive d k (c_now c) W BD) as [G0 T0].
  destruct (hstep_cases d c) as [E|(name & rest & r & d' & A & H & E)]; rewrite E; cbn [snd].
  - split; assumption.
  - unfold touches in T. rewrite A in T. rewrite <- A in T.
    destruct (hash_write_name (lower name)) eqn:Wn.
    + assert (C : k <> key_of (c_args c) \/ ~ In f (fields_of (c_args c))).
      { cbn [andb] in T. destruct (bytes_eqb_spec (key_of (c_args c)) k) as [Ek|Nk].
        - right. cbn [andb] in T. intros Hin.
          assert (existsb (bytes_eqb f) (fields_of (c_args c)) = true) as X.
          { apply existsb_exists. exists f. split; [exact Hin|apply bytes_eqb_refl]. }
          congruence.
        - left. congruence. }
      pose proof (hashes_dispatch_untouched _ _ _ _ _ _ _ _ k f H C) as U. rewrite F0 in U.
      split; [exact U|]. rewrite <- T0.
      destruct (bytes_eq_dec k (key_of (c_args c))) as [Ek|Nk].
      * rewrite Ek. eapply hashes_dispatch_keeps_deadline; [exact H|]. rewrite <- Ek.
        eapply hfield_some_get. exact U.
      * apply raw_view_ttl.
        -- eapply hashes_dispatch_frame; [exact H|exact Nk].
        -- eapply hfield_some_get. exact F0.
    + assert (d' = purge d (c_now c)) as -> by (eapply hashes_dispatch_read_same; eassumption).
      split; assumption.
Qed.

Lemma hrun_untouched q : forall d k f v T,
  db_wf d -> hfield d k f = Some v -> db_ttl d k = T ->
  (forall c, In c q -> touches c k f = false /\ match T with Some dl => c_now c < dl | None => True end) ->
  db_wf (hrun d q) /\ hfield (hrun d q) k f = Some v /\ db_ttl (hrun d q) k = T.
Proof.
  induction q as [|c q IH]; intros d k f v T W F ET HQ; cbn [hrun fold_left]; [split; [|split]; assumption|].
  destruct (HQ c (or_introl eq_refl)) as [Tc Bc].
  assert (BD : before_deadline d k (c_now c)) by (unfold before_deadline; rewrite ET; exact Bc).
  destruct (hstep_untouched d c k f v W Tc BD F) as [F' T'].
  apply IH; [apply hstep_wf; exact W|exact F'|congruence|].
  intros c0 Hin. apply HQ. right. exact Hin.
Qed.

(* ------------------------------------------------------------------ per-command clauses *)
Lemma dispatch_hset d now nowms args hint : hashes_dispatch d now nowms (B "hset") args hint = Some (exec_hset d args).
Proof. reflexivity. Qed.
Lemma dispatch_hget d now nowms args hint : hashes_dispatch d now nowms (B "hget") args hint = Some (exec_hget d args).
Proof. reflexivity. Qed.

(* HSET with any number of pairs *)
Theorem exec_hset_spec d c k fvs ps h :
  pairs_of fvs = Some ps -> ps <> [] -> hash_or_empty d k = Some h ->
  exists h',
    exec_hset d (c :: k :: fvs) = (RInt (zlength h' - zlength h), db_set d k (VHash h')) /\
    (forall f, hview h' f = match alookup f (rev ps) with Some v => Some v | None => hview h f end) /\
    (NoDup (akeys h) -> NoDup (akeys h')) /\ h' <> [].
Proof.
  intros P Hps H. exists (fst (hset_all h ps 0)).
  assert (Sh : exists a b r, fvs = a :: b :: r).
  { destruct fvs as [|a [|b r]]; cbn in P; [inversion P; subst; congruence|discriminate|eauto]. }
  destruct Sh as (a & b & r & ->). unfold exec_hset. rewrite P, H.
  destruct (hset_all h ps 0) as [h' n] eqn:S. cbn [fst].
  pose proof (hset_all_count ps h 0) as Cn. rewrite S in Cn. cbn [fst snd] in Cn.
  repeat split.
  - f_equal. f_equal. lia.
  - intros f. unfold hview. change h' with (fst (h', n)). rewrite <- S. apply hset_all_lookup.
  - intros ND. change h' with (fst (h', n)). rewrite <- S. apply hset_all_nodup. exact ND.
  - change h' with (fst (h', n)). rewrite <- S. apply hset_all_nonempty. exact Hps.
Qed.

Lemma exec_hset_one d c k f v h : hash_or_empty d k = Some h ->
  exec_hset d [c; k; f; v] = (RInt (if amem f h then 0 else 1), db_set d k (VHash (aset f v h))).
Proof. intros H. unfold exec_hset. cbn [pairs_of]. rewrite H. cbn [hset_all]. destruct (amem f h); reflexivity. Qed.

Lemma exec_hset_noerr d c k f v : is_err (fst (exec_hset d [c; k; f; v])) = false ->
  exists h, hash_or_empty d k = Some h.
Proof.
  unfold exec_hset. cbn [pairs_of]. destruct (hash_or_empty d k) as [h|]; [eauto|]. cbn. discriminate.
Qed.

Lemma exec_hget_spec d c k f h : hash_or_empty d k = Some h -> exec_hget d [c; k; f] = (bulk_opt (hview h f), d).
Proof. intros H. unfold exec_hget. rewrite H. reflexivity. Qed.

Lemma hash_or_empty_of_field d k f v : hfield d k f = Some v -> hash_or_empty d k = Some (hash_at d k).
Proof.
  unfold hfield, hview, hash_at, hash_or_empty, get_hash.
  destruct (db_get d k) as [x|]; [destruct x|]; cbn; try discriminate. reflexivity.
Qed.

(* ------------------------------------------------------------------ last write wins, over arbitrary programs *)
Theorem last_write_wins d p k f v t tms c0 hint0 q t' tms' c1 hint1 r d2 :
  db_wf d ->
  lower c0 = B "hset" -> lower c1 = B "hget" ->
  hstep (hrun d p) (mkH t tms [c0; k; f; v] hint0) = (r, d2) ->
  is_err r = false ->
  (forall c, In c q -> touches c k f = false /\ before_deadline d2 k (c_now c)) ->
  before_deadline d2 k t' ->
  fst (hstep (hrun d2 q) (mkH t' tms' [c1; k; f] hint1)) = RBulk v.
Proof.
  intros W L0 L1 S NE HQ BD'.
  assert (W1 : db_wf (hrun d p)).
  { clear - W. revert d W. induction p as [|c p IH]; intros d W; cbn; [exact W|]. apply IH. apply hstep_wf. exact W. }
  assert (W2 : db_wf d2) by (change d2 with (snd (r, d2)); rewrite <- S; apply hstep_wf; exact W1).
  assert (F2 : hfield d2 k f = Some v).
  { unfold hstep in S. cbn [c_args c_now c_nowms c_hint] in S. rewrite L0, dispatch_hset in S.
    assert (NE' : is_err (fst (exec_hset (purge (hrun d p) t) [c0; k; f; v])) = false) by (rewrite S; exact NE).
    destruct (exec_hset_noerr _ _ _ _ _ NE') as [h Hh].
    rewrite (exec_hset_one _ _ _ _ _ _ Hh) in S. inversion S; subst.
    unfold hfield, hview. rewrite hash_at_set. apply alookup_aset_same. }
  destruct (hrun_untouched q d2 k f v (db_ttl d2 k) W2 F2 eq_refl) as (W3 & F3 & T3).
  { intros c Hin. destruct (HQ c Hin) as [Tc Bc]. split; [exact Tc|]. exact Bc. }
  assert (BD3 : before_deadline (hrun d2 q) k t') by (unfold before_deadline in *; rewrite T3; exact BD').
  unfold hstep. cbn [c_args c_now c_nowms c_hint]. rewrite L1, dispatch_hget.
  pose proof (hfield_purge_alive (hrun d2 q) k f t' W3 BD3) as F4. rewrite F3 in F4.
  rewrite (exec_hget_spec _ _ _ _ _ (hash_or_empty_of_field _ _ _ _ F4)). cbn [fst].
  unfold hfield in F4. rewrite F4. reflexivity.
Qed.

(* ------------------------------------------------------------------ remaining per-command clauses *)
Theorem exec_hsetnx_spec d c k f v h : hash_or_empty d k = Some h ->
  exec_hsetnx d [c; k; f; v] =
  if amem f h then (RInt 0, d) else (RInt 1, db_set d k (VHash (aset f v h))).
Proof. intros H. unfold exec_hsetnx. rewrite H. destruct (amem f h); reflexivity. Qed.

Theorem exec_hmget_spec d c k f fs h : hash_or_empty d k = Some h ->
  exec_hmget d (c :: k :: f :: fs) = (RArr (map (fun x => bulk_opt (hview h x)) (f :: fs)), d).
Proof. intros H. unfold exec_hmget. rewrite H. reflexivity. Qed.

Theorem exec_reads_spec d c k f h : hash_or_empty d k = Some h ->
  exec_hgetall d [c; k] = (RArr (flat_pairs h), d) /\
  exec_hkeys d [c; k] = (RArr (map (fun p => RBulk (fst p)) h), d) /\
  exec_hvals d [c; k] = (RArr (map (fun p => RBulk (snd p)) h), d) /\
  exec_hlen d [c; k] = (RInt (zlength h), d) /\
  exec_hexists d [c; k; f] = (RInt (if hview h f then 1 else 0), d) /\
  exec_hstrlen d [c; k; f] = (RInt (match hview h f with Some v => zlength v | None => 0 end), d).
Proof.
  intros H. unfold exec_hgetall, exec_hkeys, exec_hvals, exec_hlen, exec_hexists, exec_hstrlen, hview, amem.
  rewrite H. repeat split; destruct (alookup f h); reflexivity.
Qed.

Lemma alookup_all_none {A} (l : list (bytes * A)) : (forall f, alookup f l = None) -> l = [].
Proof.
  destruct l as [|[k v] r]; [reflexivity|]. intros H. specialize (H k). cbn in H.
  rewrite bytes_eqb_refl in H. discriminate.
Qed.

(* HDEL: the reply counts the fields that existed, exactly those are gone, and a hash left
   without fields ceases to exist together with its deadline *)
Theorem exec_hdel_spec d c k f fs h :
  get_hash d k = HFound h -> NoDup (akeys h) ->
  exists h',
    exec_hdel d (c :: k :: f :: fs) = (RInt (zlength h - zlength h'), put_hash d k h') /\
    (forall x, hview h' x = if existsb (bytes_eqb x) (f :: fs) then None else hview h x) /\
    (h' = [] -> db_get (put_hash d k h') k = None /\ db_ttl (put_hash d k h') k = None) /\
    ((forall x, hview h x <> None -> In x (f :: fs)) -> h' = []).
Proof.
  intros H ND. exists (fst (hdel_all h (f :: fs) 0)). unfold exec_hdel. rewrite H.
  destruct (hdel_all h (f :: fs) 0) as [h' n] eqn:S. cbn [fst].
  pose proof (hdel_all_count (f :: fs) h 0 ND) as Cn. rewrite S in Cn. cbn [fst snd] in Cn.
  assert (L : forall x, alookup x h' = if existsb (bytes_eqb x) (f :: fs) then None else alookup x h).
  { intros x. change h' with (fst (h', n)). rewrite <- S. apply hdel_all_lookup. }
  split; [|split; [|split]].
  - f_equal. f_equal. lia.
  - exact L.
  - intros ->. cbn [put_hash]. split; [apply db_get_del_same|apply db_ttl_del_same].
  - intros All. apply alookup_all_none. intros x. rewrite L.
    destruct (existsb (bytes_eqb x) (f :: fs)) eqn:E; [reflexivity|].
    destruct (alookup x h) eqn:Lx; [|reflexivity]. exfalso.
    assert (In x (f :: fs)) as Hin by (apply All; unfold hview; rewrite Lx; discriminate).
    assert (existsb (bytes_eqb x) (f :: fs) = true) as X.
    { apply existsb_exists. exists x. split; [exact Hin|apply bytes_eqb_refl]. }
    congruence.
Qed.

(* HINCRBY: exact integer addition, or an error that changes nothing *)
Theorem exec_hincrby_spec d c k f n h delta : hash_or_empty d k = Some h -> atoi64 n = Some delta ->
  exec_hincrby d [c; k; f; n] =
  match hview h f with
  | None => (RInt delta, db_set d k (VHash (aset f (z_to_dec delta) h)))
  | Some b =>
    match atoi64 b with
    | None => (err_other, d)
    | Some x => if in_int64 (x + delta)
                then (RInt (x + delta), db_set d k (VHash (aset f (z_to_dec (x + delta)) h)))
                else (err_other, d)
    end
  end.
Proof. intros H A. unfold exec_hincrby, hview. rewrite A, H. reflexivity. Qed.

Theorem exec_hincrby_badarg d c k f n : atoi64 n = None -> exec_hincrby d [c; k; f; n] = (err_other, d).
Proof. intros A. unfold exec_hincrby. rewrite A. reflexivity. Qed.

(* a key of another type: every hash command answers with an error and changes nothing *)
Ltac wrong_err :=
  repeat match goal with
  | |- context [match ?x with _ => _ end] =>
    destruct x eqn:?; try reflexivity; try congruence; try (cbn [nth] in *; congruence)
  end.

Theorem hashes_dispatch_wrongtype d now nowms n args hint r d' :
  hash_or_empty d (key_of args) = None ->
  hashes_dispatch d now nowms n args hint = Some (r, d') -> is_err r = true /\ d' = d.
Proof.
  intros HW H.
  assert (E : is_err r = true).
  { assert (GW : get_hash d (key_of args) = HWrong).
    { unfold hash_or_empty in HW. destruct (get_hash d (key_of args)); try discriminate. reflexivity. }
    unfold hashes_dispatch in H. unfold key_of in HW, GW.
    repeat match type of H with
    | (if ?c then _ else _) = _ => destruct c
    end; try discriminate; inversion H as [E]; clear H;
    match type of E with ?res = (r, d') => assert (R1 : r = fst res) by (rewrite E; reflexivity); rewrite R1 end;
    clear E R1.
    - unfold exec_hset. wrong_err.
    - unfold exec_hsetnx. wrong_err.
    - unfold exec_hget. wrong_err.
    - unfold exec_hmget. wrong_err.
    - unfold exec_hgetall. wrong_err.
    - unfold exec_hkeys. wrong_err.
    - unfold exec_hvals. wrong_err.
    - unfold exec_hlen. wrong_err.
    - unfold exec_hexists. wrong_err.
    - unfold exec_hstrlen. wrong_err.
    - unfold exec_hdel. wrong_err.
    - unfold exec_hincrby. wrong_err.
    - unfold exec_hincrbyfloat. wrong_err.
    - unfold exec_hrandfield. wrong_err. }
  split; [exact E|]. eapply hashes_dispatch_error_unchanged; eassumption.
Qed.

(* ------------------------------------------------------------------ the empty value is a value *)
Theorem empty_value_distinct d c k f c1 c2 c3 r d' :
  exec_hset d [c; k; f; []] = (r, d') -> is_err r = false ->
  exec_hget d' [c1; k; f] = (RBulk [], d') /\
  exec_hexists d' [c2; k; f] = (RInt 1, d') /\
  exec_hstrlen d' [c3; k; f] = (RInt 0, d') /\
  hfield d' k f = Some [] /\ RBulk [] <> RNil.
Proof.
  intros E NE.
  assert (NE' : is_err (fst (exec_hset d [c; k; f; []])) = false) by (rewrite E; exact NE).
  destruct (exec_hset_noerr _ _ _ _ _ NE') as [h Hh].
  rewrite (exec_hset_one _ _ _ _ _ _ Hh) in E. inversion E; subst. clear E.
  set (d' := db_set d k (VHash (aset f [] h))).
  assert (F : hfield d' k f = Some []).
  { unfold hfield, hview, d'. rewrite hash_at_set. apply alookup_aset_same. }
  pose proof (hash_or_empty_of_field _ _ _ _ F) as H'.
  destruct (exec_reads_spec d' c2 k f _ H') as (_ & _ & _ & _ & Ex & _).
  destruct (exec_reads_spec d' c3 k f _ H') as (_ & _ & _ & _ & _ & Sl).
  pose proof F as F'. unfold hfield in F'. rewrite F' in Ex, Sl.
  split; [|split; [|split; [|split]]].
  - rewrite (exec_hget_spec _ _ _ _ _ H'). rewrite F'. reflexivity.
  - exact Ex.
  - exact Sl.
  - exact F.
  - discriminate.
Qed.

(* ------------------------------------------------------------------ HINCRBYFLOAT *)
Lemma uint_digits u : forallb is_digit (uint_to_bytes u) = true.
Proof. induction u; cbn [uint_to_bytes forallb]; try rewrite IHu; reflexivity. Qed.
Lemma n_to_dec_digits n : forallb is_digit (n_to_dec n) = true.
Proof. apply uint_digits. Qed.
Lemma zero_chars_digits j : forallb is_digit (zero_chars j) = true.
Proof. induction j; cbn [zero_chars forallb]; [reflexivity|]. rewrite IHj. reflexivity. Qed.

Lemma digit_not_dot c : is_digit c = true -> beqb c "."%byte = false.
Proof.
  intros H. destruct (beqb_spec c "."%byte) as [->|N]; [|reflexivity]. discriminate H.
Qed.

Lemma digits_val_some s : forall acc, forallb is_digit s = true -> exists z, digits_val s acc = Some z.
Proof.
  induction s as [|c r IH]; intros acc H; cbn [digits_val]; [eauto|].
  cbn [forallb] in H. apply andb_true_iff in H as [H1 H2]. rewrite H1. apply IH. exact H2.
Qed.

Lemma split_dot_digits s : forallb is_digit s = true -> split_dot s = (s, None).
Proof.
  induction s as [|c r IH]; intros H; cbn [split_dot]; [reflexivity|].
  cbn [forallb] in H. apply andb_true_iff in H as [H1 H2].
  rewrite (digit_not_dot c H1), (IH H2). reflexivity.
Qed.

Lemma split_dot_mid a b : forallb is_digit a = true -> split_dot (a ++ "."%byte :: b) = (a, Some b).
Proof.
  induction a as [|c r IH]; intros H; cbn [split_dot app]; [reflexivity|].
  cbn [forallb] in H. apply andb_true_iff in H as [H1 H2].
  rewrite (digit_not_dot c H1), (IH H2). reflexivity.
Qed.

Lemma parse_dec_digit_head c r : is_digit c = true ->
  parse_dec (c :: r) = match parse_udecimal (c :: r) with Some (m, e) => Some (false, m, e) | None => None end.
Proof. intros H. destruct c; try reflexivity; discriminate H. Qed.

(* what HINCRBYFLOAT prints is a plain finite decimal *)
Lemma parse_udecimal_fmt s e : s <> [] -> forallb is_digit s = true ->
  let s' := zero_chars (N.to_nat e + 1 - List.length s) ++ s in
  let k := (List.length s' - N.to_nat e)%nat in
  (exists z, parse_udecimal s = Some (z, 0%N)) /\
  (exists z, parse_udecimal (firstn k s' ++ "."%byte :: skipn k s') = Some (z, N.of_nat (List.length (skipn k s')))).
Proof.
  intros Hne Hd s' k. split.
  - unfold parse_udecimal. rewrite (split_dot_digits s Hd).
    destruct s as [|c r]; [congruence|]. destruct (digits_val_some (c :: r) 0 Hd) as [z Hz].
    rewrite Hz. eauto.
  - assert (Hd' : forallb is_digit s' = true).
    { unfold s'. rewrite forallb_app, zero_chars_digits, Hd. reflexivity. }
    assert (Hf : forallb is_digit (firstn k s') = true).
    { rewrite <- (firstn_skipn k s') in Hd'. rewrite forallb_app in Hd'. apply andb_true_iff in Hd' as [X _]. exact X. }
    unfold parse_udecimal. rewrite (split_dot_mid _ _ Hf). rewrite (firstn_skipn k s').
    assert (Hne' : s' <> []).
    { unfold s'. intros E. apply app_eq_nil in E as [_ E]. congruence. }
    destruct s' as [|c r] eqn:Es; [congruence|]. destruct (digits_val_some (c :: r) 0 Hd') as [z Hz].
    rewrite Hz. eauto.
Qed.

Theorem fmt_dec_is_decimal m e : parse_dec (fmt_dec m e) <> None.
Proof.
  unfold fmt_dec.
  set (s := n_to_dec (Z.to_N (Z.abs m))).
  assert (Hne : s <> []) by apply n_to_dec_nonempty.
  assert (Hd : forallb is_digit s = true) by apply n_to_dec_digits.
  destruct (parse_udecimal_fmt s e Hne Hd) as [[z0 P0] [z1 P1]].
  set (s' := zero_chars (N.to_nat e + 1 - List.length s) ++ s) in *.
  set (k := (List.length s' - N.to_nat e)%nat) in *.
  assert (Hd' : forallb is_digit s' = true).
  { unfold s'. rewrite forallb_app, zero_chars_digits, Hd. reflexivity. }
  assert (Hk : (e =? 0)%N = false -> (1 <= k)%nat).
  { intros E. apply N.eqb_neq in E. unfold k.
    assert (N.to_nat e + 1 <= List.length s')%nat; [|lia].
    unfold s'. rewrite app_length. assert (L : List.length (zero_chars (N.to_nat e + 1 - List.length s)) = (N.to_nat e + 1 - List.length s)%nat).
    { generalize (N.to_nat e + 1 - List.length s)%nat. induction n; cbn; [reflexivity|f_equal; exact IHn]. }
    rewrite L. lia. }
  destruct (m <? 0).
  - (* "-" :: body *)
    destruct (e =? 0)%N; cbn [parse_dec]; [rewrite P0|rewrite P1]; discriminate.
  - destruct (e =? 0)%N eqn:E0.
    + destruct s as [|c r] eqn:Es; [congruence|]. cbn [forallb] in Hd. apply andb_true_iff in Hd as [Hc _].
      rewrite (parse_dec_digit_head c r Hc), P0. discriminate.
    + specialize (Hk eq_refl).
      destruct s' as [|c r] eqn:Es'; [cbn in Hk; destruct k; cbn in Hk; lia|].
      destruct k as [|k']; [lia|]. cbn [firstn app].
      cbn [forallb] in Hd'. apply andb_true_iff in Hd' as [Hc _].
      rewrite (parse_dec_digit_head c _ Hc). cbn [firstn app] in P1. rewrite P1. discriminate.
Qed.

(* the classification reads the decimal faithfully *)
Lemma fclassify_dec a m e : fclassify a = FDec m e ->
  exists neg mag, parse_dec a = Some (neg, mag, e) /\ m = (if neg then - mag else mag) /\ dec_in_dom mag e = true.
Proof.
  unfold fclassify. destruct (negb (existsb is_digit a) || negb (forallb float_char a)); [discriminate|].
  destruct (parse_dec a) as [[[neg mag] e0]|]; [|destruct (forallb plain_char a); discriminate].
  destruct (dec_in_dom mag e0) eqn:D; cbn [andb]; [|discriminate].
  destruct (negb (neg && (mag =? 0))); [|discriminate].
  intros H. inversion H; subst. exists neg, mag. repeat split. exact D.
Qed.

(* nan, inf, infinity (any case, any sign), the empty string: no decimal digit => rejected *)
Lemma fclassify_no_digit a : existsb is_digit a = false -> fclassify a = FBad.
Proof. intros H. unfold fclassify. rewrite H. reflexivity. Qed.

(* trailing zeros are dropped without changing the value *)
Lemma strip_zeros_value fuel : forall m e,
  (snd (strip_zeros fuel m e) <= e)%N /\
  m = fst (strip_zeros fuel m e) * pow10 (e - snd (strip_zeros fuel m e)).
Proof.
  induction fuel as [|fuel IH]; intros m e; cbn [strip_zeros].
  - cbn [fst snd]. split; [lia|]. rewrite N.sub_diag. unfold pow10. cbn. lia.
  - destruct ((0 <? e)%N && (m mod 10 =? 0)) eqn:C.
    + apply andb_true_iff in C as [C1 C2]. apply N.ltb_lt in C1. apply Z.eqb_eq in C2.
      destruct (IH (m / 10) (N.pred e)) as [L V]. split; [lia|].
      set (m' := fst (strip_zeros fuel (m / 10) (N.pred e))) in *.
      set (e' := snd (strip_zeros fuel (m / 10) (N.pred e))) in *.
      assert (E10 : m = 10 * (m / 10)) by (pose proof (Z.div_mod m 10); lia).
      rewrite E10 at 1. rewrite V at 1.
      replace (e - e')%N with (N.succ (N.pred e - e')) by lia.
      unfold pow10. rewrite N2Z.inj_succ, Z.pow_succ_r by lia. lia.
    + cbn [fst snd]. split; [lia|]. rewrite N.sub_diag. unfold pow10. cbn. lia.
Qed.

(* the numerators add exactly at the common scale *)
Theorem dec_add_exact m1 e1 m2 e2 :
  let E := N.max e1 e2 in
  let r := dec_add m1 e1 m2 e2 in
  (snd r <= E)%N /\ fst r * pow10 (E - snd r) = m1 * pow10 (E - e1) + m2 * pow10 (E - e2).
Proof.
  cbv zeta. unfold dec_add, dec_norm.
  destruct (strip_zeros_value (N.to_nat (N.max e1 e2)) (m1 * pow10 (N.max e1 e2 - e1) + m2 * pow10 (N.max e1 e2 - e2)) (N.max e1 e2)) as [L V].
  split; [exact L|]. symmetry. exact V.
Qed.

(* on the exact domain the new value is the decimal sum, printed; the field is set to what is replied *)
Theorem exec_hincrbyfloat_exact d c k f a h b m e m0 e0 hint :
  hash_or_empty d k = Some h -> hview h f = Some b ->
  fclassify a = FDec m e -> fclassify b = FDec m0 e0 ->
  let s := dec_add m0 e0 m e in
  let s' := dec_norm (fst s) (snd s) in
  dec_in_dom (fst s') (snd s') = true ->
  exec_hincrbyfloat d [c; k; f; a] hint =
  (RBulk (fmt_dec (fst s') (snd s')), db_set d k (VHash (aset f (fmt_dec (fst s') (snd s')) h))).
Proof.
  intros H F A Bc s s' D. unfold exec_hincrbyfloat. unfold hview in F. rewrite A, H, F, Bc.
  fold s. destruct s as [m1 e1] eqn:Es. unfold hfloat_store. cbn [fst snd] in s'.
  fold s'. destruct s' as [m2 e2] eqn:Es'. cbn [fst snd] in D. rewrite D. reflexivity.
Qed.

Theorem exec_hincrbyfloat_new d c k f a h m e hint :
  hash_or_empty d k = Some h -> hview h f = None -> fclassify a = FDec m e ->
  let s' := dec_norm m e in
  dec_in_dom (fst s') (snd s') = true ->
  exec_hincrbyfloat d [c; k; f; a] hint =
  (RBulk (fmt_dec (fst s') (snd s')), db_set d k (VHash (aset f (fmt_dec (fst s') (snd s')) h))).
Proof.
  intros H F A s' D. unfold exec_hincrbyfloat. unfold hview in F. rewrite A, H, F.
  unfold hfloat_store. fold s'. destruct s' as [m2 e2] eqn:Es'. cbn [fst snd] in D. rewrite D. reflexivity.
Qed.

(* whatever the arguments, the stored value and the observation: HINCRBYFLOAT either answers
   with an error and changes nothing, or answers with a plain finite decimal and stores exactly
   that decimal in the field -- NaN and infinities are never stored *)
Lemma hfloat_follow_finite d k f h hint :
  let res := hfloat_follow d k f h hint in
  (is_err (fst res) = true /\ snd res = d) \/
  (exists b, fst res = RBulk b /\ parse_dec b <> None /\ snd res = db_set d k (VHash (aset f b h))).
Proof.
  unfold hfloat_follow. destruct hint; try (left; split; reflexivity).
  destruct (parse_dec b) eqn:P; [|left; split; reflexivity].
  right. exists b. repeat split. congruence.
Qed.

Lemma hfloat_store_finite d k f h m e hint :
  let res := hfloat_store d k f h m e hint in
  (is_err (fst res) = true /\ snd res = d) \/
  (exists b, fst res = RBulk b /\ parse_dec b <> None /\ snd res = db_set d k (VHash (aset f b h))).
Proof.
  unfold hfloat_store. destruct (dec_norm m e) as [m' e'].
  destruct (dec_in_dom m' e'); [|apply hfloat_follow_finite].
  right. exists (fmt_dec m' e'). repeat split. apply fmt_dec_is_decimal.
Qed.

Theorem exec_hincrbyfloat_finite_or_rejected d c k f a hint :
  let res := exec_hincrbyfloat d [c; k; f; a] hint in
  (is_err (fst res) = true /\ snd res = d) \/
  (exists b h, fst res = RBulk b /\ parse_dec b <> None /\ hash_or_empty d k = Some h /\
               snd res = db_set d k (VHash (aset f b h))).
Proof.
  unfold exec_hincrbyfloat.
  assert (Lift : forall h (res : reply * db), hash_or_empty d k = Some h ->
    ((is_err (fst res) = true /\ snd res = d) \/
     (exists b, fst res = RBulk b /\ parse_dec b <> None /\ snd res = db_set d k (VHash (aset f b h)))) ->
    (is_err (fst res) = true /\ snd res = d) \/
    (exists b h, fst res = RBulk b /\ parse_dec b <> None /\ hash_or_empty d k = Some h /\
                 snd res = db_set d k (VHash (aset f b h)))).
  { intros h res Hh [L|(b & R1 & R2 & R3)]; [left; exact L|right; exists b, h; repeat split; assumption]. }
  destruct (fclassify a) as [m e| |]; [|left; split; reflexivity|].
  - destruct (hash_or_empty d k) as [h|] eqn:H; [|left; split; reflexivity].
    destruct (alookup f h) as [b|]; [|apply (Lift h _ eq_refl); apply hfloat_store_finite].
    destruct (fclassify b) as [m0 e0| |]; [|left; split; reflexivity|apply (Lift h _ eq_refl); apply hfloat_follow_finite].
    destruct (dec_add m0 e0 m e) as [m' e']. apply (Lift h _ eq_refl). apply hfloat_store_finite.
  - destruct (hash_or_empty d k) as [h|] eqn:H.
    + destruct (alookup f h) as [b|]; [|apply (Lift h _ eq_refl); apply hfloat_follow_finite].
      destruct (fclassify b); [apply (Lift h _ eq_refl); apply hfloat_follow_finite|left; split; reflexivity|
                               apply (Lift h _ eq_refl); apply hfloat_follow_finite].
    + left. destruct (hint_is_wrongtype hint); split; reflexivity.
Qed.

(* ------------------------------------------------------------------ HRANDFIELD *)
(* what the reference allows for a count: existing fields with their values; a non-negative count
   yields min(count, len) distinct fields, a negative count exactly |count| fields *)
Definition rand_ok (h : hash) (c : Z) (ps : list (bytes * bytes)) : Prop :=
  (forall f v, In (f, v) ps -> hview h f = Some v) /\
  (if 0 <=? c then NoDup (map fst ps) /\ zlength ps = Z.min c (zlength h) else zlength ps = - c).

Lemma nodupb_spec l : nodupb l = true -> NoDup l.
Proof.
  induction l as [|x r IH]; cbn; intros H; [constructor|].
  apply andb_true_iff in H as [H1 H2]. constructor; [|apply IH; exact H2].
  intros Hin. apply negb_true_iff in H1.
  assert (existsb (bytes_eqb x) r = true) as X; [|congruence].
  apply existsb_exists. exists x. split; [exact Hin|apply bytes_eqb_refl].
Qed.

Lemma NoDup_firstn {A} (l : list A) n : NoDup l -> NoDup (firstn n l).
Proof.
  revert n. induction l as [|x r IH]; intros n ND; destruct n; cbn; try constructor.
  - inversion ND as [|? ? Hn ND']; subst. intros Hin. apply Hn.
    rewrite <- (firstn_skipn n r). apply in_or_app. left. exact Hin.
  - inversion ND; subst. apply IH. assumption.
Qed.

Lemma In_firstn {A} (l : list A) n x : In x (firstn n l) -> In x l.
Proof. intros H. rewrite <- (firstn_skipn n l). apply in_or_app. left. exact H. Qed.

Lemma zlength_map {A C} (g : A -> C) l : zlength (map g l) = zlength l.
Proof. unfold zlength. rewrite map_length. reflexivity. Qed.

Lemma hrand_canon_ok h c : h <> [] -> NoDup (akeys h) -> rand_ok h c (hrand_canon h c).
Proof.
  intros Hne ND. unfold rand_ok, hrand_canon. destruct (0 <=? c) eqn:C.
  - apply Z.leb_le in C. split; [|split].
    + intros f v Hin. apply In_firstn in Hin. unfold hview. apply In_alookup; assumption.
    + rewrite <- firstn_map. apply NoDup_firstn. exact ND.
    + unfold zlength. rewrite firstn_length.
      pose proof (zlength_nonneg h) as P. unfold zlength in *.
      rewrite Nat2Z.inj_min, Z2Nat.id by lia. lia.
  - apply Z.leb_gt in C. destruct h as [|p r]; [congruence|]. split.
    + intros f v Hin. apply repeat_spec in Hin. subst p. unfold hview. apply In_alookup; [exact ND|left; reflexivity].
    + unfold zlength. rewrite repeat_length. lia.
Qed.

Lemma forallb_amem_lookup (h : hash) fs : forallb (fun f => amem f h) fs = true ->
  forall f, In f fs -> exists v, alookup f h = Some v.
Proof.
  intros H f Hin. rewrite forallb_forall in H. specialize (H f Hin). unfold amem in H.
  destruct (alookup f h); [eauto|discriminate].
Qed.

Lemma hrand_count_sound h c fs : hrand_count_ok h c fs = true ->
  if 0 <=? c then NoDup fs /\ zlength fs = Z.min c (zlength h) else zlength fs = - c.
Proof.
  unfold hrand_count_ok. destruct (0 <=? c).
  - intros H. apply andb_true_iff in H as [H1 H2]. split; [apply nodupb_spec; exact H1|apply Z.eqb_eq; exact H2].
  - intros H. apply Z.eqb_eq. exact H.
Qed.

(* for every observation the model's HRANDFIELD reply is one the reference allows *)
Theorem hrand_reply_sound h c wv hint : h <> [] -> NoDup (akeys h) ->
  exists ps, rand_ok h c ps /\
    hrand_reply h c wv hint = RArr (if wv then flat_pairs ps else map (fun p => RBulk (fst p)) ps).
Proof.
  intros Hne ND.
  assert (Canon : exists ps, rand_ok h c ps /\
    RArr (if wv then flat_pairs (hrand_canon h c) else map (fun p => RBulk (fst p)) (hrand_canon h c)) =
    RArr (if wv then flat_pairs ps else map (fun p => RBulk (fst p)) ps)).
  { exists (hrand_canon h c). split; [apply hrand_canon_ok; assumption|reflexivity]. }
  unfold hrand_reply. destruct hint; try exact Canon.
  destruct (bulks l) as [bs|]; [|exact Canon].
  destruct wv.
  - destruct (pairs_of bs) as [ps|]; [|exact Canon].
    destruct (hrand_pairs_ok h c ps) eqn:OK; [|exact Canon].
    exists ps. split; [|reflexivity].
    unfold hrand_pairs_ok in OK. apply andb_true_iff in OK as [O1 O2]. split.
    + intros f v Hin. rewrite forallb_forall in O1. specialize (O1 (f, v) Hin). unfold pair_in in O1.
      cbn [fst snd] in O1. unfold hview. destruct (alookup f h) as [v'|]; [|discriminate].
      apply bytes_eqb_eq in O1. congruence.
    + apply hrand_count_sound in O2. rewrite zlength_map in O2. exact O2.
  - destruct (hrand_fields_ok h c bs) eqn:OK; [|exact Canon].
    unfold hrand_fields_ok in OK. apply andb_true_iff in OK as [O1 O2].
    exists (map (fun f => (f, match alookup f h with Some v => v | None => [] end)) bs). split.
    + split.
      * intros f v Hin. apply in_map_iff in Hin as [f' [E Hin]]. inversion E; subst.
        destruct (forallb_amem_lookup h bs O1 f Hin) as [v E']. unfold hview. rewrite E'. reflexivity.
      * apply hrand_count_sound in O2. rewrite map_map. cbn [fst]. rewrite map_id, zlength_map. exact O2.
    + rewrite map_map. cbn [fst]. reflexivity.
Qed.

Theorem hrand_one_sound h hint : h <> [] -> exists f, hrand_one h hint = RBulk f /\ hview h f <> None.
Proof.
  intros Hne. unfold hrand_one. destruct h as [|[f0 v0] r]; [congruence|].
  assert (D : hview ((f0, v0) :: r) f0 <> None).
  { unfold hview. cbn. rewrite bytes_eqb_refl. discriminate. }
  destruct hint; try (exists f0; split; [reflexivity|exact D]).
  destruct (amem b ((f0, v0) :: r)) eqn:M; [|exists f0; split; [reflexivity|exact D]].
  exists b. split; [reflexivity|]. unfold hview. unfold amem in M.
  destruct (alookup b ((f0, v0) :: r)); [discriminate|discriminate].
Qed.

(* executor level: existing fields only, right count / sign / distinctness, database unchanged *)
Theorem exec_hrandfield_count_spec d c k cnt n h hint :
  hashes_ok d -> get_hash d k = HFound h -> atoi64 cnt = Some n -> - hrand_max <= n ->
  exists ps, rand_ok h n ps /\
    exec_hrandfield d [c; k; cnt] hint = (RArr (map (fun p => RBulk (fst p)) ps), d) /\
    forall o, lower o = B "withvalues" ->
      exists ps', rand_ok h n ps' /\ exec_hrandfield d [c; k; cnt; o] hint = (RArr (flat_pairs ps'), d).
Proof.
  intros OK H A L. destruct (get_hash_found_nodup d k h OK H) as [Hne ND].
  assert (Lb : (n <? - hrand_max) = false) by (apply Z.ltb_ge; exact L).
  destruct (hrand_reply_sound h n false hint Hne ND) as [ps [R E]].
  exists ps. split; [exact R|]. split.
  - unfold exec_hrandfield. rewrite A, Lb, H, E. reflexivity.
  - intros o Lo. destruct (hrand_reply_sound h n true hint Hne ND) as [ps' [R' E']].
    exists ps'. split; [exact R'|]. unfold exec_hrandfield. rewrite Lo. cbn [is bytes_eqb].
    change (is (B "withvalues") (B "withvalues")) with true. cbv iota. rewrite A, Lb, H, E'. reflexivity.
Qed.

Theorem exec_hrandfield_one_spec d c k h hint :
  hashes_ok d -> get_hash d k = HFound h ->
  exists f, exec_hrandfield d [c; k] hint = (RBulk f, d) /\ hview h f <> None.
Proof.
  intros OK H. destruct (get_hash_found_nodup d k h OK H) as [Hne ND].
  destruct (hrand_one_sound h hint Hne) as [f [E D]]. exists f. split; [|exact D].
  unfold exec_hrandfield. rewrite H, E. reflexivity.
Qed.

Theorem exec_hrandfield_missing d c k cnt n hint :
  get_hash d k = HMissing -> atoi64 cnt = Some n -> - hrand_max <= n ->
  exec_hrandfield d [c; k] hint = (RNil, d) /\ exec_hrandfield d [c; k; cnt] hint = (RArr [], d).
Proof.
  intros H A L. assert (Lb : (n <? - hrand_max) = false) by (apply Z.ltb_ge; exact L).
  unfold exec_hrandfield. rewrite H, A, Lb. split; reflexivity.
Qed.

(* the repair of the unbounded allocation: a count below -hrand_max is an error, whatever the key holds *)
Theorem exec_hrandfield_bounded d c k cnt n hint :
  atoi64 cnt = Some n -> n < - hrand_max -> exec_hrandfield d [c; k; cnt] hint = (err_other, d).
Proof.
  intros A L. assert (Lb : (n <? - hrand_max) = true) by (apply Z.ltb_lt; exact L).
  unfold exec_hrandfield. rewrite A, Lb. reflexivity.
Qed.

(* ------------------------------------------------------------------ HSET against the abstract map, at the level of a step *)
Theorem hstep_hset_refines d now nowms c0 k f v hint h :
  db_wf d -> lower c0 = B "hset" -> hash_or_empty (purge d now) k = Some h ->
  let r := fst (hstep d (mkH now nowms [c0; k; f; v] hint)) in
  let d' := snd (hstep d (mkH now nowms [c0; k; f; v] hint)) in
  r = RInt (if hview h f then 0 else 1) /\
  hfield d' k f = Some v /\
  (forall f0, f0 <> f -> hfield d' k f0 = hview h f0) /\
  (forall k0, k0 <> k -> raw_view d' k0 = view d now k0) /\
  db_ttl d' k = db_ttl (purge d now) k /\
  db_wf d'.
Proof.
  intros W L H. cbv zeta. unfold hstep. cbn [c_args c_now c_nowms c_hint]. rewrite L, dispatch_hset.
  rewrite (exec_hset_one _ _ _ _ _ _ H). cbn [fst snd]. split; [|split; [|split; [|split; [|split]]]].
  - unfold hview, amem. destruct (alookup f h); reflexivity.
  - unfold hfield, hview. rewrite hash_at_set. apply alookup_aset_same.
  - intros f0 N. unfold hfield, hview. rewrite hash_at_set. apply alookup_aset_other. exact N.
  - intros k0 N. rewrite raw_view_set_other by exact N. apply raw_view_purge. exact W.
  - reflexivity.
  - apply db_wf_set. apply db_wf_purge. exact W.
Qed.

(* a hash past its deadline is a missing key: HGET answers nil, HLEN 0, and a write starts afresh *)
Theorem hstep_expired_missing d now nowms c1 k f hint :
  lower c1 = B "hget" -> expired d now k = true ->
  fst (hstep d (mkH now nowms [c1; k; f] hint)) = RNil.
Proof.
  intros L E. unfold hstep. cbn [c_args c_now c_nowms c_hint]. rewrite L, dispatch_hget.
  unfold exec_hget, hash_or_empty. rewrite (expired_is_missing d now k E). reflexivity.
Qed.
