(* C01 over ALL command families: with every family's db_wf preservation lemma in place
   (Mem/SetsCompose.v, [families_keep_wf]) the refinement holds for programs that interleave the
   C01 commands with any other command of any family; the generic key commands are stated
   explicitly for keys holding each of the six value types; value characterisation of atoi64. *)
Require Import Base.Bytes Base.GoInt Base.Reply Mem.Types Mem.Inv Mem.Strings Mem.Lists Mem.Exec.
Require Import Mem.StringsSpec Mem.StringsProofs Mem.StringsRefine Mem.SetsExec Mem.SetsCompose.
Require Import Glob.GlobSpec.
From Coq Require Import ZifyBool.
Local Open Scope Z_scope.

(* ------------------------------------------------------------------ every family keeps db_wf *)
Lemma families_wf_pres : Forall family_wf_pres families.
Proof. exact families_keep_wf. Qed.

Theorem exec_wf d now nowms args hint r d' :
  db_wf d -> exec d now nowms args hint = (r, d') -> db_wf d'.
Proof. apply exec_wf_families. exact families_wf_pres. Qed.

(* every database that occurs in a run is well-formed *)
Definition step_wf (x : db * step * reply * db) : Prop :=
  let '(d, _, _, d') := x in db_wf d /\ db_wf d'.

Lemma run_wf prog : forall d, db_wf d -> Forall step_wf (run d prog).
Proof.
  induction prog as [|s p IH]; intros d W; [constructor|]. cbn [run].
  destruct (exec d (s_now s) (s_nowms s) (s_args s) (s_hint s)) as [r d'] eqn:E.
  assert (W' : db_wf d') by (eapply exec_wf; eauto).
  constructor; [split; assumption|apply IH; exact W'].
Qed.

(* programs of ANY commands of ANY family: the C01 steps satisfy their clauses ([ref_step] says
   nothing about a foreign command), and the foreign steps keep the invariant the C01 clauses are
   proved under *)
Theorem refines_all_commands prog d : db_wf d ->
  Forall step_conforms (run d prog) /\ Forall step_wf (run d prog).
Proof. intros W. split; [apply refines_families; [exact families_wf_pres|exact W]|apply run_wf; exact W]. Qed.

(* the database-free form, for any commands *)
Lemma accepts_run_all p : forall d V last, db_wf d -> veq V (view d last) -> clocks_from last p ->
  accepts V last (trace d p).
Proof.
  induction p as [|s p IH]; intros d V last W HV HC; [exact I|].
  destruct HC as (L & HC). unfold trace. cbn [run].
  destruct (exec d (s_now s) (s_nowms s) (s_args s) (s_hint s)) as [r d'] eqn:E.
  cbn [map]. split; [exact L|].
  exists (view d (s_now s)), (view d' (s_now s)). split; [|split].
  - intros k. unfold live. rewrite (HV k). apply view_later. exact L.
  - eapply strings_step_refines; eauto.
  - apply (IH d' (view d' (s_now s)) (s_now s)); [eapply exec_wf; eauto|intros k; reflexivity|exact HC].
Qed.

Theorem refines_trace_all p d now0 : db_wf d -> clocks_from now0 p -> accepts (view d now0) now0 (trace d p).
Proof. intros W HC. apply (accepts_run_all p d); auto. intros k; reflexivity. Qed.

(* ------------------------------------------------------------------ generic key commands on keys of every type *)
Section Names2.
  Variables (rd : reading) (F : floatlib) (V : kview) (now : Z) (c : bytes) (r : reply) (V' : kview).
  Ltac nm E H := intros E H; unfold ref_step in H; rewrite E in H; exact H.
  Lemma ref_step_type k : lower c = B "type" -> ref_step rd F V now [c; k] r V' -> ref_type V k r V'.
  Proof. nm E H. Qed.
  Lemma ref_step_rename o n : lower c = B "rename" -> ref_step rd F V now [c; o; n] r V' -> ref_rename V o n r V'.
  Proof. nm E H. Qed.
  Lemma ref_step_del ks : lower c = B "del" -> ref_step rd F V now (c :: ks) r V' -> ref_del V ks r V'.
  Proof. nm E H. Qed.
  Lemma ref_step_exists ks : lower c = B "exists" -> ref_step rd F V now (c :: ks) r V' -> ref_exists V ks r V'.
  Proof. nm E H. Qed.
  Lemma ref_step_keys p : lower c = B "keys" -> ref_step rd F V now [c; p] r V' -> ref_keys V p r V'.
  Proof. nm E H. Qed.
End Names2.

(* the six type names, spelled out *)
Lemma type_names :
  forall b l s h z x,
    ref_type_name (VStr b) = B "string" /\ ref_type_name (VList l) = B "list" /\
    ref_type_name (VSet s) = B "set" /\ ref_type_name (VHash h) = B "hash" /\
    ref_type_name (VZSet z) = B "zset" /\ ref_type_name (VStream x) = B "stream".
Proof. intros. repeat split. Qed.

(* TYPE: a key holding a value of ANY of the six types answers that type's name; a missing (or
   expired) key answers none; nothing changes *)
Theorem type_any_value d now nowms c k hint r d' :
  db_wf d -> lower c = B "type" -> exec d now nowms [c; k] hint = (r, d') ->
  r = RSimple (match view d now k with Some (v, _) => ref_type_name v | None => B "none" end) /\
  forall k', view d' now k' = view d now k'.
Proof.
  intros W N H. pose proof (strings_step_refines _ _ _ _ _ _ _ W H) as S.
  apply (ref_step_type _ _ _ _ _ _ _ _ N) in S. destruct S as (U & R). split; [|exact U].
  destruct (view d now k) as [[v t]|]; exact R.
Qed.

(* RENAME moves a value of ANY type together with its deadline; what the target held is gone;
   renaming onto itself changes nothing; every other key is untouched *)
Theorem rename_any_value d now nowms c old new hint v t r d' :
  db_wf d -> lower c = B "rename" -> view d now old = Some (v, t) ->
  exec d now nowms [c; old; new] hint = (r, d') ->
  r = rOK /\ view d' now new = Some (v, t) /\ (old <> new -> view d' now old = None) /\
  forall k, k <> old -> k <> new -> view d' now k = view d now k.
Proof.
  intros W N HK H. pose proof (strings_step_refines _ _ _ _ _ _ _ W H) as S.
  apply (ref_step_rename _ _ _ _ _ _ _ _ _ N) in S. unfold ref_rename in S. rewrite HK in S.
  destruct S as (R & U). split; [exact R|]. split; [rewrite U; apply upd_same|]. split.
  - intros NE. rewrite U. rewrite upd_other by exact NE. apply upd_same.
  - intros k N1 N2. rewrite U. rewrite !upd_other by assumption. reflexivity.
Qed.

Theorem rename_missing d now nowms c old new hint r d' :
  db_wf d -> lower c = B "rename" -> view d now old = None ->
  exec d now nowms [c; old; new] hint = (r, d') ->
  is_error r /\ forall k, view d' now k = view d now k.
Proof.
  intros W N HK H. pose proof (strings_step_refines _ _ _ _ _ _ _ W H) as S.
  apply (ref_step_rename _ _ _ _ _ _ _ _ _ N) in S. unfold ref_rename in S. rewrite HK in S. exact S.
Qed.

(* DEL / EXISTS count keys of any type alike: they only ask whether the key is live *)
Theorem del_any_value d now nowms c keys hint r d' :
  db_wf d -> lower c = B "del" -> keys <> [] -> exec d now nowms (c :: keys) hint = (r, d') ->
  r = RInt (zlength (filter (fun k => match view d now k with Some _ => true | None => false end)
                            (nodup bytes_eq_dec keys))) /\
  forall k, view d' now k = if mentions keys k then None else view d now k.
Proof.
  intros W N NE H. pose proof (strings_step_refines _ _ _ _ _ _ _ W H) as S.
  apply (ref_step_del _ _ _ _ _ _ _ _ N) in S. unfold ref_del in S.
  destruct keys as [|k0 ks]; [congruence|]. exact S.
Qed.

Theorem exists_any_value d now nowms c keys hint r d' :
  db_wf d -> lower c = B "exists" -> keys <> [] -> exec d now nowms (c :: keys) hint = (r, d') ->
  r = RInt (zlength (filter (fun k => match view d now k with Some _ => true | None => false end) keys)) /\
  forall k, view d' now k = view d now k.
Proof.
  intros W N NE H. pose proof (strings_step_refines _ _ _ _ _ _ _ W H) as S.
  apply (ref_step_exists _ _ _ _ _ _ _ _ N) in S. unfold ref_exists in S.
  destruct keys as [|k0 ks]; [congruence|]. destruct S as (U & R). split; [exact R|exact U].
Qed.

(* KEYS lists, once each, exactly the live keys -- of whatever type -- in the language of the pattern *)
Theorem keys_any_value d now nowms c p hint r d' :
  db_wf d -> lower c = B "keys" -> exec d now nowms [c; p] hint = (r, d') ->
  (exists ks, r = RArr (map RBulk ks) /\ NoDup ks /\
              forall k, In k ks <-> (view d now k <> None /\ glob_matches p k)) /\
  forall k, view d' now k = view d now k.
Proof.
  intros W N H. pose proof (strings_step_refines _ _ _ _ _ _ _ W H) as S.
  apply (ref_step_keys _ _ _ _ _ _ _ _ N) in S. destruct S as (U & R). split; [exact R|exact U].
Qed.

(* ------------------------------------------------------------------ atoi64 = value of sign? digit+ , in the int64 range *)
Lemma horner_bytes_to_uint s : forall acc v, horner acc s = Some v ->
  exists u, bytes_to_uint s = Some u /\ hu acc u = v.
Proof.
  induction s as [|c s IH]; intros acc v H.
  - cbn in H. injection H as <-. exists Decimal.Nil. split; reflexivity.
  - cbn [horner] in H. destruct (digit_val c) as [dv|] eqn:D; [|discriminate H].
    destruct c; try (vm_compute in D; discriminate D); vm_compute in D; injection D as <-;
      apply IH in H; destruct H as (u & E & Hu); cbn [bytes_to_uint digit_of_byte]; rewrite E;
      eexists; (split; [reflexivity|exact Hu]).
Qed.

Lemma udigits_parse_udec s z : udigits s = Some z -> exists n, parse_udec s = Some n /\ Z.of_N n = z.
Proof.
  unfold udigits, parse_udec. destruct s as [|c s]; [discriminate|]. intros H.
  apply horner_bytes_to_uint in H. destruct H as (u & E & Hu). rewrite E.
  exists (N.of_uint u). split; [reflexivity|]. rewrite of_uint_hu. exact Hu.
Qed.

Lemma sign_digits_parse s z : sign_digits s = Some z -> parse_int_unbounded s = Some z.
Proof.
  unfold sign_digits, parse_int_unbounded. destruct s as [|c s]; [discriminate|].
  assert (G : forall r, udigits r = Some z ->
                        match parse_udec r with Some n => Some (Z.of_N n) | None => None end = Some z).
  { intros r H. apply udigits_parse_udec in H. destruct H as (n & E & <-). rewrite E. reflexivity. }
  destruct c; try (intros H; apply G in H; exact H).
  intros H. destruct (udigits s) as [n0|] eqn:U; [|discriminate H]. injection H as <-.
  apply udigits_parse_udec in U. destruct U as (n & E & <-). rewrite E. reflexivity.
Qed.

(* strconv.ParseInt(s, 10, 64) succeeds with z exactly when s is  sign? digit+ , z is the value
   of the digit string in base ten with that sign, and z fits int64 *)
Theorem atoi64_value s z : atoi64 s = Some z <-> (sign_digits s = Some z /\ in_int64 z = true).
Proof.
  split.
  - intros H. apply (proj2 atoi64_admissible) in H. tauto.
  - intros (S & R). unfold atoi64. rewrite (sign_digits_parse _ _ S), R. reflexivity.
Qed.

(* ------------------------------------------------------------------ parse_dec (fmt_dec m e) round trip *)
Lemma horner_app a : forall acc b,
  horner acc (a ++ b) = match horner acc a with Some v => horner v b | None => None end.
Proof.
  induction a as [|c a IH]; intros acc b; [reflexivity|].
  cbn [app horner]. destruct (digit_val c); [apply IH|reflexivity].
Qed.

Lemma horner_shift s : forall acc v, horner acc s = Some v ->
  exists w, horner 0 s = Some w /\ v = acc * 10 ^ Z.of_nat (List.length s) + w /\ 0 <= w.
Proof.
  induction s as [|c s IH]; intros acc v H.
  - cbn in H. injection H as <-. exists 0. cbn. repeat split; lia.
  - cbn [horner] in *. destruct (digit_val c) as [dv|] eqn:D; [|discriminate H].
    assert (0 <= dv) by (unfold digit_val in D; destruct ((48 <=? Z.of_N (bval c)) && (Z.of_N (bval c) <=? 57)) eqn:X; [injection D as <-; lia|discriminate]).
    destruct (IH _ _ H) as (w1 & E1 & V1 & P1).
    destruct (horner (0 * 10 + dv) s) as [w|] eqn:E0.
    + destruct (IH _ _ E0) as (w0 & E2 & V2 & P2). rewrite E1 in E2. injection E2 as <-.
      exists w. split; [reflexivity|]. cbn [List.length]. rewrite Nat2Z.inj_succ, Z.pow_succ_r by lia.
      assert (0 <= 10 ^ Z.of_nat (List.length s)) by (apply Z.pow_nonneg; lia).
      set (P := 10 ^ Z.of_nat (List.length s)) in *. split; [subst v w; ring|nia].
    + exfalso. clear -E0 E1 D.
      assert (G : forall a1 a2, horner a1 s = None -> horner a2 s = None).
      { clear. induction s as [|c s IH]; intros a1 a2 H; [discriminate|].
        cbn [horner] in *. destruct (digit_val c); [eapply IH; exact H|reflexivity]. }
      rewrite (G _ 0 E0) in E1. discriminate.
Qed.

Lemma horner_zeros k : forall s, horner 0 (repeat "0"%byte k ++ s) = horner 0 s.
Proof. induction k as [|k IH]; intros s; [reflexivity|]. cbn [repeat app horner]. apply IH. Qed.

Lemma split_dot_digits a : forall acc v, horner acc a = Some v -> split_dot a = (a, None).
Proof.
  induction a as [|c a IH]; intros acc v H; [reflexivity|].
  cbn [horner] in H. destruct (digit_val c) as [dv|] eqn:D; [|discriminate H].
  cbn [split_dot]. destruct (beqb_spec c "."%byte) as [->|N]; [vm_compute in D; discriminate D|].
  rewrite (IH _ _ H). reflexivity.
Qed.

Lemma split_dot_app a b : forall acc v, horner acc a = Some v -> split_dot (a ++ "."%byte :: b) = (a, Some b).
Proof.
  induction a as [|c a IH]; intros acc v H; [reflexivity|].
  cbn [horner] in H. destruct (digit_val c) as [dv|] eqn:D; [|discriminate H].
  cbn [app split_dot]. destruct (beqb_spec c "."%byte) as [->|N]; [vm_compute in D; discriminate D|].
  rewrite (IH _ _ H). reflexivity.
Qed.

Lemma horner_parse_udec s v : s <> [] -> horner 0 s = Some v -> parse_udec s = Some (Z.to_N v).
Proof.
  intros NE H. assert (U : udigits s = Some v) by (unfold udigits; destruct s; [congruence|exact H]).
  apply udigits_parse_udec in U. destruct U as (n & E & <-). rewrite E, N2Z.id. reflexivity.
Qed.

Lemma horner_n_to_dec n : horner 0 (n_to_dec n) = Some (Z.of_N n).
Proof.
  pose proof (parse_udec_udigits _ _ (parse_udec_n_to_dec n)) as U. unfold udigits in U.
  destruct (n_to_dec n) eqn:E; [exfalso; eapply n_to_dec_nonempty; exact E|exact U].
Qed.

(* what INCRBYFLOAT stores and replies reads back as the same decimal: sign, digits, scale *)
Theorem parse_dec_fmt_dec m e :
  parse_dec (fmt_dec m e) = Some (m <? 0, Z.to_N (Z.abs m), e).
Proof.
  unfold fmt_dec.
  set (n := Z.to_N (Z.abs m)). set (en := N.to_nat e).
  set (ds := if Nat.leb (List.length (n_to_dec n)) en
             then repeat "0"%byte (S en - List.length (n_to_dec n)) ++ n_to_dec n else n_to_dec n).
  assert (Hds : horner 0 ds = Some (Z.of_N n)).
  { unfold ds. destruct (Nat.leb _ en); [rewrite horner_zeros|]; apply horner_n_to_dec. }
  assert (Lds : (en < List.length ds)%nat).
  { unfold ds. destruct (Nat.leb (List.length (n_to_dec n)) en) eqn:L.
    - apply Nat.leb_le in L. rewrite app_length, repeat_length. lia.
    - apply Nat.leb_gt in L. exact L. }
  set (ip := firstn (List.length ds - en) ds). set (fp := skipn (List.length ds - en) ds).
  assert (Hsplit : ds = ip ++ fp) by (unfold ip, fp; symmetry; apply firstn_skipn).
  assert (Lfp : List.length fp = en) by (unfold fp; rewrite skipn_length; lia).
  assert (Nip : ip <> []).
  { intros E0. assert (List.length ip = 0%nat) by (rewrite E0; reflexivity).
    unfold ip in H. rewrite firstn_length in H. lia. }
  rewrite Hsplit, horner_app in Hds.
  destruct (horner 0 ip) as [i|] eqn:Hip; [|discriminate Hds].
  destruct (horner_shift _ _ _ Hds) as (fv & Hfp & Val & Pfv).
  destruct (horner_shift _ _ _ Hip) as (i0 & Hip0 & Vi & Pi). rewrite Hip in Hip0. injection Hip0 as <-.
  (* strip the sign *)
  assert (Body : forall body, body = ip ++ match fp with [] => [] | _ => "."%byte :: fp end ->
            (let '(a, b) := split_dot body in
             match parse_udec a, b with
             | Some i1, None => Some (m <? 0, i1, 0%N)
             | Some i1, Some f =>
               match parse_udec f with
               | Some fv1 => let e1 := N.of_nat (List.length f) in Some (m <? 0, (i1 * 10 ^ e1 + fv1)%N, e1)
               | None => None end
             | None, _ => None end) = Some (m <? 0, n, e)).
  { intros body ->. destruct fp as [|f0 fp'] eqn:Efp.
    - (* e = 0 *) rewrite app_nil_r. rewrite (split_dot_digits _ _ _ Hip).
      rewrite (horner_parse_udec _ _ Nip Hip). cbn [List.length] in Lfp, Val. unfold en in Lfp.
      cbn in Hfp. injection Hfp as <-.
      assert (E0 : e = 0%N) by lia. rewrite E0.
      replace (Z.to_N i) with n by (cbn in Val; lia). reflexivity.
    - rewrite (split_dot_app _ (f0 :: fp') _ _ Hip).
      rewrite (horner_parse_udec _ _ Nip Hip).
      rewrite (horner_parse_udec (f0 :: fp') fv ltac:(discriminate) Hfp).
      cbv zeta. rewrite Lfp. unfold en. rewrite N2Nat.id.
      rewrite Lfp in Val. unfold en in Val.
      replace (Z.to_N i * 10 ^ e + Z.to_N fv)%N with n; [reflexivity|].
      apply N2Z.inj.
      rewrite N2Z.inj_add, N2Z.inj_mul, N2Z.inj_pow, !Z2N.id by lia. rewrite N_nat_Z in Val. cbn [Z.of_N] in *. lia. }
  unfold parse_dec.
  destruct (m <? 0) eqn:Neg.
  - cbn [app]. apply Body. reflexivity.
  - cbn [app]. specialize (Body _ eq_refl).
    (* the first byte is a digit, so no sign is stripped *)
    destruct ip as [|c0 ip'] eqn:Eip; [congruence|].
    cbn [horner] in Hip. destruct (digit_val c0) as [dv|] eqn:D; [|discriminate Hip].
    cbn [app] in *. destruct c0; try (vm_compute in D; discriminate D); exact Body.
Qed.

(* ------------------------------------------------------------------ SETRANGE: every byte of the result *)
Lemma nth_firstn_lt {A} (l : list A) : forall n i x, (i < n)%nat -> nth i (firstn n l) x = nth i l x.
Proof.
  induction l as [|a l IH]; intros n i x L; [rewrite firstn_nil; reflexivity|].
  destruct n as [|n]; [lia|]. destruct i as [|i]; [reflexivity|]. cbn. apply IH. lia.
Qed.

Lemma nth_skipn_add {A} (l : list A) : forall n i x, nth i (skipn n l) x = nth (n + i) l x.
Proof.
  induction l as [|a l IH]; intros n i x; [rewrite skipn_nil; destruct i, n; reflexivity|].
  destruct n as [|n]; [reflexivity|]. cbn. apply IH.
Qed.

Lemma nth_repeat_lt {A} (a : A) : forall m i x, (i < m)%nat -> nth i (repeat a m) x = a.
Proof. induction m as [|m IH]; intros i x L; [lia|]. destruct i as [|i]; [reflexivity|]. cbn. apply IH. lia. Qed.

(* the value SETRANGE writes, byte by byte (0 <= off; indexes as nat):
   below the offset the old bytes, then ZERO bytes up to the offset, then the argument, then what the
   old value had beyond the written range; its length is max (len old) (off + len v) *)
Lemma setrange_of_bytes old off v (x : byte) : 0 <= off ->
  List.length (setrange_of old off v) = Nat.max (List.length old) (Z.to_nat off + List.length v) /\
  forall i : nat,
    ((i < Z.to_nat off)%nat -> (i < List.length old)%nat -> nth i (setrange_of old off v) x = nth i old x) /\
    ((i < Z.to_nat off)%nat -> (List.length old <= i)%nat -> nth i (setrange_of old off v) x = nul) /\
    ((Z.to_nat off <= i)%nat -> (i < Z.to_nat off + List.length v)%nat ->
       nth i (setrange_of old off v) x = nth (i - Z.to_nat off) v x) /\
    ((Z.to_nat off + List.length v <= i)%nat -> (i < List.length old)%nat ->
       nth i (setrange_of old off v) x = nth i old x).
Proof.
  intros Ho. unfold setrange_of, zlength.
  set (o := Z.to_nat off). set (lo := List.length old). set (lv := List.length v).
  replace (Z.to_nat (off - Z.of_nat lo)) with (o - lo)%nat by lia.
  replace (Z.to_nat (off + Z.of_nat lv)) with (o + lv)%nat by lia.
  set (X := old ++ repeat nul (o - lo)).
  assert (LX : (o <= List.length X)%nat) by (unfold X; rewrite app_length, repeat_length; fold lo; lia).
  assert (LF : List.length (firstn o X) = o) by (rewrite firstn_length; lia).
  split.
  - rewrite !app_length, LF, skipn_length. fold lo lv. lia.
  - intros i. repeat split.
    + intros L1 L2. rewrite app_nth1 by lia. rewrite nth_firstn_lt by exact L1.
      unfold X. rewrite app_nth1 by (fold lo; lia). reflexivity.
    + intros L1 L2. rewrite app_nth1 by lia. rewrite nth_firstn_lt by exact L1.
      unfold X. rewrite app_nth2 by (fold lo; lia). fold lo. apply nth_repeat_lt. lia.
    + intros L1 L2. rewrite app_nth2 by lia. rewrite LF. rewrite app_nth1 by (fold lv; lia). reflexivity.
    + intros L1 L2. rewrite app_nth2 by lia. rewrite LF. rewrite app_nth2 by (fold lv; lia). fold lv.
      rewrite nth_skipn_add. f_equal. lia.
Qed.

Section NameSetrange.
  Variables (rd : reading) (F : floatlib) (V : kview) (now : Z) (c : bytes) (r : reply) (V' : kview).
  Lemma ref_step_setrange k o v : lower c = B "setrange" -> ref_step rd F V now [c; k; o; v] r V' ->
    ref_setrange rd V k o v r V'.
  Proof. intros E H; unfold ref_step in H; rewrite E in H; exact H. Qed.
End NameSetrange.

(* SETRANGE past the end of the value (or on a missing key): whatever the executor does with its
   buffers, every byte between the old length and the offset reads as 0x00, the old bytes and the
   argument are in place, the length is offset + len v, the deadline is kept *)
Theorem setrange_gap_is_zero d now nowms c k o v hint off old t r d' :
  db_wf d -> lower c = B "setrange" -> atoi64 o = Some off ->
  (view d now k = Some (VStr old, t) \/ (view d now k = None /\ old = [] /\ t = None)) ->
  zlength old <= off -> v <> [] -> off + zlength v <= max_len ->
  exec d now nowms [c; k; o; v] hint = (r, d') ->
  exists new, view d' now k = Some (VStr new, t) /\ r = RInt (off + zlength v) /\
    zlength new = off + zlength v /\
    forall (i : nat) (x : byte),
      ((i < List.length old)%nat -> nth i new x = nth i old x) /\
      ((List.length old <= i)%nat -> (i < Z.to_nat off)%nat -> nth i new x = nul) /\
      ((Z.to_nat off <= i)%nat -> (i < Z.to_nat off + List.length v)%nat -> nth i new x = nth (i - Z.to_nat off) v x).
Proof.
  intros W N A HK L NE LM H.
  pose proof (zlength_nonneg old) as P0. assert (Ho : 0 <= off) by lia.
  pose proof (strings_step_refines _ _ _ _ _ _ _ W H) as S.
  apply (ref_step_setrange _ _ _ _ _ _ _ _ _ _ N) in S. unfold ref_setrange in S. rewrite A in S.
  replace (off <? 0) with false in S by lia.
  assert (NV : (zlength v =? 0) = false).
  { destruct v; [congruence|]. unfold zlength. cbn [List.length]. lia. }
  assert (G : r = RInt (zlength (setrange_of old off v)) /\
              veq (view d' now) (upd (view d now) k (Some (VStr (setrange_of old off v), t)))).
  { assert (C : (off + zlength v <=? max_len) = true) by (apply Z.leb_le; exact LM).
    unfold slot_of in S. destruct HK as [E|(E & -> & ->)]; rewrite E in S; cbv zeta in S;
      rewrite NV, C in S; exact S. }
  destruct G as (R & U).
  destruct (setrange_of_bytes old off v "000"%byte Ho) as (Len & _).
  assert (ZL : zlength (setrange_of old off v) = off + zlength v) by (unfold zlength in *; lia).
  exists (setrange_of old off v). split; [rewrite U; apply upd_same|]. split; [rewrite R, ZL; reflexivity|].
  split; [exact ZL|]. intros i x.
  destruct (setrange_of_bytes old off v x Ho) as (_ & HB). destruct (HB i) as (B1 & B2 & B3 & _).
  unfold zlength in L. repeat split.
  - intros L1. apply B1; lia.
  - intros L1 L2. apply B2; lia.
  - exact B3.
Qed.

(* ------------------------------------------------------------------ a command touches only the keys it names *)
(* The model keeps one value per key and has no sharing between keys by construction; stated
   explicitly (value -- hence type -- and deadline of every key the command does not name), so
   that the tie's comparison of the whole keyspace after every step is pinned to it: an
   implementation in which two keys share storage cannot agree with the model. *)
Theorem command_touches_only_named_keys d now nowms args hint r d' :
  db_wf d -> c01_command args = true -> exec d now nowms args hint = (r, d') ->
  forall k, ~ In k (keys_named args) ->
    (forall v t, view d now k = Some (v, t) ->
       view d' now k = Some (v, t) /\
       (exists c, lower c = B "type" /\ fst (exec d' now nowms [c; k] hint) = RSimple (ref_type_name v))) /\
    (view d now k = None -> view d' now k = None).
Proof.
  intros W HC H k Hk.
  pose proof (commands_frame _ _ _ _ _ _ _ _ W HC H Hk) as Fr.
  split.
  - intros v t E. split; [rewrite Fr; exact E|].
    exists (B "type"). split; [reflexivity|].
    assert (W' : db_wf d') by (eapply exec_wf; eauto).
    pose proof (surjective_pairing (exec d' now nowms [B "type"; k] hint)) as E2.
    destruct (type_any_value d' now nowms (B "type") k hint _ _ W' eq_refl E2) as (R & _).
    etransitivity; [exact R|]. rewrite Fr, E. reflexivity.
  - intros E. rewrite Fr. exact E.
Qed.
