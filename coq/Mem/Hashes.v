(* Hash commands (memdb/hash.go, memdb/hash_struct.go) over [list (bytes * bytes)]: a clean
   functional statement of the executors as they stand after the fix commits, which is the
   behaviour of the Redis command reference.  The caller (Exec.exec) has already removed every key
   whose deadline has passed, so "missing" below includes "expired".

   Conventions shared by all executors: arity is checked first (error), then numeric / option
   arguments (error), then the key: a key of another type is WRONGTYPE and changes nothing, a
   missing key is the empty hash.  A hash that loses its last field ceases to exist together with
   its deadline ([put_hash]); no executor ever stores an empty hash. *)
Require Import Base.Bytes Base.GoInt Base.Reply Mem.Types Mem.HashDec.
Local Open Scope Z_scope.

Definition hash := list (bytes * bytes).

Inductive lookup_hash := HMissing | HWrong | HFound (h : hash).
Definition get_hash (d : db) (k : bytes) : lookup_hash :=
  match db_get d k with
  | None => HMissing
  | Some (VHash h) => HFound h
  | Some _ => HWrong
  end.

(* the hash a write command starts from: a missing key is the empty hash; None = WRONGTYPE *)
Definition hash_or_empty (d : db) (k : bytes) : option hash :=
  match get_hash d k with
  | HMissing => Some []
  | HFound h => Some h
  | HWrong => None
  end.

(* store the hash back; an emptied hash ceases to exist (key and deadline) *)
Definition put_hash (d : db) (k : bytes) (h : hash) : db :=
  match h with [] => db_del d k | _ => db_set d k (VHash h) end.

Definition bulk_opt (o : option bytes) : reply := match o with Some v => RBulk v | None => RNil end.

(* ---------- HSET / HSETNX ---------- *)
Fixpoint pairs_of (l : list bytes) : option (list (bytes * bytes)) :=
  match l with
  | [] => Some []
  | f :: v :: r => match pairs_of r with Some ps => Some ((f, v) :: ps) | None => None end
  | _ => None
  end.

(* write the pairs left to right; count the fields that did not exist before *)
Fixpoint hset_all (h : hash) (ps : list (bytes * bytes)) (n : Z) : hash * Z :=
  match ps with
  | [] => (h, n)
  | (f, v) :: r => hset_all (aset f v h) r (if amem f h then n else n + 1)
  end.

Definition exec_hset (d : db) (args : list bytes) : reply * db :=
  match args with
  | _ :: k :: ((_ :: _ :: _) as fvs) =>
    match pairs_of fvs with
    | None => (err_other, d)
    | Some ps =>
      match hash_or_empty d k with
      | None => (err_wrongtype, d)
      | Some h => let '(h', n) := hset_all h ps 0 in (RInt n, db_set d k (VHash h'))
      end
    end
  | _ => (err_other, d)
  end.

Definition exec_hsetnx (d : db) (args : list bytes) : reply * db :=
  match args with
  | [_; k; f; v] =>
    match hash_or_empty d k with
    | None => (err_wrongtype, d)
    | Some h => if amem f h then (RInt 0, d) else (RInt 1, db_set d k (VHash (aset f v h)))
    end
  | _ => (err_other, d)
  end.

(* ---------- reads ---------- *)
Definition exec_hget (d : db) (args : list bytes) : reply * db :=
  match args with
  | [_; k; f] =>
    match hash_or_empty d k with
    | None => (err_wrongtype, d)
    | Some h => (bulk_opt (alookup f h), d)
    end
  | _ => (err_other, d)
  end.

Definition exec_hmget (d : db) (args : list bytes) : reply * db :=
  match args with
  | _ :: k :: ((_ :: _) as fs) =>
    match hash_or_empty d k with
    | None => (err_wrongtype, d)
    | Some h => (RArr (map (fun f => bulk_opt (alookup f h)) fs), d)
    end
  | _ => (err_other, d)
  end.

Definition flat_pairs (h : hash) : list reply := flat_map (fun p => [RBulk (fst p); RBulk (snd p)]) h.

(* the three whole-hash reads range over a Go map: their element order is unspecified and the
   replies are compared as multisets (of pairs for HGETALL) *)
Definition exec_hgetall (d : db) (args : list bytes) : reply * db :=
  match args with
  | [_; k] =>
    match hash_or_empty d k with
    | None => (err_wrongtype, d)
    | Some h => (RArr (flat_pairs h), d)
    end
  | _ => (err_other, d)
  end.

Definition exec_hkeys (d : db) (args : list bytes) : reply * db :=
  match args with
  | [_; k] =>
    match hash_or_empty d k with
    | None => (err_wrongtype, d)
    | Some h => (RArr (map (fun p => RBulk (fst p)) h), d)
    end
  | _ => (err_other, d)
  end.

Definition exec_hvals (d : db) (args : list bytes) : reply * db :=
  match args with
  | [_; k] =>
    match hash_or_empty d k with
    | None => (err_wrongtype, d)
    | Some h => (RArr (map (fun p => RBulk (snd p)) h), d)
    end
  | _ => (err_other, d)
  end.

Definition exec_hlen (d : db) (args : list bytes) : reply * db :=
  match args with
  | [_; k] =>
    match hash_or_empty d k with
    | None => (err_wrongtype, d)
    | Some h => (RInt (zlength h), d)
    end
  | _ => (err_other, d)
  end.

Definition exec_hexists (d : db) (args : list bytes) : reply * db :=
  match args with
  | [_; k; f] =>
    match hash_or_empty d k with
    | None => (err_wrongtype, d)
    | Some h => (RInt (if amem f h then 1 else 0), d)
    end
  | _ => (err_other, d)
  end.

Definition exec_hstrlen (d : db) (args : list bytes) : reply * db :=
  match args with
  | [_; k; f] =>
    match hash_or_empty d k with
    | None => (err_wrongtype, d)
    | Some h => (RInt (match alookup f h with Some v => zlength v | None => 0 end), d)
    end
  | _ => (err_other, d)
  end.

(* ---------- HDEL ---------- *)
Fixpoint hdel_all (h : hash) (fs : list bytes) (n : Z) : hash * Z :=
  match fs with
  | [] => (h, n)
  | f :: r => if amem f h then hdel_all (aremove f h) r (n + 1) else hdel_all h r n
  end.

Definition exec_hdel (d : db) (args : list bytes) : reply * db :=
  match args with
  | _ :: k :: ((_ :: _) as fs) =>
    match get_hash d k with
    | HMissing => (RInt 0, d)
    | HWrong => (err_wrongtype, d)
    | HFound h => let '(h', n) := hdel_all h fs 0 in (RInt n, put_hash d k h')
    end
  | _ => (err_other, d)
  end.

(* ---------- HINCRBY: exact integer addition or an error, never a wrap ---------- *)
Definition exec_hincrby (d : db) (args : list bytes) : reply * db :=
  match args with
  | [_; k; f; n] =>
    match atoi64 n with
    | None => (err_other, d)
    | Some delta =>
      match hash_or_empty d k with
      | None => (err_wrongtype, d)
      | Some h =>
        match alookup f h with
        | None => (RInt delta, db_set d k (VHash (aset f (z_to_dec delta) h)))
        | Some b =>
          match atoi64 b with
          | None => (err_other, d)
          | Some x =>
            let r := x + delta in
            if in_int64 r then (RInt r, db_set d k (VHash (aset f (z_to_dec r) h)))
            else (err_other, d)
          end
        end
      end
    end
  | _ => (err_other, d)
  end.

(* ---------- HINCRBYFLOAT: exact on the decimal domain of HashDec.v ---------- *)
Definition hint_is_wrongtype (hint : reply) : bool :=
  match hint with
  | RErr s => bytes_eqb (firstn 9 s) (B "WRONGTYPE")
  | _ => false
  end.

(* outside the domain: follow the observed reply -- an error changes nothing, a bulk holding a
   plain decimal becomes the field's value; anything else is answered with an error (and so
   differs from the observation) *)
Definition hfloat_follow (d : db) (k f : bytes) (h : hash) (hint : reply) : reply * db :=
  match hint with
  | RBulk b =>
    match parse_dec b with
    | Some _ => (RBulk b, db_set d k (VHash (aset f b h)))
    | None => (err_other, d)
    end
  | _ => (err_other, d)
  end.

Definition hfloat_store (d : db) (k f : bytes) (h : hash) (m : Z) (e : N) (hint : reply) : reply * db :=
  let '(m', e') := dec_norm m e in
  if dec_in_dom m' e' then
    let b := fmt_dec m' e' in (RBulk b, db_set d k (VHash (aset f b h)))
  else hfloat_follow d k f h hint.

Definition exec_hincrbyfloat (d : db) (args : list bytes) (hint : reply) : reply * db :=
  match args with
  | [_; k; f; a] =>
    match fclassify a with
    | FBad => (err_other, d)                                   (* not a float, nan, inf *)
    | FDec m e =>
      match hash_or_empty d k with
      | None => (err_wrongtype, d)
      | Some h =>
        match alookup f h with
        | None => hfloat_store d k f h m e hint
        | Some b =>
          match fclassify b with
          | FBad => (err_other, d)                             (* the field does not hold a float *)
          | FDec m0 e0 => let '(m', e') := dec_add m0 e0 m e in hfloat_store d k f h m' e' hint
          | FOther => hfloat_follow d k f h hint
          end
        end
      end
    | FOther =>
      match hash_or_empty d k with
      | None => ((if hint_is_wrongtype hint then err_wrongtype else err_other), d)
      | Some h =>
        match alookup f h with
        | None => hfloat_follow d k f h hint
        | Some b =>
          match fclassify b with
          | FBad => (err_other, d)
          | _ => hfloat_follow d k f h hint
          end
        end
      end
    end
  | _ => (err_other, d)
  end.

(* ---------- HRANDFIELD, acceptor form ----------
   The choice is random (Go map iteration order): the reply observed on the implementation is
   the [hint]; the model answers with the hint when the reference allows it and with its own
   canonical choice otherwise (which then differs from the observation).  The database never
   changes.
     no count            one existing field as a bulk; nil when the key is missing
     count >= 0          min(count, len) *distinct* existing fields
     count <  0          exactly |count| existing fields, repetitions allowed; counts below
                         -hrand_max are rejected with an error (repair of the unbounded allocation)
     WITHVALUES          each field is followed by its value *)
Definition hrand_max : Z := 2 ^ 20.

Fixpoint bulks (l : list reply) : option (list bytes) :=
  match l with
  | [] => Some []
  | RBulk b :: r => match bulks r with Some bs => Some (b :: bs) | None => None end
  | _ => None
  end.

Fixpoint nodupb (l : list bytes) : bool :=
  match l with
  | [] => true
  | x :: r => negb (existsb (bytes_eqb x) r) && nodupb r
  end.

Definition hrand_count_ok (h : hash) (c : Z) (fs : list bytes) : bool :=
  if 0 <=? c then nodupb fs && (zlength fs =? Z.min c (zlength h))
  else zlength fs =? - c.

Definition hrand_fields_ok (h : hash) (c : Z) (fs : list bytes) : bool :=
  forallb (fun f => amem f h) fs && hrand_count_ok h c fs.

Definition pair_in (h : hash) (p : bytes * bytes) : bool :=
  match alookup (fst p) h with Some v => bytes_eqb (snd p) v | None => false end.

Definition hrand_pairs_ok (h : hash) (c : Z) (ps : list (bytes * bytes)) : bool :=
  forallb (pair_in h) ps && hrand_count_ok h c (map fst ps).

Definition hrand_canon (h : hash) (c : Z) : list (bytes * bytes) :=
  if 0 <=? c then firstn (Z.to_nat (Z.min c (zlength h))) h
  else match h with [] => [] | p :: _ => repeat p (Z.to_nat (- c)) end.

Definition hrand_reply (h : hash) (c : Z) (wv : bool) (hint : reply) : reply :=
  let canon := hrand_canon h c in
  match hint with
  | RArr l =>
    match bulks l with
    | Some bs =>
      if wv then
        match pairs_of bs with
        | Some ps => if hrand_pairs_ok h c ps then RArr (flat_pairs ps) else RArr (flat_pairs canon)
        | None => RArr (flat_pairs canon)
        end
      else if hrand_fields_ok h c bs then RArr (map RBulk bs)
           else RArr (map (fun p => RBulk (fst p)) canon)
    | None => RArr (if wv then flat_pairs canon else map (fun p => RBulk (fst p)) canon)
    end
  | _ => RArr (if wv then flat_pairs canon else map (fun p => RBulk (fst p)) canon)
  end.

Definition hrand_one (h : hash) (hint : reply) : reply :=
  match h with
  | [] => RNil
  | (f0, _) :: _ =>
    match hint with
    | RBulk f => if amem f h then RBulk f else RBulk f0
    | _ => RBulk f0
    end
  end.

Definition exec_hrandfield (d : db) (args : list bytes) (hint : reply) : reply * db :=
  let go (k c : bytes) (wv : bool) :=
    match atoi64 c with
    | None => (err_other, d)
    | Some c =>
      if c <? - hrand_max then (err_other, d) else
      match get_hash d k with
      | HMissing => (RArr [], d)
      | HWrong => (err_wrongtype, d)
      | HFound h => (hrand_reply h c wv hint, d)
      end
    end in
  match args with
  | [_; k] =>
    match get_hash d k with
    | HMissing => (RNil, d)
    | HWrong => (err_wrongtype, d)
    | HFound h => (hrand_one h hint, d)
    end
  | [_; k; c] => go k c false
  | [_; k; c; o] => if is (lower o) (B "withvalues") then go k c true else (err_other, d)
  | _ => (err_other, d)
  end.

(* ---------- dispatch ---------- *)
Definition hashes_dispatch (d : db) (now nowms : Z) (n : bytes) (args : list bytes) (hint : reply)
  : option (reply * db) :=
  if is n (B "hset") then Some (exec_hset d args)
  else if is n (B "hsetnx") then Some (exec_hsetnx d args)
  else if is n (B "hget") then Some (exec_hget d args)
  else if is n (B "hmget") then Some (exec_hmget d args)
  else if is n (B "hgetall") then Some (exec_hgetall d args)
  else if is n (B "hkeys") then Some (exec_hkeys d args)
  else if is n (B "hvals") then Some (exec_hvals d args)
  else if is n (B "hlen") then Some (exec_hlen d args)
  else if is n (B "hexists") then Some (exec_hexists d args)
  else if is n (B "hstrlen") then Some (exec_hstrlen d args)
  else if is n (B "hdel") then Some (exec_hdel d args)
  else if is n (B "hincrby") then Some (exec_hincrby d args)
  else if is n (B "hincrbyfloat") then Some (exec_hincrbyfloat d args hint)
  else if is n (B "hrandfield") then Some (exec_hrandfield d args hint)
  else None.
