(* The AVL tree of a sorted set (memdb/btree.go after the C12 repairs), function for function:
   stored heights are recomputed exactly where the Go code assigns n.height, rotations are the
   Go rotations, so that model tree and implementation tree agree node for node.

   A node holds one score and the members sharing it.  Go keeps the members of a node in a map
   and sorts them when they are read (SortedSetNode.SortedNames); the model keeps the list sorted
   (byte-wise lexicographic order, Go's string order). *)
Require Import Base.Bytes Base.GoInt Base.Reply Mem.Types.
Local Open Scope Z_scope.

(* ------------------------------------------------------------------ the order of scores *)
(* numeric order of m1*10^-e1 and m2*10^-e2, refined by the exponent so that two
   representations of one number are still ordered: a total order on [score] whose equality is
   Leibniz equality.  The model only ever builds normal forms ([snorm] in ZSets.v), on which
   the refinement is never consulted. *)
Definition pow10 (e : N) : Z := 10 ^ Z.of_N e.

Definition score_cmp (a b : score) : comparison :=
  match a, b with
  | SNegInf, SNegInf => Eq
  | SNegInf, _ => Lt
  | _, SNegInf => Gt
  | SPosInf, SPosInf => Eq
  | SPosInf, _ => Gt
  | _, SPosInf => Lt
  | SFin m1 e1, SFin m2 e2 =>
    match Z.compare (m1 * pow10 e2) (m2 * pow10 e1) with
    | Eq => N.compare e1 e2
    | c => c
    end
  end.

Definition score_ltb (a b : score) : bool := match score_cmp a b with Lt => true | _ => false end.
Definition score_eqb (a b : score) : bool := match score_cmp a b with Eq => true | _ => false end.
Definition score_leb (a b : score) : bool := match score_cmp a b with Gt => false | _ => true end.

(* ------------------------------------------------------------------ the order of members *)
Fixpoint bytes_cmp (a b : bytes) : comparison :=
  match a, b with
  | [], [] => Eq
  | [], _ :: _ => Lt
  | _ :: _, [] => Gt
  | x :: a', y :: b' =>
    match N.compare (bval x) (bval y) with
    | Eq => bytes_cmp a' b'
    | c => c
    end
  end.

(* add a member to the (sorted, duplicate-free) names of a node: Names[name] = struct{}{} *)
Fixpoint names_add (m : bytes) (ns : list bytes) : list bytes :=
  match ns with
  | [] => [m]
  | x :: r =>
    match bytes_cmp m x with
    | Lt => m :: ns
    | Eq => ns
    | Gt => x :: names_add m r
    end
  end.

(* delete(Names, name) *)
Fixpoint names_del (m : bytes) (ns : list bytes) : list bytes :=
  match ns with
  | [] => []
  | x :: r => if bytes_eqb m x then r else x :: names_del m r
  end.

(* position of m in the sorted names (number of names before it) *)
Fixpoint index_of (m : bytes) (ns : list bytes) : Z :=
  match ns with
  | [] => 0
  | x :: r => if bytes_eqb m x then 0 else 1 + index_of m r
  end.

(* ------------------------------------------------------------------ heights and rotations *)
(* height(n): the stored height, 0 for nil *)
Definition ht (t : tree) : Z := match t with Leaf => 0 | Node _ _ _ h _ => h end.

(* n.height = n.maxHeight() + 1 *)
Definition mk (l : tree) (sc : score) (ns : list bytes) (r : tree) : tree :=
  Node l sc ns (Z.max (ht l) (ht r) + 1) r.

(* balance(n) = height(n.left) - height(n.right) *)
Definition balance (t : tree) : Z := match t with Leaf => 0 | Node l _ _ _ r => ht l - ht r end.

(* rotateRight: l := n.left; l.right, n.left = n, l.right; then n.height, l.height recomputed *)
Definition rot_right (t : tree) : tree :=
  match t with
  | Node (Node ll lsc lns _ lr) sc ns _ r => mk ll lsc lns (mk lr sc ns r)
  | _ => t
  end.

Definition rot_left (t : tree) : tree :=
  match t with
  | Node l sc ns _ (Node rl rsc rns _ rr) => mk (mk l sc ns rl) rsc rns rr
  | _ => t
  end.

(* rebalance(n) *)
Definition rebalance (t : tree) : tree :=
  match t with
  | Leaf => Leaf
  | Node l sc ns _ r =>
    let b := ht l - ht r in
    if b >? 1 then
      if balance l >=? 0 then rot_right (mk l sc ns r)
      else rot_right (mk (rot_left l) sc ns r)
    else if b <? -1 then
      if balance r <=? 0 then rot_left (mk l sc ns r)
      else rot_left (mk l sc ns (rot_right r))
    else mk l sc ns r
  end.

(* ------------------------------------------------------------------ search, insert, delete *)
(* the names of the node holding score sc (Node.get) *)
Fixpoint find_node (sc : score) (t : tree) : option (list bytes) :=
  match t with
  | Leaf => None
  | Node l s ns _ r =>
    match score_cmp sc s with
    | Eq => Some ns
    | Lt => find_node sc l
    | Gt => find_node sc r
    end
  end.

(* insert(n, target): a new leaf, or the name joins the node of its score; every node on the
   way back gets its height recomputed and is rebalanced *)
Fixpoint insert (sc : score) (m : bytes) (t : tree) : tree :=
  match t with
  | Leaf => Node Leaf sc [m] 1 Leaf
  | Node l s ns h r =>
    match score_cmp s sc with            (* c := n.Value.Comp(target) *)
    | Lt => rebalance (Node l s ns h (insert sc m r))
    | Gt => rebalance (Node (insert sc m l) s ns h r)
    | Eq => Node l s (names_add m ns) h r
    end
  end.

(* n.min(): the leftmost node *)
Fixpoint min_elt (t : tree) (d : score * list bytes) : score * list bytes :=
  match t with
  | Leaf => d
  | Node l s ns _ _ => min_elt l (s, ns)
  end.

(* deleteNode(n, target): remove the whole node that holds score sc *)
Fixpoint delete_node (sc : score) (t : tree) : tree :=
  match t with
  | Leaf => Leaf
  | Node l s ns h r =>
    match score_cmp sc s with            (* c := target.Comp(n.Value) *)
    | Lt => rebalance (Node (delete_node sc l) s ns h r)
    | Gt => rebalance (Node l s ns h (delete_node sc r))
    | Eq =>
      match l, r with
      | Leaf, _ => r
      | _, Leaf => l
      | _, _ =>
        (* inner node: take over the value of the successor, delete the successor, rebalance *)
        let '(ms, mns) := min_elt r (s, ns) in
        rebalance (Node l ms mns h (delete_node ms r))
      end
    end
  end.

(* node.Value.DeleteName(name) on the node holding sc: shape and heights unchanged *)
Fixpoint remove_name (sc : score) (m : bytes) (t : tree) : tree :=
  match t with
  | Leaf => Leaf
  | Node l s ns h r =>
    match score_cmp sc s with
    | Eq => Node l s (names_del m ns) h r
    | Lt => Node (remove_name sc m l) s ns h r
    | Gt => Node l s ns h (remove_name sc m r)
    end
  end.

(* ------------------------------------------------------------------ reading the tree *)
(* in-order list of (score, members) *)
Fixpoint elems (t : tree) : list (score * list bytes) :=
  match t with
  | Leaf => []
  | Node l sc ns _ r => elems l ++ (sc, ns) :: elems r
  end.

(* Ascend with SortedNames: every member with its score, in (score, member) order *)
Definition flat_entry (e : score * list bytes) : list (bytes * score) :=
  map (fun n => (n, fst e)) (snd e).
Definition flat (es : list (score * list bytes)) : list (bytes * score) :=
  flat_map flat_entry es.
Definition members (t : tree) : list (bytes * score) := flat (elems t).

(* count(node): members in the subtree;  rank(node, score): members with a smaller score *)
Fixpoint count (t : tree) : Z :=
  match t with
  | Leaf => 0
  | Node l _ ns _ r => count l + zlength ns + count r
  end.

Fixpoint rank (t : tree) (sc : score) : Z :=
  match t with
  | Leaf => 0
  | Node l s ns _ r =>
    if score_ltb s sc then count l + zlength ns + rank r sc
    else rank l sc
  end.

(* ------------------------------------------------------------------ Btree{root, len, dict} *)
Definition empty_zset : zset := mkZ Leaf 0 [].

(* Btree.Insert of a one-member value (the caller has deleted the member before) *)
Definition bt_insert (z : zset) (sc : score) (m : bytes) : zset :=
  let added := match find_node sc (zroot z) with None => true | Some _ => false end in
  mkZ (insert sc m (zroot z))
      (if added then zlen z + 1 else zlen z)
      (aset m sc (zdict z)).

(* Btree.Delete(name): None = not a member (Go returns nil) *)
Definition bt_delete (z : zset) (m : bytes) : option zset :=
  match alookup m (zdict z) with
  | None => None
  | Some sc =>
    match find_node sc (zroot z) with
    | Some ns =>
      if 1 <? zlength ns
      then Some (mkZ (remove_name sc m (zroot z)) (zlen z) (aremove m (zdict z)))
      else Some (mkZ (delete_node sc (zroot z)) (zlen z - 1) (aremove m (zdict z)))
    | None => Some (mkZ (zroot z) (zlen z) (aremove m (zdict z)))
    end
  end.
