(* C09: every list executor of the model (Mem/Lists.v) satisfies its clause of the reference
   (Mem/ListsSpec.v), for all lists, indexes, counts and byte strings; the invariants. *)
Require Import Base.Bytes Base.GoInt Base.Reply Mem.Types Mem.Inv Mem.Lists Mem.ListsSpec.
Require Import Mem.ListsLposProofs Mem.ListsLremProofs.
Require Import Lia.
Local Open Scope Z_scope.

(* ================================================================== part 1: list values *)
Lemma zlength_cons {A} (x : A) r : zlength (x :: r) = zlength r + 1.
Proof. unfold zlength. change (List.length (x :: r)) with (S (List.length r)). rewrite Nat2Z.inj_succ. lia. Qed.
Lemma zlength_nil {A} : zlength (@nil A) = 0.
Proof. reflexivity. Qed.
Lemma zlength_nonneg {A} (l : list A) : 0 <= zlength l.
Proof. unfold zlength. lia. Qed.
Lemma zlength_app {A} (l1 l2 : list A) : zlength (l1 ++ l2) = zlength l1 + zlength l2.
Proof. unfold zlength. rewrite app_length. lia. Qed.
Lemma zlength_rev {A} (l : list A) : zlength (rev l) = zlength l.
Proof. unfold zlength. rewrite rev_length. reflexivity. Qed.

(* ---- pick ---- *)
Lemma pick_from_ext i p q l :
  (forall j, i <= j < i + zlength l -> p j = q j) -> pick_from i p l = pick_from i q l.
Proof.
  revert i. induction l as [|x r IH]; intros i H; cbn [pick_from]; [reflexivity|].
  rewrite zlength_cons in H. pose proof (zlength_nonneg r) as Hr.
  rewrite (H i) by lia. rewrite (IH (i + 1)) by (intros j Hj; apply H; lia). reflexivity.
Qed.

Lemma pick_from_lt i c l : pick_from i (fun j => j <? c) l = firstn (Z.to_nat (c - i)) l.
Proof.
  revert i. induction l as [|x r IH]; intros i; cbn [pick_from]; [rewrite firstn_nil; reflexivity|].
  destruct (i <? c) eqn:E; [apply Z.ltb_lt in E|apply Z.ltb_ge in E].
  - replace (Z.to_nat (c - i)) with (S (Z.to_nat (c - (i + 1)))) by lia.
    cbn [firstn]. rewrite IH. reflexivity.
  - replace (Z.to_nat (c - i)) with O by lia. cbn [firstn].
    rewrite IH. replace (Z.to_nat (c - (i + 1))) with O by lia. reflexivity.
Qed.

Lemma pick_from_ge i c l : pick_from i (fun j => j >=? c) l = skipn (Z.to_nat (c - i)) l.
Proof.
  revert i. induction l as [|x r IH]; intros i; cbn [pick_from]; [rewrite skipn_nil; reflexivity|].
  destruct (i >=? c) eqn:E; [apply Z.geb_le in E|rewrite Z.geb_leb in E; apply Z.leb_gt in E].
  - replace (Z.to_nat (c - i)) with O by lia. cbn [skipn].
    rewrite IH. replace (Z.to_nat (c - (i + 1))) with O by lia. reflexivity.
  - replace (Z.to_nat (c - i)) with (S (Z.to_nat (c - (i + 1)))) by lia.
    cbn [skipn]. apply IH.
Qed.

Lemma pick_from_between_in i lo hi l :
  lo <= i -> pick_from i (between lo hi) l = firstn (Z.to_nat (hi - i + 1)) l.
Proof.
  intros H. replace (hi - i + 1) with (hi + 1 - i) by lia. rewrite <- pick_from_lt.
  apply pick_from_ext. intros j Hj. unfold between.
  destruct (lo <=? j) eqn:E1; [|apply Z.leb_gt in E1; lia].
  cbn [andb]. destruct (j <=? hi) eqn:E2; [apply Z.leb_le in E2|apply Z.leb_gt in E2];
    destruct (j <? hi + 1) eqn:E3; try reflexivity; [apply Z.ltb_ge in E3|apply Z.ltb_lt in E3]; lia.
Qed.

Lemma pick_from_between i lo hi l :
  i <= lo -> pick_from i (between lo hi) l = firstn (Z.to_nat (hi - lo + 1)) (skipn (Z.to_nat (lo - i)) l).
Proof.
  revert i. induction l as [|x r IH]; intros i H; cbn [pick_from].
  - rewrite skipn_nil, firstn_nil. reflexivity.
  - destruct (Z.eq_dec i lo) as [->|N].
    + replace (Z.to_nat (lo - lo)) with O by lia. cbn [skipn].
      change (pick_from lo (between lo hi) (x :: r) = firstn (Z.to_nat (hi - lo + 1)) (x :: r)).
      apply pick_from_between_in. lia.
    + unfold between at 1. destruct (lo <=? i) eqn:E; [apply Z.leb_le in E; lia|]. cbn [andb].
      replace (Z.to_nat (lo - i)) with (S (Z.to_nat (lo - (i + 1)))) by lia. cbn [skipn].
      apply IH. lia.
Qed.

Lemma pick_from_eq i p l :
  pick_from i (fun j => j =? p) l =
  if p <? i then [] else match nth_error l (Z.to_nat (p - i)) with Some x => [x] | None => [] end.
Proof.
  revert i. induction l as [|x r IH]; intros i; cbn [pick_from].
  - destruct (p <? i); [reflexivity|]. destruct (Z.to_nat (p - i)); reflexivity.
  - rewrite IH. destruct (i =? p) eqn:E; [apply Z.eqb_eq in E; subst i|apply Z.eqb_neq in E].
    + rewrite Z.ltb_irrefl. replace (Z.to_nat (p - p)) with O by lia. cbn [nth_error].
      destruct (p <? p + 1) eqn:E2; [reflexivity|apply Z.ltb_ge in E2; lia].
    + destruct (p <? i) eqn:E1; [apply Z.ltb_lt in E1|apply Z.ltb_ge in E1].
      * destruct (p <? i + 1) eqn:E2; [reflexivity|apply Z.ltb_ge in E2; lia].
      * destruct (p <? i + 1) eqn:E2; [apply Z.ltb_lt in E2; lia|].
        replace (Z.to_nat (p - i)) with (S (Z.to_nat (p - (i + 1)))) by lia. reflexivity.
Qed.

Lemma pick_eq_znth p l :
  pick (fun j => j =? p) l = match znth l p with Some x => [x] | None => [] end.
Proof.
  unfold pick, znth. rewrite pick_from_eq. rewrite Z.sub_0_r.
  destruct (p <? 0) eqn:E; cbn [orb]; [reflexivity|]. apply Z.ltb_ge in E.
  destruct (p >=? zlength l) eqn:E2; [|reflexivity].
  apply Z.geb_le in E2. unfold zlength in E2.
  assert (H : nth_error l (Z.to_nat p) = None) by (apply nth_error_None; lia).
  rewrite H. reflexivity.
Qed.

(* ---- LRANGE / LTRIM window ---- *)
Lemma range_elems_window s e l :
  range_elems s e l = match window (zlength l) s e with None => [] | Some (a, b) => zslice l a b end.
Proof.
  unfold range_elems, window, pick, pos_of, norm. set (n := zlength l).
  set (s' := if s <? 0 then n + s else s). set (e' := if e <? 0 then n + e else e).
  rewrite pick_from_between by lia.
  destruct ((s' >? e') || (s' >=? n) || (e' <? 0)) eqn:W.
  - assert (Z.min (n - 1) e' < Z.max 0 s').
    { apply orb_true_iff in W as [W|W]; [apply orb_true_iff in W as [W|W]|].
      - apply Z.gtb_lt in W. lia.
      - apply Z.geb_le in W. lia.
      - apply Z.ltb_lt in W. lia. }
    replace (Z.to_nat (Z.min (n - 1) e' - Z.max 0 s' + 1)) with O by lia. reflexivity.
  - apply orb_false_iff in W as [W W3]. apply orb_false_iff in W as [W1 W2].
    rewrite Z.gtb_ltb in W1. apply Z.ltb_ge in W1. rewrite Z.geb_leb in W2. apply Z.leb_gt in W2.
    apply Z.ltb_ge in W3. unfold zslice.
    destruct (s' <? 0) eqn:A; [apply Z.ltb_lt in A|apply Z.ltb_ge in A];
      (destruct (e' >=? n) eqn:Bq; [apply Z.geb_le in Bq|rewrite Z.geb_leb in Bq; apply Z.leb_gt in Bq]);
      f_equal; try (f_equal; lia); f_equal; lia.
Qed.

(* ---- LINDEX ---- *)
Lemma ref_lindex_model i l :
  fst (ref_lindex i l) = match znth l (norm (zlength l) i) with Some x => RBulk x | None => RNil end.
Proof.
  unfold ref_lindex. cbn [fst]. rewrite pick_eq_znth. unfold pos_of, norm.
  destruct (znth l (if i <? 0 then zlength l + i else i)); reflexivity.
Qed.

(* ---- LSET ---- *)
Lemma mapi_from_set i p v l :
  mapi_from i (fun j x => if j =? p then v else x) l =
  if p <? i then l else list_set l (Z.to_nat (p - i)) v.
Proof.
  revert i. induction l as [|x r IH]; intros i; cbn [mapi_from].
  - destruct (p <? i); reflexivity.
  - rewrite IH. destruct (i =? p) eqn:E; [apply Z.eqb_eq in E; subst i|apply Z.eqb_neq in E].
    + rewrite Z.ltb_irrefl. replace (Z.to_nat (p - p)) with O by lia. cbn [list_set].
      destruct (p <? p + 1) eqn:E2; [reflexivity|apply Z.ltb_ge in E2; lia].
    + destruct (p <? i) eqn:E1; [apply Z.ltb_lt in E1|apply Z.ltb_ge in E1].
      * destruct (p <? i + 1) eqn:E2; [reflexivity|apply Z.ltb_ge in E2; lia].
      * destruct (p <? i + 1) eqn:E2; [apply Z.ltb_lt in E2; lia|].
        replace (Z.to_nat (p - i)) with (S (Z.to_nat (p - (i + 1)))) by lia. reflexivity.
Qed.

Lemma list_set_length l i v : List.length (list_set l i v) = List.length l.
Proof. revert i. induction l as [|x r IH]; intros [|i]; cbn; auto. Qed.

Lemma list_set_nonempty l i v : l <> [] -> list_set l i v <> [].
Proof. destruct l; [congruence|]. destruct i; cbn; discriminate. Qed.

(* what LSET means element-wise *)
Lemma list_set_nth l i v j :
  (i < List.length l)%nat -> nth_error (list_set l i v) j = if Nat.eqb j i then Some v else nth_error l j.
Proof.
  revert i j. induction l as [|x r IH]; intros i j H; [cbn in H; lia|].
  destruct i as [|i]; destruct j as [|j]; cbn; try reflexivity.
  apply IH. cbn in H. lia.
Qed.

(* ---- pushes ---- *)
Lemma push_all_left vals l : push_all true vals l = rev vals ++ l.
Proof.
  unfold push_all. revert l. induction vals as [|v r IH]; intros l; cbn; [reflexivity|].
  rewrite IH. rewrite <- app_assoc. reflexivity.
Qed.
Lemma push_all_right vals l : push_all false vals l = l ++ vals.
Proof.
  unfold push_all. revert l. induction vals as [|v r IH]; intros l; cbn; [rewrite app_nil_r; reflexivity|].
  rewrite IH. rewrite <- app_assoc. reflexivity.
Qed.
Lemma push_all_model left vals l : push_all left vals l = if left then rev vals ++ l else l ++ vals.
Proof. destruct left; [apply push_all_left|apply push_all_right]. Qed.

(* ---- last element ---- *)
Lemma take_end_model left l :
  take_end left l =
  if left then match l with x :: r => Some (x, r) | [] => None end
  else match rev l with x :: r => Some (x, rev r) | [] => None end.
Proof.
  destruct left; [reflexivity|]. unfold take_end.
  destruct (rev l) as [|x r] eqn:E.
  - assert (l = []) by (rewrite <- (rev_involutive l), E; reflexivity). subst. reflexivity.
  - assert (L : l = rev r ++ [x]) by (rewrite <- (rev_involutive l), E; reflexivity).
    rewrite pick_eq_znth. unfold pick. rewrite pick_from_lt. rewrite Z.sub_0_r.
    unfold znth. subst l. rewrite zlength_app, zlength_rev, zlength_cons, zlength_nil.
    pose proof (zlength_nonneg r) as Hr.
    replace (zlength r + (0 + 1) - 1) with (zlength r) by lia.
    destruct (zlength r <? 0) eqn:E1; [apply Z.ltb_lt in E1; lia|].
    destruct (zlength r >=? zlength r + (0 + 1)) eqn:E2; [apply Z.geb_le in E2; lia|]. cbn [orb].
    unfold zlength. rewrite Nat2Z.id.
    rewrite nth_error_app2 by (rewrite rev_length; lia).
    rewrite rev_length, Nat.sub_diag. cbn [nth_error].
    rewrite firstn_app, rev_length, Nat.sub_diag. cbn [firstn].
    rewrite firstn_all2 by (rewrite rev_length; lia). rewrite app_nil_r. reflexivity.
Qed.

(* ---- LPOP / RPOP with a count ---- *)
Lemma firstn_min_len {A} c (l : list A) :
  firstn (Z.to_nat (Z.min c (zlength l))) l = firstn (Z.to_nat c) l.
Proof.
  unfold zlength. destruct (Z_le_gt_dec c (Z.of_nat (List.length l))) as [H|H].
  - rewrite Z.min_l by lia. reflexivity.
  - rewrite Z.min_r by lia. rewrite Nat2Z.id. rewrite !firstn_all2 by lia. reflexivity.
Qed.
Lemma skipn_min_len {A} c (l : list A) :
  skipn (Z.to_nat (Z.min c (zlength l))) l = skipn (Z.to_nat c) l.
Proof.
  unfold zlength. destruct (Z_le_gt_dec c (Z.of_nat (List.length l))) as [H|H].
  - rewrite Z.min_l by lia. reflexivity.
  - rewrite Z.min_r by lia. rewrite Nat2Z.id. rewrite !skipn_all2 by lia. reflexivity.
Qed.

Lemma popn_model left c l :
  0 <= c -> l <> [] ->
  ref_popn left c l =
  let n := Z.to_nat (Z.min c (zlength l)) in
  if left then (RArr (map RBulk (firstn n l)), skipn n l)
  else (RArr (map RBulk (firstn n (rev l))), rev (skipn n (rev l))).
Proof.
  intros Hc Hl. unfold ref_popn. destruct l as [|x0 r0]; [congruence|]. set (l := x0 :: r0) in *.
  cbv zeta. destruct left.
  - unfold pick. rewrite pick_from_lt, pick_from_ge. rewrite Z.sub_0_r.
    rewrite firstn_min_len, skipn_min_len. reflexivity.
  - unfold pick. rewrite pick_from_lt, pick_from_ge. rewrite !Z.sub_0_r.
    rewrite firstn_rev, skipn_rev, rev_involutive.
    assert (E : (List.length l - Z.to_nat (Z.min c (zlength l)))%nat = Z.to_nat (zlength l - c))
      by (unfold zlength; lia).
    rewrite E. reflexivity.
Qed.

(* ---- LREM ---- *)
Lemma lrem_model c v l :
  (if c =? 0 then let '(l', n) := remove_first v (List.length l) l in (RInt n, l')
   else if c >? 0 then
     let '(l', n) := remove_first v (Z.to_nat (Z.min c (zlength l))) l in (RInt n, l')
   else
     let '(l', n) := remove_first v (Z.to_nat (Z.min (- c) (zlength l))) (rev l) in (RInt n, rev l'))
  = ref_lrem c v l.
Proof.
  unfold ref_lrem. pose proof (occs_le_len v l) as Hle. pose proof (occs_nonneg v l) as H0.
  destruct (c =? 0) eqn:E0; [apply Z.eqb_eq in E0; subst c|apply Z.eqb_neq in E0].
  - rewrite remove_first_ref_pos. cbn [Z.gtb Z.ltb Z.compare]. f_equal.
    + f_equal. unfold zlength in Hle. lia.
    + apply rem_occ_from_ext. intros j Hj. unfold zlength in Hle.
      destruct (j <? Z.of_nat (List.length l)) eqn:E; [reflexivity|apply Z.ltb_ge in E; lia].
  - destruct (c >? 0) eqn:E1; [apply Z.gtb_lt in E1|rewrite Z.gtb_ltb in E1; apply Z.ltb_ge in E1].
    + rewrite remove_first_ref_pos. f_equal.
      * f_equal. unfold zlength in *. lia.
      * apply rem_occ_from_ext. intros j Hj. unfold zlength in *.
        destruct (j <? c) eqn:A; [apply Z.ltb_lt in A|apply Z.ltb_ge in A];
          destruct (j <? Z.of_nat (Z.to_nat (Z.min c (Z.of_nat (List.length l))))) eqn:Bq;
          try reflexivity; [apply Z.ltb_ge in Bq|apply Z.ltb_lt in Bq]; lia.
    + destruct (c <? 0) eqn:E2; [apply Z.ltb_lt in E2|apply Z.ltb_ge in E2; lia].
      rewrite remove_first_ref_neg. rewrite rev_involutive. f_equal.
      * f_equal. unfold zlength in *. lia.
      * apply rem_occ_from_ext. intros j Hj. unfold zlength in *.
        destruct (j >=? occs v l + c) eqn:A; [apply Z.geb_le in A|rewrite Z.geb_leb in A; apply Z.leb_gt in A];
          destruct (j >=? occs v l - Z.of_nat (Z.to_nat (Z.min (- c) (Z.of_nat (List.length l))))) eqn:Bq;
          try reflexivity; [rewrite Z.geb_leb in Bq; apply Z.leb_gt in Bq|apply Z.geb_le in Bq]; lia.
Qed.

(* the reference clause of LREM as multiset/length facts: exactly the reported number of copies
   of v disappears, every other element stays *)
Lemma rem_occ_from_length o p v l :
  zlength (rem_occ_from o p v l) + zlength (filter p (map (fun j => o + Z.of_nat j) (seq 0 (Z.to_nat (occs v l))))) = zlength l.
Proof.
  revert o. induction l as [|x r IH]; intros o; [reflexivity|].
  cbn [rem_occ_from]. destruct (bytes_eqb x v) eqn:E.
  - rewrite (occs_cons_eq _ _ _ E). pose proof (occs_nonneg v r) as Hr.
    replace (Z.to_nat (occs v r + 1)) with (S (Z.to_nat (occs v r))) by lia.
    cbn [seq map filter]. rewrite <- seq_shift, map_map.
    replace (o + Z.of_nat 0) with o by lia.
    specialize (IH (o + 1)).
    rewrite (map_ext (fun j => o + Z.of_nat (S j)) (fun j => o + 1 + Z.of_nat j)) by (intros; lia).
    destruct (p o); rewrite ?zlength_cons in *; lia.
  - rewrite (occs_cons_ne _ _ _ E). rewrite !zlength_cons. specialize (IH o). lia.
Qed.

(* ---- LPOS ---- *)
Definition to_ref (o : lposopts) : lpos_opts := mkRefLpos (lp_rank o) (lp_count o) (lp_maxlen o).
Definition lpos_ok (o : lposopts) : Prop :=
  lp_rank o <> 0 /\ 0 <= lp_maxlen o /\ match lp_count o with Some c => 0 <= c | None => True end.

Lemma lpos_parse_ref_n n : forall opts o, (List.length opts <= n)%nat ->
  option_map to_ref (lpos_parse opts o) = ref_lpos_opts opts (to_ref o).
Proof.
  induction n as [|n IH]; intros opts o Hn.
  - destruct opts; [reflexivity|cbn in Hn; lia].
  - destruct opts as [|name [|v rest]]; [reflexivity|reflexivity|].
    cbn [lpos_parse ref_lpos_opts]. destruct (atoi64 v) as [x|].
    2:{ destruct (is (lower name) (B "rank") || is (lower name) (B "count") || is (lower name) (B "maxlen")); reflexivity. }
    assert (Hr : (List.length rest <= n)%nat) by (cbn in Hn; lia).
    destruct (is (lower name) (B "rank")).
    { destruct (x =? 0); [reflexivity|]. rewrite IH by exact Hr. reflexivity. }
    destruct (is (lower name) (B "count")).
    { destruct (x <? 0); [reflexivity|]. rewrite IH by exact Hr. reflexivity. }
    destruct (is (lower name) (B "maxlen")).
    { destruct (x <? 0); [reflexivity|]. rewrite IH by exact Hr. reflexivity. }
    reflexivity.
Qed.
Lemma lpos_parse_ref opts o : option_map to_ref (lpos_parse opts o) = ref_lpos_opts opts (to_ref o).
Proof. apply (lpos_parse_ref_n (List.length opts)). lia. Qed.

Lemma lpos_parse_ok_n n : forall opts o o', (List.length opts <= n)%nat ->
  lpos_ok o -> lpos_parse opts o = Some o' -> lpos_ok o'.
Proof.
  induction n as [|n IH]; intros opts o o' Hn Hok H.
  - destruct opts; [cbn in H; congruence|cbn in Hn; lia].
  - destruct opts as [|name [|v rest]]; [cbn in H; congruence|discriminate|].
    cbn [lpos_parse] in H. destruct (atoi64 v) as [x|].
    2:{ destruct (is (lower name) (B "rank") || is (lower name) (B "count") || is (lower name) (B "maxlen")); discriminate. }
    assert (Hr : (List.length rest <= n)%nat) by (cbn in Hn; lia).
    destruct Hok as (R & M & C).
    destruct (is (lower name) (B "rank")).
    { destruct (x =? 0) eqn:E; [discriminate|]. apply Z.eqb_neq in E.
      eapply IH; [exact Hr| |exact H]. repeat split; cbn; assumption. }
    destruct (is (lower name) (B "count")).
    { destruct (x <? 0) eqn:E; [discriminate|]. apply Z.ltb_ge in E.
      eapply IH; [exact Hr| |exact H]. repeat split; cbn; assumption. }
    destruct (is (lower name) (B "maxlen")).
    { destruct (x <? 0) eqn:E; [discriminate|]. apply Z.ltb_ge in E.
      eapply IH; [exact Hr| |exact H]. repeat split; cbn; assumption. }
    discriminate.
Qed.
Lemma lpos_parse_ok opts o' : lpos_parse opts (mkLpos 1 None 0) = Some o' -> lpos_ok o'.
Proof.
  apply (lpos_parse_ok_n (List.length opts)); [lia|]. repeat split; cbn; lia.
Qed.

Lemma lpos_model o v l :
  lpos_ok o ->
  map (fun i => if lp_rank o <? 0 then zlength l - i - 1 else i)
      (lpos_scan (if lp_rank o <? 0 then rev l else l) v 0 0 (Z.abs (lp_rank o)) (lp_maxlen o) (lp_count o) 0)
  = ref_lpos_positions (to_ref o) v l.
Proof.
  intros (R & M & C). unfold ref_lpos_positions, to_ref. cbn [o_rank o_count o_maxlen].
  rewrite lpos_scan_ref by (try lia; exact C). cbv zeta.
  apply map_ext. intros i. destruct (lp_rank o <? 0); lia.
Qed.

(* ================================================================== part 2: the keyspace *)
(* the value invariant of the family: no empty list is ever stored *)
Definition value_ok_list (v : value) : Prop := match v with VList l => l <> [] | _ => True end.
Definition lists_ok (d : db) : Prop := forall k v, db_get d k = Some v -> value_ok_list v.

Lemma lists_ok_empty : lists_ok empty_db.
Proof. intros k v H. discriminate. Qed.

Lemma lists_ok_purge d now : lists_ok d -> lists_ok (purge d now).
Proof.
  intros H k v G. rewrite db_get_purge in G. destruct (expired d now k); [discriminate|].
  eapply H; exact G.
Qed.

Lemma db_get_set_same d k v : db_get (db_set d k v) k = Some v.
Proof. unfold db_get, db_set. cbn. apply alookup_aset_same. Qed.
Lemma db_get_set_other d k k0 v : k0 <> k -> db_get (db_set d k v) k0 = db_get d k0.
Proof. intros N. unfold db_get, db_set. cbn. apply alookup_aset_other. exact N. Qed.
Lemma db_get_del_same d k : db_get (db_del d k) k = None.
Proof. unfold db_get, db_del. cbn. apply alookup_aremove_same. Qed.
Lemma db_get_del_other d k k0 : k0 <> k -> db_get (db_del d k) k0 = db_get d k0.
Proof. intros N. unfold db_get, db_del. cbn. apply alookup_aremove_other. exact N. Qed.
Lemma db_ttl_set d k v k0 : db_ttl (db_set d k v) k0 = db_ttl d k0.
Proof. reflexivity. Qed.
Lemma db_ttl_del_same d k : db_ttl (db_del d k) k = None.
Proof. unfold db_ttl, db_del. cbn. apply alookup_aremove_same. Qed.
Lemma db_ttl_del_other d k k0 : k0 <> k -> db_ttl (db_del d k) k0 = db_ttl d k0.
Proof. intros N. unfold db_ttl, db_del. cbn. apply alookup_aremove_other. exact N. Qed.

(* a deadline belongs to a stored key *)
Lemma wf_ttl_get d k : db_wf d -> db_get d k = None -> db_ttl d k = None.
Proof.
  intros (_ & _ & H3) G. unfold db_get, db_ttl in *.
  destruct (alookup k (ttl d)) eqn:E; [|reflexivity].
  apply alookup_Some_in in E. apply H3 in E. apply alookup_None_notin in G. contradiction.
Qed.

(* the updates list commands perform *)
Inductive lupd : db -> db -> Prop :=
| lupd_refl d : lupd d d
| lupd_set d k l : l <> [] -> lupd d (db_set d k (VList l))
| lupd_del d k : lupd d (db_del d k)
| lupd_trans d1 d2 d3 : lupd d1 d2 -> lupd d2 d3 -> lupd d1 d3.

Lemma lupd_wf d d' : lupd d d' -> db_wf d -> db_wf d'.
Proof. induction 1; intros W; auto using db_wf_set, db_wf_del. Qed.

Lemma lupd_ok d d' : lupd d d' -> lists_ok d -> lists_ok d'.
Proof.
  induction 1 as [d|d k l Hl|d k|d1 d2 d3 _ IH1 _ IH2]; intros Hok; auto.
  - intros k0 v G. destruct (bytes_eq_dec k0 k) as [->|N].
    + rewrite db_get_set_same in G. inversion G; subst. exact Hl.
    + rewrite db_get_set_other in G by exact N. eapply Hok; exact G.
  - intros k0 v G. destruct (bytes_eq_dec k0 k) as [->|N].
    + rewrite db_get_del_same in G. discriminate.
    + rewrite db_get_del_other in G by exact N. eapply Hok; exact G.
Qed.

(* list commands never create or change a deadline *)
Lemma lupd_ttl d d' : lupd d d' -> forall k t, db_ttl d' k = Some t -> db_ttl d k = Some t.
Proof.
  induction 1 as [d|d k l Hl|d k|d1 d2 d3 _ IH1 _ IH2]; intros k0 t G; auto.
  destruct (bytes_eq_dec k0 k) as [->|N].
  - rewrite db_ttl_del_same in G. discriminate.
  - rewrite db_ttl_del_other in G by exact N. exact G.
Qed.

Lemma put_list_nonempty d k l : l <> [] -> put_list d k l = db_set d k (VList l).
Proof. destruct l; [congruence|reflexivity]. Qed.
Lemma lupd_put d k l : lupd d (put_list d k l).
Proof. destruct l; [apply lupd_del|apply lupd_set; discriminate]. Qed.

Lemma raw_view_put_same d k l : raw_view (put_list d k l) k = stored l (db_ttl d k).
Proof. destruct l; [apply raw_view_del_same|apply raw_view_set_same]. Qed.
Lemma raw_view_put_other d k k0 l : k0 <> k -> raw_view (put_list d k l) k0 = raw_view d k0.
Proof. intros N. destruct l; [apply raw_view_del_other|apply raw_view_set_other]; exact N. Qed.

(* what the executors' lookup means in terms of the observable view *)
Lemma get_list_view d k :
  db_wf d -> lists_ok d ->
  match get_list d k with
  | LMissing => raw_view d k = None /\ db_ttl d k = None
  | LWrong => as_list (raw_view d k) = None
  | LFound l => raw_view d k = Some (VList l, db_ttl d k) /\ l <> []
  end.
Proof.
  intros W Hok. unfold get_list, raw_view. destruct (db_get d k) as [v|] eqn:G.
  - destruct v; try reflexivity. split; [reflexivity|]. apply (Hok k _ G).
  - split; [reflexivity|]. apply wf_ttl_get; assumption.
Qed.

Lemma stored_nonempty l t : l <> [] -> stored l t = Some (VList l, t).
Proof. destruct l; [congruence|reflexivity]. Qed.

(* the schema "typed single-key command": lookup, WRONGTYPE, act on the list value, store back /
   delete when empty *)
Lemma ckey_ok d k f r d' :
  db_wf d -> lists_ok d ->
  match get_list d k with
  | LWrong => r = err_wrongtype /\ d' = d
  | LMissing => r = fst (f []) /\ ((snd (f []) = [] /\ d' = d) \/ d' = put_list d k (snd (f [])))
  | LFound l => r = fst (f l) /\ ((snd (f l) = l /\ d' = d) \/ d' = put_list d k (snd (f l)))
  end ->
  accepts (CKey k f) (raw_view d) (raw_view d') r /\ lupd d d'.
Proof.
  intros W Hok H. pose proof (get_list_view d k W Hok) as V. cbn [accepts].
  destruct (get_list d k) as [| |l].
  - destruct V as [V T]. rewrite V. cbn [as_list deadline_of]. destruct H as [-> [[E ->]| ->]].
    + split; [|apply lupd_refl]. split; [reflexivity|]. split; [rewrite E, V; reflexivity|intros k0 _; reflexivity].
    + split; [|apply lupd_put]. split; [reflexivity|]. split.
      * rewrite raw_view_put_same, T. reflexivity.
      * intros k0 N. apply raw_view_put_other. intros ->. apply N. left; reflexivity.
  - rewrite V. destruct H as [-> ->]. split; [|apply lupd_refl]. split; [reflexivity|intros k0; reflexivity].
  - destruct V as [V Hl]. rewrite V. cbn [as_list deadline_of]. destruct H as [-> [[E ->]| ->]].
    + split; [|apply lupd_refl]. split; [reflexivity|].
      split; [rewrite E, V, stored_nonempty by exact Hl; reflexivity|intros k0 _; reflexivity].
    + split; [|apply lupd_put]. split; [reflexivity|]. split.
      * rewrite raw_view_put_same. reflexivity.
      * intros k0 N. apply raw_view_put_other. intros ->. apply N. left; reflexivity.
Qed.

Lemma cerr_ok d : accepts CErr (raw_view d) (raw_view d) err_other /\ lupd d d.
Proof. split; [split; [reflexivity|intros k; reflexivity]|apply lupd_refl]. Qed.

Ltac inv_pair H := inversion H; subst; clear H.
Ltac err_case H := inv_pair H; apply cerr_ok.

(* ---------------------------------------------------------------- per executor *)
Definition step_ok (n : bytes) (args : list bytes) (d : db) (r : reply) (d' : db) : Prop :=
  exists c, ref_clause n args = Some c /\ accepts c (raw_view d) (raw_view d') r /\ lupd d d'.

Lemma exec_llen_ok d args r d' :
  db_wf d -> lists_ok d -> exec_llen d args = (r, d') -> step_ok (B "llen") args d r d'.
Proof.
  intros W Hok H. eexists. split; [reflexivity|]. unfold exec_llen in H.
  destruct args as [|a0 [|k [|a2 args]]]; try (err_case H).
  apply ckey_ok; [assumption..|].
  destruct (get_list d k); inv_pair H; split; try reflexivity; left; split; reflexivity.
Qed.

Lemma exec_lindex_ok d args r d' :
  db_wf d -> lists_ok d -> exec_lindex d args = (r, d') -> step_ok (B "lindex") args d r d'.
Proof.
  intros W Hok H. eexists. split; [reflexivity|]. unfold exec_lindex in H.
  destruct args as [|a0 [|k [|i [|a3 args]]]]; try (err_case H).
  unfold int_arg. destruct (atoi64 i) as [z|]; [|err_case H].
  apply ckey_ok; [assumption..|].
  destruct (get_list d k) as [| |l].
  - inv_pair H. split; [reflexivity|left; split; reflexivity].
  - inv_pair H. split; reflexivity.
  - rewrite ref_lindex_model.
    destruct (znth l (norm (zlength l) z)); inv_pair H; (split; [reflexivity|left; split; reflexivity]).
Qed.

Lemma exec_lrange_ok d args r d' :
  db_wf d -> lists_ok d -> exec_lrange d args = (r, d') -> step_ok (B "lrange") args d r d'.
Proof.
  intros W Hok H. eexists. split; [reflexivity|]. unfold exec_lrange in H.
  destruct args as [|a0 [|k [|s [|e [|a4 args]]]]]; try (err_case H).
  unfold int_arg. destruct (atoi64 s) as [zs|]; [|err_case H].
  destruct (atoi64 e) as [ze|]; [|err_case H].
  apply ckey_ok; [assumption..|].
  destruct (get_list d k) as [| |l].
  - inv_pair H. split; [reflexivity|left; split; reflexivity].
  - inv_pair H. split; reflexivity.
  - unfold ref_lrange. cbn [fst snd]. rewrite range_elems_window.
    destruct (window (zlength l) zs ze) as [[a b]|]; inv_pair H; (split; [reflexivity|left; split; reflexivity]).
Qed.

Lemma exec_ltrim_ok d args r d' :
  db_wf d -> lists_ok d -> exec_ltrim d args = (r, d') -> step_ok (B "ltrim") args d r d'.
Proof.
  intros W Hok H. eexists. split; [reflexivity|]. unfold exec_ltrim in H.
  destruct args as [|a0 [|k [|s [|e [|a4 args]]]]]; try (err_case H).
  unfold int_arg. destruct (atoi64 s) as [zs|]; [|err_case H].
  destruct (atoi64 e) as [ze|]; [|err_case H].
  apply ckey_ok; [assumption..|].
  destruct (get_list d k) as [| |l].
  - inv_pair H. split; [reflexivity|left; split; reflexivity].
  - inv_pair H. split; reflexivity.
  - unfold ref_ltrim. cbn [fst snd]. rewrite range_elems_window.
    destruct (window (zlength l) zs ze) as [[a b]|]; inv_pair H; (split; [reflexivity|right; reflexivity]).
Qed.

Lemma exec_lset_ok d args r d' :
  db_wf d -> lists_ok d -> exec_lset d args = (r, d') -> step_ok (B "lset") args d r d'.
Proof.
  intros W Hok H. eexists. split; [reflexivity|]. unfold exec_lset in H.
  destruct args as [|a0 [|k [|i [|v [|a4 args]]]]]; try (err_case H).
  unfold int_arg. destruct (atoi64 i) as [z|]; [|err_case H].
  apply ckey_ok; [assumption..|].
  pose proof (get_list_view d k W Hok) as V.
  destruct (get_list d k) as [| |l].
  - inv_pair H. unfold ref_lset, pos_of. change (zlength (@nil bytes)) with 0.
    assert (E : ((if z <? 0 then 0 + z else z) <? 0) || ((if z <? 0 then 0 + z else z) >=? 0) = true).
    { destruct (z <? 0) eqn:A; [apply Z.ltb_lt in A|apply Z.ltb_ge in A].
      - apply orb_true_iff. left. apply Z.ltb_lt. lia.
      - apply orb_true_iff. right. apply Z.geb_le. lia. }
    rewrite E. split; [reflexivity|left; split; reflexivity].
  - inv_pair H. split; reflexivity.
  - destruct V as [_ Hl]. unfold ref_lset. fold (norm (zlength l) z). unfold pos_of in *.
    change (if z <? 0 then zlength l + z else z) with (norm (zlength l) z).
    destruct ((norm (zlength l) z <? 0) || (norm (zlength l) z >=? zlength l)) eqn:E.
    + inv_pair H. split; [reflexivity|left; split; reflexivity].
    + inv_pair H. cbn [fst snd]. split; [reflexivity|right].
      rewrite mapi_from_set. apply orb_false_iff in E as [E _]. rewrite E. rewrite Z.sub_0_r.
      rewrite put_list_nonempty by (apply list_set_nonempty; exact Hl). reflexivity.
Qed.

Lemma push_cmd_ok left create d args r d' n :
  db_wf d -> lists_ok d -> push_cmd left create d args = (r, d') ->
  ref_clause n args = Some (match args with
                            | _ :: k :: ((_ :: _) as vals) =>
                              CKey k (if create then ref_push left vals else ref_pushx left vals)
                            | _ => CErr end) ->
  step_ok n args d r d'.
Proof.
  intros W Hok H RC. eexists. split; [exact RC|]. unfold push_cmd in H.
  destruct args as [|a0 [|k [|v0 vals]]]; try (err_case H).
  pose proof (get_list_view d k W Hok) as V.
  assert (NE : forall l, push_all left (v0 :: vals) l <> []).
  { intros l. rewrite push_all_model. destruct left.
    - cbn [rev]. intros E. apply app_eq_nil in E as [E _]. apply app_eq_nil in E as [_ E]. discriminate.
    - intros E. apply app_eq_nil in E as [_ E]. discriminate. }
  apply ckey_ok; [assumption..|].
  destruct (get_list d k) as [| |l].
  - destruct create; inv_pair H.
    + unfold ref_push. cbn [fst snd]. rewrite push_all_model. split; [reflexivity|right].
      rewrite put_list_nonempty; [reflexivity|]. rewrite <- push_all_model. apply NE.
    + split; [reflexivity|left; split; reflexivity].
  - inv_pair H. split; reflexivity.
  - destruct V as [_ Hl]. inv_pair H.
    assert (E : (if create then ref_push left (v0 :: vals) else ref_pushx left (v0 :: vals)) l
                = ref_push left (v0 :: vals) l).
    { destruct create; [reflexivity|]. unfold ref_pushx. destruct l; [congruence|reflexivity]. }
    rewrite E. unfold ref_push. cbn [fst snd]. rewrite push_all_model. split; [reflexivity|right].
    rewrite put_list_nonempty; [reflexivity|]. rewrite <- push_all_model. apply NE.
Qed.

Lemma pop_cmd_ok left d args r d' n :
  db_wf d -> lists_ok d -> pop_cmd left d args = (r, d') ->
  ref_clause n args = Some (match args with
          | [_; k] => CKey k (ref_pop1 left)
          | [_; k; c] =>
            match int_arg c with
            | None => CErr
            | Some c => if c <? 0 then CErr else CKey k (ref_popn left c)
            end
          | _ => CErr end) ->
  step_ok n args d r d'.
Proof.
  intros W Hok H RC. eexists. split; [exact RC|]. unfold pop_cmd in H.
  destruct args as [|a0 [|k [|c [|a3 args]]]]; try (err_case H).
  - (* no count *)
    pose proof (get_list_view d k W Hok) as V.
    apply ckey_ok; [assumption..|].
    destruct (get_list d k) as [| |l].
    + inv_pair H. unfold ref_pop1. destruct left; (split; [reflexivity|left; split; reflexivity]).
    + inv_pair H. split; reflexivity.
    + destruct V as [_ Hl]. unfold ref_pop1. rewrite take_end_model. destruct left.
      * destruct l as [|x l0]; [congruence|]. inv_pair H. split; [reflexivity|right; reflexivity].
      * destruct (rev l) as [|x l0] eqn:E.
        { exfalso. apply Hl. rewrite <- (rev_involutive l), E. reflexivity. }
        inv_pair H. split; [reflexivity|right; reflexivity].
  - (* count *)
    unfold int_arg. destruct (atoi64 c) as [z|]; [|err_case H].
    destruct (z <? 0) eqn:E1; [err_case H|]. apply Z.ltb_ge in E1.
    pose proof (get_list_view d k W Hok) as V.
    apply ckey_ok; [assumption..|].
    destruct (get_list d k) as [| |l].
    + inv_pair H. split; [reflexivity|left; split; reflexivity].
    + inv_pair H. split; reflexivity.
    + destruct V as [_ Hl]. rewrite popn_model by (try lia; exact Hl). cbv zeta.
      destruct left; inv_pair H; (split; [reflexivity|right; reflexivity]).
Qed.

Lemma exec_lrem_ok d args r d' :
  db_wf d -> lists_ok d -> exec_lrem d args = (r, d') -> step_ok (B "lrem") args d r d'.
Proof.
  intros W Hok H. eexists. split; [reflexivity|]. unfold exec_lrem in H.
  destruct args as [|a0 [|k [|c [|v [|a4 args]]]]]; try (err_case H).
  unfold int_arg. destruct (atoi64 c) as [z|]; [|err_case H].
  apply ckey_ok; [assumption..|].
  destruct (get_list d k) as [| |l].
  - inv_pair H. unfold ref_lrem. change (occs v []) with 0. cbn [rem_occ_from].
    destruct (z >? 0) eqn:A.
    + apply Z.gtb_lt in A. rewrite Z.min_r by lia. split; [reflexivity|left; split; reflexivity].
    + destruct (z <? 0) eqn:Bq.
      * apply Z.ltb_lt in Bq. rewrite Z.min_r by lia. split; [reflexivity|left; split; reflexivity].
      * split; [reflexivity|left; split; reflexivity].
  - inv_pair H. split; reflexivity.
  - pose proof (lrem_model z v l) as M.
    destruct (z =? 0).
    + destruct (remove_first v (List.length l) l) as [l' n]. rewrite <- M. inv_pair H.
      split; [reflexivity|right; reflexivity].
    + destruct (z >? 0).
      * destruct (remove_first v (Z.to_nat (Z.min z (zlength l))) l) as [l' n]. rewrite <- M. inv_pair H.
        split; [reflexivity|right; reflexivity].
      * destruct (remove_first v (Z.to_nat (Z.min (- z) (zlength l))) (rev l)) as [l' n]. rewrite <- M. inv_pair H.
        split; [reflexivity|right; reflexivity].
Qed.

Lemma exec_lpos_ok d args r d' :
  db_wf d -> lists_ok d -> exec_lpos d args = (r, d') -> step_ok (B "lpos") args d r d'.
Proof.
  intros W Hok H. eexists. split; [reflexivity|]. unfold exec_lpos in H.
  destruct args as [|a0 [|k [|v opts]]]; try (err_case H).
  pose proof (lpos_parse_ref opts (mkLpos 1 None 0)) as PR.
  pose proof (lpos_parse_ok opts) as PO.
  change (to_ref (mkLpos 1 None 0)) with (mkRefLpos 1 None 0) in PR.
  destruct (lpos_parse opts (mkLpos 1 None 0)) as [o|]; cbn [option_map] in PR; rewrite <- PR; [|err_case H].
  specialize (PO o eq_refl).
  apply ckey_ok; [assumption..|].
  destruct (get_list d k) as [| |l].
  - inv_pair H. unfold ref_lpos, ref_lpos_positions, to_ref. cbn [o_rank o_count o_maxlen fst snd].
    assert (E : forall b : bool, hits_from 0 v (if b then rev [] else []) = []) by (intros []; reflexivity).
    rewrite E. cbn [filter]. replace (if lp_maxlen o =? 0 then [] else []) with (@nil Z) by (destruct (lp_maxlen o =? 0); reflexivity).
    rewrite skipn_nil.
    destruct (lp_count o) as [c|].
    + replace (if c =? 0 then [] else firstn (Z.to_nat c) []) with (@nil Z)
        by (destruct (c =? 0); [reflexivity|rewrite firstn_nil; reflexivity]).
      split; [reflexivity|left; split; reflexivity].
    + split; [reflexivity|left; split; reflexivity].
  - inv_pair H. split; reflexivity.
  - cbv zeta in H. rewrite (lpos_model o v l PO) in H. unfold ref_lpos. cbn [fst snd].
    change (o_count (to_ref o)) with (lp_count o).
    destruct (lp_count o).
    + inv_pair H. split; [reflexivity|left; split; reflexivity].
    + destruct (ref_lpos_positions (to_ref o) v l); inv_pair H; (split; [reflexivity|left; split; reflexivity]).
Qed.

Lemma take_end_nonempty left l : l <> [] -> exists x l', take_end left l = Some (x, l').
Proof.
  intros Hl. rewrite take_end_model. destruct left.
  - destruct l as [|x r]; [congruence|eauto].
  - destruct (rev l) as [|x r] eqn:E; [|eauto].
    exfalso. apply Hl. rewrite <- (rev_involutive l), E. reflexivity.
Qed.

Lemma put_end_nonempty left x l : put_end left x l <> [].
Proof. destruct left; cbn; [discriminate|]. intros E. apply app_eq_nil in E as [_ E]. discriminate. Qed.

Lemma db_ttl_put_other d k k0 l : k0 <> k -> db_ttl (put_list d k l) k0 = db_ttl d k0.
Proof. intros N. destruct l; cbn [put_list]; [apply db_ttl_del_other; exact N|apply db_ttl_set]. Qed.

Lemma exec_lmove_ok d args r d' :
  db_wf d -> lists_ok d -> exec_lmove d args = (r, d') -> step_ok (B "lmove") args d r d'.
Proof.
  intros W Hok H. eexists. split; [reflexivity|]. unfold exec_lmove in H.
  destruct args as [|a0 [|src [|dst [|sd [|dd [|a5 args]]]]]]; try (err_case H).
  cbv zeta in H. unfold lower_is.
  set (sl := is (lower sd) (B "left")) in *. set (sr := is (lower sd) (B "right")) in *.
  set (dl := is (lower dd) (B "left")) in *. set (dr := is (lower dd) (B "right")) in *.
  assert (DIR : forall (l r : bool), (if l then Some true else if r then Some false else None) =
                                     if l || r then Some l else None)
    by (intros [] []; reflexivity).
  rewrite (DIR sl sr), (DIR dl dr).
  destruct (sl || sr) eqn:S1; [|cbn [andb negb] in H; err_case H].
  destruct (dl || dr) eqn:S2; [|cbn [andb negb] in H; err_case H].
  cbn [andb negb] in H.
  pose proof (get_list_view d src W Hok) as Vs. pose proof (get_list_view d dst W Hok) as Vd.
  cbn [accepts].
  destruct (get_list d src) as [| |l] eqn:Gs.
  - (* source missing *)
    destruct Vs as [Vs _]. inv_pair H. rewrite Vs. cbn [as_list].
    assert (E : take_end sl [] = None) by (destruct sl; reflexivity). rewrite E.
    split; [split; [reflexivity|intros k; reflexivity]|apply lupd_refl].
  - inv_pair H. rewrite Vs. split; [split; [reflexivity|intros k; reflexivity]|apply lupd_refl].
  - destruct Vs as [Vs Hl]. rewrite Vs. cbn [as_list deadline_of].
    destruct (take_end_nonempty sl l Hl) as (x & l' & TE). rewrite TE.
    rewrite <- (take_end_model sl l) in H. rewrite TE in H.
    destruct (get_list d dst) as [| |ld] eqn:Gd.
    + (* destination missing: created *)
      destruct Vd as [Vd Td]. rewrite Vd. cbn [as_list deadline_of].
      destruct (bytes_eqb_spec src dst) as [->|N].
      { rewrite Gs in Gd. discriminate. }
      inv_pair H. split; [|eapply lupd_trans; [apply lupd_put|apply lupd_set; apply (put_end_nonempty dl x [])]].
      split; [reflexivity|]. split; [|split].
      * intros k Hk. rewrite raw_view_set_other by (intros ->; apply Hk; right; left; reflexivity).
        apply raw_view_put_other. intros ->. apply Hk. left; reflexivity.
      * rewrite raw_view_set_other by exact N. apply raw_view_put_same.
      * rewrite raw_view_set_same.
        assert (T : db_ttl (put_list d src l') dst = None).
        { rewrite db_ttl_put_other by congruence. exact Td. }
        rewrite T. unfold put_end. destruct dl; reflexivity.
    + rewrite Vd. inv_pair H. split; [split; [reflexivity|intros k; reflexivity]|apply lupd_refl].
    + destruct Vd as [Vd Hld]. rewrite Vd. cbn [as_list deadline_of].
      destruct (bytes_eqb_spec src dst) as [<-|N].
      * (* rotation *)
        inv_pair H. split; [|apply lupd_set; apply (put_end_nonempty dl x l')].
        split; [reflexivity|]. split.
        -- intros k Hk. apply raw_view_set_other. intros ->. apply Hk. left; reflexivity.
        -- rewrite raw_view_set_same. unfold put_end.
           destruct dl; [reflexivity|]. rewrite stored_nonempty; [reflexivity|].
           intros E. apply app_eq_nil in E as [_ E]. discriminate.
      * inv_pair H. split; [|eapply lupd_trans; [apply lupd_put|apply lupd_set; apply (put_end_nonempty dl x ld)]].
        split; [reflexivity|]. split; [|split].
        -- intros k Hk. rewrite raw_view_set_other by (intros ->; apply Hk; right; left; reflexivity).
           apply raw_view_put_other. intros ->. apply Hk. left; reflexivity.
        -- rewrite raw_view_set_other by exact N. apply raw_view_put_same.
        -- rewrite raw_view_set_same.
           assert (T : db_ttl (put_list d src l') dst = db_ttl d dst).
           { apply db_ttl_put_other. congruence. }
           rewrite T. rewrite stored_nonempty by apply put_end_nonempty.
           unfold put_end. destruct dl; reflexivity.
Qed.
