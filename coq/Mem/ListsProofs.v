(* C09: every list executor of the model (Mem/Lists.v) satisfies its clause of the reference
   (Mem/ListsSpec.v), for all lists, indexes, counts and byte strings; the invariants. *)
Require Import Base.Bytes Base.GoInt Base.Reply Mem.Types Mem.Inv Mem.Lists Mem.ListsSpec.
Require Import Mem.ListsLposProofs Mem.ListsLremProofs.
Require Import Lia.
Local Open Scope Z_scope.

(* ================================================================== part 1: list values *)
Lemma zlength_cons {A} (x : A) r : zlength (x :: r) = zlength r + 1.
Proof. unfold zlength. change (List.length (x :: r)) with (S (List.length r)). rewrite Nat2Z.inj_succ. lia. Qed.
Lemma zlength_nil {A} : zlength (@nil A) = 0.
Proof. reflexivity. Qed.
Lemma zlength_nonneg {A} (l : list A) : 0 <= zlength l.
Proof. unfold zlength. lia. Qed.
Lemma zlength_app {A} (l1 l2 : list A) : zlength (l1 ++ l2) = zlength l1 + zlength l2.
Proof. unfold zlength. rewrite app_length. lia. Qed.
Lemma zlength_rev {A} (l : list A) : zlength (rev l) = zlength l.
Proof. unfold zlength. rewrite rev_length. reflexivity. Qed.

(* ---- pick ---- *)
Lemma pick_from_ext i p q l :
  (forall j, i <= j < i + zlength l -> p j = q j) -> pick_from i p l = pick_from i q l.
Proof.
  revert i. induction l as [|x r IH]; intros i H; cbn [pick_from]; [reflexivity|].
  rewrite zlength_cons in H. pose proof (zlength_nonneg r) as Hr.
  rewrite (H i) by lia. rewrite (IH (i + 1)) by (intros j Hj; apply H; lia). reflexivity.
Qed.

Lemma pick_from_lt i c l : pick_from i (fun j => j <? c) l = firstn (Z.to_nat (c - i)) l.
Proof.
  revert i. induction l as [|x r IH]; intros i; cbn [pick_from]; [rewrite firstn_nil; reflexivity|].
  destruct (i <? c) eqn:E; [apply Z.ltb_lt in E|apply Z.ltb_ge in E].
  - replace (Z.to_nat (c - i)) with (S (Z.to_nat (c - (i + 1)))) by lia.
    cbn [firstn]. rewrite IH. reflexivity.
  - replace (Z.to_nat (c - i)) with O by lia. cbn [firstn].
    rewrite IH. replace (Z.to_nat (c - (i + 1))) with O by lia. reflexivity.
Qed.

Lemma pick_from_ge i c l : pick_from i (fun j => j >=? c) l = skipn (Z.to_nat (c - i)) l.
Proof.
  revert i. induction l as [|x r IH]; intros i; cbn [pick_from]; [rewrite skipn_nil; reflexivity|].
  destruct (i >=? c) eqn:E; [apply Z.geb_le in E|rewrite Z.geb_leb in E; apply Z.leb_gt in E].
  - replace (Z.to_nat (c - i)) with O by lia. cbn [skipn].
    rewrite IH. replace (Z.to_nat (c - (i + 1))) with O by lia. reflexivity.
  - replace (Z.to_nat (c - i)) with (S (Z.to_nat (c - (i + 1)))) by lia.
    cbn [skipn]. apply IH.
Qed.

Lemma pick_from_between_in i lo hi l :
  lo <= i -> pick_from i (between lo hi) l = firstn (Z.to_nat (hi - i + 1)) l.
Proof.
  intros H. replace (hi - i + 1) with (hi + 1 - i) by lia. rewrite <- pick_from_lt.
  apply pick_from_ext. intros j Hj. unfold between.
  destruct (lo <=? j) eqn:E1; [|apply Z.leb_gt in E1; lia].
  cbn [andb]. destruct (j <=? hi) eqn:E2; [apply Z.leb_le in E2|apply Z.leb_gt in E2];
    destruct (j <? hi + 1) eqn:E3; try reflexivity; [apply Z.ltb_ge in E3|apply Z.ltb_lt in E3]; lia.
Qed.

Lemma pick_from_between i lo hi l :
  i <= lo -> pick_from i (between lo hi) l = firstn (Z.to_nat (hi - lo + 1)) (skipn (Z.to_nat (lo - i)) l).
Proof.
  revert i. induction l as [|x r IH]; intros i H; cbn [pick_from].
  - rewrite skipn_nil, firstn_nil. reflexivity.
  - destruct (Z.eq_dec i lo) as [->|N].
    + replace (Z.to_nat (lo - lo)) with O by lia. cbn [skipn].
      change (pick_from lo (between lo hi) (x :: r) = firstn (Z.to_nat (hi - lo + 1)) (x :: r)).
      apply pick_from_between_in. lia.
    + unfold between at 1. destruct (lo <=? i) eqn:E; [apply Z.leb_le in E; lia|]. cbn [andb].
      replace (Z.to_nat (lo - i)) with (S (Z.to_nat (lo - (i + 1)))) by lia. cbn [skipn].
      apply IH. lia.
Qed.

Lemma pick_from_eq i p l :
  pick_from i (fun j => j =? p) l =
  if p <? i then [] else match nth_error l (Z.to_nat (p - i)) with Some x => [x] | None => [] end.
Proof.
  revert i. induction l as [|x r IH]; intros i; cbn [pick_from].
  - destruct (p <? i); [reflexivity|]. destruct (Z.to_nat (p - i)); reflexivity.
  - rewrite IH. destruct (i =? p) eqn:E; [apply Z.eqb_eq in E; subst i|apply Z.eqb_neq in E].
    + rewrite Z.ltb_irrefl. replace (Z.to_nat (p - p)) with O by lia. cbn [nth_error].
      destruct (p <? p + 1) eqn:E2; [reflexivity|apply Z.ltb_ge in E2; lia].
    + destruct (p <? i) eqn:E1; [apply Z.ltb_lt in E1|apply Z.ltb_ge in E1].
      * destruct (p <? i + 1) eqn:E2; [reflexivity|apply Z.ltb_ge in E2; lia].
      * destruct (p <? i + 1) eqn:E2; [apply Z.ltb_lt in E2; lia|].
        replace (Z.to_nat (p - i)) with (S (Z.to_nat (p - (i + 1)))) by lia. reflexivity.
Qed.

Lemma pick_eq_znth p l :
  pick (fun j => j =? p) l = match znth l p with Some x => [x] | None => [] end.
Proof.
  unfold pick, znth. rewrite pick_from_eq. rewrite Z.sub_0_r.
  destruct (p <? 0) eqn:E; cbn [orb]; [reflexivity|]. apply Z.ltb_ge in E.
  destruct (p >=? zlength l) eqn:E2; [|reflexivity].
  apply Z.geb_le in E2. unfold zlength in E2.
  assert (H : nth_error l (Z.to_nat p) = None) by (apply nth_error_None; lia).
  rewrite H. reflexivity.
Qed.

(* ---- LRANGE / LTRIM window ---- *)
Lemma range_elems_window s e l :
  range_elems s e l = match window (zlength l) s e with None => [] | Some (a, b) => zslice l a b end.
Proof.
  unfold range_elems, window, pick, pos_of, norm. set (n := zlength l).
  set (s' := if s <? 0 then n + s else s). set (e' := if e <? 0 then n + e else e).
  rewrite pick_from_between by lia.
  destruct ((s' >? e') || (s' >=? n) || (e' <? 0)) eqn:W.
  - assert (Z.min (n - 1) e' < Z.max 0 s').
    { apply orb_true_iff in W as [W|W]; [apply orb_true_iff in W as [W|W]|].
      - apply Z.gtb_lt in W. lia.
      - apply Z.geb_le in W. lia.
      - apply Z.ltb_lt in W. lia. }
    replace (Z.to_nat (Z.min (n - 1) e' - Z.max 0 s' + 1)) with O by lia. reflexivity.
  - apply orb_false_iff in W as [W W3]. apply orb_false_iff in W as [W1 W2].
    rewrite Z.gtb_ltb in W1. apply Z.ltb_ge in W1. rewrite Z.geb_leb in W2. apply Z.leb_gt in W2.
    apply Z.ltb_ge in W3. unfold zslice.
    destruct (s' <? 0) eqn:A; [apply Z.ltb_lt in A|apply Z.ltb_ge in A];
      (destruct (e' >=? n) eqn:Bq; [apply Z.geb_le in Bq|rewrite Z.geb_leb in Bq; apply Z.leb_gt in Bq]);
      f_equal; try (f_equal; lia); f_equal; lia.
Qed.

(* ---- LINDEX ---- *)
Lemma ref_lindex_model i l :
  fst (ref_lindex i l) = match znth l (norm (zlength l) i) with Some x => RBulk x | None => RNil end.
Proof.
  unfold ref_lindex. cbn [fst]. rewrite pick_eq_znth. unfold pos_of, norm.
  destruct (znth l (if i <? 0 then zlength l + i else i)); reflexivity.
Qed.

(* ---- LSET ---- *)
Lemma mapi_from_set i p v l :
  mapi_from i (fun j x => if j =? p then v else x) l =
  if p <? i then l else list_set l (Z.to_nat (p - i)) v.
Proof.
  revert i. induction l as [|x r IH]; intros i; cbn [mapi_from].
  - destruct (p <? i); reflexivity.
  - rewrite IH. destruct (i =? p) eqn:E; [apply Z.eqb_eq in E; subst i|apply Z.eqb_neq in E].
    + rewrite Z.ltb_irrefl. replace (Z.to_nat (p - p)) with O by lia. cbn [list_set].
      destruct (p <? p + 1) eqn:E2; [reflexivity|apply Z.ltb_ge in E2; lia].
    + destruct (p <? i) eqn:E1; [apply Z.ltb_lt in E1|apply Z.ltb_ge in E1].
      * destruct (p <? i + 1) eqn:E2; [reflexivity|apply Z.ltb_ge in E2; lia].
      * destruct (p <? i + 1) eqn:E2; [apply Z.ltb_lt in E2; lia|].
        replace (Z.to_nat (p - i)) with (S (Z.to_nat (p - (i + 1)))) by lia. reflexivity.
Qed.

Lemma list_set_length l i v : List.length (list_set l i v) = List.length l.
Proof. revert i. induction l as [|x r IH]; intros [|i]; cbn; auto. Qed.

Lemma list_set_nonempty l i v : l <> [] -> list_set l i v <> [].
Proof. destruct l; [congruence|]. destruct i; cbn; discriminate. Qed.

(* what LSET means element-wise *)
Lemma list_set_nth l i v j :
  (i < List.length l)%nat -> nth_error (list_set l i v) j = if Nat.eqb j i then Some v else nth_error l j.
Proof.
  revert i j. induction l as [|x r IH]; intros i j H; [cbn in H; lia|].
  destruct i as [|i]; destruct j as [|j]; cbn; try reflexivity.
  apply IH. cbn in H. lia.
Qed.

(* ---- pushes ---- *)
Lemma push_all_left vals l : push_all true vals l = rev vals ++ l.
Proof.
  unfold push_all. revert l. induction vals as [|v r IH]; intros l; cbn; [reflexivity|].
  rewrite IH. rewrite <- app_assoc. reflexivity.
Qed.
Lemma push_all_right vals l : push_all false vals l = l ++ vals.
Proof.
  unfold push_all. revert l. induction vals as [|v r IH]; intros l; cbn; [rewrite app_nil_r; reflexivity|].
  rewrite IH. rewrite <- app_assoc. reflexivity.
Qed.
Lemma push_all_model left vals l : push_all left vals l = if left then rev vals ++ l else l ++ vals.
Proof. destruct left; [apply push_all_left|apply push_all_right]. Qed.

(* ---- last element ---- *)
Lemma take_end_model left l :
  take_end left l =
  if left then match l with x :: r => Some (x, r) | [] => None end
  else match rev l with x :: r => Some (x, rev r) | [] => None end.
Proof.
  destruct left; [reflexivity|]. unfold take_end.
  destruct (rev l) as [|x r] eqn:E.
  - assert (l = []) by (rewrite <- (rev_involutive l), E; reflexivity). subst. reflexivity.
  - assert (L : l = rev r ++ [x]) by (rewrite <- (rev_involutive l), E; reflexivity).
    rewrite pick_eq_znth. unfold pick. rewrite pick_from_lt. rewrite Z.sub_0_r.
    unfold znth. subst l. rewrite zlength_app, zlength_rev, zlength_cons, zlength_nil.
    pose proof (zlength_nonneg r) as Hr.
    replace (zlength r + (0 + 1) - 1) with (zlength r) by lia.
    destruct (zlength r <? 0) eqn:E1; [apply Z.ltb_lt in E1; lia|].
    destruct (zlength r >=? zlength r + (0 + 1)) eqn:E2; [apply Z.geb_le in E2; lia|]. cbn [orb].
    unfold zlength. rewrite Nat2Z.id.
    rewrite nth_error_app2 by (rewrite rev_length; lia).
    rewrite rev_length, Nat.sub_diag. cbn [nth_error].
    rewrite firstn_app, rev_length, Nat.sub_diag. cbn [firstn].
    rewrite firstn_all2 by (rewrite rev_length; lia). rewrite app_nil_r. reflexivity.
Qed.

(* ---- LPOP / RPOP with a count ---- *)
Lemma firstn_min_len {A} c (l : list A) :
  firstn (Z.to_nat (Z.min c (zlength l))) l = firstn (Z.to_nat c) l.
Proof.
  unfold zlength. destruct (Z_le_gt_dec c (Z.of_nat (List.length l))) as [H|H].
  - rewrite Z.min_l by lia. reflexivity.
  - rewrite Z.min_r by lia. rewrite Nat2Z.id. rewrite !firstn_all2 by lia. reflexivity.
Qed.
Lemma skipn_min_len {A} c (l : list A) :
  skipn (Z.to_nat (Z.min c (zlength l))) l = skipn (Z.to_nat c) l.
Proof.
  unfold zlength. destruct (Z_le_gt_dec c (Z.of_nat (List.length l))) as [H|H].
  - rewrite Z.min_l by lia. reflexivity.
  - rewrite Z.min_r by lia. rewrite Nat2Z.id. rewrite !skipn_all2 by lia. reflexivity.
Qed.

Lemma popn_model left c l :
  0 < c -> l <> [] ->
  ref_popn left c l =
  let n := Z.to_nat (Z.min c (zlength l)) in
  if left then (RArr (map RBulk (firstn n l)), skipn n l)
  else (RArr (map RBulk (firstn n (rev l))), rev (skipn n (rev l))).
Proof.
  intros Hc Hl. unfold ref_popn. destruct l as [|x0 r0]; [congruence|]. set (l := x0 :: r0) in *.
  cbv zeta. destruct left.
  - unfold pick. rewrite pick_from_lt, pick_from_ge. rewrite Z.sub_0_r.
    rewrite firstn_min_len, skipn_min_len. reflexivity.
  - unfold pick. rewrite pick_from_lt, pick_from_ge. rewrite !Z.sub_0_r.
    rewrite firstn_rev, skipn_rev, rev_involutive.
    assert (E : (List.length l - Z.to_nat (Z.min c (zlength l)))%nat = Z.to_nat (zlength l - c))
      by (unfold zlength; lia).
    rewrite E. reflexivity.
Qed.

(* ---- LREM ---- *)
Lemma lrem_model c v l :
  (if c =? 0 then let '(l', n) := remove_first v (List.length l) l in (RInt n, l')
   else if c >? 0 then
     let '(l', n) := remove_first v (Z.to_nat (Z.min c (zlength l))) l in (RInt n, l')
   else
     let '(l', n) := remove_first v (Z.to_nat (Z.min (- c) (zlength l))) (rev l) in (RInt n, rev l'))
  = ref_lrem c v l.
Proof.
  unfold ref_lrem. pose proof (occs_le_len v l) as Hle. pose proof (occs_nonneg v l) as H0.
  destruct (c =? 0) eqn:E0; [apply Z.eqb_eq in E0; subst c|apply Z.eqb_neq in E0].
  - rewrite remove_first_ref_pos. cbn [Z.gtb Z.ltb Z.compare]. f_equal.
    + f_equal. unfold zlength in Hle. lia.
    + apply rem_occ_from_ext. intros j Hj. unfold zlength in Hle.
      destruct (j <? Z.of_nat (List.length l)) eqn:E; [reflexivity|apply Z.ltb_ge in E; lia].
  - destruct (c >? 0) eqn:E1; [apply Z.gtb_lt in E1|rewrite Z.gtb_ltb in E1; apply Z.ltb_ge in E1].
    + rewrite remove_first_ref_pos. f_equal.
      * f_equal. unfold zlength in *. lia.
      * apply rem_occ_from_ext. intros j Hj. unfold zlength in *.
        destruct (j <? c) eqn:A; [apply Z.ltb_lt in A|apply Z.ltb_ge in A];
          destruct (j <? Z.of_nat (Z.to_nat (Z.min c (Z.of_nat (List.length l))))) eqn:Bq;
          try reflexivity; [apply Z.ltb_ge in Bq|apply Z.ltb_lt in Bq]; lia.
    + destruct (c <? 0) eqn:E2; [apply Z.ltb_lt in E2|apply Z.ltb_ge in E2; lia].
      rewrite remove_first_ref_neg. rewrite rev_involutive. f_equal.
      * f_equal. unfold zlength in *. lia.
      * apply rem_occ_from_ext. intros j Hj. unfold zlength in *.
        destruct (j >=? occs v l + c) eqn:A; [apply Z.geb_le in A|rewrite Z.geb_leb in A; apply Z.leb_gt in A];
          destruct (j >=? occs v l - Z.of_nat (Z.to_nat (Z.min (- c) (Z.of_nat (List.length l))))) eqn:Bq;
          try reflexivity; [rewrite Z.geb_leb in Bq; apply Z.leb_gt in Bq|apply Z.geb_le in Bq]; lia.
Qed.

(* the reference clause of LREM as multiset/length facts: exactly the reported number of copies
   of v disappears, every other element stays *)
Lemma rem_occ_from_length o p v l :
  zlength (rem_occ_from o p v l) + zlength (filter p (map (fun j => o + Z.of_nat j) (seq 0 (Z.to_nat (occs v l))))) = zlength l.
Proof.
  revert o. induction l as [|x r IH]; intros o; [reflexivity|].
  cbn [rem_occ_from]. destruct (bytes_eqb x v) eqn:E.
  - rewrite (occs_cons_eq _ _ _ E). pose proof (occs_nonneg v r) as Hr.
    replace (Z.to_nat (occs v r + 1)) with (S (Z.to_nat (occs v r))) by lia.
    cbn [seq map filter]. rewrite <- seq_shift, map_map.
    replace (o + Z.of_nat 0) with o by lia.
    specialize (IH (o + 1)).
    rewrite (map_ext (fun j => o + Z.of_nat (S j)) (fun j => o + 1 + Z.of_nat j)) by (intros; lia).
    destruct (p o); rewrite ?zlength_cons in *; lia.
  - rewrite (occs_cons_ne _ _ _ E). rewrite !zlength_cons. specialize (IH o). lia.
Qed.

(* ---- LPOS ---- *)
Definition to_ref (o : lposopts) : lpos_opts := mkRefLpos (lp_rank o) (lp_count o) (lp_maxlen o).
Definition lpos_ok (o : lposopts) : Prop :=
  lp_rank o <> 0 /\ 0 <= lp_maxlen o /\ match lp_count o with Some c => 0 <= c | None => True end.

Lemma lpos_parse_ref_n n : forall opts o, (List.length opts <= n)%nat ->
  option_map to_ref (lpos_parse opts o) = ref_lpos_opts opts (to_ref o).
Proof.
  induction n as [|n IH]; intros opts o Hn.
  - destruct opts; [reflexivity|cbn in Hn; lia].
  - destruct opts as [|name [|v rest]]; [reflexivity|reflexivity|].
    cbn [lpos_parse ref_lpos_opts]. destruct (atoi64 v) as [x|].
    2:{ destruct (is (lower name) (B "rank") || is (lower name) (B "count") || is (lower name) (B "maxlen")); reflexivity. }
    assert (Hr : (List.length rest <= n)%nat) by (cbn in Hn; lia).
    destruct (is (lower name) (B "rank")).
    { destruct (x =? 0); [reflexivity|]. rewrite IH by exact Hr. reflexivity. }
    destruct (is (lower name) (B "count")).
    { destruct (x <? 0); [reflexivity|]. rewrite IH by exact Hr. reflexivity. }
    destruct (is (lower name) (B "maxlen")).
    { destruct (x <? 0); [reflexivity|]. rewrite IH by exact Hr. reflexivity. }
    reflexivity.
Qed.
Lemma lpos_parse_ref opts o : option_map to_ref (lpos_parse opts o) = ref_lpos_opts opts (to_ref o).
Proof. apply (lpos_parse_ref_n (List.length opts)). lia. Qed.

Lemma lpos_parse_ok_n n : forall opts o o', (List.length opts <= n)%nat ->
  lpos_ok o -> lpos_parse opts o = Some o' -> lpos_ok o'.
Proof.
  induction n as [|n IH]; intros opts o o' Hn Hok H.
  - destruct opts; [cbn in H; congruence|cbn in Hn; lia].
  - destruct opts as [|name [|v rest]]; [cbn in H; congruence|discriminate|].
    cbn [lpos_parse] in H. destruct (atoi64 v) as [x|].
    2:{ destruct (is (lower name) (B "rank") || is (lower name) (B "count") || is (lower name) (B "maxlen")); discriminate. }
    assert (Hr : (List.length rest <= n)%nat) by (cbn in Hn; lia).
    destruct Hok as (R & M & C).
    destruct (is (lower name) (B "rank")).
    { destruct (x =? 0) eqn:E; [discriminate|]. apply Z.eqb_neq in E.
      eapply IH; [exact Hr| |exact H]. repeat split; cbn; assumption. }
    destruct (is (lower name) (B "count")).
    { destruct (x <? 0) eqn:E; [discriminate|]. apply Z.ltb_ge in E.
      eapply IH; [exact Hr| |exact H]. repeat split; cbn; assumption. }
    destruct (is (lower name) (B "maxlen")).
    { destruct (x <? 0) eqn:E; [discriminate|]. apply Z.ltb_ge in E.
      eapply IH; [exact Hr| |exact H]. repeat split; cbn; assumption. }
    discriminate.
Qed.
Lemma lpos_parse_ok opts o' : lpos_parse opts (mkLpos 1 None 0) = Some o' -> lpos_ok o'.
Proof.
  apply (lpos_parse_ok_n (List.length opts)); [lia|]. repeat split; cbn; lia.
Qed.

Lemma lpos_model o v l :
  lpos_ok o ->
  map (fun i => if lp_rank o <? 0 then zlength l - i - 1 else i)
      (lpos_scan (if lp_rank o <? 0 then rev l else l) v 0 0 (Z.abs (lp_rank o)) (lp_maxlen o) (lp_count o) 0)
  = ref_lpos_positions (to_ref o) v l.
Proof.
  intros (R & M & C). unfold ref_lpos_positions, to_ref. cbn [o_rank o_count o_maxlen].
  rewrite lpos_scan_ref by (try lia; exact C). cbv zeta.
  apply map_ext. intros i. destruct (lp_rank o <? 0); lia.
Qed.
