(* Set commands (memdb/sets.go, memdb/sets_struct.go), as the code stands after the fix commits:
   a clean functional statement of the Redis command reference for
     SADD SREM SISMEMBER SCARD SMEMBERS SMOVE SPOP SRANDMEMBER
     SUNION SINTER SDIFF SUNIONSTORE SINTERSTORE SDIFFSTORE.
   A set is a duplicate-free [list bytes] (Go: map[string]void; the order of the list is the
   model's own and never observable: every reply built by ranging over the map is compared as
   a sorted sequence, SPOP/SRANDMEMBER in acceptor form through [hint]).
   The caller (Exec.exec) has already removed every key whose deadline has passed.
   No proofs here (Mem/SetsProofs.v). *)
Require Import Base.Bytes Base.GoInt Base.Reply Mem.Types.
Local Open Scope Z_scope.

(* ------------------------------------------------------------------ finite sets of byte strings *)
Definition smem (m : bytes) (s : list bytes) : bool := existsb (bytes_eqb m) s.
Definition sadd (s : list bytes) (m : bytes) : list bytes := if smem m s then s else s ++ [m].
Definition srem (s : list bytes) (m : bytes) : list bytes := filter (fun x => negb (bytes_eqb x m)) s.
Definition sadd_all (s ms : list bytes) : list bytes := fold_left sadd ms s.
Definition srem_all (s ms : list bytes) : list bytes := fold_left srem ms s.

Definition sunion (s t : list bytes) : list bytes := sadd_all s t.
Definition sinter (s t : list bytes) : list bytes := filter (fun m => smem m t) s.
Definition sdiff (s t : list bytes) : list bytes := filter (fun m => negb (smem m t)) s.

Definition union_all (ss : list (list bytes)) : list bytes := fold_left sunion ss [].
Definition inter_all (ss : list (list bytes)) : list bytes :=
  match ss with [] => [] | s :: r => fold_left sinter r s end.
Definition diff_all (ss : list (list bytes)) : list bytes :=
  match ss with [] => [] | s :: r => fold_left sdiff r s end.

(* duplicate-freeness, executable *)
Fixpoint nodupb (l : list bytes) : bool :=
  match l with [] => true | x :: r => negb (smem x r) && nodupb r end.
Definition subsetb (l s : list bytes) : bool := forallb (fun m => smem m s) l.

(* ------------------------------------------------------------------ keyspace access *)
Inductive lookup_set := SMissing | SWrong | SFound (s : list bytes).
Definition get_set (d : db) (k : bytes) : lookup_set :=
  match db_get d k with
  | None => SMissing
  | Some (VSet s) => SFound s
  | Some _ => SWrong
  end.

(* store a set back; an emptied set ceases to exist (key and deadline) *)
Definition put_set (d : db) (k : bytes) (s : list bytes) : db :=
  match s with [] => db_del d k | _ => db_set d k (VSet s) end.

(* *STORE: the destination is replaced -- whatever it held, deadline included -- by exactly the
   result; an empty result leaves no key *)
Definition store_set (d : db) (k : bytes) (s : list bytes) : db :=
  match s with [] => db_del d k | _ => db_set (db_del d k) k (VSet s) end.

(* operand sets of SUNION/SINTER/SDIFF: a missing key is the empty set; None = some key holds
   another type (WRONGTYPE, whatever the other operands are) *)
Fixpoint operands (d : db) (ks : list bytes) : option (list (list bytes)) :=
  match ks with
  | [] => Some []
  | k :: r =>
    match get_set d k, operands d r with
    | SWrong, _ => None
    | _, None => None
    | SMissing, Some ss => Some ([] :: ss)
    | SFound s, Some ss => Some (s :: ss)
    end
  end.

(* the accessors above are non-recursive: the generic footprint/deadline tactics of Mem/TtlProofs.v
   see through them (effective once [Create HintDb kv_access] precedes this line, i.e. lives in a
   file imported here; otherwise TtlProofs.v repeats the line after its own Create) *)
#[export] Hint Unfold get_set put_set store_set : kv_access.

(* ------------------------------------------------------------------ single-key commands *)
Definition exec_sadd (d : db) (args : list bytes) : reply * db :=
  match args with
  | _ :: k :: ((_ :: _) as ms) =>
    let go (s : list bytes) :=
      let s' := sadd_all s ms in
      (RInt (zlength s' - zlength s), db_set d k (VSet s')) in
    match get_set d k with
    | SMissing => go []
    | SWrong => (err_wrongtype, d)
    | SFound s => go s
    end
  | _ => (err_other, d)
  end.

Definition exec_srem (d : db) (args : list bytes) : reply * db :=
  match args with
  | _ :: k :: ((_ :: _) as ms) =>
    match get_set d k with
    | SMissing => (RInt 0, d)
    | SWrong => (err_wrongtype, d)
    | SFound s =>
      let s' := srem_all s ms in
      (RInt (zlength s - zlength s'), put_set d k s')
    end
  | _ => (err_other, d)
  end.

Definition exec_sismember (d : db) (args : list bytes) : reply * db :=
  match args with
  | [_; k; m] =>
    match get_set d k with
    | SMissing => (RInt 0, d)
    | SWrong => (err_wrongtype, d)
    | SFound s => (RInt (if smem m s then 1 else 0), d)
    end
  | _ => (err_other, d)
  end.

Definition exec_scard (d : db) (args : list bytes) : reply * db :=
  match args with
  | [_; k] =>
    match get_set d k with
    | SMissing => (RInt 0, d)
    | SWrong => (err_wrongtype, d)
    | SFound s => (RInt (zlength s), d)
    end
  | _ => (err_other, d)
  end.

Definition exec_smembers (d : db) (args : list bytes) : reply * db :=
  match args with
  | [_; k] =>
    match get_set d k with
    | SMissing => (RArr [], d)
    | SWrong => (err_wrongtype, d)
    | SFound s => (RArr (map RBulk s), d)
    end
  | _ => (err_other, d)
  end.

(* SMOVE src dst m: nothing to do (0) when src is missing or does not contain m; WRONGTYPE when
   src, or -- src being a set -- dst holds another type; src = dst leaves the set as it is;
   otherwise m leaves src (an emptied src ceases to exist) and joins dst (created when missing) *)
Definition exec_smove (d : db) (args : list bytes) : reply * db :=
  match args with
  | [_; src; dst; m] =>
    match get_set d src with
    | SMissing => (RInt 0, d)
    | SWrong => (err_wrongtype, d)
    | SFound s =>
      match get_set d dst with
      | SWrong => (err_wrongtype, d)
      | dl =>
        if negb (smem m s) then (RInt 0, d)
        else if bytes_eqb src dst then (RInt 1, d)
        else
          let t := match dl with SFound t => t | _ => [] end in
          (RInt 1, db_set (put_set d src (srem s m)) dst (VSet (sadd t m)))
      end
    end
  | _ => (err_other, d)
  end.

(* ------------------------------------------------------------------ algebra *)
Definition exec_algebra (op : list (list bytes) -> list bytes) (d : db) (args : list bytes)
  : reply * db :=
  match args with
  | _ :: ((_ :: _) as ks) =>
    match operands d ks with
    | None => (err_wrongtype, d)
    | Some ss => (RArr (map RBulk (op ss)), d)
    end
  | _ => (err_other, d)
  end.

Definition exec_algebra_store (op : list (list bytes) -> list bytes) (d : db) (args : list bytes)
  : reply * db :=
  match args with
  | _ :: dst :: ((_ :: _) as ks) =>
    match operands d ks with
    | None => (err_wrongtype, d)
    | Some ss => let r := op ss in (RInt (zlength r), store_set d dst r)
    end
  | _ => (err_other, d)
  end.

(* ------------------------------------------------------------------ random commands (acceptor form)
   [hint] is the reply observed on the implementation.  When the reference allows it, it is the
   model's reply and the state continues from what it implies; otherwise the model answers with
   its own canonical choice (the first members of its list), which then differs from [hint]. *)
Definition bulks (r : reply) : option (list bytes) :=
  match r with
  | RArr l =>
    fold_right (fun e acc => match e, acc with RBulk b, Some bs => Some (b :: bs) | _, _ => None end)
               (Some []) l
  | _ => None
  end.

(* one current member *)
Definition choose_one (s : list bytes) (hint : reply) : option bytes :=
  match hint with
  | RBulk m => if smem m s then Some m else hd_error s
  | _ => hd_error s
  end.

(* [n] distinct current members *)
Definition choose_distinct (s : list bytes) (n : nat) (hint : reply) : list bytes :=
  match bulks hint with
  | Some ms => if nodupb ms && subsetb ms s && Nat.eqb (List.length ms) n then ms else firstn n s
  | None => firstn n s
  end.

(* [n] current members, repetition allowed *)
Definition choose_repeated (s : list bytes) (n : nat) (hint : reply) : list bytes :=
  let dflt (_ : unit) := match s with [] => [] | x :: _ => repeat x n end in
  match bulks hint with
  | Some ms => if subsetb ms s && Nat.eqb (List.length ms) n then ms else dflt tt
  | None => dflt tt
  end.

(* the same test without a canonical answer (and without unary numbers): used where the count
   is beyond the bound of the repaired code, see [exec_srandmember] *)
Definition accept_repeated (s : list bytes) (n : Z) (hint : reply) : option (list bytes) :=
  match bulks hint with
  | Some ms => if subsetb ms s && (zlength ms =? n) then Some ms else None
  | None => None
  end.

(* the observed reply is an error other than WRONGTYPE *)
Definition refused (hint : reply) : bool :=
  match hint with
  | RErr e => negb (bytes_eqb e (B "WRONGTYPE"))
  | _ => false
  end.

Definition exec_spop (d : db) (args : list bytes) (hint : reply) : reply * db :=
  match args with
  | [_; k] =>
    match get_set d k with
    | SMissing => (RNil, d)
    | SWrong => (err_wrongtype, d)
    | SFound s =>
      match choose_one s hint with
      | Some m => (RBulk m, put_set d k (srem s m))
      | None => (RNil, d)
      end
    end
  | [_; k; c] =>
    match atoi64 c with
    | None => (err_other, d)
    | Some n =>
      if n <? 0 then (err_other, d) else
      match get_set d k with
      | SMissing => (RArr [], d)
      | SWrong => (err_wrongtype, d)
      | SFound s =>
        let ms := choose_distinct s (Z.to_nat (Z.min n (zlength s))) hint in
        (RArr (map RBulk ms), put_set d k (srem_all s ms))
      end
    end
  | _ => (err_other, d)
  end.

(* SRANDMEMBER with a negative count answers with |count| members: the reply is as long as the
   client asks, whatever the set holds.  The repaired code refuses counts below this bound
   (memdb/sets_struct.go: maxRandomRepeat) with an error before it looks at the key.  The command
   reference knows no such bound, so for these counts the model takes either: the refusal when
   that is what was observed, otherwise exactly what the reference demands (and, when the
   observation is neither, its own answer is the refusal). *)
Definition max_random_repeat : Z := 1048576.

Definition exec_srandmember (d : db) (args : list bytes) (hint : reply) : reply * db :=
  match args with
  | [_; k] =>
    match get_set d k with
    | SMissing => (RNil, d)
    | SWrong => (err_wrongtype, d)
    | SFound s =>
      match choose_one s hint with
      | Some m => (RBulk m, d)
      | None => (RNil, d)
      end
    end
  | [_; k; c] =>
    match atoi64 c with
    | None => (err_other, d)
    | Some n =>
      if (n <? - max_random_repeat) && refused hint then (err_other, d) else
      match get_set d k with
      | SMissing => (RArr [], d)
      | SWrong => (err_wrongtype, d)
      | SFound s =>
        if n >=? 0 then
          (RArr (map RBulk (choose_distinct s (Z.to_nat (Z.min n (zlength s))) hint)), d)
        else if n <? - max_random_repeat then
          match accept_repeated s (- n) hint with
          | Some ms => (RArr (map RBulk ms), d)
          | None => (err_other, d)
          end
        else
          (RArr (map RBulk (choose_repeated s (Z.to_nat (- n)) hint)), d)
      end
    end
  | _ => (err_other, d)
  end.

(* MEMBER (memdb/raft_command.go) sits in the same registry: MEMBER LIST reports the raft peers;
   a stand-alone server has no raft node, so every form is an error *)
Definition exec_member (d : db) (args : list bytes) : reply * db :=
  match args with
  | [_; _] => (err_other, d)          (* MEMBER LIST without a raft node, MEMBER <other> *)
  | _ => (err_other, d)               (* wrong number of arguments *)
  end.

(* ------------------------------------------------------------------ dispatch *)
Definition sets_dispatch (d : db) (now nowms : Z) (n : bytes) (args : list bytes) (hint : reply)
  : option (reply * db) :=
  if is n (B "sadd") then Some (exec_sadd d args)
  else if is n (B "srem") then Some (exec_srem d args)
  else if is n (B "sismember") then Some (exec_sismember d args)
  else if is n (B "scard") then Some (exec_scard d args)
  else if is n (B "smembers") then Some (exec_smembers d args)
  else if is n (B "smove") then Some (exec_smove d args)
  else if is n (B "spop") then Some (exec_spop d args hint)
  else if is n (B "srandmember") then Some (exec_srandmember d args hint)
  else if is n (B "sunion") then Some (exec_algebra union_all d args)
  else if is n (B "sinter") then Some (exec_algebra inter_all d args)
  else if is n (B "sdiff") then Some (exec_algebra diff_all d args)
  else if is n (B "sunionstore") then Some (exec_algebra_store union_all d args)
  else if is n (B "sinterstore") then Some (exec_algebra_store inter_all d args)
  else if is n (B "sdiffstore") then Some (exec_algebra_store diff_all d args)
  else if is n (B "member") then Some (exec_member d args)
  else None.
