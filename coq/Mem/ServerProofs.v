(* C20 -- numbered databases and per-connection selection: proofs about Mem/Server.v. *)
Require Import Base.Bytes Base.GoInt Base.Reply Mem.Types Mem.Exec Mem.Server.
Local Open Scope Z_scope.

(* ------------------------------------------------------------------ selection table *)
Lemma sel_lookup_set_same c i l : sel_lookup c (sel_set c i l) = i.
Proof. unfold sel_set. cbn. rewrite Z.eqb_refl. reflexivity. Qed.

Lemma sel_lookup_filter_other c c' l : c' <> c ->
  sel_lookup c' (filter (fun p => negb (c =? fst p)) l) = sel_lookup c' l.
Proof.
  intros N. induction l as [|[c0 i0] r IH]; cbn; [reflexivity|].
  destruct (Z.eqb_spec c c0) as [->|N0]; cbn.
  - destruct (Z.eqb_spec c' c0); [contradiction|exact IH].
  - destruct (c' =? c0); [reflexivity|exact IH].
Qed.

Lemma sel_lookup_set_other c c' i l : c' <> c -> sel_lookup c' (sel_set c i l) = sel_lookup c' l.
Proof.
  intros N. unfold sel_set. cbn. destruct (Z.eqb_spec c' c); [contradiction|].
  apply sel_lookup_filter_other. exact N.
Qed.

Lemma list_update_length {A} (l : list A) i x : List.length (list_update l i x) = List.length l.
Proof.
  revert i. induction l as [|y r IH]; intros i; [reflexivity|].
  destruct i; cbn; [reflexivity|]. rewrite IH. reflexivity.
Qed.

Lemma nth_error_update_same {A} (l : list A) i x : (i < List.length l)%nat ->
  nth_error (list_update l i x) i = Some x.
Proof.
  revert i. induction l as [|y r IH]; intros i L; cbn in L; [lia|].
  destruct i; cbn; [reflexivity|]. apply IH. lia.
Qed.

Lemma nth_error_update_other {A} (l : list A) i j x : j <> i ->
  nth_error (list_update l i x) j = nth_error l j.
Proof.
  revert i j. induction l as [|y r IH]; intros i j N; [reflexivity|].
  destruct i, j; cbn; try reflexivity; try contradiction.
  apply IH. intros ->. apply N. reflexivity.
Qed.

(* ------------------------------------------------------------------ SELECT *)
Definition is_select (args : list bytes) : bool :=
  match args with n :: _ => is (lower n) (B "select") | [] => false end.

Lemma srv_exec_select s conn now nowms args hint : is_select args = true ->
  srv_exec s conn now nowms args hint = exec_select s conn args.
Proof.
  unfold is_select, srv_exec. destruct args as [|n r]; [discriminate|]. intros ->. reflexivity.
Qed.

Lemma srv_exec_other s conn now nowms args hint : is_select args = false -> args <> [] ->
  srv_exec s conn now nowms args hint =
  match nth_error (sdbs s) (sel_lookup conn (ssel s)) with
  | None => (err_other, s)
  | Some d => (fst (exec d now nowms args hint),
               mkSrv (list_update (sdbs s) (sel_lookup conn (ssel s)) (snd (exec d now nowms args hint))) (ssel s))
  end.
Proof.
  unfold is_select, srv_exec. destruct args as [|n r]; [congruence|]. intros -> _.
  destruct (nth_error (sdbs s) (sel_lookup conn (ssel s))); [|reflexivity].
  destruct (exec d now nowms (n :: r) hint). reflexivity.
Qed.

(* SELECT with one argument: accepted iff the argument is a Go decimal integer i with
   0 <= i < number of databases; then only this connection's selection changes.  Otherwise
   (and with any other number of arguments) an error, and the whole server state is unchanged. *)
Theorem select_validates s conn now nowms c arg hint : lower c = B "select" ->
  let res := srv_exec s conn now nowms [c; arg] hint in
  match atoi64 arg with
  | Some i =>
    if (0 <=? i) && (i <? zlength (sdbs s))
    then fst res = rOK /\ sdbs (snd res) = sdbs s /\
         sel_lookup conn (ssel (snd res)) = Z.to_nat i /\
         forall c', c' <> conn -> sel_lookup c' (ssel (snd res)) = sel_lookup c' (ssel s)
    else res = (err_other, s)
  | None => res = (err_other, s)
  end.
Proof.
  intros E. cbv zeta. rewrite srv_exec_select by (unfold is_select; rewrite E; reflexivity).
  unfold exec_select. destruct (atoi64 arg) as [i|]; [|reflexivity].
  destruct ((0 <=? i) && (i <? zlength (sdbs s))); [|reflexivity].
  cbn [fst snd sdbs ssel]. split; [reflexivity|]. split; [reflexivity|]. split.
  - apply sel_lookup_set_same.
  - intros c' N. apply sel_lookup_set_other. exact N.
Qed.

Theorem select_wrong_arity s conn now nowms c rest hint : lower c = B "select" ->
  List.length rest <> 1%nat -> srv_exec s conn now nowms (c :: rest) hint = (err_other, s).
Proof.
  intros E L. rewrite srv_exec_select by (unfold is_select; rewrite E; reflexivity).
  unfold exec_select. destruct rest as [|a [|b r]]; try reflexivity. cbn in L. congruence.
Qed.

(* ---- which argument strings strconv.Atoi accepts (Base/GoInt.v: atoi64) ---- *)
Definition is_digit (c : byte) : Prop := exists f, digit_of_byte c = Some f.

Lemma bytes_to_uint_digits s u : bytes_to_uint s = Some u -> Forall is_digit s.
Proof.
  revert u. induction s as [|c r IH]; intros u H; [constructor|]. cbn in H.
  destruct (digit_of_byte c) as [f|] eqn:D; [|discriminate].
  destruct (bytes_to_uint r) as [u'|] eqn:R; [|discriminate].
  constructor; [exists f; exact D|eapply IH; reflexivity].
Qed.

Lemma digits_bytes_to_uint s : Forall is_digit s -> exists u, bytes_to_uint s = Some u.
Proof.
  induction 1 as [|c r [f D] _ [u IH]]; [exists Decimal.Nil; reflexivity|].
  exists (f u). cbn. rewrite D, IH. reflexivity.
Qed.

Lemma parse_udec_digits s n : parse_udec s = Some n -> s <> [] /\ Forall is_digit s.
Proof.
  unfold parse_udec. destruct s as [|c r]; [discriminate|]. intros H. split; [discriminate|].
  destruct (bytes_to_uint (c :: r)) eqn:E; [|discriminate]. eapply bytes_to_uint_digits; exact E.
Qed.

Lemma digits_parse_udec s : s <> [] -> Forall is_digit s -> exists n, parse_udec s = Some n.
Proof.
  intros N F. destruct (digits_bytes_to_uint s F) as [u E]. unfold parse_udec.
  destruct s; [contradiction|]. rewrite E. eauto.
Qed.

(* accepted => optional sign, then one or more ASCII digits and nothing else; value in int64 *)
Theorem atoi64_form s z : atoi64 s = Some z ->
  exists sg ds, s = sg ++ ds /\ (sg = [] \/ sg = B "+" \/ sg = B "-") /\
                ds <> [] /\ Forall is_digit ds /\ in_int64 z = true.
Proof.
  unfold atoi64. destruct (parse_int_unbounded s) as [z'|] eqn:P; [|discriminate].
  destruct (in_int64 z') eqn:I; [|discriminate]. intros H; injection H as <-.
  unfold parse_int_unbounded in P.
  assert (Plain : forall n, parse_udec s = Some n ->
            exists sg ds, s = sg ++ ds /\ (sg = [] \/ sg = B "+" \/ sg = B "-") /\
                          ds <> [] /\ Forall is_digit ds /\ in_int64 z' = true).
  { intros n Hn. destruct (parse_udec_digits s n Hn) as [N F].
    exists [], s. repeat split; auto. }
  assert (Signed : forall (sgn : byte) r n, s = sgn :: r -> (sgn = "+"%byte \/ sgn = "-"%byte) ->
            parse_udec r = Some n ->
            exists sg ds, s = sg ++ ds /\ (sg = [] \/ sg = B "+" \/ sg = B "-") /\
                          ds <> [] /\ Forall is_digit ds /\ in_int64 z' = true).
  { intros sgn r n -> Hs Hn. destruct (parse_udec_digits r n Hn) as [N F].
    exists [sgn], r. split; [reflexivity|]. split; [destruct Hs as [->| ->]; auto|]. auto. }
  destruct s as [|c r]; [discriminate|].
  destruct (parse_udec (c :: r)) as [n|] eqn:U.
  - eapply Plain; reflexivity.
  - destruct c; try discriminate;
      (destruct (parse_udec r) as [n|] eqn:R; [|discriminate]);
      eapply Signed; eauto.
Qed.

(* conversely every such string denotes an integer; it is accepted iff that integer fits int64 *)
Theorem atoi64_form_conv sg ds : (sg = [] \/ sg = B "+" \/ sg = B "-") -> ds <> [] -> Forall is_digit ds ->
  exists z, parse_int_unbounded (sg ++ ds) = Some z /\
            atoi64 (sg ++ ds) = if in_int64 z then Some z else None.
Proof.
  intros Hs N F. destruct (digits_parse_udec ds N F) as [n E].
  assert (Hd : forall c r, ds = c :: r -> c <> "-"%byte /\ c <> "+"%byte).
  { intros c r ->. inversion F as [|? ? [f D] _]; subst. split; intros ->; discriminate. }
  destruct Hs as [->|[->| ->]]; cbn [app].
  - exists (Z.of_N n). unfold atoi64, parse_int_unbounded.
    destruct ds as [|c r]; [contradiction|]. destruct (Hd c r eq_refl) as [H1 H2].
    destruct c; try (exfalso; congruence); rewrite E; split; reflexivity.
  - exists (Z.of_N n). unfold atoi64, parse_int_unbounded. rewrite E. split; reflexivity.
  - exists (- Z.of_N n). unfold atoi64, parse_int_unbounded. rewrite E. split; reflexivity.
Qed.

(* ------------------------------------------------------------------ invariants *)
(* the number of databases never changes; every selection is a valid index *)
Definition srv_wf (n : nat) (s : server) : Prop :=
  List.length (sdbs s) = n /\ forall c, (n > 0)%nat -> (sel_lookup c (ssel s) < n)%nat.

Lemma srv_wf_init n : srv_wf n (srv_init n).
Proof. split; [apply repeat_length|]. intros c L. cbn. exact L. Qed.

Lemma zlength_nat {A} (l : list A) : zlength l = Z.of_nat (List.length l).
Proof. reflexivity. Qed.

Lemma srv_exec_wf n s conn now nowms args hint : srv_wf n s ->
  srv_wf n (snd (srv_exec s conn now nowms args hint)).
Proof.
  intros [L S]. destruct args as [|nm r]; [split; assumption|].
  destruct (is_select (nm :: r)) eqn:E.
  - rewrite srv_exec_select by exact E. unfold exec_select.
    destruct r as [|a [|b r']]; try (split; assumption).
    destruct (atoi64 a) as [i|]; [|split; assumption].
    destruct ((0 <=? i) && (i <? zlength (sdbs s))) eqn:B; [|split; assumption].
    apply andb_true_iff in B as [B1 B2]. apply Z.leb_le in B1. apply Z.ltb_lt in B2.
    rewrite zlength_nat, L in B2.
    split; [exact L|]. cbn [snd ssel]. intros c P.
    destruct (Z.eq_dec c conn) as [->|N].
    + rewrite sel_lookup_set_same. lia.
    + rewrite sel_lookup_set_other by exact N. apply S. exact P.
  - rewrite srv_exec_other by (try exact E; discriminate).
    destruct (nth_error (sdbs s) (sel_lookup conn (ssel s))); [|split; assumption].
    cbn [snd]. split; [cbn [sdbs]; rewrite list_update_length; exact L|exact S].
Qed.

(* ------------------------------------------------------------------ isolation *)
(* A command other than SELECT issued by connection [conn] runs against database number
   [sel conn] and nothing else: the reply and the new contents of that database are those of
   [exec] on it, every other database and every selection are unchanged. *)
Theorem isolation n s conn now nowms args hint : srv_wf n s -> (n > 0)%nat ->
  is_select args = false -> args <> [] ->
  let i := sel_lookup conn (ssel s) in
  exists d, nth_error (sdbs s) i = Some d /\
    let res := srv_exec s conn now nowms args hint in
    fst res = fst (exec d now nowms args hint) /\
    nth_error (sdbs (snd res)) i = Some (snd (exec d now nowms args hint)) /\
    (forall j, j <> i -> nth_error (sdbs (snd res)) j = nth_error (sdbs s) j) /\
    ssel (snd res) = ssel s.
Proof.
  intros [L S] P E NE. cbv zeta.
  assert (Hi : (sel_lookup conn (ssel s) < List.length (sdbs s))%nat) by (rewrite L; apply S; exact P).
  destruct (nth_error (sdbs s) (sel_lookup conn (ssel s))) as [d|] eqn:G.
  - exists d. split; [reflexivity|]. rewrite srv_exec_other by assumption. rewrite G.
    cbn [fst snd sdbs ssel]. split; [reflexivity|]. split; [apply nth_error_update_same; exact Hi|].
    split; [|reflexivity]. intros j N. apply nth_error_update_other. exact N.
  - apply nth_error_None in G. lia.
Qed.

(* the reply depends on the selected database only *)
Theorem reply_depends_on_selected_db s1 s2 c1 c2 now nowms args hint d :
  is_select args = false ->
  nth_error (sdbs s1) (sel_lookup c1 (ssel s1)) = Some d ->
  nth_error (sdbs s2) (sel_lookup c2 (ssel s2)) = Some d ->
  fst (srv_exec s1 c1 now nowms args hint) = fst (srv_exec s2 c2 now nowms args hint).
Proof.
  intros E G1 G2. destruct args as [|nm r]; [reflexivity|].
  rewrite !srv_exec_other by (try exact E; discriminate). rewrite G1, G2. reflexivity.
Qed.

(* ------------------------------------------------------------------ programs, interleavings *)
Record sstep := mkSStep { ss_conn : Z; ss_now : Z; ss_nowms : Z; ss_args : list bytes; ss_hint : reply }.

Fixpoint srv_run (s : server) (p : list sstep) : list reply * server :=
  match p with
  | [] => ([], s)
  | x :: r =>
    let '(rep, s1) := srv_exec s (ss_conn x) (ss_now x) (ss_nowms x) (ss_args x) (ss_hint x) in
    let '(reps, s2) := srv_run s1 r in
    (rep :: reps, s2)
  end.

Lemma srv_run_cons s x r :
  srv_run s (x :: r) =
  (fst (srv_exec s (ss_conn x) (ss_now x) (ss_nowms x) (ss_args x) (ss_hint x))
     :: fst (srv_run (snd (srv_exec s (ss_conn x) (ss_now x) (ss_nowms x) (ss_args x) (ss_hint x))) r),
   snd (srv_run (snd (srv_exec s (ss_conn x) (ss_now x) (ss_nowms x) (ss_args x) (ss_hint x))) r)).
Proof.
  cbn. destruct (srv_exec s (ss_conn x) (ss_now x) (ss_nowms x) (ss_args x) (ss_hint x)) as [rep s1].
  cbn [fst snd]. destruct (srv_run s1 r). reflexivity.
Qed.

Lemma srv_run_wf n p : forall s, srv_wf n s -> srv_wf n (snd (srv_run s p)).
Proof.
  induction p as [|x r IH]; intros s W; [exact W|].
  rewrite srv_run_cons. cbn [snd]. apply IH. apply srv_exec_wf. exact W.
Qed.

(* the sub-sequence of commands issued by connection c *)
Definition own (c : Z) (p : list sstep) : list sstep := filter (fun x => ss_conn x =? c) p.

(* a step of another connection leaves c's selection alone *)
Lemma srv_exec_other_conn s conn c now nowms args hint : c <> conn ->
  sel_lookup c (ssel (snd (srv_exec s conn now nowms args hint))) = sel_lookup c (ssel s).
Proof.
  intros N. destruct args as [|nm r]; [reflexivity|].
  destruct (is_select (nm :: r)) eqn:E.
  - rewrite srv_exec_select by exact E. unfold exec_select.
    destruct r as [|a [|b r']]; try reflexivity.
    destruct (atoi64 a) as [i|]; [|reflexivity].
    destruct ((0 <=? i) && (i <? zlength (sdbs s))); [|reflexivity].
    cbn [snd ssel]. apply sel_lookup_set_other. exact N.
  - rewrite srv_exec_other by (try exact E; discriminate).
    destruct (nth_error (sdbs s) (sel_lookup conn (ssel s))); reflexivity.
Qed.

(* a step of c itself: its new selection is a function of its old selection, the command and
   the (constant) number of databases *)
Lemma srv_exec_own_conn s1 s2 c now nowms args hint :
  List.length (sdbs s1) = List.length (sdbs s2) ->
  sel_lookup c (ssel s1) = sel_lookup c (ssel s2) ->
  sel_lookup c (ssel (snd (srv_exec s1 c now nowms args hint))) =
  sel_lookup c (ssel (snd (srv_exec s2 c now nowms args hint))).
Proof.
  intros L S. destruct args as [|nm r]; [exact S|].
  destruct (is_select (nm :: r)) eqn:E.
  - rewrite !srv_exec_select by exact E. unfold exec_select.
    destruct r as [|a [|b r']]; try exact S.
    destruct (atoi64 a) as [i|]; [|exact S].
    rewrite !zlength_nat, L.
    destruct ((0 <=? i) && (i <? Z.of_nat (List.length (sdbs s2)))); [|exact S].
    cbn [snd ssel]. rewrite !sel_lookup_set_same. reflexivity.
  - rewrite !srv_exec_other by (try exact E; discriminate).
    destruct (nth_error (sdbs s1) (sel_lookup c (ssel s1))),
             (nth_error (sdbs s2) (sel_lookup c (ssel s2))); exact S.
Qed.

Lemma srv_exec_length s conn now nowms args hint :
  List.length (sdbs (snd (srv_exec s conn now nowms args hint))) = List.length (sdbs s).
Proof.
  destruct args as [|nm r]; [reflexivity|].
  destruct (is_select (nm :: r)) eqn:E.
  - rewrite srv_exec_select by exact E. unfold exec_select.
    destruct r as [|a [|b r']]; try reflexivity.
    destruct (atoi64 a) as [i|]; [|reflexivity].
    destruct ((0 <=? i) && (i <? zlength (sdbs s))); reflexivity.
  - rewrite srv_exec_other by (try exact E; discriminate).
    destruct (nth_error (sdbs s) (sel_lookup conn (ssel s))); [|reflexivity].
    cbn [snd sdbs]. apply list_update_length.
Qed.

(* For every interleaving of any number of connections: the database connection c has selected
   after the program is the one it has selected after running only its own commands. *)
Theorem per_connection p c : forall s1 s2,
  List.length (sdbs s1) = List.length (sdbs s2) ->
  sel_lookup c (ssel s1) = sel_lookup c (ssel s2) ->
  sel_lookup c (ssel (snd (srv_run s1 p))) = sel_lookup c (ssel (snd (srv_run s2 (own c p)))).
Proof.
  induction p as [|x r IH]; intros s1 s2 L S; [exact S|].
  rewrite srv_run_cons. cbn [snd]. unfold own. cbn [filter].
  destruct (Z.eqb_spec (ss_conn x) c) as [E|N].
  - rewrite srv_run_cons. cbn [snd]. fold (own c r). apply IH.
    + rewrite !srv_exec_length. exact L.
    + rewrite E. apply srv_exec_own_conn; assumption.
  - fold (own c r). apply IH.
    + rewrite srv_exec_length. exact L.
    + rewrite srv_exec_other_conn by (intros ->; apply N; reflexivity). exact S.
Qed.

(* every connection starts on database 0, and stays there until its own SELECT *)
Theorem fresh_connection_db0 n c : sel_lookup c (ssel (srv_init n)) = 0%nat.
Proof. reflexivity. Qed.

Theorem silent_connection_db0 n p c : Forall (fun x => ss_conn x <> c) p ->
  sel_lookup c (ssel (snd (srv_run (srv_init n) p))) = 0%nat.
Proof.
  intros F. rewrite (per_connection p c (srv_init n) (srv_init n) eq_refl eq_refl).
  replace (own c p) with (@nil sstep); [reflexivity|].
  induction F as [|x r N _ IH]; [reflexivity|]. unfold own. cbn [filter].
  destruct (Z.eqb_spec (ss_conn x) c); [contradiction|exact IH].
Qed.

(* ------------------------------------------------------------------ one keyspace per index *)
(* step x of a program is addressed to database i: a command other than SELECT issued -- whoever
   the connection -- while it has i selected *)
Definition addr_cond (i : nat) (s : server) (x : sstep) : bool :=
  match ss_args x with
  | [] => false
  | _ :: _ => negb (is_select (ss_args x)) && Nat.eqb (sel_lookup (ss_conn x) (ssel s)) i
  end.

(* the commands of an interleaved program addressed to database i, each with the reply it got *)
Fixpoint addressed (i : nat) (s : server) (p : list sstep) : list (sstep * reply) :=
  match p with
  | [] => []
  | x :: r =>
    let res := srv_exec s (ss_conn x) (ss_now x) (ss_nowms x) (ss_args x) (ss_hint x) in
    if addr_cond i s x then (x, fst res) :: addressed i (snd res) r else addressed i (snd res) r
  end.

(* the same commands run on a single database, connection ids ignored *)
Fixpoint db_run (d : db) (l : list sstep) : list reply * db :=
  match l with
  | [] => ([], d)
  | x :: r =>
    let '(rep, d1) := exec d (ss_now x) (ss_nowms x) (ss_args x) (ss_hint x) in
    let '(reps, d2) := db_run d1 r in
    (rep :: reps, d2)
  end.

Lemma db_run_cons d x r :
  db_run d (x :: r) =
  (fst (exec d (ss_now x) (ss_nowms x) (ss_args x) (ss_hint x))
     :: fst (db_run (snd (exec d (ss_now x) (ss_nowms x) (ss_args x) (ss_hint x))) r),
   snd (db_run (snd (exec d (ss_now x) (ss_nowms x) (ss_args x) (ss_hint x))) r)).
Proof.
  cbn. destruct (exec d (ss_now x) (ss_nowms x) (ss_args x) (ss_hint x)) as [rep d1].
  cbn [fst snd]. destruct (db_run d1 r). reflexivity.
Qed.

Lemma exec_select_dbs s conn args : sdbs (snd (exec_select s conn args)) = sdbs s.
Proof.
  unfold exec_select. destruct args as [|a [|b [|c r]]]; try reflexivity.
  destruct (atoi64 b); [|reflexivity].
  destruct ((0 <=? z) && (z <? zlength (sdbs s))); reflexivity.
Qed.

(* one step, seen from database i *)
Lemma srv_step_index i s x d : nth_error (sdbs s) i = Some d ->
  let res := srv_exec s (ss_conn x) (ss_now x) (ss_nowms x) (ss_args x) (ss_hint x) in
  let e := exec d (ss_now x) (ss_nowms x) (ss_args x) (ss_hint x) in
  if addr_cond i s x
  then nth_error (sdbs (snd res)) i = Some (snd e) /\ fst res = fst e
  else nth_error (sdbs (snd res)) i = Some d.
Proof.
  intros G. cbv zeta. unfold addr_cond.
  destruct (ss_args x) as [|nm rest] eqn:EA; [exact G|].
  destruct (is_select (nm :: rest)) eqn:ES; cbn [negb andb].
  - rewrite srv_exec_select by exact ES. rewrite exec_select_dbs. exact G.
  - rewrite srv_exec_other by (try exact ES; discriminate).
    destruct (Nat.eqb_spec (sel_lookup (ss_conn x) (ssel s)) i) as [Ei|Ni].
    + rewrite Ei, G. cbn [fst snd sdbs]. split; [|reflexivity].
      apply nth_error_update_same. apply nth_error_Some. rewrite G. discriminate.
    + destruct (nth_error (sdbs s) (sel_lookup (ss_conn x) (ssel s))); [|exact G].
      cbn [snd sdbs]. rewrite nth_error_update_other by (intros E; apply Ni; symmetry; exact E). exact G.
Qed.

(* Database number i is ONE keyspace shared by every connection that has selected i: after any
   interleaved program its content is what the commands addressed to i -- in the order the server
   executed them, whichever connections issued them -- produce on that one database, and the
   replies those commands got are the replies of that single-database run. *)
Theorem one_keyspace_per_index p : forall i s d,
  nth_error (sdbs s) i = Some d ->
  let a := addressed i s p in
  nth_error (sdbs (snd (srv_run s p))) i = Some (snd (db_run d (map fst a))) /\
  map snd a = fst (db_run d (map fst a)).
Proof.
  induction p as [|x r IH]; intros i s d G; cbv zeta; [split; [exact G|reflexivity]|].
  rewrite srv_run_cons. cbn [snd addressed].
  pose proof (srv_step_index i s x d G) as St. cbv zeta in St.
  destruct (addr_cond i s x).
  - destruct St as [G1 Er]. cbn [map fst snd]. rewrite db_run_cons. cbn [fst snd].
    destruct (IH i _ _ G1) as [I1 I2]. split; [exact I1|]. rewrite Er, I2. reflexivity.
  - apply IH. exact St.
Qed.

(* two-step form: what connection c2 reads in database i is what connection c1 -- any connection
   that has i selected -- left there *)
Theorem write_visible_same_index s c1 c2 now1 nowms1 args1 hint1 now2 nowms2 args2 hint2 d :
  sel_lookup c1 (ssel s) = sel_lookup c2 (ssel s) ->
  nth_error (sdbs s) (sel_lookup c1 (ssel s)) = Some d ->
  is_select args1 = false -> args1 <> [] -> is_select args2 = false -> args2 <> [] ->
  fst (srv_exec (snd (srv_exec s c1 now1 nowms1 args1 hint1)) c2 now2 nowms2 args2 hint2) =
  fst (exec (snd (exec d now1 nowms1 args1 hint1)) now2 nowms2 args2 hint2).
Proof.
  intros E G S1 N1 S2 N2.
  rewrite (srv_exec_other s c1) by assumption. rewrite G. cbn [snd].
  rewrite srv_exec_other by assumption. cbn [ssel sdbs]. rewrite <- E.
  rewrite nth_error_update_same by (apply nth_error_Some; rewrite G; discriminate).
  reflexivity.
Qed.

(* ------------------------------------------------------------------ other databases are untouched *)
(* a step leaves every database other than the one its connection has selected exactly as it
   was (SELECT leaves all of them) *)
Theorem other_db_untouched s conn now nowms args hint j :
  j <> sel_lookup conn (ssel s) \/ is_select args = true ->
  nth_error (sdbs (snd (srv_exec s conn now nowms args hint))) j = nth_error (sdbs s) j.
Proof.
  intros H. destruct args as [|nm rest]; [reflexivity|].
  destruct (is_select (nm :: rest)) eqn:ES.
  - rewrite srv_exec_select by exact ES. rewrite exec_select_dbs. reflexivity.
  - destruct H as [N|H]; [|discriminate].
    rewrite srv_exec_other by (try exact ES; discriminate).
    destruct (nth_error (sdbs s) (sel_lookup conn (ssel s))); [|reflexivity].
    cbn [snd sdbs]. apply nth_error_update_other. exact N.
Qed.

(* over programs: a database to which no command is addressed does not change *)
Theorem unaddressed_db_unchanged p i s d :
  nth_error (sdbs s) i = Some d -> addressed i s p = [] ->
  nth_error (sdbs (snd (srv_run s p))) i = Some d.
Proof.
  intros G A. destruct (one_keyspace_per_index p i s d G) as [H _]. rewrite A in H. exact H.
Qed.

(* ------------------------------------------------------------------ connection lifecycle *)
(* programs with connections that end: [EvClose c] = connection c is gone (Handle returned) *)
Inductive sevent := EvCmd (x : sstep) | EvClose (c : Z).

Definition srv_step_ev (s : server) (e : sevent) : option reply * server :=
  match e with
  | EvCmd x => let '(r, s') := srv_exec s (ss_conn x) (ss_now x) (ss_nowms x) (ss_args x) (ss_hint x) in (Some r, s')
  | EvClose c => (None, srv_disconnect s c)
  end.

Fixpoint srv_run_ev (s : server) (p : list sevent) : list (option reply) * server :=
  match p with
  | [] => ([], s)
  | e :: r =>
    let '(o, s1) := srv_step_ev s e in
    let '(os, s2) := srv_run_ev s1 r in
    (o :: os, s2)
  end.

Lemma srv_run_ev_cons s e r :
  srv_run_ev s (e :: r) = (fst (srv_step_ev s e) :: fst (srv_run_ev (snd (srv_step_ev s e)) r),
                           snd (srv_run_ev (snd (srv_step_ev s e)) r)).
Proof. cbn. destruct (srv_step_ev s e) as [o s1]. cbn [fst snd]. destruct (srv_run_ev s1 r). reflexivity. Qed.

Lemma srv_run_ev_app s p q :
  snd (srv_run_ev s (p ++ q)) = snd (srv_run_ev (snd (srv_run_ev s p)) q).
Proof.
  revert s. induction p as [|e r IH]; intros s; [reflexivity|].
  rewrite <- app_comm_cons, !srv_run_ev_cons. cbn [snd]. apply IH.
Qed.

Lemma sel_lookup_forget_same c l : sel_lookup c (sel_forget c l) = 0%nat.
Proof.
  unfold sel_forget. induction l as [|[c0 i0] r IH]; cbn; [reflexivity|].
  destruct (Z.eqb_spec c c0) as [->|N]; cbn; [exact IH|].
  destruct (Z.eqb_spec c c0); [contradiction|exact IH].
Qed.

Lemma sel_lookup_forget_other c c' l : c' <> c -> sel_lookup c' (sel_forget c l) = sel_lookup c' l.
Proof. intros N. apply sel_lookup_filter_other. exact N. Qed.

(* events after which c is still where it was if it was in database 0: everything except c's own
   SELECTs *)
Definition no_select_by (c : Z) (e : sevent) : Prop :=
  match e with
  | EvCmd x => ss_conn x = c -> is_select (ss_args x) = false
  | EvClose _ => True
  end.

Lemma step_ev_stays_db0 s e c : no_select_by c e ->
  sel_lookup c (ssel s) = 0%nat -> sel_lookup c (ssel (snd (srv_step_ev s e))) = 0%nat.
Proof.
  intros Q Z0. destruct e as [x|c0]; cbn [srv_step_ev].
  - destruct (srv_exec s (ss_conn x) (ss_now x) (ss_nowms x) (ss_args x) (ss_hint x)) as [r s'] eqn:E.
    cbn [snd]. replace s' with (snd (srv_exec s (ss_conn x) (ss_now x) (ss_nowms x) (ss_args x) (ss_hint x)))
      by (rewrite E; reflexivity).
    destruct (Z.eq_dec (ss_conn x) c) as [Ec|Nc].
    + specialize (Q Ec). destruct (ss_args x) as [|nm rest] eqn:EA; [exact Z0|].
      rewrite srv_exec_other by (try exact Q; discriminate).
      destruct (nth_error (sdbs s) (sel_lookup (ss_conn x) (ssel s))); exact Z0.
    + rewrite srv_exec_other_conn by (intros E2; apply Nc; symmetry; exact E2). exact Z0.
  - cbn [snd srv_disconnect ssel]. destruct (Z.eq_dec c c0) as [->|N].
    + apply sel_lookup_forget_same.
    + rewrite sel_lookup_forget_other by exact N. exact Z0.
Qed.

Lemma run_ev_stays_db0 q c : forall s, Forall (no_select_by c) q ->
  sel_lookup c (ssel s) = 0%nat -> sel_lookup c (ssel (snd (srv_run_ev s q))) = 0%nat.
Proof.
  induction q as [|e r IH]; intros s F Z0; [exact Z0|].
  rewrite srv_run_ev_cons. cbn [snd]. inversion F; subst.
  apply IH; [assumption|]. apply step_ev_stays_db0; assumption.
Qed.

(* A connection that starts after its predecessor under the same id has ended -- at any point of
   any program, from any server state, whatever that predecessor or anybody else selected --
   is in database 0, and stays there until its own first SELECT. *)
Theorem reconnect_db0 s p c q : Forall (no_select_by c) q ->
  sel_lookup c (ssel (snd (srv_run_ev s (p ++ EvClose c :: q)))) = 0%nat.
Proof.
  intros F. rewrite srv_run_ev_app, srv_run_ev_cons. cbn [snd srv_step_ev].
  apply run_ev_stays_db0; [exact F|]. cbn [srv_disconnect ssel]. apply sel_lookup_forget_same.
Qed.

(* ... and so is a connection under an id that was never used, in any program with connections
   coming and going *)
Theorem new_connection_db0 n p c : Forall (no_select_by c) p ->
  sel_lookup c (ssel (snd (srv_run_ev (srv_init n) p))) = 0%nat.
Proof. intros F. apply run_ev_stays_db0; [exact F|reflexivity]. Qed.

(* disconnecting changes no database and no other connection's selection *)
Theorem disconnect_frame s c : sdbs (srv_disconnect s c) = sdbs s /\
  forall c', c' <> c -> sel_lookup c' (ssel (srv_disconnect s c)) = sel_lookup c' (ssel s).
Proof. split; [reflexivity|]. intros c' N. apply sel_lookup_forget_other. exact N. Qed.

(* ------------------------------------------------------------------ cluster mode: one database *)
(* In cluster mode every command, SELECT included, is executed by handleClusterCommits on the one
   Manager all connections share: the selection is a single, shared field.  That is the program
   run with every connection id collapsed into one: *)
Definition shared_selection (p : list sstep) : list sstep :=
  map (fun x => mkSStep 0 (ss_now x) (ss_nowms x) (ss_args x) (ss_hint x)) p.

(* with exactly one database every selection is 0 ... *)
Lemma wf1_sel0 s c : srv_wf 1 s -> sel_lookup c (ssel s) = 0%nat.
Proof. intros [_ S]. specialize (S c). lia. Qed.

(* ... so the reply and the databases after a step do not depend on who issues it *)
Lemma step_one_database s1 s2 c1 c2 now nowms args hint :
  srv_wf 1 s1 -> srv_wf 1 s2 -> sdbs s1 = sdbs s2 ->
  fst (srv_exec s1 c1 now nowms args hint) = fst (srv_exec s2 c2 now nowms args hint) /\
  sdbs (snd (srv_exec s1 c1 now nowms args hint)) = sdbs (snd (srv_exec s2 c2 now nowms args hint)).
Proof.
  intros W1 W2 E. destruct args as [|nm rest]; [split; [reflexivity|exact E]|].
  destruct (is_select (nm :: rest)) eqn:ES.
  - rewrite !srv_exec_select by exact ES. rewrite !exec_select_dbs. split; [|exact E].
    unfold exec_select. destruct rest as [|a [|b r]]; try reflexivity.
    destruct (atoi64 a); [|reflexivity]. rewrite E.
    destruct ((0 <=? z) && (z <? zlength (sdbs s2))); reflexivity.
  - rewrite !srv_exec_other by (try exact ES; discriminate).
    rewrite (wf1_sel0 s1 c1 W1), (wf1_sel0 s2 c2 W2), E.
    destruct (nth_error (sdbs s2) 0); [|split; [reflexivity|exact E]].
    cbn [fst snd sdbs]. split; reflexivity.
Qed.

(* A server with exactly one database -- the configuration of every cluster node -- answers any
   interleaved program of any number of connections exactly as the server that keeps one shared
   selection for all of them: no connection can move another. *)
Theorem cluster_single_database p : forall s1 s2, srv_wf 1 s1 -> srv_wf 1 s2 -> sdbs s1 = sdbs s2 ->
  fst (srv_run s1 p) = fst (srv_run s2 (shared_selection p)).
Proof.
  induction p as [|x r IH]; intros s1 s2 W1 W2 E; [reflexivity|].
  cbn [shared_selection map]. rewrite !srv_run_cons. cbn [fst ss_conn ss_now ss_nowms ss_args ss_hint].
  destruct (step_one_database s1 s2 (ss_conn x) 0 (ss_now x) (ss_nowms x) (ss_args x) (ss_hint x) W1 W2 E) as [Er Ed].
  rewrite Er. f_equal. apply IH; try (apply srv_exec_wf; assumption). exact Ed.
Qed.

(* and SELECT i for i <> 0 is refused on it, leaving the state unchanged *)
Theorem select_nonzero_refused_one_database s conn now nowms c arg hint :
  srv_wf 1 s -> lower c = B "select" -> atoi64 arg <> Some 0 ->
  srv_exec s conn now nowms [c; arg] hint = (err_other, s).
Proof.
  intros [L _] E N. rewrite srv_exec_select by (unfold is_select; rewrite E; reflexivity).
  unfold exec_select. destruct (atoi64 arg) as [i|]; [|reflexivity].
  rewrite zlength_nat, L.
  destruct (Z.eq_dec i 0) as [->|Ni]; [congruence|].
  replace ((0 <=? i) && (i <? Z.of_nat 1)) with false; [reflexivity|].
  symmetry. apply andb_false_iff. destruct (Z.leb_spec 0 i); [right; apply Z.ltb_ge; lia|left; reflexivity].
Qed.

(* ------------------------------------------------------------------ SELECT takes effect at once *)
Lemma others_keep_selection q c : forall s, Forall (fun x => ss_conn x <> c) q ->
  sel_lookup c (ssel (snd (srv_run s q))) = sel_lookup c (ssel s).
Proof.
  induction q as [|x r IH]; intros s F; [reflexivity|].
  rewrite srv_run_cons. cbn [snd]. inversion F; subst. rewrite IH by assumption.
  apply srv_exec_other_conn. intros E. subst. contradiction.
Qed.

(* A connection's commands take effect in the order sent, each with the selection current at that
   point: once SELECT i has been accepted for c, the next data command of c -- whatever other
   connections do in between -- is executed on database i (reply and new contents), however soon
   after the SELECT it was sent. *)
Theorem select_takes_effect_for_next_command s0 c now nowms sel arg hint i q x d :
  lower sel = B "select" -> atoi64 arg = Some (Z.of_nat i) -> (i < List.length (sdbs s0))%nat ->
  Forall (fun y => ss_conn y <> c) q ->
  ss_conn x = c -> is_select (ss_args x) = false -> ss_args x <> [] ->
  let s1 := snd (srv_exec s0 c now nowms [sel; arg] hint) in
  let s2 := snd (srv_run s1 q) in
  fst (srv_exec s0 c now nowms [sel; arg] hint) = rOK /\
  sel_lookup c (ssel s2) = i /\
  (nth_error (sdbs s2) i = Some d ->
   let res := srv_exec s2 c (ss_now x) (ss_nowms x) (ss_args x) (ss_hint x) in
   fst res = fst (exec d (ss_now x) (ss_nowms x) (ss_args x) (ss_hint x)) /\
   nth_error (sdbs (snd res)) i = Some (snd (exec d (ss_now x) (ss_nowms x) (ss_args x) (ss_hint x)))).
Proof.
  intros Es Ea Li Fq Ec Ns Ne. cbv zeta.
  pose proof (select_validates s0 c now nowms sel arg hint Es) as V. cbv zeta in V. rewrite Ea in V.
  replace ((0 <=? Z.of_nat i) && (Z.of_nat i <? zlength (sdbs s0))) with true in V.
  2:{ symmetry. apply andb_true_iff. split; [apply Z.leb_le; lia|apply Z.ltb_lt; rewrite zlength_nat; lia]. }
  destruct V as (Vr & Vd & Vs & _). rewrite Nat2Z.id in Vs.
  split; [exact Vr|].
  assert (S2 : sel_lookup c (ssel (snd (srv_run (snd (srv_exec s0 c now nowms [sel; arg] hint)) q))) = i)
    by (rewrite others_keep_selection by exact Fq; exact Vs).
  split; [exact S2|]. intros G.
  rewrite srv_exec_other by assumption. rewrite S2, G. cbn [fst snd sdbs]. split; [reflexivity|].
  apply nth_error_update_same. apply nth_error_Some. rewrite G. discriminate.
Qed.
