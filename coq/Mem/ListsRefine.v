(* C09: from executors to the dispatcher and to whole programs. *)
Require Import Base.Bytes Base.GoInt Base.Reply Mem.Types Mem.Inv Mem.Strings Mem.Lists Mem.Exec.
Require Import Mem.ListsSpec Mem.ListsProofs Mem.ListsBlock.
Require Import Lia.
Local Open Scope Z_scope.

(* ------------------------------------------------------------------ replies of the reference functions *)
Definition good_reply (r : reply) : Prop := reply_wf r = true /\ r <> err_wrongtype.

Lemma wf_bulks xs : forallb reply_wf (map RBulk xs) = true.
Proof. induction xs; cbn; auto. Qed.
Lemma wf_ints xs : forallb reply_wf (map RInt xs) = true.
Proof. induction xs; cbn; auto. Qed.

Ltac good := split; [first [reflexivity | apply wf_bulks | apply wf_ints] | discriminate].

Lemma good_llen l : good_reply (fst (ref_llen l)). Proof. good. Qed.
Lemma good_lindex i l : good_reply (fst (ref_lindex i l)).
Proof. unfold ref_lindex. cbn [fst]. destruct (pick _ l); good. Qed.
Lemma good_lrange s e l : good_reply (fst (ref_lrange s e l)). Proof. unfold ref_lrange; cbn [fst reply_wf]. good. Qed.
Lemma good_ltrim s e l : good_reply (fst (ref_ltrim s e l)). Proof. good. Qed.
Lemma good_lset i v l : good_reply (fst (ref_lset i v l)).
Proof. unfold ref_lset. destruct (_ || _); good. Qed.
Lemma good_push left vals l : good_reply (fst (ref_push left vals l)). Proof. good. Qed.
Lemma good_pushx left vals l : good_reply (fst (ref_pushx left vals l)).
Proof. unfold ref_pushx. destruct l; good. Qed.
Lemma good_pop1 left l : good_reply (fst (ref_pop1 left l)).
Proof. unfold ref_pop1. destruct (take_end left l) as [[x r]|]; good. Qed.
Lemma good_popn left c l : good_reply (fst (ref_popn left c l)).
Proof. unfold ref_popn. destruct l; [good|]. destruct left; cbn [fst reply_wf]; good. Qed.
Lemma good_lrem c v l : good_reply (fst (ref_lrem c v l)).
Proof. unfold ref_lrem. destruct (c >? 0); [good|]. destruct (c <? 0); good. Qed.
Lemma good_lpos o v l : good_reply (fst (ref_lpos o v l)).
Proof.
  unfold ref_lpos. cbn [fst]. destruct (o_count o); [cbn [reply_wf]; good|].
  destruct (ref_lpos_positions o v l); good.
Qed.

Lemma ref_clause_good n args k f :
  ref_clause n args = Some (CKey k f) -> forall l, good_reply (fst (f l)).
Proof.
  unfold ref_clause, int_arg.
  repeat match goal with
         | |- context [if ?c then _ else _] => destruct c
         end; intros H; try discriminate;
  repeat match type of H with
         | context [match ?x with _ => _ end] => destruct x; try discriminate
         end;
  inversion H; subst; intro;
  first [apply good_llen | apply good_lindex | apply good_lrange | apply good_ltrim | apply good_lset
        | apply good_push | apply good_pushx | apply good_pop1 | apply good_popn | apply good_lrem
        | apply good_lpos].
Qed.

(* ------------------------------------------------------------------ the dispatcher, one step *)
Definition is_bpop_name (n : bytes) : bool := is n (B "blpop") || is n (B "brpop").

(* every non-blocking list command satisfies its clause of the reference *)
Theorem lists_step d now nowms n args hint r d' :
  db_wf d -> lists_ok d -> is_bpop_name n = false ->
  lists_dispatch d now nowms n args hint = Some (r, d') ->
  step_ok n args d r d'.
Proof.
  intros W Hok NB H. unfold lists_dispatch in H. unfold is_bpop_name in NB.
  apply orb_false_iff in NB as [NB1 NB2].
  repeat match type of H with
         | (if is n ?lit then _ else _) = _ =>
           let E := fresh "E" in
           destruct (is n lit) eqn:E;
           [apply bytes_eqb_eq in E; subst n; inversion H as [H1]; clear H|]
         end; try discriminate.
  - apply exec_llen_ok; assumption.
  - apply exec_lindex_ok; assumption.
  - apply exec_lpos_ok; assumption.
  - eapply pop_cmd_ok; [assumption..|exact H1|reflexivity].
  - eapply pop_cmd_ok; [assumption..|exact H1|reflexivity].
  - eapply push_cmd_ok; [assumption..|exact H1|reflexivity].
  - eapply push_cmd_ok; [assumption..|exact H1|reflexivity].
  - eapply push_cmd_ok; [assumption..|exact H1|reflexivity].
  - eapply push_cmd_ok; [assumption..|exact H1|reflexivity].
  - apply exec_lset_ok; assumption.
  - apply exec_lrem_ok; assumption.
  - apply exec_ltrim_ok; assumption.
  - apply exec_lrange_ok; assumption.
  - apply exec_lmove_ok; assumption.
Qed.

(* the blocking forms, as one dispatcher step of a client alone *)
Lemma exec_bpop_cases left d nowms args :
  (bpop_parse args = None /\ exec_bpop left d nowms args = (err_other, d)) \/
  (exists keys t, bpop_parse args = Some (keys, t) /\
     match bpop_try left (purge d ((nowms + 100) / 1000)) keys with
     | Some (r, d1) => exec_bpop left d nowms args = (r, d1)
     | None => exec_bpop left d nowms args = (RNil, d)
     end).
Proof.
  unfold exec_bpop. destruct (bpop_parse args) as [[keys t]|] eqn:P.
  - right. exists keys, t. split; [reflexivity|].
    rewrite (bpop_run_alone left d nowms args keys t P). unfold bpop_poll.
    destruct (bpop_try left (purge d ((nowms + 100) / 1000)) keys) as [[r d1]|]; reflexivity.
  - left. split; [reflexivity|]. unfold bpop_run. rewrite P. reflexivity.
Qed.


(* ------------------------------------------------------------------ invariants, reply well-formedness *)
Theorem lists_dispatch_inv d now nowms n args hint r d' :
  db_wf d -> lists_ok d -> lists_dispatch d now nowms n args hint = Some (r, d') ->
  db_wf d' /\ lists_ok d' /\ reply_wf r = true.
Proof.
  intros W Hok H. destruct (is_bpop_name n) eqn:NB.
  - (* blocking forms *)
    assert (HB : exists left, exec_bpop left d nowms args = (r, d')).
    { unfold lists_dispatch in H. unfold is_bpop_name in NB.
      repeat match type of H with
             | (if is n ?lit then _ else _) = _ =>
               let E := fresh "E" in
               destruct (is n lit) eqn:E;
               [try (apply bytes_eqb_eq in E; subst n; discriminate NB)|]
             end.
      - inversion H. eauto.
      - inversion H. eauto.
      - discriminate. }
    destruct HB as [left HB].
    destruct (exec_bpop_cases left d nowms args) as [[_ E]|(keys & t & _ & E)].
    + rewrite E in HB. inversion HB; subst. split; [assumption|split; [assumption|reflexivity]].
    + pose proof (bpop_try_ok left _ keys (db_wf_purge d ((nowms + 100) / 1000) W)
                              (lists_ok_purge d ((nowms + 100) / 1000) Hok)) as T.
      destruct (bpop_try left (purge d ((nowms + 100) / 1000)) keys) as [[r1 d1]|].
      * rewrite E in HB. inversion HB; subst. destruct T as [Sv U].
        split; [eapply lupd_wf; [exact U|apply db_wf_purge; exact W]|].
        split; [eapply lupd_ok; [exact U|apply lists_ok_purge; exact Hok]|].
        unfold served in Sv. destruct (first_ready left _ keys); [contradiction| |].
        -- destruct Sv as [-> _]. reflexivity.
        -- destruct Sv as (-> & _). reflexivity.
      * rewrite E in HB. inversion HB; subst. split; [assumption|split; [assumption|reflexivity]].
  - destruct (lists_step d now nowms n args hint r d' W Hok NB H) as (c & RC & A & U).
    split; [eapply lupd_wf; eassumption|]. split; [eapply lupd_ok; eassumption|].
    destruct c as [| k f | src dst fl tl | lf keys t]; cbn [accepts] in A.
    + destruct A as [-> _]. reflexivity.
    + destruct (as_list (raw_view d k)).
      * destruct A as (-> & _). apply (ref_clause_good n args k f RC).
      * destruct A as [-> _]. reflexivity.
    + destruct (as_list (raw_view d src)) as [ls|]; [|destruct A as [-> _]; reflexivity].
      destruct (take_end fl ls) as [[x ls']|]; [|destruct A as [-> _]; reflexivity].
      destruct (as_list (raw_view d dst)); [|destruct A as [-> _]; reflexivity].
      destruct A as (-> & _). reflexivity.
    + contradiction.
Qed.

(* with the value invariant as a premise *)
Theorem lists_dispatch_wf_pres_ok d now nowms n args hint r d' :
  db_wf d -> lists_ok d -> lists_dispatch d now nowms n args hint = Some (r, d') -> db_wf d'.
Proof. intros W Hok H. apply (lists_dispatch_inv d now nowms n args hint r d' W Hok H). Qed.

Theorem lists_dispatch_reply_wf_ok d now nowms n args hint r d' :
  db_wf d -> lists_ok d -> lists_dispatch d now nowms n args hint = Some (r, d') -> reply_wf r = true.
Proof. intros W Hok H. apply (lists_dispatch_inv d now nowms n args hint r d' W Hok H). Qed.

(* ---- the same two facts without the value invariant (the shapes of CONVENTIONS.md, so that the
   global theorems compose over [families] with [db_wf] alone): a direct structural pass ---- *)
Inductive lupd0 : db -> db -> Prop :=
| lupd0_refl d : lupd0 d d
| lupd0_set d k v : lupd0 d (db_set d k v)
| lupd0_del d k : lupd0 d (db_del d k)
| lupd0_trans d1 d2 d3 : lupd0 d1 d2 -> lupd0 d2 d3 -> lupd0 d1 d3.

Lemma lupd0_wf d d' : lupd0 d d' -> db_wf d -> db_wf d'.
Proof. induction 1; intros W; auto using db_wf_set, db_wf_del. Qed.
Lemma lupd0_put d k l : lupd0 d (put_list d k l).
Proof. destruct l; constructor. Qed.

Definition res_ok (d : db) (x : reply * db) : Prop := lupd0 d (snd x) /\ reply_wf (fst x) = true.

Ltac res_done :=
  split; cbn [fst snd];
  [first [apply lupd0_refl | apply lupd0_set | apply lupd0_del | apply lupd0_put
         | eapply lupd0_trans; [apply lupd0_put|apply lupd0_set]]
  |first [reflexivity | apply wf_bulks | apply wf_ints | cbn [reply_wf]; first [apply wf_bulks | apply wf_ints]]].

Ltac crunch :=
  repeat match goal with
         | |- res_ok _ (match ?x with _ => _ end) => destruct x
         | |- res_ok _ (if ?c then _ else _) => destruct c
         | |- res_ok _ (let '(_, _) := ?x in _) => destruct x
         end; try res_done.

Lemma res_llen d args : res_ok d (exec_llen d args).
Proof. unfold exec_llen. crunch. Qed.
Lemma res_lindex d args : res_ok d (exec_lindex d args).
Proof. unfold exec_lindex. crunch. Qed.
Lemma res_lrange d args : res_ok d (exec_lrange d args).
Proof. unfold exec_lrange. crunch. Qed.
Lemma res_ltrim d args : res_ok d (exec_ltrim d args).
Proof. unfold exec_ltrim. crunch. Qed.
Lemma res_lset d args : res_ok d (exec_lset d args).
Proof. unfold exec_lset. crunch. Qed.
Lemma res_lrem d args : res_ok d (exec_lrem d args).
Proof. unfold exec_lrem. crunch. Qed.
Lemma res_push l c d args : res_ok d (push_cmd l c d args).
Proof. unfold push_cmd. crunch. Qed.
Lemma res_pop l d args : res_ok d (pop_cmd l d args).
Proof. unfold pop_cmd. crunch. Qed.
Lemma res_lmove d args : res_ok d (exec_lmove d args).
Proof. unfold exec_lmove. cbv zeta. crunch. Qed.
Lemma res_lpos d args : res_ok d (exec_lpos d args).
Proof. unfold exec_lpos. cbv zeta. crunch. destruct (lp_count l); res_done. Qed.

Lemma res_bpop_try left d keys :
  match bpop_try left d keys with Some x => res_ok d x | None => True end.
Proof.
  induction keys as [|k rest IH]; cbn [bpop_try]; [exact I|].
  destruct (get_list d k) as [| |l]; [exact IH|res_done|].
  destruct left; [destruct l|destruct (rev l)]; try exact IH; res_done.
Qed.

Lemma res_bpop left d nowms args : db_wf d -> db_wf (snd (exec_bpop left d nowms args)) /\
                                   reply_wf (fst (exec_bpop left d nowms args)) = true.
Proof.
  intros W. destruct (exec_bpop_cases left d nowms args) as [[_ E]|(keys & t & _ & E)].
  - rewrite E. split; [exact W|reflexivity].
  - pose proof (res_bpop_try left (purge d ((nowms + 100) / 1000)) keys) as T.
    destruct (bpop_try left (purge d ((nowms + 100) / 1000)) keys) as [[r1 d1]|]; rewrite E; cbn [fst snd].
    + destruct T as [U Rw]. split; [|exact Rw]. eapply lupd0_wf; [exact U|apply db_wf_purge; exact W].
    + split; [exact W|reflexivity].
Qed.

Lemma lists_dispatch_res d now nowms n args hint r d' :
  db_wf d -> lists_dispatch d now nowms n args hint = Some (r, d') -> db_wf d' /\ reply_wf r = true.
Proof.
  intros W H. unfold lists_dispatch in H.
  assert (G : forall x, res_ok d x -> Some x = Some (r, d') -> db_wf d' /\ reply_wf r = true).
  { intros x [U Rw] E. inversion E; subst. split; [eapply lupd0_wf; eassumption|exact Rw]. }
  assert (GB : forall left, Some (exec_bpop left d nowms args) = Some (r, d') -> db_wf d' /\ reply_wf r = true).
  { intros left E. inversion E as [E1]. pose proof (res_bpop left d nowms args W) as [A Bq].
    rewrite E1 in A, Bq. split; assumption. }
  repeat match type of H with
         | (if ?c then _ else _) = _ => destruct c
         end; try discriminate;
  first [ apply (GB _ H)
        | eapply G; [|exact H];
          first [apply res_llen | apply res_lindex | apply res_lpos | apply res_pop | apply res_push
                | apply res_lset | apply res_lrem | apply res_ltrim | apply res_lrange | apply res_lmove] ].
Qed.

(* the two shapes of CONVENTIONS.md *)
Theorem lists_dispatch_wf_pres d now nowms n args hint r d' :
  db_wf d -> lists_dispatch d now nowms n args hint = Some (r, d') -> db_wf d'.
Proof. intros W H. apply (lists_dispatch_res d now nowms n args hint r d' W H). Qed.

Theorem lists_dispatch_reply_wf d now nowms n args hint r d' :
  db_wf d -> lists_dispatch d now nowms n args hint = Some (r, d') -> reply_wf r = true.
Proof. intros W H. apply (lists_dispatch_res d now nowms n args hint r d' W H). Qed.

(* ------------------------------------------------------------------ consequences of the clauses *)
Definition clause_keys (c : clause) : list bytes :=
  match c with
  | CKey k _ => [k]
  | CMove s t _ _ => [s; t]
  | CBlock _ keys _ => keys
  | _ => []
  end.

(* frame: a key the command does not name keeps its value and its deadline *)
Lemma accepts_frame c a b r : accepts c a b r -> same_except (clause_keys c) a b.
Proof.
  destruct c as [| k f | src dst fl tl | lf keys t]; cbn [accepts clause_keys]; intros A k0 N.
  - apply A.
  - destruct (as_list (a k)); [apply A; exact N|apply A].
  - destruct (as_list (a src)) as [ls|]; [|apply A].
    destruct (take_end fl ls) as [[x ls']|]; [|apply A].
    destruct (as_list (a dst)); [|apply A]. destruct A as (_ & SE & _). apply SE. exact N.
  - contradiction.
Qed.

(* a WRONGTYPE reply changes nothing *)
Lemma accepts_wrongtype n args c a b :
  ref_clause n args = Some c -> accepts c a b err_wrongtype -> unchanged a b.
Proof.
  intros RC A. destruct c as [| k f | src dst fl tl | lf keys t]; cbn [accepts] in A.
  - apply A.
  - destruct (as_list (a k)) as [l|]; [|apply A].
    destruct A as (E & _). destruct (ref_clause_good n args k f RC l) as [_ NW]. congruence.
  - destruct (as_list (a src)) as [ls|]; [|apply A].
    destruct (take_end fl ls) as [[x ls']|]; [|apply A].
    destruct (as_list (a dst)); [|apply A]. destruct A as (E & _). discriminate.
  - contradiction.
Qed.

(* the clauses determine the reply and the resulting view *)
Lemma accepts_deterministic c a b1 b2 r1 r2 :
  accepts c a b1 r1 -> accepts c a b2 r2 ->
  (forall k, b1 k = b2 k) /\ r1 = r2.
Proof.
  destruct c as [| k f | src dst fl tl | lf keys t]; cbn [accepts]; intros A1 A2.
  - destruct A1 as [-> U1], A2 as [-> U2]. split; [intros k; rewrite U1, U2; reflexivity|reflexivity].
  - destruct (as_list (a k)) as [l|].
    + destruct A1 as (-> & K1 & S1), A2 as (-> & K2 & S2). split; [|reflexivity].
      intros k0. destruct (bytes_eq_dec k0 k) as [->|N]; [congruence|].
      rewrite S1, S2; [reflexivity|intros [E|[]]; congruence..].
    + destruct A1 as [-> U1], A2 as [-> U2]. split; [intros k0; rewrite U1, U2; reflexivity|reflexivity].
  - destruct (as_list (a src)) as [ls|].
    2:{ destruct A1 as [-> U1], A2 as [-> U2]. split; [intros k0; rewrite U1, U2; reflexivity|reflexivity]. }
    destruct (take_end fl ls) as [[x ls']|].
    2:{ destruct A1 as [-> U1], A2 as [-> U2]. split; [intros k0; rewrite U1, U2; reflexivity|reflexivity]. }
    destruct (as_list (a dst)) as [ld|].
    2:{ destruct A1 as [-> U1], A2 as [-> U2]. split; [intros k0; rewrite U1, U2; reflexivity|reflexivity]. }
    destruct A1 as (-> & S1 & K1), A2 as (-> & S2 & K2). split; [|reflexivity].
    intros k0. destruct (bytes_eqb_spec src dst) as [E|N].
    + subst dst. destruct (bytes_eq_dec k0 src) as [->|N0]; [congruence|].
      rewrite S1, S2; [reflexivity|intros [E|[E|[]]]; congruence..].
    + destruct K1 as [K1 K1'], K2 as [K2 K2'].
      destruct (bytes_eq_dec k0 src) as [->|N0]; [congruence|].
      destruct (bytes_eq_dec k0 dst) as [->|N1]; [congruence|].
      rewrite S1, S2; [reflexivity|intros [E|[E|[]]]; congruence..].
  - contradiction.
Qed.

Lemma accepts_ext c a a' b b' r :
  (forall k, a k = a' k) -> (forall k, b k = b' k) -> accepts c a b r -> accepts c a' b' r.
Proof.
  intros Ea Eb. destruct c as [| k f | src dst fl tl | lf keys t]; cbn [accepts].
  - intros [-> U]. split; [reflexivity|]. intros k. rewrite <- Ea, <- Eb. apply U.
  - rewrite <- Ea. destruct (as_list (a k)).
    + intros (-> & K & Sx). split; [reflexivity|]. split; [rewrite <- Eb; exact K|].
      intros k0 N. rewrite <- Ea, <- Eb. apply Sx. exact N.
    + intros [-> U]. split; [reflexivity|]. intros k0. rewrite <- Ea, <- Eb. apply U.
  - rewrite <- !Ea. destruct (as_list (a src)) as [ls|].
    2:{ intros [-> U]. split; [reflexivity|]. intros k0. rewrite <- Ea, <- Eb. apply U. }
    destruct (take_end fl ls) as [[x ls']|].
    2:{ intros [-> U]. split; [reflexivity|]. intros k0. rewrite <- Ea, <- Eb. apply U. }
    destruct (as_list (a dst)) as [ld|].
    2:{ intros [-> U]. split; [reflexivity|]. intros k0. rewrite <- Ea, <- Eb. apply U. }
    intros (-> & Sx & K). split; [reflexivity|]. split.
    + intros k0 N. rewrite <- Ea, <- Eb. apply Sx. exact N.
    + rewrite <- !Eb. exact K.
  - tauto.
Qed.

(* LLEN is the number of elements *)
Theorem llen_is_length d c k :
  db_wf d -> lists_ok d ->
  match as_list (raw_view d k) with
  | Some l => exec_llen d [c; k] = (RInt (zlength l), d)
  | None => exec_llen d [c; k] = (err_wrongtype, d)
  end.
Proof.
  intros W Hok. pose proof (get_list_view d k W Hok) as V. unfold exec_llen.
  destruct (get_list d k) as [| |l].
  - destruct V as [V _]. rewrite V. reflexivity.
  - rewrite V. reflexivity.
  - destruct V as [V _]. rewrite V. reflexivity.
Qed.

(* ------------------------------------------------------------------ the full dispatcher of Mem/Exec.v *)
Lemma list_name_cases n args c :
  ref_clause n args = Some c ->
  In n [B "llen"; B "lindex"; B "lrange"; B "ltrim"; B "lset"; B "lpush"; B "rpush"; B "lpushx"; B "rpushx";
        B "lpop"; B "rpop"; B "lrem"; B "lpos"; B "lmove"; B "blpop"; B "brpop"].
Proof.
  unfold ref_clause. intros H.
  repeat match type of H with
         | (if is n ?lit then _ else _) = _ =>
           let E := fresh "E" in destruct (is n lit) eqn:E; [apply bytes_eqb_eq in E; subst n; cbn; tauto|]
         | (if is n ?l1 || is n ?l2 then _ else _) = _ =>
           let E := fresh "E" in let F := fresh "F" in
           destruct (is n l1) eqn:E; [apply bytes_eqb_eq in E; subst n; cbn; tauto|];
           destruct (is n l2) eqn:F; [apply bytes_eqb_eq in F; subst n; cbn; tauto|]; cbn [orb] in H
         end.
  discriminate.
Qed.

(* a list command reaches its executor through the family table *)
Lemma exec_cmd_list d now nowms name rest hint c :
  ref_clause (lower name) (name :: rest) = Some c ->
  exists res, lists_dispatch d now nowms (lower name) (name :: rest) hint = Some res /\
              exec_cmd d now nowms (name :: rest) hint = res.
Proof.
  intros RC. apply list_name_cases in RC. unfold exec_cmd. generalize dependent (lower name). intros n RC.
  cbn [In] in RC.
  repeat (destruct RC as [<-|RC]; [eexists; split; reflexivity|]). contradiction.
Qed.

(* ------------------------------------------------------------------ programs *)
Record step := mkStep { s_now : Z; s_nowms : Z; s_args : list bytes; s_hint : reply }.

(* a list command, issued at a clock whose seconds and milliseconds agree *)
Definition list_step (s : step) : Prop :=
  s_now s = s_nowms s / 1000 /\
  match s_args s with
  | [] => False
  | name :: _ => ref_clause (lower name) (s_args s) <> None
  end.

Fixpoint run (d : db) (p : list step) : list reply * db :=
  match p with
  | [] => ([], d)
  | s :: p' =>
    let '(r, d1) := exec d (s_now s) (s_nowms s) (s_args s) (s_hint s) in
    let '(rs, d2) := run d1 p' in (r :: rs, d2)
  end.

(* the reference side: an abstract keyspace (what is observable of every key: value, deadline);
   the passing of time makes keys whose deadline has come disappear *)
Definition age (a : kview) (now : Z) : kview :=
  fun k => match a k with
           | Some (v, Some t) => if t <=? now then None else Some (v, Some t)
           | o => o
           end.

Definition ref_step (a : kview) (s : step) (r : reply) (b : kview) : Prop :=
  match s_args s with
  | [] => False
  | name :: _ =>
    match ref_clause (lower name) (s_args s) with
    | None => False
    | Some (CBlock lft keys t) =>
      (* a client alone: served at the first polling instant from the keyspace as it is then,
         or nil (at the timeout: ListsBlock.bpop_blocking) with nothing changed *)
      let a1 := age a ((s_nowms s + 100) / 1000) in
      match first_ready lft a1 keys with
      | RdNone => r = RNil /\ unchanged (age a (s_now s)) b
      | _ => served lft keys a1 b r
      end
    | Some c => accepts c (age a (s_now s)) b r
    end
  end.

Inductive ref_run : kview -> list step -> list reply -> kview -> Prop :=
| rr_nil a : ref_run a [] [] a
| rr_cons a s r b p rs z : ref_step a s r b -> ref_run b p rs z -> ref_run a (s :: p) (r :: rs) z.

Lemma view_age d now k : view d now k = age (raw_view d) now k.
Proof.
  unfold view, age, raw_view, expired. destruct (db_get d k); [|reflexivity].
  destruct (db_ttl d k); reflexivity.
Qed.

Lemma raw_purge_age d now k : db_wf d -> raw_view (purge d now) k = age (raw_view d) now k.
Proof. intros W. rewrite raw_view_purge by exact W. apply view_age. Qed.

Lemma purge_purge_view d now t1 k :
  db_wf d -> now <= t1 -> raw_view (purge (purge d now) t1) k = age (raw_view d) t1 k.
Proof.
  intros W Hle. rewrite raw_view_purge by (apply db_wf_purge; exact W).
  rewrite <- view_age. unfold view. rewrite db_get_purge.
  assert (EX : expired (purge d now) t1 k = if expired d now k then false else expired d t1 k).
  { unfold expired at 1. rewrite db_ttl_purge by exact W. destruct (expired d now k); reflexivity. }
  assert (TT : db_ttl (purge d now) k = if expired d now k then None else db_ttl d k)
    by (apply db_ttl_purge; exact W).
  rewrite EX, TT. destruct (expired d now k) eqn:X.
  - rewrite (expired_mono d now t1 k Hle X). destruct (db_get d k); reflexivity.
  - reflexivity.
Qed.

Lemma ref_clause_bpop (left : bool) args :
  ref_clause (if left then B "blpop" else B "brpop") args =
  Some (match bpop_parse args with Some (keys, t) => CBlock left keys t | None => CErr end).
Proof.
  unfold bpop_parse, int_arg. destruct left.
  - change (ref_clause (B "blpop") args) with
      (Some (match args with
             | _ :: (_ :: _ :: _) as rest =>
               match atoi64 (last rest []) with
               | Some t => if (t <? 0) || (t >? 9223372036) then CErr else CBlock true (removelast rest) t
               | None => CErr end
             | _ => CErr end)).
    destruct args as [|a0 [|a1 [|a2 rest]]]; try reflexivity.
    destruct (atoi64 (last (a1 :: a2 :: rest) [])); [|reflexivity].
    destruct ((z <? 0) || (z >? 9223372036)); reflexivity.
  - change (ref_clause (B "brpop") args) with
      (Some (match args with
             | _ :: (_ :: _ :: _) as rest =>
               match atoi64 (last rest []) with
               | Some t => if (t <? 0) || (t >? 9223372036) then CErr else CBlock false (removelast rest) t
               | None => CErr end
             | _ => CErr end)).
    destruct args as [|a0 [|a1 [|a2 rest]]]; try reflexivity.
    destruct (atoi64 (last (a1 :: a2 :: rest) [])); [|reflexivity].
    destruct ((z <? 0) || (z >? 9223372036)); reflexivity.
Qed.

(* one step of the model is a step of the reference *)
Lemma exec_ref_step d s r d' :
  db_wf d -> lists_ok d -> list_step s ->
  exec d (s_now s) (s_nowms s) (s_args s) (s_hint s) = (r, d') ->
  ref_step (raw_view d) s r (raw_view d') /\ db_wf d' /\ lists_ok d'.
Proof.
  intros W Hok [CK LS] H. unfold ref_step. unfold exec in H.
  destruct (s_args s) as [|name rest] eqn:EA; [contradiction|].
  destruct (ref_clause (lower name) (name :: rest)) as [c|] eqn:RC; [|congruence]. clear LS.
  set (now := s_now s) in *. set (nowms := s_nowms s) in *. set (dp := purge d now) in *.
  assert (Wp : db_wf dp) by (apply db_wf_purge; exact W).
  assert (Okp : lists_ok dp) by (apply lists_ok_purge; exact Hok).
  assert (EV : forall k, raw_view dp k = age (raw_view d) now k) by (intros; apply raw_purge_age; exact W).
  destruct (exec_cmd_list dp now nowms name rest (s_hint s) c RC) as (res & LD & EX).
  rewrite EX in H. subst res.
  destruct (is_bpop_name (lower name)) eqn:NB.
  - (* BLPOP / BRPOP *)
    assert (HB : exists left : bool, lower name = (if left then B "blpop" else B "brpop") /\
                              exec_bpop left dp nowms (name :: rest) = (r, d')).
    { unfold is_bpop_name in NB. unfold lists_dispatch in LD.
      destruct (is (lower name) (B "blpop")) eqn:E1.
      - apply bytes_eqb_eq in E1. rewrite E1 in *. exists true. split; [reflexivity|].
        inversion LD. reflexivity.
      - destruct (is (lower name) (B "brpop")) eqn:E2; [|discriminate NB].
        apply bytes_eqb_eq in E2. rewrite E2 in *. exists false. split; [reflexivity|].
        inversion LD. reflexivity. }
    destruct HB as (left & EN & HB). rewrite EN in RC. rewrite ref_clause_bpop in RC.
    destruct (exec_bpop_cases left dp nowms (name :: rest)) as [[P E]|(keys & t & P & E)].
    + rewrite P in RC. inversion RC; subst c. rewrite E in HB. inversion HB; subst.
      split; [|split; assumption]. cbn [accepts]. split; [reflexivity|]. intros k. apply EV.
    + rewrite P in RC. inversion RC; subst c. cbv zeta.
      set (t1 := (nowms + 100) / 1000) in *.
      assert (Hle : now <= t1).
      { unfold t1. rewrite CK. apply div1000_mono. lia. }
      assert (EV1 : forall k, raw_view (purge dp t1) k = age (raw_view d) t1 k)
        by (intros; apply purge_purge_view; assumption).
      pose proof (bpop_try_ok left (purge dp t1) keys (db_wf_purge dp t1 Wp) (lists_ok_purge dp t1 Okp)) as T.
      rewrite <- (first_ready_ext left _ _ keys EV1).
      destruct (bpop_try left (purge dp t1) keys) as [[r1 d1]|].
      * rewrite E in HB. inversion HB; subst r1 d1. destruct T as [Sv U].
        assert (Sv' : served left keys (age (raw_view d) t1) (raw_view d') r)
          by (eapply served_ext; [exact EV1|exact Sv]).
        split.
        -- unfold served in Sv. destruct (first_ready left (raw_view (purge dp t1)) keys); [contradiction|exact Sv'..].
        -- split; [eapply lupd_wf; [exact U|apply db_wf_purge; exact Wp]
                  |eapply lupd_ok; [exact U|apply lists_ok_purge; exact Okp]].
      * rewrite E in HB. inversion HB; subst. rewrite T.
        split; [|split; assumption]. split; [reflexivity|]. intros k. apply EV.
  - destruct (lists_step dp now nowms (lower name) (name :: rest) (s_hint s) r d' Wp Okp NB LD)
      as (c' & RC' & A & U).
    rewrite RC in RC'. inversion RC'; subst c'.
    split; [|split; [eapply lupd_wf; eassumption|eapply lupd_ok; eassumption]].
    assert (A' : accepts c (age (raw_view d) now) (raw_view d') r)
      by (eapply accepts_ext; [exact EV|reflexivity|exact A]).
    destruct c; try exact A'. cbn [accepts] in A. contradiction.
Qed.

(* C09, refinement: every program of list commands, from any well-formed keyspace, is a run of
   the reference with exactly the replies of the model, ending in the abstract keyspace of the
   model's final state; the invariants hold throughout. *)
Theorem list_programs_refine : forall p d,
  db_wf d -> lists_ok d -> Forall list_step p ->
  ref_run (raw_view d) p (fst (run d p)) (raw_view (snd (run d p))) /\
  db_wf (snd (run d p)) /\ lists_ok (snd (run d p)).
Proof.
  induction p as [|s p IH]; intros d W Hok F.
  - cbn. split; [constructor|split; assumption].
  - inversion F as [|? ? Hs Hp]; subst. cbn [run].
    destruct (exec d (s_now s) (s_nowms s) (s_args s) (s_hint s)) as [r d1] eqn:E.
    destruct (exec_ref_step d s r d1 W Hok Hs E) as (St & W1 & Ok1).
    specialize (IH d1 W1 Ok1 Hp). destruct (run d1 p) as [rs d2]. cbn [fst snd] in *.
    destruct IH as (RR & W2 & Ok2). split; [|split; assumption].
    econstructor; eassumption.
Qed.

(* ------------------------------------------------------------------ dispatcher-level corollaries *)
Theorem lists_wrongtype_changes_nothing d now nowms n args hint d' :
  db_wf d -> lists_ok d -> is_bpop_name n = false ->
  lists_dispatch d now nowms n args hint = Some (err_wrongtype, d') ->
  forall k, raw_view d' k = raw_view d k.
Proof.
  intros W Hok NB H. destruct (lists_step d now nowms n args hint _ d' W Hok NB H) as (c & RC & A & _).
  exact (accepts_wrongtype n args c _ _ RC A).
Qed.

Theorem lists_frame d now nowms n args hint r d' c :
  db_wf d -> lists_ok d -> is_bpop_name n = false ->
  lists_dispatch d now nowms n args hint = Some (r, d') -> ref_clause n args = Some c ->
  forall k, ~ In k (clause_keys c) -> raw_view d' k = raw_view d k.
Proof.
  intros W Hok NB H RC. destruct (lists_step d now nowms n args hint r d' W Hok NB H) as (c' & RC' & A & _).
  rewrite RC in RC'. inversion RC'; subst c'. exact (accepts_frame c _ _ r A).
Qed.

(* the blocking forms: WRONGTYPE / frame at the first polling instant *)
Theorem bpop_frame left d nowms args keys t r d' tend :
  db_wf d -> lists_ok d -> bpop_parse args = Some (keys, t) ->
  bpop_run left d nowms args = (r, d', tend) ->
  forall k, ~ In k keys -> view d' ((nowms + 100) / 1000) k = view d ((nowms + 100) / 1000) k.
Proof.
  intros W Hok P H k N. pose proof (bpop_blocking left d nowms args keys t W Hok P) as BB.
  cbv zeta in BB. set (t1 := (nowms + 100) / 1000) in *.
  assert (IN : forall a k0 x l', first_ready left a keys = RdPop k0 x l' -> In k0 keys).
  { intros a. clear. induction keys as [|k1 rest IH]; cbn [first_ready]; [discriminate|].
    intros k0 x l'. destruct (as_list (a k1)); [|discriminate].
    destruct (take_end left l) as [[x1 l1]|].
    - intros E. inversion E; subst. left. reflexivity.
    - intros E. right. eapply IH. exact E. }
  destruct (first_ready left (view d t1) keys) as [| |k0 x l'] eqn:FR.
  - rewrite H in BB. inversion BB; subst. reflexivity.
  - destruct BB as (r1 & d1 & E & Sv & _). rewrite H in E. inversion E; subst.
    unfold served in Sv. rewrite FR in Sv. destruct Sv as [_ U]. apply U.
  - destruct BB as (r1 & d1 & E & Sv & _). rewrite H in E. inversion E; subst.
    unfold served in Sv. rewrite FR in Sv. destruct Sv as (_ & _ & SE). apply SE.
    intros [<-|[]]. apply N. eapply IN. exact FR.
Qed.
