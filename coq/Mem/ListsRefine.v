(* C09: from executors to the dispatcher and to whole programs. *)
Require Import Base.Bytes Base.GoInt Base.Reply Mem.Types Mem.Inv Mem.Strings Mem.Lists Mem.Exec.
Require Import Mem.ListsSpec Mem.ListsProofs Mem.ListsBlock.
Require Import Lia.
Local Open Scope Z_scope.

(* ------------------------------------------------------------------ replies of the reference functions *)
Definition good_reply (r : reply) : Prop := reply_wf r = true /\ r <> err_wrongtype.

Lemma wf_bulks xs : forallb reply_wf (map RBulk xs) = true.
Proof. induction xs; cbn; auto. Qed.
Lemma wf_ints xs : forallb reply_wf (map RInt xs) = true.
Proof. induction xs; cbn; auto. Qed.

Ltac good := split; [first [reflexivity | apply wf_bulks | apply wf_ints] | discriminate].

Lemma good_llen l : good_reply (fst (ref_llen l)). Proof. good. Qed.
Lemma good_lindex i l : good_reply (fst (ref_lindex i l)).
Proof. unfold ref_lindex. cbn [fst]. destruct (pick _ l); good. Qed.
Lemma good_lrange s e l : good_reply (fst (ref_lrange s e l)). Proof. unfold ref_lrange; cbn [fst reply_wf]. good. Qed.
Lemma good_ltrim s e l : good_reply (fst (ref_ltrim s e l)). Proof. good. Qed.
Lemma good_lset i v l : good_reply (fst (ref_lset i v l)).
Proof. unfold ref_lset. destruct (_ || _); good. Qed.
Lemma good_push left vals l : good_reply (fst (ref_push left vals l)). Proof. good. Qed.
Lemma good_pushx left vals l : good_reply (fst (ref_pushx left vals l)).
Proof. unfold ref_pushx. destruct l; good. Qed.
Lemma good_pop1 left l : good_reply (fst (ref_pop1 left l)).
Proof. unfold ref_pop1. destruct (take_end left l) as [[x r]|]; good. Qed.
Lemma good_popn left c l : good_reply (fst (ref_popn left c l)).
Proof. unfold ref_popn. destruct l; [good|]. destruct left; cbn [fst reply_wf]; good. Qed.
Lemma good_lrem c v l : good_reply (fst (ref_lrem c v l)).
Proof. unfold ref_lrem. destruct (c >? 0); [good|]. destruct (c <? 0); good. Qed.
Lemma good_lpos o v l : good_reply (fst (ref_lpos o v l)).
Proof.
  unfold ref_lpos. cbn [fst]. destruct (o_count o); [cbn [reply_wf]; good|].
  destruct (ref_lpos_positions o v l); good.
Qed.

Lemma ref_clause_good n args k f :
  ref_clause n args = Some (CKey k f) -> forall l, good_reply (fst (f l)).
Proof.
  unfold ref_clause, int_arg.
  repeat match goal with
         | |- context [if ?c then _ else _] => destruct c
         end; intros H; try discriminate;
  repeat match type of H with
         | context [match ?x with _ => _ end] => destruct x; try discriminate
         end;
  inversion H; subst; intro;
  first [apply good_llen | apply good_lindex | apply good_lrange | apply good_ltrim | apply good_lset
        | apply good_push | apply good_pushx | apply good_pop1 | apply good_popn | apply good_lrem
        | apply good_lpos].
Qed.
