(* C09: from executors to the dispatcher and to whole programs. *)
Require Import Base.Bytes Base.GoInt Base.Reply Mem.Types Mem.Inv Mem.Strings Mem.Lists Mem.Exec.
Require Import Mem.ListsSpec Mem.ListsProofs Mem.ListsBlock.
Require Import Lia.
Local Open Scope Z_scope.

(* ------------------------------------------------------------------ replies of the reference functions *)
Definition good_reply (r : reply) : Prop := reply_wf r = true /\ r <> err_wrongtype.

Lemma wf_bulks xs : forallb reply_wf (map RBulk xs) = true.
Proof. induction xs; cbn; auto. Qed.
Lemma wf_ints xs : forallb reply_wf (map RInt xs) = true.
Proof. induction xs; cbn; auto. Qed.

Ltac good := split; [first [reflexivity | apply wf_bulks | apply wf_ints] | discriminate].

Lemma good_llen l : good_reply (fst (ref_llen l)). Proof. good. Qed.
Lemma good_lindex i l : good_reply (fst (ref_lindex i l)).
Proof. unfold ref_lindex. cbn [fst]. destruct (pick _ l); good. Qed.
Lemma good_lrange s e l : good_reply (fst (ref_lrange s e l)). Proof. unfold ref_lrange; cbn [fst reply_wf]. good. Qed.
Lemma good_ltrim s e l : good_reply (fst (ref_ltrim s e l)). Proof. good. Qed.
Lemma good_lset i v l : good_reply (fst (ref_lset i v l)).
Proof. unfold ref_lset. destruct (_ || _); good. Qed.
Lemma good_push left vals l : good_reply (fst (ref_push left vals l)). Proof. good. Qed.
Lemma good_pushx left vals l : good_reply (fst (ref_pushx left vals l)).
Proof. unfold ref_pushx. destruct l; good. Qed.
Lemma good_pop1 left l : good_reply (fst (ref_pop1 left l)).
Proof. unfold ref_pop1. destruct (take_end left l) as [[x r]|]; good. Qed.
Lemma good_popn left c l : good_reply (fst (ref_popn left c l)).
Proof. unfold ref_popn. destruct l; [good|]. destruct left; cbn [fst reply_wf]; good. Qed.
Lemma good_lrem c v l : good_reply (fst (ref_lrem c v l)).
Proof. unfold ref_lrem. destruct (c >? 0); [good|]. destruct (c <? 0); good. Qed.
Lemma good_lpos o v l : good_reply (fst (ref_lpos o v l)).
Proof.
  unfold ref_lpos. cbn [fst]. destruct (o_count o); [cbn [reply_wf]; good|].
  destruct (ref_lpos_positions o v l); good.
Qed.

Lemma ref_clause_good n args k f :
  ref_clause n args = Some (CKey k f) -> forall l, good_reply (fst (f l)).
Proof.
  unfold ref_clause, int_arg.
  repeat match goal with
         | |- context [if ?c then _ else _] => destruct c
         end; intros H; try discriminate;
  repeat match type of H with
         | context [match ?x with _ => _ end] => destruct x; try discriminate
         end;
  inversion H; subst; intro;
  first [apply good_llen | apply good_lindex | apply good_lrange | apply good_ltrim | apply good_lset
        | apply good_push | apply good_pushx | apply good_pop1 | apply good_popn | apply good_lrem
        | apply good_lpos].
Qed.

(* ------------------------------------------------------------------ the dispatcher, one step *)
Definition is_bpop_name (n : bytes) : bool := is n (B "blpop") || is n (B "brpop").

(* every non-blocking list command satisfies its clause of the reference *)
Theorem lists_step d now nowms n args hint r d' :
  db_wf d -> lists_ok d -> is_bpop_name n = false ->
  lists_dispatch d now nowms n args hint = Some (r, d') ->
  step_ok n args d r d'.
Proof.
  intros W Hok NB H. unfold lists_dispatch in H. unfold is_bpop_name in NB.
  apply orb_false_iff in NB as [NB1 NB2].
  repeat match type of H with
         | (if is n ?lit then _ else _) = _ =>
           let E := fresh "E" in
           destruct (is n lit) eqn:E;
           [apply bytes_eqb_eq in E; subst n; inversion H as [H1]; clear H|]
         end; try discriminate.
  - apply exec_llen_ok; assumption.
  - apply exec_lindex_ok; assumption.
  - apply exec_lpos_ok; assumption.
  - eapply pop_cmd_ok; [assumption..|exact H1|reflexivity].
  - eapply pop_cmd_ok; [assumption..|exact H1|reflexivity].
  - eapply push_cmd_ok; [assumption..|exact H1|reflexivity].
  - eapply push_cmd_ok; [assumption..|exact H1|reflexivity].
  - eapply push_cmd_ok; [assumption..|exact H1|reflexivity].
  - eapply push_cmd_ok; [assumption..|exact H1|reflexivity].
  - apply exec_lset_ok; assumption.
  - apply exec_lrem_ok; assumption.
  - apply exec_ltrim_ok; assumption.
  - apply exec_lrange_ok; assumption.
  - apply exec_lmove_ok; assumption.
Qed.

(* the blocking forms, as one dispatcher step of a client alone *)
Lemma exec_bpop_cases left d nowms args :
  (bpop_parse args = None /\ exec_bpop left d nowms args = (err_other, d)) \/
  (exists keys t, bpop_parse args = Some (keys, t) /\
     match bpop_try left (purge d ((nowms + 100) / 1000)) keys with
     | Some (r, d1) => exec_bpop left d nowms args = (r, d1)
     | None => exec_bpop left d nowms args = (RNil, d)
     end).
Proof.
  unfold exec_bpop. destruct (bpop_parse args) as [[keys t]|] eqn:P.
  - right. exists keys, t. split; [reflexivity|].
    rewrite (bpop_run_alone left d nowms args keys t P). unfold bpop_poll.
    destruct (bpop_try left (purge d ((nowms + 100) / 1000)) keys) as [[r d1]|]; reflexivity.
  - left. split; [reflexivity|]. unfold bpop_run. rewrite P. reflexivity.
Qed.


(* ------------------------------------------------------------------ invariants, reply well-formedness *)
Theorem lists_dispatch_inv d now nowms n args hint r d' :
  db_wf d -> lists_ok d -> lists_dispatch d now nowms n args hint = Some (r, d') ->
  db_wf d' /\ lists_ok d' /\ reply_wf r = true.
Proof.
  intros W Hok H. destruct (is_bpop_name n) eqn:NB.
  - (* blocking forms *)
    assert (HB : exists left, exec_bpop left d nowms args = (r, d')).
    { unfold lists_dispatch in H. unfold is_bpop_name in NB.
      repeat match type of H with
             | (if is n ?lit then _ else _) = _ =>
               let E := fresh "E" in
               destruct (is n lit) eqn:E;
               [try (apply bytes_eqb_eq in E; subst n; discriminate NB)|]
             end.
      - inversion H. eauto.
      - inversion H. eauto.
      - discriminate. }
    destruct HB as [left HB].
    destruct (exec_bpop_cases left d nowms args) as [[_ E]|(keys & t & _ & E)].
    + rewrite E in HB. inversion HB; subst. split; [assumption|split; [assumption|reflexivity]].
    + pose proof (bpop_try_ok left _ keys (db_wf_purge d ((nowms + 100) / 1000) W)
                              (lists_ok_purge d ((nowms + 100) / 1000) Hok)) as T.
      destruct (bpop_try left (purge d ((nowms + 100) / 1000)) keys) as [[r1 d1]|].
      * rewrite E in HB. inversion HB; subst. destruct T as [Sv U].
        split; [eapply lupd_wf; [exact U|apply db_wf_purge; exact W]|].
        split; [eapply lupd_ok; [exact U|apply lists_ok_purge; exact Hok]|].
        unfold served in Sv. destruct (first_ready left _ keys); [contradiction| |].
        -- destruct Sv as [-> _]. reflexivity.
        -- destruct Sv as (-> & _). reflexivity.
      * rewrite E in HB. inversion HB; subst. split; [assumption|split; [assumption|reflexivity]].
  - destruct (lists_step d now nowms n args hint r d' W Hok NB H) as (c & RC & A & U).
    split; [eapply lupd_wf; eassumption|]. split; [eapply lupd_ok; eassumption|].
    destruct c as [| r0 | k f | src dst fl tl | lf keys t]; cbn [accepts] in A.
    + destruct A as [-> _]. reflexivity.
    + (* count 0 *)
      destruct A as [[->| ->] _]; [reflexivity|].
      unfold ref_clause, int_arg in RC.
      repeat match type of RC with
             | context [if ?c then _ else _] => destruct c
             end; try discriminate;
      repeat match type of RC with
             | context [match ?x with _ => _ end] => destruct x; try discriminate
             end; inversion RC; reflexivity.
    + destruct (as_list (raw_view d k)).
      * destruct A as (-> & _). apply (ref_clause_good n args k f RC).
      * destruct A as [-> _]. reflexivity.
    + destruct (as_list (raw_view d src)) as [ls|]; [|destruct A as [-> _]; reflexivity].
      destruct (take_end fl ls) as [[x ls']|]; [|destruct A as [-> _]; reflexivity].
      destruct (as_list (raw_view d dst)); [|destruct A as [-> _]; reflexivity].
      destruct A as (-> & _). reflexivity.
    + contradiction.
Qed.

(* with the value invariant as a premise *)
Theorem lists_dispatch_wf_pres_ok d now nowms n args hint r d' :
  db_wf d -> lists_ok d -> lists_dispatch d now nowms n args hint = Some (r, d') -> db_wf d'.
Proof. intros W Hok H. apply (lists_dispatch_inv d now nowms n args hint r d' W Hok H). Qed.

Theorem lists_dispatch_reply_wf_ok d now nowms n args hint r d' :
  db_wf d -> lists_ok d -> lists_dispatch d now nowms n args hint = Some (r, d') -> reply_wf r = true.
Proof. intros W Hok H. apply (lists_dispatch_inv d now nowms n args hint r d' W Hok H). Qed.

(* ---- the same two facts without the value invariant (the shapes of CONVENTIONS.md, so that the
   global theorems compose over [families] with [db_wf] alone): a direct structural pass ---- *)
Inductive lupd0 : db -> db -> Prop :=
| lupd0_refl d : lupd0 d d
| lupd0_set d k v : lupd0 d (db_set d k v)
| lupd0_del d k : lupd0 d (db_del d k)
| lupd0_trans d1 d2 d3 : lupd0 d1 d2 -> lupd0 d2 d3 -> lupd0 d1 d3.

Lemma lupd0_wf d d' : lupd0 d d' -> db_wf d -> db_wf d'.
Proof. induction 1; intros W; auto using db_wf_set, db_wf_del. Qed.
Lemma lupd0_put d k l : lupd0 d (put_list d k l).
Proof. destruct l; constructor. Qed.

Definition res_ok (d : db) (x : reply * db) : Prop := lupd0 d (snd x) /\ reply_wf (fst x) = true.

Ltac res_done :=
  split; cbn [fst snd];
  [first [apply lupd0_refl | apply lupd0_set | apply lupd0_del | apply lupd0_put
         | eapply lupd0_trans; [apply lupd0_put|apply lupd0_set]]
  |first [reflexivity | apply wf_bulks | apply wf_ints | cbn [reply_wf]; first [apply wf_bulks | apply wf_ints]]].

Ltac crunch :=
  repeat match goal with
         | |- res_ok _ (match ?x with _ => _ end) => destruct x
         | |- res_ok _ (if ?c then _ else _) => destruct c
         | |- res_ok _ (let '(_, _) := ?x in _) => destruct x
         end; try res_done.

Lemma res_llen d args : res_ok d (exec_llen d args).
Proof. unfold exec_llen. crunch. Qed.
Lemma res_lindex d args : res_ok d (exec_lindex d args).
Proof. unfold exec_lindex. crunch. Qed.
Lemma res_lrange d args : res_ok d (exec_lrange d args).
Proof. unfold exec_lrange. crunch. Qed.
Lemma res_ltrim d args : res_ok d (exec_ltrim d args).
Proof. unfold exec_ltrim. crunch. Qed.
Lemma res_lset d args : res_ok d (exec_lset d args).
Proof. unfold exec_lset. crunch. Qed.
Lemma res_lrem d args : res_ok d (exec_lrem d args).
Proof. unfold exec_lrem. crunch. Qed.
Lemma res_push l c d args : res_ok d (push_cmd l c d args).
Proof. unfold push_cmd. crunch. Qed.
Lemma res_pop l d args : res_ok d (pop_cmd l d args).
Proof. unfold pop_cmd. crunch. Qed.
Lemma res_lmove d args : res_ok d (exec_lmove d args).
Proof. unfold exec_lmove. cbv zeta. crunch. Qed.
Lemma res_lpos d args : res_ok d (exec_lpos d args).
Proof. unfold exec_lpos. cbv zeta. crunch. destruct (lp_count l); res_done. Qed.

Lemma res_bpop_try left d keys :
  match bpop_try left d keys with Some x => res_ok d x | None => True end.
Proof.
  induction keys as [|k rest IH]; cbn [bpop_try]; [exact I|].
  destruct (get_list d k) as [| |l]; [exact IH|res_done|].
  destruct left; [destruct l|destruct (rev l)]; try exact IH; res_done.
Qed.

Lemma res_bpop left d nowms args : db_wf d -> db_wf (snd (exec_bpop left d nowms args)) /\
                                   reply_wf (fst (exec_bpop left d nowms args)) = true.
Proof.
  intros W. destruct (exec_bpop_cases left d nowms args) as [[_ E]|(keys & t & _ & E)].
  - rewrite E. split; [exact W|reflexivity].
  - pose proof (res_bpop_try left (purge d ((nowms + 100) / 1000)) keys) as T.
    destruct (bpop_try left (purge d ((nowms + 100) / 1000)) keys) as [[r1 d1]|]; rewrite E; cbn [fst snd].
    + destruct T as [U Rw]. split; [|exact Rw]. eapply lupd0_wf; [exact U|apply db_wf_purge; exact W].
    + split; [exact W|reflexivity].
Qed.

Lemma lists_dispatch_res d now nowms n args hint r d' :
  db_wf d -> lists_dispatch d now nowms n args hint = Some (r, d') -> db_wf d' /\ reply_wf r = true.
Proof.
  intros W H. unfold lists_dispatch in H.
  assert (G : forall x, res_ok d x -> Some x = Some (r, d') -> db_wf d' /\ reply_wf r = true).
  { intros x [U Rw] E. inversion E; subst. split; [eapply lupd0_wf; eassumption|exact Rw]. }
  assert (GB : forall left, Some (exec_bpop left d nowms args) = Some (r, d') -> db_wf d' /\ reply_wf r = true).
  { intros left E. inversion E as [E1]. pose proof (res_bpop left d nowms args W) as [A Bq].
    rewrite E1 in A, Bq. split; assumption. }
  repeat match type of H with
         | (if ?c then _ else _) = _ => destruct c
         end; try discriminate;
  first [ apply (GB _ H)
        | eapply G; [|exact H];
          first [apply res_llen | apply res_lindex | apply res_lpos | apply res_pop | apply res_push
                | apply res_lset | apply res_lrem | apply res_ltrim | apply res_lrange | apply res_lmove] ].
Qed.

(* the two shapes of CONVENTIONS.md *)
Theorem lists_dispatch_wf_pres d now nowms n args hint r d' :
  db_wf d -> lists_dispatch d now nowms n args hint = Some (r, d') -> db_wf d'.
Proof. intros W H. apply (lists_dispatch_res d now nowms n args hint r d' W H). Qed.

Theorem lists_dispatch_reply_wf d now nowms n args hint r d' :
  db_wf d -> lists_dispatch d now nowms n args hint = Some (r, d') -> reply_wf r = true.
Proof. intros W H. apply (lists_dispatch_res d now nowms n args hint r d' W H). Qed.
