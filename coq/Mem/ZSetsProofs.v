(* Proofs about the sorted-set commands (Mem/ZSets.v): the AVL invariant of every stored sorted
   set is preserved by every command, and what ZADD / ZREM / ZRANGE / ZRANK do, stated against the
   member -> score dictionary and the ordered member list of the tree. *)
Require Import Base.Bytes Base.GoInt Base.Reply Mem.Types Mem.Inv Mem.Avl Mem.AvlProofs Mem.ZSets.
From Coq Require Import Sorting.Sorted Permutation.
Local Open Scope Z_scope.

(* ================================================================== stored values *)
(* the value-level invariant of this family: a stored sorted set satisfies the AVL invariant and
   is not empty *)
Definition value_ok_zset (v : value) : Prop :=
  match v with VZSet z => zset_inv z /\ zroot z <> Leaf | _ => True end.

Definition db_zsets_ok (d : db) : Prop := forall k v, db_get d k = Some v -> value_ok_zset v.

Lemma db_zsets_ok_empty : db_zsets_ok empty_db.
Proof. intros k v H. discriminate. Qed.

Lemma db_zsets_ok_set d k v : db_zsets_ok d -> value_ok_zset v -> db_zsets_ok (db_set d k v).
Proof.
  intros O Hv k0 v0. unfold db_get, db_set. cbn [kv].
  destruct (bytes_eq_dec k0 k) as [->|N].
  - rewrite alookup_aset_same. intros H. inversion H; subst. exact Hv.
  - rewrite alookup_aset_other by exact N. apply O.
Qed.

Lemma db_zsets_ok_del d k : db_zsets_ok d -> db_zsets_ok (db_del d k).
Proof.
  intros O k0 v0. unfold db_get, db_del. cbn [kv].
  destruct (bytes_eq_dec k0 k) as [->|N].
  - rewrite alookup_aremove_same. discriminate.
  - rewrite alookup_aremove_other by exact N. apply O.
Qed.

Lemma db_zsets_ok_purge d now : db_zsets_ok d -> db_zsets_ok (purge d now).
Proof.
  intros O k v. rewrite db_get_purge. destruct (expired d now k); [discriminate|apply O].
Qed.

Lemma get_zset_found d k z : get_zset d k = ZFound z -> db_get d k = Some (VZSet z).
Proof.
  unfold get_zset. destruct (db_get d k) as [[]|]; try discriminate. intros H. inversion H. reflexivity.
Qed.

Lemma get_zset_ok d k z : db_zsets_ok d -> get_zset d k = ZFound z -> zset_inv z /\ zroot z <> Leaf.
Proof. intros O H. apply get_zset_found in H. apply (O k) in H. exact H. Qed.

(* a sorted set that satisfies the invariant is empty exactly when its dictionary is *)
Lemma zset_inv_nonempty z :
  zset_inv z -> (zroot z <> Leaf <-> exists m sc, alookup m (zdict z) = Some sc).
Proof.
  intros (A & S & N & Ln & ND & D). split.
  - intros Hr. destruct (elems (zroot z)) as [|[s ns] r] eqn:E.
    + exfalso. apply Hr. destruct (zroot z) as [|l s ns h r]; [reflexivity|].
      cbn in E. destruct (elems l); discriminate.
    + apply Forall_cons_iff in N as [[Nne _] _]. cbn in Nne.
      destruct ns as [|m ns]; [congruence|].
      exists m, s. apply D. exists (m :: ns). split; [|left; reflexivity].
      cbn. destruct (score_eqb_spec s s); [reflexivity|congruence].
  - intros (m & sc & H) Hr. apply D in H as (ns & H & _). rewrite Hr in H. discriminate.
Qed.

(* ================================================================== ZADD *)
Definition new_score_of (o : zopts) (old : option score) (sc : score) : option score :=
  match old with
  | Some s => if o_incr o then score_add s sc else Some sc
  | None => Some sc
  end.

(* one score/member pair: either nothing changes (blocked by NX/XX/GT/LT), or the member carries
   the new score afterwards (which INCR reports); no other member is touched *)
Lemma zadd_step_spec o a sc m a' :
  zadd_step o a (sc, m) = Some a' ->
  (forall m', m' <> m -> alookup m' (zdict (a_z a')) = alookup m' (zdict (a_z a))) /\
  (a' = a \/
   exists new, new_score_of o (alookup m (zdict (a_z a))) sc = Some new /\
               a_incr a' = Some new /\ alookup m (zdict (a_z a')) = Some new).
Proof.
  unfold zadd_step, new_score_of. destruct (alookup m (zdict (a_z a))) as [old|] eqn:Hm.
  - destruct (o_nx o); [intros H; inversion H; subst; split; [reflexivity|left; reflexivity]|].
    destruct (if o_incr o then score_add old sc else Some sc) as [new|]; [|discriminate].
    destruct (o_lt o && score_leb old new); [intros H; inversion H; subst; split; [reflexivity|left; reflexivity]|].
    destruct (o_gt o && score_leb new old); [intros H; inversion H; subst; split; [reflexivity|left; reflexivity]|].
    destruct (score_eqb_spec new old) as [->|Ne]; intros H; inversion H; subst a'; clear H; cbn [a_z a_incr].
    + split; [reflexivity|]. right. exists old. repeat split; try reflexivity. exact Hm.
    + destruct (bt_delete (a_z a) m) as [z1|] eqn:Ed.
      * split.
        -- intros m' Nm. rewrite bt_insert_dict. destruct (bytes_eqb_spec m' m); [contradiction|].
           rewrite (bt_delete_dict _ _ _ m' Ed). destruct (bytes_eqb_spec m' m); [contradiction|reflexivity].
        -- right. exists new. repeat split; try reflexivity. rewrite bt_insert_dict, bytes_eqb_refl. reflexivity.
      * exfalso. assert (Q : exists z', bt_delete (a_z a) m = Some z') by (apply bt_delete_some_iff; congruence).
        destruct Q as [z' Q]. congruence.
  - destruct (o_xx o); intros H; inversion H; subst a'; clear H; [split; [reflexivity|left; reflexivity]|].
    cbn [a_z a_incr]. split.
    + intros m' Nm. rewrite bt_insert_dict. destruct (bytes_eqb_spec m' m); [contradiction|reflexivity].
    + right. exists sc. repeat split; try reflexivity. rewrite bt_insert_dict, bytes_eqb_refl. reflexivity.
Qed.

Lemma zadd_step_inv o a p a' : zset_inv (a_z a) -> zadd_step o a p = Some a' -> zset_inv (a_z a').
Proof.
  destruct p as [sc m]. intros I. unfold zadd_step.
  destruct (alookup m (zdict (a_z a))) as [old|] eqn:Hm.
  - destruct (o_nx o); [intros H; inversion H; subst; exact I|].
    destruct (if o_incr o then score_add old sc else Some sc) as [new|]; [|discriminate].
    destruct (o_lt o && score_leb old new); [intros H; inversion H; subst; exact I|].
    destruct (o_gt o && score_leb new old); [intros H; inversion H; subst; exact I|].
    destruct (score_eqb new old); intros H; inversion H; subst a'; clear H; cbn [a_z]; [exact I|].
    destruct (bt_delete (a_z a) m) as [z1|] eqn:Ed.
    + apply bt_insert_inv; [eapply bt_delete_inv; eassumption|].
      rewrite (bt_delete_dict _ _ _ m Ed), bytes_eqb_refl. reflexivity.
    + exfalso. assert (Q : exists z', bt_delete (a_z a) m = Some z') by (apply bt_delete_some_iff; congruence).
      destruct Q as [z' Q]. congruence.
  - destruct (o_xx o); intros H; inversion H; subst a'; clear H; [exact I|].
    cbn [a_z]. apply bt_insert_inv; assumption.
Qed.

(* ZADD never removes a member *)
Lemma zadd_step_keeps o a p a' m' :
  zadd_step o a p = Some a' -> alookup m' (zdict (a_z a)) <> None -> alookup m' (zdict (a_z a')) <> None.
Proof.
  destruct p as [sc m]. intros H Hm'. destruct (zadd_step_spec _ _ _ _ _ H) as [Ho Hs].
  destruct (bytes_eq_dec m' m) as [->|N]; [|rewrite Ho by exact N; exact Hm'].
  destruct Hs as [->|(new & _ & _ & Hn)]; [exact Hm'|congruence].
Qed.

Lemma zadd_loop_inv o ps a a' :
  zset_inv (a_z a) -> zadd_loop o ps a = Some a' ->
  zset_inv (a_z a') /\ (forall m', alookup m' (zdict (a_z a)) <> None -> alookup m' (zdict (a_z a')) <> None).
Proof.
  revert a. induction ps as [|p r IH]; cbn [zadd_loop]; intros a I H.
  - inversion H; subst. split; [exact I|tauto].
  - destruct (zadd_step o a p) as [a1|] eqn:E; [|discriminate].
    destruct (IH a1 (zadd_step_inv _ _ _ _ I E) H) as [I' K]. split; [exact I'|].
    intros m' Hm'. apply K. eapply zadd_step_keeps; eassumption.
Qed.

Lemma zadd_loop_nonempty o ps z a' :
  zset_inv z -> zroot z <> Leaf -> zadd_loop o ps (mkAcc z 0 None) = Some a' -> zroot (a_z a') <> Leaf.
Proof.
  intros I Hr H. destruct (zadd_loop_inv o ps (mkAcc z 0 None) a' I H) as [I' K]. cbn [a_z] in K.
  apply (zset_inv_nonempty _ I) in Hr as (m & sc & Hm).
  apply (zset_inv_nonempty _ I'). specialize (K m ltac:(congruence)).
  destruct (alookup m (zdict (a_z a'))) as [s|] eqn:E; [exists m, s; exact E|congruence].
Qed.

(* what exec_zadd does to the keyspace *)
Inductive zadd_outcome (d : db) (k : bytes) : db -> Prop :=
| ZaSame : zadd_outcome d k d
| ZaSet z : zset_inv z -> zroot z <> Leaf -> zadd_outcome d k (db_set d k (VZSet z)).

Lemma exec_zadd_outcome d args r d' :
  db_zsets_ok d -> exec_zadd d args = (r, d') ->
  match args with _ :: k :: _ => zadd_outcome d k d' | _ => d' = d end.
Proof.
  intros O. unfold exec_zadd. destruct args as [|a0 [|k rest]]; try (intros H; inversion H; reflexivity).
  destruct (zlength (a0 :: k :: rest) <? 4); [intros H; inversion H; constructor|].
  destruct (zadd_opts rest zopts0) as [o ps].
  destruct (zadd_conflict o); [intros H; inversion H; constructor|].
  destruct (o_incr o && negb (zlength ps =? 2)); [intros H; inversion H; constructor|].
  destruct (zadd_pairs ps) as [pairs|]; [|intros H; inversion H; constructor].
  destruct (get_zset d k) as [| |z] eqn:G.
  - destruct (zadd_loop o pairs (mkAcc empty_zset 0 None)) as [a|] eqn:L; [|intros H; inversion H; constructor].
    destruct (zadd_loop_inv o pairs (mkAcc empty_zset 0 None) a zset_inv_empty L) as [I _].
    intros H; inversion H; subst. destruct (zroot (a_z a)) eqn:R; [constructor|].
    apply ZaSet; [exact I|congruence].
  - intros H; inversion H; constructor.
  - destruct (get_zset_ok _ _ _ O G) as [I Hr].
    destruct (zadd_loop o pairs (mkAcc z 0 None)) as [a|] eqn:L; [|intros H; inversion H; constructor].
    intros H; inversion H; subst. apply ZaSet.
    + apply (zadd_loop_inv o pairs (mkAcc z 0 None) a I L).
    + eapply zadd_loop_nonempty; eassumption.
Qed.

Lemma exec_zadd_ok d args r d' : db_zsets_ok d -> exec_zadd d args = (r, d') -> db_zsets_ok d'.
Proof.
  intros O H. pose proof (exec_zadd_outcome _ _ _ _ O H) as Q.
  destruct args as [|a0 [|k rest]]; try (subst; exact O).
  destruct Q; [exact O|]. apply db_zsets_ok_set; [exact O|split; assumption].
Qed.

(* ================================================================== ZREM *)
Lemma zrem_loop_spec z ms n z' n' :
  zset_inv z -> zrem_loop z ms n = (z', n') ->
  zset_inv z' /\
  (forall m', alookup m' (zdict z') = if existsb (bytes_eqb m') ms then None else alookup m' (zdict z)).
Proof.
  revert z n. induction ms as [|m r IH]; cbn [zrem_loop existsb]; intros z n I H.
  - inversion H; subst. split; [exact I|reflexivity].
  - destruct (bt_delete z m) as [z1|] eqn:Ed.
    + destruct (IH z1 (n + 1) (bt_delete_inv _ _ _ I Ed) H) as [I' D']. split; [exact I'|].
      intros m'. rewrite D'. rewrite (bt_delete_dict _ _ _ m' Ed).
      destruct (bytes_eqb m' m); cbn; [destruct (existsb (bytes_eqb m') r); reflexivity|reflexivity].
    + destruct (IH z n I H) as [I' D']. split; [exact I'|].
      intros m'. rewrite D'. destruct (bytes_eqb_spec m' m) as [->|N]; cbn; [|reflexivity].
      assert (Q : alookup m (zdict z) = None).
      { destruct (alookup m (zdict z)) eqn:E; [|reflexivity].
        assert (Q : exists z', bt_delete z m = Some z') by (apply bt_delete_some_iff; congruence).
        destruct Q as [z2 Q]. congruence. }
      rewrite Q. destruct (existsb (bytes_eqb m) r); reflexivity.
Qed.

Lemma put_zset_ok d k z : db_zsets_ok d -> zset_inv z -> db_zsets_ok (put_zset d k z).
Proof.
  intros O I. unfold put_zset. destruct (zroot z) eqn:R.
  - apply db_zsets_ok_del; exact O.
  - apply db_zsets_ok_set; [exact O|]. split; [exact I|congruence].
Qed.

Lemma exec_zrem_ok d args r d' : db_zsets_ok d -> exec_zrem d args = (r, d') -> db_zsets_ok d'.
Proof.
  intros O. unfold exec_zrem.
  destruct args as [|a0 [|k [|m ms]]]; try (intros H; inversion H; subst; exact O).
  destruct (get_zset d k) as [| |z] eqn:G; try (intros H; inversion H; subst; exact O).
  destruct (zrem_loop z (m :: ms) 0) as [z' n] eqn:L. intros H; inversion H; subst.
  apply put_zset_ok; [exact O|]. eapply zrem_loop_spec in L; [apply L|]. apply (get_zset_ok _ _ _ O G).
Qed.

(* the score of member m under key k, as a client can observe it *)
Definition zscore (d : db) (k m : bytes) : option score :=
  match db_get d k with Some (VZSet z) => alookup m (zdict z) | _ => None end.

Lemma zscore_found d k z m : get_zset d k = ZFound z -> zscore d k m = alookup m (zdict z).
Proof. intros G. apply get_zset_found in G. unfold zscore. rewrite G. reflexivity. Qed.

Lemma zscore_put d k z m : zset_inv z -> zscore (put_zset d k z) k m = alookup m (zdict z).
Proof.
  intros I. unfold put_zset, zscore. destruct (zroot z) eqn:R.
  - unfold db_get, db_del. cbn [kv]. rewrite alookup_aremove_same.
    destruct (alookup m (zdict z)) as [sc|] eqn:E; [|reflexivity].
    exfalso. assert (Q : zroot z <> Leaf) by (apply (zset_inv_nonempty _ I); eauto). congruence.
  - unfold db_get, db_set. cbn [kv]. rewrite alookup_aset_same. reflexivity.
Qed.

Lemma db_get_put_other d k z k' : k' <> k -> db_get (put_zset d k z) k' = db_get d k'.
Proof.
  intros N. unfold put_zset. destruct (zroot z); unfold db_get, db_del, db_set; cbn [kv].
  - apply alookup_aremove_other; exact N.
  - apply alookup_aset_other; exact N.
Qed.

(* ZREM: the named members are gone, every other member of the key keeps its score, every other
   key keeps its value *)
Lemma exec_zrem_local d name k m ms z r d' :
  db_zsets_ok d -> get_zset d k = ZFound z -> exec_zrem d (name :: k :: m :: ms) = (r, d') ->
  (forall m', In m' (m :: ms) -> zscore d' k m' = None) /\
  (forall m', ~ In m' (m :: ms) -> zscore d' k m' = zscore d k m') /\
  (forall k', k' <> k -> db_get d' k' = db_get d k').
Proof.
  intros O G. unfold exec_zrem. rewrite G.
  destruct (zrem_loop z (m :: ms) 0) as [z' n] eqn:L. intros H; inversion H; subst r d'; clear H.
  destruct (get_zset_ok _ _ _ O G) as [I _].
  destruct (zrem_loop_spec _ _ _ _ _ I L) as [I' D'].
  assert (Ex : forall m', existsb (bytes_eqb m') (m :: ms) = true <-> In m' (m :: ms)).
  { intros m'. rewrite existsb_exists. split.
    - intros (x & Hx & E). apply bytes_eqb_eq in E. subst; exact Hx.
    - intros Hx. exists m'. split; [exact Hx|apply bytes_eqb_refl]. }
  repeat split.
  - intros m' Hin. rewrite zscore_put by exact I'. rewrite D'. apply Ex in Hin. rewrite Hin. reflexivity.
  - intros m' Hin. rewrite zscore_put by exact I'. rewrite D', (zscore_found _ _ _ _ G).
    destruct (existsb (bytes_eqb m') (m :: ms)) eqn:E; [apply Ex in E; contradiction|reflexivity].
  - intros k' N. apply db_get_put_other; exact N.
Qed.

(* ================================================================== ZRANGE *)
Lemma exec_zrange_same d args r d' : exec_zrange d args = (r, d') -> d' = d.
Proof.
  unfold exec_zrange. destruct args as [|a0 [|k [|a [|b optl]]]]; try (intros H; inversion H; reflexivity).
  destruct (zrange_opts optl ropts0) as [o| |]; try (intros H; inversion H; reflexivity).
  destruct (r_limit o && negb (r_bylex o)); [intros H; inversion H; reflexivity|].
  destruct (r_bylex o && r_ws o); [intros H; inversion H; reflexivity|].
  destruct (r_bylex o && r_rev o); [intros H; inversion H; reflexivity|].
  destruct (if r_bylex o then Some (0, 0) else _) as [[s e]|]; [|intros H; inversion H; reflexivity].
  destruct (get_zset d k); intros H; inversion H; reflexivity.
Qed.

(* ZRANGE by index: the reply is the requested window of the ordered member list (of its reverse
   with REV), members followed by their scores with WITHSCORES *)
Lemma exec_zrange_index d name k a b optl o z s e :
  get_zset d k = ZFound z -> zset_inv z ->
  atoi64 a = Some s -> atoi64 b = Some e ->
  zrange_opts optl ropts0 = ROk o -> r_bylex o = false -> r_limit o = false ->
  exec_zrange d (name :: k :: a :: b :: optl) =
  (zrange_reply (r_ws o)
     (zwindow (if r_rev o then rev (members (zroot z)) else members (zroot z))
              (zlength (members (zroot z))) s e), d).
Proof.
  intros G I Ha Hb Ho Hlex Hlim. unfold exec_zrange. rewrite Ho, Hlex, Hlim. cbn [andb negb].
  rewrite Ha, Hb, G. rewrite (zset_inv_dict_length z I). reflexivity.
Qed.

(* the window, element by element *)
Definition win_lo (n start : Z) : Z := Z.max 0 (if start <? 0 then start + n else start).
Definition win_hi (n stop : Z) : Z := Z.min (n - 1) (if stop <? 0 then stop + n else stop).

Lemma nth_error_firstn {A} (l : list A) n j :
  nth_error (firstn n l) j = if (j <? n)%nat then nth_error l j else None.
Proof.
  revert n j. induction l as [|x l IH]; intros n j.
  - rewrite firstn_nil. destruct j; cbn [nth_error]; destruct n; reflexivity || (destruct (Nat.ltb _ _); reflexivity).
  - destruct n as [|n]; cbn [firstn].
    + destruct j; reflexivity.
    + destruct j as [|j]; cbn [nth_error]; [reflexivity|]. rewrite IH. reflexivity.
Qed.

Lemma nth_error_skipn {A} (l : list A) s j : nth_error (skipn s l) j = nth_error l (s + j).
Proof.
  revert l. induction s as [|s IH]; intros [|x l]; cbn; try reflexivity.
  - destruct j; reflexivity.
  - apply IH.
Qed.

Lemma zwindow_nth {A} (l : list A) start stop (j : nat) :
  nth_error (zwindow l (zlength l) start stop) j =
  if win_lo (zlength l) start + Z.of_nat j <=? win_hi (zlength l) stop
  then nth_error l (Z.to_nat (win_lo (zlength l) start) + j)
  else None.
Proof.
  unfold zwindow, win_lo, win_hi. set (n := zlength l).
  set (s0 := if start <? 0 then start + n else start).
  set (e0 := if stop <? 0 then stop + n else stop).
  assert (Es : (if s0 <? 0 then 0 else s0) = Z.max 0 s0) by (destruct (Z.ltb_spec s0 0); lia).
  assert (Ee : (if e0 >=? n then n - 1 else e0) = Z.min (n - 1) e0) by (destruct (Z.geb_spec e0 n); lia).
  rewrite Es, Ee.
  destruct (Z.leb_spec (Z.max 0 s0) (Z.min (n - 1) e0)) as [Le|Gt].
  - rewrite nth_error_firstn, nth_error_skipn.
    destruct (Nat.ltb_spec j (Z.to_nat (Z.min (n - 1) e0 - Z.max 0 s0 + 1))) as [Lj|Gj];
      destruct (Z.leb_spec (Z.max 0 s0 + Z.of_nat j) (Z.min (n - 1) e0)); try reflexivity; lia.
  - destruct (Z.leb_spec (Z.max 0 s0 + Z.of_nat j) (Z.min (n - 1) e0)); [lia|].
    destruct j; reflexivity.
Qed.

(* ================================================================== ZRANK *)
Lemma exec_zrank_position d name k m z :
  get_zset d k = ZFound z -> zset_inv z ->
  match alookup m (zdict z) with
  | None => exec_zrank d [name; k; m] = (RNil, d)
  | Some sc =>
    exists pre post i,
      exec_zrank d [name; k; m] = (RInt i, d) /\
      members (zroot z) = pre ++ (m, sc) :: post /\ i = zlength pre
  end.
Proof.
  intros G I. unfold exec_zrank, zrank_of. rewrite G.
  destruct (alookup m (zdict z)) as [sc|] eqn:Hm; [|reflexivity].
  pose proof I as (A & S & N & Ln & ND & D).
  apply D in Hm as (ns & Hf & Hin).
  rewrite (find_node_elems sc (zroot z) S), Hf, (rank_elems (zroot z) sc S).
  destruct (rank_position (elems (zroot z)) sc ns m S (lfind_In _ _ _ Hf) Hin) as (pre & post & E1 & E2).
  exists pre, post, (zlength pre). repeat split; [|exact E1]. rewrite E2. reflexivity.
Qed.

(* ================================================================== WRONGTYPE *)
(* a key that holds another type: no sorted-set command changes anything *)
Lemma zset_wrongtype_unchanged d n args hint r d' k rest a0 now nowms :
  args = a0 :: k :: rest -> get_zset d k = ZWrong ->
  zsets_dispatch d now nowms n args hint = Some (r, d') -> d' = d.
Proof.
  intros -> G. unfold zsets_dispatch.
  destruct (is n (B "zadd")).
  { unfold exec_zadd. destruct (zlength (a0 :: k :: rest) <? 4); [intros H; inversion H; tauto|].
    destruct (zadd_opts rest zopts0) as [o ps].
    destruct (zadd_conflict o); [intros H; inversion H; tauto|].
    destruct (o_incr o && negb (zlength ps =? 2)); [intros H; inversion H; tauto|].
    destruct (zadd_pairs ps); [|intros H; inversion H; tauto].
    rewrite G. intros H; inversion H; tauto. }
  destruct (is n (B "zrem")).
  { unfold exec_zrem. destruct rest; [intros H; inversion H; tauto|]. rewrite G. intros H; inversion H; tauto. }
  destruct (is n (B "zrange")).
  { intros H. assert (H' : exec_zrange d (a0 :: k :: rest) = (r, d')) by congruence.
    apply exec_zrange_same in H'. exact H'. }
  destruct (is n (B "zrank")); [|discriminate].
  unfold exec_zrank. destruct rest as [|m [|x y]]; try (intros H; inversion H; tauto).
  rewrite G. intros H; inversion H; tauto.
Qed.

(* ... and the well-formed commands answer WRONGTYPE *)
Lemma zset_wrongtype_reply d name k :
  get_zset d k = ZWrong ->
  (forall m ms, exec_zrem d (name :: k :: m :: ms) = (err_wrongtype, d)) /\
  (forall m, exec_zrank d [name; k; m] = (err_wrongtype, d)) /\
  (forall a b optl o s e, atoi64 a = Some s -> atoi64 b = Some e ->
     zrange_opts optl ropts0 = ROk o -> r_bylex o = false -> r_limit o = false ->
     exec_zrange d (name :: k :: a :: b :: optl) = (err_wrongtype, d)) /\
  (forall s m sc, parse_score s = Some sc -> exec_zadd d [name; k; s; m] = (err_wrongtype, d)).
Proof.
  intros G. repeat split.
  - intros m ms. unfold exec_zrem. rewrite G. reflexivity.
  - intros m. unfold exec_zrank. rewrite G. reflexivity.
  - intros a b optl o s e Ha Hb Ho Hlex Hlim. unfold exec_zrange.
    rewrite Ho, Hlex, Hlim. cbn [andb negb]. rewrite Ha, Hb, G. reflexivity.
  - intros s m sc Hs. unfold exec_zadd. cbn. rewrite Hs, G. reflexivity.
Qed.

(* ================================================================== dispatch: global invariants *)
Lemma zsets_dispatch_ok d now nowms n args hint r d' :
  db_zsets_ok d -> zsets_dispatch d now nowms n args hint = Some (r, d') -> db_zsets_ok d'.
Proof.
  intros O. unfold zsets_dispatch.
  destruct (is n (B "zadd")); [intros H; assert (H' : exec_zadd d args = (r, d')) by congruence; eapply exec_zadd_ok; eassumption|].
  destruct (is n (B "zrem")); [intros H; assert (H' : exec_zrem d args = (r, d')) by congruence; eapply exec_zrem_ok; eassumption|].
  destruct (is n (B "zrange")); [intros H; assert (H' : exec_zrange d args = (r, d')) by congruence; apply exec_zrange_same in H'; subst; exact O|].
  destruct (is n (B "zrank")); [|discriminate].
  unfold exec_zrank. intros H. inversion H as [H']. clear H.
  destruct args as [|a0 [|k [|m [|x y]]]]; try (inversion H'; subst; exact O).
  destruct (get_zset d k); [| |destruct (zrank_of z m)]; inversion H'; subst; exact O.
Qed.

Lemma zsets_dispatch_wf_pres d now nowms n args hint r d' :
  db_wf d -> zsets_dispatch d now nowms n args hint = Some (r, d') -> db_wf d'.
Proof.
  intros W. unfold zsets_dispatch.
  destruct (is n (B "zadd")).
  { unfold exec_zadd. intros H. inversion H as [H']. clear H. revert H'.
    destruct args as [|a0 [|k rest]]; try (intros H; inversion H; subst; exact W).
    destruct (zlength (a0 :: k :: rest) <? 4); [intros H; inversion H; subst; exact W|].
    destruct (zadd_opts rest zopts0) as [o ps].
    destruct (zadd_conflict o); [intros H; inversion H; subst; exact W|].
    destruct (o_incr o && negb (zlength ps =? 2)); [intros H; inversion H; subst; exact W|].
    destruct (zadd_pairs ps) as [pairs|]; [|intros H; inversion H; subst; exact W].
    destruct (get_zset d k) as [| |z].
    - destruct (zadd_loop o pairs (mkAcc empty_zset 0 None)) as [a|]; [|intros H; inversion H; subst; exact W].
      intros H; inversion H; subst. destruct (zroot (a_z a)); [exact W|apply db_wf_set; exact W].
    - intros H; inversion H; subst; exact W.
    - destruct (zadd_loop o pairs (mkAcc z 0 None)) as [a|]; intros H; inversion H; subst;
        [apply db_wf_set|]; exact W. }
  destruct (is n (B "zrem")).
  { unfold exec_zrem. intros H. inversion H as [H']. clear H. revert H'.
    destruct args as [|a0 [|k [|m ms]]]; try (intros H; inversion H; subst; exact W).
    destruct (get_zset d k) as [| |z]; try (intros H; inversion H; subst; exact W).
    destruct (zrem_loop z (m :: ms) 0) as [z' c]. intros H; inversion H; subst.
    unfold put_zset. destruct (zroot z'); [apply db_wf_del|apply db_wf_set]; exact W. }
  destruct (is n (B "zrange")); [intros H; assert (H' : exec_zrange d args = (r, d')) by congruence; apply exec_zrange_same in H'; subst; exact W|].
  destruct (is n (B "zrank")); [|discriminate].
  unfold exec_zrank. intros H. inversion H as [H']. clear H.
  destruct args as [|a0 [|k [|m [|x y]]]]; try (inversion H'; subst; exact W).
  destruct (get_zset d k); [| |destruct (zrank_of z m)]; inversion H'; subst; exact W.
Qed.

Lemma reply_wf_err_other : reply_wf err_other = true.
Proof. reflexivity. Qed.
Lemma reply_wf_err_wrongtype : reply_wf err_wrongtype = true.
Proof. reflexivity. Qed.

Lemma zrange_reply_wf ws l : reply_wf (zrange_reply ws l) = true.
Proof.
  unfold zrange_reply. cbn [reply_wf]. induction l as [|p l IH]; [reflexivity|].
  cbn [flat_map]. rewrite forallb_app, IH. destruct ws; reflexivity.
Qed.

Lemma zsets_dispatch_reply_wf d now nowms n args hint r d' :
  zsets_dispatch d now nowms n args hint = Some (r, d') -> reply_wf r = true.
Proof.
  unfold zsets_dispatch.
  destruct (is n (B "zadd")).
  { unfold exec_zadd. intros H. inversion H as [H']. clear H. revert H'.
    destruct args as [|a0 [|k rest]]; try (intros H; inversion H; reflexivity).
    destruct (zlength (a0 :: k :: rest) <? 4); [intros H; inversion H; reflexivity|].
    destruct (zadd_opts rest zopts0) as [o ps].
    destruct (zadd_conflict o); [intros H; inversion H; reflexivity|].
    destruct (o_incr o && negb (zlength ps =? 2)); [intros H; inversion H; reflexivity|].
    destruct (zadd_pairs ps) as [pairs|]; [|intros H; inversion H; reflexivity].
    assert (Q : forall a, reply_wf (zadd_reply o a) = true).
    { intros a. unfold zadd_reply. destruct (o_incr o); [destruct (a_incr a)|]; reflexivity. }
    destruct (get_zset d k) as [| |z].
    - destruct (zadd_loop o pairs (mkAcc empty_zset 0 None)) as [a|]; intros H; inversion H; [apply Q|reflexivity].
    - intros H; inversion H; reflexivity.
    - destruct (zadd_loop o pairs (mkAcc z 0 None)) as [a|]; intros H; inversion H; [apply Q|reflexivity]. }
  destruct (is n (B "zrem")).
  { unfold exec_zrem. intros H. inversion H as [H']. clear H. revert H'.
    destruct args as [|a0 [|k [|m ms]]]; try (intros H; inversion H; reflexivity).
    destruct (get_zset d k) as [| |z]; try (intros H; inversion H; reflexivity).
    destruct (zrem_loop z (m :: ms) 0) as [z' c]. intros H; inversion H; reflexivity. }
  destruct (is n (B "zrange")).
  { unfold exec_zrange. intros H. inversion H as [H']. clear H. revert H'.
    destruct args as [|a0 [|k [|a [|b optl]]]]; try (intros H; inversion H; reflexivity).
    destruct (zrange_opts optl ropts0) as [o| |]; try (intros H; inversion H; reflexivity).
    destruct (r_limit o && negb (r_bylex o)); [intros H; inversion H; reflexivity|].
    destruct (r_bylex o && r_ws o); [intros H; inversion H; reflexivity|].
    destruct (r_bylex o && r_rev o); [intros H; inversion H; reflexivity|].
    destruct (if r_bylex o then Some (0, 0) else _) as [[s e]|]; [|intros H; inversion H; reflexivity].
    destruct (get_zset d k); intros H; inversion H; try reflexivity. apply zrange_reply_wf. }
  destruct (is n (B "zrank")); [|discriminate].
  unfold exec_zrank. intros H. inversion H as [H']. clear H.
  destruct args as [|a0 [|k [|m [|x y]]]]; try (inversion H'; reflexivity).
  destruct (get_zset d k); [| |destruct (zrank_of z m)]; inversion H'; reflexivity.
Qed.

(* ================================================================== all programs *)
(* a program of sorted-set commands, each with its clock: expired keys vanish before every
   command (CheckTTL), then the command runs *)
Definition zstep (d : db) (c : Z * list bytes) : db :=
  let '(now, args) := c in
  let d0 := purge d now in
  match args with
  | [] => d0
  | name :: _ =>
    match zsets_dispatch d0 now (now * 1000) (lower name) args RNil with
    | Some (_, d') => d'
    | None => d0
    end
  end.

Definition zrun (prog : list (Z * list bytes)) : db := fold_left zstep prog empty_db.

Lemma zstep_ok d c : db_zsets_ok d -> db_zsets_ok (zstep d c).
Proof.
  intros O. destruct c as [now args]. unfold zstep.
  pose proof (db_zsets_ok_purge d now O) as O0.
  destruct args as [|name rest]; [exact O0|].
  destruct (zsets_dispatch (purge d now) now (now * 1000) (lower name) (name :: rest) RNil) as [[r d']|] eqn:E;
    [|exact O0].
  eapply zsets_dispatch_ok; eassumption.
Qed.

Lemma fold_zstep_ok prog d : db_zsets_ok d -> db_zsets_ok (fold_left zstep prog d).
Proof.
  revert d. induction prog as [|c r IH]; intros d O; [exact O|]. cbn. apply IH. apply zstep_ok; exact O.
Qed.

Lemma zrun_ok prog : db_zsets_ok (zrun prog).
Proof. apply fold_zstep_ok. apply db_zsets_ok_empty. Qed.

(* composition with the other families: a family that keeps every stored sorted set valid *)
Definition family_keeps_zsets (f : db -> Z -> Z -> bytes -> list bytes -> reply -> option (reply * db)) : Prop :=
  forall d now nowms n args hint r d',
    db_zsets_ok d -> f d now nowms n args hint = Some (r, d') -> db_zsets_ok d'.

Lemma zsets_dispatch_keeps_zsets : family_keeps_zsets zsets_dispatch.
Proof. intros d now nowms n args hint r d' O H. eapply zsets_dispatch_ok; eassumption. Qed.

(* ================================================================== the invariant, in the property's words *)
Lemma sorted_scores es : sorted es -> StronglySorted slt (map fst es).
Proof.
  induction es as [|x r IH]; intros S; [constructor|].
  apply sorted_cons_inv in S as [S G]. cbn. constructor; [apply IH; exact S|].
  unfold all_gt in G. rewrite Forall_forall in *. intros s Hs.
  apply in_map_iff in Hs as (e & <- & He). apply G; exact He.
Qed.

Lemma zset_inv_meaning z :
  zset_inv z ->
  (* binary search tree, strictly ordered by score *)
  StronglySorted slt (map fst (elems (zroot z))) /\
  (* every stored height is the real height; every node is balanced *)
  stored_ok (zroot z) /\ balanced (zroot z) /\
  (* len is the number of nodes, the dictionary has one entry per member *)
  zlen z = zlength (elems (zroot z)) /\
  zlength (zdict z) = zlength (members (zroot z)) /\
  (* no empty node, no name twice in a node, no name in two nodes *)
  Forall (fun e => snd e <> [] /\ NoDup (snd e)) (elems (zroot z)) /\
  NoDup (map fst (members (zroot z))) /\
  (* dict m = sc exactly when m is one of the names of the node of score sc *)
  NoDup (akeys (zdict z)) /\
  (forall m sc, alookup m (zdict z) = Some sc <-> exists ns, In (sc, ns) (elems (zroot z)) /\ In m ns).
Proof.
  intros I. pose proof I as (A & S & N & Ln & ND & D).
  apply avl_stored_balanced in A as [St Ba].
  repeat split; try assumption.
  - apply sorted_scores; exact S.
  - apply zset_inv_dict_length; exact I.
  - eapply Forall_impl; [|exact N]. cbn. intros e [H1 H2]. split; [exact H1|apply names_sorted_NoDup; exact H2].
  - apply zset_inv_members_NoDup; exact I.
  - intros H. apply D in H as (ns & H1 & H2). exists ns. split; [apply lfind_In; exact H1|exact H2].
  - intros (ns & H1 & H2). apply D. exists ns. split; [apply In_lfind; assumption|exact H2].
Qed.

(* every member is listed once, with the score the dictionary gives it *)
Lemma zset_one_score_per_member z :
  zset_inv z ->
  NoDup (map fst (members (zroot z))) /\
  (forall m s1 s2, In (m, s1) (members (zroot z)) -> In (m, s2) (members (zroot z)) -> s1 = s2) /\
  (forall m sc, In (m, sc) (members (zroot z)) <-> alookup m (zdict z) = Some sc).
Proof.
  intros I. repeat split.
  - apply zset_inv_members_NoDup; exact I.
  - intros m s1 s2 H1 H2. apply (zset_inv_dict_members z m) in H1, H2; try exact I. congruence.
  - apply (zset_inv_dict_members z m sc I).
  - apply (zset_inv_dict_members z m sc I).
Qed.

(* ZADD key score member, no options: afterwards the member carries that score, whatever it
   carried before; no other member, no other key is touched *)
Lemma exec_zadd_plain d name k s m sc :
  db_zsets_ok d -> get_zset d k <> ZWrong -> parse_score s = Some sc ->
  exists r d', exec_zadd d [name; k; s; m] = (r, d') /\
    zscore d' k m = Some sc /\
    (forall m', m' <> m -> zscore d' k m' = zscore d k m') /\
    (forall k', k' <> k -> db_get d' k' = db_get d k').
Proof.
  intros O Nw Hs. unfold exec_zadd. cbn [zlength List.length Z.of_nat Z.ltb Z.compare Pos.of_succ_nat Pos.succ Pos.compare Pos.compare_cont].
  cbn [zadd_opts zadd_conflict zopts0 o_nx o_xx o_gt o_lt o_incr andb orb zadd_pairs]. rewrite Hs.
  destruct (get_zset d k) as [| |z] eqn:G; [|congruence|].
  - (* new key *)
    cbn [zadd_loop zadd_step a_z empty_zset zdict alookup o_xx zopts0].
    eexists _, _. split; [reflexivity|].
    unfold get_zset in G. destruct (db_get d k) as [[]|] eqn:Gk; try discriminate.
    cbn [a_z bt_insert zroot insert empty_zset]. repeat split.
    + unfold zscore, db_get, db_set. cbn [kv]. rewrite alookup_aset_same. cbn. rewrite bytes_eqb_refl. reflexivity.
    + intros m' Nm. unfold zscore. rewrite Gk. unfold db_get, db_set. cbn [kv]. rewrite alookup_aset_same. cbn.
      destruct (bytes_eqb_spec m' m); [contradiction|reflexivity].
    + intros k' Nk. unfold db_get, db_set. cbn [kv]. apply alookup_aset_other; exact Nk.
  - destruct (get_zset_ok _ _ _ O G) as [I Hr].
    cbn [zadd_loop].
    assert (Q : exists a', zadd_step zopts0 (mkAcc z 0 None) (sc, m) = Some a' /\
                           alookup m (zdict (a_z a')) = Some sc /\
                           forall m', m' <> m -> alookup m' (zdict (a_z a')) = alookup m' (zdict z)).
    { destruct (zadd_step zopts0 (mkAcc z 0 None) (sc, m)) as [a'|] eqn:E.
      - exists a'. split; [reflexivity|]. destruct (zadd_step_spec _ _ _ _ _ E) as [Ho Hn]. split; [|exact Ho].
        revert E. unfold zadd_step. cbn [a_z o_nx o_xx o_gt o_lt o_incr o_ch zopts0 andb].
        destruct (alookup m (zdict z)) as [old|] eqn:Hm.
        + destruct (score_eqb_spec sc old) as [->|Ne]; intros E; inversion E; subst a'; cbn [a_z]; [exact Hm|].
          rewrite bt_insert_dict, bytes_eqb_refl. reflexivity.
        + intros E; inversion E; subst a'; cbn [a_z]. rewrite bt_insert_dict, bytes_eqb_refl. reflexivity.
      - exfalso. revert E. unfold zadd_step. cbn [a_z o_nx o_xx o_gt o_lt o_incr o_ch zopts0 andb].
        destruct (alookup m (zdict z)); [destruct (score_eqb sc s0)|]; discriminate. }
    destruct Q as (a' & E & Hm & Ho). rewrite E.
    eexists _, _. split; [reflexivity|]. repeat split.
    + unfold zscore, db_get, db_set. cbn [kv]. rewrite alookup_aset_same. exact Hm.
    + intros m' Nm. rewrite (zscore_found _ _ _ _ G). unfold zscore, db_get, db_set. cbn [kv].
      rewrite alookup_aset_same. apply Ho; exact Nm.
    + intros k' Nk. unfold db_get, db_set. cbn [kv]. apply alookup_aset_other; exact Nk.
Qed.

(* ================================================================== statements used by Properties/C12.v *)
Lemma zrun_inv prog k z : db_get (zrun prog) k = Some (VZSet z) -> zset_inv z /\ zroot z <> Leaf.
Proof. intros H. exact (zrun_ok prog k (VZSet z) H). Qed.

Lemma zrun_prefix_inv prog n k z :
  db_get (zrun (firstn n prog)) k = Some (VZSet z) -> zset_inv z /\ zroot z <> Leaf.
Proof. apply zrun_inv. Qed.

Lemma zrun_balanced prog k z :
  db_get (zrun prog) k = Some (VZSet z) -> balanced (zroot z) /\ stored_ok (zroot z).
Proof.
  intros H. destruct (zrun_inv prog k z H) as [I _].
  destruct I as (A & _). apply avl_stored_balanced in A. tauto.
Qed.

Lemma exec_zrange_sorted_exact d name k a b optl o z s e :
  get_zset d k = ZFound z -> zset_inv z ->
  atoi64 a = Some s -> atoi64 b = Some e ->
  zrange_opts optl ropts0 = ROk o -> r_bylex o = false -> r_limit o = false ->
  let L := members (zroot z) in
  exec_zrange d (name :: k :: a :: b :: optl) =
    (zrange_reply (r_ws o) (zwindow (if r_rev o then rev L else L) (zlength L) s e), d) /\
  StronglySorted elt_lt L /\
  NoDup (map fst L) /\
  (forall m sc, In (m, sc) L <-> alookup m (zdict z) = Some sc).
Proof.
  intros G I Ha Hb Ho Hlex Hlim L. repeat split.
  - exact (exec_zrange_index d name k a b optl o z s e G I Ha Hb Ho Hlex Hlim).
  - exact (zset_inv_members_sorted z I).
  - exact (zset_inv_members_NoDup z I).
  - apply (zset_inv_dict_members z m sc I).
  - apply (zset_inv_dict_members z m sc I).
Qed.

Lemma score_order_total a b c :
  score_cmp a a = Eq /\ (score_cmp a b = Eq -> a = b) /\
  score_cmp b a = CompOpp (score_cmp a b) /\
  (score_cmp a b = Lt -> score_cmp b c = Lt -> score_cmp a c = Lt).
Proof.
  repeat split.
  - apply score_cmp_refl.
  - apply score_cmp_eq.
  - apply score_cmp_antisym.
  - apply score_cmp_lt_trans.
Qed.

(* ================================================================== normal forms of scores *)
(* [score_cmp] refines the numeric order by the exponent; on the normal forms the model builds
   (parse_score and score_add end in snorm) the refinement is never consulted: it IS the numeric
   order there. *)
Definition snormal (s : score) : Prop :=
  match s with
  | SFin m e => (m = 0 -> e = 0%N) /\ (e <> 0%N -> m mod 10 <> 0)
  | _ => True
  end.

Definition svalue_cmp (a b : score) : comparison :=
  match a, b with
  | SNegInf, SNegInf => Eq
  | SNegInf, _ => Lt
  | _, SNegInf => Gt
  | SPosInf, SPosInf => Eq
  | SPosInf, _ => Gt
  | _, SPosInf => Lt
  | SFin m1 e1, SFin m2 e2 => Z.compare (m1 * pow10 e2) (m2 * pow10 e1)
  end.

Lemma pow10_succ e : (e <> 0)%N -> pow10 e = 10 * pow10 (e - 1).
Proof.
  intros H. unfold pow10. replace (Z.of_N e) with (Z.succ (Z.of_N (e - 1))) by lia.
  rewrite Z.pow_succ_r by lia. reflexivity.
Qed.

Lemma strip10_spec fuel m e m' e' :
  (N.to_nat e <= fuel)%nat -> m <> 0 -> strip10 fuel m e = (m', e') ->
  m' <> 0 /\ (e' <> 0%N -> m' mod 10 <> 0) /\ m' * pow10 e = m * pow10 e'.
Proof.
  revert m e. induction fuel as [|f IH]; intros m e Hf Hm; cbn [strip10].
  - intros H. inversion H; subst. repeat split; [exact Hm|lia].
  - destruct (N.eqb_spec e 0) as [->|Ne].
    + intros H. inversion H; subst. repeat split; [exact Hm|congruence].
    + destruct (Z.eqb_spec (m mod 10) 0) as [Hz|Hz].
      * intros H. apply IH in H; [|lia|].
        -- destruct H as (H1 & H2 & H3). repeat split; try assumption.
           rewrite (pow10_succ e Ne).
           assert (Em : m = 10 * (m / 10)) by (pose proof (Z.div_mod m 10); lia).
           set (q := m / 10) in *. rewrite Em.
           transitivity (10 * (m' * pow10 (e - 1))); [ring|]. rewrite H3. ring.
        -- intros Q. pose proof (Z.div_mod m 10). lia.
      * intros H. inversion H; subst. repeat split; [exact Hm|intros _; exact Hz].
Qed.

Lemma snorm_normal s : snormal (snorm s).
Proof.
  destruct s as [|m e|]; cbn; try exact I.
  destruct (Z.eqb_spec m 0) as [->|Nm]; [cbn; split; [reflexivity|congruence]|].
  destruct (strip10 (N.to_nat e) m e) as [m' e'] eqn:E.
  apply strip10_spec in E as (H1 & H2 & _); [|lia|exact Nm]. cbn. split; [congruence|exact H2].
Qed.

Lemma snorm_value s : svalue_cmp (snorm s) s = Eq.
Proof.
  destruct s as [|m e|]; cbn; try reflexivity.
  destruct (Z.eqb_spec m 0) as [->|Nm]; [cbn; reflexivity|].
  destruct (strip10 (N.to_nat e) m e) as [m' e'] eqn:E.
  apply strip10_spec in E as (_ & _ & H3); [|lia|exact Nm]. cbn. apply Z.compare_eq_iff. exact H3.
Qed.

Lemma normal_same_value m1 e1 m2 e2 :
  snormal (SFin m1 e1) -> snormal (SFin m2 e2) -> m1 * pow10 e2 = m2 * pow10 e1 -> e1 = e2.
Proof.
  assert (Half : forall m1 e1 m2 e2, snormal (SFin m1 e1) -> snormal (SFin m2 e2) ->
                   m1 * pow10 e2 = m2 * pow10 e1 -> (e1 < e2)%N -> False).
  { clear. intros m1 e1 m2 e2 [A1 A2] [B1 B2] E L.
    assert (Ne2 : e2 <> 0%N) by lia.
    assert (P : pow10 e2 = pow10 (e2 - e1) * pow10 e1).
    { unfold pow10. rewrite <- Z.pow_add_r by lia. f_equal. lia. }
    rewrite P in E. pose proof (pow10_pos e1) as P1.
    assert (E' : m1 * pow10 (e2 - e1) = m2).
    { apply (Z.mul_cancel_r _ _ (pow10 e1)); [lia|]. rewrite <- E. ring. }
    rewrite (pow10_succ (e2 - e1)) in E' by lia.
    apply (B2 Ne2). rewrite <- E'. replace (m1 * (10 * pow10 (e2 - e1 - 1))) with ((m1 * pow10 (e2 - e1 - 1)) * 10) by ring.
    apply Z.mod_mul. lia. }
  intros N1 N2 E. destruct (N.lt_trichotomy e1 e2) as [L|[Q|L]]; [exfalso|exact Q|exfalso].
  - exact (Half m1 e1 m2 e2 N1 N2 E L).
  - exact (Half m2 e2 m1 e1 N2 N1 (eq_sym E) L).
Qed.

Lemma score_cmp_normal a b : snormal a -> snormal b -> score_cmp a b = svalue_cmp a b.
Proof.
  destruct a as [|m1 e1|], b as [|m2 e2|]; cbn [score_cmp svalue_cmp]; try reflexivity.
  intros N1 N2. destruct (Z.compare_spec (m1 * pow10 e2) (m2 * pow10 e1)) as [E|L|G]; try reflexivity.
  rewrite (normal_same_value _ _ _ _ N1 N2 E). apply N.compare_refl.
Qed.

Lemma parse_score_normal s sc : parse_score s = Some sc -> snormal sc.
Proof.
  unfold parse_score.
  destruct (match s with
            | "-"%byte :: t => (true, t)
            | "+"%byte :: t => (false, t)
            | _ => (false, s)
            end) as [neg body].
  destruct (if is (lower body) (B "inf") || is (lower body) (B "infinity") then Some SPosInf
            else parse_udecimal body) as [v|]; [|discriminate].
  intros H. inversion H. apply snorm_normal.
Qed.

Lemma score_add_normal a b c : snormal a -> snormal b -> score_add a b = Some c -> snormal c.
Proof.
  destruct a as [|m1 e1|], b as [|m2 e2|]; cbn [score_add]; intros Na Nb H;
    try (inversion H; subst; exact I).
  match type of H with Some ?x = Some _ => assert (E : c = x) by congruence; rewrite E end.
  apply snorm_normal.
Qed.

(* ================================================================== unsupported ZRANGE options *)
(* the options ZRANGE understands: WITHSCORES and REV, in any letter case *)
Definition zrange_supported (w : bytes) : bool :=
  is (lower w) (B "withscores") || is (lower w) (B "rev").

Lemma zrange_opts_flags l o o' :
  zrange_opts l o = ROk o' -> r_bylex o' = r_bylex o /\ r_limit o' = r_limit o.
Proof.
  revert o. induction l as [|w r IH]; intros o; cbn [zrange_opts].
  - intros H; inversion H; subst; split; reflexivity.
  - destruct (is (lower w) (B "withscores")); [intros H; apply IH in H; exact H|].
    destruct (is (lower w) (B "rev")); [intros H; apply IH in H; exact H|discriminate].
Qed.

Lemma zrange_opts_never_byscore l o : zrange_opts l o <> RByScore.
Proof.
  revert o. induction l as [|w r IH]; intros o; cbn [zrange_opts]; [discriminate|].
  destruct (is (lower w) (B "withscores")); [apply IH|].
  destruct (is (lower w) (B "rev")); [apply IH|discriminate].
Qed.

Lemma zrange_opts_unsupported l o :
  existsb (fun w => negb (zrange_supported w)) l = true -> zrange_opts l o = RSyntax.
Proof.
  revert o. induction l as [|w r IH]; intros o; cbn [existsb zrange_opts]; [discriminate|].
  unfold zrange_supported.
  destruct (is (lower w) (B "withscores")); [cbn; apply IH|].
  destruct (is (lower w) (B "rev")); [cbn; apply IH|reflexivity].
Qed.

(* BYSCORE, BYLEX, LIMIT (any letter case) -- and any other word that is not WITHSCORES or REV --
   anywhere among the options: an error reply, nothing changes, whatever the key holds *)
Lemma exec_zrange_unsupported d name k a b optl :
  existsb (fun w => negb (zrange_supported w)) optl = true ->
  exec_zrange d (name :: k :: a :: b :: optl) = (err_other, d).
Proof. intros H. unfold exec_zrange. rewrite (zrange_opts_unsupported optl ropts0 H). reflexivity. Qed.

Lemma zrange_by_words_unsupported :
  forallb (fun w => negb (zrange_supported w))
          [B "byscore"; B "BYSCORE"; B "bylex"; B "ByLex"; B "limit"; B "LIMIT"] = true.
Proof. vm_compute. reflexivity. Qed.

(* conversely the whole option list is accepted exactly when every word is WITHSCORES or REV *)
Lemma zrange_opts_supported l o :
  forallb zrange_supported l = true -> exists o', zrange_opts l o = ROk o'.
Proof.
  revert o. induction l as [|w r IH]; intros o; cbn [forallb zrange_opts]; [eexists; reflexivity|].
  unfold zrange_supported. intros H. apply andb_true_iff in H as [Hw Hr].
  destruct (is (lower w) (B "withscores")); [apply IH; exact Hr|].
  destruct (is (lower w) (B "rev")); [apply IH; exact Hr|discriminate Hw].
Qed.

Lemma zrange_options_exact (l : list bytes) :
  (forallb zrange_supported l = true -> exists o, zrange_opts l ropts0 = ROk o) /\
  (forall o, zrange_opts l ropts0 = ROk o -> r_bylex o = false /\ r_limit o = false) /\
  zrange_opts l ropts0 <> RByScore.
Proof.
  split; [apply zrange_opts_supported|]. split; [|apply zrange_opts_never_byscore].
  intros o H. exact (zrange_opts_flags l ropts0 o H).
Qed.
