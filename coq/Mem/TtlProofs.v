(* C06 -- expiring keys: proofs.
   Part 1: lookups after the primitive updates; observational equivalence of databases
           ([db_eqv]: same value and same deadline under every key) and the fact that every
           command of every family respects it ([exec_cmd_sim]).  Consequence: what a command
           replies and what it leaves behind is a function of [view d now] alone
           ([exec_view_determined]), i.e. a key whose deadline has passed cannot be observed.
   Part 2: footprint ([upd]): a command changes only keys named among its arguments; with it
           well-formedness preservation and the frame lemmas over programs.
   Part 3: what each command does to the deadline of a key (keep / remove / set).

   Adding a command family F (sets, streams, ...) to [Exec.families]: the C06 theorems are about
   [exec], i.e. about all of [families], so F must come with three facts:
     family_sim  F_dispatch   (equivalent databases: same reply, equivalent results)
     family_upd  F_dispatch   (only keys among the arguments are written)
     family_keep F_dispatch   (no deadline is touched -- or the command joins [ttl_changers]
                               with its own lifecycle theorem)
   and one more [Forall_cons] line in each of [families_sim], [families_upd], [families_keep].
   For a family whose executors (a) are selected by the usual [if is n (B "name") then Some (exec_x d
   args ...)] chain, (b) read the database only through db_get/db_ttl and write it only through
   db_set/db_del/db_set_ttl/db_del_ttl applied to keys that occur in [args], directly or through
   non-recursive accessor definitions (get_hash, put_hash, ... -- add them to the hint database
   [kv_access]), and (c) do not consult the database under a binder or inside a Fixpoint, the three
   facts are one line each (see [sim_hashes]/[upd_hashes]/[keep_hashes]):
       Proof. family_sim_tac F_dispatch. Qed.      (likewise family_upd_tac, family_keep_tac)
   An executor that loops over keys (map/fold/Fixpoint reading db_get inside) needs its own lemma
   by induction, as MGET/MSET/DEL/EXISTS/BLPOP have here; then prove the dispatch lemma as
   [sim_lists]/[upd_lists]/[keep_lists] do (generic tactic first, named lemmas as fallback).  A
   recursive *reader* only needs "equivalent databases give the same result" plus one clause in the
   hook [eqv_rw_extra] (see [eqv_operands] for Sets.operands); the generic tactics then apply.
   Families covered: strings, lists, hashes, sets, sorted sets, streams. *)
Require Import Base.Bytes Base.GoInt Base.Reply Mem.Types Mem.Inv Glob.GlobModel.
(* families whose files reuse names of Strings.v (ZSets: o_nx, o_xx) are imported before it *)
Require Import Mem.HashDec Mem.Hashes Mem.Avl Mem.ZSets Mem.Streams Mem.Sets.
Require Import Mem.Lists Mem.Strings Mem.Exec.
From Coq Require Import Permutation.
Local Open Scope Z_scope.

(* ------------------------------------------------------------------ primitive lookups *)
Lemma db_get_set d k v k0 :
  db_get (db_set d k v) k0 = if bytes_eqb k0 k then Some v else db_get d k0.
Proof.
  unfold db_get, db_set; cbn. destruct (bytes_eqb_spec k0 k) as [->|N].
  - apply alookup_aset_same.
  - apply alookup_aset_other; exact N.
Qed.
Lemma db_ttl_set d k v k0 : db_ttl (db_set d k v) k0 = db_ttl d k0.
Proof. reflexivity. Qed.

Lemma db_get_del d k k0 :
  db_get (db_del d k) k0 = if bytes_eqb k0 k then None else db_get d k0.
Proof.
  unfold db_get, db_del; cbn. destruct (bytes_eqb_spec k0 k) as [->|N].
  - apply alookup_aremove_same.
  - apply alookup_aremove_other; exact N.
Qed.
Lemma db_ttl_del d k k0 :
  db_ttl (db_del d k) k0 = if bytes_eqb k0 k then None else db_ttl d k0.
Proof.
  unfold db_ttl, db_del; cbn. destruct (bytes_eqb_spec k0 k) as [->|N].
  - apply alookup_aremove_same.
  - apply alookup_aremove_other; exact N.
Qed.

Lemma amem_get d k : amem k (kv d) = isSome (db_get d k).
Proof. unfold amem, db_get. destruct (alookup k (kv d)); reflexivity. Qed.

Lemma db_get_set_ttl d k t k0 : db_get (db_set_ttl d k t) k0 = db_get d k0.
Proof. unfold db_set_ttl. destruct (amem k (kv d)); reflexivity. Qed.
Lemma db_ttl_set_ttl d k t k0 :
  db_ttl (db_set_ttl d k t) k0 =
  if isSome (db_get d k) && bytes_eqb k0 k then Some t else db_ttl d k0.
Proof.
  unfold db_set_ttl. rewrite amem_get. destruct (isSome (db_get d k)); cbn; [|reflexivity].
  unfold db_ttl; cbn. destruct (bytes_eqb_spec k0 k) as [->|N].
  - apply alookup_aset_same.
  - apply alookup_aset_other; exact N.
Qed.

Lemma db_get_del_ttl d k k0 : db_get (db_del_ttl d k) k0 = db_get d k0.
Proof. reflexivity. Qed.
Lemma db_ttl_del_ttl d k k0 :
  db_ttl (db_del_ttl d k) k0 = if bytes_eqb k0 k then None else db_ttl d k0.
Proof.
  unfold db_ttl, db_del_ttl; cbn. destruct (bytes_eqb_spec k0 k) as [->|N].
  - apply alookup_aremove_same.
  - apply alookup_aremove_other; exact N.
Qed.

(* a stored deadline belongs to a stored key *)
Lemma wf_ttl_none d k : db_wf d -> db_get d k = None -> db_ttl d k = None.
Proof.
  intros (_ & _ & H3) G. unfold db_ttl. destruct (alookup k (ttl d)) eqn:E; [|reflexivity].
  exfalso. apply alookup_Some_in in E. apply H3 in E. apply amem_true_iff in E.
  unfold amem, db_get in *. rewrite G in E. discriminate.
Qed.

Lemma put_list_cases d k l :
  put_list d k l = match l with [] => db_del d k | _ => db_set d k (VList l) end.
Proof. reflexivity. Qed.

(* ------------------------------------------------------------------ observational equivalence *)
Definition db_eqv (a b : db) : Prop :=
  forall k, db_get a k = db_get b k /\ db_ttl a k = db_ttl b k.

Lemma eqv_refl a : db_eqv a a.
Proof. intros k; split; reflexivity. Qed.
Lemma eqv_sym a b : db_eqv a b -> db_eqv b a.
Proof. intros H k; destruct (H k); split; congruence. Qed.
Lemma eqv_trans a b c : db_eqv a b -> db_eqv b c -> db_eqv a c.
Proof. intros H1 H2 k; destruct (H1 k), (H2 k); split; congruence. Qed.

Lemma eqv_set a b k v : db_eqv a b -> db_eqv (db_set a k v) (db_set b k v).
Proof.
  intros H k0. rewrite !db_get_set, !db_ttl_set. destruct (H k0) as [G T].
  rewrite G, T. split; reflexivity.
Qed.
Lemma eqv_del a b k : db_eqv a b -> db_eqv (db_del a k) (db_del b k).
Proof.
  intros H k0. rewrite !db_get_del, !db_ttl_del. destruct (H k0) as [G T].
  rewrite G, T. split; reflexivity.
Qed.
Lemma eqv_set_ttl a b k t : db_eqv a b -> db_eqv (db_set_ttl a k t) (db_set_ttl b k t).
Proof.
  intros H k0. rewrite !db_get_set_ttl, !db_ttl_set_ttl. destruct (H k0) as [G T].
  rewrite G, T, (proj1 (H k)). split; reflexivity.
Qed.
Lemma eqv_del_ttl a b k : db_eqv a b -> db_eqv (db_del_ttl a k) (db_del_ttl b k).
Proof.
  intros H k0. rewrite !db_get_del_ttl, !db_ttl_del_ttl. destruct (H k0) as [G T].
  rewrite G, T. split; reflexivity.
Qed.
Lemma eqv_put_list a b k l : db_eqv a b -> db_eqv (put_list a k l) (put_list b k l).
Proof. intros H. destruct l; cbn; [apply eqv_del|apply eqv_set]; exact H. Qed.

Lemma eqv_expired a b now k : db_eqv a b -> expired a now k = expired b now k.
Proof. intros H. unfold expired. rewrite (proj2 (H k)). reflexivity. Qed.

Lemma eqv_purge a b t : db_wf a -> db_wf b -> db_eqv a b -> db_eqv (purge a t) (purge b t).
Proof.
  intros Wa Wb H k. rewrite !db_get_purge, !db_ttl_purge by assumption.
  rewrite (eqv_expired a b t k H). destruct (H k) as [G T]. rewrite G, T. split; reflexivity.
Qed.

(* with well-formedness, equivalence is equality of the semantic views *)
Lemma eqv_raw_view a b : db_eqv a b -> forall k, raw_view a k = raw_view b k.
Proof. intros H k. unfold raw_view. destruct (H k) as [G T]. rewrite G, T. reflexivity. Qed.

Lemma raw_view_eqv a b : db_wf a -> db_wf b -> (forall k, raw_view a k = raw_view b k) -> db_eqv a b.
Proof.
  intros Wa Wb H k. specialize (H k). unfold raw_view in H.
  destruct (db_get a k) eqn:Ga, (db_get b k) eqn:Gb; try discriminate.
  - injection H as E1 E2. subst. split; [reflexivity|exact E2].
  - split; [reflexivity|]. rewrite (wf_ttl_none a k Wa Ga), (wf_ttl_none b k Wb Gb). reflexivity.
Qed.

Lemma eqv_view a b now : db_eqv a b -> forall k, view a now k = view b now k.
Proof.
  intros H k. unfold view. rewrite (eqv_expired a b now k H).
  destruct (H k) as [G T]. rewrite G, T. reflexivity.
Qed.

Lemma view_purge_eqv a b now : db_wf a -> db_wf b ->
  (forall k, view a now k = view b now k) -> db_eqv (purge a now) (purge b now).
Proof.
  intros Wa Wb H. apply raw_view_eqv; try (apply db_wf_purge; assumption).
  intros k. rewrite !raw_view_purge by assumption. apply H.
Qed.

(* ------------------------------------------------------------------ simulation of commands *)
(* same reply, equivalent databases *)
Definition sim (x y : reply * db) : Prop := fst x = fst y /\ db_eqv (snd x) (snd y).

Lemma sim_intro r a b : db_eqv a b -> sim (r, a) (r, b).
Proof. intros H; split; [reflexivity|exact H]. Qed.

Ltac eqv_rw :=
  repeat match goal with
  | H : db_eqv ?a _ |- context [db_get ?a ?k] => rewrite (proj1 (H k))
  | H : db_eqv ?a _ |- context [db_ttl ?a ?k] => rewrite (proj2 (H k))
  end.

(* destruct the scrutinee of an innermost match *)
Ltac break_match :=
  match goal with
  | |- context [match ?x with _ => _ end] =>
    lazymatch x with
    | context [match _ with _ => _ end] => fail
    | _ => destruct x eqn:?
    end
  end.

Ltac sim_leaf :=
  try (apply sim_intro);
  repeat first [ assumption | apply eqv_set | apply eqv_del | apply eqv_set_ttl | apply eqv_del_ttl
               | apply eqv_put_list ].

(* hook: a family with a recursive reader of the database (e.g. Sets.operands) proves that it
   respects [db_eqv] and extends this tactic with [::=] *)
Ltac eqv_rw_extra := idtac.
Ltac sim_auto := repeat (eqv_rw; eqv_rw_extra; break_match); sim_leaf.

(* ---- generic proofs for a family whose executors reach the database only through
        db_get/db_ttl/db_set/db_del/db_set_ttl/db_del_ttl, possibly via accessor definitions
        listed in the hint database [kv_access] ---- *)
Create HintDb kv_access.
#[export] Hint Unfold get_list put_list : kv_access.
#[export] Hint Unfold follow_hint : kv_access.
#[export] Hint Unfold get_hash hash_or_empty put_hash hfloat_store hfloat_follow : kv_access.
#[export] Hint Unfold get_zset put_zset : kv_access.
#[export] Hint Unfold get_set put_set store_set : kv_access.
#[export] Hint Unfold get_stream xadd_apply : kv_access.

Ltac head_of t := lazymatch t with ?f _ => head_of f | _ => t end.
Ltac unfold_exec t :=
  let h := head_of t in unfold h; cbv beta zeta; repeat autounfold with kv_access.


Lemma eqv_set_apply_ttl a b now k o :
  db_eqv a b -> db_eqv (set_apply_ttl a now k o) (set_apply_ttl b now k o).
Proof. intros H. unfold set_apply_ttl. repeat break_match; sim_leaf. Qed.

Lemma sim_set a b now args : db_eqv a b -> sim (exec_set a now args) (exec_set b now args).
Proof.
  intros H. unfold exec_set. repeat (eqv_rw; break_match); sim_leaf;
    apply eqv_set_apply_ttl; apply eqv_set; exact H.
Qed.

Lemma sim_get a b args : db_eqv a b -> sim (exec_get a args) (exec_get b args).
Proof. intros H. unfold exec_get. sim_auto. Qed.
Lemma sim_getrange a b args : db_eqv a b -> sim (exec_getrange a args) (exec_getrange b args).
Proof. intros H. unfold exec_getrange. sim_auto. Qed.
Lemma sim_setrange a b args : db_eqv a b -> sim (exec_setrange a args) (exec_setrange b args).
Proof. intros H. unfold exec_setrange. sim_auto. Qed.

Lemma sim_mget a b args : db_eqv a b -> sim (exec_mget a args) (exec_mget b args).
Proof.
  intros H. unfold exec_mget. repeat break_match; sim_leaf.
  split; [cbn [fst]|exact H]. f_equal.
  apply map_ext. intros k. rewrite (proj1 (H k)). reflexivity.
Qed.

Lemma eqv_mset_pairs_n n : forall (l : list bytes) a b, (List.length l <= n)%nat -> db_eqv a b ->
  match mset_pairs a l, mset_pairs b l with
  | Some a', Some b' => db_eqv a' b'
  | None, None => True
  | _, _ => False
  end.
Proof.
  induction n as [|n IH]; intros l a b L H; destruct l as [|k [|v r]]; cbn in *;
    try exact H; try exact I; try lia.
  apply IH; [lia|]. apply eqv_set, eqv_del_ttl, H.
Qed.
Lemma eqv_mset_pairs l a b : db_eqv a b ->
  match mset_pairs a l, mset_pairs b l with
  | Some a', Some b' => db_eqv a' b'
  | None, None => True
  | _, _ => False
  end.
Proof. apply (eqv_mset_pairs_n (List.length l)). lia. Qed.

Lemma sim_mset a b args : db_eqv a b -> sim (exec_mset a args) (exec_mset b args).
Proof.
  intros H. unfold exec_mset.
  destruct args as [|c [|k [|v r]]]; try (apply sim_intro; exact H).
  pose proof (eqv_mset_pairs (k :: v :: r) a b H) as E.
  destruct (mset_pairs a (k :: v :: r)), (mset_pairs b (k :: v :: r)); try contradiction;
    apply sim_intro; assumption.
Qed.

Lemma sim_setex a b now args : db_eqv a b -> sim (exec_setex a now args) (exec_setex b now args).
Proof. intros H. unfold exec_setex. sim_auto. Qed.
Lemma sim_setnx a b args : db_eqv a b -> sim (exec_setnx a args) (exec_setnx b args).
Proof. intros H. unfold exec_setnx. sim_auto. Qed.
Lemma sim_strlen a b args : db_eqv a b -> sim (exec_strlen a args) (exec_strlen b args).
Proof. intros H. unfold exec_strlen. sim_auto. Qed.
Lemma sim_incr_by a b k n : db_eqv a b -> sim (incr_by a k n) (incr_by b k n).
Proof. intros H. unfold incr_by. sim_auto. Qed.
Lemma sim_incr a b args : db_eqv a b -> sim (exec_incr a args) (exec_incr b args).
Proof. intros H. unfold exec_incr. repeat break_match; sim_leaf; apply sim_incr_by; exact H. Qed.
Lemma sim_decr a b args : db_eqv a b -> sim (exec_decr a args) (exec_decr b args).
Proof. intros H. unfold exec_decr. repeat break_match; sim_leaf; apply sim_incr_by; exact H. Qed.
Lemma sim_incrby a b args : db_eqv a b -> sim (exec_incrby a args) (exec_incrby b args).
Proof. intros H. unfold exec_incrby. repeat break_match; sim_leaf; apply sim_incr_by; exact H. Qed.
Lemma sim_decrby a b args : db_eqv a b -> sim (exec_decrby a args) (exec_decrby b args).
Proof. intros H. unfold exec_decrby. repeat break_match; sim_leaf; apply sim_incr_by; exact H. Qed.
Lemma sim_append a b args : db_eqv a b -> sim (exec_append a args) (exec_append b args).
Proof. intros H. unfold exec_append. sim_auto. Qed.

Lemma sim_del_keys l : forall a b n, db_eqv a b ->
  fst (del_keys a l n) = fst (del_keys b l n) /\ db_eqv (snd (del_keys a l n)) (snd (del_keys b l n)).
Proof.
  induction l as [|k r IH]; intros a b n H; cbn; [split; [reflexivity|exact H]|].
  rewrite (proj1 (H k)). destruct (db_get b k); apply IH; apply eqv_del; exact H.
Qed.

Lemma sim_del a b args : db_eqv a b -> sim (exec_del a args) (exec_del b args).
Proof.
  intros H. unfold exec_del. destruct args as [|c [|k r]]; try (apply sim_intro; exact H).
  pose proof (sim_del_keys (k :: r) a b 0 H) as [E1 E2].
  destruct (del_keys a (k :: r) 0), (del_keys b (k :: r) 0). cbn in *. subst. apply sim_intro; exact E2.
Qed.

Lemma sim_exists a b args : db_eqv a b -> sim (exec_exists a args) (exec_exists b args).
Proof.
  intros H. unfold exec_exists. destruct args as [|c [|k r]]; try (apply sim_intro; exact H).
  split; [cbn [fst]|exact H]. do 2 f_equal.
  apply filter_ext. intros k0. rewrite (proj1 (H k0)). reflexivity.
Qed.

Lemma sim_expire a b now args : db_eqv a b -> sim (exec_expire a now args) (exec_expire b now args).
Proof. intros H. unfold exec_expire. cbv beta zeta. sim_auto. Qed.
Lemma sim_persist a b args : db_eqv a b -> sim (exec_persist a args) (exec_persist b args).
Proof. intros H. unfold exec_persist. sim_auto. Qed.
Lemma sim_ttl a b now args : db_eqv a b -> sim (exec_ttl a now args) (exec_ttl b now args).
Proof. intros H. unfold exec_ttl. sim_auto. Qed.
Lemma sim_type a b args : db_eqv a b -> sim (exec_type a args) (exec_type b args).
Proof. intros H. unfold exec_type. sim_auto. Qed.
Lemma sim_rename a b args : db_eqv a b -> sim (exec_rename a args) (exec_rename b args).
Proof. intros H. unfold exec_rename. sim_auto. Qed.
Lemma sim_ping a b args : db_eqv a b -> sim (exec_ping a args) (exec_ping b args).
Proof. intros H. unfold exec_ping. sim_auto. Qed.

(* KEYS lists the stored keys in map order: equivalent databases give permutations *)
Definition reply_perm (r1 r2 : reply) : Prop :=
  r1 = r2 \/ exists l1 l2, r1 = RArr (map RBulk l1) /\ r2 = RArr (map RBulk l2) /\ Permutation l1 l2.

Lemma Permutation_filter' {A} (f : A -> bool) l1 l2 :
  Permutation l1 l2 -> Permutation (filter f l1) (filter f l2).
Proof.
  induction 1 as [|x l l' P IH|x y l|l l' l'' P1 IH1 P2 IH2]; cbn.
  - constructor.
  - destruct (f x); [constructor|]; exact IH.
  - destruct (f x), (f y); try apply Permutation_refl. constructor.
  - eapply Permutation_trans; eassumption.
Qed.

Lemma eqv_keys_perm a b : db_wf a -> db_wf b -> db_eqv a b ->
  Permutation (akeys (kv a)) (akeys (kv b)).
Proof.
  intros (Na & _) (Nb & _) H. apply NoDup_Permutation; try assumption.
  intros k. rewrite <- !amem_true_iff, !amem_get, (proj1 (H k)). reflexivity.
Qed.

Lemma sim_keys a b args : db_wf a -> db_wf b -> db_eqv a b ->
  reply_perm (fst (exec_keys a args)) (fst (exec_keys b args)) /\
  db_eqv (snd (exec_keys a args)) (snd (exec_keys b args)).
Proof.
  intros Wa Wb H. unfold exec_keys.
  destruct args as [|c [|p [|x r]]]; cbn [fst snd]; try (split; [left; reflexivity|exact H]).
  split; [|exact H]. right. eexists _, _. split; [reflexivity|]. split; [reflexivity|].
  unfold keys_filter. apply Permutation_filter'. apply eqv_keys_perm; assumption.
Qed.

(* ---- lists ---- *)
Lemma eqv_get_list a b k : db_eqv a b -> get_list a k = get_list b k.
Proof. intros H. unfold get_list. rewrite (proj1 (H k)). reflexivity. Qed.

Ltac eqv_rwl :=
  repeat match goal with
  | H : db_eqv ?a _ |- context [get_list ?a ?k] => rewrite (eqv_get_list _ _ k H)
  end.
Ltac sim_autol := repeat (eqv_rwl; eqv_rw; break_match); sim_leaf.

Lemma sim_llen a b args : db_eqv a b -> sim (exec_llen a args) (exec_llen b args).
Proof. intros H. unfold exec_llen. sim_autol. Qed.
Lemma sim_lindex a b args : db_eqv a b -> sim (exec_lindex a args) (exec_lindex b args).
Proof. intros H. unfold exec_lindex. sim_autol. Qed.
Lemma sim_push l c a b args : db_eqv a b -> sim (push_cmd l c a args) (push_cmd l c b args).
Proof. intros H. unfold push_cmd. cbv beta zeta. sim_autol. Qed.
Lemma sim_pop l a b args : db_eqv a b -> sim (pop_cmd l a args) (pop_cmd l b args).
Proof. intros H. unfold pop_cmd. cbv beta zeta. sim_autol. Qed.
Lemma sim_lset a b args : db_eqv a b -> sim (exec_lset a args) (exec_lset b args).
Proof. intros H. unfold exec_lset. sim_autol. Qed.
Lemma sim_lrem a b args : db_eqv a b -> sim (exec_lrem a args) (exec_lrem b args).
Proof. intros H. unfold exec_lrem. sim_autol. Qed.
Lemma sim_ltrim a b args : db_eqv a b -> sim (exec_ltrim a args) (exec_ltrim b args).
Proof. intros H. unfold exec_ltrim. sim_autol. Qed.
Lemma sim_lrange a b args : db_eqv a b -> sim (exec_lrange a args) (exec_lrange b args).
Proof. intros H. unfold exec_lrange. sim_autol. Qed.
Lemma sim_lpos a b args : db_eqv a b -> sim (exec_lpos a args) (exec_lpos b args).
Proof. intros H. unfold exec_lpos. sim_autol. Qed.

Lemma sim_lmove a b args : db_eqv a b -> sim (exec_lmove a args) (exec_lmove b args).
Proof.
  intros H. unfold exec_lmove.
  destruct args as [|c [|src [|dst [|sd [|dd [|x r]]]]]]; try (apply sim_intro; exact H).
  cbv beta zeta.
  assert (P : forall l, db_eqv (put_list a src l) (put_list b src l))
    by (intros l; apply eqv_put_list; exact H).
  assert (G : forall l, get_list (put_list a src l) dst = get_list (put_list b src l) dst)
    by (intros l; apply eqv_get_list; apply P).
  rewrite !(eqv_get_list a b _ H).
  repeat (rewrite ?G; break_match); sim_leaf; try congruence.
Qed.

(* one polling round *)
Lemma sim_bpop_try l keys : forall a b, db_eqv a b ->
  match bpop_try l a keys, bpop_try l b keys with
  | Some (r1, a'), Some (r2, b') => r1 = r2 /\ db_eqv a' b'
  | None, None => True
  | _, _ => False
  end.
Proof.
  induction keys as [|k r IH]; intros a b H; cbn; [exact I|].
  rewrite (eqv_get_list a b k H). specialize (IH a b H).
  destruct (get_list b k) as [| |l0]; [exact IH|split; [reflexivity|exact H]|].
  destruct l; [destruct l0 as [|x l']|destruct (rev l0) as [|x l']]; try exact IH;
    (split; [reflexivity|apply eqv_put_list; exact H]).
Qed.

(* two runs of [iter_until] whose step functions are related stay related *)
Lemma iter_until_rel {X1 X2 Y1 Y2 : Type} (RX : X1 -> X2 -> Prop) (RY : Y1 -> Y2 -> Prop)
      (f1 : X1 -> Y1 + X1) (f2 : X2 -> Y2 + X2) :
  (forall x1 x2, RX x1 x2 ->
     match f1 x1, f2 x2 with
     | inl y1, inl y2 => RY y1 y2 | inr a, inr b => RX a b | _, _ => False end) ->
  forall p x1 x2, RX x1 x2 ->
     match iter_until p f1 x1, iter_until p f2 x2 with
     | inl y1, inl y2 => RY y1 y2 | inr a, inr b => RX a b | _, _ => False end.
Proof.
  intros Hf. induction p as [q IH|q IH|]; intros x1 x2 Hx; cbn.
  - pose proof (Hf x1 x2 Hx) as H0.
    destruct (f1 x1) as [y1|a], (f2 x2) as [y2|b]; try contradiction; [exact H0|].
    pose proof (IH a b H0) as H1.
    destruct (iter_until q f1 a) as [y1|a'], (iter_until q f2 b) as [y2|b']; try contradiction;
      [exact H1|]. apply IH. exact H1.
  - pose proof (IH x1 x2 Hx) as H1.
    destruct (iter_until q f1 x1) as [y1|a'], (iter_until q f2 x2) as [y2|b']; try contradiction;
      [exact H1|]. apply IH. exact H1.
  - apply Hf. exact Hx.
Qed.

(* a blocked pop with no other connection acting: the database only changes by its own pop *)
Notation bst_db := (@bst db unit).
Definition bst_rel (x y : bst_db) : Prop :=
  b_tick x = b_tick y /\ b_evs x = [] /\ b_evs y = [] /\
  db_wf (b_s x) /\ db_wf (b_s y) /\ db_eqv (b_s x) (b_s y).
Definition bres_rel (x y : reply * bst_db) : Prop :=
  fst x = fst y /\ db_eqv (b_s (snd x)) (b_s (snd y)).

Lemma btick_rel l keys t0 x y : bst_rel x y ->
  match btick (bpop_poll l keys) t0 x, btick (bpop_poll l keys) t0 y with
  | inl r1, inl r2 => bres_rel r1 r2 | inr a, inr b => bst_rel a b | _, _ => False end.
Proof.
  intros (Ht & E1 & E2 & W1 & W2 & H). unfold btick. rewrite E1, E2, Ht. cbn [run_due].
  unfold bpop_poll.
  pose proof (sim_bpop_try l keys _ _ (eqv_purge _ _ ((t0 + 100 * (b_tick y + 1)) / 1000) W1 W2 H)) as S.
  destruct (bpop_try l (purge (b_s x) ((t0 + 100 * (b_tick y + 1)) / 1000)) keys) as [[r1 a']|],
           (bpop_try l (purge (b_s y) ((t0 + 100 * (b_tick y + 1)) / 1000)) keys) as [[r2 b']|];
    try contradiction.
  - destruct S as [Er Ed]. split; assumption.
  - unfold bst_rel. cbn. split; [reflexivity|]. split; [reflexivity|]. split; [reflexivity|].
    split; [exact W1|]. split; [exact W2|exact H].
Qed.

Lemma sim_bpop l a b nowms args : db_wf a -> db_wf b -> db_eqv a b ->
  sim (exec_bpop l a nowms args) (exec_bpop l b nowms args).
Proof.
  intros Wa Wb H. unfold exec_bpop, bpop_run.
  destruct (bpop_parse args) as [[keys t]|]; [|apply sim_intro; exact H].
  unfold block, block_n.
  assert (R0 : bst_rel (mkBst 0 [] a []) (mkBst 0 [] b [])).
  { unfold bst_rel. cbn. split; [reflexivity|]. split; [reflexivity|]. split; [reflexivity|].
    split; [exact Wa|]. split; [exact Wb|exact H]. }
  pose proof (iter_until_rel bst_rel bres_rel _ _ (fun x y => btick_rel l keys nowms x y)
                (block_ticks t) _ _ R0) as S.
  revert S.
  destruct (iter_until (block_ticks t) (btick (bpop_poll l keys) nowms) (mkBst 0 [] a []))
    as [[r1 st1]|st1],
           (iter_until (block_ticks t) (btick (bpop_poll l keys) nowms) (mkBst 0 [] b []))
    as [[r2 st2]|st2]; intros S; cbv beta iota in S; try contradiction.
  - unfold bres_rel in S. destruct S as [Er Ed]. cbn in Er, Ed |- *. subst. apply sim_intro. exact Ed.
  - unfold bst_rel in S. destruct S as (_ & E1 & E2 & _ & _ & Ed). rewrite E1, E2. cbn. apply sim_intro. exact Ed.
Qed.

(* what a blocked pop with no other connection acting can end with: nothing changed (parse error
   or timer), or the result of one polling round at tick i *)
Section Quiet.
  Variables (l : bool) (keys : list bytes) (t0 : Z) (d : db).
  Definition quiet (n : Z) (st : bst_db) : Prop :=
    b_tick st = n /\ b_evs st = [] /\ b_s st = d.

  Lemma iter_quiet p : forall n st, quiet n st ->
    match iter_until p (btick (bpop_poll l keys) t0) st with
    | inl (r, st') => exists i, n < i <= n + Zpos p /\
                                bpop_try l (purge d ((t0 + 100 * i) / 1000)) keys = Some (r, b_s st')
    | inr st' => quiet (n + Zpos p) st'
    end.
  Proof.
    assert (Step : forall n st, quiet n st ->
      match btick (bpop_poll l keys) t0 st with
      | inl (r, st') => bpop_try l (purge d ((t0 + 100 * (n + 1)) / 1000)) keys = Some (r, b_s st')
      | inr st' => quiet (n + 1) st'
      end).
    { intros n st (Ht & Ee & Es). unfold btick. rewrite Ee, Ht, Es. cbn [run_due]. unfold bpop_poll.
      destruct (bpop_try l (purge d ((t0 + 100 * (n + 1)) / 1000)) keys) as [[r d']|];
        [reflexivity|repeat split; reflexivity]. }
    induction p as [q IH|q IH|]; intros n st Q; cbn.
    - pose proof (Step n st Q) as S0.
      destruct (btick (bpop_poll l keys) t0 st) as [[r st']|st0].
      + exists (n + 1). split; [lia|exact S0].
      + pose proof (IH (n + 1) st0 S0) as S1.
        destruct (iter_until q (btick (bpop_poll l keys) t0) st0) as [[r st']|st1].
        * destruct S1 as [i [Hi E]]. exists i. split; [lia|exact E].
        * pose proof (IH (n + 1 + Zpos q) st1 S1) as S2.
          destruct (iter_until q (btick (bpop_poll l keys) t0) st1) as [[r st']|st2].
          -- destruct S2 as [i [Hi E]]. exists i. split; [lia|exact E].
          -- replace (n + Zpos q~1) with (n + 1 + Zpos q + Zpos q) by lia. exact S2.
    - pose proof (IH n st Q) as S1.
      destruct (iter_until q (btick (bpop_poll l keys) t0) st) as [[r st']|st1].
      + destruct S1 as [i [Hi E]]. exists i. split; [lia|exact E].
      + pose proof (IH (n + Zpos q) st1 S1) as S2.
        destruct (iter_until q (btick (bpop_poll l keys) t0) st1) as [[r st']|st2].
        * destruct S2 as [i [Hi E]]. exists i. split; [lia|exact E].
        * replace (n + Zpos q~0) with (n + Zpos q + Zpos q) by lia. exact S2.
    - pose proof (Step n st Q) as S0.
      destruct (btick (bpop_poll l keys) t0 st) as [[r st']|st0]; [|exact S0].
      exists (n + 1). split; [lia|exact S0].
  Qed.
End Quiet.

Lemma block_ticks_bound t : 0 <= t -> 100 * Zpos (block_ticks t) <= block_timer_ms t.
Proof.
  intros L. unfold block_ticks, block_timer_ms. destruct (Z.eqb_spec t 0) as [->|N]; [lia|].
  rewrite Z2Pos.id by lia. lia.
Qed.

Lemma bpop_parse_nonneg args keys t : bpop_parse args = Some (keys, t) ->
  0 <= t /\ incl keys (tl args).
Proof.
  unfold bpop_parse. destruct args as [|c rest]; [discriminate|].
  destruct rest as [|x [|y r]]; try discriminate.
  destruct (atoi64 (last (x :: y :: r) [])) as [t'|]; [|discriminate].
  destruct ((t' <? 0) || (t' >? 9223372036)) eqn:Bd; [discriminate|].
  intros E. injection E as <- <-. apply orb_false_iff in Bd as [Bd _]. apply Z.ltb_ge in Bd.
  split; [exact Bd|]. cbn [tl]. intros z Hz.
  assert (G : forall (A : Type) (m : list A) (u : A), In u (removelast m) -> In u m).
  { intros A m. induction m as [|h m' IHm]; intros u Hu; [exact Hu|].
    destruct m' as [|h' m'']; [destruct Hu|].
    change (removelast (h :: h' :: m'')) with (h :: removelast (h' :: m'')) in Hu.
    destruct Hu as [->|Hu]; [left; reflexivity|right; apply IHm; exact Hu]. }
  apply G. exact Hz.
Qed.

(* the database after BLPOP/BRPOP: unchanged, or one polling round on the database purged at a
   tick instant that is not later than the timer *)
Lemma exec_bpop_cases l d nowms args :
  snd (exec_bpop l d nowms args) = d \/
  exists keys t i r, bpop_parse args = Some (keys, t) /\ 0 < i /\
    (nowms + 100 * i) / 1000 <= (nowms + block_timer_ms t) / 1000 /\
    bpop_try l (purge d ((nowms + 100 * i) / 1000)) keys = Some (r, snd (exec_bpop l d nowms args)).
Proof.
  unfold exec_bpop, bpop_run. destruct (bpop_parse args) as [[keys t]|] eqn:P; [|left; reflexivity].
  destruct (bpop_parse_nonneg args keys t P) as [Lt _].
  unfold block, block_n.
  pose proof (iter_quiet l keys nowms d (block_ticks t) 0 (mkBst 0 [] d [])) as Q.
  revert Q.
  destruct (iter_until (block_ticks t) (btick (bpop_poll l keys) nowms) (mkBst 0 [] d []))
    as [[r st']|st']; intros Q; cbv beta iota in Q.
  - destruct Q as [i [Hi E]]; [repeat split; reflexivity|].
    right. exists keys, t, i, r. split; [reflexivity|]. split; [lia|]. split; [|exact E].
    pose proof (block_ticks_bound t Lt). apply Z.div_le_mono; lia.
  - destruct Q as (_ & Ee & Es); [repeat split; reflexivity|]. left. rewrite Ee, Es. reflexivity.
Qed.

(* ---- dispatch ---- *)
Definition is_keys (n : bytes) : bool := is n (B "keys").

(* replies are equal -- except that KEYS, which lists the keyspace in map order, may list the
   same keys in another order *)
Definition simk (n : bytes) (x y : reply * db) : Prop :=
  (if is_keys n then reply_perm (fst x) (fst y) else fst x = fst y) /\ db_eqv (snd x) (snd y).

Definition osimk (n : bytes) (x y : option (reply * db)) : Prop :=
  match x, y with
  | Some x, Some y => simk n x y
  | None, None => True
  | _, _ => False
  end.

Lemma sim_simk n x y : is_keys n = false -> sim x y -> simk n x y.
Proof. intros E [H1 H2]. unfold simk. rewrite E. split; assumption. Qed.

Lemma sim_strings a b now nowms n args hint : db_wf a -> db_wf b -> db_eqv a b ->
  osimk n (strings_dispatch a now nowms n args hint) (strings_dispatch b now nowms n args hint).
Proof.
  intros Wa Wb H. unfold strings_dispatch.
  repeat match goal with
  | |- context [if is n ?c then _ else _] =>
    let E := fresh "E" in
    destruct (is n c) eqn:E;
    [ apply bytes_eqb_eq in E; subst n; cbn [osimk];
      first [ apply sim_keys; assumption
            | apply sim_simk; [reflexivity|];
              first [ apply sim_set | apply sim_get | apply sim_getrange | apply sim_setrange
                    | apply sim_mget | apply sim_mset | apply sim_setex | apply sim_setnx
                    | apply sim_strlen | apply sim_incr | apply sim_decr | apply sim_incrby
                    | apply sim_decrby | apply sim_append | apply sim_del | apply sim_exists
                    | apply sim_expire | apply sim_persist | apply sim_ttl | apply sim_type
                    | apply sim_rename | apply sim_ping
                    | match goal with |- sim ?x _ => unfold_exec x end; sim_auto ]; try exact H ]
    | clear E ]
  end.
  exact I.
Qed.

Lemma sim_lists a b now nowms n args hint : db_wf a -> db_wf b -> db_eqv a b ->
  osimk n (lists_dispatch a now nowms n args hint) (lists_dispatch b now nowms n args hint).
Proof.
  intros Wa Wb H. unfold lists_dispatch.
  repeat match goal with
  | |- context [if is n ?c then _ else _] =>
    let E := fresh "E" in
    destruct (is n c) eqn:E;
    [ apply bytes_eqb_eq in E; subst n; cbn [osimk];
      apply sim_simk; [reflexivity|];
      first [ apply sim_llen | apply sim_lindex | apply sim_lpos | apply sim_pop | apply sim_push
            | apply sim_lset | apply sim_lrem | apply sim_ltrim | apply sim_lrange | apply sim_lmove
            | apply sim_bpop; assumption ]; exact H
    | clear E ]
  end.
  exact I.
Qed.

Definition cmd_name (args : list bytes) : bytes :=
  match args with [] => [] | n :: _ => lower n end.

Definition family_sim (f : family) : Prop :=
  forall a b now nowms n args hint, db_wf a -> db_wf b -> db_eqv a b ->
    osimk n (f a now nowms n args hint) (f b now nowms n args hint).

Lemma simk_refl_err n a b : db_eqv a b -> simk n (err_other, a) (err_other, b).
Proof. intros H. split; [|exact H]. cbn [fst]. destruct (is_keys n); [left|]; reflexivity. Qed.

Lemma sim_dispatch fs : Forall family_sim fs ->
  forall a b now nowms n args hint, db_wf a -> db_wf b -> db_eqv a b ->
    simk n (dispatch fs a now nowms n args hint) (dispatch fs b now nowms n args hint).
Proof.
  induction 1 as [|f r Hf Hr IH]; intros a b now nowms n args hint Wa Wb H; cbn.
  - apply simk_refl_err; exact H.
  - specialize (Hf a b now nowms n args hint Wa Wb H). unfold osimk in Hf.
    destruct (f a now nowms n args hint), (f b now nowms n args hint); try contradiction.
    + exact Hf.
    + apply IH; assumption.
Qed.

Ltac family_sim_tac disp :=
  let a := fresh "a" in let b := fresh "b" in let n := fresh "n" in
  let Wa := fresh "Wa" in let Wb := fresh "Wb" in let H := fresh "H" in
  intros a b ? ? n ? ? Wa Wb H; unfold disp;
  repeat match goal with
  | |- context [if is n ?c then _ else _] =>
    let E := fresh "E" in
    destruct (is n c) eqn:E;
    [ apply bytes_eqb_eq in E; subst n; cbn [osimk]; apply sim_simk; [reflexivity|];
      match goal with |- sim ?x _ => unfold_exec x end; sim_auto
    | clear E ]
  end; exact I.

Lemma sim_hashes : family_sim hashes_dispatch.
Proof. family_sim_tac hashes_dispatch. Qed.
Lemma sim_zsets : family_sim zsets_dispatch.
Proof. family_sim_tac zsets_dispatch. Qed.

(* sets: the operand list of SUNION/SINTER/SDIFF(STORE) is read by a Fixpoint *)
Lemma eqv_operands a b ks : db_eqv a b -> operands a ks = operands b ks.
Proof.
  intros H. induction ks as [|k r IH]; [reflexivity|]. cbn. unfold get_set.
  rewrite (proj1 (H k)), IH. reflexivity.
Qed.
Ltac eqv_rw_extra ::=
  repeat match goal with
  | H : db_eqv ?a _ |- context [operands ?a ?ks] => rewrite (eqv_operands _ _ ks H)
  end.

Lemma sim_sets : family_sim sets_dispatch.
Proof. family_sim_tac sets_dispatch. Qed.
Lemma sim_streams : family_sim streams_dispatch.
Proof. family_sim_tac streams_dispatch. Qed.

(* one [Forall_cons] per family of [Exec.families] *)
Lemma families_sim : Forall family_sim families.
Proof.
  unfold families.
  apply Forall_cons; [intros a b now nowms n args hint; apply sim_strings|].
  apply Forall_cons; [intros a b now nowms n args hint; apply sim_lists|].
  apply Forall_cons; [apply sim_hashes|].
  apply Forall_cons; [apply sim_sets|].
  apply Forall_cons; [apply sim_zsets|].
  apply Forall_cons; [apply sim_streams|].
  apply Forall_nil.
Qed.

(* Every command respects observational equivalence. *)
Theorem exec_cmd_sim a b now nowms args hint : db_wf a -> db_wf b -> db_eqv a b ->
  simk (cmd_name args) (exec_cmd a now nowms args hint) (exec_cmd b now nowms args hint).
Proof.
  intros Wa Wb H. unfold exec_cmd. destruct args as [|n r]; [apply simk_refl_err; exact H|].
  apply sim_dispatch; try assumption. apply families_sim.
Qed.

(* The outcome of a step at clock [now] is determined by [view . now]. *)
Theorem exec_view_determined d1 d2 now nowms args hint : db_wf d1 -> db_wf d2 ->
  (forall k, view d1 now k = view d2 now k) ->
  simk (cmd_name args) (exec d1 now nowms args hint) (exec d2 now nowms args hint).
Proof.
  intros W1 W2 H. unfold exec. apply exec_cmd_sim; try (apply db_wf_purge; assumption).
  apply view_purge_eqv; assumption.
Qed.

(* ================================================================== Part 2: footprint *)
(* [upd K T d d']: d' is obtained from d by primitive updates of keys in K and by purges at
   clocks <= T. *)
Inductive upd (K : list bytes) (T : Z) (d : db) : db -> Prop :=
| upd_refl : upd K T d d
| upd_set d' k v : upd K T d d' -> In k K -> upd K T d (db_set d' k v)
| upd_del d' k : upd K T d d' -> In k K -> upd K T d (db_del d' k)
| upd_set_ttl d' k t : upd K T d d' -> In k K -> upd K T d (db_set_ttl d' k t)
| upd_del_ttl d' k : upd K T d d' -> In k K -> upd K T d (db_del_ttl d' k)
| upd_purge d' t : upd K T d d' -> t <= T -> upd K T d (purge d' t).

Lemma upd_wf K T d d' : db_wf d -> upd K T d d' -> db_wf d'.
Proof.
  intros W U. induction U; auto using db_wf_set, db_wf_del, db_wf_set_ttl, db_wf_del_ttl, db_wf_purge.
Qed.

Lemma upd_put_list K T d d' k l : upd K T d d' -> In k K -> upd K T d (put_list d' k l).
Proof. intros U I. destruct l; cbn; [apply upd_del|apply upd_set]; assumption. Qed.

Lemma upd_trans K T d d1 d2 : upd K T d d1 -> upd K T d1 d2 -> upd K T d d2.
Proof. intros U1 U2. induction U2; [exact U1| constructor; assumption ..]. Qed.

Lemma upd_mono K K' T T' d d' : incl K K' -> T <= T' -> upd K T d d' -> upd K' T' d d'.
Proof.
  intros I L U. induction U; [apply upd_refl| constructor; auto ..]. lia.
Qed.

Lemma expired_mono d t t' k : t <= t' -> expired d t k = true -> expired d t' k = true.
Proof.
  unfold expired. destruct (db_ttl d k); [|discriminate]. intros L E.
  apply Z.leb_le in E. apply Z.leb_le. lia.
Qed.

Lemma view_purge_later d t now k : db_wf d -> t <= now -> view (purge d t) now k = view d now k.
Proof.
  intros W L. unfold view. rewrite db_get_purge.
  unfold expired at 2. rewrite db_ttl_purge by exact W.
  destruct (expired d t k) eqn:E.
  - rewrite (expired_mono d t now k L E). destruct (db_get d k); reflexivity.
  - reflexivity.
Qed.

(* frame: a key outside the footprint looks the same at every clock from T on *)
Lemma upd_frame K T d d' now k : db_wf d -> upd K T d d' -> ~ In k K -> T <= now ->
  view d' now k = view d now k.
Proof.
  intros W U N L. induction U as [|d' k0 v U IH I|d' k0 U IH I|d' k0 t U IH I|d' k0 U IH I|d' t U IH Lt].
  - reflexivity.
  - rewrite <- IH. unfold view, expired. rewrite db_get_set, db_ttl_set.
    destruct (bytes_eqb_spec k k0) as [->|Nk]; [contradiction|reflexivity].
  - rewrite <- IH. unfold view, expired. rewrite db_get_del, db_ttl_del.
    destruct (bytes_eqb_spec k k0) as [->|Nk]; [contradiction|reflexivity].
  - rewrite <- IH. unfold view, expired. rewrite db_get_set_ttl, db_ttl_set_ttl.
    destruct (bytes_eqb_spec k k0) as [->|Nk]; [contradiction|].
    rewrite andb_false_r. reflexivity.
  - rewrite <- IH. unfold view, expired. rewrite db_get_del_ttl, db_ttl_del_ttl.
    destruct (bytes_eqb_spec k k0) as [->|Nk]; [contradiction|reflexivity].
  - rewrite <- IH. apply view_purge_later; [eapply upd_wf; eassumption|lia].
Qed.

(* a key without deadline outside the footprint is untouched, whatever the clocks *)
Lemma upd_frame_persistent K T d d' k v : db_wf d -> upd K T d d' -> ~ In k K ->
  raw_view d k = Some (v, None) -> raw_view d' k = Some (v, None).
Proof.
  intros W U N. induction U as [|d' k0 v0 U IH I|d' k0 U IH I|d' k0 t U IH I|d' k0 U IH I|d' t U IH Lt];
    intros R; try specialize (IH R).
  - exact R.
  - rewrite raw_view_set_other; [exact IH|]. intros ->; contradiction.
  - rewrite raw_view_del_other; [exact IH|]. intros ->; contradiction.
  - unfold raw_view in *. rewrite db_get_set_ttl, db_ttl_set_ttl.
    destruct (bytes_eqb_spec k k0) as [->|Nk]; [contradiction|]. rewrite andb_false_r. exact IH.
  - unfold raw_view in *. rewrite db_get_del_ttl, db_ttl_del_ttl.
    destruct (bytes_eqb_spec k k0) as [->|Nk]; [contradiction|exact IH].
  - rewrite raw_view_purge by (eapply upd_wf; eassumption).
    unfold raw_view in IH. unfold view, expired.
    destruct (db_get d' k); [|discriminate]. injection IH as -> E. rewrite E. reflexivity.
Qed.

(* ---- every command has its argument keys as footprint ---- *)
Ltac in_tac := solve [cbn; intuition].
Ltac upd_leaf :=
  cbn [snd];
  repeat first [ apply upd_refl
               | apply upd_set | apply upd_del | apply upd_set_ttl | apply upd_del_ttl
               | apply upd_put_list ];
  try in_tac.
Ltac upd_auto := repeat break_match; upd_leaf.

Lemma upd_set_apply_ttl K T d d' now k o : upd K T d d' -> In k K ->
  upd K T d (set_apply_ttl d' now k o).
Proof. intros U I. unfold set_apply_ttl. repeat break_match; upd_leaf; assumption. Qed.

Lemma upd_exec_set T d now args : upd (tl args) T d (snd (exec_set d now args)).
Proof.
  unfold exec_set. repeat break_match; upd_leaf;
    (apply upd_set_apply_ttl; [apply upd_set; [apply upd_refl|]|]); in_tac.
Qed.
Lemma upd_exec_get T d args : upd (tl args) T d (snd (exec_get d args)).
Proof. unfold exec_get. upd_auto. Qed.
Lemma upd_exec_getrange T d args : upd (tl args) T d (snd (exec_getrange d args)).
Proof. unfold exec_getrange. upd_auto. Qed.
Lemma upd_exec_setrange T d args : upd (tl args) T d (snd (exec_setrange d args)).
Proof. unfold exec_setrange. upd_auto. Qed.
Lemma upd_exec_mget T d args : upd (tl args) T d (snd (exec_mget d args)).
Proof. unfold exec_mget. upd_auto. Qed.

Lemma upd_mset_pairs_n K T d n : forall (l : list bytes) d1 d2, (List.length l <= n)%nat ->
  incl l K -> upd K T d d1 -> mset_pairs d1 l = Some d2 -> upd K T d d2.
Proof.
  induction n as [|n IH]; intros l d1 d2 L I U E; destruct l as [|k [|v r]]; cbn in *;
    try discriminate; try (injection E as <-; exact U); try lia.
  eapply IH; [| |  |exact E]; [lia|intros x Hx; apply I; right; right; exact Hx|].
  apply upd_set; [apply upd_del_ttl; [exact U|]|]; apply I; left; reflexivity.
Qed.
Lemma upd_exec_mset T d args : upd (tl args) T d (snd (exec_mset d args)).
Proof.
  unfold exec_mset. destruct args as [|c [|k [|v r]]]; try apply upd_refl.
  destruct (mset_pairs d (k :: v :: r)) eqn:E; cbn [snd tl]; [|apply upd_refl].
  eapply (upd_mset_pairs_n _ _ _ _ (k :: v :: r)); [apply le_n|apply incl_refl|apply upd_refl|exact E].
Qed.
Lemma upd_exec_setex T d now args : upd (tl args) T d (snd (exec_setex d now args)).
Proof. unfold exec_setex. upd_auto. Qed.
Lemma upd_exec_setnx T d args : upd (tl args) T d (snd (exec_setnx d args)).
Proof. unfold exec_setnx. upd_auto. Qed.
Lemma upd_exec_strlen T d args : upd (tl args) T d (snd (exec_strlen d args)).
Proof. unfold exec_strlen. upd_auto. Qed.
Lemma upd_incr_by K T d k n : In k K -> upd K T d (snd (incr_by d k n)).
Proof. intros I. unfold incr_by. repeat break_match; upd_leaf; assumption. Qed.
Lemma upd_exec_incr T d args : upd (tl args) T d (snd (exec_incr d args)).
Proof. unfold exec_incr. repeat break_match; try apply upd_incr_by; upd_leaf. Qed.
Lemma upd_exec_decr T d args : upd (tl args) T d (snd (exec_decr d args)).
Proof. unfold exec_decr. repeat break_match; try apply upd_incr_by; upd_leaf. Qed.
Lemma upd_exec_incrby T d args : upd (tl args) T d (snd (exec_incrby d args)).
Proof. unfold exec_incrby. repeat break_match; try apply upd_incr_by; upd_leaf. Qed.
Lemma upd_exec_decrby T d args : upd (tl args) T d (snd (exec_decrby d args)).
Proof. unfold exec_decrby. repeat break_match; try apply upd_incr_by; upd_leaf. Qed.
Lemma upd_exec_append T d args : upd (tl args) T d (snd (exec_append d args)).
Proof. unfold exec_append. upd_auto. Qed.

Lemma upd_del_keys K T d l : forall d1 n, incl l K -> upd K T d d1 -> upd K T d (snd (del_keys d1 l n)).
Proof.
  induction l as [|k r IH]; intros d1 n I U; cbn; [exact U|].
  assert (Ik : In k K) by (apply I; left; reflexivity).
  assert (Ir : incl r K) by (intros x Hx; apply I; right; exact Hx).
  destruct (db_get d1 k); apply IH; try assumption; apply upd_del; assumption.
Qed.
Lemma upd_exec_del T d args : upd (tl args) T d (snd (exec_del d args)).
Proof.
  unfold exec_del. destruct args as [|c [|k r]]; try apply upd_refl.
  pose proof (upd_del_keys (k :: r) T d (k :: r) d 0 (incl_refl _) (upd_refl _ _ _)) as U.
  destruct (del_keys d (k :: r) 0). exact U.
Qed.
Lemma upd_exec_exists T d args : upd (tl args) T d (snd (exec_exists d args)).
Proof. unfold exec_exists. upd_auto. Qed.
Lemma upd_exec_keys T d args : upd (tl args) T d (snd (exec_keys d args)).
Proof. unfold exec_keys. upd_auto. Qed.
Lemma upd_exec_expire T d now args : upd (tl args) T d (snd (exec_expire d now args)).
Proof. unfold exec_expire. cbv beta zeta. upd_auto. Qed.
Lemma upd_exec_persist T d args : upd (tl args) T d (snd (exec_persist d args)).
Proof. unfold exec_persist. upd_auto. Qed.
Lemma upd_exec_ttl T d now args : upd (tl args) T d (snd (exec_ttl d now args)).
Proof. unfold exec_ttl. upd_auto. Qed.
Lemma upd_exec_type T d args : upd (tl args) T d (snd (exec_type d args)).
Proof. unfold exec_type. upd_auto. Qed.
Lemma upd_exec_rename T d args : upd (tl args) T d (snd (exec_rename d args)).
Proof. unfold exec_rename. upd_auto. Qed.
Lemma upd_exec_ping T d args : upd (tl args) T d (snd (exec_ping d args)).
Proof. unfold exec_ping. upd_auto. Qed.

Lemma upd_exec_llen T d args : upd (tl args) T d (snd (exec_llen d args)).
Proof. unfold exec_llen. upd_auto. Qed.
Lemma upd_exec_lindex T d args : upd (tl args) T d (snd (exec_lindex d args)).
Proof. unfold exec_lindex. upd_auto. Qed.
Lemma upd_push l c T d args : upd (tl args) T d (snd (push_cmd l c d args)).
Proof. unfold push_cmd. cbv beta zeta. upd_auto. Qed.
Lemma upd_pop l T d args : upd (tl args) T d (snd (pop_cmd l d args)).
Proof. unfold pop_cmd. cbv beta zeta. upd_auto. Qed.
Lemma upd_exec_lset T d args : upd (tl args) T d (snd (exec_lset d args)).
Proof. unfold exec_lset. upd_auto. Qed.
Lemma upd_exec_lrem T d args : upd (tl args) T d (snd (exec_lrem d args)).
Proof. unfold exec_lrem. upd_auto. Qed.
Lemma upd_exec_ltrim T d args : upd (tl args) T d (snd (exec_ltrim d args)).
Proof. unfold exec_ltrim. upd_auto. Qed.
Lemma upd_exec_lrange T d args : upd (tl args) T d (snd (exec_lrange d args)).
Proof. unfold exec_lrange. upd_auto. Qed.
Lemma upd_exec_lpos T d args : upd (tl args) T d (snd (exec_lpos d args)).
Proof. unfold exec_lpos. upd_auto. Qed.
Lemma upd_exec_lmove T d args : upd (tl args) T d (snd (exec_lmove d args)).
Proof. unfold exec_lmove. cbv beta zeta. upd_auto. Qed.

Definition blocking_name (n : bytes) : bool := is n (B "blpop") || is n (B "brpop").
(* the latest clock second a blocked pop can look at: the second of its timer *)
Definition poll_bound (nowms : Z) (args : list bytes) : Z :=
  match bpop_parse args with
  | Some (_, t) => (nowms + block_timer_ms t) / 1000
  | None => nowms / 1000
  end.

Lemma upd_bpop_try l K T d keys : forall d1 r d2, incl keys K -> upd K T d d1 ->
  bpop_try l d1 keys = Some (r, d2) -> upd K T d d2.
Proof.
  induction keys as [|k rr IH]; intros d1 r d2 I U E; cbn in E; [discriminate|].
  assert (Ik : In k K) by (apply I; left; reflexivity).
  assert (Ir : incl rr K) by (intros x Hx; apply I; right; exact Hx).
  destruct (get_list d1 k) as [| |l0]; [eapply IH; eassumption|injection E as _ <-; exact U|].
  destruct l; [destruct l0 as [|x l']|destruct (rev l0) as [|x l']];
    try (eapply IH; eassumption); injection E as _ <-; apply upd_put_list; assumption.
Qed.

Lemma upd_exec_bpop l T d nowms args : poll_bound nowms args <= T ->
  upd (tl args) T d (snd (exec_bpop l d nowms args)).
Proof.
  intros L. destruct (exec_bpop_cases l d nowms args) as [->|(keys & t & i & r & P & Hi & Bd & E)];
    [apply upd_refl|].
  unfold poll_bound in L. rewrite P in L.
  eapply upd_bpop_try; [exact (proj2 (bpop_parse_nonneg args keys t P))| |exact E].
  apply upd_purge; [apply upd_refl|lia].
Qed.

(* [T] bounds the clock seconds at which the command may purge: only a blocking pop looks at the
   clock later than its start *)
Definition family_upd (f : family) : Prop :=
  forall d now nowms n args hint T r d',
    (blocking_name n = true -> poll_bound nowms args <= T) ->
    f d now nowms n args hint = Some (r, d') -> upd (tl args) T d d'.

Ltac family_upd_tac disp :=
  let n := fresh "n" in let d' := fresh "d'" in let E := fresh "E" in
  intros ? ? ? n ? ? ? ? d' _; unfold disp;
  repeat match goal with
  | |- context [if is n ?c then _ else _] => destruct (is n c)
  end; intros E; try discriminate;
  apply (f_equal (option_map snd)) in E; cbn [option_map] in E; injection E as E; subst d';
  try match goal with |- upd _ _ _ (snd ?x) => unfold_exec x end; upd_auto.

Lemma upd_strings : family_upd strings_dispatch.
Proof.
  intros d now nowms n args hint T r d' L. unfold strings_dispatch.
  repeat match goal with
  | |- context [if is n ?c then _ else _] => destruct (is n c)
  end; intros E; try discriminate; injection E as E;
  apply (f_equal snd) in E; cbn [snd] in E; subst d';
  first [ apply upd_exec_set | apply upd_exec_get | apply upd_exec_getrange | apply upd_exec_setrange
        | apply upd_exec_mget | apply upd_exec_mset | apply upd_exec_setex | apply upd_exec_setnx
        | apply upd_exec_strlen | apply upd_exec_incr | apply upd_exec_decr | apply upd_exec_incrby
        | apply upd_exec_decrby | apply upd_exec_append | apply upd_exec_del | apply upd_exec_exists
        | apply upd_exec_keys | apply upd_exec_expire | apply upd_exec_persist | apply upd_exec_ttl
        | apply upd_exec_type | apply upd_exec_rename | apply upd_exec_ping
        | match goal with |- upd _ _ _ (snd ?x) => unfold_exec x end; upd_auto ].
Qed.

Lemma upd_lists : family_upd lists_dispatch.
Proof.
  intros d now nowms n args hint T r d' L. unfold lists_dispatch.
  repeat match goal with
  | |- context [if is n ?c then _ else _] =>
    let Q := fresh "Q" in
    destruct (is n c) eqn:Q; [apply bytes_eqb_eq in Q; subst n|clear Q]
  end; intros E; try discriminate; injection E as E;
  apply (f_equal snd) in E; cbn [snd] in E; subst d';
  first [ apply upd_exec_llen | apply upd_exec_lindex | apply upd_exec_lpos | apply upd_pop
        | apply upd_push | apply upd_exec_lset | apply upd_exec_lrem | apply upd_exec_ltrim
        | apply upd_exec_lrange | apply upd_exec_lmove | apply upd_exec_bpop; apply L; reflexivity ].
Qed.

Lemma upd_hashes : family_upd hashes_dispatch.
Proof. family_upd_tac hashes_dispatch. Qed.
Lemma upd_zsets : family_upd zsets_dispatch.
Proof. family_upd_tac zsets_dispatch. Qed.
Lemma upd_sets : family_upd sets_dispatch.
Proof. family_upd_tac sets_dispatch. Qed.
Lemma upd_streams : family_upd streams_dispatch.
Proof. family_upd_tac streams_dispatch. Qed.

(* one [Forall_cons] per family of [Exec.families] *)
Lemma families_upd : Forall family_upd families.
Proof.
  unfold families.
  apply Forall_cons; [apply upd_strings|].
  apply Forall_cons; [apply upd_lists|].
  apply Forall_cons; [apply upd_hashes|].
  apply Forall_cons; [apply upd_sets|].
  apply Forall_cons; [apply upd_zsets|].
  apply Forall_cons; [apply upd_streams|].
  apply Forall_nil.
Qed.

Lemma upd_dispatch fs : Forall family_upd fs ->
  forall d now nowms n args hint T, (blocking_name n = true -> poll_bound nowms args <= T) ->
    upd (tl args) T d (snd (dispatch fs d now nowms n args hint)).
Proof.
  induction 1 as [|f r Hf Hr IH]; intros d now nowms n args hint T L; cbn; [apply upd_refl|].
  destruct (f d now nowms n args hint) as [[rep d']|] eqn:E; [|apply IH; exact L].
  cbn [snd]. eapply Hf; eassumption.
Qed.

Theorem exec_cmd_upd d now nowms args hint T :
  (blocking_name (cmd_name args) = true -> poll_bound nowms args <= T) ->
  upd (tl args) T d (snd (exec_cmd d now nowms args hint)).
Proof.
  intros L. unfold exec_cmd. destruct args as [|n r]; [apply upd_refl|].
  apply upd_dispatch; [apply families_upd|exact L].
Qed.

(* the last clock second a step looks at: its own, except that BLPOP/BRPOP poll every 100 ms
   until their timer fires *)
Definition step_end (now nowms : Z) (args : list bytes) : Z :=
  if blocking_name (cmd_name args) then Z.max now (poll_bound nowms args) else now.

Theorem exec_upd d now nowms args hint T : step_end now nowms args <= T ->
  upd (tl args) T d (snd (exec d now nowms args hint)).
Proof.
  intros L. unfold step_end in L. unfold exec.
  eapply upd_trans; [apply upd_purge; [apply upd_refl|]|apply exec_cmd_upd].
  - destruct (blocking_name (cmd_name args)); lia.
  - intros Bn. rewrite Bn in L. lia.
Qed.

(* well-formedness is an invariant of every step *)
Theorem exec_wf d now nowms args hint : db_wf d -> db_wf (snd (exec d now nowms args hint)).
Proof.
  intros W. eapply upd_wf; [exact W|].
  apply (exec_upd d now nowms args hint (step_end now nowms args)). apply Z.le_refl.
Qed.

Theorem exec_frame d now nowms args hint k t : db_wf d -> ~ In k (tl args) ->
  step_end now nowms args <= t ->
  view (snd (exec d now nowms args hint)) t k = view d t k.
Proof.
  intros W N L. eapply upd_frame; [exact W| |exact N|apply Z.le_refl].
  apply exec_upd; exact L.
Qed.

Theorem exec_frame_persistent d now nowms args hint k v : db_wf d -> ~ In k (tl args) ->
  raw_view d k = Some (v, None) ->
  raw_view (snd (exec d now nowms args hint)) k = Some (v, None).
Proof.
  intros W N R. eapply upd_frame_persistent; [exact W| |exact N|exact R].
  apply (exec_upd d now nowms args hint (step_end now nowms args)). apply Z.le_refl.
Qed.

(* ================================================================== programs *)
Record step := mkStep { s_now : Z; s_nowms : Z; s_args : list bytes; s_hint : reply }.

Fixpoint run (d : db) (p : list step) : list reply * db :=
  match p with
  | [] => ([], d)
  | s :: r =>
    let '(rep, d1) := exec d (s_now s) (s_nowms s) (s_args s) (s_hint s) in
    let '(reps, d2) := run d1 r in
    (rep :: reps, d2)
  end.

Definition names_key (k : bytes) (s : step) : Prop := In k (tl (s_args s)).

Lemma run_cons d s r :
  run d (s :: r) =
  (fst (exec d (s_now s) (s_nowms s) (s_args s) (s_hint s))
     :: fst (run (snd (exec d (s_now s) (s_nowms s) (s_args s) (s_hint s))) r),
   snd (run (snd (exec d (s_now s) (s_nowms s) (s_args s) (s_hint s))) r)).
Proof.
  cbn. destruct (exec d (s_now s) (s_nowms s) (s_args s) (s_hint s)) as [rep d1].
  cbn [fst snd]. destruct (run d1 r). reflexivity.
Qed.

Lemma run_app d p q :
  run d (p ++ q) = (fst (run d p) ++ fst (run (snd (run d p)) q), snd (run (snd (run d p)) q)).
Proof.
  revert d. induction p as [|s r IH]; intros d.
  - cbn. destruct (run d q); reflexivity.
  - rewrite <- app_comm_cons, !run_cons. cbn [fst snd]. rewrite IH. reflexivity.
Qed.

Theorem run_wf p : forall d, db_wf d -> db_wf (snd (run d p)).
Proof.
  induction p as [|s r IH]; intros d W; [exact W|].
  rewrite run_cons. cbn [snd]. apply IH. apply exec_wf. exact W.
Qed.

(* frame over programs: a key that no command names looks the same afterwards, at every clock
   not earlier than the end of every step *)
Theorem run_frame p k t : forall d, db_wf d ->
  Forall (fun s => ~ names_key k s) p ->
  Forall (fun s => step_end (s_now s) (s_nowms s) (s_args s) <= t) p ->
  view (snd (run d p)) t k = view d t k.
Proof.
  induction p as [|s r IH]; intros d W N L; [reflexivity|].
  rewrite run_cons. cbn [snd]. inversion N; subst. inversion L; subst.
  rewrite IH by (try apply exec_wf; assumption).
  apply exec_frame; assumption.
Qed.

Theorem run_frame_persistent p k v : forall d, db_wf d ->
  Forall (fun s => ~ names_key k s) p ->
  raw_view d k = Some (v, None) ->
  raw_view (snd (run d p)) k = Some (v, None).
Proof.
  induction p as [|s r IH]; intros d W N R; [exact R|].
  rewrite run_cons. cbn [snd]. inversion N; subst.
  apply IH; [apply exec_wf; exact W|assumption|].
  apply exec_frame_persistent; assumption.
Qed.

(* a key without deadline is visible at every clock *)
Lemma view_persistent d k v now : raw_view d k = Some (v, None) -> view d now k = Some (v, None).
Proof.
  unfold raw_view, view, expired. destruct (db_get d k); [|discriminate].
  intros E. injection E as -> E. rewrite E. reflexivity.
Qed.

(* ---- an expired key is indistinguishable from a deleted one ---- *)
Definition veq_from (t : Z) (d1 d2 : db) : Prop :=
  forall now, t <= now -> forall k, view d1 now k = view d2 now k.

Lemma eqv_veq_from t a b : db_eqv a b -> veq_from t a b.
Proof. intros H now _ k. apply eqv_view. exact H. Qed.

Definition step_rel (s : step) (r1 r2 : reply) : Prop :=
  if is_keys (cmd_name (s_args s)) then reply_perm r1 r2 else r1 = r2.

Fixpoint replies_rel (p : list step) (l1 l2 : list reply) : Prop :=
  match p, l1, l2 with
  | [], [], [] => True
  | s :: p', r1 :: l1', r2 :: l2' => step_rel s r1 r2 /\ replies_rel p' l1' l2'
  | _, _, _ => False
  end.

Theorem run_veq t p : forall d1 d2, db_wf d1 -> db_wf d2 -> veq_from t d1 d2 ->
  Forall (fun s => t <= s_now s) p ->
  replies_rel p (fst (run d1 p)) (fst (run d2 p)) /\ veq_from t (snd (run d1 p)) (snd (run d2 p)).
Proof.
  induction p as [|s r IH]; intros d1 d2 W1 W2 V C; [split; [exact I|exact V]|].
  rewrite !run_cons. cbn [fst snd replies_rel]. inversion C as [|? ? Cs Cr]; subst.
  destruct (exec_view_determined d1 d2 (s_now s) (s_nowms s) (s_args s) (s_hint s) W1 W2
              (V (s_now s) Cs)) as [Hr He].
  destruct (IH _ _ (exec_wf d1 _ _ _ _ W1) (exec_wf d2 _ _ _ _ W2) (eqv_veq_from t _ _ He) Cr) as [R1 R2].
  split; [split; [exact Hr|exact R1]|exact R2].
Qed.

Lemma veq_from_del_expired d k t : db_wf d -> db_ttl d k = Some t -> veq_from t d (db_del d k).
Proof.
  intros W E now L k0. unfold view, expired. rewrite db_get_del, db_ttl_del.
  destruct (bytes_eqb_spec k0 k) as [->|N]; [|reflexivity].
  rewrite E. replace (t <=? now) with true by (symmetry; apply Z.leb_le; exact L).
  destruct (db_get d k); reflexivity.
Qed.

(* ================================================================== Part 3: deadlines *)
(* ---- 3a: commands that never touch a deadline ---- *)
(* every key still present has the deadline it had (none if it did not exist: see [keep_view]) *)
Definition ttl_keep (d d' : db) : Prop :=
  forall k, db_get d' k = None \/ db_ttl d' k = db_ttl d k.

Lemma keep_refl d : ttl_keep d d.
Proof. intros k; right; reflexivity. Qed.
Lemma keep_set_after d d1 k v : ttl_keep d d1 -> db_get d1 k <> None -> ttl_keep d (db_set d1 k v).
Proof.
  intros H G k0. rewrite db_get_set, db_ttl_set. destruct (bytes_eqb_spec k0 k) as [->|N].
  - right. destruct (H k) as [E|E]; [contradiction|exact E].
  - apply H.
Qed.
Lemma keep_set_same d k v : ttl_keep d (db_set d k v).
Proof. intros k0. right. apply db_ttl_set. Qed.
Lemma keep_del_after d d1 k : ttl_keep d d1 -> ttl_keep d (db_del d1 k).
Proof.
  intros H k0. rewrite db_get_del, db_ttl_del. destruct (bytes_eqb_spec k0 k) as [->|N].
  - left; reflexivity.
  - apply H.
Qed.
Lemma keep_del d k : ttl_keep d (db_del d k).
Proof. apply keep_del_after, keep_refl. Qed.
Lemma keep_put_list d k l : ttl_keep d (put_list d k l).
Proof. destruct l; cbn; [apply keep_del|apply keep_set_same]. Qed.
Lemma keep_put_list_after d d1 k l : ttl_keep d d1 -> db_get d1 k <> None -> ttl_keep d (put_list d1 k l).
Proof. intros H G. destruct l; cbn; [apply keep_del_after|apply keep_set_after]; assumption. Qed.
Lemma keep_purge d t : db_wf d -> ttl_keep d (purge d t).
Proof.
  intros W k. rewrite db_get_purge, db_ttl_purge by exact W.
  destruct (expired d t k); [left|right]; reflexivity.
Qed.
Lemma keep_lmove d src dst l v : src <> dst -> ttl_keep d (db_set (put_list d src l) dst v).
Proof.
  intros N k. rewrite db_get_set, db_ttl_set, put_list_cases.
  destruct (bytes_eqb_spec k dst) as [->|Nk].
  - right. destruct l; [rewrite db_ttl_del|rewrite db_ttl_set]; try reflexivity.
    destruct (bytes_eqb_spec dst src); [congruence|reflexivity].
  - destruct l; [rewrite db_get_del, db_ttl_del|rewrite db_get_set, db_ttl_set].
    + destruct (bytes_eqb k src); [left|right]; reflexivity.
    + right; reflexivity.
Qed.

(* two keys written by one command (LMOVE, SMOVE): the first may be deleted when emptied *)
Lemma keep_set_del d src dst v : src <> dst -> ttl_keep d (db_set (db_del d src) dst v).
Proof. intros N. apply (keep_lmove d src dst [] v N). Qed.
Lemma keep_set_set d src dst v1 v2 : ttl_keep d (db_set (db_set d src v1) dst v2).
Proof. intros k. right. reflexivity. Qed.

Ltac keep_leaf :=
  cbn [snd];
  first [ apply keep_refl | apply keep_set_same | apply keep_del | apply keep_put_list
        | apply keep_set_set | apply keep_set_del; apply bytes_eqb_neq; assumption ].
Ltac keep_auto := repeat break_match; keep_leaf.

Lemma keep_get d args : ttl_keep d (snd (exec_get d args)).
Proof. unfold exec_get. keep_auto. Qed.
Lemma keep_getrange d args : ttl_keep d (snd (exec_getrange d args)).
Proof. unfold exec_getrange. keep_auto. Qed.
Lemma keep_setrange d args : ttl_keep d (snd (exec_setrange d args)).
Proof. unfold exec_setrange. keep_auto. Qed.
Lemma keep_mget d args : ttl_keep d (snd (exec_mget d args)).
Proof. unfold exec_mget. keep_auto. Qed.
Lemma keep_setnx d args : ttl_keep d (snd (exec_setnx d args)).
Proof. unfold exec_setnx. keep_auto. Qed.
Lemma keep_strlen d args : ttl_keep d (snd (exec_strlen d args)).
Proof. unfold exec_strlen. keep_auto. Qed.
Lemma keep_incr_by d k n : ttl_keep d (snd (incr_by d k n)).
Proof. unfold incr_by. keep_auto. Qed.
Lemma keep_incr d args : ttl_keep d (snd (exec_incr d args)).
Proof. unfold exec_incr. repeat break_match; try apply keep_incr_by; keep_leaf. Qed.
Lemma keep_decr d args : ttl_keep d (snd (exec_decr d args)).
Proof. unfold exec_decr. repeat break_match; try apply keep_incr_by; keep_leaf. Qed.
Lemma keep_incrby d args : ttl_keep d (snd (exec_incrby d args)).
Proof. unfold exec_incrby. repeat break_match; try apply keep_incr_by; keep_leaf. Qed.
Lemma keep_decrby d args : ttl_keep d (snd (exec_decrby d args)).
Proof. unfold exec_decrby. repeat break_match; try apply keep_incr_by; keep_leaf. Qed.
Lemma keep_append d args : ttl_keep d (snd (exec_append d args)).
Proof. unfold exec_append. keep_auto. Qed.
Lemma keep_del_keys d l : forall d1 n, ttl_keep d d1 -> ttl_keep d (snd (del_keys d1 l n)).
Proof.
  induction l as [|k r IH]; intros d1 n H; cbn; [exact H|].
  destruct (db_get d1 k); apply IH; apply keep_del_after; exact H.
Qed.
Lemma keep_exec_del d args : ttl_keep d (snd (exec_del d args)).
Proof.
  unfold exec_del. destruct args as [|c [|k r]]; try apply keep_refl.
  pose proof (keep_del_keys d (k :: r) d 0 (keep_refl d)) as U.
  destruct (del_keys d (k :: r) 0). exact U.
Qed.
Lemma keep_exists d args : ttl_keep d (snd (exec_exists d args)).
Proof. unfold exec_exists. keep_auto. Qed.
Lemma keep_keys d args : ttl_keep d (snd (exec_keys d args)).
Proof. unfold exec_keys. keep_auto. Qed.
Lemma keep_ttl d now args : ttl_keep d (snd (exec_ttl d now args)).
Proof. unfold exec_ttl. keep_auto. Qed.
Lemma keep_type d args : ttl_keep d (snd (exec_type d args)).
Proof. unfold exec_type. keep_auto. Qed.
Lemma keep_ping d args : ttl_keep d (snd (exec_ping d args)).
Proof. unfold exec_ping. keep_auto. Qed.

Lemma keep_llen d args : ttl_keep d (snd (exec_llen d args)).
Proof. unfold exec_llen. keep_auto. Qed.
Lemma keep_lindex d args : ttl_keep d (snd (exec_lindex d args)).
Proof. unfold exec_lindex. keep_auto. Qed.
Lemma keep_push l c d args : ttl_keep d (snd (push_cmd l c d args)).
Proof. unfold push_cmd. cbv beta zeta. keep_auto. Qed.
Lemma keep_pop l d args : ttl_keep d (snd (pop_cmd l d args)).
Proof. unfold pop_cmd. cbv beta zeta. keep_auto. Qed.
Lemma keep_lset d args : ttl_keep d (snd (exec_lset d args)).
Proof. unfold exec_lset. keep_auto. Qed.
Lemma keep_lrem d args : ttl_keep d (snd (exec_lrem d args)).
Proof. unfold exec_lrem. keep_auto. Qed.
Lemma keep_ltrim d args : ttl_keep d (snd (exec_ltrim d args)).
Proof. unfold exec_ltrim. keep_auto. Qed.
Lemma keep_lrange d args : ttl_keep d (snd (exec_lrange d args)).
Proof. unfold exec_lrange. keep_auto. Qed.
Lemma keep_lpos d args : ttl_keep d (snd (exec_lpos d args)).
Proof. unfold exec_lpos. keep_auto. Qed.
Lemma keep_exec_lmove d args : ttl_keep d (snd (exec_lmove d args)).
Proof.
  unfold exec_lmove. cbv beta zeta. repeat break_match; try keep_leaf;
    cbn [snd]; apply keep_lmove; apply bytes_eqb_neq; assumption.
Qed.

Lemma get_list_found_get d k l : get_list d k = LFound l -> db_get d k <> None.
Proof. unfold get_list. destruct (db_get d k); [discriminate|intros; discriminate]. Qed.

Lemma keep_bpop_try l d keys : forall d1 r d2, ttl_keep d d1 ->
  bpop_try l d1 keys = Some (r, d2) -> ttl_keep d d2.
Proof.
  induction keys as [|k rr IH]; intros d1 r d2 H E; cbn in E; [discriminate|].
  destruct (get_list d1 k) as [| |l0] eqn:G; [eapply IH; eassumption|injection E as _ <-; exact H|].
  pose proof (get_list_found_get _ _ _ G) as NG.
  destruct l; [destruct l0 as [|x l']|destruct (rev l0) as [|x l']];
    try (eapply IH; eassumption); injection E as _ <-; apply keep_put_list_after; assumption.
Qed.
Lemma keep_bpop l d nowms args : db_wf d -> ttl_keep d (snd (exec_bpop l d nowms args)).
Proof.
  intros W. destruct (exec_bpop_cases l d nowms args) as [->|(keys & t & i & r & P & Hi & Bd & E)];
    [apply keep_refl|].
  eapply keep_bpop_try; [|exact E]. apply keep_purge. exact W.
Qed.

(* the commands that may install, replace or remove a deadline *)
Definition ttl_changers : list bytes :=
  [B "set"; B "mset"; B "setex"; B "expire"; B "persist"; B "rename";
   B "sunionstore"; B "sinterstore"; B "sdiffstore"].
Definition changes_ttl (n : bytes) : bool := existsb (bytes_eqb n) ttl_changers.

Definition family_keep (f : family) : Prop :=
  forall d now nowms n args hint r d', db_wf d -> changes_ttl n = false ->
    f d now nowms n args hint = Some (r, d') -> ttl_keep d d'.

Lemma keep_strings : family_keep strings_dispatch.
Proof.
  intros d now nowms n args hint r d' W C. unfold strings_dispatch.
  repeat match goal with
  | |- context [if is n ?c then _ else _] =>
    let E := fresh "E" in
    destruct (is n c) eqn:E;
    [ apply bytes_eqb_eq in E; subst n; try discriminate C | clear E ]
  end; intros E; try discriminate; injection E as E;
  apply (f_equal snd) in E; cbn [snd] in E; subst d';
  first [ apply keep_get | apply keep_getrange | apply keep_setrange | apply keep_mget
        | apply keep_setnx | apply keep_strlen | apply keep_incr | apply keep_decr | apply keep_incrby
        | apply keep_decrby | apply keep_append | apply keep_exec_del | apply keep_exists
        | apply keep_keys | apply keep_ttl | apply keep_type | apply keep_ping
        | match goal with |- ttl_keep _ (snd ?x) => unfold_exec x end; keep_auto ].
Qed.

Lemma keep_lists : family_keep lists_dispatch.
Proof.
  intros d now nowms n args hint r d' W C. unfold lists_dispatch.
  repeat match goal with
  | |- context [if is n ?c then _ else _] => destruct (is n c)
  end; intros E; try discriminate; injection E as E;
  apply (f_equal snd) in E; cbn [snd] in E; subst d';
  first [ apply keep_llen | apply keep_lindex | apply keep_lpos | apply keep_pop
        | apply keep_push | apply keep_lset | apply keep_lrem | apply keep_ltrim
        | apply keep_lrange | apply keep_exec_lmove | apply keep_bpop; exact W ].
Qed.

Ltac family_keep_tac disp :=
  let n := fresh "n" in let d' := fresh "d'" in let E := fresh "E" in let C := fresh "C" in
  intros ? ? ? n ? ? ? d' _ C; unfold disp;
  repeat match goal with
  | |- context [if is n ?c then _ else _] =>
    let Q := fresh "Q" in
    destruct (is n c) eqn:Q; [apply bytes_eqb_eq in Q; subst n; try discriminate C|clear Q]
  end; intros E; try discriminate;
  apply (f_equal (option_map snd)) in E; cbn [option_map] in E; injection E as E; subst d';
  try match goal with |- ttl_keep _ (snd ?x) => unfold_exec x end; keep_auto.

Lemma keep_hashes : family_keep hashes_dispatch.
Proof. family_keep_tac hashes_dispatch. Qed.
Lemma keep_zsets : family_keep zsets_dispatch.
Proof. family_keep_tac zsets_dispatch. Qed.
Lemma keep_sets : family_keep sets_dispatch.
Proof. family_keep_tac sets_dispatch. Qed.
Lemma keep_streams : family_keep streams_dispatch.
Proof. family_keep_tac streams_dispatch. Qed.

(* one [Forall_cons] per family of [Exec.families] *)
Lemma families_keep : Forall family_keep families.
Proof.
  unfold families.
  apply Forall_cons; [apply keep_strings|].
  apply Forall_cons; [apply keep_lists|].
  apply Forall_cons; [apply keep_hashes|].
  apply Forall_cons; [apply keep_sets|].
  apply Forall_cons; [apply keep_zsets|].
  apply Forall_cons; [apply keep_streams|].
  apply Forall_nil.
Qed.

Lemma keep_dispatch fs : Forall family_keep fs ->
  forall d now nowms n args hint, db_wf d -> changes_ttl n = false ->
    ttl_keep d (snd (dispatch fs d now nowms n args hint)).
Proof.
  induction 1 as [|f r Hf Hr IH]; intros d now nowms n args hint W C; cbn; [apply keep_refl|].
  destruct (f d now nowms n args hint) as [[rep d']|] eqn:E; [|apply IH; assumption].
  cbn [snd]. eapply Hf; eassumption.
Qed.

Theorem exec_cmd_keep d now nowms args hint : db_wf d -> changes_ttl (cmd_name args) = false ->
  ttl_keep d (snd (exec_cmd d now nowms args hint)).
Proof.
  intros W C. unfold exec_cmd. destruct args as [|n r]; [apply keep_refl|].
  apply keep_dispatch; [apply families_keep|exact W|exact C].
Qed.

Definition deadline_of (o : option (value * option Z)) : option Z :=
  match o with Some (_, t) => t | None => None end.

(* Unless the command is SET, MSET, SETEX, EXPIRE, PERSIST or RENAME: every key present after
   the step has exactly the deadline it had in the view before it; a key the step created has
   none. *)
Theorem exec_keeps_deadlines d now nowms args hint k v' t' : db_wf d ->
  changes_ttl (cmd_name args) = false ->
  raw_view (snd (exec d now nowms args hint)) k = Some (v', t') ->
  t' = deadline_of (view d now k).
Proof.
  intros W C R. unfold exec in R.
  pose proof (exec_cmd_keep (purge d now) now nowms args hint (db_wf_purge d now W) C k) as [G|T];
    unfold raw_view in R.
  - rewrite G in R. discriminate.
  - destruct (db_get (snd (exec_cmd (purge d now) now nowms args hint)) k); [|discriminate].
    injection R as _ R. rewrite <- R, T, <- (raw_view_purge d now k W). unfold raw_view, deadline_of.
    destruct (db_get (purge d now) k) eqn:G; [reflexivity|].
    apply wf_ttl_none; [apply db_wf_purge; exact W|exact G].
Qed.

(* ---- 3b: the commands that change deadlines ---- *)
(* unfolding a step whose command name is known *)
Lemma exec_unfold d now nowms c rest hint :
  exec d now nowms (c :: rest) hint =
  dispatch families (purge d now) now nowms (lower c) (c :: rest) hint.
Proof. reflexivity. Qed.

Ltac exec_named E :=
  rewrite exec_unfold, E; cbv beta iota delta [dispatch families strings_dispatch lists_dispatch];
  repeat match goal with
  | |- context [is ?a ?b] =>
    let v := eval vm_compute in (is a b) in change (is a b) with v; cbv iota
  end.

(* TTL: -2 for a key that is not visible, -1 without deadline, else the remaining seconds *)
Theorem exec_ttl_reply d now nowms c k hint : db_wf d -> lower c = B "ttl" ->
  exec d now nowms [c; k] hint =
  (RInt (match view d now k with
         | None => -2
         | Some (_, None) => -1
         | Some (_, Some t) => t - now
         end), purge d now).
Proof.
  intros W E. exec_named E. unfold exec_ttl.
  rewrite <- (raw_view_purge d now k W). unfold raw_view.
  destruct (db_get (purge d now) k); [|reflexivity].
  destruct (db_ttl (purge d now) k); reflexivity.
Qed.

(* a key is visible exactly before its deadline *)
Lemma view_live d now k v t : db_get d k = Some v -> db_ttl d k = Some t -> now < t ->
  view d now k = Some (v, Some t).
Proof.
  intros G T L. unfold view, expired. rewrite G, T.
  replace (t <=? now) with false by (symmetry; apply Z.leb_gt; exact L). reflexivity.
Qed.
Lemma view_dead d now k t : db_ttl d k = Some t -> t <= now -> view d now k = None.
Proof.
  intros T L. unfold view, expired. rewrite T.
  replace (t <=? now) with true by (symmetry; apply Z.leb_le; exact L).
  destruct (db_get d k); reflexivity.
Qed.
Lemma view_nodeadline d now k v : db_get d k = Some v -> db_ttl d k = None ->
  view d now k = Some (v, None).
Proof. intros G T. unfold view, expired. rewrite G, T. reflexivity. Qed.

(* ---- SET ---- *)
(* the deadline SET leaves on the key, given the parsed options and the deadline the key had:
   EXAT n -> n; PX n -> now + ceil(n/1000); EX n -> now + n; KEEPTTL -> unchanged; else none *)
Definition set_deadline (now : Z) (o : setopts) (cur : option Z) : option Z :=
  match o_exat o with Some n => Some n | None =>
  match o_px o with Some n => Some (now + (n + 999) / 1000) | None =>
  match o_ex o with Some n => Some (now + n) | None =>
  if o_keepttl o then cur else None end end end.

Lemma set_apply_ttl_view p now k o v : db_get p k = Some v ->
  raw_view (set_apply_ttl p now k o) k = Some (v, set_deadline now o (db_ttl p k)).
Proof.
  intros G. unfold set_apply_ttl, set_deadline, raw_view.
  destruct (o_exat o), (o_px o), (o_ex o), (o_keepttl o);
    repeat (rewrite ?db_get_set_ttl, ?db_ttl_set_ttl, ?db_get_del_ttl, ?db_ttl_del_ttl, ?G,
            ?bytes_eqb_refl; cbn [isSome andb]); reflexivity.
Qed.

Lemma set_apply_ttl_other p now k o k0 : k0 <> k ->
  raw_view (set_apply_ttl p now k o) k0 = raw_view p k0.
Proof.
  intros N. apply bytes_eqb_neq in N. unfold set_apply_ttl, raw_view.
  destruct (o_exat o), (o_px o), (o_ex o), (o_keepttl o);
    repeat (rewrite ?db_get_set_ttl, ?db_ttl_set_ttl, ?db_get_del_ttl, ?db_ttl_del_ttl, ?N,
            ?andb_false_r); reflexivity.
Qed.

(* the view of the key decides whether SET writes: NX needs it absent, XX present *)
Definition set_writes (o : setopts) (cur : option (value * option Z)) : Prop :=
  match cur with
  | None => o_xx o = false
  | Some (VStr _, _) => o_nx o = false
  | Some _ => o_get o = false /\ o_nx o = false    (* a value of another type is overwritten; GET needs a string *)
  end.
Definition set_reply (o : setopts) (cur : option (value * option Z)) : reply :=
  if o_get o then match cur with Some (VStr old, _) => RBulk old | _ => RNil end else rOK.

Theorem exec_set_writes d now nowms c k v opts o hint : db_wf d -> lower c = B "set" ->
  set_parse opts setopts0 = Some o ->
  set_conflict o || ex_overflow now (o_ex o) = false ->
  set_writes o (view d now k) ->
  let res := exec d now nowms (c :: k :: v :: opts) hint in
  fst res = set_reply o (view d now k) /\
  raw_view (snd res) k = Some (VStr v, set_deadline now o (deadline_of (view d now k))) /\
  forall k0, k0 <> k -> raw_view (snd res) k0 = view d now k0.
Proof.
  intros W E P C S. cbv zeta. exec_named E. unfold exec_set. rewrite P, C.
  unfold set_writes, set_reply in *. rewrite <- !(raw_view_purge d now k W) in *.
  set (p := purge d now) in *.
  assert (F : forall k0, k0 <> k ->
            raw_view (set_apply_ttl (db_set p k (VStr v)) now k o) k0 = view d now k0).
  { intros k0 N. rewrite set_apply_ttl_other by exact N. rewrite raw_view_set_other by exact N.
    apply raw_view_purge. exact W. }
  assert (V : forall cur, db_ttl p k = cur ->
            raw_view (set_apply_ttl (db_set p k (VStr v)) now k o) k =
            Some (VStr v, set_deadline now o cur)).
  { intros cur <-. rewrite (set_apply_ttl_view _ now k o (VStr v)); [reflexivity|].
    rewrite db_get_set, bytes_eqb_refl. reflexivity. }
  assert (RV : raw_view p k = match db_get p k with None => None | Some v => Some (v, db_ttl p k) end)
    by reflexivity.
  rewrite RV in *. clear RV. unfold deadline_of.
  destruct (db_get p k) as [[old| | | | |]|] eqn:G;
    try (destruct S as [S1 S2]; rewrite S1, S2; cbn [fst snd];
         split; [reflexivity|]; split; [apply V; reflexivity|exact F]).
  - rewrite S. cbn [fst snd]. split; [destruct (o_get o); reflexivity|]. split; [apply V; reflexivity|exact F].
  - rewrite S. cbn [fst snd]. split; [destruct (o_get o); reflexivity|]. split; [|exact F].
    apply V. apply wf_ttl_none; [apply db_wf_purge; exact W|exact G].
Qed.

(* condition not met (NX on a visible key, XX on an invisible one; GET on a key of another type),
   or an argument error: nothing is written and no deadline changes *)
Theorem exec_set_skips d now nowms c k v opts hint : db_wf d -> lower c = B "set" ->
  (forall o, set_parse opts setopts0 = Some o ->
             set_conflict o || ex_overflow now (o_ex o) = false -> ~ set_writes o (view d now k)) ->
  snd (exec d now nowms (c :: k :: v :: opts) hint) = purge d now.
Proof.
  intros W E H. exec_named E. unfold exec_set.
  destruct (set_parse opts setopts0) as [o|] eqn:P; [|reflexivity].
  destruct (set_conflict o || ex_overflow now (o_ex o)) eqn:C; [reflexivity|].
  specialize (H o eq_refl C). unfold set_writes in H.
  rewrite <- (raw_view_purge d now k W) in H. unfold raw_view in H.
  destruct (db_get (purge d now) k) as [[old| | | | |]|];
    try (destruct (o_get o); [reflexivity|]; destruct (o_nx o); [reflexivity|];
         exfalso; apply H; split; reflexivity).
  - destruct (o_nx o); [reflexivity|]. exfalso; apply H; reflexivity.
  - destruct (o_xx o); [reflexivity|]. exfalso; apply H; reflexivity.
Qed.

(* PX: the deadline second is the one containing now_ms + n, or the one after it *)
Lemma px_deadline_granularity nowms n :
  0 < n ->
  (nowms + n) / 1000 <= nowms / 1000 + (n + 999) / 1000 <= (nowms + n) / 1000 + 1.
Proof.
  intros Hn.
  pose proof (Z.div_mod nowms 1000 ltac:(lia)) as D1.
  pose proof (Z.mod_pos_bound nowms 1000 ltac:(lia)) as B1.
  pose proof (Z.div_mod n 1000 ltac:(lia)) as D2.
  pose proof (Z.mod_pos_bound n 1000 ltac:(lia)) as B2.
  set (a := nowms / 1000) in *. set (r := nowms mod 1000) in *.
  set (q := n / 1000) in *. set (s := n mod 1000) in *.
  assert (E1 : (n + 999) / 1000 = q + (if s =? 0 then 0 else 1)).
  { destruct (s =? 0) eqn:Z0.
    - apply Z.eqb_eq in Z0. symmetry. apply (Z.div_unique (n + 999) 1000 (q + 0) 999); lia.
    - apply Z.eqb_neq in Z0. symmetry. apply (Z.div_unique (n + 999) 1000 (q + 1) (s - 1)); lia. }
  assert (E2 : (nowms + n) / 1000 = a + q + (if r + s <? 1000 then 0 else 1)).
  { destruct (r + s <? 1000) eqn:Z1.
    - apply Z.ltb_lt in Z1. symmetry. apply (Z.div_unique (nowms + n) 1000 (a + q + 0) (r + s)); lia.
    - apply Z.ltb_ge in Z1. symmetry. apply (Z.div_unique (nowms + n) 1000 (a + q + 1) (r + s - 1000)); lia. }
  rewrite E1, E2. destruct (Z.eqb_spec s 0), (Z.ltb_spec (r + s) 1000); lia.
Qed.

(* ---- MSET: every key written ends up a string without deadline ---- *)
Fixpoint pair_keys (l : list bytes) : list bytes :=
  match l with k :: _ :: r => k :: pair_keys r | _ => [] end.

Lemma mset_pairs_plain_n n : forall (l : list bytes) d d', (List.length l <= n)%nat ->
  mset_pairs d l = Some d' ->
  forall k, (In k (pair_keys l) \/ (db_ttl d k = None /\ exists v, db_get d k = Some (VStr v))) ->
            db_ttl d' k = None /\ exists v, db_get d' k = Some (VStr v).
Proof.
  induction n as [|n IH]; intros l d d' L E k H; destruct l as [|k1 [|v1 r]]; cbn in *;
    try discriminate; try lia.
  - injection E as <-. destruct H as [[]|H]; exact H.
  - injection E as <-. destruct H as [[]|H]; exact H.
  - eapply (IH r); [lia|exact E|].
    destruct (bytes_eqb_spec k k1) as [->|N].
    + right. rewrite db_ttl_set, db_ttl_del_ttl, db_get_set, !bytes_eqb_refl. eauto.
    + destruct H as [[H|H]|[H1 [v H2]]]; [congruence|left; exact H|right].
      rewrite db_ttl_set, db_ttl_del_ttl, db_get_set, db_get_del_ttl.
      destruct (bytes_eqb_spec k k1); [contradiction|]. eauto.
Qed.

Theorem exec_mset_plain d now nowms c kvs hint k : db_wf d -> lower c = B "mset" ->
  fst (exec d now nowms (c :: kvs) hint) = rOK ->
  In k (pair_keys kvs) ->
  exists v, raw_view (snd (exec d now nowms (c :: kvs) hint)) k = Some (VStr v, None).
Proof.
  intros W E. exec_named E. unfold exec_mset.
  destruct kvs as [|k1 [|v1 r]]; try discriminate.
  destruct (mset_pairs (purge d now) (k1 :: v1 :: r)) as [d'|] eqn:M; [|discriminate].
  intros _ I. cbn [snd].
  destruct (mset_pairs_plain_n _ _ _ _ (le_n _) M k (or_introl I)) as [T [v G]].
  exists v. unfold raw_view. rewrite G, T. reflexivity.
Qed.

(* ---- SETEX ---- *)
Theorem exec_setex_deadline d now nowms c k secs v n hint : db_wf d -> lower c = B "setex" ->
  atoi64 secs = Some n -> 0 < n -> in_int64 (now + n) = true ->
  let res := exec d now nowms [c; k; secs; v] hint in
  fst res = rOK /\ raw_view (snd res) k = Some (VStr v, Some (now + n)) /\
  forall k0, k0 <> k -> raw_view (snd res) k0 = view d now k0.
Proof.
  intros W E A P I. cbv zeta. exec_named E. unfold exec_setex. rewrite A, I.
  replace (n <=? 0) with false by (symmetry; apply Z.leb_gt; exact P). cbn [orb negb fst snd].
  split; [reflexivity|]. split.
  - unfold raw_view. rewrite db_get_set_ttl, db_ttl_set_ttl, !db_get_set, !bytes_eqb_refl. reflexivity.
  - intros k0 N. rewrite <- (raw_view_purge d now k0 W). unfold raw_view.
    rewrite db_get_set_ttl, db_ttl_set_ttl, db_get_set, db_ttl_set.
    apply bytes_eqb_neq in N. rewrite N, andb_false_r. reflexivity.
Qed.

(* ---- EXPIRE ---- *)
Inductive expopt := ENone | ENX | EXX | EGT | ELT.
Definition parse_expopt (rest : list bytes) : option expopt :=
  match rest with
  | [] => Some ENone
  | [o] => let o := lower o in
           if is o (B "nx") then Some ENX else if is o (B "xx") then Some EXX
           else if is o (B "gt") then Some EGT else if is o (B "lt") then Some ELT else None
  | _ => None
  end.

(* the stated condition of each option; [cur] = the deadline the key has now (None = none, which
   counts as infinitely far away for GT and LT), [t] = the requested deadline *)
Definition expire_applies (e : expopt) (cur : option Z) (t : Z) : bool :=
  match e, cur with
  | ENone, _ => true
  | ENX, None => true   | ENX, Some _ => false
  | EXX, None => false  | EXX, Some _ => true
  | EGT, None => false  | EGT, Some c => t >? c
  | ELT, None => true   | ELT, Some c => t <? c
  end.

Lemma lower_lower_lit o lit : lower o = lit -> is (lower o) lit = true.
Proof. intros ->. apply bytes_eqb_refl. Qed.

Theorem exec_expire_spec d now nowms c k v n rest e hint : db_wf d -> lower c = B "expire" ->
  atoi64 v = Some n -> in_int64 (now + n) = true -> parse_expopt rest = Some e ->
  let res := exec d now nowms (c :: k :: v :: rest) hint in
  match view d now k with
  | Some (val, cur) =>
    if expire_applies e cur (now + n)
    then fst res = RInt 1 /\ raw_view (snd res) k = Some (val, Some (now + n)) /\
         forall k0, k0 <> k -> raw_view (snd res) k0 = view d now k0
    else res = (RInt 0, purge d now)
  | None => res = (RInt 0, purge d now)
  end.
Proof.
  intros W E A I P. cbv zeta. exec_named E. unfold exec_expire. cbv beta zeta.
  rewrite <- (raw_view_purge d now k W). set (p := purge d now).
  assert (S : forall val, db_get p k = Some val ->
     raw_view (db_set_ttl p k (now + n)) k = Some (val, Some (now + n)) /\
     forall k0, k0 <> k -> raw_view (db_set_ttl p k (now + n)) k0 = view d now k0).
  { intros val G. split.
    - unfold raw_view. rewrite db_get_set_ttl, db_ttl_set_ttl, G, bytes_eqb_refl. reflexivity.
    - intros k0 N. rewrite <- (raw_view_purge d now k0 W). unfold raw_view.
      rewrite db_get_set_ttl, db_ttl_set_ttl. apply bytes_eqb_neq in N. rewrite N, andb_false_r.
      reflexivity. }
  unfold parse_expopt in P.
  destruct rest as [|o [|x r]]; [| |discriminate].
  - injection P as <-. rewrite A, I. cbn [negb is bytes_eqb].
    unfold raw_view. destruct (db_get p k) as [val|] eqn:G; cbn [isSome expire_applies fst snd].
    + destruct (S val eq_refl) as [S1 S2]. split; [reflexivity|]. split; assumption.
    + reflexivity.
  - rewrite A, I. cbn [negb]. cbv zeta in P.
    assert (Hn : is (lower o) [] = false).
    { destruct (lower o) eqn:L; [|reflexivity]. vm_compute in P. discriminate. }
    rewrite Hn.
    unfold raw_view. destruct (db_get p k) as [val|] eqn:G; cbn [isSome fst snd].
    + destruct (S val eq_refl) as [S1 S2].
      destruct (is (lower o) (B "nx")); [injection P as <-|
      destruct (is (lower o) (B "xx")); [injection P as <-|
      destruct (is (lower o) (B "gt")); [injection P as <-|
      destruct (is (lower o) (B "lt")); [injection P as <-|discriminate]]]];
      destruct (db_ttl p k) as [cur|]; cbn [expire_applies];
      try destruct (now + n >? cur); try destruct (now + n <? cur);
      try reflexivity; (split; [reflexivity|]; split; assumption).
    + destruct (is (lower o) (B "nx")); [destruct (db_ttl p k); reflexivity|].
      destruct (is (lower o) (B "xx")); [destruct (db_ttl p k); reflexivity|].
      destruct (is (lower o) (B "gt")); [destruct (db_ttl p k) as [cur|]; [destruct (now + n >? cur)|]; reflexivity|].
      destruct (is (lower o) (B "lt")); [destruct (db_ttl p k) as [cur|]; [destruct (now + n <? cur)|]; reflexivity|].
      discriminate.
Qed.

(* ---- PERSIST ---- *)
Theorem exec_persist_spec d now nowms c k hint : db_wf d -> lower c = B "persist" ->
  let res := exec d now nowms [c; k] hint in
  match view d now k with
  | Some (val, Some t) =>
    fst res = RInt 1 /\ raw_view (snd res) k = Some (val, None) /\
    forall k0, k0 <> k -> raw_view (snd res) k0 = view d now k0
  | _ => res = (RInt 0, purge d now)
  end.
Proof.
  intros W E. cbv zeta. exec_named E. unfold exec_persist.
  rewrite <- (raw_view_purge d now k W). set (p := purge d now). unfold raw_view.
  destruct (db_get p k) as [val|] eqn:G; [|reflexivity].
  destruct (db_ttl p k) as [t|] eqn:T; [|reflexivity].
  cbn [fst snd]. split; [reflexivity|]. split.
  - rewrite db_get_del_ttl, db_ttl_del_ttl, G, bytes_eqb_refl. reflexivity.
  - intros k0 N. rewrite <- (raw_view_purge d now k0 W). fold p. unfold raw_view.
    rewrite db_get_del_ttl, db_ttl_del_ttl. apply bytes_eqb_neq in N. rewrite N. reflexivity.
Qed.

(* ---- DEL: key and deadline are gone ---- *)
Lemma del_keys_gone l : forall d n k, (In k l \/ (db_get d k = None /\ db_ttl d k = None)) ->
  db_get (snd (del_keys d l n)) k = None /\ db_ttl (snd (del_keys d l n)) k = None.
Proof.
  induction l as [|k1 r IH]; intros d n k H; cbn.
  - destruct H as [[]|H]; exact H.
  - assert (H' : In k r \/ db_get (db_del d k1) k = None /\ db_ttl (db_del d k1) k = None).
    { rewrite db_get_del, db_ttl_del. destruct (bytes_eqb_spec k k1) as [->|N]; [right; split; reflexivity|].
      destruct H as [[H|H]|H]; [congruence|left; exact H|right; exact H]. }
    destruct (db_get d k1); apply IH; exact H'.
Qed.

Theorem exec_del_gone d now nowms c keys hint k : lower c = B "del" -> In k keys ->
  raw_view (snd (exec d now nowms (c :: keys) hint)) k = None /\
  db_ttl (snd (exec d now nowms (c :: keys) hint)) k = None.
Proof.
  intros E I. exec_named E. unfold exec_del. destruct keys as [|k1 r]; [contradiction|].
  pose proof (del_keys_gone (k1 :: r) (purge d now) 0 k (or_introl I)) as [G T].
  destruct (del_keys (purge d now) (k1 :: r) 0). cbn [snd] in *. unfold raw_view. rewrite G, T.
  split; reflexivity.
Qed.

(* ---- RENAME carries the deadline ---- *)
Theorem exec_rename_carries d now nowms c old new hint : db_wf d -> lower c = B "rename" ->
  let res := exec d now nowms [c; old; new] hint in
  match view d now old with
  | Some (val, t) =>
    fst res = rOK /\ raw_view (snd res) new = Some (val, t) /\
    (old <> new -> raw_view (snd res) old = None) /\
    forall k0, k0 <> old -> k0 <> new -> raw_view (snd res) k0 = view d now k0
  | None => snd res = purge d now
  end.
Proof.
  intros W E. cbv zeta. exec_named E. unfold exec_rename.
  rewrite <- (raw_view_purge d now old W). set (p := purge d now). unfold raw_view at 1.
  destruct (db_get p old) as [val|] eqn:G; [|reflexivity].
  cbn [fst snd]. split; [destruct (db_ttl p old); reflexivity|].
  set (d2 := db_set (db_del (db_del p old) new) new val).
  assert (G2 : db_get d2 new = Some val) by (unfold d2; rewrite db_get_set, bytes_eqb_refl; reflexivity).
  assert (T2 : db_ttl d2 new = None)
    by (unfold d2; rewrite db_ttl_set, db_ttl_del, bytes_eqb_refl; reflexivity).
  split; [|split].
  - unfold raw_view. destruct (db_ttl p old) as [t|].
    + rewrite db_get_set_ttl, db_ttl_set_ttl, G2, bytes_eqb_refl. reflexivity.
    + rewrite G2, T2. reflexivity.
  - intros N. apply bytes_eqb_neq in N.
    assert (Gd : db_get d2 old = None).
    { unfold d2. rewrite db_get_set, N, db_get_del. destruct (bytes_eqb old new); [reflexivity|].
      rewrite db_get_del, bytes_eqb_refl. reflexivity. }
    unfold raw_view. destruct (db_ttl p old); [rewrite db_get_set_ttl|]; rewrite Gd; reflexivity.
  - intros k0 N1 N2. rewrite <- (raw_view_purge d now k0 W). fold p.
    apply bytes_eqb_neq in N1. apply bytes_eqb_neq in N2.
    assert (Gk : db_get d2 k0 = db_get p k0)
      by (unfold d2; rewrite db_get_set, N2, !db_get_del, N2, N1; reflexivity).
    assert (Tk : db_ttl d2 k0 = db_ttl p k0)
      by (unfold d2; rewrite db_ttl_set, !db_ttl_del, N2, N1; reflexivity).
    unfold raw_view. destruct (db_ttl p old).
    + rewrite db_get_set_ttl, db_ttl_set_ttl, N2, andb_false_r, Gk, Tk. reflexivity.
    + rewrite Gk, Tk. reflexivity.
Qed.

(* ---- "no deadline" is invariant under every step that either does not name the key or is
        not one of the deadline-changing commands ---- *)
Lemma upd_ttl_none K T d d' k : db_wf d -> upd K T d d' -> ~ In k K ->
  db_ttl d k = None -> db_ttl d' k = None.
Proof.
  intros W U N E. induction U as [|d' k0 v U IH I|d' k0 U IH I|d' k0 t U IH I|d' k0 U IH I|d' t U IH Lt].
  - exact E.
  - rewrite db_ttl_set. exact IH.
  - rewrite db_ttl_del, IH. destruct (bytes_eqb k k0); reflexivity.
  - rewrite db_ttl_set_ttl. destruct (bytes_eqb_spec k k0) as [->|Nk]; [contradiction|].
    rewrite andb_false_r. exact IH.
  - rewrite db_ttl_del_ttl, IH. destruct (bytes_eqb k k0); reflexivity.
  - rewrite db_ttl_purge by (eapply upd_wf; eassumption). rewrite IH.
    destruct (expired d' t k); reflexivity.
Qed.

Definition leaves_deadlines (k : bytes) (s : step) : Prop :=
  ~ names_key k s \/ changes_ttl (cmd_name (s_args s)) = false.

Lemma exec_ttl_none d s k : db_wf d -> leaves_deadlines k s -> db_ttl d k = None ->
  db_ttl (snd (exec d (s_now s) (s_nowms s) (s_args s) (s_hint s))) k = None.
Proof.
  intros W [N|C] E.
  - eapply upd_ttl_none; [exact W| |exact N|exact E].
    apply (exec_upd d (s_now s) (s_nowms s) (s_args s) (s_hint s) (step_end (s_now s) (s_nowms s) (s_args s))).
    apply Z.le_refl.
  - set (d' := snd (exec d (s_now s) (s_nowms s) (s_args s) (s_hint s))).
    destruct (db_get d' k) as [v'|] eqn:G.
    + assert (R : raw_view d' k = Some (v', db_ttl d' k)) by (unfold raw_view; rewrite G; reflexivity).
      rewrite (exec_keeps_deadlines d _ _ _ _ k v' (db_ttl d' k) W C R).
      unfold view, deadline_of, expired. rewrite E. destruct (db_get d k); reflexivity.
    + apply wf_ttl_none; [apply exec_wf; exact W|exact G].
Qed.

Theorem run_ttl_none p k : forall d, db_wf d -> Forall (leaves_deadlines k) p ->
  db_ttl d k = None -> db_ttl (snd (run d p)) k = None.
Proof.
  induction p as [|s r IH]; intros d W L E; [exact E|].
  rewrite run_cons. cbn [snd]. inversion L; subst.
  apply IH; [apply exec_wf; exact W|assumption|apply exec_ttl_none; assumption].
Qed.

(* ---- nondecreasing clocks ---- *)
Fixpoint clocks_nondecreasing (p : list step) : Prop :=
  match p with
  | s1 :: ((s2 :: _) as r) => s_now s1 <= s_now s2 /\ clocks_nondecreasing r
  | _ => True
  end.

Lemma nondecreasing_from t p : clocks_nondecreasing p ->
  match p with s :: _ => t <= s_now s | [] => True end ->
  Forall (fun s => t <= s_now s) p.
Proof.
  induction p as [|s r IH]; intros N H; [constructor|].
  constructor; [exact H|]. destruct r as [|s2 r2]; [constructor|].
  destruct N as [L N]. apply IH; [exact N|lia].
Qed.

Lemma nondecreasing_app_r p q : clocks_nondecreasing (p ++ q) -> clocks_nondecreasing q.
Proof.
  induction p as [|s r IH]; [trivial|]. intros N. apply IH.
  cbn in N. destruct (r ++ q); [exact I|apply N].
Qed.

(* Once the clock has reached the deadline of k, the rest of any program with nondecreasing
   clocks runs exactly as if k had been deleted: same replies, same views afterwards. *)
Theorem run_expired_as_deleted d k t p : db_wf d -> db_ttl d k = Some t ->
  clocks_nondecreasing p -> match p with s :: _ => t <= s_now s | [] => True end ->
  replies_rel p (fst (run d p)) (fst (run (db_del d k) p)) /\
  veq_from t (snd (run d p)) (snd (run (db_del d k) p)).
Proof.
  intros W E N H. apply run_veq; [exact W|apply db_wf_del; exact W| |].
  - apply veq_from_del_expired; assumption.
  - apply nondecreasing_from; assumption.
Qed.

(* ... and while no command names k, it stays invisible *)
Theorem run_expired_stays_invisible d k t p now : db_wf d -> db_ttl d k = Some t ->
  Forall (fun s => ~ names_key k s) p ->
  Forall (fun s => step_end (s_now s) (s_nowms s) (s_args s) <= now) p -> t <= now ->
  view (snd (run d p)) now k = None.
Proof.
  intros W E N L Lt. rewrite (run_frame p k now d W N L). eapply view_dead; eassumption.
Qed.

(* ---- SUNIONSTORE / SINTERSTORE / SDIFFSTORE: the destination is replaced, deadline included ---- *)
Definition store_name (n : bytes) : bool :=
  is n (B "sunionstore") || is n (B "sinterstore") || is n (B "sdiffstore").

Lemma store_set_ttl d k s : db_ttl (store_set d k s) k = None.
Proof.
  unfold store_set. destruct s; [|rewrite db_ttl_set]; rewrite db_ttl_del, bytes_eqb_refl; reflexivity.
Qed.

Lemma algebra_store_drops op p c dst ks z :
  fst (exec_algebra_store op p (c :: dst :: ks)) = RInt z ->
  db_ttl (snd (exec_algebra_store op p (c :: dst :: ks))) dst = None.
Proof.
  unfold exec_algebra_store. destruct ks as [|k1 r]; try discriminate.
  destruct (operands p (k1 :: r)); try discriminate. intros _. cbn [snd]. apply store_set_ttl.
Qed.

Theorem exec_store_drops_deadline d now nowms c dst ks hint z : store_name (lower c) = true ->
  fst (exec d now nowms (c :: dst :: ks) hint) = RInt z ->
  db_ttl (snd (exec d now nowms (c :: dst :: ks) hint)) dst = None.
Proof.
  intros E. unfold store_name in E. rewrite exec_unfold.
  destruct (is (lower c) (B "sunionstore")) eqn:E1; [apply bytes_eqb_eq in E1; rewrite E1;
    exact (algebra_store_drops union_all (purge d now) c dst ks z)|].
  destruct (is (lower c) (B "sinterstore")) eqn:E2; [apply bytes_eqb_eq in E2; rewrite E2;
    exact (algebra_store_drops inter_all (purge d now) c dst ks z)|].
  destruct (is (lower c) (B "sdiffstore")) eqn:E3; [apply bytes_eqb_eq in E3; rewrite E3;
    exact (algebra_store_drops diff_all (purge d now) c dst ks z)|discriminate].
Qed.

(* ---- a key that a step leaves absent has no deadline left (emptied lists, hashes, sets, sorted
        sets; DEL; RENAME source; ...) ---- *)
Theorem exec_absent_no_deadline d now nowms args hint k : db_wf d ->
  db_get (snd (exec d now nowms args hint)) k = None ->
  db_ttl (snd (exec d now nowms args hint)) k = None.
Proof. intros W G. apply wf_ttl_none; [apply exec_wf; exact W|exact G]. Qed.

(* ---- SET k v PX n: the deadline for every n >= 1, up to MaxInt64 ---- *)
Lemma ceil_div_1000 n : 0 <= n -> (n + 999) / 1000 = n / 1000 + (if n mod 1000 =? 0 then 0 else 1).
Proof.
  intros Hn.
  pose proof (Z.div_mod n 1000 ltac:(lia)) as D. pose proof (Z.mod_pos_bound n 1000 ltac:(lia)) as Bd.
  set (q := n / 1000) in *. set (s := n mod 1000) in *.
  destruct (Z.eqb_spec s 0) as [Z0|Z0].
  - symmetry. apply (Z.div_unique (n + 999) 1000 (q + 0) 999); lia.
  - symmetry. apply (Z.div_unique (n + 999) 1000 (q + 1) (s - 1)); lia.
Qed.

(* the option vector of "PX n" alone *)
Lemma set_parse_px px nb n : lower px = B "px" -> atoi64 nb = Some n ->
  set_parse [px; nb] setopts0 = Some (mkSetOpts false false false false None (Some n) None).
Proof. intros E A. cbn [set_parse]. rewrite E. cbn. rewrite A. reflexivity. Qed.

(* SET k v PX n on a key that is absent or holds a string: for EVERY n >= 1 that parses as an
   int64 -- there is no overflow anywhere: n/1000 + 1 <= 9223372036854776 -- the key gets the value
   and the deadline  now + n/1000 + (1 if n is not a multiple of 1000), i.e. now + ceil(n/1000);
   in particular TTL right afterwards is ceil(n/1000), never negative, never smaller. *)
Theorem exec_set_px_deadline d now nowms c k v px nb n hint : db_wf d ->
  lower c = B "set" -> lower px = B "px" -> atoi64 nb = Some n -> 1 <= n ->
  match view d now k with None => True | Some (VStr _, _) => True | Some _ => False end ->
  let res := exec d now nowms [c; k; v; px; nb] hint in
  fst res = rOK /\
  raw_view (snd res) k = Some (VStr v, Some (now + n / 1000 + (if n mod 1000 =? 0 then 0 else 1))) /\
  n / 1000 + (if n mod 1000 =? 0 then 0 else 1) = (n + 999) / 1000 /\
  1 <= n / 1000 + (if n mod 1000 =? 0 then 0 else 1) <= 9223372036854776.
Proof.
  intros W E Ep A Hn Hv. cbv zeta.
  pose proof (exec_set_writes d now nowms c k v [px; nb] _ hint W E (set_parse_px px nb n Ep A)) as X.
  cbv zeta in X.
  assert (C : set_conflict (mkSetOpts false false false false None (Some n) None)
              || ex_overflow now (o_ex (mkSetOpts false false false false None (Some n) None)) = false).
  { unfold set_conflict, ex_overflow, nonpos, isSome. cbn.
    replace (n <=? 0) with false by (symmetry; apply Z.leb_gt; lia). reflexivity. }
  assert (S : set_writes (mkSetOpts false false false false None (Some n) None) (view d now k)).
  { unfold set_writes. destruct (view d now k) as [[[| | | | |] t]|]; try contradiction; cbn; auto. }
  destruct (X C S) as (R1 & R2 & _).
  assert (In64 : n <= 9223372036854775807).
  { unfold atoi64 in A. destruct (parse_int_unbounded nb); [|discriminate].
    destruct (in_int64 z) eqn:I; [|discriminate]. injection A as <-.
    unfold in_int64, int64_max in I. apply andb_true_iff in I as [_ I]. apply Z.leb_le in I. lia. }
  pose proof (ceil_div_1000 n ltac:(lia)) as CE.
  split; [rewrite R1; reflexivity|]. split; [|split; [symmetry; exact CE|]].
  - rewrite R2. unfold set_deadline. cbn [o_exat o_px]. rewrite CE, Z.add_assoc. reflexivity.
  - rewrite <- CE.
    assert (1 <= (n + 999) / 1000) by (apply Z.div_le_lower_bound; lia).
    assert ((n + 999) / 1000 < 9223372036854777) by (apply Z.div_lt_upper_bound; lia).
    lia.
Qed.
