(* C06 -- expiring keys: proofs.
   Part 1: lookups after the primitive updates; observational equivalence of databases
           ([db_eqv]: same value and same deadline under every key) and the fact that every
           command of every family respects it ([exec_cmd_sim]).  Consequence: what a command
           replies and what it leaves behind is a function of [view d now] alone
           ([exec_view_determined]), i.e. a key whose deadline has passed cannot be observed.
   Part 2: footprint ([upd]): a command changes only keys named among its arguments; with it
           well-formedness preservation and the frame lemmas over programs.
   Part 3: what each command does to the deadline of a key (keep / remove / set). *)
Require Import Base.Bytes Base.GoInt Base.Reply Mem.Types Mem.Inv Glob.GlobModel.
Require Import Mem.Strings Mem.Lists Mem.Exec.
From Coq Require Import Permutation.
Local Open Scope Z_scope.

(* ------------------------------------------------------------------ primitive lookups *)
Lemma db_get_set d k v k0 :
  db_get (db_set d k v) k0 = if bytes_eqb k0 k then Some v else db_get d k0.
Proof.
  unfold db_get, db_set; cbn. destruct (bytes_eqb_spec k0 k) as [->|N].
  - apply alookup_aset_same.
  - apply alookup_aset_other; exact N.
Qed.
Lemma db_ttl_set d k v k0 : db_ttl (db_set d k v) k0 = db_ttl d k0.
Proof. reflexivity. Qed.

Lemma db_get_del d k k0 :
  db_get (db_del d k) k0 = if bytes_eqb k0 k then None else db_get d k0.
Proof.
  unfold db_get, db_del; cbn. destruct (bytes_eqb_spec k0 k) as [->|N].
  - apply alookup_aremove_same.
  - apply alookup_aremove_other; exact N.
Qed.
Lemma db_ttl_del d k k0 :
  db_ttl (db_del d k) k0 = if bytes_eqb k0 k then None else db_ttl d k0.
Proof.
  unfold db_ttl, db_del; cbn. destruct (bytes_eqb_spec k0 k) as [->|N].
  - apply alookup_aremove_same.
  - apply alookup_aremove_other; exact N.
Qed.

Lemma amem_get d k : amem k (kv d) = isSome (db_get d k).
Proof. unfold amem, db_get. destruct (alookup k (kv d)); reflexivity. Qed.

Lemma db_get_set_ttl d k t k0 : db_get (db_set_ttl d k t) k0 = db_get d k0.
Proof. unfold db_set_ttl. destruct (amem k (kv d)); reflexivity. Qed.
Lemma db_ttl_set_ttl d k t k0 :
  db_ttl (db_set_ttl d k t) k0 =
  if isSome (db_get d k) && bytes_eqb k0 k then Some t else db_ttl d k0.
Proof.
  unfold db_set_ttl. rewrite amem_get. destruct (isSome (db_get d k)); cbn; [|reflexivity].
  unfold db_ttl; cbn. destruct (bytes_eqb_spec k0 k) as [->|N].
  - apply alookup_aset_same.
  - apply alookup_aset_other; exact N.
Qed.

Lemma db_get_del_ttl d k k0 : db_get (db_del_ttl d k) k0 = db_get d k0.
Proof. reflexivity. Qed.
Lemma db_ttl_del_ttl d k k0 :
  db_ttl (db_del_ttl d k) k0 = if bytes_eqb k0 k then None else db_ttl d k0.
Proof.
  unfold db_ttl, db_del_ttl; cbn. destruct (bytes_eqb_spec k0 k) as [->|N].
  - apply alookup_aremove_same.
  - apply alookup_aremove_other; exact N.
Qed.

(* a stored deadline belongs to a stored key *)
Lemma wf_ttl_none d k : db_wf d -> db_get d k = None -> db_ttl d k = None.
Proof.
  intros (_ & _ & H3) G. unfold db_ttl. destruct (alookup k (ttl d)) eqn:E; [|reflexivity].
  exfalso. apply alookup_Some_in in E. apply H3 in E. apply amem_true_iff in E.
  unfold amem, db_get in *. rewrite G in E. discriminate.
Qed.

Lemma put_list_cases d k l :
  put_list d k l = match l with [] => db_del d k | _ => db_set d k (VList l) end.
Proof. reflexivity. Qed.

(* ------------------------------------------------------------------ observational equivalence *)
Definition db_eqv (a b : db) : Prop :=
  forall k, db_get a k = db_get b k /\ db_ttl a k = db_ttl b k.

Lemma eqv_refl a : db_eqv a a.
Proof. intros k; split; reflexivity. Qed.
Lemma eqv_sym a b : db_eqv a b -> db_eqv b a.
Proof. intros H k; destruct (H k); split; congruence. Qed.
Lemma eqv_trans a b c : db_eqv a b -> db_eqv b c -> db_eqv a c.
Proof. intros H1 H2 k; destruct (H1 k), (H2 k); split; congruence. Qed.

Lemma eqv_set a b k v : db_eqv a b -> db_eqv (db_set a k v) (db_set b k v).
Proof.
  intros H k0. rewrite !db_get_set, !db_ttl_set. destruct (H k0) as [G T].
  rewrite G, T. split; reflexivity.
Qed.
Lemma eqv_del a b k : db_eqv a b -> db_eqv (db_del a k) (db_del b k).
Proof.
  intros H k0. rewrite !db_get_del, !db_ttl_del. destruct (H k0) as [G T].
  rewrite G, T. split; reflexivity.
Qed.
Lemma eqv_set_ttl a b k t : db_eqv a b -> db_eqv (db_set_ttl a k t) (db_set_ttl b k t).
Proof.
  intros H k0. rewrite !db_get_set_ttl, !db_ttl_set_ttl. destruct (H k0) as [G T].
  rewrite G, T, (proj1 (H k)). split; reflexivity.
Qed.
Lemma eqv_del_ttl a b k : db_eqv a b -> db_eqv (db_del_ttl a k) (db_del_ttl b k).
Proof.
  intros H k0. rewrite !db_get_del_ttl, !db_ttl_del_ttl. destruct (H k0) as [G T].
  rewrite G, T. split; reflexivity.
Qed.
Lemma eqv_put_list a b k l : db_eqv a b -> db_eqv (put_list a k l) (put_list b k l).
Proof. intros H. destruct l; cbn; [apply eqv_del|apply eqv_set]; exact H. Qed.

Lemma eqv_expired a b now k : db_eqv a b -> expired a now k = expired b now k.
Proof. intros H. unfold expired. rewrite (proj2 (H k)). reflexivity. Qed.

Lemma eqv_purge a b t : db_wf a -> db_wf b -> db_eqv a b -> db_eqv (purge a t) (purge b t).
Proof.
  intros Wa Wb H k. rewrite !db_get_purge, !db_ttl_purge by assumption.
  rewrite (eqv_expired a b t k H). destruct (H k) as [G T]. rewrite G, T. split; reflexivity.
Qed.

(* with well-formedness, equivalence is equality of the semantic views *)
Lemma eqv_raw_view a b : db_eqv a b -> forall k, raw_view a k = raw_view b k.
Proof. intros H k. unfold raw_view. destruct (H k) as [G T]. rewrite G, T. reflexivity. Qed.

Lemma raw_view_eqv a b : db_wf a -> db_wf b -> (forall k, raw_view a k = raw_view b k) -> db_eqv a b.
Proof.
  intros Wa Wb H k. specialize (H k). unfold raw_view in H.
  destruct (db_get a k) eqn:Ga, (db_get b k) eqn:Gb; try discriminate.
  - injection H as E1 E2. subst. split; [reflexivity|exact E2].
  - split; [reflexivity|]. rewrite (wf_ttl_none a k Wa Ga), (wf_ttl_none b k Wb Gb). reflexivity.
Qed.

Lemma eqv_view a b now : db_eqv a b -> forall k, view a now k = view b now k.
Proof.
  intros H k. unfold view. rewrite (eqv_expired a b now k H).
  destruct (H k) as [G T]. rewrite G, T. reflexivity.
Qed.

Lemma view_purge_eqv a b now : db_wf a -> db_wf b ->
  (forall k, view a now k = view b now k) -> db_eqv (purge a now) (purge b now).
Proof.
  intros Wa Wb H. apply raw_view_eqv; try (apply db_wf_purge; assumption).
  intros k. rewrite !raw_view_purge by assumption. apply H.
Qed.

(* ------------------------------------------------------------------ simulation of commands *)
(* same reply, equivalent databases *)
Definition sim (x y : reply * db) : Prop := fst x = fst y /\ db_eqv (snd x) (snd y).

Lemma sim_intro r a b : db_eqv a b -> sim (r, a) (r, b).
Proof. intros H; split; [reflexivity|exact H]. Qed.

Ltac eqv_rw :=
  repeat match goal with
  | H : db_eqv ?a _ |- context [db_get ?a ?k] => rewrite (proj1 (H k))
  | H : db_eqv ?a _ |- context [db_ttl ?a ?k] => rewrite (proj2 (H k))
  end.

(* destruct the scrutinee of an innermost match *)
Ltac break_match :=
  match goal with
  | |- context [match ?x with _ => _ end] =>
    lazymatch x with
    | context [match _ with _ => _ end] => fail
    | _ => destruct x eqn:?
    end
  end.

Ltac sim_leaf :=
  try (apply sim_intro);
  repeat first [ assumption | apply eqv_set | apply eqv_del | apply eqv_set_ttl | apply eqv_del_ttl
               | apply eqv_put_list ].

Ltac sim_auto := repeat (eqv_rw; break_match); sim_leaf.

Lemma eqv_set_apply_ttl a b now k o :
  db_eqv a b -> db_eqv (set_apply_ttl a now k o) (set_apply_ttl b now k o).
Proof. intros H. unfold set_apply_ttl. repeat break_match; sim_leaf. Qed.

Lemma sim_set a b now args : db_eqv a b -> sim (exec_set a now args) (exec_set b now args).
Proof.
  intros H. unfold exec_set. repeat (eqv_rw; break_match); sim_leaf;
    apply eqv_set_apply_ttl; apply eqv_set; exact H.
Qed.

Lemma sim_get a b args : db_eqv a b -> sim (exec_get a args) (exec_get b args).
Proof. intros H. unfold exec_get. sim_auto. Qed.
Lemma sim_getrange a b args : db_eqv a b -> sim (exec_getrange a args) (exec_getrange b args).
Proof. intros H. unfold exec_getrange. sim_auto. Qed.
Lemma sim_setrange a b args : db_eqv a b -> sim (exec_setrange a args) (exec_setrange b args).
Proof. intros H. unfold exec_setrange. sim_auto. Qed.

Lemma sim_mget a b args : db_eqv a b -> sim (exec_mget a args) (exec_mget b args).
Proof.
  intros H. unfold exec_mget. repeat break_match; sim_leaf.
  split; [cbn [fst]|exact H]. f_equal.
  apply map_ext. intros k. rewrite (proj1 (H k)). reflexivity.
Qed.

Lemma eqv_mset_pairs_n n : forall (l : list bytes) a b, (List.length l <= n)%nat -> db_eqv a b ->
  match mset_pairs a l, mset_pairs b l with
  | Some a', Some b' => db_eqv a' b'
  | None, None => True
  | _, _ => False
  end.
Proof.
  induction n as [|n IH]; intros l a b L H; destruct l as [|k [|v r]]; cbn in *;
    try exact H; try exact I; try lia.
  apply IH; [lia|]. apply eqv_set, eqv_del_ttl, H.
Qed.
Lemma eqv_mset_pairs l a b : db_eqv a b ->
  match mset_pairs a l, mset_pairs b l with
  | Some a', Some b' => db_eqv a' b'
  | None, None => True
  | _, _ => False
  end.
Proof. apply (eqv_mset_pairs_n (List.length l)). lia. Qed.

Lemma sim_mset a b args : db_eqv a b -> sim (exec_mset a args) (exec_mset b args).
Proof.
  intros H. unfold exec_mset.
  destruct args as [|c [|k [|v r]]]; try (apply sim_intro; exact H).
  pose proof (eqv_mset_pairs (k :: v :: r) a b H) as E.
  destruct (mset_pairs a (k :: v :: r)), (mset_pairs b (k :: v :: r)); try contradiction;
    apply sim_intro; assumption.
Qed.

Lemma sim_setex a b now args : db_eqv a b -> sim (exec_setex a now args) (exec_setex b now args).
Proof. intros H. unfold exec_setex. sim_auto. Qed.
Lemma sim_setnx a b args : db_eqv a b -> sim (exec_setnx a args) (exec_setnx b args).
Proof. intros H. unfold exec_setnx. sim_auto. Qed.
Lemma sim_strlen a b args : db_eqv a b -> sim (exec_strlen a args) (exec_strlen b args).
Proof. intros H. unfold exec_strlen. sim_auto. Qed.
Lemma sim_incr_by a b k n : db_eqv a b -> sim (incr_by a k n) (incr_by b k n).
Proof. intros H. unfold incr_by. sim_auto. Qed.
Lemma sim_incr a b args : db_eqv a b -> sim (exec_incr a args) (exec_incr b args).
Proof. intros H. unfold exec_incr. repeat break_match; sim_leaf; apply sim_incr_by; exact H. Qed.
Lemma sim_decr a b args : db_eqv a b -> sim (exec_decr a args) (exec_decr b args).
Proof. intros H. unfold exec_decr. repeat break_match; sim_leaf; apply sim_incr_by; exact H. Qed.
Lemma sim_incrby a b args : db_eqv a b -> sim (exec_incrby a args) (exec_incrby b args).
Proof. intros H. unfold exec_incrby. repeat break_match; sim_leaf; apply sim_incr_by; exact H. Qed.
Lemma sim_decrby a b args : db_eqv a b -> sim (exec_decrby a args) (exec_decrby b args).
Proof. intros H. unfold exec_decrby. repeat break_match; sim_leaf; apply sim_incr_by; exact H. Qed.
Lemma sim_append a b args : db_eqv a b -> sim (exec_append a args) (exec_append b args).
Proof. intros H. unfold exec_append. sim_auto. Qed.

Lemma sim_del_keys l : forall a b n, db_eqv a b ->
  fst (del_keys a l n) = fst (del_keys b l n) /\ db_eqv (snd (del_keys a l n)) (snd (del_keys b l n)).
Proof.
  induction l as [|k r IH]; intros a b n H; cbn; [split; [reflexivity|exact H]|].
  rewrite (proj1 (H k)). destruct (db_get b k); apply IH; apply eqv_del; exact H.
Qed.

Lemma sim_del a b args : db_eqv a b -> sim (exec_del a args) (exec_del b args).
Proof.
  intros H. unfold exec_del. destruct args as [|c [|k r]]; try (apply sim_intro; exact H).
  pose proof (sim_del_keys (k :: r) a b 0 H) as [E1 E2].
  destruct (del_keys a (k :: r) 0), (del_keys b (k :: r) 0). cbn in *. subst. apply sim_intro; exact E2.
Qed.

Lemma sim_exists a b args : db_eqv a b -> sim (exec_exists a args) (exec_exists b args).
Proof.
  intros H. unfold exec_exists. destruct args as [|c [|k r]]; try (apply sim_intro; exact H).
  split; [cbn [fst]|exact H]. do 2 f_equal.
  apply filter_ext. intros k0. rewrite (proj1 (H k0)). reflexivity.
Qed.

Lemma sim_expire a b now args : db_eqv a b -> sim (exec_expire a now args) (exec_expire b now args).
Proof. intros H. unfold exec_expire. cbv beta zeta. sim_auto. Qed.
Lemma sim_persist a b args : db_eqv a b -> sim (exec_persist a args) (exec_persist b args).
Proof. intros H. unfold exec_persist. sim_auto. Qed.
Lemma sim_ttl a b now args : db_eqv a b -> sim (exec_ttl a now args) (exec_ttl b now args).
Proof. intros H. unfold exec_ttl. sim_auto. Qed.
Lemma sim_type a b args : db_eqv a b -> sim (exec_type a args) (exec_type b args).
Proof. intros H. unfold exec_type. sim_auto. Qed.
Lemma sim_rename a b args : db_eqv a b -> sim (exec_rename a args) (exec_rename b args).
Proof. intros H. unfold exec_rename. sim_auto. Qed.
Lemma sim_ping a b args : db_eqv a b -> sim (exec_ping a args) (exec_ping b args).
Proof. intros H. unfold exec_ping. sim_auto. Qed.

(* KEYS lists the stored keys in map order: equivalent databases give permutations *)
Definition reply_perm (r1 r2 : reply) : Prop :=
  r1 = r2 \/ exists l1 l2, r1 = RArr (map RBulk l1) /\ r2 = RArr (map RBulk l2) /\ Permutation l1 l2.

Lemma Permutation_filter' {A} (f : A -> bool) l1 l2 :
  Permutation l1 l2 -> Permutation (filter f l1) (filter f l2).
Proof.
  induction 1 as [|x l l' P IH|x y l|l l' l'' P1 IH1 P2 IH2]; cbn.
  - constructor.
  - destruct (f x); [constructor|]; exact IH.
  - destruct (f x), (f y); try apply Permutation_refl. constructor.
  - eapply Permutation_trans; eassumption.
Qed.

Lemma eqv_keys_perm a b : db_wf a -> db_wf b -> db_eqv a b ->
  Permutation (akeys (kv a)) (akeys (kv b)).
Proof.
  intros (Na & _) (Nb & _) H. apply NoDup_Permutation; try assumption.
  intros k. rewrite <- !amem_true_iff, !amem_get, (proj1 (H k)). reflexivity.
Qed.

Lemma sim_keys a b args : db_wf a -> db_wf b -> db_eqv a b ->
  reply_perm (fst (exec_keys a args)) (fst (exec_keys b args)) /\
  db_eqv (snd (exec_keys a args)) (snd (exec_keys b args)).
Proof.
  intros Wa Wb H. unfold exec_keys.
  destruct args as [|c [|p [|x r]]]; cbn [fst snd]; try (split; [left; reflexivity|exact H]).
  split; [|exact H]. right. eexists _, _. split; [reflexivity|]. split; [reflexivity|].
  unfold keys_filter. apply Permutation_filter'. apply eqv_keys_perm; assumption.
Qed.

(* ---- lists ---- *)
Lemma eqv_get_list a b k : db_eqv a b -> get_list a k = get_list b k.
Proof. intros H. unfold get_list. rewrite (proj1 (H k)). reflexivity. Qed.

Ltac eqv_rwl :=
  repeat match goal with
  | H : db_eqv ?a _ |- context [get_list ?a ?k] => rewrite (eqv_get_list _ _ k H)
  end.
Ltac sim_autol := repeat (eqv_rwl; eqv_rw; break_match); sim_leaf.

Lemma sim_llen a b args : db_eqv a b -> sim (exec_llen a args) (exec_llen b args).
Proof. intros H. unfold exec_llen. sim_autol. Qed.
Lemma sim_lindex a b args : db_eqv a b -> sim (exec_lindex a args) (exec_lindex b args).
Proof. intros H. unfold exec_lindex. sim_autol. Qed.
Lemma sim_push l c a b args : db_eqv a b -> sim (push_cmd l c a args) (push_cmd l c b args).
Proof. intros H. unfold push_cmd. cbv beta zeta. sim_autol. Qed.
Lemma sim_pop l a b args : db_eqv a b -> sim (pop_cmd l a args) (pop_cmd l b args).
Proof. intros H. unfold pop_cmd. cbv beta zeta. sim_autol. Qed.
Lemma sim_lset a b args : db_eqv a b -> sim (exec_lset a args) (exec_lset b args).
Proof. intros H. unfold exec_lset. sim_autol. Qed.
Lemma sim_lrem a b args : db_eqv a b -> sim (exec_lrem a args) (exec_lrem b args).
Proof. intros H. unfold exec_lrem. sim_autol. Qed.
Lemma sim_ltrim a b args : db_eqv a b -> sim (exec_ltrim a args) (exec_ltrim b args).
Proof. intros H. unfold exec_ltrim. sim_autol. Qed.
Lemma sim_lrange a b args : db_eqv a b -> sim (exec_lrange a args) (exec_lrange b args).
Proof. intros H. unfold exec_lrange. sim_autol. Qed.
Lemma sim_lpos a b args : db_eqv a b -> sim (exec_lpos a args) (exec_lpos b args).
Proof. intros H. unfold exec_lpos. sim_autol. Qed.

Lemma sim_lmove a b args : db_eqv a b -> sim (exec_lmove a args) (exec_lmove b args).
Proof.
  intros H. unfold exec_lmove.
  destruct args as [|c [|src [|dst [|sd [|dd [|x r]]]]]]; try (apply sim_intro; exact H).
  cbv beta zeta.
  assert (P : forall l, db_eqv (put_list a src l) (put_list b src l))
    by (intros l; apply eqv_put_list; exact H).
  assert (G : forall l, get_list (put_list a src l) dst = get_list (put_list b src l) dst)
    by (intros l; apply eqv_get_list; apply P).
  rewrite !(eqv_get_list a b _ H).
  repeat (rewrite ?G; break_match); sim_leaf; try congruence.
Qed.

Lemma sim_bpop_scan l keys : forall a b, db_eqv a b -> sim (bpop_scan l a keys) (bpop_scan l b keys).
Proof.
  induction keys as [|k r IH]; intros a b H; cbn; [apply sim_intro; exact H|].
  rewrite (eqv_get_list a b k H).
  repeat break_match; sim_leaf; try (apply IH; exact H).
Qed.

Lemma sim_bpop l a b nowms args : db_wf a -> db_wf b -> db_eqv a b ->
  sim (exec_bpop l a nowms args) (exec_bpop l b nowms args).
Proof.
  intros Wa Wb H. unfold exec_bpop. repeat break_match; sim_leaf.
  apply sim_bpop_scan. apply eqv_purge; assumption.
Qed.

(* ---- dispatch ---- *)
Definition is_keys (n : bytes) : bool := is n (B "keys").

(* replies are equal -- except that KEYS, which lists the keyspace in map order, may list the
   same keys in another order *)
Definition simk (n : bytes) (x y : reply * db) : Prop :=
  (if is_keys n then reply_perm (fst x) (fst y) else fst x = fst y) /\ db_eqv (snd x) (snd y).

Definition osimk (n : bytes) (x y : option (reply * db)) : Prop :=
  match x, y with
  | Some x, Some y => simk n x y
  | None, None => True
  | _, _ => False
  end.

Lemma sim_simk n x y : is_keys n = false -> sim x y -> simk n x y.
Proof. intros E [H1 H2]. unfold simk. rewrite E. split; assumption. Qed.

Lemma sim_strings a b now nowms n args hint : db_wf a -> db_wf b -> db_eqv a b ->
  osimk n (strings_dispatch a now nowms n args hint) (strings_dispatch b now nowms n args hint).
Proof.
  intros Wa Wb H. unfold strings_dispatch.
  repeat match goal with
  | |- context [if is n ?c then _ else _] =>
    let E := fresh "E" in
    destruct (is n c) eqn:E;
    [ apply bytes_eqb_eq in E; subst n; cbn [osimk];
      first [ apply sim_keys; assumption
            | apply sim_simk; [reflexivity|];
              first [ apply sim_set | apply sim_get | apply sim_getrange | apply sim_setrange
                    | apply sim_mget | apply sim_mset | apply sim_setex | apply sim_setnx
                    | apply sim_strlen | apply sim_incr | apply sim_decr | apply sim_incrby
                    | apply sim_decrby | apply sim_append | apply sim_del | apply sim_exists
                    | apply sim_expire | apply sim_persist | apply sim_ttl | apply sim_type
                    | apply sim_rename | apply sim_ping ]; exact H ]
    | clear E ]
  end.
  exact I.
Qed.

Lemma sim_lists a b now nowms n args hint : db_wf a -> db_wf b -> db_eqv a b ->
  osimk n (lists_dispatch a now nowms n args hint) (lists_dispatch b now nowms n args hint).
Proof.
  intros Wa Wb H. unfold lists_dispatch.
  repeat match goal with
  | |- context [if is n ?c then _ else _] =>
    let E := fresh "E" in
    destruct (is n c) eqn:E;
    [ apply bytes_eqb_eq in E; subst n; cbn [osimk];
      apply sim_simk; [reflexivity|];
      first [ apply sim_llen | apply sim_lindex | apply sim_lpos | apply sim_pop | apply sim_push
            | apply sim_lset | apply sim_lrem | apply sim_ltrim | apply sim_lrange | apply sim_lmove
            | apply sim_bpop; assumption ]; exact H
    | clear E ]
  end.
  exact I.
Qed.

Definition cmd_name (args : list bytes) : bytes :=
  match args with [] => [] | n :: _ => lower n end.

Definition family_sim (f : family) : Prop :=
  forall a b now nowms n args hint, db_wf a -> db_wf b -> db_eqv a b ->
    osimk n (f a now nowms n args hint) (f b now nowms n args hint).

Lemma simk_refl_err n a b : db_eqv a b -> simk n (err_other, a) (err_other, b).
Proof. intros H. split; [|exact H]. cbn [fst]. destruct (is_keys n); [left|]; reflexivity. Qed.

Lemma sim_dispatch fs : Forall family_sim fs ->
  forall a b now nowms n args hint, db_wf a -> db_wf b -> db_eqv a b ->
    simk n (dispatch fs a now nowms n args hint) (dispatch fs b now nowms n args hint).
Proof.
  induction 1 as [|f r Hf Hr IH]; intros a b now nowms n args hint Wa Wb H; cbn.
  - apply simk_refl_err; exact H.
  - specialize (Hf a b now nowms n args hint Wa Wb H). unfold osimk in Hf.
    destruct (f a now nowms n args hint), (f b now nowms n args hint); try contradiction.
    + exact Hf.
    + apply IH; assumption.
Qed.

Lemma families_sim : Forall family_sim families.
Proof.
  unfold families. repeat constructor.
  - intros a b now nowms n args hint. apply sim_strings.
  - intros a b now nowms n args hint. apply sim_lists.
Qed.

(* Every command respects observational equivalence. *)
Theorem exec_cmd_sim a b now nowms args hint : db_wf a -> db_wf b -> db_eqv a b ->
  simk (cmd_name args) (exec_cmd a now nowms args hint) (exec_cmd b now nowms args hint).
Proof.
  intros Wa Wb H. unfold exec_cmd. destruct args as [|n r]; [apply simk_refl_err; exact H|].
  apply sim_dispatch; try assumption. apply families_sim.
Qed.

(* The outcome of a step at clock [now] is determined by [view . now]. *)
Theorem exec_view_determined d1 d2 now nowms args hint : db_wf d1 -> db_wf d2 ->
  (forall k, view d1 now k = view d2 now k) ->
  simk (cmd_name args) (exec d1 now nowms args hint) (exec d2 now nowms args hint).
Proof.
  intros W1 W2 H. unfold exec. apply exec_cmd_sim; try (apply db_wf_purge; assumption).
  apply view_purge_eqv; assumption.
Qed.

(* ================================================================== Part 2: footprint *)
(* [upd K T d d']: d' is obtained from d by primitive updates of keys in K and by purges at
   clocks <= T. *)
Inductive upd (K : list bytes) (T : Z) (d : db) : db -> Prop :=
| upd_refl : upd K T d d
| upd_set d' k v : upd K T d d' -> In k K -> upd K T d (db_set d' k v)
| upd_del d' k : upd K T d d' -> In k K -> upd K T d (db_del d' k)
| upd_set_ttl d' k t : upd K T d d' -> In k K -> upd K T d (db_set_ttl d' k t)
| upd_del_ttl d' k : upd K T d d' -> In k K -> upd K T d (db_del_ttl d' k)
| upd_purge d' t : upd K T d d' -> t <= T -> upd K T d (purge d' t).

Lemma upd_wf K T d d' : db_wf d -> upd K T d d' -> db_wf d'.
Proof.
  intros W U. induction U; auto using db_wf_set, db_wf_del, db_wf_set_ttl, db_wf_del_ttl, db_wf_purge.
Qed.

Lemma upd_put_list K T d d' k l : upd K T d d' -> In k K -> upd K T d (put_list d' k l).
Proof. intros U I. destruct l; cbn; [apply upd_del|apply upd_set]; assumption. Qed.

Lemma upd_trans K T d d1 d2 : upd K T d d1 -> upd K T d1 d2 -> upd K T d d2.
Proof. intros U1 U2. induction U2; [exact U1| constructor; assumption ..]. Qed.

Lemma upd_mono K K' T T' d d' : incl K K' -> T <= T' -> upd K T d d' -> upd K' T' d d'.
Proof.
  intros I L U. induction U; [apply upd_refl| constructor; auto ..]. lia.
Qed.

Lemma expired_mono d t t' k : t <= t' -> expired d t k = true -> expired d t' k = true.
Proof.
  unfold expired. destruct (db_ttl d k); [|discriminate]. intros L E.
  apply Z.leb_le in E. apply Z.leb_le. lia.
Qed.

Lemma view_purge_later d t now k : db_wf d -> t <= now -> view (purge d t) now k = view d now k.
Proof.
  intros W L. unfold view. rewrite db_get_purge.
  unfold expired at 2. rewrite db_ttl_purge by exact W.
  destruct (expired d t k) eqn:E.
  - rewrite (expired_mono d t now k L E). destruct (db_get d k); reflexivity.
  - reflexivity.
Qed.

(* frame: a key outside the footprint looks the same at every clock from T on *)
Lemma upd_frame K T d d' now k : db_wf d -> upd K T d d' -> ~ In k K -> T <= now ->
  view d' now k = view d now k.
Proof.
  intros W U N L. induction U as [|d' k0 v U IH I|d' k0 U IH I|d' k0 t U IH I|d' k0 U IH I|d' t U IH Lt].
  - reflexivity.
  - rewrite <- IH. unfold view, expired. rewrite db_get_set, db_ttl_set.
    destruct (bytes_eqb_spec k k0) as [->|Nk]; [contradiction|reflexivity].
  - rewrite <- IH. unfold view, expired. rewrite db_get_del, db_ttl_del.
    destruct (bytes_eqb_spec k k0) as [->|Nk]; [contradiction|reflexivity].
  - rewrite <- IH. unfold view, expired. rewrite db_get_set_ttl, db_ttl_set_ttl.
    destruct (bytes_eqb_spec k k0) as [->|Nk]; [contradiction|].
    rewrite andb_false_r. reflexivity.
  - rewrite <- IH. unfold view, expired. rewrite db_get_del_ttl, db_ttl_del_ttl.
    destruct (bytes_eqb_spec k k0) as [->|Nk]; [contradiction|reflexivity].
  - rewrite <- IH. apply view_purge_later; [eapply upd_wf; eassumption|lia].
Qed.

(* a key without deadline outside the footprint is untouched, whatever the clocks *)
Lemma upd_frame_persistent K T d d' k v : db_wf d -> upd K T d d' -> ~ In k K ->
  raw_view d k = Some (v, None) -> raw_view d' k = Some (v, None).
Proof.
  intros W U N. induction U as [|d' k0 v0 U IH I|d' k0 U IH I|d' k0 t U IH I|d' k0 U IH I|d' t U IH Lt];
    intros R; try specialize (IH R).
  - exact R.
  - rewrite raw_view_set_other; [exact IH|]. intros ->; contradiction.
  - rewrite raw_view_del_other; [exact IH|]. intros ->; contradiction.
  - unfold raw_view in *. rewrite db_get_set_ttl, db_ttl_set_ttl.
    destruct (bytes_eqb_spec k k0) as [->|Nk]; [contradiction|]. rewrite andb_false_r. exact IH.
  - unfold raw_view in *. rewrite db_get_del_ttl, db_ttl_del_ttl.
    destruct (bytes_eqb_spec k k0) as [->|Nk]; [contradiction|exact IH].
  - rewrite raw_view_purge by (eapply upd_wf; eassumption).
    unfold raw_view in IH. unfold view, expired.
    destruct (db_get d' k); [|discriminate]. injection IH as -> E. rewrite E. reflexivity.
Qed.
