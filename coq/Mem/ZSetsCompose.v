(* Composition of the sorted-set invariant with the other command families (Mem/Exec.v):
   if every family in [fs] keeps stored sorted sets valid, so does the whole dispatcher, [exec]
   (purge, then dispatch) and any sequence of commands.  [zsets_dispatch] is such a family
   (ZSetsProofs.zsets_dispatch_keeps_zsets); the other families only move or delete values. *)
Require Import Base.Bytes Base.GoInt Base.Reply Mem.Types Mem.Inv Mem.Avl Mem.AvlProofs Mem.ZSets Mem.ZSetsProofs.
Require Import Mem.Exec.
Local Open Scope Z_scope.

Lemma dispatch_keeps_zsets fs :
  Forall family_keeps_zsets fs ->
  forall d now nowms n args hint, db_zsets_ok d -> db_zsets_ok (snd (dispatch fs d now nowms n args hint)).
Proof.
  induction fs as [|f r IH]; intros F d now nowms n args hint O; [exact O|].
  apply Forall_cons_iff in F as [Ff Fr]. cbn [dispatch].
  destruct (f d now nowms n args hint) as [[rp d']|] eqn:E.
  - cbn [snd]. eapply Ff; eassumption.
  - apply IH; assumption.
Qed.

Lemma exec_keeps_zsets d now nowms args hint :
  Forall family_keeps_zsets families -> db_zsets_ok d -> db_zsets_ok (snd (exec d now nowms args hint)).
Proof.
  intros F O. unfold exec, exec_cmd. pose proof (db_zsets_ok_purge d now O) as O0.
  destruct args as [|name rest]; [exact O0|]. apply dispatch_keeps_zsets; assumption.
Qed.

(* any sequence of commands of any family, each with its clock and observed reply *)
Definition run_cmds (prog : list (Z * Z * list bytes * reply)) (d : db) : db :=
  fold_left (fun d c => let '(now, nowms, args, hint) := c in snd (exec d now nowms args hint)) prog d.

Lemma run_cmds_keeps_zsets prog d :
  Forall family_keeps_zsets families -> db_zsets_ok d -> db_zsets_ok (run_cmds prog d).
Proof.
  intros F. revert d. induction prog as [|[[[now nowms] args] hint] r IH]; intros d O; [exact O|].
  cbn. apply IH. apply exec_keeps_zsets; assumption.
Qed.

(* ------------------------------------------------------------------ a toolkit for the other families *)
(* [zsets_from d d']: every sorted set stored in d' was already stored in d (under some key).
   A command that only stores values of other types, deletes, moves values or edits deadlines
   satisfies it, and then keeps every stored sorted set valid. *)
Definition zsets_from (d d' : db) : Prop :=
  forall k z, db_get d' k = Some (VZSet z) -> exists k0, db_get d k0 = Some (VZSet z).

Lemma zsets_from_ok d d' : zsets_from d d' -> db_zsets_ok d -> db_zsets_ok d'.
Proof.
  intros F O k v H. destruct v; try exact I.
  destruct (F k z H) as [k0 H0]. exact (O k0 _ H0).
Qed.

Lemma zsets_from_refl d : zsets_from d d.
Proof. intros k z H. exists k. exact H. Qed.

Lemma zsets_from_trans d1 d2 d3 : zsets_from d1 d2 -> zsets_from d2 d3 -> zsets_from d1 d3.
Proof. intros F1 F2 k z H. destruct (F2 k z H) as [k0 H0]. exact (F1 k0 z H0). Qed.

Lemma zsets_from_set d k v :
  (forall z, v = VZSet z -> exists k0, db_get d k0 = Some (VZSet z)) -> zsets_from d (db_set d k v).
Proof.
  intros Hv k1 z. unfold db_get, db_set. cbn [kv].
  destruct (bytes_eq_dec k1 k) as [->|N].
  - rewrite alookup_aset_same. intros H. inversion H. apply Hv. assumption.
  - rewrite alookup_aset_other by exact N. intros H. exists k1. exact H.
Qed.

Lemma zsets_from_del d k : zsets_from d (db_del d k).
Proof.
  intros k1 z. unfold db_get, db_del. cbn [kv].
  destruct (bytes_eq_dec k1 k) as [->|N].
  - rewrite alookup_aremove_same. discriminate.
  - rewrite alookup_aremove_other by exact N. intros H. exists k1. exact H.
Qed.

Lemma zsets_from_set_ttl d k t : zsets_from d (db_set_ttl d k t).
Proof. unfold db_set_ttl. destruct (amem k (kv d)); intros k1 z H; exists k1; exact H. Qed.

Lemma zsets_from_del_ttl d k : zsets_from d (db_del_ttl d k).
Proof. intros k1 z H. exists k1. exact H. Qed.

Lemma zsets_from_purge d now : zsets_from d (purge d now).
Proof.
  intros k z. rewrite db_get_purge. destruct (expired d now k); [discriminate|].
  intros H. exists k. exact H.
Qed.

Lemma zsets_from_family (f : family) :
  (forall d now nowms n args hint r d', f d now nowms n args hint = Some (r, d') -> zsets_from d d') ->
  family_keeps_zsets f.
Proof. intros H d now nowms n args hint r d' O E. eapply zsets_from_ok; [eapply H; exact E|exact O]. Qed.
