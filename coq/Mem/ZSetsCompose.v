(* Composition of the sorted-set invariant with the other command families (Mem/Exec.v):
   if every family in [fs] keeps stored sorted sets valid, so does the whole dispatcher, [exec]
   (purge, then dispatch) and any sequence of commands.  [zsets_dispatch] is such a family
   (ZSetsProofs.zsets_dispatch_keeps_zsets); the other families only move or delete values. *)
Require Import Base.Bytes Base.GoInt Base.Reply Mem.Types Mem.Inv Mem.Avl Mem.AvlProofs Mem.ZSets Mem.ZSetsProofs.
Require Import Mem.Exec.
Local Open Scope Z_scope.

Lemma dispatch_keeps_zsets fs :
  Forall family_keeps_zsets fs ->
  forall d now nowms n args hint, db_zsets_ok d -> db_zsets_ok (snd (dispatch fs d now nowms n args hint)).
Proof.
  induction fs as [|f r IH]; intros F d now nowms n args hint O; [exact O|].
  apply Forall_cons_iff in F as [Ff Fr]. cbn [dispatch].
  destruct (f d now nowms n args hint) as [[rp d']|] eqn:E.
  - cbn [snd]. eapply Ff; eassumption.
  - apply IH; assumption.
Qed.

Lemma exec_keeps_zsets d now nowms args hint :
  Forall family_keeps_zsets families -> db_zsets_ok d -> db_zsets_ok (snd (exec d now nowms args hint)).
Proof.
  intros F O. unfold exec, exec_cmd. pose proof (db_zsets_ok_purge d now O) as O0.
  destruct args as [|name rest]; [exact O0|]. apply dispatch_keeps_zsets; assumption.
Qed.

(* any sequence of commands of any family, each with its clock and observed reply *)
Definition run_cmds (prog : list (Z * Z * list bytes * reply)) (d : db) : db :=
  fold_left (fun d c => let '(now, nowms, args, hint) := c in snd (exec d now nowms args hint)) prog d.

Lemma run_cmds_keeps_zsets prog d :
  Forall family_keeps_zsets families -> db_zsets_ok d -> db_zsets_ok (run_cmds prog d).
Proof.
  intros F. revert d. induction prog as [|[[[now nowms] args] hint] r IH]; intros d O; [exact O|].
  cbn. apply IH. apply exec_keeps_zsets; assumption.
Qed.
