(* List commands (memdb/list.go, memdb/list_struct.go) over [list bytes]. *)
Require Import Base.Bytes Base.GoInt Base.Reply Mem.Types.
Local Open Scope Z_scope.

Definition norm (len i : Z) : Z := if i <? 0 then len + i else i.

Definition znth (l : list bytes) (i : Z) : option bytes :=
  if (i <? 0) || (i >=? zlength l) then None else nth_error l (Z.to_nat i).

Definition zslice {A} (l : list A) (start stop : Z) : list A :=   (* l[start..stop] inclusive *)
  firstn (Z.to_nat (stop - start + 1)) (skipn (Z.to_nat start) l).

(* Range/Trim window: None = empty *)
Definition window (len start stop : Z) : option (Z * Z) :=
  let s := norm len start in
  let e := norm len stop in
  if (s >? e) || (s >=? len) || (e <? 0) then None
  else Some ((if s <? 0 then 0 else s), (if e >=? len then len - 1 else e)).

(* store the list back; an emptied list ceases to exist (key and deadline) *)
Definition put_list (d : db) (k : bytes) (l : list bytes) : db :=
  match l with [] => db_del d k | _ => db_set d k (VList l) end.

Inductive lookup_list := LMissing | LWrong | LFound (l : list bytes).
Definition get_list (d : db) (k : bytes) : lookup_list :=
  match db_get d k with
  | None => LMissing
  | Some (VList l) => LFound l
  | Some _ => LWrong
  end.

Definition exec_llen (d : db) (args : list bytes) : reply * db :=
  match args with
  | [_; k] => match get_list d k with
              | LMissing => (RInt 0, d) | LWrong => (err_wrongtype, d)
              | LFound l => (RInt (zlength l), d) end
  | _ => (err_other, d)
  end.

Definition exec_lindex (d : db) (args : list bytes) : reply * db :=
  match args with
  | [_; k; i] =>
    match atoi64 i with
    | None => (err_other, d)
    | Some i =>
      match get_list d k with
      | LMissing => (RNil, d) | LWrong => (err_wrongtype, d)
      | LFound l => match znth l (norm (zlength l) i) with
                    | Some x => (RBulk x, d) | None => (RNil, d) end
      end
    end
  | _ => (err_other, d)
  end.

Definition push_cmd (left create : bool) (d : db) (args : list bytes) : reply * db :=
  match args with
  | _ :: k :: ((_ :: _) as vals) =>
    let go (l : list bytes) :=
      let l' := if left then rev vals ++ l else l ++ vals in
      (RInt (zlength l'), db_set d k (VList l')) in
    match get_list d k with
    | LMissing => if create then go [] else (RInt 0, d)
    | LWrong => (err_wrongtype, d)
    | LFound l => go l
    end
  | _ => (err_other, d)
  end.

Definition pop_cmd (left : bool) (d : db) (args : list bytes) : reply * db :=
  let go (k : bytes) (cnt : option Z) :=
    match get_list d k with
    | LMissing => (RNil, d) | LWrong => (err_wrongtype, d)
    | LFound l =>
      match cnt with
      | None =>
        if left then
          match l with
          | [] => (RNil, d)
          | x :: r => (RBulk x, put_list d k r) end
        else
          match rev l with
          | [] => (RNil, d)
          | x :: r => (RBulk x, put_list d k (rev r)) end
      | Some n =>
        let n := Z.to_nat (Z.min n (zlength l)) in
        if left then (RArr (map RBulk (firstn n l)), put_list d k (skipn n l))
        else (RArr (map RBulk (firstn n (rev l))), put_list d k (rev (skipn n (rev l))))
      end
    end in
  match args with
  | [_; k] => go k None
  | [_; k; c] => match atoi64 c with
                 | Some n => if n <=? 0 then (err_other, d) else go k (Some n)
                 | None => (err_other, d) end
  | _ => (err_other, d)
  end.

Fixpoint list_set (l : list bytes) (i : nat) (v : bytes) : list bytes :=
  match l, i with
  | [], _ => []
  | _ :: r, O => v :: r
  | x :: r, S j => x :: list_set r j v
  end.

Definition exec_lset (d : db) (args : list bytes) : reply * db :=
  match args with
  | [_; k; i; v] =>
    match atoi64 i with
    | None => (err_other, d)
    | Some i =>
      match get_list d k with
      | LMissing => (err_other, d) | LWrong => (err_wrongtype, d)
      | LFound l =>
        let j := norm (zlength l) i in
        if (j <? 0) || (j >=? zlength l) then (err_other, d)
        else (rOK, db_set d k (VList (list_set l (Z.to_nat j) v)))
      end
    end
  | _ => (err_other, d)
  end.

(* remove the first [n] occurrences of v, head to tail *)
Fixpoint remove_first (v : bytes) (n : nat) (l : list bytes) : list bytes * Z :=
  match l, n with
  | [], _ => ([], 0)
  | _, O => (l, 0)
  | x :: r, S m =>
    if bytes_eqb x v then let '(r', c) := remove_first v m r in (r', c + 1)
    else let '(r', c) := remove_first v n r in (x :: r', c)
  end.

Definition exec_lrem (d : db) (args : list bytes) : reply * db :=
  match args with
  | [_; k; c; v] =>
    match atoi64 c with
    | None => (err_other, d)
    | Some c =>
      match get_list d k with
      | LMissing => (RInt 0, d) | LWrong => (err_wrongtype, d)
      | LFound l =>
        let len := List.length l in
        if c =? 0 then let '(l', n) := remove_first v len l in (RInt n, put_list d k l')
        else if c >? 0 then
          let '(l', n) := remove_first v (Z.to_nat (Z.min c (zlength l))) l in (RInt n, put_list d k l')
        else
          let '(l', n) := remove_first v (Z.to_nat (Z.min (- c) (zlength l))) (rev l) in
          (RInt n, put_list d k (rev l'))
      end
    end
  | _ => (err_other, d)
  end.

Definition exec_ltrim (d : db) (args : list bytes) : reply * db :=
  match args with
  | [_; k; s; e] =>
    match atoi64 s, atoi64 e with
    | Some s, Some e =>
      match get_list d k with
      | LMissing => (rOK, d) | LWrong => (err_wrongtype, d)
      | LFound l =>
        match window (zlength l) s e with
        | None => (rOK, db_del d k)
        | Some (a, b) => (rOK, put_list d k (zslice l a b))
        end
      end
    | _, _ => (err_other, d)
    end
  | _ => (err_other, d)
  end.

Definition exec_lrange (d : db) (args : list bytes) : reply * db :=
  match args with
  | [_; k; s; e] =>
    match atoi64 s, atoi64 e with
    | Some s, Some e =>
      match get_list d k with
      | LMissing => (RArr [], d) | LWrong => (err_wrongtype, d)
      | LFound l =>
        match window (zlength l) s e with
        | None => (RArr [], d)
        | Some (a, b) => (RArr (map RBulk (zslice l a b)), d)
        end
      end
    | _, _ => (err_other, d)
    end
  | _ => (err_other, d)
  end.

Definition exec_lmove (d : db) (args : list bytes) : reply * db :=
  match args with
  | [_; src; dst; sd; dd] =>
    let sd := lower sd in let dd := lower dd in
    let okdir x := is x (B "left") || is x (B "right") in
    if negb (okdir sd && okdir dd) then (err_other, d) else
    match get_list d src with
    | LMissing => (RNil, d) | LWrong => (err_wrongtype, d)
    | LFound l =>
      match (match get_list d dst with LMissing => Some [] | LFound x => Some x | LWrong => None end) with
      | None => (err_wrongtype, d)
      | Some _ =>
        let popped := if is sd (B "left") then (match l with x :: r => Some (x, r) | [] => None end)
                      else (match rev l with x :: r => Some (x, rev r) | [] => None end) in
        match popped with
        | None => (RNil, d)
        | Some (x, l') =>
          (* source = destination: the element is pushed back before the emptiness test, so the
             key (and its deadline) survives even when it held a single element *)
          if bytes_eqb src dst then
            (RBulk x, db_set d dst (VList (if is dd (B "left") then x :: l' else l' ++ [x])))
          else
          let d1 := put_list d src l' in
          let dl := match get_list d1 dst with LFound y => y | _ => [] end in
          let dl' := if is dd (B "left") then x :: dl else dl ++ [x] in
          (RBulk x, db_set d1 dst (VList dl'))
        end
      end
    end
  | _ => (err_other, d)
  end.

(* ---------- LPOS (reference algorithm of the command documentation) ---------- *)
Record lposopts := mkLpos { lp_rank : Z; lp_count : option Z; lp_maxlen : Z }.

Fixpoint lpos_parse (args : list bytes) (o : lposopts) : option lposopts :=
  match args with
  | [] => Some o
  | name :: v :: rest =>
    let n := lower name in
    match atoi64 v with
    | None => if is n (B "rank") || is n (B "count") || is n (B "maxlen") then None else None
    | Some x =>
      if is n (B "rank") then (if x =? 0 then None else lpos_parse rest (mkLpos x (lp_count o) (lp_maxlen o)))
      else if is n (B "count") then (if x <? 0 then None else lpos_parse rest (mkLpos (lp_rank o) (Some x) (lp_maxlen o)))
      else if is n (B "maxlen") then (if x <? 0 then None else lpos_parse rest (mkLpos (lp_rank o) (lp_count o) x))
      else None
    end
  | _ => None
  end.

(* scan [l] (already oriented in scan direction); idx = number of elements compared so far;
   matches = matches seen so far; returns the scan indexes reported *)
Fixpoint lpos_scan (l : list bytes) (v : bytes) (idx : Z) (matches : Z) (rank : Z) (maxlen : Z)
         (want : option Z) (found : Z) : list Z :=
  match l with
  | [] => []
  | x :: r =>
    if (negb (maxlen =? 0)) && (idx >=? maxlen) then []
    else if bytes_eqb x v then
      let matches := matches + 1 in
      if matches >=? rank then
        match want with
        | None => [idx]
        | Some c =>
          if (negb (c =? 0)) && (found + 1 >=? c) then [idx]
          else idx :: lpos_scan r v (idx + 1) matches rank maxlen want (found + 1)
        end
      else lpos_scan r v (idx + 1) matches rank maxlen want found
    else lpos_scan r v (idx + 1) matches rank maxlen want found
  end.

Definition exec_lpos (d : db) (args : list bytes) : reply * db :=
  match args with
  | _ :: k :: v :: opts =>
    match lpos_parse opts (mkLpos 1 None 0) with
    | None => (err_other, d)
    | Some o =>
      let none := match lp_count o with Some _ => RArr [] | None => RNil end in
      match get_list d k with
      | LMissing => (none, d) | LWrong => (err_wrongtype, d)
      | LFound l =>
        let len := zlength l in
        let back := lp_rank o <? 0 in
        let scan := lpos_scan (if back then rev l else l) v 0 0 (Z.abs (lp_rank o)) (lp_maxlen o) (lp_count o) 0 in
        let pos := map (fun i => if back then len - i - 1 else i) scan in
        match lp_count o with
        | Some _ => (RArr (map RInt pos), d)
        | None => match pos with p :: _ => (RInt p, d) | [] => (RNil, d) end
        end
      end
    end
  | _ => (err_other, d)
  end.

(* ---------- BLPOP / BRPOP, sequential view: the first poll happens 100 ms after the call ----------
   keys are examined in argument order; the first non-empty list is popped; a key of another
   type met before that is a WRONGTYPE error; otherwise nil at the timeout. *)
Fixpoint bpop_scan (left : bool) (d : db) (keys : list bytes) : reply * db :=
  match keys with
  | [] => (RNil, d)
  | k :: r =>
    match get_list d k with
    | LMissing => bpop_scan left d r
    | LWrong => (err_wrongtype, d)
    | LFound l =>
      if left then
        match l with
        | [] => bpop_scan left d r
        | x :: l' => (RArr [RBulk k; RBulk x], put_list d k l') end
      else
        match rev l with
        | [] => bpop_scan left d r
        | x :: l' => (RArr [RBulk k; RBulk x], put_list d k (rev l')) end
    end
  end.

Definition exec_bpop (left : bool) (d : db) (nowms : Z) (args : list bytes) : reply * db :=
  match args with
  | _ :: (_ :: _ :: _) as rest =>
    let keys := removelast rest in
    match atoi64 (last rest []) with
    | None => (err_other, d)
    | Some t =>
      if t <? 0 then (err_other, d)
      else bpop_scan left (purge d ((nowms + 100) / 1000)) keys
    end
  | _ => (err_other, d)
  end.
