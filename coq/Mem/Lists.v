(* List commands (memdb/list.go, memdb/list_struct.go) over [list bytes]. *)
Require Import Base.Bytes Base.GoInt Base.Reply Mem.Types.
Local Open Scope Z_scope.

Definition norm (len i : Z) : Z := if i <? 0 then len + i else i.

Definition znth (l : list bytes) (i : Z) : option bytes :=
  if (i <? 0) || (i >=? zlength l) then None else nth_error l (Z.to_nat i).

Definition zslice {A} (l : list A) (start stop : Z) : list A :=   (* l[start..stop] inclusive *)
  firstn (Z.to_nat (stop - start + 1)) (skipn (Z.to_nat start) l).

(* Range/Trim window: None = empty *)
Definition window (len start stop : Z) : option (Z * Z) :=
  let s := norm len start in
  let e := norm len stop in
  if (s >? e) || (s >=? len) || (e <? 0) then None
  else Some ((if s <? 0 then 0 else s), (if e >=? len then len - 1 else e)).

(* store the list back; an emptied list ceases to exist (key and deadline) *)
Definition put_list (d : db) (k : bytes) (l : list bytes) : db :=
  match l with [] => db_del d k | _ => db_set d k (VList l) end.

Inductive lookup_list := LMissing | LWrong | LFound (l : list bytes).
Definition get_list (d : db) (k : bytes) : lookup_list :=
  match db_get d k with
  | None => LMissing
  | Some (VList l) => LFound l
  | Some _ => LWrong
  end.

Definition exec_llen (d : db) (args : list bytes) : reply * db :=
  match args with
  | [_; k] => match get_list d k with
              | LMissing => (RInt 0, d) | LWrong => (err_wrongtype, d)
              | LFound l => (RInt (zlength l), d) end
  | _ => (err_other, d)
  end.

Definition exec_lindex (d : db) (args : list bytes) : reply * db :=
  match args with
  | [_; k; i] =>
    match atoi64 i with
    | None => (err_other, d)
    | Some i =>
      match get_list d k with
      | LMissing => (RNil, d) | LWrong => (err_wrongtype, d)
      | LFound l => match znth l (norm (zlength l) i) with
                    | Some x => (RBulk x, d) | None => (RNil, d) end
      end
    end
  | _ => (err_other, d)
  end.

Definition push_cmd (left create : bool) (d : db) (args : list bytes) : reply * db :=
  match args with
  | _ :: k :: ((_ :: _) as vals) =>
    let go (l : list bytes) :=
      let l' := if left then rev vals ++ l else l ++ vals in
      (RInt (zlength l'), db_set d k (VList l')) in
    match get_list d k with
    | LMissing => if create then go [] else (RInt 0, d)
    | LWrong => (err_wrongtype, d)
    | LFound l => go l
    end
  | _ => (err_other, d)
  end.

Definition pop_cmd (left : bool) (d : db) (args : list bytes) : reply * db :=
  let go (k : bytes) (cnt : option Z) :=
    match get_list d k with
    | LMissing => (RNil, d) | LWrong => (err_wrongtype, d)
    | LFound l =>
      match cnt with
      | None =>
        if left then
          match l with
          | [] => (RNil, d)
          | x :: r => (RBulk x, put_list d k r) end
        else
          match rev l with
          | [] => (RNil, d)
          | x :: r => (RBulk x, put_list d k (rev r)) end
      | Some n =>
        let n := Z.to_nat (Z.min n (zlength l)) in
        if left then (RArr (map RBulk (firstn n l)), put_list d k (skipn n l))
        else (RArr (map RBulk (firstn n (rev l))), put_list d k (rev (skipn n (rev l))))
      end
    end in
  match args with
  | [_; k] => go k None
  | [_; k; c] => match atoi64 c with
                 | Some n => if n <? 0 then (err_other, d) else go k (Some n)   (* count 0: empty array *)
                 | None => (err_other, d) end
  | _ => (err_other, d)
  end.

Fixpoint list_set (l : list bytes) (i : nat) (v : bytes) : list bytes :=
  match l, i with
  | [], _ => []
  | _ :: r, O => v :: r
  | x :: r, S j => x :: list_set r j v
  end.

Definition exec_lset (d : db) (args : list bytes) : reply * db :=
  match args with
  | [_; k; i; v] =>
    match atoi64 i with
    | None => (err_other, d)
    | Some i =>
      match get_list d k with
      | LMissing => (err_other, d) | LWrong => (err_wrongtype, d)
      | LFound l =>
        let j := norm (zlength l) i in
        if (j <? 0) || (j >=? zlength l) then (err_other, d)
        else (rOK, db_set d k (VList (list_set l (Z.to_nat j) v)))
      end
    end
  | _ => (err_other, d)
  end.

(* remove the first [n] occurrences of v, head to tail *)
Fixpoint remove_first (v : bytes) (n : nat) (l : list bytes) : list bytes * Z :=
  match l, n with
  | [], _ => ([], 0)
  | _, O => (l, 0)
  | x :: r, S m =>
    if bytes_eqb x v then let '(r', c) := remove_first v m r in (r', c + 1)
    else let '(r', c) := remove_first v n r in (x :: r', c)
  end.

Definition exec_lrem (d : db) (args : list bytes) : reply * db :=
  match args with
  | [_; k; c; v] =>
    match atoi64 c with
    | None => (err_other, d)
    | Some c =>
      match get_list d k with
      | LMissing => (RInt 0, d) | LWrong => (err_wrongtype, d)
      | LFound l =>
        let len := List.length l in
        if c =? 0 then let '(l', n) := remove_first v len l in (RInt n, put_list d k l')
        else if c >? 0 then
          let '(l', n) := remove_first v (Z.to_nat (Z.min c (zlength l))) l in (RInt n, put_list d k l')
        else
          let '(l', n) := remove_first v (Z.to_nat (Z.min (- c) (zlength l))) (rev l) in
          (RInt n, put_list d k (rev l'))
      end
    end
  | _ => (err_other, d)
  end.

Definition exec_ltrim (d : db) (args : list bytes) : reply * db :=
  match args with
  | [_; k; s; e] =>
    match atoi64 s, atoi64 e with
    | Some s, Some e =>
      match get_list d k with
      | LMissing => (rOK, d) | LWrong => (err_wrongtype, d)
      | LFound l =>
        match window (zlength l) s e with
        | None => (rOK, db_del d k)
        | Some (a, b) => (rOK, put_list d k (zslice l a b))
        end
      end
    | _, _ => (err_other, d)
    end
  | _ => (err_other, d)
  end.

Definition exec_lrange (d : db) (args : list bytes) : reply * db :=
  match args with
  | [_; k; s; e] =>
    match atoi64 s, atoi64 e with
    | Some s, Some e =>
      match get_list d k with
      | LMissing => (RArr [], d) | LWrong => (err_wrongtype, d)
      | LFound l =>
        match window (zlength l) s e with
        | None => (RArr [], d)
        | Some (a, b) => (RArr (map RBulk (zslice l a b)), d)
        end
      end
    | _, _ => (err_other, d)
    end
  | _ => (err_other, d)
  end.

Definition exec_lmove (d : db) (args : list bytes) : reply * db :=
  match args with
  | [_; src; dst; sd; dd] =>
    let sd := lower sd in let dd := lower dd in
    let okdir x := is x (B "left") || is x (B "right") in
    if negb (okdir sd && okdir dd) then (err_other, d) else
    match get_list d src with
    | LMissing => (RNil, d) | LWrong => (err_wrongtype, d)
    | LFound l =>
      match (match get_list d dst with LMissing => Some [] | LFound x => Some x | LWrong => None end) with
      | None => (err_wrongtype, d)
      | Some _ =>
        let popped := if is sd (B "left") then (match l with x :: r => Some (x, r) | [] => None end)
                      else (match rev l with x :: r => Some (x, rev r) | [] => None end) in
        match popped with
        | None => (RNil, d)
        | Some (x, l') =>
          if bytes_eqb src dst then
            (* same *List object: popped and pushed back, it never becomes empty, so the key
               (and its deadline) stay *)
            (RBulk x, db_set d src (VList (if is dd (B "left") then x :: l' else l' ++ [x])))
          else
            let d1 := put_list d src l' in
            let dl := match get_list d dst with LFound y => y | _ => [] end in
            let dl' := if is dd (B "left") then x :: dl else dl ++ [x] in
            (RBulk x, db_set d1 dst (VList dl'))
        end
      end
    end
  | _ => (err_other, d)
  end.

(* ---------- LPOS (reference algorithm of the command documentation) ---------- *)
Record lposopts := mkLpos { lp_rank : Z; lp_count : option Z; lp_maxlen : Z }.

Fixpoint lpos_parse (args : list bytes) (o : lposopts) : option lposopts :=
  match args with
  | [] => Some o
  | name :: v :: rest =>
    let n := lower name in
    match atoi64 v with
    | None => if is n (B "rank") || is n (B "count") || is n (B "maxlen") then None else None
    | Some x =>
      if is n (B "rank") then (if x =? 0 then None else lpos_parse rest (mkLpos x (lp_count o) (lp_maxlen o)))
      else if is n (B "count") then (if x <? 0 then None else lpos_parse rest (mkLpos (lp_rank o) (Some x) (lp_maxlen o)))
      else if is n (B "maxlen") then (if x <? 0 then None else lpos_parse rest (mkLpos (lp_rank o) (lp_count o) x))
      else None
    end
  | _ => None
  end.

(* scan [l] (already oriented in scan direction); idx = number of elements compared so far;
   matches = matches seen so far; returns the scan indexes reported *)
Fixpoint lpos_scan (l : list bytes) (v : bytes) (idx : Z) (matches : Z) (rank : Z) (maxlen : Z)
         (want : option Z) (found : Z) : list Z :=
  match l with
  | [] => []
  | x :: r =>
    if (negb (maxlen =? 0)) && (idx >=? maxlen) then []
    else if bytes_eqb x v then
      let matches := matches + 1 in
      if matches >=? rank then
        match want with
        | None => [idx]
        | Some c =>
          if (negb (c =? 0)) && (found + 1 >=? c) then [idx]
          else idx :: lpos_scan r v (idx + 1) matches rank maxlen want (found + 1)
        end
      else lpos_scan r v (idx + 1) matches rank maxlen want found
    else lpos_scan r v (idx + 1) matches rank maxlen want found
  end.

Definition exec_lpos (d : db) (args : list bytes) : reply * db :=
  match args with
  | _ :: k :: v :: opts =>
    match lpos_parse opts (mkLpos 1 None 0) with
    | None => (err_other, d)
    | Some o =>
      let none := match lp_count o with Some _ => RArr [] | None => RNil end in
      match get_list d k with
      | LMissing => (none, d) | LWrong => (err_wrongtype, d)
      | LFound l =>
        let len := zlength l in
        let back := lp_rank o <? 0 in
        let scan := lpos_scan (if back then rev l else l) v 0 0 (Z.abs (lp_rank o)) (lp_maxlen o) (lp_count o) 0 in
        let pos := map (fun i => if back then len - i - 1 else i) scan in
        match lp_count o with
        | Some _ => (RArr (map RInt pos), d)
        | None => match pos with p :: _ => (RInt p, d) | [] => (RNil, d) end
        end
      end
    end
  | _ => (err_other, d)
  end.

(* ---------- BLPOP / BRPOP (bXPopList) ----------
   The executor arms a timer for the timeout and a 100 ms ticker, then loops: at every tick it
   walks the listed keys in argument order (CheckTTL, lock, look up): a key of another type is a
   WRONGTYPE error, the first non-empty list is popped (and deleted when emptied) and
   [key, element] returned; when the timer fires the reply is nil.  Time is virtual (ms). *)

(* one polling round over the listed keys; None = nothing to pop *)
Fixpoint bpop_try (left : bool) (d : db) (keys : list bytes) : option (reply * db) :=
  match keys with
  | [] => None
  | k :: r =>
    match get_list d k with
    | LMissing => bpop_try left d r
    | LWrong => Some (err_wrongtype, d)
    | LFound l =>
      if left then
        match l with
        | [] => bpop_try left d r
        | x :: l' => Some (RArr [RBulk k; RBulk x], put_list d k l') end
      else
        match rev l with
        | [] => bpop_try left d r
        | x :: l' => Some (RArr [RBulk k; RBulk x], put_list d k (rev l')) end
    end
  end.

(* the polling round at virtual instant [tms]: keys whose deadline has passed are gone *)
Definition bpop_poll (left : bool) (keys : list bytes) (d : db) (tms : Z) : option (reply * db) :=
  bpop_try left (purge d (tms / 1000)) keys.

(* iterate [f] at most [p] times, stopping at the first [inl] (binary recursion, so that a huge
   bound -- timeout 0 blocks "forever" -- costs nothing when the loop ends early) *)
Fixpoint iter_until {X Y : Type} (p : positive) (f : X -> Y + X) (x : X) : Y + X :=
  match p with
  | xH => f x
  | xO q => match iter_until q f x with
            | inl y => inl y
            | inr x1 => iter_until q f x1 end
  | xI q => match f x with
            | inl y => inl y
            | inr x0 => match iter_until q f x0 with
                        | inl y => inl y
                        | inr x1 => iter_until q f x1 end
            end
  end.

(* A blocked command as a process over virtual time, generic in the state [S] it polls
   ([db] for the executor, the whole server for the trace replayer), the result [R] of a
   successful poll, and the actions of *other* connections that happen while it is blocked:
   [evs] = (instant in ms, action) in chronological order, each producing an output [O]. *)
Section Block.
  Context {S O R : Type}.
  Variable poll : S -> Z -> option (R * S).
  Definition bev := (Z * (S -> O * S))%type.

  (* run the actions due strictly before instant t *)
  Fixpoint run_due (t : Z) (evs : list bev) (s : S) : list bev * S * list O :=
    match evs with
    | [] => ([], s, [])
    | (te, f) :: r =>
      if te <? t then
        let '(o, s1) := f s in
        let '(evs', s2, os) := run_due t r s1 in (evs', s2, o :: os)
      else (evs, s, [])
    end.

  Record bst := mkBst { b_tick : Z; b_evs : list bev; b_s : S; b_out : list O }.

  (* tick number b_tick+1 at instant t0 + 100*(b_tick+1) *)
  Definition btick (t0 : Z) (st : bst) : (R * bst) + bst :=
    let i := b_tick st + 1 in
    let t := t0 + 100 * i in
    let '(evs, s, os) := run_due t (b_evs st) (b_s st) in
    match poll s t with
    | Some (r, s') => inl (r, mkBst i evs s' (b_out st ++ os))
    | None => inr (mkBst i evs s (b_out st ++ os))
    end.

  (* number of ticks strictly before the timer, and the timer instant relative to t0 (ms).
     timeout 0: the timer is math.MaxInt ns. *)
  Definition block_ticks (timeout_s : Z) : positive :=
    if timeout_s =? 0 then 92233720368%positive else Z.to_pos (10 * timeout_s - 1).
  Definition block_timer_ms (timeout_s : Z) : Z :=
    if timeout_s =? 0 then 9223372036854 else 1000 * timeout_s.

  (* [nticks] ticks strictly before the timer, which fires [timer_ms] after t0.
     result (None = the timer fired), end instant, remaining actions, state, outputs so far.
     At an instant where a tick and the timer coincide Go's select may take either branch; here
     the timer wins (they differ only for an element that arrives during the last 100 ms). *)
  Definition block_n (t0 : Z) (nticks : positive) (timer_ms : Z) (evs : list bev) (s : S)
    : option R * Z * list bev * S * list O :=
    match iter_until nticks (btick t0) (mkBst 0 evs s []) with
    | inl (r, st) => (Some r, t0 + 100 * b_tick st, b_evs st, b_s st, b_out st)
    | inr st =>
      let tend := t0 + timer_ms in
      let '(evs', s', os) := run_due tend (b_evs st) (b_s st) in
      (None, tend, evs', s', b_out st ++ os)
    end.

  Definition block (t0 timeout_s : Z) (evs : list bev) (s : S)
    : option R * Z * list bev * S * list O :=
    block_n t0 (block_ticks timeout_s) (block_timer_ms timeout_s) evs s.
End Block.

(* argument vector of BLPOP/BRPOP: keys and timeout in whole seconds *)
Definition bpop_parse (args : list bytes) : option (list bytes * Z) :=
  match args with
  | _ :: (_ :: _ :: _) as rest =>
    match atoi64 (last rest []) with
    | None => None
    | Some t => if (t <? 0) || (t >? 9223372036) then None else Some (removelast rest, t)
    end
  | _ => None
  end.

(* reply, database, instant (ms) at which the command returns *)
Definition bpop_run (left : bool) (d : db) (nowms : Z) (args : list bytes) : reply * db * Z :=
  match bpop_parse args with
  | None => (err_other, d, nowms)
  | Some (keys, t) =>
    match block (O := unit) (bpop_poll left keys) nowms t [] d with
    | (Some r, tend, _, d', _) => (r, d', tend)
    | (None, tend, _, d', _) => (RNil, d', tend)
    end
  end.

Definition exec_bpop (left : bool) (d : db) (nowms : Z) (args : list bytes) : reply * db :=
  fst (bpop_run left d nowms args).
