(* Keyspace model: values, association lists, deadlines. *)
Require Import Base.Bytes Base.GoInt Base.Reply.
Local Open Scope Z_scope.

(* sorted-set scores: exact decimals m * 10^-e, plus the two infinities *)
Inductive score := SNegInf | SFin (m : Z) (e : N) | SPosInf.

(* AVL tree of the sorted set (memdb/btree.go): node = score + members sharing it + stored height *)
Inductive tree :=
| Leaf
| Node (l : tree) (sc : score) (names : list bytes) (h : Z) (r : tree).

Record zset := mkZ { zroot : tree; zlen : Z; zdict : list (bytes * score) }.

Definition sid := (Z * Z)%type.                       (* stream id: (ms, seq) *)
Definition sentry := (sid * list bytes)%type.         (* id, flat field/value list *)

Inductive value :=
| VStr (b : bytes)
| VList (l : list bytes)
| VSet (s : list bytes)
| VHash (h : list (bytes * bytes))
| VZSet (z : zset)
| VStream (x : list sentry).

(* ---- association lists keyed by byte strings (Go maps; order = insertion order) ---- *)
Section Assoc.
  Context {A : Type}.
  Fixpoint alookup (k : bytes) (l : list (bytes * A)) : option A :=
    match l with
    | [] => None
    | (k', v) :: r => if bytes_eqb k k' then Some v else alookup k r
    end.
  Fixpoint aremove (k : bytes) (l : list (bytes * A)) : list (bytes * A) :=
    match l with
    | [] => []
    | (k', v) :: r => if bytes_eqb k k' then aremove k r else (k', v) :: aremove k r
    end.
  Fixpoint areplace (k : bytes) (v : A) (l : list (bytes * A)) : list (bytes * A) :=
    match l with
    | [] => []
    | (k', v') :: r => if bytes_eqb k k' then (k', v) :: r else (k', v') :: areplace k v r
    end.
  Definition aset (k : bytes) (v : A) (l : list (bytes * A)) : list (bytes * A) :=
    match alookup k l with
    | Some _ => areplace k v l
    | None => l ++ [(k, v)]
    end.
  Definition amem (k : bytes) (l : list (bytes * A)) : bool :=
    match alookup k l with Some _ => true | None => false end.
  Definition akeys (l : list (bytes * A)) : list bytes := map fst l.
End Assoc.

Record db := mkDb { kv : list (bytes * value); ttl : list (bytes * Z) }.

Definition empty_db : db := mkDb [] [].

Definition db_get (d : db) (k : bytes) : option value := alookup k (kv d).
Definition db_set (d : db) (k : bytes) (v : value) : db := mkDb (aset k v (kv d)) (ttl d).
(* delete the key and its deadline *)
Definition db_del (d : db) (k : bytes) : db := mkDb (aremove k (kv d)) (aremove k (ttl d)).
Definition db_ttl (d : db) (k : bytes) : option Z := alookup k (ttl d).
Definition db_set_ttl (d : db) (k : bytes) (t : Z) : db :=
  if amem k (kv d) then mkDb (kv d) (aset k t (ttl d)) else d.        (* SetTTL: key must exist *)
Definition db_del_ttl (d : db) (k : bytes) : db := mkDb (kv d) (aremove k (ttl d)).

(* a key is live at clock [now] iff it has no deadline or now < deadline *)
Definition expired (d : db) (now : Z) (k : bytes) : bool :=
  match db_ttl d k with Some t => t <=? now | None => false end.

(* what every command sees: all keys whose deadline has passed are gone *)
Definition purge (d : db) (now : Z) : db :=
  mkDb (filter (fun p => negb (expired d now (fst p))) (kv d))
       (filter (fun p => negb (snd p <=? now)) (ttl d)).

(* ---- error replies: compared by class only ---- *)
Definition str (s : list byte) : bytes := s.
Definition err_wrongtype : reply :=
  RErr ("W"::"R"::"O"::"N"::"G"::"T"::"Y"::"P"::"E"::nil)%byte.
Definition err_other : reply := RErr ("E"::"R"::"R"::nil)%byte.
Definition rOK : reply := RSimple ("O"::"K"::nil)%byte.

Definition lower_byte (c : byte) : byte :=
  let n := bval c in
  if (65 <=? n)%N && (n <=? 90)%N then
    match Byte.of_N (n + 32) with Some b => b | None => c end
  else c.
Definition lower (s : bytes) : bytes := map lower_byte s.

Definition zlength {A} (l : list A) : Z := Z.of_nat (length l).

(* compile-time byte-string literals:  B "text"  *)
From Coq Require Export Strings.String.
Notation "'B' s" := (ltac:(let v := eval compute in (list_byte_of_string s) in exact v))
  (at level 0, s at level 0, only parsing).
Definition is (s : bytes) (name : bytes) : bool := bytes_eqb s name.
