(* The set family inside the command dispatch of Mem/Exec.v: for the fourteen set command names,
   one step of [Exec.exec] IS [SetsProofs.sets_step] -- so every theorem about [sets_step] is a
   theorem about the model the differential check runs.
   The proof does not depend on which families [Exec.families] lists nor on their order: for
   each of the fourteen concrete names, [dispatch families] reduces by computation -- every
   family other than [sets_dispatch] is an [if is n (B "...")] chain that answers None on that
   name -- to what [sets_dispatch] answers.  (It breaks, as it should, only when a family listed
   before [sets_dispatch] claims a set command name.) *)
Require Import Base.Bytes Base.GoInt Base.Reply Mem.Types Mem.Inv Mem.Sets.
Require Import Mem.Exec Mem.SetsProofs.
Local Open Scope Z_scope.

Lemma dispatch_set_name n d now nowms args hint :
  In n sets_names ->
  sets_dispatch d now nowms n args hint = Some (dispatch families d now nowms n args hint).
Proof.
  intros H. cbn in H.
  repeat (destruct H as [<-|H]; [reflexivity|]). destruct H.
Qed.

Theorem exec_is_sets_step d now nowms c args hint r d' :
  In (lower c) sets_names ->
  (exec d now nowms (c :: args) hint = (r, d') <->
   sets_step d now nowms (lower c) (c :: args) hint = Some (r, d')).
Proof.
  intros Hn. unfold exec, exec_cmd, sets_step.
  rewrite (dispatch_set_name (lower c) (purge d now) now nowms (c :: args) hint Hn).
  split; [intros ->; reflexivity|intros H; inversion H; reflexivity].
Qed.

(* ------------------------------------------------------------------ the value invariant over all families
   [sets_ok] (every stored set duplicate-free and non-empty) is preserved by [exec] -- purge, then
   whichever family answers -- as soon as every family of [Exec.families] keeps it.
   [sets_dispatch] does (SetsProofs.sets_dispatch_sets_ok); a family that never stores a set it
   did not find in the database does ([sets_from], toolkit below).  The hypothesis
   [Forall family_keeps_sets families] is left to the integration, exactly as
   ZSetsCompose.exec_keeps_zsets leaves [Forall family_keeps_zsets families]. *)
Definition family_keeps_sets (f : family) : Prop :=
  forall d now nowms n args hint r d',
    db_wf d -> sets_ok d -> f d now nowms n args hint = Some (r, d') -> sets_ok d'.

Lemma sets_dispatch_keeps_sets : family_keeps_sets sets_dispatch.
Proof. intros d now nowms n args hint r d' _ OK H. eapply sets_dispatch_sets_ok; eassumption. Qed.

Definition family_keeps_wf (f : family) : Prop :=
  forall d now nowms n args hint r d', db_wf d -> f d now nowms n args hint = Some (r, d') -> db_wf d'.

Lemma dispatch_keeps_sets fs :
  Forall family_keeps_sets fs ->
  forall d now nowms n args hint, db_wf d -> sets_ok d ->
    sets_ok (snd (dispatch fs d now nowms n args hint)).
Proof.
  induction fs as [|f r IH]; intros F d now nowms n args hint W O; [exact O|].
  apply Forall_cons_iff in F as [Ff Fr]. cbn [dispatch].
  destruct (f d now nowms n args hint) as [[rp d']|] eqn:E.
  - cbn [snd]. eapply Ff; eassumption.
  - apply IH; assumption.
Qed.

Lemma dispatch_keeps_wf fs :
  Forall family_keeps_wf fs ->
  forall d now nowms n args hint, db_wf d -> db_wf (snd (dispatch fs d now nowms n args hint)).
Proof.
  induction fs as [|f r IH]; intros F d now nowms n args hint W; [exact W|].
  apply Forall_cons_iff in F as [Ff Fr]. cbn [dispatch].
  destruct (f d now nowms n args hint) as [[rp d']|] eqn:E.
  - cbn [snd]. eapply Ff; eassumption.
  - apply IH; assumption.
Qed.

Theorem exec_keeps_sets_ok d now nowms args hint :
  Forall family_keeps_sets families -> db_wf d -> sets_ok d ->
  sets_ok (snd (exec d now nowms args hint)).
Proof.
  intros F W O. unfold exec, exec_cmd.
  pose proof (sets_ok_purge d now O) as O0. pose proof (db_wf_purge d now W) as W0.
  destruct args as [|name rest]; [exact O0|]. apply dispatch_keeps_sets; assumption.
Qed.

Theorem exec_keeps_wf d now nowms args hint :
  Forall family_keeps_wf families -> db_wf d -> db_wf (snd (exec d now nowms args hint)).
Proof.
  intros F W. unfold exec, exec_cmd. pose proof (db_wf_purge d now W) as W0.
  destruct args as [|name rest]; [exact W0|]. apply dispatch_keeps_wf; assumption.
Qed.

(* any sequence of commands of any family, each with its clock and observed reply *)
Definition run_exec (prog : list (Z * Z * list bytes * reply)) (d : db) : db :=
  fold_left (fun d c => let '(now, nowms, args, hint) := c in snd (exec d now nowms args hint)) prog d.

Theorem run_exec_invariants prog :
  Forall family_keeps_wf families -> Forall family_keeps_sets families ->
  forall d, db_wf d -> sets_ok d -> db_wf (run_exec prog d) /\ sets_ok (run_exec prog d).
Proof.
  intros Fw Fs. unfold run_exec.
  induction prog as [|[[[now nowms] args] hint] r IH]; intros d W O; [split; assumption|].
  cbn [fold_left]. apply IH; [apply exec_keeps_wf|apply exec_keeps_sets_ok]; assumption.
Qed.

(* ---- toolkit: a command that stores no set it did not find keeps the invariant ---- *)
Definition sets_from (d d' : db) : Prop :=
  forall k s, db_get d' k = Some (VSet s) -> exists k0, db_get d k0 = Some (VSet s).

Lemma sets_from_ok d d' : sets_from d d' -> sets_ok d -> sets_ok d'.
Proof.
  intros F O k v H. destruct v; try exact I. destruct (F k s H) as [k0 H0]. exact (O k0 _ H0).
Qed.
Lemma sets_from_refl d : sets_from d d.
Proof. intros k s H. exists k. exact H. Qed.
Lemma sets_from_trans d1 d2 d3 : sets_from d1 d2 -> sets_from d2 d3 -> sets_from d1 d3.
Proof. intros F1 F2 k s H. destruct (F2 k s H) as [k0 H0]. exact (F1 k0 s H0). Qed.
Lemma sets_from_set d k v :
  (forall s, v = VSet s -> exists k0, db_get d k0 = Some (VSet s)) -> sets_from d (db_set d k v).
Proof.
  intros Hv k1 s. rewrite db_get_set. destruct (bytes_eqb k1 k).
  - intros H. inversion H. apply Hv. assumption.
  - intros H. exists k1. exact H.
Qed.
Lemma sets_from_del d k : sets_from d (db_del d k).
Proof.
  intros k1 s. rewrite db_get_del. destruct (bytes_eqb k1 k); [discriminate|].
  intros H. exists k1. exact H.
Qed.
Lemma sets_from_set_ttl d k t : sets_from d (db_set_ttl d k t).
Proof. unfold db_set_ttl. destruct (amem k (kv d)); intros k1 s H; exists k1; exact H. Qed.
Lemma sets_from_del_ttl d k : sets_from d (db_del_ttl d k).
Proof. intros k1 s H. exists k1. exact H. Qed.
Lemma sets_from_purge d now : sets_from d (purge d now).
Proof.
  intros k s. rewrite db_get_purge. destruct (expired d now k); [discriminate|].
  intros H. exists k. exact H.
Qed.
Lemma sets_from_family (f : family) :
  (forall d now nowms n args hint r d', f d now nowms n args hint = Some (r, d') -> sets_from d d') ->
  family_keeps_sets f.
Proof. intros H d now nowms n args hint r d' _ O E. eapply sets_from_ok; [eapply H; exact E|exact O]. Qed.
