(* The set family inside the command dispatch of Mem/Exec.v: for the fourteen set command names,
   one step of [Exec.exec] IS [SetsProofs.sets_step] -- so every theorem about [sets_step] is a
   theorem about the model the differential check runs.
   (This file is the only one of the family that depends on the order of [Exec.families]: the
   families listed before [sets_dispatch] must not claim a set command name.) *)
Require Import Base.Bytes Base.GoInt Base.Reply Mem.Types Mem.Inv Mem.Strings Mem.Lists Mem.Sets.
Require Import Mem.Exec Mem.SetsProofs.
Local Open Scope Z_scope.

Lemma dispatch_skip (fs1 : list family) f fs2 d now nowms n args hint res :
  (forall g, In g fs1 -> g d now nowms n args hint = None) ->
  f d now nowms n args hint = Some res ->
  dispatch (fs1 ++ f :: fs2) d now nowms n args hint = res.
Proof.
  induction fs1 as [|g fs1 IH]; intros H E; cbn.
  - rewrite E. reflexivity.
  - rewrite (H g (or_introl eq_refl)). apply IH; [|exact E].
    intros g' Hg'. apply H. right. exact Hg'.
Qed.

(* no earlier family answers to a set command name *)
Lemma earlier_families_decline n d now nowms args hint :
  In n sets_names ->
  strings_dispatch d now nowms n args hint = None /\ lists_dispatch d now nowms n args hint = None.
Proof.
  intros H. cbn in H.
  repeat (destruct H as [<-|H]; [split; reflexivity|]). destruct H.
Qed.

Theorem exec_is_sets_step d now nowms c args hint r d' :
  In (lower c) sets_names ->
  (exec d now nowms (c :: args) hint = (r, d') <->
   sets_step d now nowms (lower c) (c :: args) hint = Some (r, d')).
Proof.
  intros Hn. unfold exec, exec_cmd, sets_step.
  destruct (sets_dispatch (purge d now) now nowms (lower c) (c :: args) hint) as [res|] eqn:E.
  - assert (X : dispatch families (purge d now) now nowms (lower c) (c :: args) hint = res).
    { change families with ([strings_dispatch; lists_dispatch] ++ sets_dispatch :: []).
      apply dispatch_skip; [|exact E].
      destruct (earlier_families_decline (lower c) (purge d now) now nowms (c :: args) hint Hn) as [A1 A2].
      intros g [<-|[<-|[]]]; assumption. }
    rewrite X. split; [intros ->; reflexivity|intros H; inversion H; reflexivity].
  - exfalso. revert E. apply sets_names_handled. exact Hn.
Qed.
