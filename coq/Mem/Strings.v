(* String and generic key commands (memdb/string.go, memdb/keys.go), as the code stands after
   the fix commits; written as total functions  db -> now -> args -> reply * db.
   The caller (Exec.exec) has already removed every key whose deadline has passed. *)
Require Import Base.Bytes Base.GoInt Base.Reply Mem.Types Glob.GlobModel.
Local Open Scope Z_scope.

Definition max_string_len : Z := 512 * 1024 * 1024.

(* ---------- SET ---------- *)
Record setopts := mkSetOpts {
  o_nx : bool; o_xx : bool; o_get : bool; o_keepttl : bool;
  o_ex : option Z; o_px : option Z; o_exat : option Z }.
Definition setopts0 := mkSetOpts false false false false None None None.

(* the option loop of setString; None = error reply *)
Fixpoint set_parse (args : list bytes) (o : setopts) : option setopts :=
  match args with
  | [] => Some o
  | a :: rest =>
    let la := lower a in
    if is la (B "nx") then set_parse rest (mkSetOpts true (o_xx o) (o_get o) (o_keepttl o) (o_ex o) (o_px o) (o_exat o))
    else if is la (B "xx") then set_parse rest (mkSetOpts (o_nx o) true (o_get o) (o_keepttl o) (o_ex o) (o_px o) (o_exat o))
    else if is la (B "get") then set_parse rest (mkSetOpts (o_nx o) (o_xx o) true (o_keepttl o) (o_ex o) (o_px o) (o_exat o))
    else if is la (B "keepttl") then set_parse rest (mkSetOpts (o_nx o) (o_xx o) (o_get o) true (o_ex o) (o_px o) (o_exat o))
    else if is la (B "exat") then
      match rest with
      | v :: rest' => match atoi64 v with
                      | Some n => set_parse rest' (mkSetOpts (o_nx o) (o_xx o) (o_get o) (o_keepttl o) (o_ex o) (o_px o) (Some n))
                      | None => None end
      | [] => None end
    else if is la (B "ex") then
      match rest with
      | v :: rest' => match atoi64 v with
                      | Some n => set_parse rest' (mkSetOpts (o_nx o) (o_xx o) (o_get o) (o_keepttl o) (Some n) (o_px o) (o_exat o))
                      | None => None end
      | [] => None end
    else if is la (B "px") then
      match rest with
      | v :: rest' => match atoi64 v with
                      | Some n => set_parse rest' (mkSetOpts (o_nx o) (o_xx o) (o_get o) (o_keepttl o) (o_ex o) (Some n) (o_exat o))
                      | None => None end
      | [] => None end
    else None
  end.

Definition isSome {A} (o : option A) : bool := match o with Some _ => true | None => false end.
Definition nonpos (o : option Z) : bool := match o with Some n => n <=? 0 | None => false end.

Definition set_conflict (o : setopts) : bool :=
  (o_nx o && o_xx o) || (isSome (o_ex o) && o_keepttl o) || (isSome (o_ex o) && isSome (o_px o))
  || (isSome (o_ex o) && isSome (o_exat o)) || (isSome (o_px o) && isSome (o_exat o))
  || (isSome (o_px o) && o_keepttl o) || (isSome (o_exat o) && o_keepttl o)
  || nonpos (o_ex o) || nonpos (o_px o) || nonpos (o_exat o).
Definition ex_overflow (now : Z) (o : option Z) : bool :=
  match o with Some n => negb (in_int64 (now + n)) | None => false end.

Definition set_apply_ttl (d : db) (now : Z) (k : bytes) (o : setopts) : db :=
  let d1 := if o_keepttl o then d else db_del_ttl d k in
  let d2 := match o_ex o with Some n => db_set_ttl d1 k (now + n) | None => d1 end in
  let d3 := match o_px o with Some n => db_set_ttl d2 k (now + (n + 999) / 1000) | None => d2 end in
  match o_exat o with Some n => db_set_ttl d3 k n | None => d3 end.

Definition exec_set (d : db) (now : Z) (args : list bytes) : reply * db :=
  match args with
  | _ :: k :: v :: opts =>
    match set_parse opts setopts0 with
    | None => (err_other, d)
    | Some o =>
      if set_conflict o || ex_overflow now (o_ex o) then (err_other, d) else
      match db_get d k with
      | Some (VStr old) =>
        let getr := RBulk old in
        if o_nx o then ((if o_get o then getr else RNil), d)
        else let d' := set_apply_ttl (db_set d k (VStr v)) now k o in
             ((if o_get o then getr else rOK), d')
      | Some _ =>
        (* a value of another type is overwritten like any other; only GET needs a string *)
        if o_get o then (err_wrongtype, d)
        else if o_nx o then (RNil, d)
        else (rOK, set_apply_ttl (db_set d k (VStr v)) now k o)
      | None =>
        if o_xx o then (RNil, d)
        else let d' := set_apply_ttl (db_set d k (VStr v)) now k o in
             ((if o_get o then RNil else rOK), d')
      end
    end
  | _ => (err_other, d)
  end.

(* ---------- GET family ---------- *)
Definition exec_get (d : db) (args : list bytes) : reply * db :=
  match args with
  | [_; k] => match db_get d k with
              | None => (RNil, d)
              | Some (VStr b) => (RBulk b, d)
              | Some _ => (err_wrongtype, d) end
  | _ => (err_other, d)
  end.

Definition slice (b : bytes) (start stop : Z) : bytes :=   (* b[start:stop], 0<=start<=stop<=len *)
  firstn (Z.to_nat (stop - start)) (skipn (Z.to_nat start) b).

Definition exec_getrange (d : db) (args : list bytes) : reply * db :=
  match args with
  | [_; k; s; e] =>
    match db_get d k with
    | None => (RBulk [], d)
    | Some (VStr b) =>
      match atoi64 s, atoi64 e with
      | Some start, Some stop =>
        let len := zlength b in
        let start := if start <? 0 then len + start else start in
        let stop := if stop <? 0 then len + stop else stop in
        let stop := if stop >=? len then len - 1 else stop in
        let stop := stop + 1 in
        if (start >? stop) || (start >=? len) || (stop <? 0) then (RBulk [], d)
        else let start := if start <? 0 then 0 else start in
             (RBulk (slice b start stop), d)
      | _, _ => (err_other, d)
      end
    | Some _ => (err_wrongtype, d)
    end
  | _ => (err_other, d)
  end.

Fixpoint zeros (n : nat) : bytes := match n with O => [] | S m => "000"%byte :: zeros m end.

Definition exec_setrange (d : db) (args : list bytes) : reply * db :=
  match args with
  | [_; k; off; v] =>
    match atoi64 off with
    | None => (err_other, d)
    | Some offset =>
      if offset <? 0 then (err_other, d) else
      match (match db_get d k with None => Some [] | Some (VStr b) => Some b | Some _ => None end) with
      | None => (err_wrongtype, d)
      | Some old =>
        let len := zlength old in
        if zlength v =? 0 then (RInt len, d) else      (* nothing to write: no change, no key created *)
        if offset + zlength v >? max_string_len then (err_other, d) else
        let new :=
          if offset >? len then old ++ zeros (Z.to_nat (offset - len)) ++ v
          else firstn (Z.to_nat offset) old ++ v ++ skipn (Z.to_nat (offset + zlength v)) old in
        (RInt (zlength new), db_set d k (VStr new))
      end
    end
  | _ => (err_other, d)
  end.

Definition exec_mget (d : db) (args : list bytes) : reply * db :=
  match args with
  | _ :: (_ :: _) as keys =>
    (RArr (map (fun k => match db_get d k with Some (VStr b) => RBulk b | _ => RNil end) keys), d)
  | _ => (err_other, d)
  end.

Fixpoint mset_pairs (d : db) (l : list bytes) : option db :=
  match l with
  | [] => Some d
  | k :: v :: r => mset_pairs (db_set (db_del_ttl d k) k (VStr v)) r
  | _ => None
  end.

Definition exec_mset (d : db) (args : list bytes) : reply * db :=
  match args with
  | _ :: ((_ :: _ :: _) as kvs) =>
    match mset_pairs d kvs with Some d' => (rOK, d') | None => (err_other, d) end
  | _ => (err_other, d)
  end.

Definition exec_setex (d : db) (now : Z) (args : list bytes) : reply * db :=
  match args with
  | [_; k; secs; v] =>
    match atoi64 secs with
    | Some n => if (n <=? 0) || negb (in_int64 (now + n)) then (err_other, d)
                else (rOK, db_set_ttl (db_set d k (VStr v)) k (now + n))
    | None => (err_other, d)
    end
  | _ => (err_other, d)
  end.

Definition exec_setnx (d : db) (args : list bytes) : reply * db :=
  match args with
  | [_; k; v] => match db_get d k with
                 | Some _ => (RInt 0, d)
                 | None => (RInt 1, db_set d k (VStr v)) end
  | _ => (err_other, d)
  end.

Definition exec_strlen (d : db) (args : list bytes) : reply * db :=
  match args with
  | [_; k] => match db_get d k with
              | None => (RInt 0, d)
              | Some (VStr b) => (RInt (zlength b), d)
              | Some _ => (err_wrongtype, d) end
  | _ => (err_other, d)
  end.

(* INCR / DECR / INCRBY / DECRBY: exact integer addition or an error, never a wrap *)
Definition incr_by (d : db) (k : bytes) (delta : Z) : reply * db :=
  match db_get d k with
  | None => (RInt delta, db_set d k (VStr (z_to_dec delta)))
  | Some (VStr b) =>
    match atoi64 b with
    | None => (err_other, d)
    | Some n => let r := n + delta in
                if in_int64 r then (RInt r, db_set d k (VStr (z_to_dec r))) else (err_other, d)
    end
  | Some _ => (err_wrongtype, d)
  end.

Definition exec_incr (d : db) (args : list bytes) : reply * db :=
  match args with [_; k] => incr_by d k 1 | _ => (err_other, d) end.
Definition exec_decr (d : db) (args : list bytes) : reply * db :=
  match args with [_; k] => incr_by d k (-1) | _ => (err_other, d) end.
Definition exec_incrby (d : db) (args : list bytes) : reply * db :=
  match args with
  | [_; k; n] => match atoi64 n with Some delta => incr_by d k delta | None => (err_other, d) end
  | _ => (err_other, d) end.
Definition exec_decrby (d : db) (args : list bytes) : reply * db :=
  match args with
  | [_; k; n] => match atoi64 n with
                 | Some delta => if in_int64 (- delta) then incr_by d k (- delta) else (err_other, d)
                 | None => (err_other, d) end
  | _ => (err_other, d) end.

(* ---------- INCRBYFLOAT ----------
   Go: strconv.ParseFloat / float64 addition / strconv.FormatFloat(x, 'f', -1, 64).
   Modelled exactly on the decimals  m * 10^-e  that are dyadic (5^e | m, so a float64 holds them
   exactly) and have at most 15 significant digits (so parsing is exact, the float64 sum of two
   such numbers is exact whenever the exact sum is again of that form, and the shortest decimal
   that identifies the float64 is the exact decimal).  Outside that domain ([FOut]: exponent
   notation, hex floats, "1_0", ".5", "-0", non-dyadic or long decimals) binary rounding is not
   modelled: the model follows the observed reply (acceptor form), the step is counted by the
   runner as out of domain.  [FInvalid]: the empty string or a byte that occurs in no Go float
   literal -- ParseFloat fails for certain. *)
Fixpoint split_dot (s : bytes) : bytes * option bytes :=
  match s with
  | [] => ([], None)
  | c :: r => if beqb c "."%byte then ([], Some r)
              else let '(a, b) := split_dot r in (c :: a, b)
  end.

(* sign?  digits+  ( "." digits+ )?   ->  (negative?, |m|, e) *)
Definition parse_dec (s : bytes) : option (bool * N * N) :=
  let '(neg, body) := match s with
                      | "-"%byte :: r => (true, r)
                      | "+"%byte :: r => (false, r)
                      | _ => (false, s) end in
  let '(ip, fp) := split_dot body in
  match parse_udec ip, fp with
  | Some i, None => Some (neg, i, 0%N)
  | Some i, Some f =>
    match parse_udec f with
    | Some fv => let e := N.of_nat (List.length f) in Some (neg, (i * 10 ^ e + fv)%N, e)
    | None => None end
  | None, _ => None
  end.

(* strip trailing decimal zeros: m*10^-e with 10 not dividing m unless e = 0 *)
Fixpoint dec_norm (fuel : nat) (m : Z) (e : N) : Z * N :=
  match fuel with
  | O => (m, e)
  | S f => if (e =? 0)%N then (m, e)
           else if m mod 10 =? 0 then dec_norm f (m / 10) (e - 1)%N else (m, e)
  end.
Definition dec_normalize (m : Z) (e : N) : Z * N := dec_norm (N.to_nat e) m e.

Definition dec_in_domain (m : Z) (e : N) : bool :=
  (Z.abs m <? 10 ^ 15) && (m mod 5 ^ Z.of_N e =? 0).

Definition float_byte (c : byte) : bool :=
  existsb (beqb c) (B "0123456789+-._eEpPxXaAbBcCdDfFiInNtTyY").

Inductive fclass := FIn (m : Z) (e : N) | FInvalid | FOut.

Definition classify_float (s : bytes) : fclass :=
  match parse_dec s with
  | Some (neg, a, e) =>
    let '(m, e') := dec_normalize (Z.of_N a) e in
    if neg && (m =? 0) then FOut                                   (* negative zero *)
    else if dec_in_domain m e' then FIn (if neg then - m else m) e' else FOut
  | None =>
    match s with
    | [] => FInvalid
    | _ => if forallb float_byte s then FOut else FInvalid
    end
  end.

Definition dec_add (m1 : Z) (e1 : N) (m2 : Z) (e2 : N) : Z * N :=
  let e := N.max e1 e2 in
  dec_normalize (m1 * 10 ^ Z.of_N (e - e1) + m2 * 10 ^ Z.of_N (e - e2)) e.

(* FormatFloat(x, 'f', -1, 64) of a normalized decimal *)
Definition fmt_dec (m : Z) (e : N) : bytes :=
  let digits := n_to_dec (Z.to_N (Z.abs m)) in
  let en := N.to_nat e in
  let digits := if Nat.leb (List.length digits) en then repeat "0"%byte (S en - List.length digits) ++ digits else digits in
  let ip := firstn (List.length digits - en) digits in
  let fp := skipn (List.length digits - en) digits in
  (if m <? 0 then ["-"%byte] else []) ++ ip ++ (match fp with [] => [] | _ => "."%byte :: fp end).

(* out of the modelled domain: accept what the implementation answered *)
Definition follow_hint (d : db) (k : bytes) (hint : reply) : reply * db :=
  match hint with
  | RBulk s => (RBulk s, db_set d k (VStr s))
  | _ => (err_other, d)
  end.

Fixpoint starts_with (p s : bytes) : bool :=
  match p, s with
  | [], _ => true
  | a :: p', b :: s' => beqb a b && starts_with p' s'
  | _ :: _, [] => false
  end.

Definition exec_incrbyfloat (d : db) (args : list bytes) (hint : reply) : reply * db :=
  match args with
  | [_; k; inc] =>
    match classify_float inc with
    | FInvalid => (err_other, d)
    | FOut =>
      match db_get d k, hint with
      | Some (VStr _), _ | None, _ => follow_hint d k hint
      | Some _, RErr e =>                       (* WRONGTYPE, or the increment did not parse *)
        ((if starts_with (B "WRONGTYPE") e then err_wrongtype else err_other), d)
      | Some _, _ => (err_wrongtype, d)
      end
    | FIn mi ei =>
      match db_get d k with
      | None => (RBulk (fmt_dec mi ei), db_set d k (VStr (fmt_dec mi ei)))
      | Some (VStr b) =>
        match classify_float b with
        | FInvalid => (err_other, d)
        | FOut => follow_hint d k hint
        | FIn mv ev =>
          let '(m, e) := dec_add mv ev mi ei in
          if dec_in_domain m e then (RBulk (fmt_dec m e), db_set d k (VStr (fmt_dec m e)))
          else follow_hint d k hint
        end
      | Some _ => (err_wrongtype, d)
      end
    end
  | _ => (err_other, d)
  end.

Definition exec_append (d : db) (args : list bytes) : reply * db :=
  match args with
  | [_; k; v] =>
    match db_get d k with
    | None => (RInt (zlength v), db_set d k (VStr v))
    | Some (VStr b) =>
      if zlength v >? max_string_len - zlength b then (err_other, d)
      else (RInt (zlength (b ++ v)), db_set d k (VStr (b ++ v)))
    | Some _ => (err_wrongtype, d) end
  | _ => (err_other, d)
  end.

(* ---------- generic key commands ---------- *)
Fixpoint del_keys (d : db) (keys : list bytes) (n : Z) : Z * db :=
  match keys with
  | [] => (n, d)
  | k :: r => match db_get d k with
              | Some _ => del_keys (db_del d k) r (n + 1)
              | None => del_keys (db_del d k) r n end
  end.

Definition exec_del (d : db) (args : list bytes) : reply * db :=
  match args with
  | _ :: ((_ :: _) as keys) => let '(n, d') := del_keys d keys 0 in (RInt n, d')
  | _ => (err_other, d)
  end.

Definition exec_exists (d : db) (args : list bytes) : reply * db :=
  match args with
  | _ :: ((_ :: _) as keys) =>
    (RInt (zlength (filter (fun k => isSome (db_get d k)) keys)), d)
  | _ => (err_other, d)
  end.

Definition exec_keys (d : db) (args : list bytes) : reply * db :=
  match args with
  | [_; p] => (RArr (map RBulk (keys_filter p (akeys (kv d)))), d)
  | _ => (err_other, d)
  end.

Definition exec_expire (d : db) (now : Z) (args : list bytes) : reply * db :=
  let go (k v : bytes) (opt : bytes) :=
    match atoi64 v with
    | None => (err_other, d)
    | Some n =>
      if negb (in_int64 (now + n)) then (err_other, d) else
      let t := now + n in
      let cur := db_ttl d k in
      let exists_ := isSome (db_get d k) in
      let setit := if exists_ then (RInt 1, db_set_ttl d k t) else (RInt 0, d) in
      let no := (RInt 0, d) in
      if is opt [] then setit
      else if is opt (B "nx") then (match cur with None => setit | Some _ => no end)
      else if is opt (B "xx") then (match cur with Some _ => setit | None => no end)
      else if is opt (B "gt") then (match cur with Some c => if t >? c then setit else no | None => no end)
      (* no deadline counts as an infinite time to live: GT never applies to it, LT always does *)
      else if is opt (B "lt") then (match cur with Some c => if t <? c then setit else no | None => setit end)
      else (err_other, d)
    end in
  match args with
  | [_; k; v] => go k v []
  | [_; k; v; o] => go k v (lower o)
  | _ => (err_other, d)
  end.

Definition exec_persist (d : db) (args : list bytes) : reply * db :=
  match args with
  | [_; k] => match db_get d k, db_ttl d k with
              | Some _, Some _ => (RInt 1, db_del_ttl d k)
              | _, _ => (RInt 0, d) end
  | _ => (err_other, d)
  end.

Definition exec_ttl (d : db) (now : Z) (args : list bytes) : reply * db :=
  match args with
  | [_; k] => match db_get d k with
              | None => (RInt (-2), d)
              | Some _ => match db_ttl d k with
                          | None => (RInt (-1), d)
                          | Some t => (RInt (t - now), d) end
              end
  | _ => (err_other, d)
  end.

Definition type_name (v : value) : bytes :=
  match v with
  | VStr _ => B "string" | VList _ => B "list" | VSet _ => B "set"
  | VHash _ => B "hash" | VZSet _ => B "zset" | VStream _ => B "stream"
  end.

Definition exec_type (d : db) (args : list bytes) : reply * db :=
  match args with
  | [_; k] => match db_get d k with
              | None => (RSimple (B "none"), d)
              | Some v => (RSimple (type_name v), d) end
  | _ => (err_other, d)
  end.

Definition exec_rename (d : db) (args : list bytes) : reply * db :=
  match args with
  | [_; old; new] =>
    match db_get d old with
    | None => (err_other, d)
    | Some v =>
      let t := db_ttl d old in
      let d1 := db_del (db_del d old) new in
      let d2 := db_set d1 new v in
      (rOK, match t with Some t => db_set_ttl d2 new t | None => d2 end)
    end
  | _ => (err_other, d)
  end.

Definition exec_ping (d : db) (args : list bytes) : reply * db :=
  match args with
  | [_] => (RSimple (B "PONG"), d)
  | [_; m] => (RBulk m, d)
  | _ => (err_other, d)
  end.
