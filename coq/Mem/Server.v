(* Numbered databases and per-connection selection (server/db_manager.go). *)
Require Import Base.Bytes Base.GoInt Base.Reply Mem.Types Mem.Exec.
Local Open Scope Z_scope.

Record server := mkSrv { sdbs : list db; ssel : list (Z * nat) }.   (* conn id -> selected index *)

Definition srv_init (n : nat) : server := mkSrv (repeat empty_db n) [].

Fixpoint sel_lookup (c : Z) (l : list (Z * nat)) : nat :=
  match l with
  | [] => O
  | (c', i) :: r => if c =? c' then i else sel_lookup c r
  end.
Definition sel_set (c : Z) (i : nat) (l : list (Z * nat)) : list (Z * nat) :=
  (c, i) :: filter (fun p => negb (c =? fst p)) l.

Fixpoint list_update {A} (l : list A) (i : nat) (x : A) : list A :=
  match l, i with
  | [], _ => []
  | _ :: r, O => x :: r
  | y :: r, S j => y :: list_update r j x
  end.

Definition exec_select (s : server) (conn : Z) (args : list bytes) : reply * server :=
  match args with
  | [_; idx] =>
    match atoi64 idx with
    | Some i => if (0 <=? i) && (i <? zlength (sdbs s))
                then (rOK, mkSrv (sdbs s) (sel_set conn (Z.to_nat i) (ssel s)))
                else (err_other, s)
    | None => (err_other, s)
    end
  | _ => (err_other, s)
  end.

Definition srv_exec (s : server) (conn : Z) (now nowms : Z) (args : list bytes) (hint : reply)
  : reply * server :=
  match args with
  | [] => (err_other, s)
  | name :: _ =>
    if is (lower name) (B "select") then exec_select s conn args
    else
      let i := sel_lookup conn (ssel s) in
      match nth_error (sdbs s) i with
      | None => (err_other, s)
      | Some d =>
        let '(r, d') := exec d now nowms args hint in
        (r, mkSrv (list_update (sdbs s) i d') (ssel s))
      end
  end.

(* a connection ends: the server forgets what it had selected (server.Manager.Handle returns and
   its per-connection view is dropped); a later connection -- under a new id or the same one --
   starts from the default, database 0 *)
Definition sel_forget (c : Z) (l : list (Z * nat)) : list (Z * nat) :=
  filter (fun p => negb (c =? fst p)) l.
Definition srv_disconnect (s : server) (conn : Z) : server :=
  mkSrv (sdbs s) (sel_forget conn (ssel s)).
