(* Several connections blocked in BLPOP/BRPOP at the same time, each with its own 100 ms ticker
   started at its own instant (arbitrary phase offsets), while other connections issue commands
   at arbitrary instants -- as one process over virtual time.  Used by the trace replayer for
   harness steps in which a background command (directive BG) is itself a blocking pop, and as the
   subject of the "exactly one popper" theorems (Mem/ListsMultiProofs.v).

   Everything happens on one database (all connections involved have the same database selected).
   Executable; no proofs here. *)
Require Import Base.Bytes Base.GoInt Base.Reply Mem.Types Mem.Lists Mem.Exec Mem.Server Mem.ListsBg.
Local Open Scope Z_scope.

(* a blocked pop: who, direction, keys, instant of the call, its timer (ms after the call) and the
   reply given when the timer fires (nil; or the watchdog marker when the harness cuts the wait) *)
Record popper := mkPop { pp_conn : Z; pp_left : bool; pp_keys : list bytes;
                         pp_t0 : Z; pp_timer : Z; pp_nil : reply; pp_cut : bool }.
(* pp_cut: the "timer" is the harness watchdog cancelling the command through its context; a
   cancelled pop does one last polling round (what it pops then is handed to that connection,
   although the harness no longer looks at the reply and traces the marker) *)
Inductive pstatus :=
| PBlocked (next : Z)                 (* instant of its next tick *)
| PDone (r : reply) (t : Z).          (* returned r at instant t *)

(* atomic events, in the order in which they happen *)
Inductive mev :=
| EPoll (i : nat) (t : Z)             (* the ticker of popper i fires at t: one polling round *)
| ETimer (i : nat) (t : Z)            (* the timer of popper i fires at t *)
| ECmd (t : Z) (conn : Z) (args : list bytes) (hint : reply).   (* a connection issues a command at t *)

(* m_outs: per ECmd, in order: the reply of an ordinary command (returned at once), or the index of
   the popper a blocking pop became.  m_pushed: ledger of acknowledged pushes (key, value), read off
   the replies only (ghost: not used by the replayer). *)
Record mst := mkM { m_d : db; m_ps : list (popper * pstatus); m_outs : list (reply * Z + nat);
                    m_pushed : list (bytes * bytes) }.

Fixpoint set_nth {A} (l : list A) (i : nat) (x : A) : list A :=
  match l, i with
  | [], _ => []
  | _ :: r, O => x :: r
  | y :: r, S j => y :: set_nth r j x
  end.

Definition is_push_name (n : bytes) : bool := is n (B "lpush") || is n (B "rpush").

(* what an acknowledged push added: LPUSH/RPUSH k v1 .. vn answered with an integer *)
Definition pushed_of (args : list bytes) (r : reply) : list (bytes * bytes) :=
  match args, r with
  | name :: k :: vals, RInt _ => if is_push_name (lower name) then map (pair k) vals else []
  | _, _ => []
  end.

Definition mstep (wd_ms : Z) (e : mev) (st : mst) : mst :=
  match e with
  | EPoll i t =>
    match nth_error (m_ps st) i with
    | Some (p, PBlocked _) =>
      match bpop_poll (pp_left p) (pp_keys p) (m_d st) t with
      | Some (r, d') => mkM d' (set_nth (m_ps st) i (p, PDone r t)) (m_outs st) (m_pushed st)
      | None => mkM (m_d st) (set_nth (m_ps st) i (p, PBlocked (t + 100))) (m_outs st) (m_pushed st)
      end
    | _ => st
    end
  | ETimer i t =>
    match nth_error (m_ps st) i with
    | Some (p, PBlocked _) =>
      match (if pp_cut p then bpop_poll (pp_left p) (pp_keys p) (m_d st) t else None) with
      | Some (r, d') => mkM d' (set_nth (m_ps st) i (p, PDone r t)) (m_outs st) (m_pushed st)
      | None => mkM (m_d st) (set_nth (m_ps st) i (p, PDone (pp_nil p) t)) (m_outs st) (m_pushed st)
      end
    | _ => st
    end
  | ECmd t conn args hint =>
    match blocking_form args with
    | Some (lft, keys, tmo) =>
      let cut := block_timer_ms tmo >? wd_ms in
      let p := mkPop conn lft keys t (if cut then wd_ms else block_timer_ms tmo)
                     (if cut then blocked_marker else RNil) cut in
      mkM (m_d st) (m_ps st ++ [(p, PBlocked (t + 100))])
          (m_outs st ++ [inr (List.length (m_ps st))]) (m_pushed st)
    | None =>
      let '(r, d') := exec (m_d st) (t / 1000) t args hint in
      mkM d' (m_ps st) (m_outs st ++ [inl (r, t)]) (m_pushed st ++ pushed_of args r)
    end
  end.

Definition mrun (wd_ms : Z) (evs : list mev) (st : mst) : mst := fold_left (fun s e => mstep wd_ms e s) evs st.

(* ---- the scheduler: which event happens next ---- *)
(* the pending event of a blocked popper: its next tick if that comes strictly before its timer
   (at a coincidence the timer wins, as in [Lists.block]), else the timer *)
Definition pending (i : nat) (pp : popper * pstatus) : option (Z * mev) :=
  match pp with
  | (p, PBlocked next) =>
    let tm := pp_t0 p + pp_timer p in
    if next <? tm then Some (next, EPoll i next) else Some (tm, ETimer i tm)
  | (_, PDone _ _) => None
  end.

(* earliest pending event; the lower index wins a tie *)
Fixpoint earliest (ps : list (popper * pstatus)) (i : nat) (best : option (Z * mev)) : option (Z * mev) :=
  match ps with
  | [] => best
  | pp :: r =>
    let best' := match pending i pp, best with
                 | Some (t, e), Some (tb, _) => if t <? tb then Some (t, e) else best
                 | Some c, None => Some c
                 | None, _ => best
                 end in
    earliest r (S i) best'
  end.

(* the next event among the poppers' pending events and the next command; a command goes first
   only when it is strictly earlier (a tick and a command at the same instant: tick first, as in
   [Lists.block]); None = nothing left to happen *)
Definition next_event (st : mst) (cmds : list bgev) : option (mev * list bgev) :=
  match earliest (m_ps st) O None, cmds with
  | None, [] => None
  | None, c :: r => Some (ECmd (bg_ms c) (bg_conn c) (bg_args c) (bg_hint c), r)
  | Some (_, e), [] => Some (e, [])
  | Some (t, e), c :: r =>
    if bg_ms c <? t then Some (ECmd (bg_ms c) (bg_conn c) (bg_args c) (bg_hint c), r) else Some (e, cmds)
  end.

(* run until nothing is left to happen (or the fuel is used up); also returns the events in the
   order in which they happened *)
Fixpoint msim (wd_ms : Z) (fuel : nat) (st : mst) (cmds : list bgev) (log : list mev) : mst * list mev :=
  match fuel with
  | O => (st, log)
  | S f =>
    match next_event st cmds with
    | None => (st, log)
    | Some (e, cmds') => msim wd_ms f (mstep wd_ms e st) cmds' (log ++ [e])
    end
  end.

(* enough fuel: every command, and for every command at most wd/100 + 2 events of the popper it
   may become (every popper is done wd_ms after its call at the latest) *)
Definition msim_fuel (wd_ms : Z) (ncmds : nat) : nat := (ncmds * (Z.to_nat (wd_ms / 100) + 3))%nat.

(* replies and return instants of the commands, in the order of the commands *)
Definition out_of (ps : list (popper * pstatus)) (o : reply * Z + nat) : reply * Z :=
  match o with
  | inl x => x
  | inr i => match nth_error ps i with
             | Some (p, PDone r t) =>
               (* at the watchdog instant the harness traces the marker whatever the last round popped *)
               (if pp_cut p && (t =? pp_t0 p + pp_timer p) then blocked_marker else r, t)
             | _ => (blocked_marker, 0)        (* still blocked: cannot happen with enough fuel *)
             end
  end.

Definition db_exec_multi (d : db) (cmds : list bgev) (wd_ms : Z) : list (reply * Z) * db :=
  let '(st, _) := msim wd_ms (msim_fuel wd_ms (List.length cmds)) (mkM d [] [] []) cmds [] in
  (map (out_of (m_ps st)) (m_outs st), m_d st).

(* at server level: the foreground command of [conn] at nowms and the background commands, all on
   the database selected by [conn] *)
Definition srv_exec_multi (s : server) (conn : Z) (nowms : Z) (args : list bytes) (hint : reply)
           (evs : list bgev) (wd_ms : Z) : list (reply * Z) * server :=
  let i := sel_lookup conn (ssel s) in
  match nth_error (sdbs s) i with
  | None => ([], s)
  | Some d =>
    let '(outs, d') := db_exec_multi d (mkBg conn nowms args hint :: evs) wd_ms in
    (outs, mkSrv (list_update (sdbs s) i d') (ssel s))
  end.
