(* Shared facts about the keyspace representation: association-list lemmas, the global
   well-formedness invariant [db_wf] every family must preserve, and the semantic [view] of a
   database (a function from keys) that specifications are written against. *)
Require Import Base.Bytes Base.GoInt Base.Reply Mem.Types.
Local Open Scope Z_scope.

(* ------------------------------------------------------------------ association lists *)
Section AssocLemmas.
  Context {A : Type}.
  Implicit Types (l : list (bytes * A)) (k : bytes).

  Lemma alookup_In k l v : alookup k l = Some v -> In (k, v) l.
  Proof.
    induction l as [|[k' v'] r IH]; cbn; [discriminate|].
    destruct (bytes_eqb_spec k k') as [->|N]; intros H.
    - inversion H; subst; left; reflexivity.
    - right; apply IH; exact H.
  Qed.

  Lemma alookup_None_notin k l : alookup k l = None <-> ~ In k (akeys l).
  Proof.
    unfold akeys. induction l as [|[k' v'] r IH]; cbn.
    - split; [intros _ []|reflexivity].
    - destruct (bytes_eqb_spec k k') as [->|N].
      + split; [discriminate|intros H; exfalso; apply H; left; reflexivity].
      + rewrite IH. split; intros H.
        * intros [E|E]; [congruence|contradiction].
        * intros E; apply H; right; exact E.
  Qed.

  Lemma alookup_Some_in k l v : alookup k l = Some v -> In k (akeys l).
  Proof. intros H. apply alookup_In in H. unfold akeys. apply (in_map fst) in H. exact H. Qed.

  Lemma In_alookup k v l : NoDup (akeys l) -> In (k, v) l -> alookup k l = Some v.
  Proof.
    unfold akeys. induction l as [|[k' v'] r IH]; cbn; intros ND H; [contradiction|].
    inversion ND as [|? ? Hn ND']; subst.
    destruct H as [E|H].
    - inversion E; subst. rewrite bytes_eqb_refl. reflexivity.
    - destruct (bytes_eqb_spec k k') as [->|N].
      + exfalso. apply Hn. apply (in_map fst) in H. exact H.
      + apply IH; assumption.
  Qed.

  (* ---- aremove ---- *)
  Lemma alookup_aremove_same k l : alookup k (aremove k l) = None.
  Proof.
    induction l as [|[k' v'] r IH]; cbn; [reflexivity|].
    destruct (bytes_eqb_spec k k') as [->|N]; [exact IH|].
    cbn. destruct (bytes_eqb_spec k k'); [contradiction|exact IH].
  Qed.

  Lemma alookup_aremove_other k k0 l : k0 <> k -> alookup k0 (aremove k l) = alookup k0 l.
  Proof.
    intros N. induction l as [|[k' v'] r IH]; cbn; [reflexivity|].
    destruct (bytes_eqb_spec k k') as [->|N'].
    - destruct (bytes_eqb_spec k0 k'); [contradiction|exact IH].
    - cbn. destruct (bytes_eqb_spec k0 k'); [reflexivity|exact IH].
  Qed.

  Lemma akeys_aremove_incl k l x : In x (akeys (aremove k l)) -> In x (akeys l).
  Proof.
    unfold akeys. induction l as [|[k' v'] r IH]; cbn; [tauto|].
    destruct (bytes_eqb k k'); cbn; intros H; [right; apply IH; exact H|].
    destruct H as [H|H]; [left; exact H|right; apply IH; exact H].
  Qed.

  Lemma NoDup_aremove k l : NoDup (akeys l) -> NoDup (akeys (aremove k l)).
  Proof.
    unfold akeys. induction l as [|[k' v'] r IH]; cbn; intros ND; [constructor|].
    inversion ND as [|? ? Hn ND']; subst.
    destruct (bytes_eqb k k'); [apply IH; exact ND'|].
    cbn. constructor; [|apply IH; exact ND'].
    intros H. apply Hn. apply (akeys_aremove_incl k r). exact H.
  Qed.

  Lemma aremove_notin k l : ~ In k (akeys l) -> aremove k l = l.
  Proof.
    unfold akeys. induction l as [|[k' v'] r IH]; cbn; intros H; [reflexivity|].
    destruct (bytes_eqb_spec k k') as [->|N]; [exfalso; apply H; left; reflexivity|].
    f_equal. apply IH. intros E; apply H; right; exact E.
  Qed.

  (* ---- areplace ---- *)
  Lemma akeys_areplace k v l : akeys (areplace k v l) = akeys l.
  Proof.
    unfold akeys. induction l as [|[k' v'] r IH]; cbn; [reflexivity|].
    destruct (bytes_eqb k k'); cbn; [reflexivity|f_equal; exact IH].
  Qed.

  Lemma alookup_areplace_same k v l : In k (akeys l) -> alookup k (areplace k v l) = Some v.
  Proof.
    unfold akeys. induction l as [|[k' v'] r IH]; cbn; intros H; [contradiction|].
    destruct (bytes_eqb_spec k k') as [->|N]; cbn.
    - rewrite bytes_eqb_refl. reflexivity.
    - destruct (bytes_eqb_spec k k'); [contradiction|].
      apply IH. destruct H as [H|H]; [congruence|exact H].
  Qed.

  Lemma alookup_areplace_other k k0 v l : k0 <> k -> alookup k0 (areplace k v l) = alookup k0 l.
  Proof.
    intros N. induction l as [|[k' v'] r IH]; cbn; [reflexivity|].
    destruct (bytes_eqb_spec k k') as [->|N']; cbn.
    - destruct (bytes_eqb_spec k0 k'); [contradiction|reflexivity].
    - destruct (bytes_eqb_spec k0 k'); [reflexivity|exact IH].
  Qed.

  (* ---- aset ---- *)
  Lemma alookup_app_notin k l l2 : alookup k l = None -> alookup k (l ++ l2) = alookup k l2.
  Proof.
    induction l as [|[k' v'] r IH]; cbn; [reflexivity|].
    destruct (bytes_eqb k k'); [discriminate|exact IH].
  Qed.

  Lemma alookup_app_in k l l2 v : alookup k l = Some v -> alookup k (l ++ l2) = Some v.
  Proof.
    induction l as [|[k' v'] r IH]; cbn; [discriminate|].
    destruct (bytes_eqb k k'); [trivial|exact IH].
  Qed.

  Lemma alookup_aset_same k v l : alookup k (aset k v l) = Some v.
  Proof.
    unfold aset. destruct (alookup k l) eqn:E.
    - apply alookup_areplace_same. eapply alookup_Some_in; exact E.
    - rewrite alookup_app_notin by exact E. cbn. rewrite bytes_eqb_refl. reflexivity.
  Qed.

  Lemma alookup_aset_other k k0 v l : k0 <> k -> alookup k0 (aset k v l) = alookup k0 l.
  Proof.
    intros N. unfold aset. destruct (alookup k l) eqn:E.
    - apply alookup_areplace_other; exact N.
    - destruct (alookup k0 l) eqn:E0.
      + apply alookup_app_in; exact E0.
      + rewrite alookup_app_notin by exact E0. cbn.
        destruct (bytes_eqb_spec k0 k); [contradiction|reflexivity].
  Qed.

  Lemma akeys_aset k v l :
    akeys (aset k v l) = if amem k l then akeys l else akeys l ++ [k].
  Proof.
    unfold aset, amem. destruct (alookup k l); [apply akeys_areplace|].
    unfold akeys. rewrite map_app. reflexivity.
  Qed.

  Lemma NoDup_aset k v l : NoDup (akeys l) -> NoDup (akeys (aset k v l)).
  Proof.
    intros ND. rewrite akeys_aset. unfold amem. destruct (alookup k l) eqn:E; [exact ND|].
    apply alookup_None_notin in E.
    apply NoDup_rev in ND. rewrite <- (rev_involutive (akeys l ++ [k])). apply NoDup_rev.
    rewrite rev_app_distr. cbn. constructor; [|exact ND].
    intros H. apply E. apply in_rev. exact H.
  Qed.

  Lemma In_akeys_aset k v l x : In x (akeys (aset k v l)) <-> x = k \/ In x (akeys l).
  Proof.
    rewrite akeys_aset. unfold amem. destruct (alookup k l) eqn:E.
    - split; [intros H; right; exact H|].
      intros [->|H]; [eapply alookup_Some_in; exact E|exact H].
    - rewrite in_app_iff. cbn. split.
      + intros [H|[H|[]]]; [right; exact H|left; congruence].
      + intros [->|H]; [right; left; reflexivity|left; exact H].
  Qed.

  Lemma amem_true_iff k l : amem k l = true <-> In k (akeys l).
  Proof.
    unfold amem. destruct (alookup k l) eqn:E.
    - split; [intros _; eapply alookup_Some_in; exact E|reflexivity].
    - split; [discriminate|]. intros H. apply alookup_None_notin in E. contradiction.
  Qed.

  (* ---- filter ---- *)
  Lemma alookup_filter_key (p : bytes -> bool) k l :
    alookup k (filter (fun x => p (fst x)) l) = if p k then alookup k l else None.
  Proof.
    induction l as [|[k' v'] r IH]; cbn; [destruct (p k); reflexivity|].
    destruct (p k') eqn:Pk'; cbn.
    - destruct (bytes_eqb_spec k k') as [->|N]; [rewrite Pk'; reflexivity|exact IH].
    - destruct (bytes_eqb_spec k k') as [->|N]; [rewrite Pk' in *; exact IH|exact IH].
  Qed.

  Lemma NoDup_akeys_filter (p : bytes * A -> bool) l : NoDup (akeys l) -> NoDup (akeys (filter p l)).
  Proof.
    unfold akeys. induction l as [|x r IH]; cbn; intros ND; [constructor|].
    inversion ND as [|? ? Hn ND']; subst.
    destruct (p x); cbn; [constructor|]; try (apply IH; exact ND').
    intros H. apply Hn. apply in_map_iff in H as [y [Ey Hy]]. apply filter_In in Hy as [Hy _].
    apply in_map_iff. exists y. split; assumption.
  Qed.
End AssocLemmas.

(* ------------------------------------------------------------------ the global invariant *)
(* No key is stored twice, no deadline is stored twice, every deadline belongs to a stored
   key.  (Value-level invariants -- "no empty list/set/hash is stored", the AVL invariant of a
   sorted set, strictly increasing stream ids -- are stated by the family that owns the type,
   as [value_ok_<family> : value -> Prop], and conjoined in Properties.) *)
Definition db_wf (d : db) : Prop :=
  NoDup (akeys (kv d)) /\ NoDup (akeys (ttl d)) /\
  forall k, In k (akeys (ttl d)) -> In k (akeys (kv d)).

Lemma db_wf_empty : db_wf empty_db.
Proof. repeat split; cbn; try constructor. intros k []. Qed.

Lemma db_wf_set d k v : db_wf d -> db_wf (db_set d k v).
Proof.
  intros (H1 & H2 & H3). repeat split; cbn; [apply NoDup_aset; exact H1|exact H2|].
  intros k0 Hk. apply In_akeys_aset. right. apply H3. exact Hk.
Qed.

Lemma db_wf_del d k : db_wf d -> db_wf (db_del d k).
Proof.
  intros (H1 & H2 & H3). repeat split; cbn; [apply NoDup_aremove; exact H1|apply NoDup_aremove; exact H2|].
  intros k0 Hk.
  destruct (bytes_eq_dec k0 k) as [->|N].
  - exfalso. assert (E : alookup k (aremove k (ttl d)) = None) by apply alookup_aremove_same.
    apply alookup_None_notin in E. contradiction.
  - assert (Hin : In k0 (akeys (ttl d))) by (eapply akeys_aremove_incl; exact Hk).
    apply H3 in Hin. apply amem_true_iff in Hin. apply amem_true_iff.
    unfold amem in *. rewrite alookup_aremove_other by exact N. exact Hin.
Qed.

Lemma db_wf_set_ttl d k t : db_wf d -> db_wf (db_set_ttl d k t).
Proof.
  intros (H1 & H2 & H3). unfold db_set_ttl. destruct (amem k (kv d)) eqn:E; [|repeat split; assumption].
  repeat split; cbn; [exact H1|apply NoDup_aset; exact H2|].
  intros k0 Hk. apply In_akeys_aset in Hk as [->|Hk]; [apply amem_true_iff; exact E|apply H3; exact Hk].
Qed.

Lemma db_wf_del_ttl d k : db_wf d -> db_wf (db_del_ttl d k).
Proof.
  intros (H1 & H2 & H3). repeat split; cbn; [exact H1|apply NoDup_aremove; exact H2|].
  intros k0 Hk. apply H3. eapply akeys_aremove_incl; exact Hk.
Qed.

(* ------------------------------------------------------------------ the semantic view *)
(* What a client can observe of key k at clock [now]: its value and deadline, or nothing when the
   key is absent or its deadline has passed. *)
Definition view (d : db) (now : Z) (k : bytes) : option (value * option Z) :=
  match db_get d k with
  | None => None
  | Some v => if expired d now k then None else Some (v, db_ttl d k)
  end.

(* the view of a database without regard to time (used on already purged databases) *)
Definition raw_view (d : db) (k : bytes) : option (value * option Z) :=
  match db_get d k with None => None | Some v => Some (v, db_ttl d k) end.

Lemma expired_purge_false d now k : db_wf d -> expired (purge d now) now k = false.
Proof.
  intros _. unfold expired, db_ttl, purge. cbn.
  destruct (alookup k (filter (fun p => negb (snd p <=? now)) (ttl d))) eqn:E; [|reflexivity].
  apply alookup_In in E. apply filter_In in E as [_ E]. cbn in E.
  destruct (z <=? now); [discriminate|reflexivity].
Qed.

Lemma db_get_purge d now k :
  db_get (purge d now) k = if expired d now k then None else db_get d k.
Proof.
  unfold db_get, purge. cbn.
  rewrite (alookup_filter_key (fun k0 => negb (expired d now k0)) k (kv d)).
  destruct (expired d now k); reflexivity.
Qed.

Lemma alookup_filter_snd (p : Z -> bool) k (l : list (bytes * Z)) :
  NoDup (akeys l) ->
  alookup k (filter (fun x => p (snd x)) l) =
  match alookup k l with Some t => if p t then Some t else None | None => None end.
Proof.
  unfold akeys. induction l as [|[k' t'] r IH]; cbn; intros ND; [reflexivity|].
  inversion ND as [|? ? Hn ND']; subst.
  destruct (bytes_eqb_spec k k') as [->|N].
  - destruct (p t') eqn:P; cbn; [rewrite bytes_eqb_refl; reflexivity|].
    rewrite IH by exact ND'.
    destruct (alookup k' r) eqn:E; [|reflexivity].
    exfalso. apply Hn. apply alookup_Some_in in E. exact E.
  - destruct (p t'); cbn; [destruct (bytes_eqb_spec k k'); [contradiction|]|]; apply IH; exact ND'.
Qed.

Lemma db_ttl_purge d now k : db_wf d ->
  db_ttl (purge d now) k = if expired d now k then None else db_ttl d k.
Proof.
  intros (_ & H2 & _). unfold db_ttl, expired, db_ttl, purge. cbn.
  rewrite (alookup_filter_snd (fun t => negb (t <=? now)) k (ttl d) H2).
  destruct (alookup k (ttl d)); [|reflexivity]. destruct (z <=? now); reflexivity.
Qed.

(* every command sees exactly the semantic view at its clock *)
Lemma raw_view_purge d now k : db_wf d -> raw_view (purge d now) k = view d now k.
Proof.
  intros W. unfold raw_view, view. rewrite db_get_purge, db_ttl_purge by exact W.
  destruct (expired d now k); destruct (db_get d k); reflexivity.
Qed.

Lemma db_wf_purge d now : db_wf d -> db_wf (purge d now).
Proof.
  intros (H1 & H2 & H3). repeat split; cbn.
  - apply NoDup_akeys_filter; exact H1.
  - apply NoDup_akeys_filter; exact H2.
  - intros k Hk.
    assert (W : db_wf d) by (repeat split; assumption).
    assert (E : exists t, db_ttl (purge d now) k = Some t).
    { apply amem_true_iff in Hk. unfold amem in Hk. unfold db_ttl. cbn.
      destruct (alookup k (filter (fun p => negb (snd p <=? now)) (ttl d))); [eauto|discriminate]. }
    destruct E as [t E]. rewrite db_ttl_purge in E by exact W.
    destruct (expired d now k) eqn:X; [discriminate|].
    assert (Hin : In k (akeys (ttl d))) by (eapply alookup_Some_in; exact E).
    apply H3 in Hin. apply amem_true_iff in Hin. apply amem_true_iff.
    pose proof (db_get_purge d now k) as G. rewrite X in G. unfold db_get in G.
    unfold amem in *. cbn in G |- *. rewrite G. exact Hin.
Qed.

(* views after the primitive updates *)
Lemma raw_view_set_same d k v : raw_view (db_set d k v) k = Some (v, db_ttl d k).
Proof. unfold raw_view, db_get, db_set, db_ttl. cbn. rewrite alookup_aset_same. reflexivity. Qed.

Lemma raw_view_set_other d k k0 v : k0 <> k -> raw_view (db_set d k v) k0 = raw_view d k0.
Proof.
  intros N. unfold raw_view, db_get, db_set, db_ttl. cbn. rewrite alookup_aset_other by exact N. reflexivity.
Qed.

Lemma raw_view_del_same d k : raw_view (db_del d k) k = None.
Proof. unfold raw_view, db_get, db_del. cbn. rewrite alookup_aremove_same. reflexivity. Qed.

Lemma raw_view_del_other d k k0 : k0 <> k -> raw_view (db_del d k) k0 = raw_view d k0.
Proof.
  intros N. unfold raw_view, db_get, db_del, db_ttl. cbn. rewrite !alookup_aremove_other by exact N. reflexivity.
Qed.
