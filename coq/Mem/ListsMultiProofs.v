(* C09: several connections blocked in BLPOP/BRPOP at once (Mem/ListsMulti.v).
   For ANY order of atomic events (polling rounds of any popper at any instants -- arbitrary phase
   offsets --, timers, pushes of other connections, new blocked pops): every element is handed
   out at most once, and while a listed key holds elements and a popper is blocked, the next tick
   of that popper finds some popper served. *)
Require Import Base.Bytes Base.GoInt Base.Reply Mem.Types Mem.Inv Mem.Lists Mem.Exec Mem.Server Mem.ListsBg Mem.ListsMulti.
Require Import Mem.ListsSpec Mem.ListsProofs Mem.ListsBlock Mem.ListsRefine Mem.ListsBgProofs.
Require Import Lia Permutation.
Local Open Scope Z_scope.

Definition cnt (l : list bytes) (x : bytes) : nat := count_occ bytes_eq_dec l x.

(* ------------------------------------------------------------------ no deadlines: purging is the identity *)
Lemma filter_all {A} (f : A -> bool) l : (forall x, f x = true) -> filter f l = l.
Proof. intros H. induction l as [|x r IH]; cbn; [reflexivity|]. rewrite H, IH. reflexivity. Qed.

Lemma purge_no_ttl d t : ttl d = [] -> purge d t = d.
Proof.
  intros E. destruct d as [kvs tt]. cbn in E. subst tt. unfold purge. cbn [kv ttl filter]. f_equal.
  apply filter_all. intros x. reflexivity.
Qed.

(* ------------------------------------------------------------------ what a poll and a push do to the elements *)
Definition poll_reply (r : reply) : Prop := r = err_wrongtype \/ exists k x, r = RArr [RBulk k; RBulk x].

Lemma put_list_ttl_nil d k l : ttl d = [] -> ttl (put_list d k l) = [].
Proof. intros E. destruct l; cbn [put_list db_del db_set ttl]; rewrite E; reflexivity. Qed.

Lemma bpop_try_shape left d keys r d' :
  bpop_try left d keys = Some (r, d') ->
  (r = err_wrongtype /\ d' = d) \/
  (exists k x, r = RArr [RBulk k; RBulk x] /\ In k keys /\
               elems d k = put_end left x (elems d' k) /\
               (forall k0, k0 <> k -> elems d' k0 = elems d k0) /\
               (ttl d = [] -> ttl d' = [])).
Proof.
  induction keys as [|k1 rest IH]; cbn [bpop_try]; [discriminate|].
  assert (REC : bpop_try left d rest = Some (r, d') ->
                (r = err_wrongtype /\ d' = d) \/
                (exists k x, r = RArr [RBulk k; RBulk x] /\ In k (k1 :: rest) /\
                             elems d k = put_end left x (elems d' k) /\
                             (forall k0, k0 <> k -> elems d' k0 = elems d k0) /\ (ttl d = [] -> ttl d' = []))).
  { intros H. destruct (IH H) as [L|(k & x & E1 & I & E2 & E3 & E4)]; [left; exact L|].
    right. exists k, x. repeat split; try assumption. right. exact I. }
  unfold get_list. destruct (db_get d k1) as [v|] eqn:G; [|exact REC].
  destruct v as [b|l|s|h|z|st]; try (intros H; inversion H; subst; left; split; reflexivity).
  assert (KEY : forall x1 l1, take_end left l = Some (x1, l1) ->
     Some (RArr [RBulk k1; RBulk x1], put_list d k1 l1) = Some (r, d') ->
     (r = err_wrongtype /\ d' = d) \/
     (exists k x, r = RArr [RBulk k; RBulk x] /\ In k (k1 :: rest) /\
                  elems d k = put_end left x (elems d' k) /\
                  (forall k0, k0 <> k -> elems d' k0 = elems d k0) /\ (ttl d = [] -> ttl d' = []))).
  { intros x1 l1 TE H. inversion H; subst. right. exists k1, x1. split; [reflexivity|].
    split; [left; reflexivity|]. split; [|split].
    - unfold elems at 1. rewrite G, elems_put_same. apply take_end_put. exact TE.
    - intros k0 N. apply elems_put_other. exact N.
    - apply put_list_ttl_nil. }
  pose proof (take_end_model left l) as TM.
  destruct left.
  - destruct l as [|x1 l1]; [exact REC|]. apply KEY. exact TM.
  - destruct (rev l) as [|x1 l1]; [exact REC|]. apply KEY. exact TM.
Qed.

Lemma bpop_try_some left d keys k :
  In k keys -> elems d k <> [] -> bpop_try left d keys <> None.
Proof.
  induction keys as [|k1 rest IH]; intros I NE; [contradiction|]. cbn [bpop_try].
  unfold get_list. destruct (bytes_eq_dec k1 k) as [->|N].
  - unfold elems in NE. destruct (db_get d k) as [[b|l|s|h|z|st]|]; try congruence; try discriminate.
    destruct left.
    + destruct l; [congruence|discriminate].
    + destruct (rev l) eqn:E; [|discriminate].
      exfalso. apply NE. rewrite <- (rev_involutive l), E. reflexivity.
  - destruct I as [E|I]; [congruence|]. specialize (IH I NE).
    destruct (db_get d k1) as [[b|l|s|h|z|st]|]; try discriminate; try exact IH.
    destruct left; [destruct l|destruct (rev l)]; try discriminate; exact IH.
Qed.

Lemma cnt_app l1 l2 x : cnt (l1 ++ l2) x = (cnt l1 x + cnt l2 x)%nat.
Proof. apply count_occ_app. Qed.
Lemma cnt_rev l x : cnt (rev l) x = cnt l x.
Proof. unfold cnt. induction l as [|y r IH]; [reflexivity|]. cbn [rev]. rewrite count_occ_app, IH. cbn. destruct (bytes_eq_dec y x); lia. Qed.
Lemma cnt_put_end left y l x : cnt (put_end left y l) x = (cnt l x + cnt [y] x)%nat.
Proof.
  destruct left; cbn [put_end]; [|rewrite cnt_app; lia].
  unfold cnt. cbn [count_occ]. destruct (bytes_eq_dec y x); lia.
Qed.

(* LPUSH / RPUSH through the dispatcher, on a keyspace without deadlines *)
Definition push_form (args : list bytes) : bool :=
  match args with name :: _ :: _ :: _ => is_push_name (lower name) | _ => false end.

Lemma push_form_not_blocking args : push_form args = true -> blocking_form args = None.
Proof.
  unfold push_form, blocking_form, is_push_name. destruct args as [|name [|k [|v vals]]]; try discriminate.
  intros H. apply orb_true_iff in H as [H|H]; apply bytes_eqb_eq in H; rewrite H; reflexivity.
Qed.

Lemma exec_push d now nowms args hint :
  ttl d = [] -> push_form args = true ->
  exists name k v vals left, args = name :: k :: v :: vals /\
    exec d now nowms args hint = push_cmd left true d args.
Proof.
  intros T PF. unfold push_form, is_push_name in PF. destruct args as [|name [|k [|v vals]]]; try discriminate.
  unfold exec, exec_cmd. rewrite purge_no_ttl by exact T.
  apply orb_true_iff in PF as [H|H]; apply bytes_eqb_eq in H; rewrite H.
  - exists name, k, v, vals, true. split; reflexivity.
  - exists name, k, v, vals, false. split; reflexivity.
Qed.

Lemma push_cmd_elems left d name k v vals r d' :
  push_cmd left true d (name :: k :: v :: vals) = (r, d') ->
  ttl d' = ttl d /\
  (forall k0, k0 <> k -> elems d' k0 = elems d k0) /\
  match r with
  | RInt _ => forall x, cnt (elems d' k) x = (cnt (elems d k) x + cnt (v :: vals) x)%nat
  | _ => d' = d
  end.
Proof.
  unfold push_cmd, get_list.
  assert (EK : elems d k = match db_get d k with Some (VList l) => l | _ => [] end) by reflexivity.
  destruct (db_get d k) as [[b|l|s|h|z|st]|] eqn:G; intros H; inversion H; subst r d'; clear H;
    try (split; [reflexivity|split; [reflexivity|reflexivity]]).
  - split; [reflexivity|]. split.
    + intros k0 N. unfold elems. rewrite db_get_set_other by exact N. reflexivity.
    + intros x. rewrite EK. unfold elems. rewrite db_get_set_same.
      destruct left; rewrite cnt_app; [change (rev vals ++ [v]) with (rev (v :: vals)); rewrite cnt_rev|]; lia.
  - split; [reflexivity|]. split.
    + intros k0 N. unfold elems. rewrite db_get_set_other by exact N. reflexivity.
    + intros x. rewrite EK. unfold elems. rewrite db_get_set_same.
      destruct left; rewrite ?app_nil_r; cbn [app]; [change (rev vals ++ [v]) with (rev (v :: vals)); rewrite cnt_rev|]; unfold cnt; cbn [count_occ]; lia.
Qed.

(* ------------------------------------------------------------------ the ledgers *)
(* what popper pp was handed from key k *)
Definition ret_of (k : bytes) (pp : popper * pstatus) : list bytes :=
  match snd pp with
  | PDone (RArr [RBulk k'; RBulk x]) _ => if bytes_eqb k' k then [x] else []
  | _ => []
  end.
Definition rets_of (k : bytes) (ps : list (popper * pstatus)) : list bytes := flat_map (ret_of k) ps.
(* the acknowledged pushes onto key k *)
Definition vals_of (k : bytes) (pushed : list (bytes * bytes)) : list bytes :=
  map snd (filter (fun p => bytes_eqb (fst p) k) pushed).

Lemma vals_of_app k a b : vals_of k (a ++ b) = vals_of k a ++ vals_of k b.
Proof. unfold vals_of. rewrite filter_app, map_app. reflexivity. Qed.
Lemma vals_of_pairs k k1 vs : vals_of k (map (pair k1) vs) = if bytes_eqb k1 k then vs else [].
Proof.
  unfold vals_of. induction vs as [|v r IH]; cbn [map filter fst]; [destruct (bytes_eqb k1 k); reflexivity|].
  destruct (bytes_eqb k1 k) eqn:E; cbn [map snd]; [rewrite IH; reflexivity|exact IH].
Qed.

Lemma nth_error_set_nth_same {A} (l : list A) i x y : nth_error l i = Some y -> nth_error (set_nth l i x) i = Some x.
Proof. revert i. induction l as [|z r IH]; intros [|i] H; cbn in *; try discriminate; [reflexivity|apply IH; exact H]. Qed.
Lemma nth_error_set_nth_other {A} (l : list A) i j x : i <> j -> nth_error (set_nth l i x) j = nth_error l j.
Proof.
  revert i j. induction l as [|z r IH]; intros [|i] [|j] N; cbn; try reflexivity; [congruence|].
  apply IH. congruence.
Qed.
Lemma set_nth_length {A} (l : list A) i x : List.length (set_nth l i x) = List.length l.
Proof. revert i. induction l as [|z r IH]; intros [|i]; cbn; auto. Qed.

Lemma rets_of_set_nth k ps i pp pp' x :
  nth_error ps i = Some pp -> ret_of k pp = [] ->
  cnt (rets_of k (set_nth ps i pp')) x = (cnt (rets_of k ps) x + cnt (ret_of k pp') x)%nat.
Proof.
  unfold rets_of. revert i. induction ps as [|q r IH]; intros [|i] H E; cbn in H; try discriminate.
  - inversion H; subst q. cbn [set_nth flat_map]. rewrite E. cbn [app]. rewrite cnt_app. lia.
  - cbn [set_nth flat_map]. rewrite !cnt_app. rewrite (IH i H E). lia.
Qed.

Lemma Forall_set_nth {A} (P : A -> Prop) l i x : Forall P l -> P x -> Forall P (set_nth l i x).
Proof.
  intros F Px. revert i. induction F as [|z r Pz F IH]; intros [|i]; cbn; constructor; auto.
Qed.

(* ------------------------------------------------------------------ conservation, for any order of events *)
Definition nil_ok (r : reply) : Prop := r = RNil \/ r = blocked_marker.

(* other connections only push (LPUSH/RPUSH) or start further blocking pops *)
Definition ok_ev (e : mev) : Prop :=
  match e with
  | ECmd _ _ args _ => blocking_form args <> None \/ push_form args = true
  | _ => True
  end.

Definition Inv (d0 : db) (st : mst) : Prop :=
  ttl (m_d st) = [] /\
  Forall (fun pp => nil_ok (pp_nil (fst pp))) (m_ps st) /\
  forall k x, (cnt (elems d0 k) x + cnt (vals_of k (m_pushed st)) x =
               cnt (rets_of k (m_ps st)) x + cnt (elems (m_d st) k) x)%nat.

Lemma nil_ok_ret k p t : nil_ok (pp_nil p) -> ret_of k (p, PDone (pp_nil p) t) = [].
Proof. intros [E|E]; unfold ret_of; cbn [snd]; rewrite E; reflexivity. Qed.

Lemma Inv_step wd d0 e st : ok_ev e -> Inv d0 st -> Inv d0 (mstep wd e st).
Proof.
  intros OK (T & NO & C). destruct e as [i t|i t|t conn args hint]; cbn [mstep].
  - (* a polling round *)
    destruct (nth_error (m_ps st) i) as [[p [n|r0 t0]]|] eqn:NI; try (repeat split; assumption).
    unfold bpop_poll. rewrite purge_no_ttl by exact T.
    assert (NOp : nil_ok (pp_nil p)).
    { rewrite Forall_forall in NO. apply (NO (p, PBlocked n)). eapply nth_error_In. exact NI. }
    destruct (bpop_try (pp_left p) (m_d st) (pp_keys p)) as [[r d']|] eqn:BT.
    + destruct (bpop_try_shape _ _ _ _ _ BT) as [[-> ->]|(k1 & x1 & -> & _ & E1 & E2 & E3)].
      * split; [exact T|]. split; [apply Forall_set_nth; assumption|]. cbn [m_d m_ps m_pushed].
        intros k x. rewrite (rets_of_set_nth k _ i (p, PBlocked n)) by (assumption || reflexivity).
        specialize (C k x). cbn. lia.
      * split; [apply E3; exact T|]. split; [apply Forall_set_nth; assumption|]. cbn [m_d m_ps m_pushed].
        intros k x. rewrite (rets_of_set_nth k _ i (p, PBlocked n)) by (assumption || reflexivity).
        specialize (C k x). unfold ret_of. cbn [snd].
        destruct (bytes_eqb_spec k1 k) as [->|N].
        -- rewrite E1, cnt_put_end in C. lia.
        -- rewrite (E2 k) by congruence. cbn. lia.
    + split; [exact T|]. split; [apply Forall_set_nth; assumption|]. cbn [m_d m_ps m_pushed].
      intros k x. rewrite (rets_of_set_nth k _ i (p, PBlocked n)) by (assumption || reflexivity).
      specialize (C k x). cbn. lia.
  - (* a timer *)
    destruct (nth_error (m_ps st) i) as [[p [n|r0 t0]]|] eqn:NI; try (repeat split; assumption).
    assert (NOp : nil_ok (pp_nil p)).
    { rewrite Forall_forall in NO. apply (NO (p, PBlocked n)). eapply nth_error_In. exact NI. }
    assert (NONE : Inv d0 (mkM (m_d st) (set_nth (m_ps st) i (p, PDone (pp_nil p) t)) (m_outs st) (m_pushed st))).
    { split; [exact T|]. split; [apply Forall_set_nth; assumption|]. cbn [m_d m_ps m_pushed].
      intros k x. rewrite (rets_of_set_nth k _ i (p, PBlocked n)) by (assumption || reflexivity).
      rewrite nil_ok_ret by exact NOp. specialize (C k x). cbn. lia. }
    destruct (pp_cut p); [|exact NONE].
    unfold bpop_poll. rewrite purge_no_ttl by exact T.
    destruct (bpop_try (pp_left p) (m_d st) (pp_keys p)) as [[r d']|] eqn:BT; [|exact NONE].
    destruct (bpop_try_shape _ _ _ _ _ BT) as [[-> ->]|(k1 & x1 & -> & _ & E1 & E2 & E3)].
    + split; [exact T|]. split; [apply Forall_set_nth; assumption|]. cbn [m_d m_ps m_pushed].
      intros k x. rewrite (rets_of_set_nth k _ i (p, PBlocked n)) by (assumption || reflexivity).
      specialize (C k x). cbn. lia.
    + split; [apply E3; exact T|]. split; [apply Forall_set_nth; assumption|]. cbn [m_d m_ps m_pushed].
      intros k x. rewrite (rets_of_set_nth k _ i (p, PBlocked n)) by (assumption || reflexivity).
      specialize (C k x). unfold ret_of. cbn [snd].
      destruct (bytes_eqb_spec k1 k) as [->|N].
      * rewrite E1, cnt_put_end in C. lia.
      * rewrite (E2 k) by congruence. cbn. lia.
  - (* a command of another connection *)
    cbn [ok_ev] in OK. destruct (blocking_form args) as [[[lft keys] tmo]|] eqn:BF.
    + split; [exact T|]. cbn [m_d m_ps m_pushed]. split.
      * apply Forall_app. split; [exact NO|]. constructor; [|constructor]. cbn [fst pp_nil].
        destruct (block_timer_ms tmo >? wd); [right|left]; reflexivity.
      * intros k x. unfold rets_of. rewrite flat_map_app. cbn [flat_map]. unfold ret_of at 2. cbn [snd app].
        rewrite app_nil_r. apply C.
    + destruct OK as [OK|PF]; [congruence|].
      destruct (exec_push (m_d st) (t / 1000) t args hint T PF) as (name & k1 & v & vals & left & -> & EX).
      rewrite EX. destruct (push_cmd left true (m_d st) (name :: k1 :: v :: vals)) as [r d'] eqn:PC.
      destruct (push_cmd_elems _ _ _ _ _ _ _ _ PC) as (T' & E2 & E3).
      unfold Inv. cbn [m_d m_ps m_pushed]. split; [rewrite T'; exact T|]. split; [exact NO|].
      intros k x. specialize (C k x). unfold pushed_of.
      unfold push_form in PF. 
      destruct r; try (subst d'; rewrite app_nil_r; exact C).
      rewrite PF. rewrite vals_of_app, vals_of_pairs, cnt_app.
      destruct (bytes_eqb_spec k1 k) as [->|N].
      * rewrite E3. lia.
      * rewrite (E2 k) by congruence. cbn. lia.
Qed.

Lemma Inv_run wd d0 evs : forall st, Forall ok_ev evs -> Inv d0 st -> Inv d0 (mrun wd evs st).
Proof.
  unfold mrun. induction evs as [|e r IH]; intros st F I; [exact I|].
  inversion F; subst. cbn [fold_left]. apply IH; [assumption|]. apply Inv_step; assumption.
Qed.

Lemma Inv_init d0 : ttl d0 = [] -> Inv d0 (mkM d0 [] [] []).
Proof. intros T. split; [exact T|]. split; [constructor|]. intros k x. cbn. lia. Qed.

(* every element that was in the keyspace or was pushed is, at any moment and after ANY order of
   events, either still in its list or was handed to exactly one popper *)
Theorem multi_conservation wd d0 evs :
  ttl d0 = [] -> Forall ok_ev evs ->
  let st := mrun wd evs (mkM d0 [] [] []) in
  forall k, Permutation (elems d0 k ++ vals_of k (m_pushed st)) (rets_of k (m_ps st) ++ elems (m_d st) k).
Proof.
  intros T F st k. destruct (Inv_run wd d0 evs _ F (Inv_init d0 T)) as (_ & _ & C).
  apply (Permutation_count_occ bytes_eq_dec). intros x. rewrite !count_occ_app. apply (C k x).
Qed.

(* an element value is handed out at most as many times as it was there or was pushed *)
Corollary multi_at_most_once wd d0 evs :
  ttl d0 = [] -> Forall ok_ev evs ->
  let st := mrun wd evs (mkM d0 [] [] []) in
  forall k x, (cnt (rets_of k (m_ps st)) x <= cnt (elems d0 k ++ vals_of k (m_pushed st)) x)%nat.
Proof.
  intros T F st k x. destruct (Inv_run wd d0 evs _ F (Inv_init d0 T)) as (_ & _ & C).
  rewrite cnt_app. specialize (C k x). fold st in C. lia.
Qed.

(* two different poppers that were both handed value x from key k: x was there / was pushed twice.
   So an element pushed once goes to at most one popper. *)
Lemma rets_of_two k ps i j pi pj ti tj x :
  i <> j ->
  nth_error ps i = Some (pi, PDone (RArr [RBulk k; RBulk x]) ti) ->
  nth_error ps j = Some (pj, PDone (RArr [RBulk k; RBulk x]) tj) ->
  (2 <= cnt (rets_of k ps) x)%nat.
Proof.
  assert (ONE : forall p t, cnt (ret_of k (p, PDone (RArr [RBulk k; RBulk x]) t)) x = 1%nat).
  { intros p t. unfold ret_of. cbn [snd]. rewrite bytes_eqb_refl. unfold cnt. cbn.
    destruct (bytes_eq_dec x x); [reflexivity|congruence]. }
  assert (GE : forall l n q t, nth_error l n = Some (q, PDone (RArr [RBulk k; RBulk x]) t) ->
                               (1 <= cnt (rets_of k l) x)%nat).
  { induction l as [|a r IH]; intros [|n] q t H; cbn in H; try discriminate.
    - inversion H; subst. unfold rets_of. cbn [flat_map]. rewrite cnt_app, ONE. lia.
    - unfold rets_of. cbn [flat_map]. rewrite cnt_app. specialize (IH n q t H). unfold rets_of in IH. lia. }
  revert i j. induction ps as [|a r IH]; intros [|i] [|j] N Hi Hj; cbn in Hi, Hj; try discriminate; try congruence.
  - inversion Hi; subst. unfold rets_of. cbn [flat_map]. rewrite cnt_app, ONE.
    specialize (GE r j pj tj Hj). unfold rets_of in GE. lia.
  - inversion Hj; subst. unfold rets_of. cbn [flat_map]. rewrite cnt_app, ONE.
    specialize (GE r i pi ti Hi). unfold rets_of in GE. lia.
  - unfold rets_of. cbn [flat_map]. rewrite cnt_app.
    assert (N' : i <> j) by congruence. specialize (IH i j N' Hi Hj). unfold rets_of in IH. lia.
Qed.

Theorem multi_each_element_once wd d0 evs i j pi pj ti tj k x :
  ttl d0 = [] -> Forall ok_ev evs ->
  let st := mrun wd evs (mkM d0 [] [] []) in
  i <> j ->
  nth_error (m_ps st) i = Some (pi, PDone (RArr [RBulk k; RBulk x]) ti) ->
  nth_error (m_ps st) j = Some (pj, PDone (RArr [RBulk k; RBulk x]) tj) ->
  (2 <= cnt (elems d0 k ++ vals_of k (m_pushed st)) x)%nat.
Proof.
  intros T F st N Hi Hj. pose proof (multi_at_most_once wd d0 evs T F k x) as A. fold st in A.
  pose proof (rets_of_two k _ i j pi pj ti tj x N Hi Hj). lia.
Qed.

(* ------------------------------------------------------------------ promptness, for any order of events *)
(* popper j returned with a poll result (not by its timer) *)
Definition served_now (ps0 ps : list (popper * pstatus)) : Prop :=
  exists j p r t, nth_error ps j = Some (p, PDone r t) /\ poll_reply r /\
                  match nth_error ps0 j with Some (_, PDone _ _) => False | _ => True end.

(* events that may happen before popper i's next tick: anything but i's own timer; other
   connections only push or start blocking pops *)
Definition quiet (i : nat) (e : mev) : Prop :=
  match e with
  | ETimer j _ => j <> i
  | EPoll _ _ => True
  | ECmd _ _ args _ => blocking_form args <> None \/ push_form args = true
  end.

Lemma done_stable wd e st j p r t :
  nth_error (m_ps st) j = Some (p, PDone r t) -> nth_error (m_ps (mstep wd e st)) j = Some (p, PDone r t).
Proof.
  intros H. destruct e as [i t1|i t1|t1 conn args hint]; cbn [mstep].
  - destruct (nth_error (m_ps st) i) as [[q [n|r0 t0]]|] eqn:NI; try exact H.
    assert (N : i <> j) by (intros ->; congruence).
    destruct (bpop_poll (pp_left q) (pp_keys q) (m_d st) t1) as [[r1 d1]|]; cbn [m_ps];
      rewrite nth_error_set_nth_other by exact N; exact H.
  - destruct (nth_error (m_ps st) i) as [[q [n|r0 t0]]|] eqn:NI; try exact H.
    assert (N : i <> j) by (intros ->; congruence).
    destruct (if pp_cut q then bpop_poll (pp_left q) (pp_keys q) (m_d st) t1 else None) as [[r1 d1]|]; cbn [m_ps];
      rewrite nth_error_set_nth_other by exact N; exact H.
  - destruct (blocking_form args) as [[[lft keys] tmo]|].
    + cbn [m_ps]. rewrite nth_error_app1; [exact H|]. apply nth_error_Some. congruence.
    + destruct (exec (m_d st) (t1 / 1000) t1 args hint). exact H.
Qed.

Lemma served_now_step wd e ps0 st : served_now ps0 (m_ps st) -> served_now ps0 (m_ps (mstep wd e st)).
Proof.
  intros (j & p & r & t & H & PR & N0). exists j, p, r, t. split; [apply done_stable; exact H|]. split; assumption.
Qed.

Lemma served_now_run wd evs ps0 : forall st, served_now ps0 (m_ps st) -> served_now ps0 (m_ps (mrun wd evs st)).
Proof.
  unfold mrun. induction evs as [|e r IH]; intros st H; [exact H|]. cbn [fold_left]. apply IH.
  apply served_now_step. exact H.
Qed.

Lemma bpop_try_reply left d keys r d' : bpop_try left d keys = Some (r, d') -> poll_reply r.
Proof.
  intros H. destruct (bpop_try_shape _ _ _ _ _ H) as [[-> _]|(k & x & -> & _)]; [left; reflexivity|right; eauto].
Qed.

(* the state of the window: popper i still blocked, key k (one of its keys) still holds elements *)
Definition waiting (i : nat) (p : popper) (k : bytes) (st : mst) : Prop :=
  ttl (m_d st) = [] /\ (exists n, nth_error (m_ps st) i = Some (p, PBlocked n)) /\ elems (m_d st) k <> [].

Definition not_done_in (ps0 : list (popper * pstatus)) (j : nat) : Prop :=
  match nth_error ps0 j with Some (_, PDone _ _) => False | _ => True end.

(* poppers done at the start of the window stay as they are *)
Definition stable_from (ps0 : list (popper * pstatus)) (st : mst) : Prop :=
  forall j q r t, nth_error ps0 j = Some (q, PDone r t) -> nth_error (m_ps st) j = Some (q, PDone r t).

Lemma nonempty_cnt l : l <> [] <-> exists y, (1 <= cnt l y)%nat.
Proof.
  split.
  - destruct l as [|y r]; [congruence|]. intros _. exists y. unfold cnt. cbn. destruct (bytes_eq_dec y y); [lia|congruence].
  - intros [y H] ->. cbn in H. lia.
Qed.

Lemma window_step wd ps0 i p k e st :
  In k (pp_keys p) -> not_done_in ps0 i ->
  quiet i e -> stable_from ps0 st ->
  served_now ps0 (m_ps st) \/ waiting i p k st ->
  served_now ps0 (m_ps (mstep wd e st)) \/ waiting i p k (mstep wd e st).
Proof.
  intros IK ND Q SF [SN|(T & (n & NI) & NE)]; [left; apply served_now_step; exact SN|].
  destruct e as [j t1|j t1|t1 conn args hint]; cbn [mstep quiet] in *.
  - destruct (nth_error (m_ps st) j) as [[q [n'|r0 t0]]|] eqn:NJ;
      try (right; split; [exact T|split; [exists n; exact NI|exact NE]]).
    unfold bpop_poll. rewrite purge_no_ttl by exact T.
    destruct (bpop_try (pp_left q) (m_d st) (pp_keys q)) as [[r1 d1]|] eqn:BT.
    + left. exists j, q, r1, t1. cbn [m_ps]. split; [eapply nth_error_set_nth_same; exact NJ|].
      split; [eapply bpop_try_reply; exact BT|].
      unfold not_done_in. destruct (nth_error ps0 j) as [[q0 [m|r0 t0]]|] eqn:N0; try exact I.
      specialize (SF j q0 r0 t0 N0). congruence.
    + destruct (Nat.eq_dec j i) as [->|N].
      * exfalso. rewrite NI in NJ. inversion NJ; subst q n'.
        exact (bpop_try_some (pp_left p) (m_d st) (pp_keys p) k IK NE BT).
      * right. split; [exact T|]. cbn [m_d m_ps]. split; [|exact NE].
        exists n. rewrite nth_error_set_nth_other by exact N. exact NI.
  - destruct (nth_error (m_ps st) j) as [[q [n'|r0 t0]]|] eqn:NJ;
      try (right; split; [exact T|split; [exists n; exact NI|exact NE]]).
    assert (NONE : waiting i p k (mkM (m_d st) (set_nth (m_ps st) j (q, PDone (pp_nil q) t1)) (m_outs st) (m_pushed st))).
    { split; [exact T|]. cbn [m_d m_ps]. split; [|exact NE].
      exists n. rewrite nth_error_set_nth_other by exact Q. exact NI. }
    destruct (pp_cut q); [|right; exact NONE].
    unfold bpop_poll. rewrite purge_no_ttl by exact T.
    destruct (bpop_try (pp_left q) (m_d st) (pp_keys q)) as [[r1 d1]|] eqn:BT; [|right; exact NONE].
    left. exists j, q, r1, t1. cbn [m_ps]. split; [eapply nth_error_set_nth_same; exact NJ|].
    split; [eapply bpop_try_reply; exact BT|].
    unfold not_done_in. destruct (nth_error ps0 j) as [[q0 [m|r0 t0]]|] eqn:N0; try exact I.
    specialize (SF j q0 r0 t0 N0). congruence.
  - destruct (blocking_form args) as [[[lft keys] tmo]|] eqn:BF.
    + right. split; [exact T|]. cbn [m_d m_ps]. split; [|exact NE].
      exists n. rewrite nth_error_app1; [exact NI|]. apply nth_error_Some. congruence.
    + destruct Q as [Q|PF]; [congruence|].
      destruct (exec_push (m_d st) (t1 / 1000) t1 args hint T PF) as (name & k1 & v & vals & left & -> & EX).
      rewrite EX. destruct (push_cmd left true (m_d st) (name :: k1 :: v :: vals)) as [r d'] eqn:PC.
      destruct (push_cmd_elems _ _ _ _ _ _ _ _ PC) as (T' & E2 & E3).
      right. split; [cbn [m_d]; rewrite T'; exact T|]. cbn [m_d m_ps]. split; [exists n; exact NI|].
      destruct (bytes_eq_dec k1 k) as [->|N].
      * destruct r; try (subst d'; exact NE).
        apply nonempty_cnt. apply nonempty_cnt in NE as [y Hy]. exists y. rewrite E3. lia.
      * rewrite (E2 k) by congruence. exact NE.
Qed.

Lemma stable_from_step wd ps0 e st : stable_from ps0 st -> stable_from ps0 (mstep wd e st).
Proof. intros SF j q r t H. apply done_stable. apply SF. exact H. Qed.

Lemma window_run wd ps0 i p k mid : forall st,
  In k (pp_keys p) -> not_done_in ps0 i -> Forall (quiet i) mid -> stable_from ps0 st ->
  served_now ps0 (m_ps st) \/ waiting i p k st ->
  stable_from ps0 (mrun wd mid st) /\
  (served_now ps0 (m_ps (mrun wd mid st)) \/ waiting i p k (mrun wd mid st)).
Proof.
  unfold mrun. induction mid as [|e r IH]; intros st IK ND F SF H; [split; assumption|].
  inversion F; subst. cbn [fold_left]. apply IH; try assumption.
  - apply stable_from_step. exact SF.
  - eapply window_step; eassumption.
Qed.

(* While a key listed by a blocked popper holds elements, the next tick of that popper finds some
   popper served -- for any order of the events in between (other poppers' polls at any phase,
   their timers, pushes, new blocked pops). *)
Theorem multi_prompt wd st0 mid i p n k t' :
  ttl (m_d st0) = [] ->
  nth_error (m_ps st0) i = Some (p, PBlocked n) -> In k (pp_keys p) -> elems (m_d st0) k <> [] ->
  Forall (quiet i) mid ->
  served_now (m_ps st0) (m_ps (mrun wd (mid ++ [EPoll i t']) st0)).
Proof.
  intros T NI IK NE F.
  assert (ND : not_done_in (m_ps st0) i) by (unfold not_done_in; rewrite NI; exact I).
  assert (SF0 : stable_from (m_ps st0) st0) by (intros j q r t H; exact H).
  destruct (window_run wd (m_ps st0) i p k mid st0 IK ND F SF0) as [SF W].
  { right. split; [exact T|]. split; [exists n; exact NI|exact NE]. }
  unfold mrun in *. rewrite fold_left_app. cbn [fold_left].
  set (st := fold_left (fun s e => mstep wd e s) mid st0) in *.
  destruct W as [SN|(T0 & (n0 & N0) & NE0)]; [apply served_now_step; exact SN|].
  cbn [mstep]. rewrite N0. unfold bpop_poll. rewrite purge_no_ttl by exact T0.
  destruct (bpop_try (pp_left p) (m_d st) (pp_keys p)) as [[r1 d1]|] eqn:BT.
  - exists i, p, r1, t'. cbn [m_ps]. split; [eapply nth_error_set_nth_same; exact N0|].
    split; [eapply bpop_try_reply; exact BT|exact ND].
  - exfalso. exact (bpop_try_some (pp_left p) (m_d st) (pp_keys p) k IK NE0 BT).
Qed.

(* ------------------------------------------------------------------ the scheduler *)
Definition ev_time (e : mev) : Z :=
  match e with EPoll _ t => t | ETimer _ t => t | ECmd t _ _ _ => t end.

(* the simulator's result is the run of the events it logged *)
Lemma msim_is_mrun wd fuel : forall st cmds log st' log',
  msim wd fuel st cmds log = (st', log') -> exists evs, log' = log ++ evs /\ st' = mrun wd evs st.
Proof.
  induction fuel as [|f IH]; intros st cmds log st' log' H; cbn [msim] in H.
  - inversion H; subst. exists []. rewrite app_nil_r. split; reflexivity.
  - destruct (next_event st cmds) as [[e cmds']|].
    + apply IH in H as (evs & -> & ->). exists (e :: evs). rewrite <- app_assoc. split; reflexivity.
    + inversion H; subst. exists []. rewrite app_nil_r. split; reflexivity.
Qed.

(* the candidate kept by [earliest]: a pending event of some popper, not later than any other *)
Lemma earliest_spec ps : forall i0 best t e,
  earliest ps i0 best = Some (t, e) ->
  ((best = Some (t, e)) \/ exists j pp, nth_error ps j = Some pp /\ pending (i0 + j) pp = Some (t, e)) /\
  (forall tb eb, best = Some (tb, eb) -> t <= tb) /\
  (forall j pp tj ej, nth_error ps j = Some pp -> pending (i0 + j) pp = Some (tj, ej) -> t <= tj).
Proof.
  induction ps as [|pp r IH]; intros i0 best t e H; cbn [earliest] in H.
  - subst best. split; [left; reflexivity|]. split.
    + intros tb eb E. inversion E; subst. lia.
    + intros j pp0 tj ej Hn. destruct j; discriminate.
  - apply IH in H as (SRC & LB & LP).
    assert (LP' : forall j pp0 tj ej, nth_error r j = Some pp0 -> pending (i0 + S j) pp0 = Some (tj, ej) -> t <= tj).
    { intros j pp0 tj ej Hn Hp. apply (LP j pp0 tj ej Hn). replace (S i0 + j)%nat with (i0 + S j)%nat by lia. exact Hp. }
    destruct (pending i0 pp) as [[tp ep]|] eqn:PP.
    + destruct best as [[tb eb]|].
      * destruct (tp <? tb) eqn:C; [apply Z.ltb_lt in C|apply Z.ltb_ge in C].
        -- specialize (LB tp ep eq_refl). split; [|split].
           ++ destruct SRC as [E|(j & pp0 & Hn & Hp)].
              ** inversion E; subst. right. exists O, pp. split; [reflexivity|]. rewrite Nat.add_0_r. exact PP.
              ** right. exists (S j), pp0. split; [exact Hn|]. replace (i0 + S j)%nat with (S i0 + j)%nat by lia. exact Hp.
           ++ intros tb0 eb0 E. inversion E; subst. lia.
           ++ intros [|j] pp0 tj ej Hn Hp; cbn in Hn.
              ** inversion Hn; subst pp0. rewrite Nat.add_0_r in Hp. rewrite PP in Hp. inversion Hp; subst. exact LB.
              ** eapply LP'; eassumption.
        -- specialize (LB tb eb eq_refl). split; [|split].
           ++ destruct SRC as [E|(j & pp0 & Hn & Hp)]; [left; exact E|].
              right. exists (S j), pp0. split; [exact Hn|]. replace (i0 + S j)%nat with (S i0 + j)%nat by lia. exact Hp.
           ++ intros tb0 eb0 E. inversion E; subst. exact LB.
           ++ intros [|j] pp0 tj ej Hn Hp; cbn in Hn.
              ** inversion Hn; subst pp0. rewrite Nat.add_0_r in Hp. rewrite PP in Hp. inversion Hp; subst. lia.
              ** eapply LP'; eassumption.
      * specialize (LB tp ep eq_refl). split; [|split].
        -- destruct SRC as [E|(j & pp0 & Hn & Hp)].
           ++ inversion E; subst. right. exists O, pp. split; [reflexivity|]. rewrite Nat.add_0_r. exact PP.
           ++ right. exists (S j), pp0. split; [exact Hn|]. replace (i0 + S j)%nat with (S i0 + j)%nat by lia. exact Hp.
        -- intros tb0 eb0 E. discriminate.
        -- intros [|j] pp0 tj ej Hn Hp; cbn in Hn.
           ++ inversion Hn; subst pp0. rewrite Nat.add_0_r in Hp. rewrite PP in Hp. inversion Hp; subst. exact LB.
           ++ eapply LP'; eassumption.
    + split; [|split].
      * destruct SRC as [E|(j & pp0 & Hn & Hp)]; [left; exact E|].
        right. exists (S j), pp0. split; [exact Hn|]. replace (i0 + S j)%nat with (S i0 + j)%nat by lia. exact Hp.
      * exact LB.
      * intros [|j] pp0 tj ej Hn Hp; cbn in Hn.
        -- inversion Hn; subst pp0. rewrite Nat.add_0_r in Hp. congruence.
        -- eapply LP'; eassumption.
Qed.

Lemma pending_time i pp t e : pending i pp = Some (t, e) -> ev_time e = t.
Proof.
  destruct pp as [p [n|r0 t0]]; cbn [pending]; [|discriminate].
  destruct (n <? pp_t0 p + pp_timer p); intros H; inversion H; reflexivity.
Qed.

Definition cmd_ev (c : bgev) : mev := ECmd (bg_ms c) (bg_conn c) (bg_args c) (bg_hint c).

Lemma earliest_some_stays : forall (l : list (popper * pstatus)) i b, b <> None -> earliest l i b <> None.
Proof.
  induction l as [|q l IHl]; intros i b Hb; cbn [earliest]; [exact Hb|]. apply IHl.
  destruct (pending i q) as [[t1 e1]|]; [|exact Hb]. destruct b as [[tb eb]|]; [|discriminate].
  destruct (t1 <? tb); discriminate.
Qed.

Lemma earliest_none ps : forall i0, earliest ps i0 None = None ->
  forall j pp tj ej, nth_error ps j = Some pp -> pending (i0 + j) pp = Some (tj, ej) -> False.
Proof.
  induction ps as [|pp r IH]; intros i0 E j pp0 tj ej Hn Hp; [destruct j; discriminate|].
  cbn [earliest] in E. destruct (pending i0 pp) as [[tp ep]|] eqn:PP.
  - exact (earliest_some_stays r (S i0) (Some (tp, ep)) ltac:(discriminate) E).
  - destruct j as [|j]; cbn in Hn.
    + inversion Hn; subst pp0. rewrite Nat.add_0_r in Hp. congruence.
    + eapply (IH (S i0) E j); [exact Hn|]. replace (S i0 + j)%nat with (i0 + S j)%nat by lia. exact Hp.
Qed.

Lemma next_event_spec st cmds e cmds' :
  next_event st cmds = Some (e, cmds') ->
  (forall j pp tj ej, nth_error (m_ps st) j = Some pp -> pending j pp = Some (tj, ej) -> ev_time e <= tj) /\
  ((exists j pp, nth_error (m_ps st) j = Some pp /\ pending j pp = Some (ev_time e, e) /\ cmds' = cmds) \/
   (exists c, cmds = c :: cmds' /\ e = cmd_ev c)).
Proof.
  unfold next_event. destruct (earliest (m_ps st) 0 None) as [[t e0]|] eqn:E.
  - apply earliest_spec in E as (SRC & _ & LP). cbn [Nat.add] in *.
    destruct SRC as [SRC|(j & pp & Hn & Hp)]; [discriminate|].
    pose proof (pending_time _ _ _ _ Hp) as ET.
    destruct cmds as [|c r].
    + intros H. injection H as <- <-. split.
      * intros j0 pp0 tj ej Hn0 Hp0. rewrite ET. eapply LP; eassumption.
      * left. exists j, pp. rewrite ET. repeat split; assumption.
    + destruct (bg_ms c <? t) eqn:C; [apply Z.ltb_lt in C|apply Z.ltb_ge in C]; intros H; injection H as <- <-.
      * split.
        -- intros j0 pp0 tj ej Hn0 Hp0. cbn [ev_time]. specialize (LP j0 pp0 tj ej Hn0 Hp0). lia.
        -- right. exists c. split; reflexivity.
      * split.
        -- intros j0 pp0 tj ej Hn0 Hp0. rewrite ET. eapply LP; eassumption.
        -- left. exists j, pp. rewrite ET. repeat split; assumption.
  - pose proof (earliest_none (m_ps st) O E) as NOP. cbn [Nat.add] in NOP.
    destruct cmds as [|c r]; [discriminate|]. intros H. inversion H; subst. split.
    + intros j pp tj ej Hn Hp. exfalso. eapply NOP; eassumption.
    + right. exists c. split; reflexivity.
Qed.

Lemma mev_is_tick (e : mev) (i : nat) (n : Z) : {e = EPoll i n} + {e <> EPoll i n}.
Proof.
  destruct e as [j t|j t|t c a h]; try (right; discriminate).
  destruct (Nat.eq_dec j i) as [->|N]; [|right; congruence].
  destruct (Z.eq_dec t n) as [->|N]; [left; reflexivity|right; congruence].
Qed.

(* an event other than popper i's own tick/timer leaves popper i as it is *)
Lemma other_event_keeps wd e st i p n :
  nth_error (m_ps st) i = Some (p, PBlocked n) ->
  (forall t, e <> EPoll i t) -> (forall t, e <> ETimer i t) ->
  nth_error (m_ps (mstep wd e st)) i = Some (p, PBlocked n).
Proof.
  intros NI NP NT. destruct e as [j t|j t|t conn args hint]; cbn [mstep].
  - assert (N : j <> i) by (intros ->; exact (NP t eq_refl)).
    destruct (nth_error (m_ps st) j) as [[q [m|r0 t0]]|]; try exact NI.
    destruct (bpop_poll (pp_left q) (pp_keys q) (m_d st) t) as [[r1 d1]|]; cbn [m_ps];
      rewrite nth_error_set_nth_other by exact N; exact NI.
  - assert (N : j <> i) by (intros ->; exact (NT t eq_refl)).
    destruct (nth_error (m_ps st) j) as [[q [m|r0 t0]]|]; try exact NI.
    destruct (if pp_cut q then bpop_poll (pp_left q) (pp_keys q) (m_d st) t else None) as [[r1 d1]|]; cbn [m_ps];
      rewrite nth_error_set_nth_other by exact N; exact NI.
  - destruct (blocking_form args) as [[[lft keys] tmo]|].
    + cbn [m_ps]. rewrite nth_error_app1; [exact NI|]. apply nth_error_Some. congruence.
    + destruct (exec (m_d st) (t / 1000) t args hint). exact NI.
Qed.

Definition cmd_ok (c : bgev) : Prop := blocking_form (bg_args c) <> None \/ push_form (bg_args c) = true.

(* the scheduler, from a state in which popper i is blocked and its next event is its tick at n:
   every event it lets happen before that tick is not later than n and is not popper i's timer;
   then comes the tick (unless the fuel runs out first) *)
Lemma sim_until_tick wd fuel : forall st cmds log st' log' i p n,
  msim wd fuel st cmds log = (st', log') ->
  nth_error (m_ps st) i = Some (p, PBlocked n) -> n < pp_t0 p + pp_timer p ->
  Forall cmd_ok cmds ->
  exists rest, log' = log ++ rest /\
    ((exists mid post, rest = mid ++ EPoll i n :: post /\
                       Forall (quiet i) mid /\ Forall (fun e => ev_time e <= n) mid) \/
     (Forall (quiet i) rest /\ Forall (fun e => ev_time e <= n) rest /\ List.length rest = fuel)).
Proof.
  induction fuel as [|f IH]; intros st cmds log st' log' i p n H NI TM CO; cbn [msim] in H.
  - inversion H; subst. exists []. rewrite app_nil_r. split; [reflexivity|]. right. repeat split; constructor.
  - assert (PI : pending i (p, PBlocked n) = Some (n, EPoll i n)).
    { cbn [pending]. destruct (n <? pp_t0 p + pp_timer p) eqn:C; [reflexivity|apply Z.ltb_ge in C; lia]. }
    destruct (next_event st cmds) as [[e cmds']|] eqn:NE.
    2:{ (* nothing pending: impossible, popper i is *)
        exfalso. unfold next_event in NE.
        destruct (earliest (m_ps st) 0 None) as [[t0 e0]|] eqn:E.
        - destruct cmds as [|c r]; [discriminate|]. destruct (bg_ms c <? t0); discriminate.
        - exact (earliest_none (m_ps st) O E i _ n (EPoll i n) NI PI). }
    destruct (next_event_spec st cmds e cmds' NE) as (LE & SRC).
    assert (TE : ev_time e <= n) by (eapply LE; eassumption).
    destruct (mev_is_tick e i n) as [->|NEQ].
    + (* the tick itself *)
      destruct (msim_is_mrun wd f _ _ _ _ _ H) as (evs & -> & _).
      exists (EPoll i n :: evs). rewrite <- app_assoc. split; [reflexivity|].
      left. exists [], evs. repeat split; constructor.
    + (* another event first *)
      assert (Q : quiet i e /\ (forall t, e <> EPoll i t) /\ (forall t, e <> ETimer i t) /\ Forall cmd_ok cmds').
      { destruct SRC as [(j & pp & Hn & Hp & ->)|(c & -> & ->)].
        - destruct (Nat.eq_dec j i) as [->|N].
          + rewrite NI in Hn. inversion Hn; subst pp. rewrite PI in Hp. inversion Hp; subst. congruence.
          + destruct pp as [q [m|r0 t0]]; cbn [pending] in Hp; [|discriminate].
            destruct (m <? pp_t0 q + pp_timer q); injection Hp as _ E2; rewrite <- E2; cbn [quiet];
              (split; [auto|]); (split; [intros t E; inversion E; congruence|]);
              (split; [intros t E; inversion E; congruence|exact CO]).
        - inversion CO; subst. unfold cmd_ev. cbn [quiet]. split; [assumption|].
          split; [discriminate|]. split; [discriminate|assumption]. }
      destruct Q as (Q & NP & NT & CO').
      pose proof (other_event_keeps wd e st i p n NI NP NT) as NI'.
      destruct (IH _ _ _ _ _ i p n H NI' TM CO') as (rest & -> & [(mid & post & -> & QM & TMID)|(QR & TR & LR)]).
      * exists (e :: mid ++ EPoll i n :: post). rewrite <- app_assoc. split; [reflexivity|].
        left. exists (e :: mid), post. repeat split; try constructor; assumption.
      * exists (e :: rest). rewrite <- app_assoc. split; [reflexivity|].
        right. repeat split; try constructor; try assumption. cbn. lia.
Qed.

(* a popper's next tick is always set 100 ms after the event that set it (its call, or its
   previous unsuccessful poll) *)
Lemma next_tick_100 wd e st j p m :
  nth_error (m_ps (mstep wd e st)) j = Some (p, PBlocked m) ->
  nth_error (m_ps st) j = Some (p, PBlocked m) \/ m = ev_time e + 100.
Proof.
  destruct e as [i t|i t|t conn args hint]; cbn [mstep ev_time].
  - destruct (nth_error (m_ps st) i) as [[q [n|r0 t0]]|] eqn:NI; try (intros H; left; exact H).
    destruct (bpop_poll (pp_left q) (pp_keys q) (m_d st) t) as [[r1 d1]|]; cbn [m_ps]; intros H;
      (destruct (Nat.eq_dec i j) as [->|N];
       [rewrite (nth_error_set_nth_same _ _ _ _ NI) in H; inversion H; subst; try (right; reflexivity)
       |rewrite nth_error_set_nth_other in H by exact N; left; exact H]).
  - destruct (nth_error (m_ps st) i) as [[q [n|r0 t0]]|] eqn:NI; try (intros H; left; exact H).
    destruct (if pp_cut q then bpop_poll (pp_left q) (pp_keys q) (m_d st) t else None) as [[r1 d1]|];
      cbn [m_ps]; intros H; (destruct (Nat.eq_dec i j) as [->|N];
      [rewrite (nth_error_set_nth_same _ _ _ _ NI) in H; discriminate
      |rewrite nth_error_set_nth_other in H by exact N; left; exact H]).
  - destruct (blocking_form args) as [[[lft keys] tmo]|].
    + cbn [m_ps]. intros H. destruct (Nat.lt_ge_cases j (List.length (m_ps st))) as [L|G].
      * rewrite nth_error_app1 in H by exact L. left. exact H.
      * rewrite nth_error_app2 in H by exact G.
        destruct (j - List.length (m_ps st))%nat as [|x]; cbn in H; [|destruct x; discriminate].
        inversion H; subst. right. reflexivity.
    + destruct (exec (m_d st) (t / 1000) t args hint). intros H. left. exact H.
Qed.

(* Promptness on the scheduler itself.  At any point of a run: popper i is blocked, its next tick
   is at n (100 ms after its previous poll or its call) and comes before its timer, a key it
   lists holds elements, the other connections only push or start blocking pops.  Then the
   scheduler lets only events not later than n happen and then i's tick (unless the fuel runs
   out first); by then some popper has been served.  Hence: within one polling period. *)
Theorem sim_prompt wd fuel st cmds log st' log' i p n k :
  msim wd fuel st cmds log = (st', log') ->
  ttl (m_d st) = [] -> nth_error (m_ps st) i = Some (p, PBlocked n) -> n < pp_t0 p + pp_timer p ->
  In k (pp_keys p) -> elems (m_d st) k <> [] -> Forall cmd_ok cmds ->
  exists rest, log' = log ++ rest /\
    ((exists mid post, rest = mid ++ EPoll i n :: post /\ Forall (fun e => ev_time e <= n) mid /\
                       served_now (m_ps st) (m_ps (mrun wd (mid ++ [EPoll i n]) st))) \/
     List.length rest = fuel).
Proof.
  intros H T NI TM IK NE CO.
  destruct (sim_until_tick wd fuel st cmds log st' log' i p n H NI TM CO)
    as (rest & -> & [(mid & post & -> & QM & TMID)|(_ & _ & LR)]).
  - exists (mid ++ EPoll i n :: post). split; [reflexivity|]. left. exists mid, post.
    split; [reflexivity|]. split; [exact TMID|]. eapply multi_prompt; eassumption.
  - exists rest. split; [reflexivity|]. right. exact LR.
Qed.
