(* Proofs about the stream model (Mem/Streams.v): the stored id list is strictly increasing and
   stays so under every command; an accepted XADD appends an id greater than every stored id; a
   refused XADD changes nothing; XRANGE is exactly the inclusive id filter; trimming only drops a
   prefix; reads create nothing; db_wf and reply_wf are preserved. *)
Require Import Base.Bytes Base.GoInt Base.Reply Mem.Types Mem.Inv Mem.Streams.
From Coq Require Import Sorting.Sorted.
Local Open Scope Z_scope.

(* ------------------------------------------------------------------ the id order *)
Definition sid_ltP (a b : sid) : Prop := fst a < fst b \/ (fst a = fst b /\ snd a < snd b).
Definition sid_leP (a b : sid) : Prop := fst a < fst b \/ (fst a = fst b /\ snd a <= snd b).

Lemma sid_lt_spec a b : sid_lt a b = true <-> sid_ltP a b.
Proof.
  unfold sid_lt, sid_ltP. rewrite orb_true_iff, andb_true_iff, !Z.ltb_lt, Z.eqb_eq. tauto.
Qed.
Lemma sid_lt_false a b : sid_lt a b = false <-> sid_leP b a.
Proof.
  unfold sid_leP. destruct (sid_lt a b) eqn:E.
  - apply sid_lt_spec in E. unfold sid_ltP in E. split; [discriminate|lia].
  - split; [intros _|reflexivity].
    assert (N : ~ sid_ltP a b) by (intros H; apply sid_lt_spec in H; congruence).
    unfold sid_ltP in N. lia.
Qed.
Lemma sid_le_spec a b : sid_le a b = true <-> sid_leP a b.
Proof. unfold sid_le. rewrite negb_true_iff. apply sid_lt_false. Qed.

Lemma sid_ltP_trans a b c : sid_ltP a b -> sid_ltP b c -> sid_ltP a c.
Proof. unfold sid_ltP. lia. Qed.
Lemma sid_leP_ltP_trans a b c : sid_leP a b -> sid_ltP b c -> sid_ltP a c.
Proof. unfold sid_ltP, sid_leP. lia. Qed.
Lemma sid_ltP_leP_trans a b c : sid_ltP a b -> sid_leP b c -> sid_ltP a c.
Proof. unfold sid_ltP, sid_leP. lia. Qed.
Lemma sid_ltP_irrefl a : ~ sid_ltP a a.
Proof. unfold sid_ltP. lia. Qed.
Lemma sid_ltP_leP a b : sid_ltP a b -> sid_leP a b.
Proof. unfold sid_ltP, sid_leP. lia. Qed.
Lemma sid_leP_refl a : sid_leP a a.
Proof. unfold sid_leP. lia. Qed.

(* ------------------------------------------------------------------ the value invariant *)
Definition ids (x : list sentry) : list sid := map fst x.
Definition increasing (l : list sid) : Prop := StronglySorted sid_ltP l.
Definition in_u64 (i : sid) : Prop := (0 <= fst i <= u64max) /\ (0 <= snd i <= u64max).

(* a stored stream: ids strictly increasing (hence pairwise distinct), components unsigned 64-bit.
   An empty stream may be stored (XADD ... MAXLEN 0 leaves one, as in Redis). *)
Definition stream_ok (x : list sentry) : Prop := increasing (ids x) /\ Forall in_u64 (ids x).
Definition value_ok_stream (v : value) : Prop :=
  match v with VStream x => stream_ok x | _ => True end.
Definition streams_ok (d : db) : Prop := forall k v, db_get d k = Some v -> value_ok_stream v.

Lemma stream_ok_nil : stream_ok [].
Proof. split; constructor. Qed.

Lemma streams_ok_empty : streams_ok empty_db.
Proof. intros k v H. discriminate. Qed.

Lemma increasing_app_one l i :
  increasing l -> Forall (fun j => sid_ltP j i) l -> increasing (l ++ [i]).
Proof.
  unfold increasing. induction l as [|a r IH]; cbn; intros S F.
  - constructor; constructor.
  - inversion S as [|? ? S' Fa]; subst. inversion F as [|? ? Ha F']; subst.
    constructor; [apply IH; assumption|].
    apply Forall_app. split; [assumption|constructor; [exact Ha|constructor]].
Qed.

(* every id of an increasing list is at most its last one *)
Lemma increasing_le_last l dflt : increasing l -> Forall (fun j => sid_leP j (last l dflt)) l.
Proof.
  unfold increasing. induction l as [|a r IH]; intros S; [constructor|].
  inversion S as [|? ? S' Fa]; subst.
  destruct r as [|b r'].
  - cbn. constructor; [apply sid_leP_refl|constructor].
  - change (last (a :: b :: r') dflt) with (last (b :: r') dflt).
    specialize (IH S'). constructor; [|exact IH].
    assert (In (last (b :: r') dflt) (b :: r')) as Hin.
    { clear. revert b. induction r' as [|c r'' IH']; intros b; [left; reflexivity|].
      change (last (b :: c :: r'') dflt) with (last (c :: r'') dflt). right. apply IH'. }
    rewrite Forall_forall in Fa. apply sid_ltP_leP. apply Fa. exact Hin.
Qed.

Lemma increasing_skipn n l : increasing l -> increasing (skipn n l).
Proof.
  unfold increasing. revert l. induction n as [|n IH]; intros l S; [exact S|].
  destruct l as [|a r]; [exact S|]. cbn. apply IH. inversion S; assumption.
Qed.

Lemma Forall_skipn {A} (P : A -> Prop) n l : Forall P l -> Forall P (skipn n l).
Proof.
  revert l. induction n as [|n IH]; intros l F; [exact F|].
  destruct l as [|a r]; [exact F|]. cbn. apply IH. inversion F; assumption.
Qed.

Lemma ids_skipn n x : ids (skipn n x) = skipn n (ids x).
Proof.
  unfold ids. revert x. induction n as [|n IH]; intros x; [reflexivity|].
  destruct x as [|e r]; [reflexivity|]. cbn. apply IH.
Qed.

Lemma stream_ok_skipn n x : stream_ok x -> stream_ok (skipn n x).
Proof.
  intros [S F]. split; rewrite ids_skipn; [apply increasing_skipn|apply Forall_skipn]; assumption.
Qed.

Lemma ids_app x y : ids (x ++ y) = ids x ++ ids y.
Proof. unfold ids. apply map_app. Qed.

Lemma last_id_ids x : last_id x = last (ids x) (0, 0).
Proof. reflexivity. Qed.

(* an id above the top item is above every stored id *)
Lemma above_top_above_all x i :
  stream_ok x -> sid_ltP (last_id x) i -> Forall (fun e => sid_ltP (fst e) i) x.
Proof.
  intros [S _] H. rewrite last_id_ids in H.
  pose proof (increasing_le_last (ids x) (0, 0) S) as L.
  unfold ids in L. rewrite Forall_map in L.
  eapply Forall_impl; [|exact L]. cbn. intros e He. eapply sid_leP_ltP_trans; eassumption.
Qed.

Lemma stream_ok_append x i fs :
  stream_ok x -> in_u64 i -> sid_ltP (last_id x) i -> stream_ok (x ++ [(i, fs)]).
Proof.
  intros OK U H. pose proof (above_top_above_all x i OK H) as A. destruct OK as [S F].
  split; rewrite ids_app; cbn.
  - apply increasing_app_one; [exact S|]. unfold ids. rewrite Forall_map. exact A.
  - apply Forall_app. split; [exact F|constructor; [exact U|constructor]].
Qed.

(* ------------------------------------------------------------------ id parsing stays in range *)
Lemma parse_u64_range s z : parse_u64 s = Some z -> 0 <= z <= u64max.
Proof.
  unfold parse_u64. destruct (parse_udec s) as [n|]; [|discriminate].
  destruct (Z.of_N n <=? u64max) eqn:E; [|discriminate].
  intros H; inversion H; subst. apply Z.leb_le in E. lia.
Qed.

Lemma parse_id_range s m i : 0 <= m <= u64max -> parse_id s m = Some i -> in_u64 i.
Proof.
  unfold parse_id, in_u64. intros Hm. destruct (split_dash s) as [a [b|]].
  - destruct (parse_u64 a) as [ms|] eqn:Ea; [|discriminate].
    destruct (parse_u64 b) as [sq|] eqn:Eb; [|discriminate].
    intros H; inversion H; subst; cbn.
    apply parse_u64_range in Ea. apply parse_u64_range in Eb. lia.
  - destruct (parse_u64 a) as [ms|] eqn:Ea; [|discriminate].
    intros H; inversion H; subst; cbn. apply parse_u64_range in Ea. lia.
Qed.

Definition spec_ok (spec : idspec) : Prop :=
  match spec with
  | IdAuto => True
  | IdAutoSeq ms => 0 <= ms <= u64max
  | IdFull i => in_u64 i
  end.

Lemma parse_add_id_ok s spec : parse_add_id s = Some spec -> spec_ok spec.
Proof.
  unfold parse_add_id. destruct (is s (B "*")); [intros H; inversion H; exact I|].
  assert (G : forall spec, match parse_id s 0 with Some i => Some (IdFull i) | None => None end = Some spec ->
                           spec_ok spec).
  { intros sp. destruct (parse_id s 0) as [i|] eqn:E; [|discriminate].
    intros H; inversion H; subst; cbn. eapply parse_id_range; [|exact E]. unfold u64max; lia. }
  destruct (split_dash s) as [a [b|]]; [|apply G].
  destruct (is b (B "*")); [|apply G].
  destruct (parse_u64 a) as [ms|] eqn:Ea; [|discriminate].
  intros H; inversion H; subst; cbn. eapply parse_u64_range; exact Ea.
Qed.

(* ------------------------------------------------------------------ id assignment *)
Lemma clock_ms_range nowms : 0 <= clock_ms nowms <= u64max.
Proof.
  unfold clock_ms. pose proof (Z.mod_pos_bound nowms (u64max + 1)) as H.
  unfold u64max in *. lia.
Qed.

Lemma incr_id_gt i j : incr_id i = Some j -> sid_ltP i j.
Proof.
  unfold incr_id, sid_ltP. destruct (snd i <? u64max) eqn:E1.
  - intros H; inversion H; subst; cbn. lia.
  - destruct (fst i <? u64max) eqn:E2; [|discriminate].
    intros H; inversion H; subst; cbn. lia.
Qed.

Lemma incr_id_range i j : in_u64 i -> incr_id i = Some j -> in_u64 j.
Proof.
  unfold incr_id, in_u64. intros U. destruct (snd i <? u64max) eqn:E1.
  - apply Z.ltb_lt in E1. intros H; inversion H; subst; cbn. lia.
  - destruct (fst i <? u64max) eqn:E2; [|discriminate]. apply Z.ltb_lt in E2.
    intros H; inversion H; subst; cbn. unfold u64max in *. lia.
Qed.

(* the only way incr_id fails: the greatest id *)
Lemma incr_id_none i : in_u64 i -> incr_id i = None -> i = (u64max, u64max).
Proof.
  unfold incr_id, in_u64. intros U. destruct (snd i <? u64max) eqn:E1; [discriminate|].
  destruct (fst i <? u64max) eqn:E2; [discriminate|]. intros _.
  apply Z.ltb_ge in E1. apply Z.ltb_ge in E2. destruct i as [a b]; cbn in *. f_equal; lia.
Qed.

(* whatever the clock and the form of the id argument: an accepted id is above the top item *)
Lemma new_id_gt spec nowms top i : new_id spec nowms top = Some i -> sid_ltP top i.
Proof.
  destruct spec as [|ms|j]; cbn.
  - destruct (fst top <? clock_ms nowms) eqn:E.
    + apply Z.ltb_lt in E. intros H; inversion H; subst. left; exact E.
    + apply incr_id_gt.
  - destruct (fst top <? ms) eqn:E.
    + apply Z.ltb_lt in E. intros H; inversion H; subst. left; exact E.
    + destruct ((ms =? fst top) && (snd top <? u64max)) eqn:E2; [|discriminate].
      apply andb_true_iff in E2 as [E2 E3]. apply Z.eqb_eq in E2. apply Z.ltb_lt in E3.
      intros H; inversion H; subst. right; cbn. lia.
  - destruct (sid_lt top j) eqn:E; [|discriminate].
    intros H; inversion H; subst. apply sid_lt_spec. exact E.
Qed.

Lemma new_id_range spec nowms top i :
  spec_ok spec -> in_u64 top -> new_id spec nowms top = Some i -> in_u64 i.
Proof.
  destruct spec as [|ms|j]; cbn; intros SO U.
  - destruct (fst top <? clock_ms nowms).
    + intros H; inversion H; subst. pose proof (clock_ms_range nowms). unfold in_u64, u64max in *; cbn; lia.
    + apply incr_id_range; exact U.
  - destruct (fst top <? ms).
    + intros H; inversion H; subst. unfold in_u64, u64max in *; cbn; lia.
    + destruct ((ms =? fst top) && (snd top <? u64max)) eqn:E2; [|discriminate].
      apply andb_true_iff in E2 as [E2 E3]. apply Z.ltb_lt in E3.
      intros H; inversion H; subst. unfold in_u64, u64max in *; cbn; lia.
  - destruct (sid_lt top j); [|discriminate]. intros H; inversion H; subst. exact SO.
Qed.

(* XADD * never fails below the greatest id, even when the clock stands still or runs backwards *)
Lemma new_id_auto_total nowms top :
  in_u64 top -> top <> (u64max, u64max) -> exists i, new_id IdAuto nowms top = Some i.
Proof.
  intros U N. cbn. destruct (fst top <? clock_ms nowms); [eauto|].
  destruct (incr_id top) as [j|] eqn:E; [eauto|]. exfalso. apply N. apply incr_id_none; assumption.
Qed.

(* an explicit id that is not above the top item is refused *)
Lemma new_id_full_refused nowms top i : sid_leP i top -> new_id (IdFull i) nowms top = None.
Proof.
  intros H. cbn. destruct (sid_lt top i) eqn:E; [|reflexivity].
  apply sid_lt_spec in E. exfalso. unfold sid_ltP, sid_leP in *. lia.
Qed.

Lemma last_id_in_u64 x : stream_ok x -> in_u64 (last_id x).
Proof.
  intros [_ F]. rewrite last_id_ids. generalize (ids x) F. clear. intros l F.
  assert (Z0 : in_u64 (0, 0)) by (unfold in_u64, u64max; cbn; lia).
  induction l as [|a r IH]; [exact Z0|].
  inversion F as [|? ? Ha Fr]; subst. destruct r as [|b r']; [exact Ha|].
  change (last (a :: b :: r') (0, 0)) with (last (b :: r') (0, 0)). apply IH. exact Fr.
Qed.

(* ------------------------------------------------------------------ trimming *)
Lemma skipn_skipn_add {A} (n m : nat) (l : list A) : skipn n (skipn m l) = skipn (m + n) l.
Proof.
  revert l. induction m as [|m IH]; intros l; [reflexivity|].
  destruct l as [|a r]; [destruct n; reflexivity|]. cbn. apply IH.
Qed.

(* only a prefix -- the oldest entries -- is ever dropped *)
Lemma trim_suffix o x : exists n, trim o x = skipn n x.
Proof.
  unfold trim, drop_first.
  set (x1 := match x_maxlen o with
             | Some n => if n <? zlength x then skipn (Z.to_nat (cap_evict o (zlength x - n))) x else x
             | None => x end).
  assert (E1 : exists n, x1 = skipn n x).
  { subst x1. destruct (x_maxlen o) as [n|]; [|exists O; reflexivity].
    destruct (n <? zlength x); [eexists; reflexivity|exists O; reflexivity]. }
  destruct E1 as [n1 E1]. destruct (x_minid o) as [th|]; [|exists n1; exact E1].
  rewrite E1. rewrite skipn_skipn_add. eexists; reflexivity.
Qed.

Lemma stream_ok_trim o x : stream_ok x -> stream_ok (trim o x).
Proof. intros OK. destruct (trim_suffix o x) as [n ->]. apply stream_ok_skipn. exact OK. Qed.

Lemma zlength_skipn {A} n (l : list A) :
  0 <= n -> zlength (skipn (Z.to_nat n) l) = Z.max 0 (zlength l - n).
Proof. unfold zlength. intros H. rewrite skipn_length. lia. Qed.

(* MAXLEN n without LIMIT: exactly the newest min(len, n) entries remain *)
Lemma trim_maxlen_exact o x n :
  x_maxlen o = Some n -> x_minid o = None -> x_limit o = None -> 0 <= n ->
  trim o x = skipn (Z.to_nat (zlength x - n)) x /\ zlength (trim o x) = Z.min (zlength x) n.
Proof.
  intros Hm Hi Hl Hn. unfold trim, drop_first, cap_evict. rewrite Hm, Hi, Hl.
  destruct (n <? zlength x) eqn:E.
  - apply Z.ltb_lt in E. split; [reflexivity|]. rewrite zlength_skipn by lia. lia.
  - apply Z.ltb_ge in E. split; [|lia].
    replace (Z.to_nat (zlength x - n)) with O by lia. reflexivity.
Qed.

Lemma count_below_range th x : 0 <= count_below th x <= zlength x.
Proof.
  unfold zlength. induction x as [|e r IH]; cbn [count_below List.length]; [lia|].
  destruct (sid_lt (fst e) th); lia.
Qed.

Lemma filter_all {A} (p : A -> bool) l : Forall (fun a => p a = true) l -> filter p l = l.
Proof. induction 1 as [|a r Ha _ IH]; cbn; [reflexivity|]. rewrite Ha, IH. reflexivity. Qed.
Lemma filter_none {A} (p : A -> bool) l : Forall (fun a => p a = false) l -> filter p l = [].
Proof. induction 1 as [|a r Ha _ IH]; cbn; [reflexivity|]. rewrite Ha, IH. reflexivity. Qed.

(* on an increasing stream, dropping the entries counted by count_below leaves exactly the
   entries whose id is >= the threshold *)
Lemma skipn_count_below th x :
  increasing (ids x) ->
  skipn (Z.to_nat (count_below th x)) x = filter (fun e => sid_le th (fst e)) x.
Proof.
  unfold increasing. induction x as [|e r IH]; intros S; [reflexivity|].
  cbn [ids map] in S. inversion S as [|? ? S' Fe]; subst.
  cbn [count_below filter]. unfold sid_le at 1. destruct (sid_lt (fst e) th) eqn:E; cbn [negb].
  - pose proof (count_below_range th r) as R.
    replace (Z.to_nat (1 + count_below th r)) with (Datatypes.S (Z.to_nat (count_below th r))) by lia.
    cbn [skipn]. apply IH. exact S'.
  - cbn [Z.to_nat skipn]. f_equal. symmetry. apply filter_all.
    apply sid_lt_false in E. unfold ids in Fe. rewrite Forall_map in Fe.
    eapply Forall_impl; [|exact Fe]. cbn. intros a Ha. apply sid_le_spec.
    apply sid_ltP_leP. eapply sid_leP_ltP_trans; eassumption.
Qed.

(* MINID th without LIMIT: exactly the entries with id >= th remain *)
Lemma trim_minid_exact o x th :
  x_maxlen o = None -> x_minid o = Some th -> x_limit o = None -> increasing (ids x) ->
  trim o x = filter (fun e => sid_le th (fst e)) x.
Proof.
  intros Hm Hi Hl S. unfold trim, drop_first, cap_evict. rewrite Hm, Hi, Hl.
  apply skipn_count_below. exact S.
Qed.

Lemma cap_evict_le o n : 0 <= n -> 0 <= cap_evict o n <= n.
Proof.
  intros H. unfold cap_evict. destruct (x_limit o) as [l|]; [|lia].
  destruct ((0 <? l) && (l <? n)) eqn:E; [|lia].
  apply andb_true_iff in E as [E1 E2]. apply Z.ltb_lt in E1. apply Z.ltb_lt in E2. lia.
Qed.
Lemma cap_evict_limit o n l : x_limit o = Some l -> 0 < l -> cap_evict o n <= l.
Proof.
  intros Hl Hp. unfold cap_evict. rewrite Hl.
  destruct ((0 <? l) && (l <? n)) eqn:E; [lia|].
  apply andb_false_iff in E as [E|E]; [apply Z.ltb_ge in E|apply Z.ltb_ge in E]; lia.
Qed.

(* LIMIT l > 0: one command evicts at most l entries (MAXLEN and MINID exclude each other) *)
Lemma trim_limit_bound o x l :
  x_limit o = Some l -> 0 < l -> xadd_conflict o = false ->
  zlength x - zlength (trim o x) <= l.
Proof.
  intros Hl Hp C. unfold xadd_conflict in C. apply orb_false_iff in C as [C _].
  unfold trim, drop_first.
  destruct (x_maxlen o) as [n|] eqn:Hm; destruct (x_minid o) as [th|] eqn:Hi; cbn in C; try discriminate.
  - destruct (n <? zlength x) eqn:E; [|clear E C; lia]. apply Z.ltb_lt in E.
    pose proof (cap_evict_le o (zlength x - n) ltac:(lia)) as R.
    pose proof (cap_evict_limit o (zlength x - n) l Hl Hp) as R2.
    rewrite zlength_skipn by lia. lia.
  - pose proof (count_below_range th x) as R0.
    pose proof (cap_evict_le o (count_below th x) ltac:(lia)) as R.
    pose proof (cap_evict_limit o (count_below th x) l Hl Hp) as R2.
    rewrite zlength_skipn by lia. lia.
  - lia.
Qed.

(* ------------------------------------------------------------------ the option loop *)
(* what an accepted option block looks like: some option words, then the id, then the fields *)
Lemma xadd_parse_inv n : forall args o o' spec fields,
  (List.length args <= n)%nat -> xadd_parse args o = XOk o' spec fields ->
  exists pre idt, args = pre ++ idt :: fields /\ parse_add_id idt = Some spec.
Proof.
  induction n as [|n IH]; intros args o o' spec fields L H.
  - destruct args; [discriminate|cbn in L; lia].
  - destruct args as [|a rest]; [discriminate|]. cbn [List.length] in L.
    assert (Step : forall (l : list bytes) ox (pre0 : list bytes),
               (List.length l <= n)%nat -> a :: rest = pre0 ++ l ->
               xadd_parse l ox = XOk o' spec fields ->
               exists pre idt, a :: rest = pre ++ idt :: fields /\ parse_add_id idt = Some spec).
    { intros l ox pre0 Ll El Hl. destruct (IH l ox o' spec fields Ll Hl) as (pre & idt & E & P).
      exists (pre0 ++ pre), idt. split; [|exact P]. rewrite El, E, app_assoc. reflexivity. }
    cbn [xadd_parse] in H.
    destruct (is (lower a) (B "nomkstream")).
    { eapply (Step rest _ [a]); [lia|reflexivity|exact H]. }
    destruct (is (lower a) (B "maxlen")).
    { destruct rest as [|t r1]; [discriminate|]. cbn [List.length] in L.
      destruct (is_mod t).
      - destruct r1 as [|v r2]; [discriminate|]. cbn [List.length] in L.
        destruct (atoi64 v) as [z|]; [|discriminate]. destruct (z <? 0); [discriminate|].
        eapply (Step r2 _ [a; t; v]); [lia|reflexivity|exact H].
      - destruct (atoi64 t) as [z|]; [|discriminate]. destruct (z <? 0); [discriminate|].
        eapply (Step r1 _ [a; t]); [lia|reflexivity|exact H]. }
    destruct (is (lower a) (B "minid")).
    { destruct rest as [|t r1]; [discriminate|]. cbn [List.length] in L.
      destruct (is_mod t).
      - destruct r1 as [|v r2]; [discriminate|]. cbn [List.length] in L.
        destruct (parse_id v 0) as [th|]; [|discriminate].
        eapply (Step r2 _ [a; t; v]); [lia|reflexivity|exact H].
      - destruct (parse_id t 0) as [th|]; [|discriminate].
        eapply (Step r1 _ [a; t]); [lia|reflexivity|exact H]. }
    destruct (is (lower a) (B "limit")).
    { destruct rest as [|v r1]; [discriminate|]. cbn [List.length] in L.
      destruct (atoi64 v) as [z|]; [|discriminate]. destruct (z <? 0); [discriminate|].
      eapply (Step r1 _ [a; v]); [lia|reflexivity|exact H]. }
    destruct (parse_add_id a) as [sp|] eqn:P; [|discriminate].
    inversion H; subst. exists [], a. split; [reflexivity|exact P].
Qed.

Lemma xadd_parse_spec_ok args o o' spec fields :
  xadd_parse args o = XOk o' spec fields -> spec_ok spec.
Proof.
  intros H. destruct (xadd_parse_inv (List.length args) args o o' spec fields (le_n _) H) as (pre & idt & _ & P).
  eapply parse_add_id_ok; exact P.
Qed.

(* ------------------------------------------------------------------ XADD, one step *)
Lemma get_stream_found d k x : get_stream d k = SFound x <-> db_get d k = Some (VStream x).
Proof.
  unfold get_stream. destruct (db_get d k) as [[]|]; split; intros H; inversion H; reflexivity.
Qed.
Lemma get_stream_missing d k : get_stream d k = SMissing <-> db_get d k = None.
Proof.
  unfold get_stream. destruct (db_get d k) as [[]|]; split; intros H; inversion H; reflexivity.
Qed.

(* the stream the command works on: the stored one, or the empty one for a missing key *)
Definition stream_at (d : db) (k : bytes) (x : list sentry) : Prop :=
  db_get d k = Some (VStream x) \/ (db_get d k = None /\ x = []).

(* Every outcome of XADD is one of two: nothing changed and the reply is an error or nil; or an
   id above the top item was chosen, replied, and (id, fields) appended, then trimmed. *)
Lemma exec_xadd_inv d nowms args r d' :
  exec_xadd d nowms args = (r, d') ->
  (d' = d /\ (r = err_other \/ r = err_wrongtype \/ r = RNil)) \/
  (exists c k rest o spec fields x id,
      args = c :: k :: rest /\ xadd_parse rest xopts0 = XOk o spec fields /\
      xadd_conflict o = false /\ fields_ok fields = true /\
      stream_at d k x /\ new_id spec nowms (last_id x) = Some id /\
      r = RBulk (fmt_id id) /\ d' = db_set d k (VStream (trim o (x ++ [(id, fields)])))).
Proof.
  unfold exec_xadd. intros H.
  destruct args as [|c [|k rest]]; try (inversion H; subst; left; split; [reflexivity|left; reflexivity]).
  destruct (zlength (c :: k :: rest) <? 5); [inversion H; subst; left; split; [reflexivity|left; reflexivity]|].
  destruct (xadd_parse rest xopts0) as [|o spec fields] eqn:P;
    [inversion H; subst; left; split; [reflexivity|left; reflexivity]|].
  destruct (xadd_conflict o || negb (fields_ok fields) || is_zero_id spec) eqn:C;
    [inversion H; subst; left; split; [reflexivity|left; reflexivity]|].
  apply orb_false_iff in C as [C C3]. apply orb_false_iff in C as [C1 C2].
  apply negb_false_iff in C2.
  assert (App : forall x, stream_at d k x -> xadd_apply d nowms k o spec fields x = (r, d') ->
    (d' = d /\ (r = err_other \/ r = err_wrongtype \/ r = RNil)) \/
    (exists id, new_id spec nowms (last_id x) = Some id /\ r = RBulk (fmt_id id) /\
                d' = db_set d k (VStream (trim o (x ++ [(id, fields)]))))).
  { intros x _ Hx. unfold xadd_apply in Hx. destruct (new_id spec nowms (last_id x)) as [id|].
    - inversion Hx; subst. right. exists id. repeat split.
    - inversion Hx; subst. left. split; [reflexivity|left; reflexivity]. }
  destruct (get_stream d k) as [| |x] eqn:G.
  - destruct (x_nomk o).
    + inversion H; subst. left. split; [reflexivity|right; right; reflexivity].
    + assert (SA : stream_at d k []) by (right; split; [apply get_stream_missing; exact G|reflexivity]).
      destruct (App [] SA H) as [L|(id & N & R & D)]; [left; exact L|].
      right. exists c, k, rest, o, spec, fields, [], id. repeat split; assumption.
  - inversion H; subst. left. split; [reflexivity|right; left; reflexivity].
  - assert (SA : stream_at d k x) by (left; apply get_stream_found; exact G).
    destruct (App x SA H) as [L|(id & N & R & D)]; [left; exact L|].
    right. exists c, k, rest, o, spec, fields, x, id. repeat split; assumption.
Qed.

(* ------------------------------------------------------------------ XRANGE *)
Definition in_range (lo hi : sid) (e : sentry) : bool := sid_le lo (fst e) && sid_le (fst e) hi.

(* the one-pass scan of Stream.Range is the inclusive filter, on an increasing stream *)
Lemma range_scan_filter lo hi x :
  increasing (ids x) -> range_scan lo hi x = filter (in_range lo hi) x.
Proof.
  unfold increasing. induction x as [|e r IH]; intros S; [reflexivity|].
  cbn [ids map] in S. inversion S as [|? ? S' Fe]; subst.
  cbn [range_scan filter]. unfold in_range at 1, sid_le.
  destruct (sid_lt hi (fst e)) eqn:E1; cbn [negb andb].
  - rewrite andb_false_r. symmetry. apply filter_none.
    apply sid_lt_spec in E1. unfold ids in Fe. rewrite Forall_map in Fe.
    eapply Forall_impl; [|exact Fe]. cbn. intros a Ha. unfold in_range.
    apply andb_false_iff. right. unfold sid_le. apply negb_false_iff. apply sid_lt_spec.
    eapply sid_ltP_trans; eassumption.
  - rewrite andb_true_r. destruct (sid_lt (fst e) lo); cbn [negb]; [apply IH; exact S'|].
    f_equal. apply IH. exact S'.
Qed.

Lemma exec_xrange_db d args : snd (exec_xrange d args) = d.
Proof.
  unfold exec_xrange.
  repeat match goal with
         | |- context [match ?t with _ => _ end] => destruct t; try reflexivity
         end.
Qed.

(* ------------------------------------------------------------------ replies are well framed *)
Lemma reply_wf_entries l : forallb reply_wf (map entry_reply l) = true.
Proof.
  induction l as [|e r IH]; [reflexivity|]. cbn [map forallb]. rewrite IH, andb_true_r.
  cbn. rewrite andb_true_r. induction (snd e) as [|f fs IHf]; [reflexivity|exact IHf].
Qed.

Lemma exec_xrange_reply_wf d args : reply_wf (fst (exec_xrange d args)) = true.
Proof.
  unfold exec_xrange.
  repeat match goal with
         | |- context [match ?t with _ => _ end] => destruct t; try reflexivity
         end; cbn [fst reply_wf]; apply reply_wf_entries.
Qed.

Lemma exec_xadd_reply_wf d nowms args : reply_wf (fst (exec_xadd d nowms args)) = true.
Proof.
  destruct (exec_xadd d nowms args) as [r d'] eqn:E. cbn [fst].
  destruct (exec_xadd_inv _ _ _ _ _ E) as [[_ [ -> | [ -> | -> ] ] ] | (c & k & rest & o & spec & fields & x & id & _ & _ & _ & _ & _ & _ & -> & _)];
    reflexivity.
Qed.

(* ------------------------------------------------------------------ the family: db_wf, reply_wf, value invariant *)
Lemma streams_dispatch_inv d now nowms n args hint r d' :
  streams_dispatch d now nowms n args hint = Some (r, d') ->
  exec_xadd d nowms args = (r, d') \/ exec_xrange d args = (r, d').
Proof.
  unfold streams_dispatch. destruct (is n (B "xadd")); [intros H; inversion H; left; reflexivity|].
  destruct (is n (B "xrange")); [intros H; inversion H; right; reflexivity|discriminate].
Qed.

Lemma streams_dispatch_wf_pres d now nowms n args hint r d' :
  db_wf d -> streams_dispatch d now nowms n args hint = Some (r, d') -> db_wf d'.
Proof.
  intros W H. apply streams_dispatch_inv in H as [H|H].
  - destruct (exec_xadd_inv _ _ _ _ _ H) as [[-> _]|(c & k & rest & o & spec & fields & x & id & _ & _ & _ & _ & _ & _ & _ & ->)];
      [exact W|apply db_wf_set; exact W].
  - pose proof (exec_xrange_db d args) as E. rewrite H in E. cbn in E. subst. exact W.
Qed.

Lemma streams_dispatch_reply_wf d now nowms n args hint r d' :
  streams_dispatch d now nowms n args hint = Some (r, d') -> reply_wf r = true.
Proof.
  intros H. apply streams_dispatch_inv in H as [H|H].
  - pose proof (exec_xadd_reply_wf d nowms args) as E. rewrite H in E. exact E.
  - pose proof (exec_xrange_reply_wf d args) as E. rewrite H in E. exact E.
Qed.

Lemma db_get_set_same d k v : db_get (db_set d k v) k = Some v.
Proof. unfold db_get, db_set. cbn. apply alookup_aset_same. Qed.
Lemma db_get_set_other d k k0 v : k0 <> k -> db_get (db_set d k v) k0 = db_get d k0.
Proof. intros N. unfold db_get, db_set. cbn. apply alookup_aset_other. exact N. Qed.

Lemma stream_at_ok d k x : streams_ok d -> stream_at d k x -> stream_ok x.
Proof.
  intros OK [H|[_ ->]]; [exact (OK k _ H)|exact stream_ok_nil].
Qed.

Lemma exec_xadd_streams_ok d nowms args r d' :
  streams_ok d -> exec_xadd d nowms args = (r, d') -> streams_ok d'.
Proof.
  intros OK H.
  destruct (exec_xadd_inv _ _ _ _ _ H) as [[-> _]|(c & k & rest & o & spec & fields & x & id & _ & P & _ & _ & SA & N & _ & ->)];
    [exact OK|].
  intros k0 v G. destruct (bytes_eq_dec k0 k) as [->|Nk].
  - rewrite db_get_set_same in G. inversion G; subst. cbn.
    pose proof (stream_at_ok d k x OK SA) as OKx.
    apply stream_ok_trim. apply stream_ok_append; [exact OKx| |eapply new_id_gt; exact N].
    eapply new_id_range; [eapply xadd_parse_spec_ok; exact P|apply last_id_in_u64; exact OKx|exact N].
  - rewrite db_get_set_other in G by exact Nk. exact (OK k0 v G).
Qed.

Lemma streams_dispatch_streams_ok d now nowms n args hint r d' :
  streams_ok d -> streams_dispatch d now nowms n args hint = Some (r, d') -> streams_ok d'.
Proof.
  intros OK H. apply streams_dispatch_inv in H as [H|H].
  - eapply exec_xadd_streams_ok; eassumption.
  - pose proof (exec_xrange_db d args) as E. rewrite H in E. cbn in E. subst. exact OK.
Qed.

(* any command that only keeps, moves or deletes stored values (DEL, RENAME, EXPIRE, expiry
   itself ...) preserves the invariant *)
Lemma streams_ok_no_new_values d d' :
  streams_ok d -> (forall k v, db_get d' k = Some v -> exists k0, db_get d k0 = Some v) -> streams_ok d'.
Proof. intros OK H k v G. destruct (H k v G) as [k0 G0]. exact (OK k0 v G0). Qed.

Lemma streams_ok_purge d now : streams_ok d -> streams_ok (purge d now).
Proof.
  intros OK. apply (streams_ok_no_new_values d); [exact OK|].
  intros k v G. rewrite db_get_purge in G. destruct (expired d now k); [discriminate|]. eauto.
Qed.

(* ---- all programs of stream commands, started from the empty database ---- *)
Definition stream_step (d : db) (st : Z * Z * list bytes) : db :=
  let '(now, nowms, args) := st in
  let p := purge d now in
  match args with
  | [] => p
  | name :: _ =>
    match streams_dispatch p now nowms (lower name) args RNil with
    | Some (_, d') => d'
    | None => p
    end
  end.
Definition run_streams (prog : list (Z * Z * list bytes)) (d : db) : db := fold_left stream_step prog d.

Lemma stream_step_inv d st : db_wf d /\ streams_ok d -> db_wf (stream_step d st) /\ streams_ok (stream_step d st).
Proof.
  intros [W OK]. destruct st as [[now nowms] args]. cbn [stream_step].
  pose proof (db_wf_purge d now W) as Wp. pose proof (streams_ok_purge d now OK) as OKp.
  destruct args as [|name rest]; [split; assumption|].
  destruct (streams_dispatch (purge d now) now nowms (lower name) (name :: rest) RNil) as [[r d']|] eqn:E;
    [|split; assumption].
  split; [eapply streams_dispatch_wf_pres; eassumption|eapply streams_dispatch_streams_ok; eassumption].
Qed.

Lemma run_streams_inv prog : forall d,
  db_wf d /\ streams_ok d -> db_wf (run_streams prog d) /\ streams_ok (run_streams prog d).
Proof.
  unfold run_streams. induction prog as [|st prog IH]; intros d H; [exact H|].
  cbn [fold_left]. apply IH. apply stream_step_inv. exact H.
Qed.

(* ------------------------------------------------------------------ XRANGE, exactly *)
Lemma firstn_min {A} c (l : list A) :
  0 < c -> firstn (Z.to_nat (Z.min c (zlength l))) l = firstn (Z.to_nat c) l.
Proof.
  intros Hc. unfold zlength. destruct (Z.le_gt_cases c (Z.of_nat (List.length l))) as [L|G].
  - rewrite Z.min_l by exact L. reflexivity.
  - rewrite Z.min_r by lia. rewrite Nat2Z.id. rewrite firstn_all. symmetry. apply firstn_all2. lia.
Qed.

Lemma exec_xrange_exact d c k s e opts x lo hi cnt :
  db_get d k = Some (VStream x) -> increasing (ids x) ->
  parse_bound s 0 = Some lo -> parse_bound e u64max = Some hi -> parse_count opts None = Some cnt ->
  exec_xrange d (c :: k :: s :: e :: opts) =
  (match cnt with
   | None => RArr (map entry_reply (filter (in_range lo hi) x))
   | Some n => if n =? 0 then RNilArr
               else RArr (map entry_reply (firstn (Z.to_nat n) (filter (in_range lo hi) x)))
   end, d).
Proof.
  intros G S Ps Pe Pc. unfold exec_xrange. rewrite Ps, Pe, Pc.
  apply get_stream_found in G. rewrite G. rewrite range_scan_filter by exact S.
  destruct cnt as [n|]; [|reflexivity].
  destruct (n =? 0) eqn:E; [reflexivity|].
  assert (Hn : 0 < n).
  { apply Z.eqb_neq in E.
    (* a parsed COUNT is never negative *)
    assert (Nonneg : forall opts acc r, (match acc with Some a => 0 <= a | None => True end) ->
                                        parse_count opts acc = Some (Some r) -> 0 <= r).
    { clear. fix IH 1. intros opts acc r Ha H. destruct opts as [|cw [|v rest]]; cbn in H.
      - inversion H; subst. exact Ha.
      - discriminate.
      - destruct (is (lower cw) (B "count")); [|discriminate].
        destruct (atoi64 v) as [z|]; [|discriminate].
        apply (IH rest _ r) in H; [exact H|]. destruct (z <? 0) eqn:Z; [lia|apply Z.ltb_ge in Z; exact Z]. }
    pose proof (Nonneg opts None n I Pc). lia. }
  rewrite firstn_min by exact Hn. reflexivity.
Qed.

(* - and + are the least and the greatest id: every stored entry lies between them *)
Lemma in_range_all x : Forall in_u64 (ids x) -> filter (in_range (0, 0) (u64max, u64max)) x = x.
Proof.
  intros F. apply filter_all. unfold ids in F. rewrite Forall_map in F.
  eapply Forall_impl; [|exact F]. cbn. intros e [[H1 H2] [H3 H4]]. unfold in_range.
  apply andb_true_iff. split; apply sid_le_spec; unfold sid_leP; cbn; lia.
Qed.

(* ------------------------------------------------------------------ the plain form  XADD key <id> field value ... *)
Definition isdigit (c : byte) : bool :=
  match digit_of_byte c with Some _ => true | None => false end.
Definition idchar (c : byte) : bool := isdigit c || beqb c "-"%byte || beqb c "*"%byte.

Lemma bytes_to_uint_digits s u : bytes_to_uint s = Some u -> forallb isdigit s = true.
Proof.
  revert u. induction s as [|c r IH]; intros u H; [reflexivity|].
  cbn in H. cbn [forallb]. unfold isdigit at 1.
  destruct (digit_of_byte c) as [dg|]; [|discriminate].
  destruct (bytes_to_uint r) as [u'|]; [|discriminate]. rewrite (IH u' eq_refl). reflexivity.
Qed.

Lemma parse_u64_digits s z : parse_u64 s = Some z -> forallb isdigit s = true.
Proof.
  unfold parse_u64, parse_udec. destruct s as [|c r]; [discriminate|].
  destruct (bytes_to_uint (c :: r)) as [u|] eqn:E; [|discriminate]. intros _.
  eapply bytes_to_uint_digits; exact E.
Qed.

Lemma split_dash_app s : s = fst (split_dash s) ++ match snd (split_dash s) with Some b => "-"%byte :: b | None => [] end.
Proof.
  induction s as [|c r IH]; [reflexivity|]. cbn [split_dash].
  destruct (beqb_spec c "-"%byte) as [->|N]; [reflexivity|].
  destruct (split_dash r) as [a b]. cbn [fst snd] in *. rewrite IH at 1. reflexivity.
Qed.

Lemma forallb_digit_idchar s : forallb isdigit s = true -> forallb idchar s = true.
Proof.
  induction s as [|c r IH]; [reflexivity|]. cbn [forallb]. intros H.
  apply andb_true_iff in H as [H1 H2]. rewrite (IH H2). unfold idchar. rewrite H1. reflexivity.
Qed.

Lemma parse_id_idchars s m i : parse_id s m = Some i -> forallb idchar s = true.
Proof.
  unfold parse_id. intros H. rewrite (split_dash_app s).
  destruct (split_dash s) as [a [b|]]; cbn [fst snd].
  - destruct (parse_u64 a) as [ms|] eqn:Ea; [|discriminate].
    destruct (parse_u64 b) as [sq|] eqn:Eb; [|discriminate].
    rewrite forallb_app. cbn [forallb].
    rewrite (forallb_digit_idchar a (parse_u64_digits a ms Ea)),
            (forallb_digit_idchar b (parse_u64_digits b sq Eb)). reflexivity.
  - destruct (parse_u64 a) as [ms|] eqn:Ea; [|discriminate].
    rewrite app_nil_r. exact (forallb_digit_idchar a (parse_u64_digits a ms Ea)).
Qed.

Lemma parse_add_id_idchars s spec : parse_add_id s = Some spec -> forallb idchar s = true.
Proof.
  unfold parse_add_id. destruct (bytes_eqb_spec s (B "*")) as [->|N].
  { unfold is. rewrite bytes_eqb_refl. reflexivity. }
  unfold is at 1. replace (bytes_eqb s (B "*")) with false by (symmetry; apply bytes_eqb_neq; exact N).
  assert (G : match parse_id s 0 with Some i => Some (IdFull i) | None => None end = Some spec ->
              forallb idchar s = true).
  { destruct (parse_id s 0) as [i|] eqn:E; [|discriminate]. intros _. eapply parse_id_idchars; exact E. }
  pose proof (split_dash_app s) as Es.
  destruct (split_dash s) as [a [b|]]; cbn [fst snd] in Es; [|exact G].
  destruct (bytes_eqb_spec b (B "*")) as [->|Nb]; unfold is.
  - rewrite bytes_eqb_refl. destruct (parse_u64 a) as [ms|] eqn:Ea; [|discriminate]. intros _.
    rewrite Es, forallb_app, (forallb_digit_idchar a (parse_u64_digits a ms Ea)). reflexivity.
  - replace (bytes_eqb b (B "*")) with false by (symmetry; apply bytes_eqb_neq; exact Nb). exact G.
Qed.

Lemma lower_idchars s : forallb idchar s = true -> lower s = s.
Proof.
  induction s as [|c r IH]; [reflexivity|]. cbn [forallb lower map]. intros H.
  apply andb_true_iff in H as [H1 H2]. fold (lower r). rewrite (IH H2). f_equal.
  destruct c; try discriminate H1; reflexivity.
Qed.

(* a text that parses as an id is none of the option words *)
Lemma id_not_keyword s spec kw :
  parse_add_id s = Some spec -> forallb idchar kw = false -> is (lower s) kw = false.
Proof.
  intros P K. pose proof (parse_add_id_idchars s spec P) as C. rewrite (lower_idchars s C).
  unfold is. apply bytes_eqb_neq. intros ->. congruence.
Qed.

Lemma xadd_parse_plain idt fields spec o :
  parse_add_id idt = Some spec -> xadd_parse (idt :: fields) o = XOk o spec fields.
Proof.
  intros P. cbn [xadd_parse].
  rewrite (id_not_keyword idt spec (B "nomkstream") P eq_refl).
  rewrite (id_not_keyword idt spec (B "maxlen") P eq_refl).
  rewrite (id_not_keyword idt spec (B "minid") P eq_refl).
  rewrite (id_not_keyword idt spec (B "limit") P eq_refl).
  rewrite P. reflexivity.
Qed.

Lemma trim_none x : trim xopts0 x = x.
Proof. reflexivity. Qed.

Lemma zlength_cons {A} (a : A) l : zlength (a :: l) = 1 + zlength l.
Proof. unfold zlength. cbn [List.length]. lia. Qed.
Lemma zlength_nonneg {A} (l : list A) : 0 <= zlength l.
Proof. unfold zlength. lia. Qed.

(* the plain form, completely: XADD key id f v ... on a stream or a missing key *)
Lemma exec_xadd_plain d nowms c k idt fields spec x :
  parse_add_id idt = Some spec -> fields_ok fields = true -> is_zero_id spec = false ->
  stream_at d k x ->
  exec_xadd d nowms (c :: k :: idt :: fields) =
  match new_id spec nowms (last_id x) with
  | Some id => (RBulk (fmt_id id), db_set d k (VStream (x ++ [(id, fields)])))
  | None => (err_other, d)
  end.
Proof.
  intros P F Z SA. unfold exec_xadd.
  assert (L : (zlength (c :: k :: idt :: fields) <? 5) = false).
  { apply Z.ltb_ge. unfold fields_ok in F. apply andb_true_iff in F as [F _]. apply Z.leb_le in F.
    rewrite !zlength_cons. lia. }
  rewrite L, (xadd_parse_plain idt fields spec xopts0 P), F, Z. cbn [xadd_conflict xopts0 x_maxlen x_minid x_limit x_approx isSomeX andb orb negb x_nomk].
  unfold xadd_apply. destruct SA as [G|[G ->]].
  - apply get_stream_found in G. rewrite G. reflexivity.
  - apply get_stream_missing in G. rewrite G. reflexivity.
Qed.

(* ------------------------------------------------------------------ bounds *)
Lemma parse_bound_minus m : parse_bound (B "-") m = Some (0, 0).
Proof. reflexivity. Qed.
Lemma parse_bound_plus m : parse_bound (B "+") m = Some (u64max, u64max).
Proof. reflexivity. Qed.

(* a bound without sequence number: ms-0 as start, ms-max as end (the caller's [missing]) *)
Lemma parse_bound_ms_only s ms m : parse_u64 s = Some ms -> parse_bound s m = Some (ms, m).
Proof.
  intros P. pose proof (parse_u64_digits s ms P) as D. unfold parse_bound.
  destruct (bytes_eqb_spec s (B "-")) as [->|N1]; [discriminate D|].
  destruct (bytes_eqb_spec s (B "+")) as [->|N2]; [discriminate D|].
  unfold is. replace (bytes_eqb s (B "-")) with false by (symmetry; apply bytes_eqb_neq; exact N1).
  replace (bytes_eqb s (B "+")) with false by (symmetry; apply bytes_eqb_neq; exact N2).
  unfold parse_id.
  assert (E : split_dash s = (s, None)).
  { clear -D. induction s as [|c r IH]; [reflexivity|]. cbn [forallb] in D.
    apply andb_true_iff in D as [D1 D2]. cbn [split_dash].
    destruct (beqb_spec c "-"%byte) as [->|_]; [discriminate D1|]. rewrite (IH D2). reflexivity. }
  rewrite E, P. reflexivity.
Qed.

(* ------------------------------------------------------------------ XRANGE on other keys *)
Lemma exec_xrange_missing d c k s e opts lo hi cnt :
  db_get d k = None ->
  parse_bound s 0 = Some lo -> parse_bound e u64max = Some hi -> parse_count opts None = Some cnt ->
  exec_xrange d (c :: k :: s :: e :: opts) = (RArr [], d).
Proof.
  intros G Ps Pe Pc. unfold exec_xrange. rewrite Ps, Pe, Pc.
  apply get_stream_missing in G. rewrite G. reflexivity.
Qed.

Lemma get_stream_wrong d k v :
  db_get d k = Some v -> (forall x, v <> VStream x) -> get_stream d k = SWrong.
Proof.
  unfold get_stream. intros -> N. destruct v; try reflexivity. exfalso. eapply N. reflexivity.
Qed.

Lemma exec_xrange_wrongtype d c k s e opts lo hi cnt v :
  db_get d k = Some v -> (forall x, v <> VStream x) ->
  parse_bound s 0 = Some lo -> parse_bound e u64max = Some hi -> parse_count opts None = Some cnt ->
  exec_xrange d (c :: k :: s :: e :: opts) = (err_wrongtype, d).
Proof.
  intros G N Ps Pe Pc. unfold exec_xrange. rewrite Ps, Pe, Pc, (get_stream_wrong d k v G N). reflexivity.
Qed.

Lemma exec_xadd_wrongtype d nowms c k rest v r d' :
  db_get d k = Some v -> (forall x, v <> VStream x) ->
  exec_xadd d nowms (c :: k :: rest) = (r, d') ->
  d' = d /\ (r = err_other \/ r = err_wrongtype).
Proof.
  intros G N H. unfold exec_xadd in H.
  destruct (zlength (c :: k :: rest) <? 5); [inversion H; auto|].
  destruct (xadd_parse rest xopts0) as [|o spec fields]; [inversion H; auto|].
  destruct (xadd_conflict o || negb (fields_ok fields) || is_zero_id spec); [inversion H; auto|].
  rewrite (get_stream_wrong d k v G N) in H. inversion H; auto.
Qed.

(* ================================================================== property-level statements (C18) *)

Lemma increasing_NoDup l : increasing l -> NoDup l.
Proof.
  unfold increasing. induction 1 as [|a r _ IH Fa]; constructor; [|exact IH].
  intros Hin. rewrite Forall_forall in Fa. apply (sid_ltP_irrefl a). apply Fa. exact Hin.
Qed.

Lemma stream_at_fun d k x y : stream_at d k x -> stream_at d k y -> x = y.
Proof. intros [A|[A ->]] [C|[C ->]]; congruence. Qed.

Lemma ttl_db_set d k v : ttl (db_set d k v) = ttl d.
Proof. reflexivity. Qed.

(* an accepted XADD: the replied id is above every stored id, (id, fields) is appended at the end
   (then the requested trimming is applied), nothing else moves *)
Lemma p_xadd_id_greater d nowms args idb d' :
  streams_ok d -> exec_xadd d nowms args = (RBulk idb, d') ->
  exists c k pre idt fields o spec x id,
    args = c :: k :: pre ++ idt :: fields /\ parse_add_id idt = Some spec /\
    xadd_parse (pre ++ idt :: fields) xopts0 = XOk o spec fields /\
    stream_at d k x /\ idb = fmt_id id /\ in_u64 id /\
    sid_ltP (last_id x) id /\ Forall (fun e => sid_ltP (fst e) id) x /\
    db_get d' k = Some (VStream (trim o (x ++ [(id, fields)]))) /\
    (forall k0, k0 <> k -> db_get d' k0 = db_get d k0) /\ ttl d' = ttl d.
Proof.
  intros OK H.
  destruct (exec_xadd_inv _ _ _ _ _ H) as [[_ [E|[E|E]]]|(c & k & rest & o & spec & fields & x & id & -> & P & _ & _ & SA & N & R & ->)];
    try discriminate E.
  destruct (xadd_parse_inv (List.length rest) rest xopts0 o spec fields (le_n _) P) as (pre & idt & -> & Pi).
  pose proof (stream_at_ok d k x OK SA) as OKx. pose proof (new_id_gt _ _ _ _ N) as G.
  exists c, k, pre, idt, fields, o, spec, x, id. inversion R; subst.
  split; [reflexivity|]. split; [exact Pi|]. split; [exact P|]. split; [exact SA|]. split; [reflexivity|].
  split; [eapply new_id_range; [eapply parse_add_id_ok; exact Pi|apply last_id_in_u64; exact OKx|exact N]|].
  split; [exact G|]. split; [apply above_top_above_all; assumption|].
  split; [apply db_get_set_same|]. split; [|reflexivity].
  intros k0 Nk. apply db_get_set_other. exact Nk.
Qed.

(* the plain form, accepted: exactly x ++ [(id, fields)] is stored *)
Lemma p_xadd_plain_appends d nowms c k idt fields spec x id :
  streams_ok d -> parse_add_id idt = Some spec -> fields_ok fields = true -> is_zero_id spec = false ->
  stream_at d k x -> new_id spec nowms (last_id x) = Some id ->
  exec_xadd d nowms (c :: k :: idt :: fields) =
    (RBulk (fmt_id id), db_set d k (VStream (x ++ [(id, fields)]))) /\
  Forall (fun e => sid_ltP (fst e) id) x.
Proof.
  intros OK P F Z SA N. rewrite (exec_xadd_plain d nowms c k idt fields spec x P F Z SA), N.
  split; [reflexivity|]. apply above_top_above_all; [eapply stream_at_ok; eassumption|eapply new_id_gt; exact N].
Qed.

(* a reply that is not an id means nothing changed -- not even a key was created *)
Lemma p_rejected_changes_nothing d nowms args r d' :
  exec_xadd d nowms args = (r, d') -> (forall b, r <> RBulk b) -> d' = d.
Proof.
  intros H N.
  destruct (exec_xadd_inv _ _ _ _ _ H) as [[-> _]|(c & k & rest & o & spec & fields & x & id & _ & _ & _ & _ & _ & _ & R & _)];
    [reflexivity|]. exfalso. eapply N. exact R.
Qed.

(* an explicit id that is not greater than the top item is refused *)
Lemma p_explicit_not_greater_rejected d nowms c k idt fields i x :
  parse_add_id idt = Some (IdFull i) -> stream_at d k x -> sid_leP i (last_id x) ->
  exec_xadd d nowms (c :: k :: idt :: fields) = (err_other, d).
Proof.
  intros P SA L. unfold exec_xadd.
  destruct (zlength (c :: k :: idt :: fields) <? 5); [reflexivity|].
  rewrite (xadd_parse_plain idt fields _ xopts0 P).
  destruct (xadd_conflict xopts0 || negb (fields_ok fields) || is_zero_id (IdFull i)); [reflexivity|].
  unfold xadd_apply. destruct SA as [G|[G ->]].
  - apply get_stream_found in G. rewrite G. rewrite (new_id_full_refused nowms (last_id x) i L). reflexivity.
  - apply get_stream_missing in G. rewrite G. cbn [x_nomk xopts0].
    rewrite (new_id_full_refused nowms (last_id []) i L). reflexivity.
Qed.

(* XADD key * ...: whatever the clock says -- standing still, behind the top item -- the id is
   above every stored id; it can only fail on a stream whose top item is the greatest id *)
Lemma p_auto_id_exceeds_last d nowms c k fields x :
  streams_ok d -> stream_at d k x -> fields_ok fields = true -> last_id x <> (u64max, u64max) ->
  exists id, sid_ltP (last_id x) id /\ Forall (fun e => sid_ltP (fst e) id) x /\
    exec_xadd d nowms (c :: k :: B "*" :: fields) =
      (RBulk (fmt_id id), db_set d k (VStream (x ++ [(id, fields)]))).
Proof.
  intros OK SA F N. pose proof (stream_at_ok d k x OK SA) as OKx.
  destruct (new_id_auto_total nowms (last_id x) (last_id_in_u64 x OKx) N) as [id Hid].
  exists id. pose proof (new_id_gt _ _ _ _ Hid) as G.
  split; [exact G|]. split; [apply above_top_above_all; assumption|].
  pose proof (exec_xadd_plain d nowms c k (B "*") fields IdAuto x eq_refl F eq_refl SA) as Q.
  rewrite Hid in Q. exact Q.
Qed.

(* XRANGE: exactly the stored entries with lo <= id <= hi, in stream order, each under its id with
   its fields, cut to the first COUNT *)
Lemma p_xrange_exact d c k s e opts x lo hi cnt :
  streams_ok d -> db_get d k = Some (VStream x) ->
  parse_bound s 0 = Some lo -> parse_bound e u64max = Some hi -> parse_count opts None = Some cnt ->
  exec_xrange d (c :: k :: s :: e :: opts) =
  (match cnt with
   | None => RArr (map entry_reply (filter (in_range lo hi) x))
   | Some n => if n =? 0 then RNilArr
               else RArr (map entry_reply (firstn (Z.to_nat n) (filter (in_range lo hi) x)))
   end, d).
Proof.
  intros OK G. apply exec_xrange_exact; [exact G|]. exact (proj1 (OK k _ G)).
Qed.

Lemma p_xrange_all d c k x :
  streams_ok d -> db_get d k = Some (VStream x) ->
  exec_xrange d [c; k; B "-"; B "+"] = (RArr (map entry_reply x), d).
Proof.
  intros OK G.
  pose proof (p_xrange_exact d c k (B "-") (B "+") [] x (0, 0) (u64max, u64max) None OK G eq_refl eq_refl eq_refl) as Q.
  rewrite in_range_all in Q; [exact Q|]. exact (proj2 (OK k _ G)).
Qed.

Lemma parse_count_one cw nb v :
  is (lower cw) (B "count") = true -> atoi64 nb = Some v ->
  parse_count [cw; nb] None = Some (Some (if v <? 0 then 0 else v)).
Proof. intros C A. cbn. rewrite C, A. reflexivity. Qed.

(* what was added is what is read back, under the id that XADD reported *)
Lemma p_xadd_then_xrange d nowms c k idt fields spec x idb d' c2 :
  streams_ok d -> parse_add_id idt = Some spec -> stream_at d k x ->
  exec_xadd d nowms (c :: k :: idt :: fields) = (RBulk idb, d') ->
  exec_xrange d' [c2; k; B "-"; B "+"] =
    (RArr (map entry_reply x ++ [RArr [RBulk idb; RArr (map RBulk fields)]]), d').
Proof.
  intros OK P SA H.
  pose proof (exec_xadd_streams_ok _ _ _ _ _ OK H) as OK'.
  destruct (exec_xadd_inv _ _ _ _ _ H) as [[_ [E|[E|E]]]|(c' & k' & rest & o & spec' & fields' & x' & id & Ea & Pp & _ & _ & SA' & N & R & D)];
    try discriminate E.
  inversion Ea; subst c' k' rest. rewrite (xadd_parse_plain idt fields spec xopts0 P) in Pp.
  inversion Pp; subst o spec' fields'. rewrite (stream_at_fun d k x' x SA' SA) in *.
  inversion R; subst idb. cbn in D.
  assert (G : db_get d' k = Some (VStream (x ++ [(id, fields)]))) by (rewrite D; apply db_get_set_same).
  pose proof (p_xrange_all d' c2 k _ OK' G) as Q. rewrite map_app in Q. exact Q.
Qed.

(* ---- trimming through the command ---- *)
Lemma is_mod_not_int t v : atoi64 t = Some v -> is_mod t = false.
Proof.
  intros A. unfold is_mod, is.
  destruct (bytes_eqb_spec t (B "~")) as [->|_]; [discriminate A|].
  destruct (bytes_eqb_spec t (B "=")) as [->|_]; [discriminate A|]. reflexivity.
Qed.
Lemma is_mod_not_id t m i : parse_id t m = Some i -> is_mod t = false.
Proof.
  intros A. unfold is_mod, is.
  destruct (bytes_eqb_spec t (B "~")) as [->|_]; [discriminate A|].
  destruct (bytes_eqb_spec t (B "=")) as [->|_]; [discriminate A|]. reflexivity.
Qed.

Lemma is_lower_eq a kw : is (lower a) kw = true -> lower a = kw.
Proof. unfold is. apply bytes_eqb_eq. Qed.

Lemma xadd_parse_maxlen kw nb idt fields n spec :
  is (lower kw) (B "maxlen") = true -> atoi64 nb = Some n -> 0 <= n -> parse_add_id idt = Some spec ->
  xadd_parse (kw :: nb :: idt :: fields) xopts0 = XOk (mkX false (Some n) None false None) spec fields.
Proof.
  intros K A Hn P. cbn [xadd_parse]. rewrite (is_lower_eq _ _ K). cbn [is bytes_eqb beqb Byte.eqb andb].
  change (is (B "maxlen") (B "nomkstream")) with false. change (is (B "maxlen") (B "maxlen")) with true.
  cbn iota. rewrite (is_mod_not_int nb n A), A.
  replace (n <? 0) with false by (symmetry; apply Z.ltb_ge; exact Hn).
  apply xadd_parse_plain. exact P.
Qed.

Lemma xadd_parse_minid kw tb idt fields th spec :
  is (lower kw) (B "minid") = true -> parse_id tb 0 = Some th -> parse_add_id idt = Some spec ->
  xadd_parse (kw :: tb :: idt :: fields) xopts0 = XOk (mkX false None (Some th) false None) spec fields.
Proof.
  intros K A P. cbn [xadd_parse]. rewrite (is_lower_eq _ _ K).
  change (is (B "minid") (B "nomkstream")) with false. change (is (B "minid") (B "maxlen")) with false.
  change (is (B "minid") (B "minid")) with true.
  cbn iota. rewrite (is_mod_not_id tb 0 th A), A.
  apply xadd_parse_plain. exact P.
Qed.

Lemma exec_xadd_opts d nowms c k rest o spec fields x id :
  5 <= zlength (c :: k :: rest) ->
  xadd_parse rest xopts0 = XOk o spec fields -> xadd_conflict o = false -> x_nomk o = false ->
  fields_ok fields = true -> is_zero_id spec = false ->
  stream_at d k x -> new_id spec nowms (last_id x) = Some id ->
  exec_xadd d nowms (c :: k :: rest) =
    (RBulk (fmt_id id), db_set d k (VStream (trim o (x ++ [(id, fields)])))).
Proof.
  intros L P C NM F Z SA N. unfold exec_xadd.
  replace (zlength (c :: k :: rest) <? 5) with false by (symmetry; apply Z.ltb_ge; exact L).
  rewrite P, C, F, Z. cbn [negb orb]. unfold xadd_apply. destruct SA as [G|[G ->]].
  - apply get_stream_found in G. rewrite G, N. reflexivity.
  - apply get_stream_missing in G. rewrite G, NM, N. reflexivity.
Qed.

(* XADD key MAXLEN n id f v ...: the stored stream is the newest min(len+1, n) entries of the old
   entries followed by the new one *)
Lemma p_xadd_maxlen d nowms c k kw nb idt fields n spec x id :
  is (lower kw) (B "maxlen") = true -> atoi64 nb = Some n -> 0 <= n ->
  parse_add_id idt = Some spec -> fields_ok fields = true -> is_zero_id spec = false ->
  stream_at d k x -> new_id spec nowms (last_id x) = Some id ->
  let y := x ++ [(id, fields)] in
  let y' := skipn (Z.to_nat (zlength y - n)) y in
  exec_xadd d nowms (c :: k :: kw :: nb :: idt :: fields) = (RBulk (fmt_id id), db_set d k (VStream y'))
  /\ zlength y' = Z.min (zlength y) n.
Proof.
  intros K A Hn P F Z SA N y y'.
  pose proof (xadd_parse_maxlen kw nb idt fields n spec K A Hn P) as PP.
  destruct (trim_maxlen_exact (mkX false (Some n) None false None) y n eq_refl eq_refl eq_refl Hn) as [T1 T2].
  assert (L : 5 <= zlength (c :: k :: kw :: nb :: idt :: fields)).
  { unfold fields_ok in F. apply andb_true_iff in F as [F _]. apply Z.leb_le in F.
    rewrite !zlength_cons. pose proof (zlength_nonneg fields). lia. }
  pose proof (exec_xadd_opts d nowms c k _ _ spec fields x id L PP eq_refl eq_refl F Z SA N) as Q.
  fold y in Q. rewrite T1 in Q. split; [exact Q|].
  subst y'. rewrite <- T1. exact T2.
Qed.

(* XADD key MINID th id f v ...: exactly the entries with id >= th remain *)
Lemma p_xadd_minid d nowms c k kw tb idt fields th spec x id :
  streams_ok d ->
  is (lower kw) (B "minid") = true -> parse_id tb 0 = Some th ->
  parse_add_id idt = Some spec -> fields_ok fields = true -> is_zero_id spec = false ->
  stream_at d k x -> new_id spec nowms (last_id x) = Some id ->
  exec_xadd d nowms (c :: k :: kw :: tb :: idt :: fields) =
    (RBulk (fmt_id id),
     db_set d k (VStream (filter (fun e => sid_le th (fst e)) (x ++ [(id, fields)])))).
Proof.
  intros OK K A P F Z SA N.
  pose proof (xadd_parse_minid kw tb idt fields th spec K A P) as PP.
  pose proof (stream_at_ok d k x OK SA) as OKx.
  assert (OKy : stream_ok (x ++ [(id, fields)])).
  { apply stream_ok_append; [exact OKx| |eapply new_id_gt; exact N].
    eapply new_id_range; [eapply parse_add_id_ok; exact P|apply last_id_in_u64; exact OKx|exact N]. }
  assert (L : 5 <= zlength (c :: k :: kw :: tb :: idt :: fields)).
  { unfold fields_ok in F. apply andb_true_iff in F as [F _]. apply Z.leb_le in F.
    rewrite !zlength_cons. pose proof (zlength_nonneg fields). lia. }
  pose proof (exec_xadd_opts d nowms c k _ _ spec fields x id L PP eq_refl eq_refl F Z SA N) as Q.
  rewrite (trim_minid_exact (mkX false None (Some th) false None) _ th eq_refl eq_refl eq_refl (proj1 OKy)) in Q. exact Q.
Qed.
