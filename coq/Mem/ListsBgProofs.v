(* C09: the replay model of a step during which other connections may act ([srv_exec_bg],
   Mem/ListsBg.v) against the plain dispatcher step ([srv_exec]) when nobody else acts. *)
Require Import Base.Bytes Base.GoInt Base.Reply Mem.Types Mem.Inv Mem.Lists Mem.Exec Mem.Server Mem.ListsBg.
Require Import Mem.ListsSpec Mem.ListsProofs Mem.ListsBlock Mem.ListsRefine.
Require Import Lia.
Local Open Scope Z_scope.

(* ------------------------------------------------------------------ purging twice *)
Lemma filter_filter {A} (f g : A -> bool) l : filter f (filter g l) = filter (fun x => g x && f x) l.
Proof.
  induction l as [|x r IH]; cbn; [reflexivity|].
  destruct (g x); cbn; [destruct (f x); rewrite IH; reflexivity|exact IH].
Qed.

Lemma purge_purge d now t1 : db_wf d -> now <= t1 -> purge (purge d now) t1 = purge d t1.
Proof.
  intros W Hle.
  change (purge (purge d now) t1) with
    (mkDb (filter (fun p => negb (expired (purge d now) t1 (fst p)))
                  (filter (fun p => negb (expired d now (fst p))) (kv d)))
          (filter (fun p => negb (snd p <=? t1)) (filter (fun p => negb (snd p <=? now)) (ttl d)))).
  change (purge d t1) with
    (mkDb (filter (fun p => negb (expired d t1 (fst p))) (kv d)) (filter (fun p => negb (snd p <=? t1)) (ttl d))).
  f_equal.
  - rewrite filter_filter. apply filter_ext. intros [k v]. cbn [fst].
    destruct (expired d now k) eqn:X; cbn [negb andb].
    + rewrite (expired_mono d now t1 k Hle X). reflexivity.
    + f_equal. unfold expired at 1. rewrite db_ttl_purge by exact W. rewrite X. reflexivity.
  - rewrite filter_filter. apply filter_ext. intros [k t]. cbn [snd].
    destruct (t <=? now) eqn:E; cbn [negb andb]; [|reflexivity].
    apply Z.leb_le in E. destruct (t <=? t1) eqn:E1; [reflexivity|apply Z.leb_gt in E1; lia].
Qed.

Lemma view_purge_later d now t k : db_wf d -> now <= t -> view (purge d now) t k = view d t k.
Proof.
  intros W Hle. rewrite <- (raw_view_purge (purge d now) t k) by (apply db_wf_purge; exact W).
  rewrite purge_purge by assumption. apply raw_view_purge. exact W.
Qed.

(* ------------------------------------------------------------------ servers that look the same from [now] on *)
Definition db_equiv (now : Z) (d1 d2 : db) : Prop := forall t k, now <= t -> view d1 t k = view d2 t k.
Definition srv_equiv (now : Z) (s1 s2 : server) : Prop :=
  ssel s1 = ssel s2 /\ Forall2 (db_equiv now) (sdbs s1) (sdbs s2).

Lemma db_equiv_refl now d : db_equiv now d d.
Proof. intros t k _. reflexivity. Qed.

Lemma Forall2_refl {A} (R : A -> A -> Prop) l : (forall x, R x x) -> Forall2 R l l.
Proof. intros H. induction l; constructor; auto. Qed.

Lemma Forall2_update {A} (R : A -> A -> Prop) l i x y :
  (forall z, R z z) -> nth_error l i = Some x -> R x y -> Forall2 R l (list_update l i y).
Proof.
  intros Hr. revert i. induction l as [|z r IH]; intros [|i] H Hxy; cbn in *; try discriminate.
  - inversion H; subst. constructor; [exact Hxy|apply Forall2_refl; exact Hr].
  - constructor; [apply Hr|apply IH; assumption].
Qed.

(* ------------------------------------------------------------------ the polling round at server level *)
Lemma srv_poll_none_mono left keys conn s t t' :
  t / 1000 <= t' / 1000 -> srv_poll left keys conn s t = None -> srv_poll left keys conn s t' = None.
Proof.
  unfold srv_poll. destruct (nth_error (sdbs s) (sel_lookup conn (ssel s))) as [d|]; [|reflexivity].
  unfold bpop_poll. intros Hle H.
  destruct (bpop_try left (purge d (t / 1000)) keys) as [[r d']|] eqn:E; [discriminate|].
  rewrite (bpop_try_none_mono left d keys _ _ Hle E). reflexivity.
Qed.

(* ------------------------------------------------------------------ nobody else acts *)
(* a command that is not a (well-formed) blocking pop: exactly the dispatcher step *)
Theorem bg_no_events_plain_nonblocking s conn now nowms args hint wd :
  blocking_form args = None ->
  srv_exec_bg s conn now nowms args hint [] wd =
  (fst (srv_exec s conn now nowms args hint), [], snd (srv_exec s conn now nowms args hint), nowms).
Proof.
  intros NB. unfold srv_exec_bg. rewrite NB. cbn [map run_evs].
  destruct (srv_exec s conn now nowms args hint) as [r s1]. reflexivity.
Qed.

Lemma blocking_form_name args lft keys t :
  blocking_form args = Some (lft, keys, t) ->
  exists name rest, args = name :: rest /\ lower name = (if lft then B "blpop" else B "brpop") /\
                    bpop_parse args = Some (keys, t).
Proof.
  unfold blocking_form. destruct args as [|name rest]; [discriminate|].
  destruct (is (lower name) (B "blpop")) eqn:E1.
  - apply bytes_eqb_eq in E1. destruct (bpop_parse (name :: rest)) as [[k0 t0]|]; [|discriminate].
    intros H. inversion H; subst. exists name, rest. repeat split; assumption.
  - destruct (is (lower name) (B "brpop")) eqn:E2; [|discriminate].
    apply bytes_eqb_eq in E2. destruct (bpop_parse (name :: rest)) as [[k0 t0]|]; [|discriminate].
    intros H. inversion H; subst. exists name, rest. repeat split; assumption.
Qed.

(* BLPOP / BRPOP with nobody else acting and the watchdog not involved: the replay model gives the
   reply of the dispatcher's own executor, the instant of [bpop_run], and a server that looks the
   same at every later clock (the dispatcher has additionally dropped the keys already expired) *)
Theorem bg_no_events_plain_blocking s conn now nowms args hint wd lft keys t d :
  blocking_form args = Some (lft, keys, t) ->
  block_timer_ms t <= wd ->
  now = nowms / 1000 ->
  nth_error (sdbs s) (sel_lookup conn (ssel s)) = Some d -> db_wf d ->
  let '(r, outs, s_bg, tend) := srv_exec_bg s conn now nowms args hint [] wd in
  let '(r', s_pl) := srv_exec s conn now nowms args hint in
  r = r' /\ outs = [] /\ srv_equiv now s_bg s_pl /\
  tend = snd (bpop_run lft (purge d now) nowms args).
Proof.
  intros BF NC CK ND W.
  destruct (blocking_form_name args lft keys t BF) as (name & rest & -> & LN & P).
  set (t1 := (nowms + 100) / 1000).
  assert (Hle : now <= t1) by (unfold t1; rewrite CK; apply div1000_mono; lia).
  (* the dispatcher side *)
  assert (PL : srv_exec s conn now nowms (name :: rest) hint =
               (fst (exec_bpop lft (purge d now) nowms (name :: rest)),
                mkSrv (list_update (sdbs s) (sel_lookup conn (ssel s))
                                   (snd (exec_bpop lft (purge d now) nowms (name :: rest)))) (ssel s))).
  { unfold srv_exec. rewrite LN.
    assert (NS : is (if lft then B "blpop" else B "brpop") (B "select") = false) by (destruct lft; reflexivity).
    rewrite NS. rewrite ND. unfold exec, exec_cmd. rewrite LN.
    assert (DD : dispatch families (purge d now) now nowms (if lft then B "blpop" else B "brpop") (name :: rest) hint
                 = exec_bpop lft (purge d now) nowms (name :: rest)) by (destruct lft; reflexivity).
    rewrite DD. destruct (exec_bpop lft (purge d now) nowms (name :: rest)); reflexivity. }
  rewrite PL. unfold exec_bpop. rewrite (bpop_run_alone lft (purge d now) nowms (name :: rest) keys t P).
  unfold bpop_poll. fold t1. rewrite purge_purge by assumption.
  (* the replay side *)
  unfold srv_exec_bg. rewrite BF. cbn [map].
  assert (CUT : (block_timer_ms t >? wd) = false) by (rewrite Z.gtb_ltb; apply Z.ltb_ge; exact NC).
  rewrite CUT. cbv zeta. cbv iota.
  destruct (bpop_try lft (purge d t1) keys) as [[r1 d1]|] eqn:BT.
  - assert (SP : srv_poll lft keys conn s (nowms + 100) =
                 Some (r1, mkSrv (list_update (sdbs s) (sel_lookup conn (ssel s)) d1) (ssel s))).
    { unfold srv_poll. rewrite ND. unfold bpop_poll. fold t1. rewrite BT. reflexivity. }
    pose proof (block_alone_first (O := reply) _ nowms t s _ r1 SP) as BA. unfold bev in BA. rewrite BA. cbn [run_evs app fst snd].
    split; [reflexivity|]. split; [reflexivity|]. split; [|reflexivity].
    split; [reflexivity|]. cbn [sdbs]. apply Forall2_refl. intros x. apply db_equiv_refl.
  - assert (SP : forall t', nowms + 100 <= t' -> srv_poll lft keys conn s t' = None).
    { intros t' Ht'. apply (srv_poll_none_mono lft keys conn s (nowms + 100) t').
      - apply div1000_mono. exact Ht'.
      - unfold srv_poll. rewrite ND. unfold bpop_poll. fold t1. rewrite BT. reflexivity. }
    pose proof (block_alone_timeout (O := reply) _ nowms t s SP) as BA. unfold bev in BA. rewrite BA. cbn [run_evs app fst snd].
    split; [reflexivity|]. split; [reflexivity|]. split; [|reflexivity].
    split; [reflexivity|]. cbn [sdbs].
    apply (Forall2_update (db_equiv now) (sdbs s) _ d (purge d now)); [apply db_equiv_refl|exact ND|].
    intros tt k Ht. symmetry. apply view_purge_later; assumption.
Qed.
