(* The set family's invariants over ALL command families of Mem/Exec.v.
   [okstep d d']: d' is well-formed when d is, and every set stored in d' was already stored in d
   (under some key).  Every command of the string/key, list, hash, sorted-set and stream families
   is such a step -- it stores values of its own type, deletes, moves a value (RENAME) or edits
   deadlines -- so it preserves [db_wf] and the value invariant [sets_ok]; [sets_dispatch]
   preserves them by SetsProofs.  Hence every program over every family does
   ([run_exec_all_invariants]), and after any program a key that holds a set holds a
   duplicate-free, non-empty one ([emptied_set_removed_all]). *)
Require Import Base.Bytes Base.GoInt Base.Reply Mem.Types Mem.Inv Mem.Sets.
Require Import Mem.Hashes Mem.Avl Mem.ZSets Mem.Streams Mem.Lists Mem.ListsRefine Mem.Strings.
Require Import Mem.Exec Mem.SetsProofs Mem.SetsExec.
Local Open Scope Z_scope.

Definition okstep (d d' : db) : Prop := (db_wf d -> db_wf d') /\ sets_from d d'.

Lemma okstep_refl d : okstep d d.
Proof. split; [tauto|apply sets_from_refl]. Qed.
Lemma okstep_trans d1 d2 d3 : okstep d1 d2 -> okstep d2 d3 -> okstep d1 d3.
Proof. intros [A1 A2] [B1 B2]. split; [tauto|eapply sets_from_trans; eassumption]. Qed.
Lemma okstep_set d k v : (forall s, v <> VSet s) -> okstep d (db_set d k v).
Proof.
  intros Hv. split; [apply db_wf_set|]. apply sets_from_set. intros s E. destruct (Hv s E).
Qed.
Lemma okstep_set_found d k k0 v : db_get d k0 = Some v -> okstep d (db_set d k v).
Proof.
  intros G. split; [apply db_wf_set|]. apply sets_from_set. intros s E. subst v. exists k0. exact G.
Qed.
Lemma okstep_del d k : okstep d (db_del d k).
Proof. split; [apply db_wf_del|apply sets_from_del]. Qed.
Lemma okstep_set_ttl d k t : okstep d (db_set_ttl d k t).
Proof. split; [apply db_wf_set_ttl|apply sets_from_set_ttl]. Qed.
Lemma okstep_del_ttl d k : okstep d (db_del_ttl d k).
Proof. split; [apply db_wf_del_ttl|apply sets_from_del_ttl]. Qed.
Lemma okstep_purge d now : okstep d (purge d now).
Proof. split; [apply db_wf_purge|apply sets_from_purge]. Qed.

Lemma okstep_set_after d d1 k v : okstep d d1 -> (forall s, v <> VSet s) -> okstep d (db_set d1 k v).
Proof. intros F Hv. eapply okstep_trans; [exact F|apply okstep_set; exact Hv]. Qed.
Lemma okstep_del_after d d1 k : okstep d d1 -> okstep d (db_del d1 k).
Proof. intros F. eapply okstep_trans; [exact F|apply okstep_del]. Qed.
Lemma okstep_set_ttl_after d d1 k t : okstep d d1 -> okstep d (db_set_ttl d1 k t).
Proof. intros F. eapply okstep_trans; [exact F|apply okstep_set_ttl]. Qed.
Lemma okstep_del_ttl_after d d1 k : okstep d d1 -> okstep d (db_del_ttl d1 k).
Proof. intros F. eapply okstep_trans; [exact F|apply okstep_del_ttl]. Qed.
Lemma okstep_purge_after d d1 now : okstep d d1 -> okstep d (purge d1 now).
Proof. intros F. eapply okstep_trans; [exact F|apply okstep_purge]. Qed.

(* a family all of whose commands are such steps keeps both invariants *)
Definition family_okstep (f : family) : Prop :=
  forall d now nowms n args hint r d', f d now nowms n args hint = Some (r, d') -> okstep d d'.

Lemma okstep_keeps_sets f : family_okstep f -> family_keeps_sets f.
Proof. intros H d now nowms n args hint r d' _ O E. eapply sets_from_ok; [apply (H _ _ _ _ _ _ _ _ E)|exact O]. Qed.
Lemma okstep_keeps_wf f : family_okstep f -> family_keeps_wf f.
Proof. intros H d now nowms n args hint r d' W E. apply (proj1 (H _ _ _ _ _ _ _ _ E)). exact W. Qed.

(* ---- generic proof for executors built from the primitives, possibly through non-recursive
        accessor definitions (hint database kv_sf) ---- *)
Ltac break_match :=
  match goal with
  | |- context [match ?x with _ => _ end] =>
    lazymatch x with
    | context [match _ with _ => _ end] => fail
    | _ => destruct x eqn:?
    end
  end.
Ltac ok_leaf :=
  cbn [snd];
  repeat first [ apply okstep_refl
               | apply okstep_set_after; [|intros ? ?; discriminate]
               | apply okstep_del_after | apply okstep_set_ttl_after | apply okstep_del_ttl_after
               | apply okstep_purge_after ].
Ltac head_of t := lazymatch t with ?f _ => head_of f | _ => t end.
Create HintDb kv_sf.
#[export] Hint Unfold get_hash hash_or_empty put_hash hfloat_store hfloat_follow get_zset put_zset
  get_list put_list get_stream xadd_apply set_apply_ttl incr_by follow_hint : kv_sf.
Ltac ok_exec :=
  match goal with |- okstep _ (snd ?x) => let h := head_of x in unfold h; cbv beta zeta end;
  repeat (repeat autounfold with kv_sf; break_match); repeat autounfold with kv_sf; ok_leaf.
Ltac ok_family disp tac :=
  let n := fresh "n" in let d' := fresh "d'" in let E := fresh "E" in
  intros ? ? ? n ? ? ? d'; unfold disp;
  repeat match goal with
  | |- context [if is n ?c then _ else _] => destruct (is n c)
  end; intros E; try discriminate; injection E as E;
  apply (f_equal snd) in E; cbn [snd] in E; subst d';
  first [ tac | ok_exec ].

Lemma hashes_okstep : family_okstep hashes_dispatch.
Proof. ok_family hashes_dispatch fail. Qed.
Lemma zsets_okstep : family_okstep zsets_dispatch.
Proof. ok_family zsets_dispatch fail. Qed.
Lemma streams_okstep : family_okstep streams_dispatch.
Proof. ok_family streams_dispatch fail. Qed.

(* ---- the executors that loop over keys ---- *)
Lemma bpop_try_okstep left keys : forall d0 d1 r d2,
  okstep d0 d1 -> bpop_try left d1 keys = Some (r, d2) -> okstep d0 d2.
Proof.
  induction keys as [|k keys IH]; intros d0 d1 r d2 F E; cbn in E; [discriminate|].
  unfold get_list in E.
  destruct (db_get d1 k) as [[]|]; try (injection E as _ <-; exact F); try (eapply IH; eassumption).
  destruct left; [destruct l as [|x l']|destruct (rev l) as [|x l']]; try (eapply IH; eassumption);
    injection E as _ <-; unfold put_list; break_match; ok_leaf; exact F.
Qed.

Lemma exec_bpop_okstep left d nowms args : okstep d (snd (exec_bpop left d nowms args)).
Proof.
  destruct (exec_bpop_cases left d nowms args) as [[_ ->]|(keys & t & _ & E)]; [apply okstep_refl|].
  destruct (bpop_try left (purge d ((nowms + 100) / 1000)) keys) as [[r d1]|] eqn:Bq; rewrite E.
  - cbn [snd]. eapply bpop_try_okstep; [apply okstep_purge|exact Bq].
  - apply okstep_refl.
Qed.

Lemma lists_okstep : family_okstep lists_dispatch.
Proof. ok_family lists_dispatch ltac:(apply exec_bpop_okstep). Qed.

Lemma mset_pairs_okstep n : forall (l : list bytes) d0 d1 d2, (List.length l <= n)%nat ->
  okstep d0 d1 -> mset_pairs d1 l = Some d2 -> okstep d0 d2.
Proof.
  induction n as [|n IH]; intros l d0 d1 d2 L F E; destruct l as [|k [|v r]]; cbn in *;
    try discriminate; try (injection E as <-; exact F); try lia.
  eapply (IH r); [lia| |exact E]. ok_leaf. exact F.
Qed.

Lemma exec_mset_okstep d args : okstep d (snd (exec_mset d args)).
Proof.
  unfold exec_mset. destruct args as [|c [|k [|v r]]]; try apply okstep_refl.
  destruct (mset_pairs d (k :: v :: r)) as [d'|] eqn:E; [|apply okstep_refl].
  cbn [snd]. eapply mset_pairs_okstep; [apply le_n|apply okstep_refl|exact E].
Qed.

Lemma del_keys_okstep keys : forall d0 d1 n, okstep d0 d1 -> okstep d0 (snd (del_keys d1 keys n)).
Proof.
  induction keys as [|k keys IH]; intros d0 d1 n F; cbn; [exact F|].
  destruct (db_get d1 k); apply IH; apply okstep_del_after; exact F.
Qed.

Lemma exec_del_okstep d args : okstep d (snd (exec_del d args)).
Proof.
  unfold exec_del. destruct args as [|c [|k r]]; try apply okstep_refl.
  pose proof (del_keys_okstep (k :: r) d d 0 (okstep_refl d)) as H.
  destruct (del_keys d (k :: r) 0) as [n d']. exact H.
Qed.

Lemma exec_rename_okstep d args : okstep d (snd (exec_rename d args)).
Proof.
  unfold exec_rename. destruct args as [|c [|old [|new [|x r]]]]; try apply okstep_refl.
  destruct (db_get d old) as [v|] eqn:G; [|apply okstep_refl]. cbv zeta. cbn [snd].
  assert (F : okstep d (db_set (db_del (db_del d old) new) new v)).
  { split; [intros W; apply db_wf_set, db_wf_del, db_wf_del; exact W|].
    intros k1 s. rewrite db_get_set. destruct (bytes_eqb k1 new).
    - intros H. inversion H; subst v. exists old. exact G.
    - rewrite !db_get_del. destruct (bytes_eqb k1 new); [discriminate|].
      destruct (bytes_eqb k1 old); [discriminate|]. intros H. exists k1. exact H. }
  destruct (db_ttl d old); [apply okstep_set_ttl_after|]; exact F.
Qed.

Lemma strings_okstep : family_okstep strings_dispatch.
Proof.
  ok_family strings_dispatch
    ltac:(first [apply exec_mset_okstep | apply exec_del_okstep | apply exec_rename_okstep]).
Qed.

Lemma sets_okstep_or_own :
  family_keeps_sets sets_dispatch /\ family_keeps_wf sets_dispatch.
Proof.
  split; [apply sets_dispatch_keeps_sets|].
  intros d now nowms n args hint r d' W E. eapply sets_dispatch_wf_pres; eassumption.
Qed.

(* ---- all of [Exec.families]: one line per family ---- *)
Lemma families_keep_sets : Forall family_keeps_sets families.
Proof.
  unfold families.
  repeat (apply Forall_cons;
          [first [ apply okstep_keeps_sets; first [apply strings_okstep | apply lists_okstep | apply hashes_okstep
                                                  | apply zsets_okstep | apply streams_okstep]
                 | apply sets_dispatch_keeps_sets ]|]).
  apply Forall_nil.
Qed.

Lemma families_keep_wf : Forall family_keeps_wf families.
Proof.
  unfold families.
  repeat (apply Forall_cons;
          [first [ apply okstep_keeps_wf; first [apply strings_okstep | apply lists_okstep | apply hashes_okstep
                                                | apply zsets_okstep | apply streams_okstep]
                 | apply (proj2 sets_okstep_or_own) ]|]).
  apply Forall_nil.
Qed.

(* every command of every family, at any clock, with any observed reply *)
Theorem exec_all_invariants d now nowms args hint :
  db_wf d -> sets_ok d ->
  db_wf (snd (exec d now nowms args hint)) /\ sets_ok (snd (exec d now nowms args hint)).
Proof.
  intros W O. split; [apply exec_keeps_wf; [apply families_keep_wf|exact W]|].
  apply exec_keeps_sets_ok; [apply families_keep_sets|exact W|exact O].
Qed.

Theorem run_exec_all_invariants prog d :
  db_wf d -> sets_ok d -> db_wf (run_exec prog d) /\ sets_ok (run_exec prog d).
Proof. apply run_exec_invariants; [apply families_keep_wf|apply families_keep_sets]. Qed.

Theorem emptied_set_removed_all prog now k s t :
  view (run_exec prog empty_db) now k = Some (VSet s, t) -> NoDup s /\ s <> [].
Proof.
  intros H. destruct (run_exec_all_invariants prog empty_db db_wf_empty sets_ok_empty) as (_ & OK').
  unfold view in H. destruct (db_get (run_exec prog empty_db) k) as [v|] eqn:E; [|discriminate].
  destruct (expired (run_exec prog empty_db) now k); [discriminate|]. inversion H; subst.
  apply (OK' k _ E).
Qed.
