(* Every score a sorted set ever stores is a normal form (what parse_score / score_add return), under
   any sequence of commands of any family; hence (ZSetsScores.score_print_parse) what ZRANGE
   WITHSCORES and ZADD INCR print parses back to exactly the stored score. *)
Require Import Base.Bytes Base.GoInt Base.Reply Mem.Types Mem.Inv Mem.Avl Mem.AvlProofs Mem.ZSets Mem.ZSetsProofs.
Require Import Mem.ZSetsScores Mem.Exec Mem.ZSetsCompose.
Require Mem.AllInv.
From Coq Require Import Sorting.Sorted.
Local Open Scope Z_scope.

Definition zset_scores_normal (z : zset) : Prop :=
  forall m sc, alookup m (zdict z) = Some sc -> snormal sc.
Definition value_scores_normal (v : value) : Prop :=
  match v with VZSet z => zset_scores_normal z | _ => True end.
Definition db_scores_normal (d : db) : Prop := AllInv.vals value_scores_normal d.

Lemma zadd_step_normal o a sc m a' :
  snormal sc -> zset_scores_normal (a_z a) -> zadd_step o a (sc, m) = Some a' -> zset_scores_normal (a_z a').
Proof.
  intros Ns Na H. destruct (zadd_step_spec _ _ _ _ _ H) as [Ho Hs]. intros m' s' Hm'.
  destruct (bytes_eq_dec m' m) as [->|N]; [|rewrite Ho in Hm' by exact N; exact (Na _ _ Hm')].
  destruct Hs as [->|(new & Hn & _ & Hd)]; [exact (Na _ _ Hm')|].
  assert (s' = new) by congruence. subst s'.
  unfold new_score_of in Hn. destruct (alookup m (zdict (a_z a))) as [old|] eqn:Eo.
  - destruct (o_incr o); [|inversion Hn; subst; exact Ns].
    eapply score_add_normal; [exact (Na _ _ Eo)|exact Ns|exact Hn].
  - inversion Hn; subst; exact Ns.
Qed.

Lemma zadd_pairs_normal l ps : zadd_pairs l = Some ps -> Forall (fun p => snormal (fst p)) ps.
Proof.
  revert ps. induction l as [l IH] using (well_founded_induction (well_founded_ltof _ (@List.length bytes))).
  intros ps. destruct l as [|s [|m r]]; cbn [zadd_pairs]; try discriminate.
  - intros H. inversion H. constructor.
  - destruct (parse_score s) as [sc|] eqn:Ps; [|discriminate].
    destruct (zadd_pairs r) as [ps'|] eqn:Pr; [|discriminate].
    intros H. inversion H. constructor; [eapply parse_score_normal; exact Ps|].
    apply (IH r); [unfold ltof; cbn; lia|exact Pr].
Qed.

Lemma zadd_loop_normal o ps a a' :
  Forall (fun p => snormal (fst p)) ps -> zset_scores_normal (a_z a) ->
  zadd_loop o ps a = Some a' -> zset_scores_normal (a_z a').
Proof.
  revert a. induction ps as [|[sc m] r IH]; cbn [zadd_loop]; intros a F Na H.
  - inversion H; subst; exact Na.
  - apply Forall_cons_iff in F as [F1 F2]. cbn in F1.
    destruct (zadd_step o a (sc, m)) as [a1|] eqn:E; [|discriminate].
    eapply IH; [exact F2|eapply zadd_step_normal; eassumption|exact H].
Qed.

Lemma zrem_loop_dict_sub z ms n z' n' :
  zrem_loop z ms n = (z', n') -> forall m sc, alookup m (zdict z') = Some sc -> alookup m (zdict z) = Some sc.
Proof.
  revert z n. induction ms as [|x r IH]; cbn [zrem_loop]; intros z n H m sc Hm.
  - inversion H; subst; exact Hm.
  - destruct (bt_delete z x) as [z1|] eqn:Ed.
    + specialize (IH _ _ H m sc Hm). rewrite (bt_delete_dict _ _ _ m Ed) in IH.
      destruct (bytes_eqb m x); [discriminate|exact IH].
    + exact (IH _ _ H m sc Hm).
Qed.

Lemma vals_set Q d k v : AllInv.vals Q d -> Q v -> AllInv.vals Q (db_set d k v).
Proof.
  intros O Hv k0 v0. rewrite AllInv.get_set. destruct (bytes_eqb k0 k); [intros H; inversion H; subst; exact Hv|apply O].
Qed.

Lemma vals_del Q d k : AllInv.vals Q d -> AllInv.vals Q (db_del d k).
Proof. intros O k0 v0. rewrite AllInv.get_del. destruct (bytes_eqb k0 k); [discriminate|apply O]. Qed.

Lemma zsets_dispatch_scores_normal d now nowms n args hint r d' :
  db_scores_normal d -> zsets_dispatch d now nowms n args hint = Some (r, d') -> db_scores_normal d'.
Proof.
  intros O. unfold zsets_dispatch.
  destruct (is n (B "zadd")).
  { intros H. assert (H' : exec_zadd d args = (r, d')) by congruence. clear H. revert H'. unfold exec_zadd.
    destruct args as [|a0 [|k rest]]; try (intros H; inversion H; subst; exact O).
    destruct (zlength (a0 :: k :: rest) <? 4); [intros H; inversion H; subst; exact O|].
    destruct (zadd_opts rest zopts0) as [o ps].
    destruct (zadd_conflict o); [intros H; inversion H; subst; exact O|].
    destruct (o_incr o && negb (zlength ps =? 2)); [intros H; inversion H; subst; exact O|].
    destruct (zadd_pairs ps) as [pairs|] eqn:P; [|intros H; inversion H; subst; exact O].
    apply zadd_pairs_normal in P.
    destruct (get_zset d k) as [| |z] eqn:G.
    - destruct (zadd_loop o pairs (mkAcc empty_zset 0 None)) as [a|] eqn:L; [|intros H; inversion H; subst; exact O].
      intros H; inversion H; subst. destruct (zroot (a_z a)); [exact O|].
      apply vals_set; [exact O|]. cbn. eapply (zadd_loop_normal o pairs (mkAcc empty_zset 0 None)); [exact P| |exact L].
      intros m0 s0 Hm0. discriminate.
    - intros H; inversion H; subst; exact O.
    - destruct (zadd_loop o pairs (mkAcc z 0 None)) as [a|] eqn:L; [|intros H; inversion H; subst; exact O].
      intros H; inversion H; subst. apply vals_set; [exact O|]. cbn.
      eapply (zadd_loop_normal o pairs (mkAcc z 0 None)); [exact P| |exact L].
      apply get_zset_found in G. exact (O k _ G). }
  destruct (is n (B "zrem")).
  { intros H. assert (H' : exec_zrem d args = (r, d')) by congruence. clear H. revert H'. unfold exec_zrem.
    destruct args as [|a0 [|k [|m ms]]]; try (intros H; inversion H; subst; exact O).
    destruct (get_zset d k) as [| |z] eqn:G; try (intros H; inversion H; subst; exact O).
    destruct (zrem_loop z (m :: ms) 0) as [z' c] eqn:L. intros H; inversion H; subst.
    unfold put_zset. destruct (zroot z'); [apply vals_del; exact O|]. apply vals_set; [exact O|]. cbn.
    intros m' s0 Hm'. apply (zrem_loop_dict_sub _ _ _ _ _ L) in Hm'.
    apply get_zset_found in G. exact (O k _ G m' s0 Hm'). }
  destruct (is n (B "zrange")).
  { intros H. assert (H' : exec_zrange d args = (r, d')) by congruence. apply exec_zrange_same in H'. subst; exact O. }
  destruct (is n (B "zrank")); [|discriminate].
  unfold exec_zrank. intros H. assert (H' : d' = d); [|subst; exact O].
  destruct args as [|a0 [|k [|m [|x y]]]]; try (inversion H; reflexivity).
  destruct (get_zset d k); [| |destruct (zrank_of z m)]; inversion H; reflexivity.
Qed.

Lemma zsets_keeps_scores : AllInv.family_keeps value_scores_normal zsets_dispatch.
Proof.
  intros d now nowms n args hint r d' W O E. split; [eapply zsets_dispatch_wf_pres; eassumption|].
  eapply zsets_dispatch_scores_normal; eassumption.
Qed.

Lemma families_keep_scores : Forall (AllInv.family_keeps value_scores_normal) families.
Proof.
  unfold families.
  repeat (apply Forall_cons;
    [lazymatch goal with
     | |- AllInv.family_keeps _ zsets_dispatch => exact zsets_keeps_scores
     | |- AllInv.family_keeps _ ?f =>
       AllInv.tstep_of f ltac:(fun T St => apply (AllInv.keeps_of_tstep T _ f St);
                                let v := fresh "v" in let Hv := fresh "Hv" in
                                intros v Hv; destruct v; try discriminate Hv; exact I)
     end|]).
  apply Forall_nil.
Qed.

(* any sequence of commands of any family *)
Theorem scores_normal_all_commands prog d :
  db_wf d -> db_scores_normal d -> db_scores_normal (run_cmds prog d).
Proof. intros W O. exact (proj2 (AllInv.run_cmds_keeps _ families_keep_scores prog d W O)). Qed.

Lemma db_scores_normal_empty : db_scores_normal empty_db.
Proof. intros k v H. discriminate. Qed.

(* ------------------------------------------------------------------ what is printed parses back *)
Lemma In_zwindow {A} (x : A) l n s e : In x (zwindow l n s e) -> In x l.
Proof.
  unfold zwindow.
  match goal with |- In x (if ?c then _ else _) -> _ => destruct c end; [|intros []].
  intros H. apply (In_nth_error) in H as [j H].
  rewrite nth_error_firstn in H. destruct (_ <? _)%nat; [|discriminate].
  rewrite nth_error_skipn in H. eapply nth_error_In; exact H.
Qed.

(* every stored score prints to bytes that parse back to it *)
Theorem stored_score_roundtrip z m sc :
  zset_scores_normal z -> alookup m (zdict z) = Some sc -> parse_score (score_to_bytes sc) = Some sc.
Proof. intros N H. apply score_print_parse. exact (N m sc H). Qed.

(* ZRANGE ... WITHSCORES: the reply is member, printed score, member, printed score ... over a list
   of (member, score) pairs each of which is a dictionary entry, and each printed score parses back
   to exactly that stored score *)
Theorem zrange_withscores_reparse d name k a b optl o z s e :
  get_zset d k = ZFound z -> zset_inv z -> zset_scores_normal z ->
  atoi64 a = Some s -> atoi64 b = Some e ->
  zrange_opts optl ropts0 = ROk o -> r_bylex o = false -> r_limit o = false -> r_ws o = true ->
  exists W : list (bytes * score),
    exec_zrange d (name :: k :: a :: b :: optl) =
      (RArr (flat_map (fun p => [RBulk (fst p); RBulk (score_to_bytes (snd p))]) W), d) /\
    Forall (fun p => alookup (fst p) (zdict z) = Some (snd p) /\
                     parse_score (score_to_bytes (snd p)) = Some (snd p)) W.
Proof.
  intros G I N Ha Hb Ho Hlex Hlim Hws.
  rewrite (exec_zrange_index d name k a b optl o z s e G I Ha Hb Ho Hlex Hlim). rewrite Hws.
  eexists. split; [reflexivity|].
  apply Forall_forall. intros [m sc] Hin. apply In_zwindow in Hin.
  assert (Hm : In (m, sc) (members (zroot z))).
  { destruct (r_rev o); [apply in_rev in Hin|]; exact Hin. }
  apply (zset_inv_dict_members z m sc I) in Hm. cbn [fst snd]. split; [exact Hm|].
  eapply stored_score_roundtrip; eassumption.
Qed.

(* ZADD ... INCR: the bulk it replies parses back to the score the member now carries *)
Theorem zadd_incr_reply_reparse o a sc m a' :
  snormal sc -> zset_scores_normal (a_z a) -> zadd_step o a (sc, m) = Some a' -> a' <> a ->
  exists new, a_incr a' = Some new /\ alookup m (zdict (a_z a')) = Some new /\
              parse_score (score_to_bytes new) = Some new.
Proof.
  intros Ns Na H Hne. pose proof (zadd_step_normal _ _ _ _ _ Ns Na H) as N'.
  destruct (zadd_step_spec _ _ _ _ _ H) as [_ [->|(new & _ & Hi & Hd)]]; [congruence|].
  exists new. repeat split; try assumption. eapply stored_score_roundtrip; eassumption.
Qed.
