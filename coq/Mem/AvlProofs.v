(* Proofs about the AVL model (Mem/Avl.v).  Scores are used through [score_cmp] only, via the four
   order lemmas of the first section, so everything below holds for every score (both infinities
   included) and would hold for any other decidable total order. *)
Require Import Base.Bytes Base.GoInt Base.Reply Mem.Types Mem.Inv Mem.Avl.
From Coq Require Import Sorting.Sorted Permutation.
Local Open Scope Z_scope.

(* ================================================================== order of scores *)
Lemma pow10_pos e : 0 < pow10 e.
Proof. unfold pow10. apply Z.pow_pos_nonneg; lia. Qed.

Lemma score_cmp_refl a : score_cmp a a = Eq.
Proof.
  destruct a as [|m e|]; cbn; try reflexivity.
  rewrite Z.compare_refl. apply N.compare_refl.
Qed.

Lemma score_cmp_eq a b : score_cmp a b = Eq -> a = b.
Proof.
  destruct a as [|m1 e1|], b as [|m2 e2|]; cbn; try discriminate; try reflexivity.
  destruct (Z.compare_spec (m1 * pow10 e2) (m2 * pow10 e1)) as [E|L|G]; try discriminate.
  intros H. apply N.compare_eq in H. subst e2.
  pose proof (pow10_pos e1) as P.
  apply Z.mul_cancel_r in E; [subst; reflexivity|lia].
Qed.

Lemma score_cmp_antisym a b : score_cmp b a = CompOpp (score_cmp a b).
Proof.
  destruct a as [|m1 e1|], b as [|m2 e2|]; cbn; try reflexivity.
  rewrite (Z.compare_antisym (m1 * pow10 e2) (m2 * pow10 e1)).
  destruct (m1 * pow10 e2 ?= m2 * pow10 e1); cbn; try reflexivity.
  apply N.compare_antisym.
Qed.

Lemma cross_lt a b c p1 p2 p3 :
  0 < p1 -> 0 < p2 -> 0 < p3 -> a * p2 < b * p1 -> b * p3 <= c * p2 -> a * p3 < c * p1.
Proof.
  intros H1 H2 H3 L1 L2.
  apply (Z.mul_lt_mono_pos_r p2); [exact H2|].
  apply Z.lt_le_trans with (b * p1 * p3).
  - replace (a * p3 * p2) with (a * p2 * p3) by ring. apply Z.mul_lt_mono_pos_r; assumption.
  - replace (b * p1 * p3) with (b * p3 * p1) by ring.
    replace (c * p1 * p2) with (c * p2 * p1) by ring. apply Z.mul_le_mono_pos_r; assumption.
Qed.

Lemma cross_le_lt a b c p1 p2 p3 :
  0 < p1 -> 0 < p2 -> 0 < p3 -> a * p2 <= b * p1 -> b * p3 < c * p2 -> a * p3 < c * p1.
Proof.
  intros H1 H2 H3 L1 L2.
  apply (Z.mul_lt_mono_pos_r p2); [exact H2|].
  apply Z.le_lt_trans with (b * p1 * p3).
  - replace (a * p3 * p2) with (a * p2 * p3) by ring. apply Z.mul_le_mono_pos_r; assumption.
  - replace (b * p1 * p3) with (b * p3 * p1) by ring.
    replace (c * p1 * p2) with (c * p2 * p1) by ring. apply Z.mul_lt_mono_pos_r; assumption.
Qed.

Lemma cross_eq a b c p1 p2 p3 :
  0 < p2 -> a * p2 = b * p1 -> b * p3 = c * p2 -> a * p3 = c * p1.
Proof.
  intros H2 E1 E2.
  apply (Z.mul_cancel_r _ _ p2); [lia|].
  replace (a * p3 * p2) with (a * p2 * p3) by ring. rewrite E1.
  replace (b * p1 * p3) with (b * p3 * p1) by ring. rewrite E2. ring.
Qed.

Lemma sfin_lt_iff m1 e1 m2 e2 :
  score_cmp (SFin m1 e1) (SFin m2 e2) = Lt <->
  m1 * pow10 e2 < m2 * pow10 e1 \/ (m1 * pow10 e2 = m2 * pow10 e1 /\ (e1 < e2)%N).
Proof.
  cbn. destruct (Z.compare_spec (m1 * pow10 e2) (m2 * pow10 e1)) as [E|L|G].
  - rewrite N.compare_lt_iff. split; [intros H; right; split; assumption|].
    intros [H|[_ H]]; [lia|exact H].
  - split; [intros _; left; exact L|reflexivity].
  - split; [discriminate|intros [H|[H _]]; lia].
Qed.

Lemma score_cmp_lt_trans a b c :
  score_cmp a b = Lt -> score_cmp b c = Lt -> score_cmp a c = Lt.
Proof.
  destruct a as [|m1 e1|], b as [|m2 e2|], c as [|m3 e3|];
    try (cbn; intros; (discriminate || reflexivity)).
  rewrite !sfin_lt_iff.
  pose proof (pow10_pos e1) as P1. pose proof (pow10_pos e2) as P2. pose proof (pow10_pos e3) as P3.
  intros [L1|[E1 N1]] [L2|[E2 N2]].
  - left. apply (cross_lt m1 m2 m3 (pow10 e1) (pow10 e2) (pow10 e3)); try assumption; lia.
  - left. apply (cross_lt m1 m2 m3 (pow10 e1) (pow10 e2) (pow10 e3)); try assumption; lia.
  - left. apply (cross_le_lt m1 m2 m3 (pow10 e1) (pow10 e2) (pow10 e3)); try assumption; lia.
  - right. split; [apply (cross_eq m1 m2 m3 (pow10 e1) (pow10 e2) (pow10 e3)); assumption|lia].
Qed.

(* the strict order, its negations, and the boolean tests *)
Definition slt (a b : score) : Prop := score_cmp a b = Lt.

Lemma slt_irrefl a : ~ slt a a.
Proof. unfold slt. rewrite score_cmp_refl. discriminate. Qed.

Lemma slt_trans a b c : slt a b -> slt b c -> slt a c.
Proof. apply score_cmp_lt_trans. Qed.

Lemma score_cmp_gt_lt a b : score_cmp a b = Gt <-> slt b a.
Proof.
  unfold slt. rewrite (score_cmp_antisym a b). destruct (score_cmp a b); cbn; split; congruence.
Qed.

Lemma slt_asym a b : slt a b -> ~ slt b a.
Proof. intros H1 H2. apply (slt_irrefl a). eapply slt_trans; eassumption. Qed.

Lemma slt_neq a b : slt a b -> a <> b.
Proof. intros H ->. eapply slt_irrefl; exact H. Qed.

Inductive cmp_spec (a b : score) : comparison -> Prop :=
| CmpEq : a = b -> cmp_spec a b Eq
| CmpLt : slt a b -> cmp_spec a b Lt
| CmpGt : slt b a -> cmp_spec a b Gt.

Lemma score_cmp_spec a b : cmp_spec a b (score_cmp a b).
Proof.
  destruct (score_cmp a b) eqn:E; constructor.
  - apply score_cmp_eq; exact E.
  - exact E.
  - apply score_cmp_gt_lt; exact E.
Qed.

Lemma score_eqb_eq a b : score_eqb a b = true <-> a = b.
Proof.
  unfold score_eqb. destruct (score_cmp_spec a b) as [E|L|G]; split; try congruence; intros H.
  - subst. exfalso. eapply slt_irrefl; exact L.
  - subst. exfalso. eapply slt_irrefl; exact G.
Qed.

Lemma score_ltb_lt a b : score_ltb a b = true <-> slt a b.
Proof. unfold score_ltb, slt. destruct (score_cmp a b); split; congruence. Qed.

Lemma score_leb_nlt a b : score_leb a b = true <-> ~ slt b a.
Proof.
  unfold score_leb. destruct (score_cmp_spec a b) as [E|L|G].
  - subst. split; [intros _; apply slt_irrefl|reflexivity].
  - split; [intros _; apply slt_asym; exact L|reflexivity].
  - split; [discriminate|intros H; contradiction].
Qed.

Lemma score_eq_dec (a b : score) : {a = b} + {a <> b}.
Proof.
  destruct (score_cmp a b) eqn:E.
  - left. apply score_cmp_eq; exact E.
  - right. apply slt_neq. exact E.
  - right. apply score_cmp_gt_lt in E. intros ->. eapply slt_irrefl; exact E.
Qed.

(* ================================================================== order of members *)
Definition blt (a b : bytes) : Prop := bytes_cmp a b = Lt.

Lemma bytes_cmp_refl a : bytes_cmp a a = Eq.
Proof. induction a as [|x a IH]; cbn; [reflexivity|]. rewrite N.compare_refl. exact IH. Qed.

Lemma bytes_cmp_eq a b : bytes_cmp a b = Eq -> a = b.
Proof.
  revert b. induction a as [|x a IH]; intros [|y b]; cbn; try discriminate; try reflexivity.
  destruct (N.compare_spec (bval x) (bval y)) as [E|L|G]; try discriminate.
  intros H. apply bval_inj in E. apply IH in H. congruence.
Qed.

Lemma bytes_cmp_antisym a b : bytes_cmp b a = CompOpp (bytes_cmp a b).
Proof.
  revert b. induction a as [|x a IH]; intros [|y b]; cbn; try reflexivity.
  rewrite (N.compare_antisym (bval x) (bval y)).
  destruct (bval x ?= bval y)%N; cbn; try reflexivity. apply IH.
Qed.

Lemma blt_trans a b c : blt a b -> blt b c -> blt a c.
Proof.
  unfold blt. revert b c. induction a as [|x a IH]; intros [|y b] [|z c]; cbn; try discriminate; try reflexivity.
  destruct (N.compare_spec (bval x) (bval y)) as [E1|L1|G1]; try discriminate;
    destruct (N.compare_spec (bval y) (bval z)) as [E2|L2|G2]; try discriminate; intros H1 H2.
  - rewrite E1, E2, N.compare_refl. eapply IH; eassumption.
  - rewrite E1. apply N.compare_lt_iff in L2. rewrite L2. reflexivity.
  - rewrite <- E2. apply N.compare_lt_iff in L1. rewrite L1. reflexivity.
  - assert (L : (bval x < bval z)%N) by lia. apply N.compare_lt_iff in L. rewrite L. reflexivity.
Qed.

Lemma blt_irrefl a : ~ blt a a.
Proof. unfold blt. rewrite bytes_cmp_refl. discriminate. Qed.

Lemma bytes_cmp_gt_lt a b : bytes_cmp a b = Gt <-> blt b a.
Proof.
  unfold blt. rewrite (bytes_cmp_antisym a b). destruct (bytes_cmp a b); cbn; split; congruence.
Qed.

(* ================================================================== heights, balance *)
(* the AVL condition in terms of the stored heights: every stored height is 1 + the larger of the
   children's stored heights, and the children's stored heights differ by at most one *)
Fixpoint avl (t : tree) : Prop :=
  match t with
  | Leaf => True
  | Node l _ _ h r =>
    avl l /\ avl r /\ h = Z.max (ht l) (ht r) + 1 /\ -1 <= ht l - ht r <= 1
  end.

(* the real height *)
Fixpoint height (t : tree) : Z :=
  match t with
  | Leaf => 0
  | Node l _ _ _ r => Z.max (height l) (height r) + 1
  end.

(* what the property asks for, in terms of real heights *)
Fixpoint stored_ok (t : tree) : Prop :=
  match t with
  | Leaf => True
  | Node l _ _ h r => stored_ok l /\ stored_ok r /\ h = height t
  end.

Fixpoint balanced (t : tree) : Prop :=
  match t with
  | Leaf => True
  | Node l _ _ _ r => balanced l /\ balanced r /\ -1 <= height l - height r <= 1
  end.

Lemma avl_ht_height t : avl t -> ht t = height t.
Proof.
  induction t as [|l IHl sc ns h r IHr]; cbn; [reflexivity|].
  intros (Al & Ar & Eh & _). rewrite <- IHl, <- IHr by assumption. exact Eh.
Qed.

Lemma avl_stored_balanced t : avl t <-> stored_ok t /\ balanced t.
Proof.
  induction t as [|l IHl sc ns h r IHr]; cbn; [tauto|].
  split.
  - intros (Al & Ar & Eh & Hb).
    pose proof (avl_ht_height l Al) as El. pose proof (avl_ht_height r Ar) as Er.
    apply IHl in Al. apply IHr in Ar. rewrite El, Er in *. tauto.
  - intros ((Sl & Sr & Eh) & (Bl & Br & Hb)).
    assert (Al : avl l) by (apply IHl; tauto). assert (Ar : avl r) by (apply IHr; tauto).
    pose proof (avl_ht_height l Al) as El. pose proof (avl_ht_height r Ar) as Er.
    rewrite El, Er. tauto.
Qed.

Lemma height_nonneg t : 0 <= height t.
Proof. induction t; cbn; lia. Qed.

Lemma avl_ht_nonneg t : avl t -> 0 <= ht t.
Proof. intros A. rewrite avl_ht_height by exact A. apply height_nonneg. Qed.

Lemma avl_node_pos l sc ns h r : avl (Node l sc ns h r) -> 1 <= h.
Proof.
  intros A. pose proof (avl_ht_height _ A) as E. cbn [ht] in E. rewrite E. cbn.
  pose proof (height_nonneg l). pose proof (height_nonneg r). lia.
Qed.

Lemma ht_mk l sc ns r : ht (mk l sc ns r) = Z.max (ht l) (ht r) + 1.
Proof. reflexivity. Qed.

Lemma avl_mk l sc ns r : avl l -> avl r -> -1 <= ht l - ht r <= 1 -> avl (mk l sc ns r).
Proof. intros; cbn; tauto. Qed.

(* rebalance of a node whose (AVL) children differ in height by at most two *)
Lemma rebalance_avl l sc ns h r :
  avl l -> avl r -> -2 <= ht l - ht r <= 2 ->
  avl (rebalance (Node l sc ns h r)) /\
  Z.max (ht l) (ht r) <= ht (rebalance (Node l sc ns h r)) <= Z.max (ht l) (ht r) + 1 /\
  (-1 <= ht l - ht r <= 1 -> ht (rebalance (Node l sc ns h r)) = Z.max (ht l) (ht r) + 1).
Proof.
  intros Al Ar Hd. unfold rebalance.
  pose proof (avl_ht_nonneg l Al) as Nl. pose proof (avl_ht_nonneg r Ar) as Nr.
  destruct (Z.gtb_spec (ht l - ht r) 1) as [B1|B1].
  - (* left-heavy *)
    destruct l as [|ll lsc lns lh lr]; [cbn [ht] in *; lia|].
    cbn [avl] in Al. destruct Al as (All & Alr & Elh & Blh).
    pose proof (avl_ht_nonneg ll All) as Nll. pose proof (avl_ht_nonneg lr Alr) as Nlr.
    cbn [ht] in *. cbn [balance].
    destruct (Z.geb_spec (ht ll - ht lr) 0) as [B2|B2].
    + cbv [rot_right rot_left mk]. cbn [avl ht]. repeat split; try assumption; lia.
    + destruct lr as [|lrl lrsc lrns lrh lrr]; [cbn [ht] in *; lia|].
      cbn [avl] in Alr. destruct Alr as (Alrl & Alrr & Elrh & Blrh).
      pose proof (avl_ht_nonneg lrl Alrl). pose proof (avl_ht_nonneg lrr Alrr).
      cbn [ht] in *. cbv [rot_right rot_left mk]. cbn [avl ht]. repeat split; try assumption; lia.
  - destruct (Z.ltb_spec (ht l - ht r) (-1)) as [B3|B3].
    + (* right-heavy *)
      destruct r as [|rl rsc rns rh rr]; [cbn [ht] in *; lia|].
      cbn [avl] in Ar. destruct Ar as (Arl & Arr & Erh & Brh).
      pose proof (avl_ht_nonneg rl Arl) as Nrl. pose proof (avl_ht_nonneg rr Arr) as Nrr.
      cbn [ht] in *. cbn [balance].
      destruct (Z.leb_spec (ht rl - ht rr) 0) as [B2|B2].
      * cbv [rot_right rot_left mk]. cbn [avl ht]. repeat split; try assumption; lia.
      * destruct rl as [|rll rlsc rlns rlh rlr]; [cbn [ht] in *; lia|].
        cbn [avl] in Arl. destruct Arl as (Arll & Arlr & Erlh & Brlh).
        pose proof (avl_ht_nonneg rll Arll). pose proof (avl_ht_nonneg rlr Arlr).
        cbn [ht] in *. cbv [rot_right rot_left mk]. cbn [avl ht]. repeat split; try assumption; lia.
    + cbv [mk]. cbn [avl ht]. repeat split; try assumption; lia.
Qed.

Lemma score_eqb_spec a b : reflect (a = b) (score_eqb a b).
Proof.
  destruct (score_eqb a b) eqn:E; constructor.
  - apply score_eqb_eq; exact E.
  - intros H. apply score_eqb_eq in H. congruence.
Qed.

Ltac slt_contra :=
  exfalso;
  match goal with
  | H : slt ?a ?a |- _ => exact (slt_irrefl a H)
  | H1 : slt ?a ?b, H2 : slt ?b ?a |- _ => exact (slt_irrefl a (slt_trans a b a H1 H2))
  | H1 : slt ?a ?b, H2 : slt ?b ?c, H3 : slt ?c ?a |- _ =>
    exact (slt_irrefl a (slt_trans _ _ _ H1 (slt_trans _ _ _ H2 H3)))
  end.

(* ================================================================== contents as a sorted list *)
Definition entry := (score * list bytes)%type.

Lemma elems_mk l sc ns r : elems (mk l sc ns r) = elems l ++ (sc, ns) :: elems r.
Proof. reflexivity. Qed.

Lemma elems_rot_right t : elems (rot_right t) = elems t.
Proof.
  destruct t as [|[|ll lsc lns lh lr] sc ns h r]; try reflexivity.
  cbn. rewrite <- app_assoc. reflexivity.
Qed.

Lemma elems_rot_left t : elems (rot_left t) = elems t.
Proof.
  destruct t as [|l sc ns h [|rl rsc rns rh rr]]; try reflexivity.
  cbn. rewrite <- app_assoc. reflexivity.
Qed.

Lemma elems_rebalance t : elems (rebalance t) = elems t.
Proof.
  destruct t as [|l sc ns h r]; [reflexivity|]. unfold rebalance.
  destruct (ht l - ht r >? 1).
  - destruct (balance l >=? 0); rewrite elems_rot_right, elems_mk; [reflexivity|].
    rewrite elems_rot_left. reflexivity.
  - destruct (ht l - ht r <? -1).
    + destruct (balance r <=? 0); rewrite elems_rot_left, elems_mk; [reflexivity|].
      rewrite elems_rot_right. reflexivity.
    + reflexivity.
Qed.

Definition sorted (es : list entry) : Prop := StronglySorted (fun a b => slt (fst a) (fst b)) es.
Definition all_lt (sc : score) (es : list entry) : Prop := Forall (fun e => slt (fst e) sc) es.
Definition all_gt (sc : score) (es : list entry) : Prop := Forall (fun e => slt sc (fst e)) es.
Definition bst (t : tree) : Prop := sorted (elems t).

Lemma all_lt_trans s sc es : all_lt s es -> slt s sc -> all_lt sc es.
Proof. intros H L. eapply Forall_impl; [|exact H]. cbn. intros e He. eapply slt_trans; eassumption. Qed.

Lemma all_gt_trans s sc es : all_gt s es -> slt sc s -> all_gt sc es.
Proof. intros H L. eapply Forall_impl; [|exact H]. cbn. intros e He. eapply slt_trans; eassumption. Qed.

Lemma sorted_cons_inv x es : sorted (x :: es) -> sorted es /\ all_gt (fst x) es.
Proof. intros H. apply StronglySorted_inv in H. exact H. Qed.

Lemma sorted_cons x es : sorted es -> all_gt (fst x) es -> sorted (x :: es).
Proof. intros H1 H2. constructor; assumption. Qed.

Lemma sorted_app_inv l1 x l2 :
  sorted (l1 ++ x :: l2) -> sorted l1 /\ sorted l2 /\ all_lt (fst x) l1 /\ all_gt (fst x) l2.
Proof.
  induction l1 as [|y l1 IH]; cbn; intros H.
  - apply sorted_cons_inv in H as [H1 H2]. repeat split; try assumption; constructor.
  - apply sorted_cons_inv in H as [H1 H2]. destruct (IH H1) as (S1 & S2 & L & G).
    unfold all_gt in H2. rewrite Forall_app in H2. destruct H2 as [H2a H2b].
    apply Forall_inv in H2b as Hx.
    repeat split; try assumption.
    + apply sorted_cons; assumption.
    + constructor; assumption.
Qed.

Lemma sorted_app_intro l1 x l2 :
  sorted l1 -> sorted l2 -> all_lt (fst x) l1 -> all_gt (fst x) l2 -> sorted (l1 ++ x :: l2).
Proof.
  induction l1 as [|y l1 IH]; cbn; intros S1 S2 L G.
  - apply sorted_cons; assumption.
  - apply sorted_cons_inv in S1 as [S1 G1]. apply Forall_cons_iff in L as [Ly L].
    apply sorted_cons; [apply IH; assumption|].
    unfold all_gt. rewrite Forall_app. split; [exact G1|].
    constructor; [exact Ly|]. eapply all_gt_trans; eassumption.
Qed.

Lemma bst_node_inv l sc ns h r :
  bst (Node l sc ns h r) -> bst l /\ bst r /\ all_lt sc (elems l) /\ all_gt sc (elems r).
Proof. unfold bst. cbn [elems]. intros H. apply sorted_app_inv in H. exact H. Qed.

(* ---- the list as a finite map from scores to names ---- *)
Fixpoint lfind (sc : score) (es : list entry) : option (list bytes) :=
  match es with
  | [] => None
  | (s, ns) :: r => if score_eqb s sc then Some ns else lfind sc r
  end.

(* change what is stored under sc: f maps the old names (None: absent) to the new ones *)
Fixpoint lalter (sc : score) (f : option (list bytes) -> option (list bytes)) (es : list entry)
  : list entry :=
  match es with
  | [] => match f None with Some ns' => [(sc, ns')] | None => [] end
  | (s, ns) :: r =>
    match score_cmp s sc with
    | Lt => (s, ns) :: lalter sc f r
    | Eq => match f (Some ns) with Some ns' => (s, ns') :: r | None => r end
    | Gt => match f None with Some ns' => (sc, ns') :: es | None => es end
    end
  end.

Lemma lfind_app sc l1 l2 :
  lfind sc (l1 ++ l2) = match lfind sc l1 with Some ns => Some ns | None => lfind sc l2 end.
Proof.
  induction l1 as [|[s ns] l1 IH]; cbn; [reflexivity|].
  destruct (score_eqb s sc); [reflexivity|exact IH].
Qed.

Lemma lfind_all_lt sc es : all_lt sc es -> lfind sc es = None.
Proof.
  induction es as [|[s ns] r IH]; cbn; intros H; [reflexivity|].
  apply Forall_cons_iff in H as [H1 H2]. cbn in H1.
  destruct (score_eqb_spec s sc) as [->|N]; [slt_contra|]. apply IH; exact H2.
Qed.

Lemma lfind_all_gt sc es : all_gt sc es -> lfind sc es = None.
Proof.
  induction es as [|[s ns] r IH]; cbn; intros H; [reflexivity|].
  apply Forall_cons_iff in H as [H1 H2]. cbn in H1.
  destruct (score_eqb_spec s sc) as [->|N]; [slt_contra|]. apply IH; exact H2.
Qed.

Lemma lfind_In sc ns es : lfind sc es = Some ns -> In (sc, ns) es.
Proof.
  induction es as [|[s ns0] r IH]; cbn; [discriminate|].
  destruct (score_eqb_spec s sc) as [->|N]; intros H.
  - inversion H; subst. left; reflexivity.
  - right. apply IH; exact H.
Qed.

Lemma In_lfind sc ns es : sorted es -> In (sc, ns) es -> lfind sc es = Some ns.
Proof.
  induction es as [|[s ns0] r IH]; cbn; intros S H; [contradiction|].
  apply sorted_cons_inv in S as [S G]. cbn in G.
  destruct H as [H|H].
  - inversion H; subst. destruct (score_eqb_spec sc sc); [reflexivity|congruence].
  - destruct (score_eqb_spec s sc) as [->|N]; [|apply IH; assumption].
    exfalso. unfold all_gt in G. rewrite Forall_forall in G. apply G in H. cbn in H.
    eapply slt_irrefl; exact H.
Qed.

Lemma lalter_app_lt sc f l1 l2 :
  all_lt sc l1 -> lalter sc f (l1 ++ l2) = l1 ++ lalter sc f l2.
Proof.
  induction l1 as [|[s ns] l1 IH]; cbn; intros H; [reflexivity|].
  apply Forall_cons_iff in H as [H1 H2]. cbn in H1. unfold slt in H1. rewrite H1.
  f_equal. apply IH; exact H2.
Qed.

Lemma lalter_app_gt sc f l1 x l2 :
  slt sc (fst x) -> lalter sc f (l1 ++ x :: l2) = lalter sc f l1 ++ x :: l2.
Proof.
  intros Hx. induction l1 as [|[s ns] l1 IH]; cbn.
  - destruct x as [s ns]. cbn in Hx. apply score_cmp_gt_lt in Hx. rewrite Hx.
    destruct (f None); reflexivity.
  - destruct (score_cmp s sc).
    + destruct (f (Some ns)); reflexivity.
    + rewrite IH. reflexivity.
    + destruct (f None); reflexivity.
Qed.

Lemma lalter_fst (Q : score -> Prop) sc f es :
  Forall (fun e => Q (fst e)) es -> Q sc -> Forall (fun e => Q (fst e)) (lalter sc f es).
Proof.
  intros H Hq. induction es as [|[s ns] r IH]; cbn.
  - destruct (f None); constructor; [exact Hq|constructor].
  - apply Forall_cons_iff in H as [H1 H2]. destruct (score_cmp s sc).
    + destruct (f (Some ns)); [constructor; assumption|exact H2].
    + constructor; [exact H1|apply IH; exact H2].
    + destruct (f None); [constructor; [exact Hq|]|]; constructor; assumption.
Qed.

Lemma sorted_lalter sc f es : sorted es -> sorted (lalter sc f es).
Proof.
  induction es as [|[s ns] r IH]; cbn; intros S.
  - destruct (f None); repeat constructor.
  - apply sorted_cons_inv in S as [S G]. cbn in G.
    destruct (score_cmp_spec s sc) as [->|L|L].
    + destruct (f (Some ns)); [apply sorted_cons; assumption|exact S].
    + apply sorted_cons; [apply IH; exact S|]. cbn.
      apply (lalter_fst (fun x => slt s x)); assumption.
    + destruct (f None); [|apply sorted_cons; assumption].
      apply sorted_cons; [apply sorted_cons; assumption|].
      constructor; [exact L|]. eapply all_gt_trans; eassumption.
Qed.

(* the finite-map law of lalter *)
Lemma lfind_lalter s sc f es :
  sorted es ->
  lfind s (lalter sc f es) = if score_eqb s sc then f (lfind sc es) else lfind s es.
Proof.
  induction es as [|[s0 ns0] r IH]; intros S.
  - cbn. destruct (f None) eqn:F; cbn.
    + destruct (score_eqb_spec sc s) as [E1|N1], (score_eqb_spec s sc) as [E2|N2]; congruence.
    + destruct (score_eqb s sc); reflexivity.
  - apply sorted_cons_inv in S as [S G]. cbn in G. cbn [lalter].
    destruct (score_cmp_spec s0 sc) as [->|L|L].
    + (* the entry of sc *)
      cbn [lfind]. destruct (score_eqb_spec sc sc) as [_|N]; [|congruence].
      destruct (f (Some ns0)) eqn:F; cbn [lfind].
      * destruct (score_eqb_spec sc s) as [E1|N1], (score_eqb_spec s sc) as [E2|N2]; congruence.
      * destruct (score_eqb_spec s sc) as [->|N'].
        -- apply lfind_all_gt; exact G.
        -- destruct (score_eqb_spec sc s); congruence.
    + cbn [lfind]. specialize (IH S).
      destruct (score_eqb_spec s0 sc) as [->|N0]; [slt_contra|].
      destruct (score_eqb_spec s0 s) as [->|N1].
      * destruct (score_eqb_spec s sc); congruence.
      * exact IH.
    + cbn [lfind].
      destruct (score_eqb_spec s0 sc) as [E0|N0]; [subst; slt_contra|].
      assert (Fr : lfind sc r = None) by (apply lfind_all_gt; eapply all_gt_trans; eassumption).
      rewrite Fr.
      destruct (f None) eqn:F.
      * cbn [lfind].
        destruct (score_eqb_spec sc s) as [E1|N1], (score_eqb_spec s sc) as [E2|N2]; congruence.
      * destruct (score_eqb_spec s sc) as [E2|N2]; [|reflexivity]. subst s.
        cbn [lfind]. destruct (score_eqb_spec s0 sc); [congruence|exact Fr].
Qed.

Lemma length_lalter sc f es :
  sorted es ->
  zlength (lalter sc f es) =
  zlength es + match lfind sc es, f (lfind sc es) with
               | None, Some _ => 1
               | Some _, None => -1
               | _, _ => 0
               end.
Proof.
  unfold zlength. induction es as [|[s ns] r IH]; intros S.
  - cbn. destruct (f None); cbn; lia.
  - apply sorted_cons_inv in S as [S G]. cbn in G. cbn [lalter lfind].
    destruct (score_cmp_spec s sc) as [->|L|L].
    + destruct (score_eqb_spec sc sc) as [_|N]; [|congruence].
      destruct (f (Some ns)); cbn [List.length]; lia.
    + destruct (score_eqb_spec s sc) as [->|N]; [slt_contra|].
      specialize (IH S). cbn [List.length]. lia.
    + destruct (score_eqb_spec s sc) as [->|N]; [slt_contra|].
      rewrite (lfind_all_gt sc r) by (eapply all_gt_trans; eassumption).
      destruct (f None); cbn [List.length]; lia.
Qed.

(* ================================================================== the tree implements the map *)
Definition f_ins (m : bytes) (o : option (list bytes)) : option (list bytes) :=
  Some (match o with None => [m] | Some ns => names_add m ns end).
Definition f_del (o : option (list bytes)) : option (list bytes) := None.
Definition f_delname (m : bytes) (o : option (list bytes)) : option (list bytes) :=
  match o with None => None | Some ns => Some (names_del m ns) end.

Lemma find_node_elems sc t : bst t -> find_node sc t = lfind sc (elems t).
Proof.
  induction t as [|l IHl s ns h r IHr]; intros B; [reflexivity|].
  apply bst_node_inv in B as (Bl & Br & L & G). cbn [find_node elems].
  rewrite lfind_app. cbn [lfind].
  destruct (score_cmp_spec sc s) as [->|C|C].
  - rewrite (lfind_all_lt s (elems l)) by exact L.
    destruct (score_eqb_spec s s); [reflexivity|congruence].
  - rewrite IHl by exact Bl. destruct (lfind sc (elems l)); [reflexivity|].
    destruct (score_eqb_spec s sc) as [->|N]; [slt_contra|].
    symmetry. apply lfind_all_gt. eapply all_gt_trans; eassumption.
  - rewrite (lfind_all_lt sc (elems l)) by (eapply all_lt_trans; eassumption).
    destruct (score_eqb_spec s sc) as [->|N]; [slt_contra|]. apply IHr; exact Br.
Qed.

Lemma insert_elems sc m t : bst t -> elems (insert sc m t) = lalter sc (f_ins m) (elems t).
Proof.
  induction t as [|l IHl s ns h r IHr]; intros B; [reflexivity|].
  apply bst_node_inv in B as (Bl & Br & L & G). cbn [insert elems].
  destruct (score_cmp_spec s sc) as [->|C|C].
  - cbn [elems]. rewrite lalter_app_lt by exact L. cbn [lalter].
    rewrite score_cmp_refl. reflexivity.
  - rewrite elems_rebalance. cbn [elems]. rewrite IHr by exact Br.
    rewrite lalter_app_lt by (eapply all_lt_trans; eassumption). cbn [lalter].
    unfold slt in C. rewrite C. reflexivity.
  - rewrite elems_rebalance. cbn [elems]. rewrite IHl by exact Bl.
    rewrite lalter_app_gt by exact C. reflexivity.
Qed.

Lemma remove_name_elems sc m t :
  bst t -> elems (remove_name sc m t) = lalter sc (f_delname m) (elems t).
Proof.
  induction t as [|l IHl s ns h r IHr]; intros B; [reflexivity|].
  apply bst_node_inv in B as (Bl & Br & L & G). cbn [remove_name elems].
  destruct (score_cmp_spec sc s) as [->|C|C]; cbn [elems].
  - rewrite lalter_app_lt by exact L. cbn [lalter]. rewrite score_cmp_refl. reflexivity.
  - rewrite IHl by exact Bl. rewrite lalter_app_gt by exact C. reflexivity.
  - rewrite IHr by exact Br. rewrite lalter_app_lt by (eapply all_lt_trans; eassumption).
    cbn [lalter]. unfold slt in C. rewrite C. reflexivity.
Qed.

Lemma min_elt_elems r d : r <> Leaf -> exists rest, elems r = min_elt r d :: rest.
Proof.
  revert d. induction r as [|l IHl s ns h rr _]; intros d N; [congruence|].
  cbn [min_elt elems]. destruct l as [|ll ls lns lh lr].
  - exists (elems rr). reflexivity.
  - destruct (IHl (s, ns)) as [rest E]; [discriminate|].
    rewrite E. exists (rest ++ (s, ns) :: elems rr). reflexivity.
Qed.

Lemma delete_node_elems sc t : bst t -> elems (delete_node sc t) = lalter sc f_del (elems t).
Proof.
  revert sc. induction t as [|l IHl s ns h r IHr]; intros sc B; [reflexivity|].
  apply bst_node_inv in B as (Bl & Br & L & G). cbn [delete_node elems].
  destruct (score_cmp_spec sc s) as [->|C|C].
  - (* this node goes *)
    rewrite lalter_app_lt by exact L. cbn [lalter]. rewrite score_cmp_refl. cbn [f_del].
    destruct l as [|ll ls lns lh lr]; [reflexivity|].
    destruct r as [|rl rs rns rh rr]; [cbn [elems]; rewrite app_nil_r; reflexivity|].
    destruct (min_elt_elems (Node rl rs rns rh rr) (s, ns)) as [rest E]; [discriminate|].
    destruct (min_elt (Node rl rs rns rh rr) (s, ns)) as [ms mns] eqn:M.
    rewrite elems_rebalance. cbn [elems] in *.
    rewrite IHr by exact Br. rewrite E. cbn [lalter]. rewrite score_cmp_refl. reflexivity.
  - rewrite elems_rebalance. cbn [elems]. rewrite IHl by exact Bl.
    rewrite lalter_app_gt by exact C. reflexivity.
  - rewrite elems_rebalance. cbn [elems]. rewrite IHr by exact Br.
    rewrite lalter_app_lt by (eapply all_lt_trans; eassumption). cbn [lalter].
    unfold slt in C. rewrite C. reflexivity.
Qed.

(* ---- balance is kept ---- *)
Lemma insert_avl sc m t :
  avl t -> avl (insert sc m t) /\ ht t <= ht (insert sc m t) <= ht t + 1.
Proof.
  induction t as [|l IHl s ns h r IHr]; intros A.
  - cbn. repeat split; lia.
  - cbn [avl] in A. destruct A as (Al & Ar & Eh & Hb). cbn [insert].
    destruct (score_cmp s sc).
    + cbn [avl ht]. repeat split; try assumption; lia.
    + destruct (IHr Ar) as (Ar' & Hr').
      destruct (rebalance_avl l s ns h (insert sc m r) Al Ar' ltac:(lia)) as (A' & H1 & H2).
      split; [exact A'|]. cbn [ht]. subst h.
      destruct (Z_le_gt_dec (ht l - ht (insert sc m r)) 1) as [Q|Q];
        [destruct (Z_le_gt_dec (-1) (ht l - ht (insert sc m r))) as [Q'|Q']; [rewrite H2 by lia|]|]; lia.
    + destruct (IHl Al) as (Al' & Hl').
      destruct (rebalance_avl (insert sc m l) s ns h r Al' Ar ltac:(lia)) as (A' & H1 & H2).
      split; [exact A'|]. cbn [ht]. subst h.
      destruct (Z_le_gt_dec (ht (insert sc m l) - ht r) 1) as [Q|Q];
        [destruct (Z_le_gt_dec (-1) (ht (insert sc m l) - ht r)) as [Q'|Q']; [rewrite H2 by lia|]|]; lia.
Qed.

Lemma delete_node_avl sc t :
  avl t -> avl (delete_node sc t) /\ ht t - 1 <= ht (delete_node sc t) <= ht t.
Proof.
  revert sc. induction t as [|l IHl s ns h r IHr]; intros sc A.
  - cbn. repeat split; lia.
  - pose proof (avl_node_pos _ _ _ _ _ A) as Hpos.
    cbn [avl] in A. destruct A as (Al & Ar & Eh & Hb). cbn [delete_node].
    pose proof (avl_ht_nonneg l Al) as Nl. pose proof (avl_ht_nonneg r Ar) as Nr.
    destruct (score_cmp sc s).
    + destruct l as [|ll ls lns lh lr].
      { split; [exact Ar|]. cbn [ht] in *. lia. }
      destruct r as [|rl rs rns rh rr].
      { split; [exact Al|]. cbn [ht] in *. lia. }
      destruct (min_elt (Node rl rs rns rh rr) (s, ns)) as [ms mns].
      destruct (IHr ms Ar) as (Ar' & Hr').
      destruct (rebalance_avl (Node ll ls lns lh lr) ms mns h (delete_node ms (Node rl rs rns rh rr)) Al Ar' ltac:(lia))
        as (A' & H1 & H2).
      split; [exact A'|]. cbn [ht] in *. subst h.
      destruct (Z_le_gt_dec (lh - ht (delete_node ms (Node rl rs rns rh rr))) 1) as [Q|Q];
        [destruct (Z_le_gt_dec (-1) (lh - ht (delete_node ms (Node rl rs rns rh rr)))) as [Q'|Q']; [rewrite H2 by lia|]|]; lia.
    + destruct (IHl sc Al) as (Al' & Hl').
      destruct (rebalance_avl (delete_node sc l) s ns h r Al' Ar ltac:(lia)) as (A' & H1 & H2).
      split; [exact A'|]. cbn [ht]. subst h.
      destruct (Z_le_gt_dec (ht (delete_node sc l) - ht r) 1) as [Q|Q];
        [destruct (Z_le_gt_dec (-1) (ht (delete_node sc l) - ht r)) as [Q'|Q']; [rewrite H2 by lia|]|]; lia.
    + destruct (IHr sc Ar) as (Ar' & Hr').
      destruct (rebalance_avl l s ns h (delete_node sc r) Al Ar' ltac:(lia)) as (A' & H1 & H2).
      split; [exact A'|]. cbn [ht]. subst h.
      destruct (Z_le_gt_dec (ht l - ht (delete_node sc r)) 1) as [Q|Q];
        [destruct (Z_le_gt_dec (-1) (ht l - ht (delete_node sc r))) as [Q'|Q']; [rewrite H2 by lia|]|]; lia.
Qed.

Lemma remove_name_shape sc m t :
  ht (remove_name sc m t) = ht t /\ (avl t -> avl (remove_name sc m t)).
Proof.
  induction t as [|l [IHl1 IHl2] s ns h r [IHr1 IHr2]]; [cbn; tauto|].
  cbn [remove_name]. destruct (score_cmp sc s); cbn [ht avl]; (split; [reflexivity|]);
    intros (Al & Ar & Eh & Hb); rewrite ?IHl1, ?IHr1; tauto.
Qed.

(* ================================================================== the names of one node *)
Definition names_sorted (ns : list bytes) : Prop := StronglySorted blt ns.

Lemma In_names_add x m ns : In x (names_add m ns) <-> x = m \/ In x ns.
Proof.
  induction ns as [|y r IH]; cbn.
  - split; [intros [H|[]]; left; congruence|intros [H|[]]; left; congruence].
  - destruct (bytes_cmp m y) eqn:C.
    + apply bytes_cmp_eq in C. subst y. cbn. split; [tauto|]. intros [->|H]; [left; reflexivity|exact H].
    + cbn. split; [intros [H|H]; [left; congruence|right; exact H]|intros [H|H]; [left; congruence|right; exact H]].
    + cbn. rewrite IH. tauto.
Qed.

Lemma names_add_sorted m ns : names_sorted ns -> names_sorted (names_add m ns).
Proof.
  unfold names_sorted. induction ns as [|y r IH]; cbn; intros S.
  - repeat constructor.
  - apply StronglySorted_inv in S as [S F]. destruct (bytes_cmp m y) eqn:C.
    + constructor; assumption.
    + constructor; [constructor; assumption|]. constructor; [exact C|].
      eapply Forall_impl; [|exact F]. intros a Ha. eapply blt_trans; [exact C|exact Ha].
    + constructor; [apply IH; exact S|].
      apply Forall_forall. intros a Ha. apply In_names_add in Ha as [->|Ha].
      * apply bytes_cmp_gt_lt. exact C.
      * rewrite Forall_forall in F. apply F. exact Ha.
Qed.

Lemma names_add_nonempty m ns : names_add m ns <> [].
Proof. destruct ns as [|y r]; cbn; [discriminate|]. destruct (bytes_cmp m y); discriminate. Qed.

Lemma names_sorted_notin y r : names_sorted (y :: r) -> ~ In y r.
Proof.
  intros S H. apply StronglySorted_inv in S as [_ F]. rewrite Forall_forall in F.
  apply F in H. eapply blt_irrefl; exact H.
Qed.

Lemma names_sorted_NoDup ns : names_sorted ns -> NoDup ns.
Proof.
  induction ns as [|y r IH]; intros S; constructor.
  - apply names_sorted_notin; exact S.
  - apply IH. apply StronglySorted_inv in S. tauto.
Qed.

Lemma In_names_del x m ns : names_sorted ns -> (In x (names_del m ns) <-> In x ns /\ x <> m).
Proof.
  induction ns as [|y r IH]; cbn; intros S; [tauto|].
  pose proof (names_sorted_notin _ _ S) as Ny.
  apply StronglySorted_inv in S as [S F].
  destruct (bytes_eqb_spec m y) as [->|N].
  - split.
    + intros H. split; [right; exact H|]. intros ->. contradiction.
    + intros [[H|H] Hn]; [congruence|exact H].
  - cbn. rewrite IH by exact S. split.
    + intros [H|H]; [split; [left; exact H|congruence]|tauto].
    + intros [[H|H] Hn]; [left; exact H|right; tauto].
Qed.

Lemma names_del_sorted m ns : names_sorted ns -> names_sorted (names_del m ns).
Proof.
  unfold names_sorted. induction ns as [|y r IH]; cbn; intros S; [constructor|].
  pose proof S as S0. apply StronglySorted_inv in S as [S F].
  destruct (bytes_eqb m y); [exact S|].
  constructor; [apply IH; exact S|].
  apply Forall_forall. intros a Ha. apply In_names_del in Ha as [Ha _]; [|exact S].
  rewrite Forall_forall in F. apply F; exact Ha.
Qed.

Lemma names_del_length m ns : In m ns -> zlength (names_del m ns) = zlength ns - 1.
Proof.
  unfold zlength. induction ns as [|y r IH]; cbn [names_del In]; [contradiction|].
  destruct (bytes_eqb_spec m y) as [->|N]; intros H.
  - cbn [List.length]. lia.
  - destruct H as [H|H]; [congruence|]. cbn [List.length]. rewrite Nat2Z.inj_succ, IH by exact H.
    cbn [List.length]. lia.
Qed.

Lemma index_of_split m ns :
  In m ns -> exists n1 n2, ns = n1 ++ m :: n2 /\ index_of m ns = zlength n1.
Proof.
  unfold zlength. induction ns as [|y r IH]; cbn [index_of In]; [contradiction|].
  destruct (bytes_eqb_spec m y) as [->|N]; intros H.
  - exists [], r. split; reflexivity.
  - destruct H as [H|H]; [congruence|]. destruct (IH H) as (n1 & n2 & E & I).
    exists (y :: n1), n2. split; [rewrite E; reflexivity|]. rewrite I. cbn [List.length]. lia.
Qed.

(* ================================================================== members in order *)
Definition elt := (bytes * score)%type.

(* the order of ZRANGE: by score, members of one score by name *)
Definition elt_lt (a b : elt) : Prop :=
  slt (snd a) (snd b) \/ (snd a = snd b /\ blt (fst a) (fst b)).

Lemma flat_cons e es : flat (e :: es) = flat_entry e ++ flat es.
Proof. reflexivity. Qed.

Lemma flat_app l1 l2 : flat (l1 ++ l2) = flat l1 ++ flat l2.
Proof. unfold flat. apply flat_map_app. Qed.

Lemma In_flat m sc es : In (m, sc) (flat es) <-> exists ns, In (sc, ns) es /\ In m ns.
Proof.
  unfold flat. rewrite in_flat_map. split.
  - intros ([s ns] & H1 & H2). unfold flat_entry in H2. cbn in H2.
    apply in_map_iff in H2 as (n & E & Hn). inversion E; subst. exists ns. split; assumption.
  - intros (ns & H1 & H2). exists (sc, ns). split; [exact H1|].
    unfold flat_entry. cbn. apply in_map_iff. exists m. split; [reflexivity|exact H2].
Qed.

Lemma zlength_app {A} (l1 l2 : list A) : zlength (l1 ++ l2) = zlength l1 + zlength l2.
Proof. unfold zlength. rewrite app_length. lia. Qed.

Lemma zlength_flat_entry e : zlength (flat_entry e) = zlength (snd e).
Proof. unfold zlength, flat_entry. rewrite map_length. reflexivity. Qed.

Lemma zlength_nonneg {A} (l : list A) : 0 <= zlength l.
Proof. unfold zlength. lia. Qed.

Lemma StronglySorted_app {A} (R : A -> A -> Prop) l1 l2 :
  StronglySorted R l1 -> StronglySorted R l2 -> (forall a b, In a l1 -> In b l2 -> R a b) ->
  StronglySorted R (l1 ++ l2).
Proof.
  induction l1 as [|x l1 IH]; cbn; intros S1 S2 H; [exact S2|].
  apply StronglySorted_inv in S1 as [S1 F]. constructor.
  - apply IH; [exact S1|exact S2|]. intros a b Ha Hb. apply H; [right; exact Ha|exact Hb].
  - rewrite Forall_app. split; [exact F|]. apply Forall_forall. intros b Hb. apply H; [left; reflexivity|exact Hb].
Qed.

Lemma flat_entry_sorted s ns : names_sorted ns -> StronglySorted elt_lt (flat_entry (s, ns)).
Proof.
  unfold flat_entry, names_sorted. cbn. induction ns as [|y r IH]; cbn; intros S; [constructor|].
  apply StronglySorted_inv in S as [S F]. constructor; [apply IH; exact S|].
  apply Forall_forall. intros [n s'] Hn. apply in_map_iff in Hn as (n0 & E & Hn0). inversion E; subst.
  right. cbn. split; [reflexivity|]. rewrite Forall_forall in F. apply F; exact Hn0.
Qed.

Definition names_ok (es : list entry) : Prop :=
  Forall (fun e => snd e <> [] /\ names_sorted (snd e)) es.

Lemma flat_sorted es : sorted es -> names_ok es -> StronglySorted elt_lt (flat es).
Proof.
  induction es as [|[s ns] r IH]; intros S N; [constructor|].
  apply sorted_cons_inv in S as [S G]. apply Forall_cons_iff in N as [[_ N1] N2]. cbn in N1, G.
  rewrite flat_cons. apply StronglySorted_app.
  - apply flat_entry_sorted; exact N1.
  - apply IH; assumption.
  - intros [m1 s1] [m2 s2] H1 H2. unfold flat_entry in H1. cbn in H1.
    apply in_map_iff in H1 as (n & E & _). inversion E; subst.
    apply In_flat in H2 as (ns2 & H2 & _). left. cbn.
    unfold all_gt in G. rewrite Forall_forall in G. apply (G _ H2).
Qed.

Lemma elt_lt_irrefl a : ~ elt_lt a a.
Proof. intros [H|[_ H]]; [eapply slt_irrefl; exact H|eapply blt_irrefl; exact H]. Qed.

Lemma StronglySorted_NoDup {A} (R : A -> A -> Prop) l :
  (forall a, ~ R a a) -> StronglySorted R l -> NoDup l.
Proof.
  intros Irr. induction l as [|x l IH]; intros S; constructor.
  - apply StronglySorted_inv in S as [_ F]. intros H. rewrite Forall_forall in F. apply (Irr x). apply F; exact H.
  - apply IH. apply StronglySorted_inv in S. tauto.
Qed.

Lemma NoDup_map_fst {A C} (l : list (A * C)) :
  NoDup l -> (forall a b1 b2, In (a, b1) l -> In (a, b2) l -> b1 = b2) -> NoDup (map fst l).
Proof.
  induction l as [|[a b] l IH]; cbn; intros ND F; constructor.
  - intros H. apply in_map_iff in H as ([a' b'] & E & H). cbn in E. subst a'.
    assert (b = b') by (apply (F a); [left; reflexivity|right; exact H]). subst b'.
    inversion ND; subst. contradiction.
  - inversion ND; subst. apply IH; [assumption|]. intros a0 b1 b2 Q1 Q2. apply (F a0); right; assumption.
Qed.

(* ---- rank ---- *)
Fixpoint lrank (sc : score) (es : list entry) : Z :=
  match es with
  | [] => 0
  | (s, ns) :: r => (if score_ltb s sc then zlength ns else 0) + lrank sc r
  end.

Lemma lrank_app sc l1 l2 : lrank sc (l1 ++ l2) = lrank sc l1 + lrank sc l2.
Proof. induction l1 as [|[s ns] r IH]; cbn; [reflexivity|]. rewrite IH. lia. Qed.

Lemma lrank_all_lt sc es : all_lt sc es -> lrank sc es = zlength (flat es).
Proof.
  induction es as [|[s ns] r IH]; intros H; [reflexivity|].
  apply Forall_cons_iff in H as [H1 H2]. cbn in H1. cbn [lrank].
  apply score_ltb_lt in H1. rewrite H1, IH by exact H2.
  rewrite flat_cons, zlength_app, zlength_flat_entry. reflexivity.
Qed.

Lemma lrank_none sc es : Forall (fun e => ~ slt (fst e) sc) es -> lrank sc es = 0.
Proof.
  induction es as [|[s ns] r IH]; intros H; [reflexivity|].
  apply Forall_cons_iff in H as [H1 H2]. cbn in H1. cbn [lrank].
  destruct (score_ltb s sc) eqn:E; [apply score_ltb_lt in E; contradiction|].
  rewrite IH by exact H2. reflexivity.
Qed.

Lemma count_elems t : count t = zlength (flat (elems t)).
Proof.
  induction t as [|l IHl s ns h r IHr]; [reflexivity|].
  cbn [count elems]. rewrite flat_app, flat_cons, !zlength_app, zlength_flat_entry, IHl, IHr. cbn. lia.
Qed.

Lemma rank_elems t sc : bst t -> rank t sc = lrank sc (elems t).
Proof.
  induction t as [|l IHl s ns h r IHr]; intros B; [reflexivity|].
  apply bst_node_inv in B as (Bl & Br & L & G). cbn [rank elems].
  rewrite lrank_app. cbn [lrank].
  destruct (score_ltb s sc) eqn:E.
  - apply score_ltb_lt in E. rewrite IHr by exact Br.
    rewrite (lrank_all_lt sc (elems l)) by (eapply all_lt_trans; eassumption).
    rewrite count_elems. lia.
  - rewrite IHl by exact Bl. rewrite (lrank_none sc (elems r)); [lia|].
    eapply Forall_impl; [|exact G]. cbn. intros e He Hlt.
    assert (slt s sc) by (eapply slt_trans; eassumption).
    apply score_ltb_lt in H. congruence.
Qed.

(* the rank computed by the tree is the number of members listed before (m, sc) *)
Lemma rank_position es sc ns m :
  sorted es -> In (sc, ns) es -> In m ns ->
  exists pre post, flat es = pre ++ (m, sc) :: post /\ lrank sc es + index_of m ns = zlength pre.
Proof.
  intros S Hin Hm.
  apply in_split in Hin as (l1 & l2 & E). subst es.
  apply sorted_app_inv in S as (_ & _ & L & G). cbn [fst] in L, G.
  destruct (index_of_split m ns Hm) as (n1 & n2 & En & Ei).
  exists (flat l1 ++ map (fun n => (n, sc)) n1), (map (fun n => (n, sc)) n2 ++ flat l2).
  split.
  - rewrite flat_app, flat_cons. unfold flat_entry. cbn [fst snd]. rewrite En, map_app. cbn [map].
    rewrite <- !app_assoc. reflexivity.
  - rewrite lrank_app. cbn [lrank].
    rewrite (lrank_all_lt sc l1) by exact L.
    destruct (score_ltb sc sc) eqn:Q; [apply score_ltb_lt in Q; exfalso; eapply slt_irrefl; exact Q|].
    rewrite (lrank_none sc l2).
    + rewrite zlength_app, Ei. unfold zlength. rewrite map_length. lia.
    + eapply Forall_impl; [|exact G]. cbn. intros e He. apply slt_asym; exact He.
Qed.

(* ================================================================== the invariant of Btree *)
Definition member_of (es : list entry) (m : bytes) (sc : score) : Prop :=
  exists ns, lfind sc es = Some ns /\ In m ns.

(* Appendix A.2: BST strictly ordered by score; stored heights are the real heights and the
   tree is height-balanced ([avl], see avl_stored_balanced); every node holds at least one name,
   names of a node without repetition (sorted); len is the number of nodes; dict has no
   duplicate key and maps m to sc exactly when m is one of the names of the node of score sc
   (so no name occurs in two nodes). *)
Definition zset_inv (z : zset) : Prop :=
  avl (zroot z) /\ sorted (elems (zroot z)) /\ names_ok (elems (zroot z)) /\
  zlen z = zlength (elems (zroot z)) /\
  NoDup (akeys (zdict z)) /\
  (forall m sc, alookup m (zdict z) = Some sc <-> member_of (elems (zroot z)) m sc).

Lemma zset_inv_empty : zset_inv empty_zset.
Proof.
  unfold zset_inv, empty_zset, member_of. cbn. repeat split; try constructor.
  - discriminate.
  - intros (ns & H & _). discriminate.
Qed.

Lemma names_ok_lalter sc f es :
  sorted es -> names_ok es ->
  (forall ns', f None = Some ns' -> ns' <> [] /\ names_sorted ns') ->
  (forall ns ns', lfind sc es = Some ns -> ns <> [] /\ names_sorted ns -> f (Some ns) = Some ns' ->
                  ns' <> [] /\ names_sorted ns') ->
  names_ok (lalter sc f es).
Proof.
  unfold names_ok. induction es as [|[s ns] r IH]; intros S N F0 F1; cbn [lalter].
  - destruct (f None) eqn:E; constructor; [apply F0; reflexivity|constructor].
  - apply sorted_cons_inv in S as [S G]. apply Forall_cons_iff in N as [N1 N2]. cbn [snd] in N1.
    destruct (score_cmp_spec s sc) as [->|L|L].
    + destruct (f (Some ns)) eqn:E; [|exact N2]. constructor; [|exact N2]. cbn [snd].
      apply (F1 ns); [|exact N1|exact E]. cbn [lfind].
      destruct (score_eqb_spec sc sc); [reflexivity|congruence].
    + constructor; [exact N1|]. apply IH; try assumption.
      intros ns0 ns' H. apply F1. cbn [lfind].
      destruct (score_eqb_spec s sc) as [->|Q]; [slt_contra|exact H].
    + destruct (f None) eqn:E; [constructor; [apply F0; reflexivity|]|]; constructor; assumption.
Qed.

Lemma member_of_fun_dict z m sc1 sc2 :
  zset_inv z -> member_of (elems (zroot z)) m sc1 -> member_of (elems (zroot z)) m sc2 -> sc1 = sc2.
Proof.
  intros (_ & _ & _ & _ & _ & D) H1 H2. apply D in H1, H2. congruence.
Qed.

Lemma names_ok_lfind es sc ns : names_ok es -> lfind sc es = Some ns -> ns <> [] /\ names_sorted ns.
Proof.
  intros N H. apply lfind_In in H. unfold names_ok in N. rewrite Forall_forall in N.
  apply (N _ H).
Qed.

(* ---- Insert ---- *)
Lemma bt_insert_inv z sc m :
  zset_inv z -> alookup m (zdict z) = None -> zset_inv (bt_insert z sc m).
Proof.
  intros (A & S & N & Ln & ND & D) Hm. unfold bt_insert, zset_inv. cbn [zroot zlen zdict].
  assert (E : elems (insert sc m (zroot z)) = lalter sc (f_ins m) (elems (zroot z)))
    by (apply insert_elems; exact S).
  rewrite E. repeat split.
  - apply insert_avl; exact A.
  - apply sorted_lalter; exact S.
  - apply names_ok_lalter; try assumption.
    + intros ns' H. inversion H; subst. split; [discriminate|repeat constructor].
    + intros ns ns' _ [_ Hs] H. inversion H; subst. split; [apply names_add_nonempty|apply names_add_sorted; exact Hs].
  - rewrite length_lalter by exact S. rewrite (find_node_elems sc (zroot z) S).
    unfold f_ins, entry in *. destruct (lfind sc (elems (zroot z))); lia.
  - apply NoDup_aset; exact ND.
  - (* dict -> tree *)
    unfold member_of. rewrite lfind_lalter by exact S.
    destruct (bytes_eq_dec m0 m) as [->|Nm].
    + rewrite alookup_aset_same. intros H. inversion H; subst sc0.
      destruct (score_eqb_spec sc sc); [|congruence].
      eexists. split; [reflexivity|]. destruct (lfind sc (elems (zroot z))); [apply In_names_add; left; reflexivity|left; reflexivity].
    + rewrite alookup_aset_other by exact Nm. intros H. apply D in H as (ns & H1 & H2).
      destruct (score_eqb_spec sc0 sc) as [->|Ns].
      * rewrite H1. eexists. split; [reflexivity|]. apply In_names_add. right; exact H2.
      * exists ns. split; assumption.
  - (* tree -> dict *)
    unfold member_of. rewrite lfind_lalter by exact S. intros (ns & H1 & H2).
    destruct (bytes_eq_dec m0 m) as [->|Nm].
    + rewrite alookup_aset_same. destruct (score_eqb_spec sc0 sc) as [->|Ns]; [reflexivity|].
      exfalso. assert (Q : alookup m (zdict z) = Some sc0) by (apply D; exists ns; split; assumption).
      congruence.
    + rewrite alookup_aset_other by exact Nm. apply D.
      destruct (score_eqb_spec sc0 sc) as [->|Ns]; [|exists ns; split; assumption].
      unfold f_ins in H1. inversion H1; subst ns. clear H1.
      destruct (lfind sc (elems (zroot z))) as [ns0|] eqn:F.
      * apply In_names_add in H2 as [->|H2]; [congruence|]. exists ns0. split; [exact F|exact H2].
      * destruct H2 as [H2|[]]. congruence.
Qed.

Lemma bt_insert_dict z sc m m' :
  alookup m' (zdict (bt_insert z sc m)) = if bytes_eqb m' m then Some sc else alookup m' (zdict z).
Proof.
  unfold bt_insert. cbn [zdict]. destruct (bytes_eqb_spec m' m) as [->|N].
  - apply alookup_aset_same.
  - apply alookup_aset_other; exact N.
Qed.

(* ---- Delete ---- *)
Lemma bt_delete_inv z m z' :
  zset_inv z -> bt_delete z m = Some z' -> zset_inv z'.
Proof.
  intros (A & S & N & Ln & ND & D). unfold bt_delete.
  destruct (alookup m (zdict z)) as [sc|] eqn:Hm; [|discriminate].
  pose proof Hm as Hmem. apply D in Hmem as (ns & Hf & Hin).
  rewrite (find_node_elems sc (zroot z) S), Hf.
  destruct (names_ok_lfind _ _ _ N Hf) as [Nne Nso].
  destruct (Z.ltb_spec 1 (zlength ns)) as [Big|Small]; intros Ez; inversion Ez; subst z'; clear Ez;
    unfold zset_inv; cbn [zroot zlen zdict].
  - (* the node keeps other members *)
    assert (E : elems (remove_name sc m (zroot z)) = lalter sc (f_delname m) (elems (zroot z)))
      by (apply remove_name_elems; exact S).
    rewrite E. repeat split.
    + apply remove_name_shape; exact A.
    + apply sorted_lalter; exact S.
    + apply names_ok_lalter; try assumption; [discriminate|].
      intros ns0 ns' H0 [_ Hs] H. rewrite Hf in H0. inversion H0; subst ns0. inversion H; subst ns'.
      split; [|apply names_del_sorted; exact Hs].
      intros Q. pose proof (names_del_length m ns Hin) as Hl. rewrite Q in Hl. cbn in Hl. lia.
    + rewrite length_lalter by exact S. rewrite Hf. unfold f_delname, entry in *. lia.
    + apply NoDup_aremove; exact ND.
    + unfold member_of. rewrite lfind_lalter by exact S.
      destruct (bytes_eq_dec m0 m) as [->|Nm]; [rewrite alookup_aremove_same; discriminate|].
      rewrite alookup_aremove_other by exact Nm. intros H. apply D in H as (ns1 & H1 & H2).
      destruct (score_eqb_spec sc0 sc) as [->|Ns]; [|exists ns1; split; assumption].
      rewrite Hf in *. inversion H1; subst ns1. eexists. split; [reflexivity|].
      apply In_names_del; [exact Nso|]. split; assumption.
    + unfold member_of. rewrite lfind_lalter by exact S. intros (ns1 & H1 & H2).
      destruct (score_eqb_spec sc0 sc) as [->|Ns].
      * rewrite Hf in H1. unfold f_delname in H1. inversion H1; subst ns1.
        apply In_names_del in H2 as [H2 Nm]; [|exact Nso].
        rewrite alookup_aremove_other by exact Nm. apply D. exists ns. split; assumption.
      * destruct (bytes_eq_dec m0 m) as [->|Nm].
        -- exfalso. assert (Q : alookup m (zdict z) = Some sc0) by (apply D; exists ns1; split; assumption).
           congruence.
        -- rewrite alookup_aremove_other by exact Nm. apply D. exists ns1. split; assumption.
  - (* the last member of its node: the node goes *)
    assert (Ens : ns = [m]).
    { destruct ns as [|x [|y r]]; [congruence| |unfold zlength in Small; cbn in Small; lia].
      destruct Hin as [->|[]]. reflexivity. }
    subst ns.
    assert (E : elems (delete_node sc (zroot z)) = lalter sc f_del (elems (zroot z)))
      by (apply delete_node_elems; exact S).
    rewrite E. repeat split.
    + apply delete_node_avl; exact A.
    + apply sorted_lalter; exact S.
    + apply names_ok_lalter; try assumption; discriminate.
    + rewrite length_lalter by exact S. rewrite Hf. unfold f_del, entry in *. lia.
    + apply NoDup_aremove; exact ND.
    + unfold member_of. rewrite lfind_lalter by exact S.
      destruct (bytes_eq_dec m0 m) as [->|Nm]; [rewrite alookup_aremove_same; discriminate|].
      rewrite alookup_aremove_other by exact Nm. intros H. apply D in H as (ns1 & H1 & H2).
      destruct (score_eqb_spec sc0 sc) as [->|Ns]; [|exists ns1; split; assumption].
      rewrite Hf in H1. inversion H1; subst ns1. destruct H2 as [H2|[]]. congruence.
    + unfold member_of. rewrite lfind_lalter by exact S. intros (ns1 & H1 & H2).
      destruct (score_eqb_spec sc0 sc) as [->|Ns]; [discriminate|].
      destruct (bytes_eq_dec m0 m) as [->|Nm].
      * exfalso. assert (Q : alookup m (zdict z) = Some sc0) by (apply D; exists ns1; split; assumption).
        congruence.
      * rewrite alookup_aremove_other by exact Nm. apply D. exists ns1. split; assumption.
Qed.

Lemma bt_delete_dict z m z' m' :
  bt_delete z m = Some z' ->
  alookup m' (zdict z') = if bytes_eqb m' m then None else alookup m' (zdict z).
Proof.
  unfold bt_delete. destruct (alookup m (zdict z)) as [sc|]; [|discriminate].
  intros H.
  assert (Ed : zdict z' = aremove m (zdict z)).
  { destruct (find_node sc (zroot z)); [destruct (1 <? zlength l)|]; inversion H; reflexivity. }
  rewrite Ed. destruct (bytes_eqb_spec m' m) as [->|N].
  - apply alookup_aremove_same.
  - apply alookup_aremove_other; exact N.
Qed.

Lemma bt_delete_some_iff z m : (exists z', bt_delete z m = Some z') <-> alookup m (zdict z) <> None.
Proof.
  unfold bt_delete. destruct (alookup m (zdict z)) as [sc|].
  - split; [discriminate|]. intros _.
    destruct (find_node sc (zroot z)); [destruct (1 <? zlength l)|]; eexists; reflexivity.
  - split; [intros [z' H]; discriminate|congruence].
Qed.

(* ---- what the invariant says, in the words of the property ---- *)
Lemma member_of_In es m sc : sorted es -> (member_of es m sc <-> In (m, sc) (flat es)).
Proof.
  intros S. unfold member_of. rewrite In_flat. split; intros (ns & H1 & H2); exists ns; split; try assumption.
  - apply lfind_In; exact H1.
  - apply In_lfind; assumption.
Qed.

Lemma zset_inv_dict_members z m sc :
  zset_inv z -> (alookup m (zdict z) = Some sc <-> In (m, sc) (members (zroot z))).
Proof.
  intros (A & S & N & Ln & ND & D). rewrite D. apply member_of_In; exact S.
Qed.

Lemma zset_inv_members_sorted z : zset_inv z -> StronglySorted elt_lt (members (zroot z)).
Proof. intros (A & S & N & _). apply flat_sorted; assumption. Qed.

Lemma zset_inv_members_NoDup z : zset_inv z -> NoDup (map fst (members (zroot z))).
Proof.
  intros I. apply NoDup_map_fst.
  - eapply StronglySorted_NoDup; [apply elt_lt_irrefl|apply zset_inv_members_sorted; exact I].
  - intros m s1 s2 H1 H2. apply (zset_inv_dict_members z m) in H1, H2; try exact I. congruence.
Qed.

Lemma zset_inv_dict_length z : zset_inv z -> zlength (zdict z) = zlength (members (zroot z)).
Proof.
  intros I. pose proof (zset_inv_members_NoDup z I) as ND2.
  destruct I as (A & S & N & Ln & ND & D).
  assert (P : Permutation (akeys (zdict z)) (map fst (members (zroot z)))).
  { apply NoDup_Permutation; [exact ND|exact ND2|]. intros m. split.
    - intros H. apply amem_true_iff in H. unfold amem in H.
      destruct (alookup m (zdict z)) as [sc|] eqn:E; [|discriminate].
      apply D in E. apply member_of_In in E; [|exact S].
      apply in_map_iff. exists (m, sc). split; [reflexivity|exact E].
    - intros H. apply in_map_iff in H as ([m' sc] & E & H). cbn in E. subst m'.
      apply member_of_In in H; [|exact S]. apply D in H. eapply alookup_Some_in; exact H. }
  apply Permutation_length in P. unfold akeys in P. rewrite !map_length in P.
  unfold zlength. rewrite P. reflexivity.
Qed.

(* ================================================================== the listing order is unique *)
Lemma elt_lt_trans a b c : elt_lt a b -> elt_lt b c -> elt_lt a c.
Proof.
  unfold elt_lt. intros [H1|[E1 H1]] [H2|[E2 H2]].
  - left. eapply slt_trans; eassumption.
  - left. rewrite <- E2. exact H1.
  - left. rewrite E1. exact H2.
  - right. split; [congruence|eapply blt_trans; eassumption].
Qed.

(* two strictly sorted lists with the same elements are the same list *)
Lemma sorted_unique {A} (R : A -> A -> Prop) (l1 l2 : list A) :
  (forall a, ~ R a a) -> (forall a b c, R a b -> R b c -> R a c) ->
  StronglySorted R l1 -> StronglySorted R l2 -> (forall x, In x l1 <-> In x l2) -> l1 = l2.
Proof.
  intros Irr Tr. revert l2. induction l1 as [|x1 r1 IH]; intros l2 S1 S2 Same.
  - destruct l2 as [|x2 r2]; [reflexivity|]. exfalso. apply (Same x2). left; reflexivity.
  - destruct l2 as [|x2 r2]; [exfalso; apply (Same x1); left; reflexivity|].
    apply StronglySorted_inv in S1 as [S1 F1]. apply StronglySorted_inv in S2 as [S2 F2].
    rewrite Forall_forall in F1, F2.
    assert (E : x1 = x2).
    { assert (H1 : In x1 (x2 :: r2)) by (apply Same; left; reflexivity).
      assert (H2 : In x2 (x1 :: r1)) by (apply Same; left; reflexivity).
      destruct H1 as [H1|H1]; [congruence|]. destruct H2 as [H2|H2]; [congruence|].
      exfalso. apply (Irr x1). eapply Tr; [apply F1; exact H2|apply F2; exact H1]. }
    subst x2. f_equal. apply IH; try assumption.
    intros x. split; intros H.
    + assert (Q : In x (x1 :: r2)) by (apply Same; right; exact H).
      destruct Q as [Q|Q]; [|exact Q]. subst x. exfalso. apply (Irr x1). apply F1; exact H.
    + assert (Q : In x (x1 :: r1)) by (apply Same; right; exact H).
      destruct Q as [Q|Q]; [|exact Q]. subst x. exfalso. apply (Irr x1). apply F2; exact H.
Qed.

(* the member list of a valid set is THE listing of its dictionary in (score, name) order *)
Lemma members_unique z (l : list elt) :
  zset_inv z -> StronglySorted elt_lt l ->
  (forall m sc, In (m, sc) l <-> alookup m (zdict z) = Some sc) -> l = members (zroot z).
Proof.
  intros I S H. apply (sorted_unique elt_lt); try assumption.
  - apply elt_lt_irrefl.
  - apply elt_lt_trans.
  - apply zset_inv_members_sorted; exact I.
  - intros [m sc]. rewrite H. apply zset_inv_dict_members; exact I.
Qed.

(* ================================================================== logarithmic height *)
Fixpoint nodes (t : tree) : Z :=
  match t with Leaf => 0 | Node l _ _ _ r => nodes l + nodes r + 1 end.

Lemma nodes_elems t : nodes t = zlength (elems t).
Proof.
  induction t as [|l IHl s ns h r IHr]; [reflexivity|].
  cbn [nodes elems]. rewrite zlength_app. unfold zlength in *. cbn [List.length]. lia.
Qed.

(* an AVL tree of (stored = real) height h has at least 2^(h/2) - 1 nodes: h <= 2*log2(n+1) + 1 *)
Lemma avl_height_log t : avl t -> 2 ^ (ht t / 2) <= nodes t + 1.
Proof.
  induction t as [|l IHl s ns h r IHr]; intros A.
  - cbn. lia.
  - pose proof (avl_node_pos _ _ _ _ _ A) as Hpos.
    cbn [avl] in A. destruct A as (Al & Ar & Eh & Hb).
    specialize (IHl Al). specialize (IHr Ar).
    pose proof (avl_ht_nonneg l Al) as Nl. pose proof (avl_ht_nonneg r Ar) as Nr.
    cbn [ht nodes].
    destruct (Z.eq_dec h 1) as [->|N1].
    + change (1 / 2) with 0. cbn.
      assert (0 <= nodes l) by (rewrite nodes_elems; apply zlength_nonneg).
      assert (0 <= nodes r) by (rewrite nodes_elems; apply zlength_nonneg). lia.
    + assert (E : h / 2 = (h - 2) / 2 + 1).
      { replace h with ((h - 2) + 1 * 2) at 1 by lia. rewrite Z.div_add by lia. reflexivity. }
      rewrite E, Z.pow_add_r by (try apply Z.div_pos; lia). change (2 ^ 1) with 2.
      assert (Ml : 2 ^ ((h - 2) / 2) <= 2 ^ (ht l / 2)).
      { apply Z.pow_le_mono_r; [lia|]. apply Z.div_le_mono; lia. }
      assert (Mr : 2 ^ ((h - 2) / 2) <= 2 ^ (ht r / 2)).
      { apply Z.pow_le_mono_r; [lia|]. apply Z.div_le_mono; lia. }
      lia.
Qed.
