(* A command that runs while other connections act (trace replayer for the harness directive
   BG): the foreground command of connection [conn] starts at [nowms]; [evs] are the commands
   other connections issue at the given virtual instants (chronological).  BLPOP/BRPOP block and
   poll every 100 ms ([Lists.block]); every other command finishes at once and the background
   commands simply follow. *)
Require Import Base.Bytes Base.GoInt Base.Reply Mem.Types Mem.Lists Mem.Exec Mem.Server.
Local Open Scope Z_scope.

Record bgev := mkBg { bg_conn : Z; bg_ms : Z; bg_args : list bytes; bg_hint : reply }.

Definition run_ev (e : bgev) (s : server) : reply * server :=
  srv_exec s (bg_conn e) (bg_ms e / 1000) (bg_ms e) (bg_args e) (bg_hint e).

Fixpoint run_evs (evs : list (Z * (server -> reply * server))) (s : server) : list reply * server :=
  match evs with
  | [] => ([], s)
  | (_, f) :: r => let '(o, s1) := f s in let '(os, s2) := run_evs r s1 in (o :: os, s2)
  end.

(* the polling round of a blocked pop on the database selected by [conn] *)
Definition srv_poll (left : bool) (keys : list bytes) (conn : Z) (s : server) (tms : Z)
  : option (reply * server) :=
  let i := sel_lookup conn (ssel s) in
  match nth_error (sdbs s) i with
  | None => None
  | Some d =>
    match bpop_poll left keys d tms with
    | Some (r, d') => Some (r, mkSrv (list_update (sdbs s) i d') (ssel s))
    | None => None
    end
  end.

Definition blocking_form (args : list bytes) : option (bool * list bytes * Z) :=
  match args with
  | [] => None
  | name :: _ =>
    let n := lower name in
    if is n (B "blpop") then
      match bpop_parse args with Some (keys, t) => Some (true, keys, t) | None => None end
    else if is n (B "brpop") then
      match bpop_parse args with Some (keys, t) => Some (false, keys, t) | None => None end
    else None
  end.

(* what the trace shows when the harness watchdog gave up on a command that was still blocked *)
Definition blocked_marker : reply := RPlain (B "BLOCKED").

(* foreground reply, replies of the background commands (in order), final server, instant at
   which the foreground command returned.  [wd_ms]: the harness cancels a command still blocked
   wd_ms after its start (BLPOP with timeout 0 and nothing to pop blocks for ever); the reply
   is then [blocked_marker].  wd_ms is not a multiple of 100, so it never coincides with a tick. *)
Definition srv_exec_bg (s : server) (conn : Z) (now nowms : Z) (args : list bytes) (hint : reply)
           (evs : list bgev) (wd_ms : Z) : reply * list reply * server * Z :=
  let acts := map (fun e => (bg_ms e, run_ev e)) evs in
  match blocking_form args with
  | Some (lft, keys, t) =>
    let cut := block_timer_ms t >? wd_ms in
    let '(res, tend, rest, s1, outs) :=
        if cut then block_n (srv_poll lft keys conn) nowms (Z.to_pos (wd_ms / 100)) wd_ms acts s
        else block (srv_poll lft keys conn) nowms t acts s in
    (* a command cancelled by the watchdog does one last polling round before it gives up; what it
       pops then is gone although the harness no longer looks at the reply *)
    let s1 := match res with
              | None => if cut then match srv_poll lft keys conn s1 tend with Some (_, s1') => s1' | None => s1 end else s1
              | Some _ => s1
              end in
    let '(outs2, s2) := run_evs rest s1 in
    (match res with Some r => r | None => if cut then blocked_marker else RNil end, outs ++ outs2, s2, tend)
  | None =>
    let '(r, s1) := srv_exec s conn now nowms args hint in
    let '(outs, s2) := run_evs acts s1 in
    (r, outs, s2, nowms)
  end.
