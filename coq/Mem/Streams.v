(* Stream commands (memdb/stream.go, memdb/stream_struct.go) over [list sentry], as the code
   stands after the fix commits of branch verif-stream.  A stream is the list of its entries in
   insertion order; an entry is an id (ms, seq), both components unsigned 64-bit, and the flat
   field/value list it was added with.  The caller (Exec.exec) has already removed every key
   whose deadline has passed.

   Deliberate differences from a Redis server, none of which the property speaks about:
   * there is no separate "last generated id": the top item is the last stored entry, so a
     stream emptied by MAXLEN 0 accepts any id > 0-0 again;
   * MAXLEN and MINID in the same command are refused (Redis lets the later one win);
   * the approximate form `~` trims exactly like `=` (the reference allows `~` to trim less);
     LIMIT n (n > 0), accepted only together with `~`, caps the number of evicted entries;
   * exclusive range bounds `(id` are not supported (error reply). *)
Require Import Base.Bytes Base.GoInt Base.Reply Mem.Types.
Local Open Scope Z_scope.

Definition u64max : Z := 18446744073709551615.          (* 2^64 - 1 *)

(* ---------- ids ---------- *)
Definition sid_lt (a b : sid) : bool :=
  (fst a <? fst b) || ((fst a =? fst b) && (snd a <? snd b)).
Definition sid_le (a b : sid) : bool := negb (sid_lt b a).

(* StreamID.Format: "%d-%d" *)
Definition fmt_id (i : sid) : bytes := z_to_dec (fst i) ++ "-"%byte :: z_to_dec (snd i).

(* strconv.ParseUint(s, 10, 64): one or more decimal digits, no sign, value below 2^64 *)
Definition parse_u64 (s : bytes) : option Z :=
  match parse_udec s with
  | Some n => if Z.of_N n <=? u64max then Some (Z.of_N n) else None
  | None => None
  end.

(* text before the first '-', and the text after it when there is one *)
Fixpoint split_dash (s : bytes) : bytes * option bytes :=
  match s with
  | [] => ([], None)
  | c :: r =>
    if beqb c "-"%byte then ([], Some r)
    else let '(a, b) := split_dash r in (c :: a, b)
  end.

(* StreamID.Parse(text, missingSeq): "ms-seq" or "ms" *)
Definition parse_id (s : bytes) (missing : Z) : option sid :=
  match split_dash s with
  | (a, None) => match parse_u64 a with Some ms => Some (ms, missing) | None => None end
  | (a, Some b) =>
    match parse_u64 a, parse_u64 b with
    | Some ms, Some sq => Some (ms, sq)
    | _, _ => None
    end
  end.

(* the id argument of XADD *)
Inductive idspec :=
| IdAuto                         (* "*"      *)
| IdAutoSeq (ms : Z)             (* "ms-*"   *)
| IdFull (i : sid).              (* "ms-seq", "ms" = "ms-0" *)

Definition parse_add_id (s : bytes) : option idspec :=
  if is s (B "*") then Some IdAuto
  else match split_dash s with
       | (a, Some b) =>
         if is b (B "*") then
           match parse_u64 a with Some ms => Some (IdAutoSeq ms) | None => None end
         else match parse_id s 0 with Some i => Some (IdFull i) | None => None end
       | _ => match parse_id s 0 with Some i => Some (IdFull i) | None => None end
       end.

(* the top item: id of the last entry, 0-0 for an empty stream *)
Definition last_id (x : list sentry) : sid := last (map fst x) (0, 0).

(* the id following [i] *)
Definition incr_id (i : sid) : option sid :=
  if snd i <? u64max then Some (fst i, snd i + 1)
  else if fst i <? u64max then Some (fst i + 1, 0)
  else None.

(* uint64(time.Now().UnixMilli()) *)
Definition clock_ms (nowms : Z) : Z := nowms mod (u64max + 1).

(* Stream.AddEntry: the id the new entry gets; None = refused *)
Definition new_id (spec : idspec) (nowms : Z) (top : sid) : option sid :=
  match spec with
  | IdAuto =>
    let ms := clock_ms nowms in
    if fst top <? ms then Some (ms, 0) else incr_id top
  | IdAutoSeq ms =>
    if fst top <? ms then Some (ms, 0)
    else if (ms =? fst top) && (snd top <? u64max) then Some (ms, snd top + 1)
    else None
  | IdFull i => if sid_lt top i then Some i else None
  end.

(* ---------- XADD options ---------- *)
Record xopts := mkX {
  x_nomk : bool;                 (* NOMKSTREAM *)
  x_maxlen : option Z;           (* MAXLEN threshold *)
  x_minid : option sid;          (* MINID threshold *)
  x_approx : bool;               (* the last MAXLEN/MINID carried `~` *)
  x_limit : option Z }.          (* LIMIT *)
Definition xopts0 := mkX false None None false None.

Inductive xparse :=
| XErr
| XOk (o : xopts) (spec : idspec) (fields : list bytes).

Definition is_mod (t : bytes) : bool := is t (B "~") || is t (B "=").

(* the option loop of xadd: walks the arguments after the key up to and including the id *)
Fixpoint xadd_parse (args : list bytes) (o : xopts) : xparse :=
  match args with
  | [] => XErr                                            (* ran out of arguments *)
  | a :: rest =>
    let la := lower a in
    if is la (B "nomkstream") then
      xadd_parse rest (mkX true (x_maxlen o) (x_minid o) (x_approx o) (x_limit o))
    else if is la (B "maxlen") then
      match rest with
      | [] => XErr
      | t :: r1 =>
        if is_mod t then
          match r1 with
          | [] => XErr
          | n :: r2 =>
            match atoi64 n with
            | Some v => if v <? 0 then XErr
                        else xadd_parse r2 (mkX (x_nomk o) (Some v) (x_minid o) (is t (B "~")) (x_limit o))
            | None => XErr
            end
          end
        else
          match atoi64 t with
          | Some v => if v <? 0 then XErr
                      else xadd_parse r1 (mkX (x_nomk o) (Some v) (x_minid o) false (x_limit o))
          | None => XErr
          end
      end
    else if is la (B "minid") then
      match rest with
      | [] => XErr
      | t :: r1 =>
        if is_mod t then
          match r1 with
          | [] => XErr
          | n :: r2 =>
            match parse_id n 0 with
            | Some th => xadd_parse r2 (mkX (x_nomk o) (x_maxlen o) (Some th) (is t (B "~")) (x_limit o))
            | None => XErr
            end
          end
        else
          match parse_id t 0 with
          | Some th => xadd_parse r1 (mkX (x_nomk o) (x_maxlen o) (Some th) false (x_limit o))
          | None => XErr
          end
      end
    else if is la (B "limit") then
      match rest with
      | [] => XErr
      | n :: r1 =>
        match atoi64 n with
        | Some v => if v <? 0 then XErr
                    else xadd_parse r1 (mkX (x_nomk o) (x_maxlen o) (x_minid o) (x_approx o) (Some v))
        | None => XErr
        end
      end
    else
      match parse_add_id a with
      | Some spec => XOk o spec rest
      | None => XErr
      end
  end.

Definition isSomeX {A} (o : option A) : bool := match o with Some _ => true | None => false end.

(* option combinations refused after the loop *)
Definition xadd_conflict (o : xopts) : bool :=
  (isSomeX (x_maxlen o) && isSomeX (x_minid o)) || (isSomeX (x_limit o) && negb (x_approx o)).

(* at least one field/value pair, and only whole pairs *)
Definition fields_ok (fields : list bytes) : bool :=
  (2 <=? zlength fields) && (zlength fields mod 2 =? 0).

(* ---------- trimming: only ever drops a prefix (the oldest entries) ---------- *)
(* LIMIT n > 0 caps the number of evictions *)
Definition cap_evict (o : xopts) (n : Z) : Z :=
  match x_limit o with
  | Some l => if (0 <? l) && (l <? n) then l else n
  | None => n
  end.

(* number of leading entries whose id is below [th] *)
Fixpoint count_below (th : sid) (x : list sentry) : Z :=
  match x with
  | [] => 0
  | e :: r => if sid_lt (fst e) th then 1 + count_below th r else 0
  end.

Definition drop_first (n : Z) (x : list sentry) : list sentry := skipn (Z.to_nat n) x.

Definition trim (o : xopts) (x : list sentry) : list sentry :=
  let x1 := match x_maxlen o with
            | Some n => if n <? zlength x then drop_first (cap_evict o (zlength x - n)) x else x
            | None => x
            end in
  match x_minid o with
  | Some th => drop_first (cap_evict o (count_below th x1)) x1
  | None => x1
  end.

(* ---------- lookup ---------- *)
Inductive lookup_stream := SMissing | SWrong | SFound (x : list sentry).
Definition get_stream (d : db) (k : bytes) : lookup_stream :=
  match db_get d k with
  | None => SMissing
  | Some (VStream x) => SFound x
  | Some _ => SWrong
  end.

(* ---------- XADD ---------- *)
Definition xadd_apply (d : db) (nowms : Z) (k : bytes) (o : xopts) (spec : idspec)
           (fields : list bytes) (x : list sentry) : reply * db :=
  match new_id spec nowms (last_id x) with
  | None => (err_other, d)                       (* not greater than the top item / ids exhausted *)
  | Some id => (RBulk (fmt_id id), db_set d k (VStream (trim o (x ++ [(id, fields)]))))
  end.

Definition is_zero_id (spec : idspec) : bool :=
  match spec with IdFull i => (fst i =? 0) && (snd i =? 0) | _ => false end.

Definition exec_xadd (d : db) (nowms : Z) (args : list bytes) : reply * db :=
  match args with
  | _ :: k :: rest =>
    if zlength args <? 5 then (err_other, d) else
    match xadd_parse rest xopts0 with
    | XErr => (err_other, d)
    | XOk o spec fields =>
      if xadd_conflict o || negb (fields_ok fields) || is_zero_id spec then (err_other, d)
      else
        match get_stream d k with
        | SMissing => if x_nomk o then (RNil, d) else xadd_apply d nowms k o spec fields []
        | SWrong => (err_wrongtype, d)
        | SFound x => xadd_apply d nowms k o spec fields x
        end
    end
  | _ => (err_other, d)
  end.

(* ---------- XRANGE ---------- *)
Definition parse_bound (s : bytes) (missing : Z) : option sid :=
  if is s (B "-") then Some (0, 0)
  else if is s (B "+") then Some (u64max, u64max)
  else parse_id s missing.

(* Stream.Range: one pass over the entries, oldest first; entries below [lo] are skipped, the
   scan stops at the first entry above [hi] *)
Fixpoint range_scan (lo hi : sid) (x : list sentry) : list sentry :=
  match x with
  | [] => []
  | e :: r =>
    if sid_lt hi (fst e) then []
    else if sid_lt (fst e) lo then range_scan lo hi r
    else e :: range_scan lo hi r
  end.

(* trailing arguments: COUNT n, repeatable (the last one wins); None = syntax error *)
Fixpoint parse_count (opts : list bytes) (acc : option Z) : option (option Z) :=
  match opts with
  | [] => Some acc
  | c :: n :: rest =>
    if is (lower c) (B "count") then
      match atoi64 n with
      | Some v => parse_count rest (Some (if v <? 0 then 0 else v))
      | None => None
      end
    else None
  | _ => None
  end.

Definition entry_reply (e : sentry) : reply :=
  RArr [RBulk (fmt_id (fst e)); RArr (map RBulk (snd e))].

Definition exec_xrange (d : db) (args : list bytes) : reply * db :=
  match args with
  | _ :: k :: s :: e :: opts =>
    match parse_bound s 0, parse_bound e u64max with
    | Some lo, Some hi =>
      match parse_count opts None with
      | None => (err_other, d)
      | Some cnt =>
        match get_stream d k with
        | SMissing => (RArr [], d)
        | SWrong => (err_wrongtype, d)
        | SFound x =>
          let sel := range_scan lo hi x in
          match cnt with
          | None => (RArr (map entry_reply sel), d)
          | Some c =>
            if c =? 0 then (RNilArr, d)
            else (RArr (map entry_reply (firstn (Z.to_nat (Z.min c (zlength sel))) sel)), d)
          end
        end
      end
    | _, _ => (err_other, d)
    end
  | _ => (err_other, d)
  end.

(* ---------- the family ---------- *)
Definition streams_dispatch (d : db) (now nowms : Z) (n : bytes) (args : list bytes) (hint : reply)
  : option (reply * db) :=
  if is n (B "xadd") then Some (exec_xadd d nowms args)
  else if is n (B "xrange") then Some (exec_xrange d args)
  else None.
