(* C01 -- reference specification of the string and generic key commands.

   The keyspace is seen semantically, as a FUNCTION from keys to what a client can observe of
   them: [kview := bytes -> option (value * option deadline)].  Nothing here refers to the
   association lists, the purge pass or the executors of the model (Mem/Strings.v): every
   command is one clause [ref_<cmd>] that says which reply the Redis command reference prescribes
   and what the view is afterwards, as a function of the view before.  Each clause carries, as a
   comment, the sentences of the command reference it encodes (transcribed from memory; there is
   no network here).  Mem/StringsProofs.v proves that the model's [exec] satisfies every clause
   for all argument byte strings and all well-formed databases.

   Conventions
   * [V] is the LIVE view at the clock [now] of the command (keys whose deadline has passed are
     absent); [V'] is the live view at the same clock after the command.
   * Views are compared pointwise ([veq]); no functional extensionality is used.
   * Error replies are specified by class only: [is_wrongtype r] (the message starts with
     WRONGTYPE) or [is_error r] (any other error).  Where two error conditions hold at once
     (e.g. a non-numeric offset AND a key of the wrong type) the reference does not fix which
     is reported: the clause then says [any_error].
   * Numeric arguments are read through a [reading] [rd : bytes -> option Z].  A reading is
     [admissible] when it accepts every canonical decimal of an int64 with its value, and accepts
     nothing but  sign? digit+  strings in the int64 range, with their value.  Borderline forms
     ("+5", "007", "-0": Redis rejects them, Go's strconv accepts them) may be read either way.
     The model reads with [atoi64] (strconv.ParseInt(s,10,64)): [atoi64_admissible] below, and
     the borderline forms ARE accepted by it ([atoi64_borderline]).
   * Deadlines are whole seconds ([now] is the unix clock in seconds), as this server keeps them. *)
Require Import Base.Bytes Base.GoInt Base.Reply Mem.Types Glob.GlobSpec.
Local Open Scope Z_scope.

(* ------------------------------------------------------------------ views *)
Definition entry := (value * option Z)%type.
Definition kview := bytes -> option entry.

Definition veq (V W : kview) : Prop := forall k, V k = W k.
Definition upd (V : kview) (k : bytes) (e : option entry) : kview :=
  fun k' => if bytes_eqb k' k then e else V k'.
Definition unchanged (V V' : kview) : Prop := veq V' V.

Definition vlive (V : kview) (k : bytes) : bool := match V k with Some _ => true | None => false end.

(* what a string command sees in a key *)
Inductive slot := Missing | Str (b : bytes) (t : option Z) | Other (v : value) (t : option Z).
Definition slot_of (V : kview) (k : bytes) : slot :=
  match V k with
  | None => Missing
  | Some (VStr b, t) => Str b t
  | Some (v, t) => Other v t
  end.

(* ------------------------------------------------------------------ reply classes *)
Fixpoint is_prefix (p s : bytes) : bool :=
  match p, s with
  | [], _ => true
  | a :: p', b :: s' => beqb a b && is_prefix p' s'
  | _ :: _, [] => false
  end.
Definition wrongtype_msg (s : bytes) : bool := is_prefix (B "WRONGTYPE") s.
Definition is_wrongtype (r : reply) : Prop := exists s, r = RErr s /\ wrongtype_msg s = true.
Definition is_error (r : reply) : Prop := exists s, r = RErr s /\ wrongtype_msg s = false.
Definition any_error (r : reply) : Prop := exists s, r = RErr s.

(* "ERR wrong number of arguments for '...' command" / "ERR syntax error" / "ERR value is not an
   integer or out of range": an error reply, and nothing changes. *)
Definition rejected (V : kview) (r : reply) (V' : kview) : Prop := is_error r /\ unchanged V V'.
Definition rejected_any (V : kview) (r : reply) (V' : kview) : Prop := any_error r /\ unchanged V V'.
Definition wrongtype (V : kview) (r : reply) (V' : kview) : Prop := is_wrongtype r /\ unchanged V V'.

(* ------------------------------------------------------------------ numerals *)
Definition digit_val (c : byte) : option Z :=
  let n := Z.of_N (bval c) in if (48 <=? n) && (n <=? 57) then Some (n - 48) else None.
Fixpoint horner (acc : Z) (s : bytes) : option Z :=
  match s with
  | [] => Some acc
  | c :: r => match digit_val c with Some v => horner (acc * 10 + v) r | None => None end
  end.
Definition udigits (s : bytes) : option Z := match s with [] => None | _ => horner 0 s end.
(* sign? digit+ , read in base ten *)
Definition sign_digits (s : bytes) : option Z :=
  match s with
  | "-"%byte :: r => match udigits r with Some n => Some (- n) | None => None end
  | "+"%byte :: r => udigits r
  | _ => udigits s
  end.

Definition reading := bytes -> option Z.
Definition admissible (rd : reading) : Prop :=
  (forall z, in_int64 z = true -> rd (z_to_dec z) = Some z) /\
  (forall s z, rd s = Some z -> in_int64 z = true /\ sign_digits s = Some z).

(* ------------------------------------------------------------------ GET *)
(* "Get the value of key. If the key does not exist the special value nil is returned. An error is
   returned if the value stored at key is not a string, because GET only handles string values." *)
Definition ref_get (V : kview) (k : bytes) (r : reply) (V' : kview) : Prop :=
  unchanged V V' /\
  match slot_of V k with
  | Missing => r = RNil
  | Str b _ => r = RBulk b
  | Other _ _ => is_wrongtype r
  end.

(* ------------------------------------------------------------------ SET *)
(* "SET key value [NX | XX] [GET] [EX seconds | PX milliseconds | EXAT unix-time-seconds | KEEPTTL]
    Set key to hold the string value. If key already holds a value, it is overwritten, regardless
    of its type. Any previous time to live associated with the key is discarded on successful SET
    operation.
    EX seconds -- Set the specified expire time, in seconds (a positive integer).
    PX milliseconds -- Set the specified expire time, in milliseconds (a positive integer).
    EXAT timestamp-seconds -- Set the specified Unix time at which the key will expire, in seconds
      (a positive integer).
    NX -- Only set the key if it does not already exist.  XX -- Only set the key if it already
      exists.  KEEPTTL -- Retain the time to live associated with the key.
    GET -- Return the old string stored at key, or nil if key did not exist. An error is returned
      and SET aborted if the value stored at key is not a string.
    Reply: OK if SET was executed correctly; nil if the SET operation was not performed because
    the user specified the NX or XX option but the condition was not met; with GET: the old
    string value, or nil if the key did not exist (also when NX stopped the write: 7.0)."
   Option words are case-insensitive.  The synopsis admits one of NX|XX and one of
   EX|PX|EXAT|KEEPTTL.  A REPEATED option lies outside the synopsis; like Redis the clause lets the
   last occurrence of an expiry option count, and (what the model does) demands that every expiry
   argument is a readable integer.  A deadline is kept in whole seconds: PX is rounded up.  An EXAT
   time that is not in the future deletes the key at once. *)
Inductive sopt := ONX | OXX | OGET | OKEEPTTL | OEX (a : bytes) | OPX (a : bytes) | OEXAT (a : bytes).

Fixpoint set_tokens (l : list bytes) : option (list sopt) :=
  match l with
  | [] => Some []
  | w :: r =>
    let lw := lower w in
    let cons1 (o : sopt) (x : option (list sopt)) := match x with Some ts => Some (o :: ts) | None => None end in
    if is lw (B "nx") then cons1 ONX (set_tokens r)
    else if is lw (B "xx") then cons1 OXX (set_tokens r)
    else if is lw (B "get") then cons1 OGET (set_tokens r)
    else if is lw (B "keepttl") then cons1 OKEEPTTL (set_tokens r)
    else if is lw (B "ex") then match r with a :: r' => cons1 (OEX a) (set_tokens r') | [] => None end
    else if is lw (B "px") then match r with a :: r' => cons1 (OPX a) (set_tokens r') | [] => None end
    else if is lw (B "exat") then match r with a :: r' => cons1 (OEXAT a) (set_tokens r') | [] => None end
    else None                                  (* unknown word / missing argument: syntax error *)
  end.

Definition t_nx (ts : list sopt) := existsb (fun o => match o with ONX => true | _ => false end) ts.
Definition t_xx (ts : list sopt) := existsb (fun o => match o with OXX => true | _ => false end) ts.
Definition t_get (ts : list sopt) := existsb (fun o => match o with OGET => true | _ => false end) ts.
Definition t_keep (ts : list sopt) := existsb (fun o => match o with OKEEPTTL => true | _ => false end) ts.
Definition t_ex (ts : list sopt) : list bytes :=
  flat_map (fun o => match o with OEX a => [a] | _ => [] end) ts.
Definition t_px (ts : list sopt) : list bytes :=
  flat_map (fun o => match o with OPX a => [a] | _ => [] end) ts.
Definition t_exat (ts : list sopt) : list bytes :=
  flat_map (fun o => match o with OEXAT a => [a] | _ => [] end) ts.

Definition nonempty {A} (l : list A) : bool := match l with [] => false | _ => true end.
(* number of different expiry options used *)
Definition expiry_kinds (ts : list sopt) : Z :=
  (if t_keep ts then 1 else 0) + (if nonempty (t_ex ts) then 1 else 0)
  + (if nonempty (t_px ts) then 1 else 0) + (if nonempty (t_exat ts) then 1 else 0).

(* every expiry argument is a readable integer *)
Definition all_read (rd : reading) (l : list bytes) : bool :=
  forallb (fun a => match rd a with Some _ => true | None => false end) l.
(* value of the last occurrence *)
Fixpoint last_read (rd : reading) (l : list bytes) : option Z :=
  match l with
  | [] => None
  | a :: r => match r with [] => rd a | _ => last_read rd r end
  end.

(* the deadline the options ask for: None = no expiry option; Some None = invalid expire time *)
Definition set_deadline (rd : reading) (now : Z) (ts : list sopt) : option (option Z) :=
  match last_read rd (t_ex ts), last_read rd (t_px ts), last_read rd (t_exat ts) with
  | Some n, _, _ => Some (if (0 <? n) && in_int64 (now + n) then Some (now + n) else None)
  | _, Some n, _ => Some (if 0 <? n then Some (now + (n + 999) / 1000) else None)
  | _, _, Some n => Some (if 0 <? n then Some n else None)
  | None, None, None => None
  end.

(* the view after the value has been written with deadline [t] *)
Definition written (V : kview) (now : Z) (k v : bytes) (t : option Z) : kview :=
  match t with
  | Some d => if d <=? now then upd V k None else upd V k (Some (VStr v, Some d))
  | None => upd V k (Some (VStr v, None))
  end.

Definition ref_set (rd : reading) (V : kview) (now : Z) (k v : bytes) (opts : list bytes)
           (r : reply) (V' : kview) : Prop :=
  match set_tokens opts with
  | None => rejected V r V'                                            (* syntax error *)
  | Some ts =>
    if (t_nx ts && t_xx ts) || (1 <? expiry_kinds ts)
       || negb (all_read rd (t_ex ts) && all_read rd (t_px ts) && all_read rd (t_exat ts))
    then rejected V r V'                                               (* syntax error / not an integer *)
    else
      match set_deadline rd now ts with
      | Some None => rejected V r V'                                   (* invalid expire time *)
      | dl =>
        let old_t := match V k with Some (_, t) => t | None => None end in
        let t := match dl with Some (Some d) => Some d | _ => if t_keep ts then old_t else None end in
        let did_write (ok : reply) := r = ok /\ veq V' (written V now k v t) in
        let not_written (rep : reply) := r = rep /\ unchanged V V' in
        match slot_of V k with
        | Missing =>
          if t_xx ts then not_written RNil
          else did_write (if t_get ts then RNil else rOK)
        | Str b _ =>
          if t_nx ts then not_written (if t_get ts then RBulk b else RNil)
          else did_write (if t_get ts then RBulk b else rOK)
        | Other _ _ =>
          if t_get ts then wrongtype V r V'                            (* "SET aborted" *)
          else if t_nx ts then not_written RNil
          else did_write rOK                                           (* overwritten regardless of its type *)
        end
      end
  end.

(* ------------------------------------------------------------------ SETNX / SETEX *)
(* "Set key to hold string value if key does not exist. In that case, it is equal to SET. When key
   already holds a value, no operation is performed.  Reply: 1 if the key was set, 0 if the key
   was not set." *)
Definition ref_setnx (V : kview) (k v : bytes) (r : reply) (V' : kview) : Prop :=
  match V k with
  | None => r = RInt 1 /\ veq V' (upd V k (Some (VStr v, None)))
  | Some _ => r = RInt 0 /\ unchanged V V'
  end.

(* "Set key to hold the string value and set key to timeout after a given number of seconds.
   This command is equivalent to SET key value EX seconds.  An error is returned when seconds is
   invalid." *)
Definition ref_setex (rd : reading) (V : kview) (now : Z) (k secs v : bytes) (r : reply) (V' : kview) : Prop :=
  match rd secs with
  | None => rejected V r V'
  | Some n =>
    if (0 <? n) && in_int64 (now + n)
    then r = rOK /\ veq V' (upd V k (Some (VStr v, Some (now + n))))
    else rejected V r V'
  end.

(* ------------------------------------------------------------------ MSET / MGET *)
(* "Sets the given keys to their respective values. MSET replaces existing values with new values,
   just as regular SET. MSET is atomic, so all given keys are set at once. Reply: always OK."
   (as with SET, the previous time to live is discarded; a key given twice keeps its last value) *)
Fixpoint pairs_of (l : list bytes) : option (list (bytes * bytes)) :=
  match l with
  | [] => Some []
  | k :: v :: r => match pairs_of r with Some ps => Some ((k, v) :: ps) | None => None end
  | [_] => None
  end.
Definition mset_view (V : kview) (ps : list (bytes * bytes)) : kview :=
  fold_left (fun W p => upd W (fst p) (Some (VStr (snd p), None))) ps V.
Definition ref_mset (V : kview) (rest : list bytes) (r : reply) (V' : kview) : Prop :=
  match pairs_of rest with
  | Some ((_ :: _) as ps) => r = rOK /\ veq V' (mset_view V ps)
  | _ => rejected V r V'                                              (* wrong number of arguments *)
  end.

(* "Returns the values of all specified keys. For every key that does not hold a string value or
   does not exist, the special value nil is returned. Because of this, the operation never fails." *)
Definition ref_mget (V : kview) (keys : list bytes) (r : reply) (V' : kview) : Prop :=
  match keys with
  | [] => rejected V r V'
  | _ => unchanged V V' /\
         r = RArr (map (fun k => match slot_of V k with Str b _ => RBulk b | _ => RNil end) keys)
  end.

(* ------------------------------------------------------------------ APPEND / STRLEN *)
Definition max_len : Z := 512 * 1024 * 1024.

(* "If key already exists and is a string, this command appends the value at the end of the string.
   If key does not exist it is created and set as an empty string, so APPEND will be similar to SET
   in this special case.  Reply: the length of the string after the append operation."
   A string value is limited to 512 MB ("ERR string exceeds maximum allowed size"). The time to
   live of an existing key is not touched. *)
Definition ref_append (V : kview) (k v : bytes) (r : reply) (V' : kview) : Prop :=
  match slot_of V k with
  | Missing => r = RInt (zlength v) /\ veq V' (upd V k (Some (VStr v, None)))
  | Str b t =>
    if zlength b + zlength v <=? max_len
    then r = RInt (zlength b + zlength v) /\ veq V' (upd V k (Some (VStr (b ++ v), t)))
    else rejected V r V'
  | Other _ _ => wrongtype V r V'
  end.

(* "Returns the length of the string value stored at key. An error is returned when key holds a
   non-string value.  Reply: the length of the string at key, or 0 when key does not exist." *)
Definition ref_strlen (V : kview) (k : bytes) (r : reply) (V' : kview) : Prop :=
  unchanged V V' /\
  match slot_of V k with
  | Missing => r = RInt 0
  | Str b _ => r = RInt (zlength b)
  | Other _ _ => is_wrongtype r
  end.

(* ------------------------------------------------------------------ GETRANGE / SETRANGE *)
(* "Returns the substring of the string value stored at key, determined by the offsets start and
   end (both are inclusive). Negative offsets can be used in order to provide an offset starting
   from the end of the string. So -1 means the last character, -2 the penultimate and so forth.
   The function handles out of range requests by limiting the resulting range to the actual length
   of the string."  A missing key reads as the empty string.
   Encoded as: the requested positions [norm start .. norm end] intersected with [0 .. len-1].
   (Redis up to 7 answers the first byte for a range lying entirely before the string, e.g.
   GETRANGE "hello" -100 -50; the sentence above prescribes the empty intersection.) *)
Definition norm_index (len i : Z) : Z := if i <? 0 then len + i else i.
Definition sub (b : bytes) (lo n : Z) : bytes := firstn (Z.to_nat n) (skipn (Z.to_nat lo) b).
Definition getrange_of (b : bytes) (s e : Z) : bytes :=
  let len := zlength b in
  let lo := Z.max 0 (norm_index len s) in
  let hi := Z.min (len - 1) (norm_index len e) in
  if lo <=? hi then sub b lo (hi - lo + 1) else [].

Definition ref_getrange (rd : reading) (V : kview) (k s e : bytes) (r : reply) (V' : kview) : Prop :=
  unchanged V V' /\
  match rd s, rd e with
  | Some s, Some e =>
    match slot_of V k with
    | Missing => r = RBulk []
    | Str b _ => r = RBulk (getrange_of b s e)
    | Other _ _ => is_wrongtype r
    end
  | _, _ =>                                   (* "ERR value is not an integer or out of range" *)
    match slot_of V k with
    | Missing => r = RBulk [] \/ is_error r   (* the reference does not order the two tests *)
    | Str _ _ => is_error r
    | Other _ _ => any_error r
    end
  end.

(* "Overwrites part of the string stored at key, starting at the specified offset, for the entire
   length of value. If the offset is larger than the current length of the string at key, the
   string is padded with zero-bytes to make offset fit. Non-existing keys are considered as empty
   strings, so this command will make sure it holds a string large enough to be able to set value
   at offset. Note that the maximum offset that you can set is 2^29 -1 (536870911), as Redis
   Strings are limited to 512 megabytes.  Reply: the length of the string after it was modified
   by the command."  Writing the empty value changes nothing (and creates nothing): the reply is the
   current length. *)
Definition nul : byte := "000"%byte.
Definition setrange_of (old : bytes) (off : Z) (v : bytes) : bytes :=
  let pad := repeat nul (Z.to_nat (off - zlength old)) in
  firstn (Z.to_nat off) (old ++ pad) ++ v ++ skipn (Z.to_nat (off + zlength v)) old.

Definition ref_setrange (rd : reading) (V : kview) (k off v : bytes) (r : reply) (V' : kview) : Prop :=
  match rd off with
  | None => rejected V r V'
  | Some o =>
    if o <? 0 then rejected V r V'                                     (* "offset is out of range" *)
    else
      let go (old : bytes) (t : option Z) :=
        if zlength v =? 0 then r = RInt (zlength old) /\ unchanged V V'
        else if o + zlength v <=? max_len
        then r = RInt (zlength (setrange_of old o v)) /\
             veq V' (upd V k (Some (VStr (setrange_of old o v), t)))
        else rejected V r V' in
      match slot_of V k with
      | Missing => go [] None
      | Str b t => go b t
      | Other _ _ => wrongtype V r V'
      end
  end.

(* ------------------------------------------------------------------ INCR family *)
(* "Increments the number stored at key by one. If the key does not exist, it is set to 0 before
   performing the operation. An error is returned if the key contains a value of the wrong type or
   contains a string that can not be represented as integer. This operation is limited to 64 bit
   signed integers.  Reply: the value of key after the increment."  (DECR, INCRBY, DECRBY: the
   same with -1, +n, -n.)  The new value is stored as its canonical decimal; the time to live is
   not touched.  A result outside the int64 range is an error ("increment or decrement would
   overflow") and nothing is stored: no wrap-around. *)
Definition ref_incr (rd : reading) (V : kview) (k : bytes) (delta : Z) (r : reply) (V' : kview) : Prop :=
  match slot_of V k with
  | Missing => r = RInt delta /\ veq V' (upd V k (Some (VStr (z_to_dec delta), None)))
  | Str b t =>
    match rd b with
    | None => rejected V r V'                       (* "value is not an integer or out of range" *)
    | Some n =>
      if in_int64 (n + delta)
      then r = RInt (n + delta) /\ veq V' (upd V k (Some (VStr (z_to_dec (n + delta)), t)))
      else rejected V r V'
    end
  | Other _ _ => wrongtype V r V'
  end.

(* INCRBY / DECRBY key n : the amount must be a readable integer (and -n must exist in int64) *)
Definition ref_incrby (rd : reading) (V : kview) (neg : bool) (k a : bytes) (r : reply) (V' : kview) : Prop :=
  match rd a with
  | None => rejected V r V'
  | Some n =>
    let delta := if neg then - n else n in
    if in_int64 delta then ref_incr rd V k delta r V' else rejected V r V'
  end.

(* ------------------------------------------------------------------ INCRBYFLOAT *)
(* "Increment the string representing a floating point number stored at key by the specified
   increment. If the key does not exist, it is set to 0 before performing the operation. An error
   is returned if the key contains a value of the wrong type, or the current key content or the
   specified increment are not parsable as a double precision floating point number.  If the
   command is successful the new incremented value is stored as the new value of the key
   (replacing the old one), and returned to the caller as a string.  ... the value after the
   increment is stored as non-exponential form, trailing zeroes are always removed."
   The clause is EXACT on plain decimals  sign? digit+ ("." digit+)?  denoting m * 10^-e with at
   most 15 significant digits that a binary double holds exactly (5^e | m), when the exact sum is
   again such a number: reply and stored value are the canonical decimal of the exact sum
   ([decimal_of]).  Outside that domain (exponent notation, other spellings, sums that need
   binary rounding) the clause only demands the SHAPE of the outcome: an error and no change, or a
   bulk string that is stored as the new value with the time to live kept.  [fl] classifies an
   argument: [DIn m e] (in the exact domain), [DInvalid] (certainly not a number), [DOut]. *)
Inductive dclass := DIn (m : Z) (e : N) | DInvalid | DOut.

Definition ref_incrbyfloat (fl : bytes -> dclass) (add : Z -> N -> Z -> N -> option (Z * N))
           (decimal_of : Z -> N -> bytes)
           (V : kview) (k inc : bytes) (r : reply) (V' : kview) : Prop :=
  let stored (s : bytes) (t : option Z) := r = RBulk s /\ veq V' (upd V k (Some (VStr s, t))) in
  let shape_only (t : option Z) := (any_error r /\ unchanged V V') \/ exists s, stored s t in
  match fl inc with
  | DInvalid => rejected V r V'
  | DOut =>
    match slot_of V k with
    | Missing => shape_only None
    | Str _ t => shape_only t
    | Other _ _ => rejected_any V r V'
    end
  | DIn mi ei =>
    match slot_of V k with
    | Missing => stored (decimal_of mi ei) None
    | Str b t =>
      match fl b with
      | DInvalid => rejected V r V'
      | DOut => shape_only t
      | DIn mv ev =>
        match add mv ev mi ei with
        | Some (m, e) => stored (decimal_of m e) t
        | None => shape_only t
        end
      end
    | Other _ _ => wrongtype V r V'
    end
  end.

(* ------------------------------------------------------------------ DEL / EXISTS / TYPE *)
(* "Removes the specified keys. A key is ignored if it does not exist.  Reply: the number of keys
   that were removed."  (a key named twice is removed, and counted, once) *)
Definition mentions (keys : list bytes) (k : bytes) : bool := existsb (bytes_eqb k) keys.
Definition ref_del (V : kview) (keys : list bytes) (r : reply) (V' : kview) : Prop :=
  match keys with
  | [] => rejected V r V'
  | _ => r = RInt (zlength (filter (vlive V) (nodup bytes_eq_dec keys))) /\
         veq V' (fun k => if mentions keys k then None else V k)
  end.

(* "Returns if key exists. The user should be aware that if the same existing key is mentioned in
   the arguments multiple times, it will be counted multiple times. So if somekey exists,
   EXISTS somekey somekey will return 2." *)
Definition ref_exists (V : kview) (keys : list bytes) (r : reply) (V' : kview) : Prop :=
  match keys with
  | [] => rejected V r V'
  | _ => unchanged V V' /\ r = RInt (zlength (filter (vlive V) keys))
  end.

(* "Returns the string representation of the type of the value stored at key. The different types
   that can be returned are: string, list, set, zset, hash and stream.  Reply (simple string): the
   type of key, or none when key doesn't exist." *)
Definition ref_type_name (v : value) : bytes :=
  match v with
  | VStr _ => B "string" | VList _ => B "list" | VSet _ => B "set"
  | VZSet _ => B "zset" | VHash _ => B "hash" | VStream _ => B "stream"
  end.
Definition ref_type (V : kview) (k : bytes) (r : reply) (V' : kview) : Prop :=
  unchanged V V' /\
  match V k with
  | None => r = RSimple (B "none")
  | Some (v, _) => r = RSimple (ref_type_name v)
  end.

(* ------------------------------------------------------------------ RENAME / KEYS / PING *)
(* "Renames key to newkey. It returns an error when key does not exist. If newkey already exists
   it is overwritten, when this happens RENAME executes an implicit DEL operation.  (History: before
   3.2.0 an error is returned if source and destination names are the same.)"  The value of any
   type moves with its time to live; what newkey held, and its time to live, are gone.  Renaming
   a key onto itself leaves the keyspace as it is. *)
Definition ref_rename (V : kview) (old new : bytes) (r : reply) (V' : kview) : Prop :=
  match V old with
  | None => rejected V r V'                                          (* "ERR no such key" *)
  | Some e => r = rOK /\ veq V' (upd (upd V old None) new (Some e))
  end.

(* "Returns all keys matching pattern."  (glob-style: Glob/GlobSpec.v, property C17.)  The order of
   the reply is unspecified; every live key in the language of the pattern appears exactly once. *)
Definition ref_keys (V : kview) (p : bytes) (r : reply) (V' : kview) : Prop :=
  unchanged V V' /\
  exists ks, r = RArr (map RBulk ks) /\ NoDup ks /\
             forall k, In k ks <-> (V k <> None /\ glob_matches p k).

(* "Returns PONG if no argument is provided, otherwise return a copy of the argument as a bulk." *)
Definition ref_ping (V : kview) (rest : list bytes) (r : reply) (V' : kview) : Prop :=
  match rest with
  | [] => r = RSimple (B "PONG") /\ unchanged V V'
  | [m] => r = RBulk m /\ unchanged V V'
  | _ => rejected V r V'
  end.

(* ------------------------------------------------------------------ one step *)
(* The decimal arithmetic of INCRBYFLOAT is a parameter of the step relation (it is instantiated
   in StringsProofs.v with the decimal library of Mem/Strings.v, whose arithmetic is validated
   there against Z). *)
Record floatlib := mkFloatLib {
  fl_class : bytes -> dclass;
  fl_add : Z -> N -> Z -> N -> option (Z * N);
  fl_fmt : Z -> N -> bytes }.

(* Command names are case-insensitive.  A wrong number of arguments is an error and changes
   nothing.  A command that is not one of the property's commands is not constrained here. *)
Definition ref_step (rd : reading) (F : floatlib) (V : kview) (now : Z) (args : list bytes)
           (r : reply) (V' : kview) : Prop :=
  match args with
  | [] => True
  | c :: rest =>
    let n := lower c in
    if is n (B "get") then match rest with [k] => ref_get V k r V' | _ => rejected V r V' end
    else if is n (B "set") then
      match rest with k :: v :: opts => ref_set rd V now k v opts r V' | _ => rejected V r V' end
    else if is n (B "setnx") then match rest with [k; v] => ref_setnx V k v r V' | _ => rejected V r V' end
    else if is n (B "setex") then
      match rest with [k; s; v] => ref_setex rd V now k s v r V' | _ => rejected V r V' end
    else if is n (B "mset") then ref_mset V rest r V'
    else if is n (B "mget") then ref_mget V rest r V'
    else if is n (B "append") then match rest with [k; v] => ref_append V k v r V' | _ => rejected V r V' end
    else if is n (B "strlen") then match rest with [k] => ref_strlen V k r V' | _ => rejected V r V' end
    else if is n (B "getrange") then
      match rest with [k; s; e] => ref_getrange rd V k s e r V' | _ => rejected V r V' end
    else if is n (B "setrange") then
      match rest with [k; o; v] => ref_setrange rd V k o v r V' | _ => rejected V r V' end
    else if is n (B "incr") then match rest with [k] => ref_incr rd V k 1 r V' | _ => rejected V r V' end
    else if is n (B "decr") then match rest with [k] => ref_incr rd V k (-1) r V' | _ => rejected V r V' end
    else if is n (B "incrby") then
      match rest with [k; a] => ref_incrby rd V false k a r V' | _ => rejected V r V' end
    else if is n (B "decrby") then
      match rest with [k; a] => ref_incrby rd V true k a r V' | _ => rejected V r V' end
    else if is n (B "incrbyfloat") then
      match rest with
      | [k; a] => ref_incrbyfloat (fl_class F) (fl_add F) (fl_fmt F) V k a r V'
      | _ => rejected V r V' end
    else if is n (B "del") then ref_del V rest r V'
    else if is n (B "exists") then ref_exists V rest r V'
    else if is n (B "type") then match rest with [k] => ref_type V k r V' | _ => rejected V r V' end
    else if is n (B "rename") then
      match rest with [o; nw] => ref_rename V o nw r V' | _ => rejected V r V' end
    else if is n (B "keys") then match rest with [p] => ref_keys V p r V' | _ => rejected V r V' end
    else if is n (B "ping") then ref_ping V rest r V'
    else True
  end.

Definition c01_names : list bytes :=
  [B "get"; B "set"; B "setnx"; B "setex"; B "mset"; B "mget"; B "append"; B "strlen";
   B "getrange"; B "setrange"; B "incr"; B "decr"; B "incrby"; B "decrby"; B "incrbyfloat";
   B "del"; B "exists"; B "type"; B "rename"; B "keys"; B "ping"].
Definition c01_command (args : list bytes) : bool :=
  match args with [] => false | c :: _ => existsb (is (lower c)) c01_names end.

(* the keys a command names (every other key is outside its footprint) *)
Fixpoint odd_positions (l : list bytes) : list bytes :=
  match l with k :: _ :: r => k :: odd_positions r | [k] => [k] | [] => [] end.
Definition keys_named (args : list bytes) : list bytes :=
  match args with
  | [] => []
  | c :: rest =>
    let n := lower c in
    if is n (B "mset") then odd_positions rest
    else if is n (B "mget") || is n (B "del") || is n (B "exists") then rest
    else if is n (B "rename") then firstn 2 rest
    else if is n (B "keys") || is n (B "ping") then []
    else firstn 1 rest
  end.
