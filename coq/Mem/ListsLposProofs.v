(* LPOS: the executable scan [lpos_scan] computes the reference enumeration
   (all hits, MAXLEN filter, RANK skip, COUNT take). *)
Require Import Base.Bytes Base.GoInt Base.Reply Mem.Types Mem.Lists Mem.ListsSpec.
Require Import Lia ZArith List.
Import ListNotations.
Local Open Scope Z_scope.

Definition lpos_flt (ml : Z) (h : list Z) : list Z :=
  if ml =? 0 then h else filter (fun i => i <? ml) h.

Definition lpos_take (want : option Z) (found : Z) (h : list Z) : list Z :=
  match want with
  | None => firstn 1 h
  | Some c => if c =? 0 then h else firstn (Z.to_nat (c - found)) h
  end.

Lemma hits_from_ge i v l x : In x (hits_from i v l) -> i <= x.
Proof.
  revert i; induction l as [|y r IH]; intros i H; cbn [hits_from] in H.
  - destruct H.
  - destruct (bytes_eqb y v).
    + destruct H as [H|H]; [lia | apply IH in H; lia].
    + apply IH in H; lia.
Qed.

Lemma hits_from_bounds i v l x : In x (hits_from i v l) -> i <= x < i + zlength l.
Proof.
  revert i; induction l as [|y r IH]; intros i H; cbn [hits_from] in H.
  - destruct H.
  - unfold zlength in *; cbn [length]; rewrite Nat2Z.inj_succ.
    destruct (bytes_eqb y v).
    + destruct H as [H|H]; [lia | apply IH in H; lia].
    + apply IH in H; lia.
Qed.

Lemma filter_lt_nil ml h : (forall x, In x h -> ml <= x) -> filter (fun i => i <? ml) h = [].
Proof.
  induction h as [|a h IH]; intros H; cbn [filter]; [reflexivity|].
  destruct (a <? ml) eqn:E.
  - apply Z.ltb_lt in E. specialize (H a (or_introl eq_refl)). lia.
  - apply IH. intros x Hx. apply H. right; exact Hx.
Qed.

Lemma lpos_take_nil want found : lpos_take want found [] = [].
Proof.
  unfold lpos_take. destruct want as [c|]; [|reflexivity].
  destruct (c =? 0); [reflexivity|]. apply firstn_nil.
Qed.

Lemma lpos_flt_cons_keep ml a h : (ml = 0 \/ a < ml) -> lpos_flt ml (a :: h) = a :: lpos_flt ml h.
Proof.
  intros H. unfold lpos_flt. destruct (ml =? 0) eqn:E; [reflexivity|].
  apply Z.eqb_neq in E. cbn [filter].
  destruct (a <? ml) eqn:E2; [reflexivity|]. apply Z.ltb_ge in E2. lia.
Qed.

Lemma lpos_scan_gen : forall (l : list bytes) (v : bytes) (idx m rk ml : Z) (want : option Z) (found : Z),
  0 <= ml ->
  (match want with Some c => 0 <= c /\ (c <> 0 -> found < c) | None => True end) ->
  lpos_scan l v idx m rk ml want found =
  lpos_take want found (skipn (Z.to_nat (rk - 1 - m)) (lpos_flt ml (hits_from idx v l))).
Proof.
  induction l as [|x r IH]; intros v idx m rk ml want found Hml Hw.
  - cbn [lpos_scan hits_from]. unfold lpos_flt. destruct (ml =? 0); cbn [filter];
      rewrite skipn_nil, lpos_take_nil; reflexivity.
  - cbn [lpos_scan hits_from].
    destruct (ml =? 0) eqn:Eml; cbn [negb andb].
    + apply Z.eqb_eq in Eml.
      destruct (bytes_eqb x v).
      * rewrite lpos_flt_cons_keep by (left; exact Eml).
        cbv zeta.
        destruct (m + 1 >=? rk) eqn:Er; rewrite Z.geb_leb in Er;
          [apply Z.leb_le in Er | apply Z.leb_gt in Er].
        -- replace (Z.to_nat (rk - 1 - m)) with 0%nat by lia. cbn [skipn].
           destruct want as [c|].
           ++ unfold lpos_take at 1.
              destruct (c =? 0) eqn:Ec; cbn [negb andb].
              ** rewrite IH by (try exact Hml; apply Z.eqb_eq in Ec; lia).
                 replace (Z.to_nat (rk - 1 - (m + 1))) with 0%nat by lia. cbn [skipn].
                 unfold lpos_take. rewrite Ec. reflexivity.
              ** apply Z.eqb_neq in Ec.
                 destruct (found + 1 >=? c) eqn:Ef; rewrite Z.geb_leb in Ef;
                   [apply Z.leb_le in Ef | apply Z.leb_gt in Ef].
                 --- replace (Z.to_nat (c - found)) with 1%nat by lia. reflexivity.
                 --- rewrite IH by (try exact Hml; lia).
                     replace (Z.to_nat (rk - 1 - (m + 1))) with 0%nat by lia. cbn [skipn].
                     unfold lpos_take. apply Z.eqb_neq in Ec. rewrite Ec.
                     replace (Z.to_nat (c - found)) with (S (Z.to_nat (c - (found + 1)))) by lia.
                     reflexivity.
           ++ reflexivity.
        -- replace (Z.to_nat (rk - 1 - m)) with (S (Z.to_nat (rk - 1 - (m + 1)))) by lia.
           cbn [skipn]. apply IH; assumption.
      * apply IH; assumption.
    + apply Z.eqb_neq in Eml.
      destruct (idx >=? ml) eqn:Ei; rewrite Z.geb_leb in Ei;
        [apply Z.leb_le in Ei | apply Z.leb_gt in Ei].
      * unfold lpos_flt. destruct (ml =? 0) eqn:E0; [apply Z.eqb_eq in E0; lia|].
        rewrite filter_lt_nil.
        -- rewrite skipn_nil, lpos_take_nil. reflexivity.
        -- intros y Hy. change (In y (hits_from idx v (x :: r))) in Hy.
           apply hits_from_ge in Hy. lia.
      * destruct (bytes_eqb x v).
        -- rewrite lpos_flt_cons_keep by (right; exact Ei).
           cbv zeta.
           destruct (m + 1 >=? rk) eqn:Er; rewrite Z.geb_leb in Er;
             [apply Z.leb_le in Er | apply Z.leb_gt in Er].
           ++ replace (Z.to_nat (rk - 1 - m)) with 0%nat by lia. cbn [skipn].
              destruct want as [c|].
              ** unfold lpos_take at 1.
                 destruct (c =? 0) eqn:Ec; cbn [negb andb].
                 --- rewrite IH by (try exact Hml; apply Z.eqb_eq in Ec; lia).
                     replace (Z.to_nat (rk - 1 - (m + 1))) with 0%nat by lia. cbn [skipn].
                     unfold lpos_take. rewrite Ec. reflexivity.
                 --- apply Z.eqb_neq in Ec.
                     destruct (found + 1 >=? c) eqn:Ef; rewrite Z.geb_leb in Ef;
                       [apply Z.leb_le in Ef | apply Z.leb_gt in Ef].
                     +++ replace (Z.to_nat (c - found)) with 1%nat by lia. reflexivity.
                     +++ rewrite IH by (try exact Hml; lia).
                         replace (Z.to_nat (rk - 1 - (m + 1))) with 0%nat by lia. cbn [skipn].
                         unfold lpos_take. apply Z.eqb_neq in Ec. rewrite Ec.
                         replace (Z.to_nat (c - found)) with (S (Z.to_nat (c - (found + 1)))) by lia.
                         reflexivity.
              ** reflexivity.
           ++ replace (Z.to_nat (rk - 1 - m)) with (S (Z.to_nat (rk - 1 - (m + 1)))) by lia.
              cbn [skipn]. apply IH; assumption.
        -- apply IH; assumption.
Qed.

Lemma lpos_scan_ref : forall (l : list bytes) (v : bytes) (rk ml : Z) (want : option Z),
  1 <= rk -> 0 <= ml -> (match want with Some c => 0 <= c | None => True end) ->
  lpos_scan l v 0 0 rk ml want 0 =
  let h0 := hits_from 0 v l in
  let h1 := if ml =? 0 then h0 else filter (fun i => i <? ml) h0 in
  let h2 := skipn (Z.to_nat (rk - 1)) h1 in
  match want with
  | None => firstn 1 h2
  | Some c => if c =? 0 then h2 else firstn (Z.to_nat c) h2
  end.
Proof.
  intros l v rk ml want Hrk Hml Hw. cbv zeta.
  rewrite lpos_scan_gen by first [exact Hml | destruct want; [lia | exact I]].
  unfold lpos_take, lpos_flt. rewrite Z.sub_0_r.
  destruct want as [c|]; [rewrite Z.sub_0_r|]; reflexivity.
Qed.

Print Assumptions lpos_scan_ref.
